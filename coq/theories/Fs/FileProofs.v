(* Theorems of property C02 about the IMPLEMENTATION model (MemFile.v) and its
   refinement of the SPECIFICATION (FileSpec.v) outside the classified deviations
   (FileKf.kf02).  Part A: the "in particular" clauses, for all offsets, sizes,
   lengths and contents.  Part B: the step refinement and its lifting to histories. *)
From Avfs Require Import Base PathModel MemFS MemFile World FileSpec FileKf.
From Coq Require Import Permutation.
Set Implicit Arguments.

Local Open Scope Z_scope.

(* ======================================================================= *)
(* bytes                                                                   *)
(* ======================================================================= *)
Lemma zeros_length n : length (zeros n) = n.
Proof. apply repeat_length. Qed.

Lemma nth_error_firstn_lt {A} (l : list A) n i : (i < n)%nat -> nth_error (firstn n l) i = nth_error l i.
Proof.
  revert n i; induction l as [|x l IH]; intros [|n] [|i] H; cbn; try lia; auto.
  apply IH; lia.
Qed.

Lemma nth_error_skipn_add {A} (l : list A) n i : nth_error (skipn n l) i = nth_error l (n + i).
Proof.
  revert n; induction l as [|x l IH]; intros [|n]; cbn; auto.
  - now destruct i.
Qed.

Lemma write_at_data_put d at_ b : write_at_data d at_ b = put_bytes d at_ b.
Proof.
  unfold write_at_data, put_bytes, zeros.
  destruct (Nat.ltb_spec (length d) at_) as [Hlt|Hge].
  - rewrite (firstn_all2 (n := at_) d) by lia.
    rewrite firstn_all2 by (rewrite app_length, repeat_length; lia).
    rewrite (skipn_all2 (n := (at_ + length b)%nat) d) by lia.
    rewrite skipn_all2 by (rewrite app_length, repeat_length; lia).
    now rewrite <- app_assoc.
  - replace (at_ - length d)%nat with 0%nat by lia. reflexivity.
Qed.

Lemma truncate_data_resize d size : 0 <= size -> truncate_data d size = resize d (Z.to_nat size).
Proof.
  intros Hs. unfold truncate_data, resize, zeros.
  destruct (Z.eqb_spec size 0) as [->|Hne].
  - reflexivity.
  - destruct (Nat.ltb_spec (length d) (Z.to_nat size)) as [Hlt|Hge].
    + now rewrite firstn_all2 by lia.
    + replace (Z.to_nat size - length d)%nat with 0%nat by lia. cbn [repeat]. now rewrite app_nil_r.
Qed.

Lemma put_bytes_length d pos b :
  length (put_bytes d pos b) = Nat.max (length d) (pos + length b).
Proof.
  unfold put_bytes. rewrite !app_length, firstn_length, zeros_length, skipn_length. lia.
Qed.

(* byte by byte: what a write of b at position pos leaves in the file *)
Lemma put_bytes_nth d pos b i :
  nth_error (put_bytes d pos b) i =
    if Nat.ltb i pos then (if Nat.ltb i (length d) then nth_error d i else Some 0%N)
    else if Nat.ltb i (pos + length b) then nth_error b (i - pos)
    else nth_error d i.
Proof.
  unfold put_bytes.
  destruct (Nat.ltb_spec i pos) as [Hlt|Hge].
  - destruct (Nat.ltb_spec i (length d)) as [Hl|Hg].
    + rewrite nth_error_app1 by (rewrite firstn_length; lia).
      now rewrite nth_error_firstn_lt by lia.
    + rewrite nth_error_app2 by (rewrite firstn_length; lia).
      rewrite firstn_length, Nat.min_r by lia.
      rewrite nth_error_app1 by (rewrite zeros_length; lia).
      unfold zeros. now rewrite nth_error_repeat by lia.
  - rewrite nth_error_app2 by (rewrite firstn_length; lia).
    rewrite firstn_length.
    rewrite nth_error_app2 by (rewrite zeros_length; lia).
    rewrite zeros_length.
    replace (i - Nat.min pos (length d) - (pos - length d))%nat with (i - pos)%nat by lia.
    destruct (Nat.ltb_spec i (pos + length b)) as [Hb|Hb].
    + now rewrite nth_error_app1 by lia.
    + rewrite nth_error_app2 by lia.
      rewrite nth_error_skipn_add. f_equal. lia.
Qed.

(* beyond the end: old bytes, zeros up to pos, then b *)
Lemma put_bytes_beyond d pos b :
  (length d <= pos)%nat -> put_bytes d pos b = d ++ zeros (pos - length d) ++ b.
Proof.
  intros H. unfold put_bytes.
  rewrite firstn_all2 by lia. rewrite skipn_all2 by lia. now rewrite app_nil_r.
Qed.

Lemma put_bytes_at_end d b : put_bytes d (length d) b = d ++ b.
Proof. rewrite put_bytes_beyond by lia. now rewrite Nat.sub_diag. Qed.

(* ======================================================================= *)
(* heap                                                                    *)
(* ======================================================================= *)
Lemma get_upd_same h i n : (i < length h)%nat -> get (upd h i n) i = Some n.
Proof.
  unfold get. revert i; induction h as [|x h IH]; intros [|i] Hi; cbn in *; try lia; auto.
  apply IH; lia.
Qed.

Lemma get_upd_other h i j n : i <> j -> get (upd h i n) j = get h j.
Proof.
  unfold get. revert i j; induction h as [|x h IH]; intros [|i] [|j] Hne; cbn; auto; try congruence.
Qed.

Lemma get_some_lt h i n : get h i = Some n -> (i < length h)%nat.
Proof. unfold get. intros H. apply nth_error_Some. congruence. Qed.

Lemma upd_length h i n : length (upd h i n) = length h.
Proof. revert i; induction h as [|x h IH]; intros [|i]; cbn; auto. Qed.

(* ======================================================================= *)
(* Part A - the property's "in particular" clauses on the implementation model *)
(* ======================================================================= *)
Section Clauses.
  Variables (s : fsys) (v : view) (f : handle) (c : nat).
  Variables (d : list N) (k : Z) (i : N) (m : meta).
  Hypothesis Hname : hd_name f <> [].
  Hypothesis Hnode : hd_node f = Some c.
  Hypothesis Hfile : get (f_heap s) c = Some (NFile d k i m).

  Let isw := win v.

  Lemma file_of_c : file_of s c = Some (d, k, i, m).
  Proof. unfold file_of. now rewrite Hfile. Qed.

  (* Write on a handle open for writing: the implementation writes at the current end when the handle is
     in append mode, at the handle's offset otherwise, and the file afterwards is put_bytes - byte by
     byte described by put_bytes_nth: old bytes, ZEROS in [size, pos), then b. *)
  Lemma f_write_ok b :
    has (hd_mode f) OpenWrite = true ->
    let pos := if has (hd_mode f) OpenAppend then zlen d else hd_at f in
    f_write s v f b =
      (with_heap s (upd (f_heap s) c (NFile (put_bytes d (Z.to_nat pos) b) k i m)),
       set_at f (pos + zlen b), RInt (zlen b)).
  Proof.
    intros Hw pos. unfold f_write.
    destruct (hd_name f) eqn:En; [congruence|].
    rewrite Hnode, file_of_c, Hw. cbn [negb].
    rewrite write_at_data_put. reflexivity.
  Qed.

  Lemma f_write_at_ok b off :
    has (hd_mode f) OpenWrite = true -> 0 <= off ->
    f_write_at s v f b off =
      (with_heap s (upd (f_heap s) c (NFile (put_bytes d (Z.to_nat off) b) k i m)), RInt (zlen b)).
  Proof.
    intros Hw Hoff. unfold f_write_at.
    destruct (Z.ltb_spec off 0); [lia|].
    destruct (hd_name f) eqn:En; [congruence|].
    rewrite Hnode, file_of_c, Hw. cbn [negb].
    rewrite write_at_data_put. reflexivity.
  Qed.

  (* C02_gap: a write at an offset at or beyond the end leaves the old bytes, a zero-filled gap, then b *)
  Lemma gap_write b :
    has (hd_mode f) OpenWrite = true -> has (hd_mode f) OpenAppend = false -> zlen d <= hd_at f ->
    f_write s v f b =
      (with_heap s (upd (f_heap s) c (NFile (d ++ zeros (Z.to_nat (hd_at f) - length d) ++ b) k i m)),
       set_at f (hd_at f + zlen b), RInt (zlen b)).
  Proof.
    intros Hw Ha Hoff. rewrite f_write_ok by assumption. rewrite Ha.
    rewrite put_bytes_beyond by (unfold zlen in Hoff; lia). reflexivity.
  Qed.

  Lemma gap_write_at b off :
    has (hd_mode f) OpenWrite = true -> zlen d <= off ->
    f_write_at s v f b off =
      (with_heap s (upd (f_heap s) c (NFile (d ++ zeros (Z.to_nat off - length d) ++ b) k i m)), RInt (zlen b)).
  Proof.
    intros Hw Hoff. unfold zlen in Hoff. rewrite f_write_at_ok by (auto; lia).
    rewrite put_bytes_beyond by lia. reflexivity.
  Qed.

  (* C02_append: in append mode the write lands at the current end, whatever the handle's offset is *)
  Lemma append_write b :
    has (hd_mode f) OpenWrite = true -> has (hd_mode f) OpenAppend = true ->
    f_write s v f b =
      (with_heap s (upd (f_heap s) c (NFile (d ++ b) k i m)), set_at f (zlen d + zlen b), RInt (zlen b)).
  Proof.
    intros Hw Ha. rewrite f_write_ok by assumption. rewrite Ha.
    unfold zlen. rewrite Nat2Z.id, put_bytes_at_end. reflexivity.
  Qed.

  (* C02_access: without OpenRead no data is ever returned; without OpenWrite nothing changes *)
  Lemma no_read_no_data n off :
    has (hd_mode f) OpenRead = false ->
    (exists e, f_read s v f n = (f, RFail e)) /\ (exists e, f_read_at s v f n off = RFail e).
  Proof.
    intros Hr. unfold f_read, f_read_at.
    destruct (hd_name f) eqn:En; [congruence|].
    rewrite Hnode, file_of_c, Hr. cbn [negb]. split; [eauto|].
    destruct (Z.ltb off 0); eauto.
  Qed.

  Lemma no_write_no_change b off size :
    has (hd_mode f) OpenWrite = false ->
    (exists e, f_write s v f b = (s, f, RFail e)) /\ (exists e, f_write_at s v f b off = (s, RFail e))
    /\ (exists e, f_truncate s v f size = (s, RFail e)).
  Proof.
    intros Hw. unfold f_write, f_write_at, f_truncate.
    destruct (hd_name f) eqn:En; [congruence|].
    rewrite Hnode, file_of_c, Hw. cbn [negb]. repeat split; eauto.
    - destruct (Z.ltb off 0); eauto.
    - destruct (Z.ltb size 0); eauto.
  Qed.
End Clauses.

(* C02_closed: on a closed handle every method returns an error and changes neither the file system nor
   the handle; the error is the closed-file error except where an argument is rejected first
   (negative WriteAt offset, negative Truncate size). *)
Definition is_closed_err (r : res) : Prop := r = RFail EG_Closed \/ r = RFail EG_FileClosing.

Lemma closed_handle s v f :
  hd_name f <> [] -> hd_node f = None -> win v = false ->
  (forall n, f_read s v f n = (f, RFail EG_Closed))
  /\ (forall n off, f_read_at s v f n off = RFail EG_Closed)
  /\ (forall b, f_write s v f b = (s, f, RFail EG_Closed))
  /\ (forall b off, f_write_at s v f b off = (s, RFail (if Z.ltb off 0 then EG_NegativeOffset else EG_Closed)))
  /\ (forall off wh, f_seek s v f off wh = (f, RFail EG_Closed))
  /\ (forall size, f_truncate s v f size = (s, RFail (if Z.ltb size 0 then EInvalidArgument else EG_Closed)))
  /\ f_stat s v f = RFail EG_FileClosing
  /\ f_sync f = RFail EG_Closed
  /\ (forall mode, f_chmod s v f mode = (s, RFail EG_Closed))
  /\ (forall u g, f_chown s v f u g = (s, RFail EG_Closed))
  /\ f_chdir s v f = inl (RFail EG_Closed)
  /\ f_close f = (f, RFail EG_Closed)
  /\ (forall n, f_read_dir s v f n = (f, RFail EG_FileClosing))
  /\ (forall n, f_readdirnames s v f n = (f, RFail EG_FileClosing)).
Proof.
  intros Hn Hc Hw.
  unfold f_read, f_read_at, f_write, f_write_at, f_seek, f_truncate, f_stat, f_sync, f_chmod, f_chown, f_chdir,
    f_close, f_read_dir, f_readdirnames, closed_err.
  rewrite Hc, Hw. destruct (hd_name f) eqn:En; [congruence|].
  repeat split; intros; try reflexivity.
  - destruct (Z.ltb off 0); reflexivity.
  - destruct (Z.ltb size 0); reflexivity.
Qed.

(* ---- C02_unlinked ------------------------------------------------------------------ *)
(* The handle methods look at the file system only through the handle's node. *)
Lemma handle_reads_local s s' v f c :
  hd_node f = Some c -> get (f_heap s') c = get (f_heap s) c ->
  (forall n, f_read s' v f n = f_read s v f n)
  /\ (forall n off, f_read_at s' v f n off = f_read_at s v f n off)
  /\ f_stat s' v f = f_stat s v f
  /\ (forall off wh, f_seek s' v f off wh = f_seek s v f off wh).
Proof.
  intros Hc Hg.
  unfold f_read, f_read_at, f_stat, f_seek, file_of. rewrite Hc, Hg.
  repeat split; intros; reflexivity.
Qed.

Lemma handle_write_local s s' v f c b :
  hd_node f = Some c -> get (f_heap s') c = get (f_heap s) c ->
  snd (f_write s' v f b) = snd (f_write s v f b)
  /\ snd (fst (f_write s' v f b)) = snd (fst (f_write s v f b))
  /\ get (f_heap (fst (fst (f_write s' v f b)))) c = get (f_heap (fst (fst (f_write s v f b)))) c.
Proof.
  intros Hc Hg.
  unfold f_write, file_of. rewrite Hc, Hg.
  destruct (hd_name f); cbn [fst snd]; [auto|].
  destruct (get (f_heap s) c) as [[ch mm|dd kk ii mm|ll mm]|] eqn:Eg; cbn [fst snd];
    try (repeat split; congruence).
  destruct (negb (has (hd_mode f) OpenWrite)); cbn [fst snd f_heap with_heap]; [repeat split; congruence|].
  assert (Hl : (c < length (f_heap s))%nat) by (eapply get_some_lt; eauto).
  assert (Hl' : (c < length (f_heap s'))%nat) by (eapply get_some_lt; rewrite Hg; eauto).
  rewrite !get_upd_same by assumption. auto.
Qed.

(* what Remove / Rename do to a file node: through delete_node only *)
Lemma delete_node_file h c d k i m :
  get h c = Some (NFile d k i m) ->
  get (delete_node h c) c = Some (NFile (if Z.eqb (k - 1) 0 then [] else d) (k - 1) i m).
Proof.
  intros H. unfold delete_node. rewrite H. apply get_upd_same. eapply get_some_lt; eauto.
Qed.

Lemma delete_node_other h c c' : c <> c' -> get (delete_node h c') c = get h c.
Proof.
  intros Hne. unfold delete_node.
  destruct (get h c') as [[ch mm|dd kk ii mm|ll mm]|]; auto; now rewrite get_upd_other by auto.
Qed.

Lemma remove_child_file h p name c d k i m :
  get h c = Some (NFile d k i m) -> get (remove_child h p name) c = Some (NFile d k i m).
Proof.
  intros H. unfold remove_child.
  destruct (get h p) as [[ch mm|dd kk ii mm|ll mm]|] eqn:Ep; auto.
  destruct (Nat.eq_dec p c) as [->|Hne]; [congruence|]. now rewrite get_upd_other.
Qed.

Lemma add_child_file h p name x c d k i m :
  get h c = Some (NFile d k i m) -> get (add_child h p name x) c = Some (NFile d k i m).
Proof.
  intros H. unfold add_child.
  destruct (get h p) as [[ch mm|dd kk ii mm|ll mm]|] eqn:Ep; auto.
  destruct (Nat.eq_dec p c) as [->|Hne]; [congruence|]. now rewrite get_upd_other.
Qed.

(* Remove(name) succeeded: an open file keeps its data iff another link remains *)
Lemma remove_effect s v name s' c d k i m :
  remove s v name = (s', ROk) -> get (f_heap s) c = Some (NFile d k i m) ->
  get (f_heap s') c = Some (NFile d k i m)
  \/ get (f_heap s') c = Some (NFile (if Z.eqb (k - 1) 0 then [] else d) (k - 1) i m).
Proof.
  intros Hr Hc. unfold remove in Hr.
  destruct (sr_child (search_node s v name SlLstat)) as [c'|]; [|discriminate].
  destruct (sr_parent (search_node s v name SlLstat)) as [p|]; [|discriminate].
  destruct (negb (is_file_exists _)); [discriminate|].
  destruct (Nat.eqb p c'); [discriminate|].
  destruct (negb (perm_on _ _ _ _)); [discriminate|].
  assert (Hfin : forall part, get (delete_node (remove_child (f_heap s) p part) c') c = Some (NFile d k i m)
                 \/ get (delete_node (remove_child (f_heap s) p part) c') c =
                    Some (NFile (if Z.eqb (k - 1) 0 then [] else d) (k - 1) i m)).
  { intros part. destruct (Nat.eq_dec c c') as [<-|Hne].
    - right. apply delete_node_file. now apply remove_child_file.
    - left. rewrite delete_node_other by auto. now apply remove_child_file. }
  destruct (get (f_heap s) c') as [[[|e ch] mm|dd kk ii mm|ll mm]|]; try discriminate;
    destruct (alookup _ _ _); try discriminate; inversion Hr; subst; cbn [f_heap with_heap]; apply Hfin.
Qed.

(* Rename succeeded: the node of an open file is untouched unless it was the replaced target *)
Lemma rename_effect s v o n s' c d k i m :
  rename s v o n = (s', ROk) -> get (f_heap s) c = Some (NFile d k i m) ->
  get (f_heap s') c = Some (NFile d k i m)
  \/ get (f_heap s') c = Some (NFile (if Z.eqb (k - 1) 0 then [] else d) (k - 1) i m).
Proof.
  intros Hr Hc. unfold rename in Hr.
  destruct (negb (is_file_exists (sr_err (search_node s v o SlLstat)))); [discriminate|].
  destruct (_ && _); [discriminate|].
  destruct (_ && _); [discriminate|].
  destruct (sr_parent (search_node s v o SlLstat)) as [op|]; [|discriminate].
  destruct (sr_child (search_node s v o SlLstat)) as [oc|]; [|discriminate].
  destruct (sr_parent (search_node s v n SlLstat)) as [np|]; [|discriminate].
  destruct (negb (perm_on _ _ _ _)); [discriminate|].
  destruct (_ && _); [discriminate|].
  assert (Hmove : forall h0 a b, get h0 c = Some (NFile d k i m) ->
            get (remove_child (add_child h0 np a oc) op b) c = Some (NFile d k i m)).
  { intros. apply remove_child_file. now apply add_child_file. }
  assert (Hdel : forall nc a b,
            get (remove_child (add_child (delete_node (f_heap s) nc) np a oc) op b) c = Some (NFile d k i m)
            \/ get (remove_child (add_child (delete_node (f_heap s) nc) np a oc) op b) c
               = Some (NFile (if Z.eqb (k - 1) 0 then [] else d) (k - 1) i m)).
  { intros nc a b. destruct (Nat.eq_dec c nc) as [<-|Hne].
    - right. apply remove_child_file, add_child_file. now apply delete_node_file.
    - left. apply Hmove. now rewrite delete_node_other. }
  destruct (get (f_heap s) oc) as [[ch mm|dd kk ii mm|ll mm]|].
  - destruct (negb (is_not_exist _)); [discriminate|]. destruct (_ || _); [discriminate|].
    inversion Hr; subst; cbn [f_heap with_heap]. left; now apply Hmove.
  - destruct (_ || _); [inversion Hr; subst; auto|].
    destruct (sr_child (search_node s v n SlLstat)) as [nc|].
    + destruct (get (f_heap s) nc) as [[ch' mm'|dd' kk' ii' mm'|ll' mm']|]; try discriminate;
        inversion Hr; subst; cbn [f_heap with_heap]; apply Hdel.
    + inversion Hr; subst; cbn [f_heap with_heap]. left; now apply Hmove.
  - destruct (_ || _); [inversion Hr; subst; auto|].
    destruct (sr_child (search_node s v n SlLstat)) as [nc|].
    + destruct (get (f_heap s) nc) as [[ch' mm'|dd' kk' ii' mm'|ll' mm']|]; try discriminate;
        inversion Hr; subst; cbn [f_heap with_heap]; apply Hdel.
    + inversion Hr; subst; cbn [f_heap with_heap]. left; now apply Hmove.
  - inversion Hr; subst; cbn [f_heap with_heap]. left; now apply Hmove.
Qed.

(* ---- C02_dir_batches ------------------------------------------------------------------ *)
(* the sorted listing holds every entry of the directory exactly once *)
Lemma insert_sorted_perm {A} (key : A -> str) x l : Permutation (insert_sorted key x l) (x :: l).
Proof.
  induction l as [|y l IH]; cbn [insert_sorted]; auto.
  destruct (str_ltb (key y) (key x)); auto.
  rewrite IH. apply perm_swap.
Qed.

Lemma sort_by_perm {A} (key : A -> str) l : Permutation (sort_by key l) l.
Proof.
  unfold sort_by. induction l as [|x l IH]; cbn [fold_right]; auto.
  rewrite insert_sorted_perm. now constructor.
Qed.

Lemma dir_names_perm ch : Permutation (dir_names ch) (map fst ch).
Proof. apply sort_by_perm. Qed.

Lemma fill_stat_name n name : fi_name (fill_stat n name) = name.
Proof. now destruct n. Qed.

Lemma dir_infos_perm h ch :
  (forall name c, In (name, c) ch -> get h c <> None) ->
  Permutation (map (@fi_name) (dir_infos h ch)) (map fst ch).
Proof.
  intros Hall. unfold dir_infos. rewrite sort_by_perm.
  induction ch as [|[name c] ch IH]; cbn [flat_map map fst]; auto.
  rewrite map_app. destruct (get h c) eqn:Eg.
  - cbn [map app]. rewrite fill_stat_name. constructor. apply IH. intros; eapply Hall; right; eauto.
  - exfalso. eapply Hall; [left; reflexivity|auto].
Qed.

(* successive ReadDir(n) calls until the first result that is not a plain batch *)
Fixpoint read_dir_all (fuel : nat) (s : fsys) (v : view) (f : handle) (n : Z) : list (list finfo) * option res :=
  match fuel with
  | O => ([], None)
  | S k =>
      match f_read_dir s v f n with
      | (f', RInfos l None) => let '(bs, e) := read_dir_all k s v f' n in (l :: bs, e)
      | (_, r) => ([], Some r)
      end
  end.

Fixpoint readdirnames_all (fuel : nat) (s : fsys) (v : view) (f : handle) (n : Z) : list (list str) * option res :=
  match fuel with
  | O => ([], None)
  | S k =>
      match f_readdirnames s v f n with
      | (f', RNames l None) => let '(bs, e) := readdirnames_all k s v f' n in (l :: bs, e)
      | (_, r) => ([], Some r)
      end
  end.

Lemma skipn_skipn_add {A} (l : list A) x y : skipn x (skipn y l) = skipn (y + x) l.
Proof.
  revert l; induction y as [|y IH]; intros l; cbn [skipn plus]; auto.
  destruct l; [now rewrite skipn_nil|apply IH].
Qed.

Lemma skipn_split {A} (l : list A) ix e :
  (ix <= e)%nat -> skipn ix l = firstn (e - ix) (skipn ix l) ++ skipn e l.
Proof.
  intros H. rewrite <- (firstn_skipn (e - ix) (skipn ix l)) at 1.
  f_equal. rewrite skipn_skipn_add. f_equal. lia.
Qed.

Section DirBatches.
  Variables (s : fsys) (v : view) (c : nat) (ch : list (str * nat)) (m : meta) (n : Z).
  Hypothesis Hdir : get (f_heap s) c = Some (NDir ch m).
  Hypothesis Hn : 0 < n.

  Let L := dir_infos (f_heap s) ch.
  Let LN := dir_names ch.

  (* a handle in the middle of a pass over cache l: position ix *)
  Definition mid_infos (f : handle) (ix : nat) : Prop :=
    hd_name f <> [] /\ hd_node f = Some c /\ hd_dir_infos f = Some L /\ hd_dir_index f = ix.

  Lemma read_dir_mid f ix :
    mid_infos f ix ->
    if Nat.leb (length L) ix
    then snd (f_read_dir s v f n) = RInfos [] (Some EG_EOF)
    else exists f', f_read_dir s v f n = (f', RInfos (firstn (Nat.min (ix + Z.to_nat n) (length L) - ix) (skipn ix L)) None)
                    /\ mid_infos f' (Nat.min (ix + Z.to_nat n) (length L)).
  Proof.
    intros (Hnm & Hnd & Hi & Hx). unfold f_read_dir.
    destruct (hd_name f) eqn:En; [congruence|].
    rewrite Hnd, Hdir, Hi, Hx.
    destruct (Z.leb_spec n 0); [lia|]. cbn [orb andb].
    destruct (Nat.leb (length L) ix) eqn:El; cbn [snd]; [reflexivity|].
    eexists; split; [reflexivity|].
    unfold mid_infos; cbn [hd_name hd_node hd_dir_infos hd_dir_index]. repeat split; congruence.
  Qed.

  Lemma read_dir_loop fuel : forall f ix,
    mid_infos f ix -> (length L - ix < fuel)%nat -> (ix <= length L)%nat ->
    exists bs, read_dir_all fuel s v f n = (bs, Some (RInfos [] (Some EG_EOF)))
               /\ concat bs = skipn ix L
               /\ Forall (fun b => (0 < length b)%nat /\ Z.of_nat (length b) <= n) bs.
  Proof.
    induction fuel as [|fuel IH]; intros f ix Hmid Hfuel Hix; [lia|].
    cbn [read_dir_all]. pose proof (read_dir_mid Hmid) as Hstep.
    destruct (Nat.leb_spec (length L) ix) as [Hle|Hgt].
    - destruct (f_read_dir s v f n) as [f' r]. cbn [snd] in Hstep. subst r.
      exists []. repeat split; auto. cbn [concat]. now rewrite skipn_all2 by lia.
    - destruct Hstep as (f' & Heq & Hmid'). rewrite Heq.
      set (e := Nat.min (ix + Z.to_nat n) (length L)) in *.
      destruct (IH f' e Hmid') as (bs & Hrun & Hcat & Hall); [lia|lia|].
      rewrite Hrun. eexists; repeat split.
      + cbn [concat]. rewrite Hcat. symmetry. apply skipn_split. lia.
      + constructor; auto. rewrite firstn_length, skipn_length. lia.
  Qed.

  (* C02_dir_batches for ReadDir: from a freshly opened (or rewound) handle *)
  Lemma read_dir_batches f :
    hd_name f <> [] -> hd_node f = Some c -> hd_dir_infos f = None ->
    exists bs, read_dir_all (S (S (length L))) s v f n = (bs, Some (RInfos [] (Some EG_EOF)))
               /\ concat bs = L
               /\ Forall (fun b => (0 < length b)%nat /\ Z.of_nat (length b) <= n) bs.
  Proof.
    intros Hnm Hnd Hi.
    destruct L as [|x l] eqn:EL.
    - exists []. cbn [read_dir_all]. unfold f_read_dir.
      destruct (hd_name f) eqn:En; [congruence|]. rewrite Hnd, Hdir, Hi.
      destruct (Z.leb_spec n 0); [lia|]. cbn [orb andb]. fold L. rewrite EL. cbn. auto.
    - (* the first call fills the cache and behaves as a call in the middle of a pass at index 0 *)
      set (f0 := {| hd_node := hd_node f; hd_view := hd_view f; hd_name := hd_name f; hd_at := hd_at f;
                    hd_mode := hd_mode f; hd_dir_infos := Some L; hd_dir_names := hd_dir_names f;
                    hd_dir_index := 0 |}).
      assert (Hsame : f_read_dir s v f n = f_read_dir s v f0 n).
      { unfold f_read_dir, f0. cbn [hd_name hd_node hd_dir_infos hd_dir_index hd_view hd_at hd_mode hd_dir_names].
        destruct (hd_name f) eqn:En; [congruence|]. rewrite Hnd, Hdir, Hi.
        destruct (Z.leb_spec n 0); [lia|]. cbn [orb andb]. fold L. rewrite EL. reflexivity. }
      assert (Hmid : mid_infos f0 0) by (unfold mid_infos, f0; cbn; auto).
      destruct (@read_dir_loop (S (S (length L))) f0 0 Hmid) as (bs & Hrun & Hcat & Hall); [lia|lia|].
      exists bs. rewrite <- EL. repeat split; auto.
      cbn [read_dir_all] in *. now rewrite Hsame.
  Qed.

  (* the same for Readdirnames *)
  Definition mid_names (f : handle) (ix : nat) : Prop :=
    hd_name f <> [] /\ hd_node f = Some c /\ hd_dir_names f = Some LN /\ hd_dir_index f = ix.

  Lemma readdirnames_mid f ix :
    mid_names f ix ->
    if Nat.leb (length LN) ix
    then snd (f_readdirnames s v f n) = RNames [] (Some EG_EOF)
    else exists f', f_readdirnames s v f n = (f', RNames (firstn (Nat.min (ix + Z.to_nat n) (length LN) - ix) (skipn ix LN)) None)
                    /\ mid_names f' (Nat.min (ix + Z.to_nat n) (length LN)).
  Proof.
    intros (Hnm & Hnd & Hi & Hx). unfold f_readdirnames.
    destruct (hd_name f) eqn:En; [congruence|].
    rewrite Hnd, Hdir, Hi, Hx.
    destruct (Z.leb_spec n 0); [lia|]. cbn [orb andb].
    destruct (Nat.leb (length LN) ix) eqn:El; cbn [snd]; [reflexivity|].
    eexists; split; [reflexivity|].
    unfold mid_names; cbn [hd_name hd_node hd_dir_names hd_dir_index]. repeat split; congruence.
  Qed.

  Lemma readdirnames_loop fuel : forall f ix,
    mid_names f ix -> (length LN - ix < fuel)%nat -> (ix <= length LN)%nat ->
    exists bs, readdirnames_all fuel s v f n = (bs, Some (RNames [] (Some EG_EOF)))
               /\ concat bs = skipn ix LN
               /\ Forall (fun b => (0 < length b)%nat /\ Z.of_nat (length b) <= n) bs.
  Proof.
    induction fuel as [|fuel IH]; intros f ix Hmid Hfuel Hix; [lia|].
    cbn [readdirnames_all]. pose proof (readdirnames_mid Hmid) as Hstep.
    destruct (Nat.leb_spec (length LN) ix) as [Hle|Hgt].
    - destruct (f_readdirnames s v f n) as [f' r]. cbn [snd] in Hstep. subst r.
      exists []. repeat split; auto. cbn [concat]. now rewrite skipn_all2 by lia.
    - destruct Hstep as (f' & Heq & Hmid'). rewrite Heq.
      set (e := Nat.min (ix + Z.to_nat n) (length LN)) in *.
      destruct (IH f' e Hmid') as (bs & Hrun & Hcat & Hall); [lia|lia|].
      rewrite Hrun. eexists; repeat split.
      + cbn [concat]. rewrite Hcat. symmetry. apply skipn_split. lia.
      + constructor; auto. rewrite firstn_length, skipn_length. lia.
  Qed.

  Lemma readdirnames_batches f :
    hd_name f <> [] -> hd_node f = Some c -> hd_dir_names f = None ->
    exists bs, readdirnames_all (S (S (length LN))) s v f n = (bs, Some (RNames [] (Some EG_EOF)))
               /\ concat bs = LN
               /\ Forall (fun b => (0 < length b)%nat /\ Z.of_nat (length b) <= n) bs.
  Proof.
    intros Hnm Hnd Hi.
    destruct LN as [|x l] eqn:EL.
    - exists []. cbn [readdirnames_all]. unfold f_readdirnames.
      destruct (hd_name f) eqn:En; [congruence|]. rewrite Hnd, Hdir, Hi.
      destruct (Z.leb_spec n 0); [lia|]. cbn [orb andb]. fold LN. rewrite EL. cbn. auto.
    - set (f0 := {| hd_node := hd_node f; hd_view := hd_view f; hd_name := hd_name f; hd_at := hd_at f;
                    hd_mode := hd_mode f; hd_dir_infos := hd_dir_infos f; hd_dir_names := Some LN;
                    hd_dir_index := 0 |}).
      assert (Hsame : f_readdirnames s v f n = f_readdirnames s v f0 n).
      { unfold f_readdirnames, f0. cbn [hd_name hd_node hd_dir_infos hd_dir_index hd_view hd_at hd_mode hd_dir_names].
        destruct (hd_name f) eqn:En; [congruence|]. rewrite Hnd, Hdir, Hi.
        destruct (Z.leb_spec n 0); [lia|]. cbn [orb andb]. fold LN. rewrite EL. reflexivity. }
      assert (Hmid : mid_names f0 0) by (unfold mid_names, f0; cbn; auto).
      destruct (@readdirnames_loop (S (S (length LN))) f0 0 Hmid) as (bs & Hrun & Hcat & Hall); [lia|lia|].
      exists bs. rewrite <- EL. repeat split; auto.
      cbn [readdirnames_all] in *. now rewrite Hsame.
  Qed.
End DirBatches.

(* ======================================================================= *)
(* Part B - refinement: implementation step = specification step outside kf02 *)
(* ======================================================================= *)

(* ---- finite sweeps over flag / permission values ---------------------------------- *)
Lemma N_lt_forall (P : N -> bool) (k : nat) :
  forallb P (map N.of_nat (seq 0 k)) = true -> forall x, (x < N.of_nat k)%N -> P x = true.
Proof.
  intros H x Hx. rewrite forallb_forall in H. apply H.
  replace x with (N.of_nat (N.to_nat x)) by apply N2Nat.id.
  apply in_map, in_seq. lia.
Qed.

(* ToOpenMode (vfs.go:582) on the 12 low bits: the option bits are decoded as open(2) documents them *)
Definition open_mode_bits_ok (flag : N) : bool :=
  Bool.eqb (has (to_open_mode flag) OpenCreateExcl) (fbit flag FO_CREATE && fbit flag FO_EXCL)
  && Bool.eqb (has (to_open_mode flag) OpenTruncate) (fbit flag FO_TRUNC)
  && Bool.eqb (has (to_open_mode flag) OpenAppend) (fbit flag FO_APPEND).

Lemma open_mode_bits : forall flag, (flag < 4096)%N ->
  has (to_open_mode flag) OpenCreateExcl = (fbit flag FO_CREATE && fbit flag FO_EXCL)
  /\ has (to_open_mode flag) OpenTruncate = fbit flag FO_TRUNC
  /\ has (to_open_mode flag) OpenAppend = fbit flag FO_APPEND.
Proof.
  intros flag Hlt.
  assert (H : open_mode_bits_ok flag = true).
  { apply (N_lt_forall open_mode_bits_ok 4096); [vm_compute; reflexivity|exact Hlt]. }
  unfold open_mode_bits_ok in H. rewrite !andb_true_iff in H. destruct H as [[H1 H2] H3].
  apply eqb_prop in H1, H2, H3. auto.
Qed.

Definition perm_ok (p : N) : bool :=
  N.eqb (N.land p FILE_MODE_MASK) p && N.eqb (N.land p 511) p && N.eqb (N.ldiff p FILE_MODE_MASK) 0.

Lemma perm_small : forall p, (p < 512)%N ->
  N.land p FILE_MODE_MASK = p /\ N.land p 511 = p /\ N.ldiff p FILE_MODE_MASK = 0%N.
Proof.
  intros p Hlt.
  assert (H : perm_ok p = true).
  { apply (N_lt_forall perm_ok 512); [vm_compute; reflexivity|exact Hlt]. }
  unfold perm_ok in H. rewrite !andb_true_iff in H. destruct H as [[H1 H2] H3].
  apply N.eqb_eq in H1, H2, H3. auto.
Qed.

(* ---- the path walk does not look at the content of files ---------------------------- *)
Definition node_sim (a b : option node) : Prop :=
  match a, b with
  | Some (NDir ch m), Some (NDir ch' m') => ch = ch' /\ m = m'
  | Some (NFile _ _ _ _), Some (NFile _ _ _ _) => True
  | Some (NSym l _), Some (NSym l' _) => l = l'
  | None, None => True
  | _, _ => False
  end.

Definition heap_sim (h h' : heap) : Prop := forall i, node_sim (get h i) (get h' i).

Lemma node_sim_refl a : node_sim a a.
Proof. destruct a as [[ch m|d k i m|l m]|]; cbn; auto. Qed.

Lemma heap_sim_upd_file h c d k i m d' k' i' m' :
  get h c = Some (NFile d k i m) -> heap_sim h (upd h c (NFile d' k' i' m')).
Proof.
  intros Hc j. destruct (Nat.eq_dec c j) as [<-|Hne].
  - rewrite get_upd_same by (eapply get_some_lt; eauto). rewrite Hc. exact I.
  - rewrite get_upd_other by auto. apply node_sim_refl.
Qed.

Lemma children_sim h h' p : heap_sim h h' -> children h p = children h' p.
Proof.
  intros H. unfold children. specialize (H p).
  destruct (get h p) as [[ch m|d k i m|l m]|], (get h' p) as [[ch' m'|d' k' i' m'|l' m']|]; cbn in H; try tauto; try reflexivity.
Qed.

Lemma search_loop_sim h h' v slm : heap_sim h h' ->
  forall fuel vol parent pi slc saved,
    search_loop fuel h v slm vol parent pi slc saved = search_loop fuel h' v slm vol parent pi slc saved.
Proof.
  intros Hs. induction fuel as [|fuel IH]; intros; cbn [search_loop]; [reflexivity|].
  destruct (pi_next (v_os v) pi) as [ok pi1]. destruct ok; cbn [negb]; [|reflexivity].
  rewrite (children_sim parent Hs).
  destruct (alookup str_eqb (pi_part pi1) (children h' parent)) as [c|]; [|reflexivity].
  pose proof (Hs c) as Hc.
  destruct (get h c) as [[ch m|d k i m|l m]|], (get h' c) as [[ch' m'|d' k' i' m'|l' m']|]; cbn in Hc; try tauto.
  - destruct Hc as [-> ->]. destruct (pi_is_last pi1); [reflexivity|].
    destruct (check_permission m' OpenLookup (v_user v)); [apply IH|reflexivity].
  - subst l'. destruct (Nat.ltb slCountMax (S slc)); [reflexivity|].
    destruct (pi_is_last pi1 && slmode_eqb slm SlLstat); [reflexivity|].
    destruct (pi_replace_part (v_os v) pi1 l) as [reset pi2]. apply IH.
Qed.

Lemma search_node_sim s h' v p slm :
  heap_sim (f_heap s) h' -> search_node (with_heap s h') v p slm = search_node s v p slm.
Proof.
  intros Hs. unfold search_node. cbn [f_heap f_vols with_heap].
  destruct (Nat.ltb 0 (pi_vnl _)).
  - destruct (alookup _ _ _); [|reflexivity]. symmetry. now apply search_loop_sim.
  - symmetry. now apply search_loop_sim.
Qed.

(* ---- list updates --------------------------------------------------------------------- *)
Lemma set_nth_length {A} (l : list A) i x : length (set_nth l i x) = length l.
Proof. revert i; induction l as [|y l IH]; intros [|i]; cbn; auto. Qed.

Lemma set_nth_same {A} (l : list A) i x : nth_error l i = Some x -> set_nth l i x = l.
Proof.
  revert i; induction l as [|y l IH]; intros [|i] H; cbn in *; try congruence.
  f_equal. now apply IH.
Qed.

Lemma nth_set_nth_eq {A} (l : list A) i x : (i < length l)%nat -> nth_error (set_nth l i x) i = Some x.
Proof. revert i; induction l as [|y l IH]; intros [|i] H; cbn in *; try lia; auto. apply IH; lia. Qed.

Lemma nth_set_nth_ne {A} (l : list A) i j x : i <> j -> nth_error (set_nth l i x) j = nth_error l j.
Proof. revert i j; induction l as [|y l IH]; intros [|i] [|j] H; cbn; auto; congruence. Qed.

Lemma set_nth__same {A} (l : list A) i x : nth_error l i = Some x -> set_nth_ l i x = l.
Proof.
  revert i; induction l as [|y l IH]; intros [|i] H; cbn in *; try congruence.
  f_equal. now apply IH.
Qed.

Lemma Forall2_set_nth {A B} (R : A -> B -> Prop) l1 l2 i x y :
  Forall2 R l1 l2 -> R x y -> Forall2 R (set_nth_ l1 i x) (set_nth l2 i y).
Proof.
  intros H Hxy. revert i. induction H as [|a b l1 l2 Hab H IH]; intros [|i]; cbn; constructor; auto.
Qed.

Lemma Forall2_nth {A B} (R : A -> B -> Prop) l1 l2 i y :
  Forall2 R l1 l2 -> nth_error l2 i = Some y -> exists x, nth_error l1 i = Some x /\ R x y.
Proof.
  intros H. revert i. induction H as [|a b l1 l2 Hab H IH]; intros [|i] Hn; cbn in *; try discriminate.
  - inversion Hn; subst. eauto.
  - eauto.
Qed.

Lemma Forall2_len {A B} (R : A -> B -> Prop) l1 l2 : Forall2 R l1 l2 -> length l1 = length l2.
Proof. induction 1; cbn; auto. Qed.

Lemma Forall2_nth_none {A B} (R : A -> B -> Prop) l1 l2 i :
  Forall2 R l1 l2 -> nth_error l2 i = None -> nth_error l1 i = None.
Proof.
  intros H Hn. apply nth_error_None. apply nth_error_None in Hn.
  now rewrite (Forall2_len H).
Qed.

(* ---- the refinement relation ------------------------------------------------------------ *)
Section Refine.
  (* where the specification's inode i lives in the implementation's heap *)
  Variable ptr : nat -> nat.

  Definition meta_of (ino : inode) : meta := {| m_mode := i_perm ino; m_uid := i_uid ino; m_gid := i_gid ino |}.

  (* an inductive wrapper: unification never unfolds the walk (3000 units of fuel) when comparing two of these *)
  Inductive resolves (s : fsys) (v : view) (p : str) (c : nat) : Prop :=
  | Resolves : (forall slm, let r := search_node s v p slm in
                  sr_err r = EFileExists /\ sr_child r = Some c /\ pi_is_last (sr_pi r) = true) ->
               resolves s v p c.

  Definition rel_fd (ninodes : nat) (f : handle) (o : ofd) : Prop :=
    hd_view f = 0%nat /\ hd_name f <> [] /\
    hd_node f = (if o_closed o then None else Some (ptr (o_ino o))) /\
    (o_ino o < ninodes)%nat /\
    hd_at f = o_off o /\
    has (hd_mode f) OpenRead = can_read (o_acc o) /\
    has (hd_mode f) OpenWrite = can_write (o_acc o) /\
    has (hd_mode f) OpenAppend = o_app o.

  Definition good_view (v : view) : Prop := us_admin (v_user v) = true /\ v_os v = Linux.

  Record Rel' (s : fsys) (vs : list view) (hs : list handle) (st : fstate) : Prop := {
    R_view : exists v, nth_error vs 0 = Some v /\ good_view v;
    R_inodes : forall i ino, nth_error (st_inodes st) i = Some ino ->
       (i_perm ino < 512)%N /\
       exists id, get (f_heap s) (ptr i) = Some (NFile (i_bytes ino) (i_nlink ino) id (meta_of ino));
    R_inj : forall i j, (i < length (st_inodes st))%nat -> (j < length (st_inodes st))%nat -> ptr i = ptr j -> i = j;
    R_names : forall v name i, nth_error vs 0 = Some v -> lookup_name st name = Some i ->
       (i < length (st_inodes st))%nat /\ resolves s v (fpath name) (ptr i);
    R_fds : Forall2 (rel_fd (length (st_inodes st))) hs (st_fds st)
  }.

  Definition Rel (w : world) (st : fstate) : Prop := Rel' (w_fs w) (w_views w) (w_handles w) st.

  (* an inode is rewritten in place (bytes, permission bits, owner): the relation survives *)
  Lemma Rel_upd_inode s vs hs st i ino ino' id :
    Rel' s vs hs st ->
    nth_error (st_inodes st) i = Some ino ->
    get (f_heap s) (ptr i) = Some (NFile (i_bytes ino) (i_nlink ino) id (meta_of ino)) ->
    (i_perm ino' < 512)%N ->
    Rel' (with_heap s (upd (f_heap s) (ptr i) (NFile (i_bytes ino') (i_nlink ino') id (meta_of ino')))) vs hs
         (with_inode st i ino').
  Proof.
    intros [Hv Hi Hj Hn Hf] Hino Hget Hperm.
    assert (Hlt : (i < length (st_inodes st))%nat) by (apply nth_error_Some; congruence).
    constructor; cbn [with_inode st_inodes st_names st_fds with_heap f_heap]; rewrite ?set_nth_length.
    - exact Hv.
    - intros j inoj Hnj. destruct (Nat.eq_dec i j) as [<-|Hne].
      + rewrite nth_set_nth_eq in Hnj by auto. inversion Hnj; subst inoj. split; auto.
        exists id. apply get_upd_same. eapply get_some_lt; eauto.
      + rewrite nth_set_nth_ne in Hnj by auto. destruct (Hi _ _ Hnj) as [Hp [idj Hgj]]. split; auto.
        exists idj. rewrite get_upd_other; auto.
        intros Heq. apply Hne. apply Hj; auto. apply nth_error_Some; congruence.
    - exact Hj.
    - intros v name j Hv0 Hl. unfold lookup_name in *. cbn [st_names] in *.
      destruct (Hn v name j Hv0 Hl) as [Hlj Hres]. split; [exact Hlj|].
      destruct Hres as [Hres]. constructor. intros slm. rewrite search_node_sim; [apply Hres|].
      eapply heap_sim_upd_file; exact Hget.
    - exact Hf.
  Qed.

  Lemma with_inode_same st i ino : nth_error (st_inodes st) i = Some ino -> with_inode st i ino = st.
  Proof. intros H. unfold with_inode. rewrite set_nth_same by auto. now destruct st. Qed.

  (* rewriting a file node by itself *)
  Lemma Rel_touch s vs hs st i ino id :
    Rel' s vs hs st ->
    nth_error (st_inodes st) i = Some ino ->
    get (f_heap s) (ptr i) = Some (NFile (i_bytes ino) (i_nlink ino) id (meta_of ino)) ->
    Rel' (with_heap s (upd (f_heap s) (ptr i) (NFile (i_bytes ino) (i_nlink ino) id (meta_of ino)))) vs hs st.
  Proof.
    intros HR Hino Hget.
    pose proof (@Rel_upd_inode s vs hs st i ino ino id HR Hino Hget) as H.
    rewrite (with_inode_same st i Hino) in H. apply H.
    destruct HR as [_ Hi _ _ _]. now destruct (Hi _ _ Hino).
  Qed.

  Lemma Rel_set_fd s vs hs st fd f o :
    Rel' s vs hs st -> rel_fd (length (st_inodes st)) f o ->
    Rel' s vs (set_nth_ hs fd f) (with_fd st fd o).
  Proof.
    intros [Hv Hi Hj Hn Hf] Hrel.
    constructor; cbn [with_fd st_inodes st_names st_fds]; try assumption.
    now apply Forall2_set_nth.
  Qed.

  Lemma Rel_same_fd s vs hs st fd f :
    Rel' s vs hs st -> nth_error hs fd = Some f -> Rel' s vs (set_nth_ hs fd f) st.
  Proof. intros HR Hf. now rewrite set_nth__same. Qed.

  Lemma Rel_get_fd s vs hs st fd o :
    Rel' s vs hs st -> nth_error (st_fds st) fd = Some o ->
    exists f v, nth_error hs fd = Some f /\ nth_error vs (hd_view f) = Some v /\ good_view v
                /\ rel_fd (length (st_inodes st)) f o.
  Proof.
    intros [Hv Hi Hj Hn Hf] Ho.
    destruct (Forall2_nth fd Hf Ho) as (f & Hfn & Hrel).
    destruct Hv as (v & Hv0 & Hgood).
    exists f, v. destruct Hgood as [Hadm Hos].
    assert (Hview : hd_view f = 0%nat) by apply Hrel.
    rewrite Hview. unfold good_view. auto.
  Qed.

  Lemma Rel_no_fd s vs hs st fd :
    Rel' s vs hs st -> nth_error (st_fds st) fd = None -> nth_error hs fd = None.
  Proof. intros [Hv Hi Hj Hn Hf] Ho. eapply Forall2_nth_none; eauto. Qed.
End Refine.
