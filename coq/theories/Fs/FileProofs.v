(* Theorems of property C02 about the IMPLEMENTATION model (MemFile.v) and its
   refinement of the SPECIFICATION (FileSpec.v) outside the classified deviations
   (FileKf.kf02).  Part A: the "in particular" clauses, for all offsets, sizes,
   lengths and contents.  Part B: the step refinement and its lifting to histories. *)
From Avfs Require Import Base PathModel MemFS MemFile World FileSpec FileKf.
From Coq Require Import Permutation.
Set Implicit Arguments.

Local Open Scope Z_scope.

(* ======================================================================= *)
(* bytes                                                                   *)
(* ======================================================================= *)
Lemma zeros_length n : length (zeros n) = n.
Proof. apply repeat_length. Qed.

Lemma nth_error_firstn_lt {A} (l : list A) n i : (i < n)%nat -> nth_error (firstn n l) i = nth_error l i.
Proof.
  revert n i; induction l as [|x l IH]; intros [|n] [|i] H; cbn; try lia; auto.
  apply IH; lia.
Qed.

Lemma nth_error_skipn_add {A} (l : list A) n i : nth_error (skipn n l) i = nth_error l (n + i).
Proof.
  revert n; induction l as [|x l IH]; intros [|n]; cbn; auto.
  - now destruct i.
Qed.

Lemma write_at_data_put d at_ b : write_at_data d at_ b = put_bytes d at_ b.
Proof.
  unfold write_at_data, put_bytes, zeros.
  destruct (Nat.ltb_spec (length d) at_) as [Hlt|Hge].
  - rewrite (firstn_all2 (n := at_) d) by lia.
    rewrite firstn_all2 by (rewrite app_length, repeat_length; lia).
    rewrite (skipn_all2 (n := (at_ + length b)%nat) d) by lia.
    rewrite skipn_all2 by (rewrite app_length, repeat_length; lia).
    now rewrite <- app_assoc.
  - replace (at_ - length d)%nat with 0%nat by lia. reflexivity.
Qed.

Lemma truncate_data_resize d size : 0 <= size -> truncate_data d size = resize d (Z.to_nat size).
Proof.
  intros Hs. unfold truncate_data, resize, zeros.
  destruct (Z.eqb_spec size 0) as [->|Hne].
  - reflexivity.
  - destruct (Nat.ltb_spec (length d) (Z.to_nat size)) as [Hlt|Hge].
    + now rewrite firstn_all2 by lia.
    + replace (Z.to_nat size - length d)%nat with 0%nat by lia. cbn [repeat]. now rewrite app_nil_r.
Qed.

Lemma put_bytes_length d pos b :
  length (put_bytes d pos b) = Nat.max (length d) (pos + length b).
Proof.
  unfold put_bytes. rewrite !app_length, firstn_length, zeros_length, skipn_length. lia.
Qed.

(* byte by byte: what a write of b at position pos leaves in the file *)
Lemma put_bytes_nth d pos b i :
  nth_error (put_bytes d pos b) i =
    if Nat.ltb i pos then (if Nat.ltb i (length d) then nth_error d i else Some 0%N)
    else if Nat.ltb i (pos + length b) then nth_error b (i - pos)
    else nth_error d i.
Proof.
  unfold put_bytes.
  destruct (Nat.ltb_spec i pos) as [Hlt|Hge].
  - destruct (Nat.ltb_spec i (length d)) as [Hl|Hg].
    + rewrite nth_error_app1 by (rewrite firstn_length; lia).
      now rewrite nth_error_firstn_lt by lia.
    + rewrite nth_error_app2 by (rewrite firstn_length; lia).
      rewrite firstn_length, Nat.min_r by lia.
      rewrite nth_error_app1 by (rewrite zeros_length; lia).
      unfold zeros. now rewrite nth_error_repeat by lia.
  - rewrite nth_error_app2 by (rewrite firstn_length; lia).
    rewrite firstn_length.
    rewrite nth_error_app2 by (rewrite zeros_length; lia).
    rewrite zeros_length.
    replace (i - Nat.min pos (length d) - (pos - length d))%nat with (i - pos)%nat by lia.
    destruct (Nat.ltb_spec i (pos + length b)) as [Hb|Hb].
    + now rewrite nth_error_app1 by lia.
    + rewrite nth_error_app2 by lia.
      rewrite nth_error_skipn_add. f_equal. lia.
Qed.

(* beyond the end: old bytes, zeros up to pos, then b *)
Lemma put_bytes_beyond d pos b :
  (length d <= pos)%nat -> put_bytes d pos b = d ++ zeros (pos - length d) ++ b.
Proof.
  intros H. unfold put_bytes.
  rewrite firstn_all2 by lia. rewrite skipn_all2 by lia. now rewrite app_nil_r.
Qed.

Lemma put_bytes_at_end d b : put_bytes d (length d) b = d ++ b.
Proof. rewrite put_bytes_beyond by lia. now rewrite Nat.sub_diag. Qed.

(* ======================================================================= *)
(* heap                                                                    *)
(* ======================================================================= *)
Lemma get_upd_same h i n : (i < length h)%nat -> get (upd h i n) i = Some n.
Proof.
  unfold get. revert i; induction h as [|x h IH]; intros [|i] Hi; cbn in *; try lia; auto.
  apply IH; lia.
Qed.

Lemma get_upd_other h i j n : i <> j -> get (upd h i n) j = get h j.
Proof.
  unfold get. revert i j; induction h as [|x h IH]; intros [|i] [|j] Hne; cbn; auto; try congruence.
Qed.

Lemma get_some_lt h i n : get h i = Some n -> (i < length h)%nat.
Proof. unfold get. intros H. apply nth_error_Some. congruence. Qed.

Lemma upd_length h i n : length (upd h i n) = length h.
Proof. revert i; induction h as [|x h IH]; intros [|i]; cbn; auto. Qed.

(* ======================================================================= *)
(* Part A - the property's "in particular" clauses on the implementation model *)
(* ======================================================================= *)
Section Clauses.
  Variables (s : fsys) (v : view) (f : handle) (c : nat).
  Variables (d : list N) (k : Z) (i : N) (m : meta).
  Hypothesis Hname : hd_name f <> [].
  Hypothesis Hnode : hd_node f = Some c.
  Hypothesis Hfile : get (f_heap s) c = Some (NFile d k i m).

  Let isw := win v.

  Lemma file_of_c : file_of s c = Some (d, k, i, m).
  Proof. unfold file_of. now rewrite Hfile. Qed.

  (* Write on a handle open for writing: the implementation writes at the current end when the handle is
     in append mode, at the handle's offset otherwise, and the file afterwards is put_bytes - byte by
     byte described by put_bytes_nth: old bytes, ZEROS in [size, pos), then b. *)
  Lemma f_write_ok b :
    has (hd_mode f) OpenWrite = true -> b <> [] ->
    let pos := if has (hd_mode f) OpenAppend then zlen d else hd_at f in
    f_write s v f b =
      (with_heap s (upd (f_heap s) c (NFile (put_bytes d (Z.to_nat pos) b) k i (drop_privs (v_user v) m))),
       set_at f (pos + zlen b), RInt (zlen b)).
  Proof.
    intros Hw Hb pos. unfold f_write.
    destruct (hd_name f) eqn:En; [congruence|].
    rewrite Hnode, file_of_c, Hw. cbn [negb]. destruct b as [|b0 b']; [congruence|].
    rewrite write_at_data_put. reflexivity.
  Qed.

  (* a write of zero bytes changes nothing *)
  Lemma f_write_nil : f_write s v f [] = (s, f, if has (hd_mode f) OpenWrite then RInt 0
                                                 else RFail (if isw then EW_AccessDenied else EC_BadFileDesc)).
  Proof.
    unfold f_write. destruct (hd_name f) eqn:En; [congruence|].
    rewrite Hnode, file_of_c. destruct (has (hd_mode f) OpenWrite); reflexivity.
  Qed.

  Lemma f_write_at_ok b off :
    has (hd_mode f) OpenWrite = true -> has (hd_mode f) OpenAppend = false -> 0 <= off -> b <> [] ->
    f_write_at s v f b off =
      (with_heap s (upd (f_heap s) c (NFile (put_bytes d (Z.to_nat off) b) k i (drop_privs (v_user v) m))), RInt (zlen b)).
  Proof.
    intros Hw Hap Hoff Hb. unfold f_write_at. rewrite Hap.
    destruct (Z.ltb_spec off 0); [lia|]. destruct b as [|b0 b']; [congruence|].
    destruct (hd_name f) eqn:En; [congruence|].
    rewrite Hnode, file_of_c, Hw. cbn [negb].
    rewrite write_at_data_put. reflexivity.
  Qed.

  (* C02_gap: a write at an offset at or beyond the end leaves the old bytes, a zero-filled gap, then b *)
  Lemma gap_write b :
    has (hd_mode f) OpenWrite = true -> has (hd_mode f) OpenAppend = false -> zlen d <= hd_at f -> b <> [] ->
    f_write s v f b =
      (with_heap s (upd (f_heap s) c (NFile (d ++ zeros (Z.to_nat (hd_at f) - length d) ++ b) k i (drop_privs (v_user v) m))),
       set_at f (hd_at f + zlen b), RInt (zlen b)).
  Proof.
    intros Hw Ha Hoff Hb. rewrite f_write_ok by assumption. rewrite Ha.
    rewrite put_bytes_beyond by (unfold zlen in Hoff; lia). reflexivity.
  Qed.

  Lemma gap_write_at b off :
    has (hd_mode f) OpenWrite = true -> has (hd_mode f) OpenAppend = false -> zlen d <= off -> b <> [] ->
    f_write_at s v f b off =
      (with_heap s (upd (f_heap s) c (NFile (d ++ zeros (Z.to_nat off - length d) ++ b) k i (drop_privs (v_user v) m))), RInt (zlen b)).
  Proof.
    intros Hw Hap Hoff Hb. unfold zlen in Hoff. rewrite f_write_at_ok by (auto; lia).
    rewrite put_bytes_beyond by lia. reflexivity.
  Qed.

  (* C02_append: in append mode the write lands at the current end, whatever the handle's offset is *)
  Lemma append_write b :
    has (hd_mode f) OpenWrite = true -> has (hd_mode f) OpenAppend = true -> b <> [] ->
    f_write s v f b =
      (with_heap s (upd (f_heap s) c (NFile (d ++ b) k i (drop_privs (v_user v) m))), set_at f (zlen d + zlen b), RInt (zlen b)).
  Proof.
    intros Hw Ha Hb. rewrite f_write_ok by assumption. rewrite Ha.
    unfold zlen. rewrite Nat2Z.id, put_bytes_at_end. reflexivity.
  Qed.

  (* C02_access: without OpenRead no data is ever returned; without OpenWrite nothing changes *)
  Lemma no_read_no_data n off :
    has (hd_mode f) OpenRead = false -> 0 < n ->
    (exists e, f_read s v f n = (f, RFail e)) /\ (exists e, f_read_at s v f n off = RFail e).
  Proof.
    intros Hr Hn. unfold f_read, f_read_at.
    destruct (Z.leb_spec n 0); [lia|].
    destruct (hd_name f) eqn:En; [congruence|].
    rewrite Hnode, file_of_c, Hr. cbn [negb]. split; [eauto|].
    destruct (Z.ltb off 0); eauto.
  Qed.

  (* an empty buffer is "read" at once: no data either *)
  Lemma empty_read_no_data n off : n <= 0 ->
    f_read s v f n = (f, RBytes 0 [] None)
    /\ f_read_at s v f n off = (if Z.ltb off 0 then RFail EG_NegativeOffset else RBytes 0 [] None).
  Proof.
    intros Hn. unfold f_read, f_read_at. destruct (Z.leb_spec n 0); [|lia].
    destruct (hd_name f) eqn:En; [congruence|]. rewrite Hnode. auto.
  Qed.

  Lemma no_write_no_change b off size :
    has (hd_mode f) OpenWrite = false ->
    (exists e, f_write s v f b = (s, f, RFail e)) /\ (exists r, f_write_at s v f b off = (s, r) /\ (b <> [] -> exists e, r = RFail e))
    /\ (exists e, f_truncate s v f size = (s, RFail e)).
  Proof.
    intros Hw. unfold f_write, f_write_at, f_truncate.
    destruct (hd_name f) eqn:En; [congruence|].
    rewrite Hnode, file_of_c, Hw. cbn [negb]. repeat split; eauto.
    - destruct (has (hd_mode f) OpenAppend); [eexists; split; eauto|].
      destruct (Z.ltb off 0); [eexists; split; eauto|].
      destruct b as [|b0 b']; eexists; split; eauto; congruence.
    - destruct (Z.ltb size 0); eauto.
  Qed.
End Clauses.

(* C02_closed: on a closed handle every method returns an error and changes neither the file system nor
   the handle; the error is the closed-file error except where an argument is rejected first
   (negative WriteAt offset, negative Truncate size). *)
Definition is_closed_err (r : res) : Prop := r = RFail EG_Closed \/ r = RFail EG_FileClosing.

Lemma closed_handle s v f :
  hd_name f <> [] -> hd_node f = None -> win v = false ->
  (forall n, f_read s v f n = (f, RFail EG_Closed))
  /\ (forall n off, f_read_at s v f n off =
        if Z.ltb off 0 then RFail EG_NegativeOffset else if Z.leb n 0 then RBytes 0 [] None else RFail EG_Closed)
  /\ (forall b, f_write s v f b = (s, f, RFail EG_Closed))
  /\ (forall b off, f_write_at s v f b off =
        (s, if has (hd_mode f) OpenAppend then RFail EG_WriteAtInAppendMode
            else if Z.ltb off 0 then RFail EG_NegativeOffset else match b with [] => RInt 0 | _ => RFail EG_Closed end))
  /\ (forall off wh, f_seek s v f off wh = (f, RFail EG_Closed))
  /\ (forall size, f_truncate s v f size = (s, RFail EG_Closed))
  /\ f_stat s v f = RFail EG_FileClosing
  /\ f_sync f = RFail EG_Closed
  /\ (forall mode, f_chmod s v f mode = (s, RFail EG_Closed))
  /\ (forall u g, f_chown s v f u g = (s, RFail EG_Closed))
  /\ f_chdir s v f = inl (RFail EG_Closed)
  /\ f_close f = (f, RFail EG_Closed)
  /\ (forall n, f_read_dir s v f n = (f, RFail EG_FileClosing))
  /\ (forall n, f_readdirnames s v f n = (f, RFail EG_FileClosing)).
Proof.
  intros Hn Hc Hw.
  unfold f_read, f_read_at, f_write, f_write_at, f_seek, f_truncate, f_stat, f_sync, f_chmod, f_chown, f_chdir,
    f_close, f_read_dir, f_readdirnames, dir_read, closed_err.
  rewrite Hc, Hw. destruct (hd_name f) eqn:En; [congruence|].
  repeat split; intros; try reflexivity.
  destruct (has (hd_mode f) OpenAppend); [reflexivity|].
  destruct (Z.ltb off 0); [reflexivity|]. destruct b; reflexivity.
Qed.

(* ---- C02_unlinked ------------------------------------------------------------------ *)
(* The handle methods look at the file system only through the handle's node. *)
Lemma handle_reads_local s s' v f c :
  hd_node f = Some c -> get (f_heap s') c = get (f_heap s) c ->
  (forall n, f_read s' v f n = f_read s v f n)
  /\ (forall n off, f_read_at s' v f n off = f_read_at s v f n off)
  /\ f_stat s' v f = f_stat s v f
  /\ (forall off wh, f_seek s' v f off wh = f_seek s v f off wh).
Proof.
  intros Hc Hg.
  unfold f_read, f_read_at, f_stat, f_seek, file_of. rewrite Hc, Hg.
  repeat split; intros; reflexivity.
Qed.

Lemma handle_write_local s s' v f c b :
  hd_node f = Some c -> get (f_heap s') c = get (f_heap s) c ->
  snd (f_write s' v f b) = snd (f_write s v f b)
  /\ snd (fst (f_write s' v f b)) = snd (fst (f_write s v f b))
  /\ get (f_heap (fst (fst (f_write s' v f b)))) c = get (f_heap (fst (fst (f_write s v f b)))) c.
Proof.
  intros Hc Hg.
  unfold f_write, file_of. rewrite Hc, Hg.
  destruct (hd_name f); cbn [fst snd]; [auto|].
  destruct (get (f_heap s) c) as [[ch mm|dd kk ii mm|ll mm]|] eqn:Eg; cbn [fst snd];
    try (repeat split; congruence).
  destruct (negb (has (hd_mode f) OpenWrite)); cbn [fst snd f_heap with_heap]; [repeat split; congruence|].
  destruct b as [|b0 b']; cbn [fst snd f_heap with_heap]; [repeat split; congruence|].
  assert (Hl : (c < length (f_heap s))%nat) by (eapply get_some_lt; eauto).
  assert (Hl' : (c < length (f_heap s'))%nat) by (eapply get_some_lt; rewrite Hg; eauto).
  rewrite !get_upd_same by assumption. auto.
Qed.

(* what Remove / Rename do to a file node: through delete_node only *)
Lemma delete_node_file h c d k i m :
  get h c = Some (NFile d k i m) ->
  get (delete_node h c) c = Some (NFile d (k - 1) i m).
Proof.
  intros H. unfold delete_node. rewrite H. apply get_upd_same. eapply get_some_lt; eauto.
Qed.

Lemma delete_node_other h c c' : c <> c' -> get (delete_node h c') c = get h c.
Proof.
  intros Hne. unfold delete_node.
  destruct (get h c') as [[ch mm|dd kk ii mm|ll mm]|]; auto; now rewrite get_upd_other by auto.
Qed.

Lemma remove_child_file h p name c d k i m :
  get h c = Some (NFile d k i m) -> get (remove_child h p name) c = Some (NFile d k i m).
Proof.
  intros H. unfold remove_child.
  destruct (get h p) as [[ch mm|dd kk ii mm|ll mm]|] eqn:Ep; auto.
  destruct (Nat.eq_dec p c) as [->|Hne]; [congruence|]. now rewrite get_upd_other.
Qed.

Lemma add_child_file h p name x c d k i m :
  get h c = Some (NFile d k i m) -> get (add_child h p name x) c = Some (NFile d k i m).
Proof.
  intros H. unfold add_child.
  destruct (get h p) as [[ch mm|dd kk ii mm|ll mm]|] eqn:Ep; auto.
  destruct (Nat.eq_dec p c) as [->|Hne]; [congruence|]. now rewrite get_upd_other.
Qed.

(* Remove(name) succeeded: an open file keeps its data iff another link remains *)
Lemma remove_effect s v name s' c d k i m :
  remove s v name = (s', ROk) -> get (f_heap s) c = Some (NFile d k i m) ->
  get (f_heap s') c = Some (NFile d k i m)
  \/ get (f_heap s') c = Some (NFile d (k - 1) i m).
Proof.
  intros Hr Hc. unfold remove in Hr.
  destruct (sr_child (search_node s v name SlLstat)) as [c'|]; [|discriminate].
  destruct (sr_parent (search_node s v name SlLstat)) as [p|]; [|discriminate].
  destruct (negb (is_file_exists _)); [discriminate|].
  destruct (Nat.eqb p c'); [discriminate|].
  destruct (negb (perm_on _ _ _ _)); [discriminate|].
  destruct (sticky_refuses _ _ _ _); [discriminate|].
  assert (Hfin : forall part, get (delete_node (remove_child (f_heap s) p part) c') c = Some (NFile d k i m)
                 \/ get (delete_node (remove_child (f_heap s) p part) c') c =
                    Some (NFile d (k - 1) i m)).
  { intros part. destruct (Nat.eq_dec c c') as [<-|Hne].
    - right. apply delete_node_file. now apply remove_child_file.
    - left. rewrite delete_node_other by auto. now apply remove_child_file. }
  destruct (get (f_heap s) c') as [[[|e ch] mm|dd kk ii mm|ll mm]|]; try discriminate;
    destruct (alookup _ _ _); try discriminate; inversion Hr; subst; cbn [f_heap with_heap]; apply Hfin.
Qed.

(* Rename succeeded: the node of an open file is untouched unless it was the replaced target *)
(* walks through the conditionals of a call that returned ROk, outermost first *)
Ltac walk_ok Hr :=
  repeat (match type of Hr with
          | (if ?c then _ else _) = _ => destruct c eqn:?
          | (match ?x with _ => _ end) = _ => destruct x eqn:?
          end; try discriminate).

Lemma rename_effect s v o n s' c d k i m :
  rename s v o n = (s', ROk) -> get (f_heap s) c = Some (NFile d k i m) ->
  get (f_heap s') c = Some (NFile d k i m)
  \/ get (f_heap s') c = Some (NFile d (k - 1) i m).
Proof.
  intros Hr Hc.
  assert (Hmove : forall h0 np oc op a b, get h0 c = Some (NFile d k i m) ->
            get (remove_child (add_child h0 np a oc) op b) c = Some (NFile d k i m)).
  { intros. apply remove_child_file. now apply add_child_file. }
  assert (Hdel : forall nc np oc op a b,
            get (remove_child (add_child (delete_node (f_heap s) nc) np a oc) op b) c = Some (NFile d k i m)
            \/ get (remove_child (add_child (delete_node (f_heap s) nc) np a oc) op b) c
               = Some (NFile d (k - 1) i m)).
  { intros nc np oc op a b. destruct (Nat.eq_dec c nc) as [<-|Hne].
    - right. apply remove_child_file, add_child_file. now apply delete_node_file.
    - left. apply Hmove. now rewrite delete_node_other. }
  unfold rename in Hr. cbv zeta in Hr. walk_ok Hr.
  all: inversion Hr; subst; cbn [f_heap with_heap]; first [left; assumption | left; now apply Hmove | apply Hdel].
Qed.

(* ---- C02_dir_batches ------------------------------------------------------------------ *)
(* the sorted listing holds every entry of the directory exactly once *)
Lemma insert_sorted_perm {A} (key : A -> str) x l : Permutation (insert_sorted key x l) (x :: l).
Proof.
  induction l as [|y l IH]; cbn [insert_sorted]; auto.
  destruct (str_ltb (key y) (key x)); auto.
  rewrite IH. apply perm_swap.
Qed.

Lemma sort_by_perm {A} (key : A -> str) l : Permutation (sort_by key l) l.
Proof.
  unfold sort_by. induction l as [|x l IH]; cbn [fold_right]; auto.
  rewrite insert_sorted_perm. now constructor.
Qed.

Lemma dir_names_perm ch : Permutation (dir_names ch) (map fst ch).
Proof. apply sort_by_perm. Qed.

Lemma fill_stat_name n name : fi_name (fill_stat n name) = name.
Proof. now destruct n. Qed.

Lemma dir_infos_perm h ch :
  (forall name c, In (name, c) ch -> get h c <> None) ->
  Permutation (map (@fi_name) (dir_infos h ch)) (map fst ch).
Proof.
  intros Hall. unfold dir_infos. rewrite sort_by_perm.
  induction ch as [|[name c] ch IH]; cbn [flat_map map fst]; auto.
  rewrite map_app. destruct (get h c) eqn:Eg.
  - cbn [map app]. rewrite fill_stat_name. constructor. apply IH. intros; eapply Hall; right; eauto.
  - exfalso. eapply Hall; [left; reflexivity|auto].
Qed.

(* successive ReadDir(n) calls until the first result that is not a plain batch *)
Fixpoint read_dir_all (fuel : nat) (s : fsys) (v : view) (f : handle) (n : Z) : list (list finfo) * option res :=
  match fuel with
  | O => ([], None)
  | S k =>
      match f_read_dir s v f n with
      | (f', RInfos l None) => let '(bs, e) := read_dir_all k s v f' n in (l :: bs, e)
      | (_, r) => ([], Some r)
      end
  end.

Fixpoint readdirnames_all (fuel : nat) (s : fsys) (v : view) (f : handle) (n : Z) : list (list str) * option res :=
  match fuel with
  | O => ([], None)
  | S k =>
      match f_readdirnames s v f n with
      | (f', RNames l None) => let '(bs, e) := readdirnames_all k s v f' n in (l :: bs, e)
      | (_, r) => ([], Some r)
      end
  end.

Lemma skipn_skipn_add {A} (l : list A) x y : skipn x (skipn y l) = skipn (y + x) l.
Proof.
  revert l; induction y as [|y IH]; intros l; cbn [skipn plus]; auto.
  destruct l; [now rewrite skipn_nil|apply IH].
Qed.

Lemma skipn_split {A} (l : list A) ix e :
  (ix <= e)%nat -> skipn ix l = firstn (e - ix) (skipn ix l) ++ skipn e l.
Proof.
  intros H. rewrite <- (firstn_skipn (e - ix) (skipn ix l)) at 1.
  f_equal. rewrite skipn_skipn_add. f_equal. lia.
Qed.

Section DirBatches.
  Variables (s : fsys) (v : view) (c : nat) (ch : list (str * nat)) (m : meta).
  Hypothesis Hdir : get (f_heap s) c = Some (NDir ch m).

  Let L := dir_infos (f_heap s) ch.

  (* the position of a handle in the listing: nothing read yet (position 0), or the listing taken and an index *)
  Definition dir_at (f : handle) (ix : nat) : Prop :=
    hd_name f <> [] /\ hd_node f = Some c
    /\ ((hd_dir_infos f = None /\ ix = 0%nat) \/ (hd_dir_infos f = Some L /\ hd_dir_index f = ix)).

  (* one read through the shared cursor, whatever the rendering of the batch *)
  Lemma dir_read_at f ix n ret :
    dir_at f ix ->
    match dir_batch n L ix with
    | None => snd (dir_read s v f n ret) = ret [] (Some EG_EOF) /\ dir_at (fst (dir_read s v f n ret)) ix
    | Some (b, e) => snd (dir_read s v f n ret) = ret b None /\ dir_at (fst (dir_read s v f n ret)) e
    end.
  Proof.
    intros (Hnm & Hnd & Hpos). unfold dir_read.
    destruct (hd_name f) eqn:En; [congruence|]. rewrite Hnd, Hdir.
    assert (E : (match hd_dir_infos f with Some l => l | None => dir_infos (f_heap s) ch end) = L
                /\ (match hd_dir_infos f with Some _ => hd_dir_index f | None => 0%nat end) = ix).
    { destruct Hpos as [[Hi ->]|[Hi Hx]]; rewrite Hi; auto. }
    destruct E as [-> ->].
    destruct (dir_batch n L ix) as [[b e]|]; cbn [fst snd]; (split; [reflexivity|]);
      unfold dir_at; cbn [hd_name hd_node hd_dir_infos hd_dir_index]; repeat split; auto; congruence.
  Qed.

  Lemma dir_batch_pos n ix : 0 < n -> (ix < length L)%nat ->
    dir_batch n L ix = Some (firstn (Nat.min (ix + Z.to_nat n) (length L) - ix) (skipn ix L),
                             Nat.min (ix + Z.to_nat n) (length L)).
  Proof.
    intros Hn Hix. unfold dir_batch.
    destruct (Z.ltb_spec 0 n); [|lia]. destruct (Nat.leb_spec (length L) ix); [lia|]. cbn [andb].
    destruct (Z.leb_spec n 0); [lia|]. reflexivity.
  Qed.

  Lemma dir_batch_end n ix : 0 < n -> (length L <= ix)%nat -> dir_batch n L ix = None.
  Proof.
    intros Hn Hix. unfold dir_batch.
    destruct (Z.ltb_spec 0 n); [|lia]. destruct (Nat.leb_spec (length L) ix); [|lia]. reflexivity.
  Qed.

  Lemma read_dir_loop n fuel : 0 < n -> forall f ix,
    dir_at f ix -> (length L - ix < fuel)%nat -> (ix <= length L)%nat ->
    exists bs, read_dir_all fuel s v f n = (bs, Some (RInfos [] (Some EG_EOF)))
               /\ concat bs = skipn ix L
               /\ Forall (fun b => (0 < length b)%nat /\ Z.of_nat (length b) <= n) bs.
  Proof.
    intros Hn. induction fuel as [|fuel IH]; intros f ix Hat Hfuel Hix; [lia|].
    cbn [read_dir_all]. unfold f_read_dir.
    pose proof (@dir_read_at f ix n (fun l e => RInfos l e) Hat) as Hstep.
    destruct (Nat.leb_spec (length L) ix) as [Hle|Hgt].
    - rewrite dir_batch_end in Hstep by auto. destruct Hstep as [Hr _].
      destruct (dir_read s v f n _) as [f' r]. cbn [snd] in Hr. subst r.
      exists []. repeat split; auto. cbn [concat]. now rewrite skipn_all2 by lia.
    - rewrite dir_batch_pos in Hstep by auto. destruct Hstep as [Hr Hat'].
      destruct (dir_read s v f n _) as [f' r]. cbn [fst snd] in *. subst r.
      set (e := Nat.min (ix + Z.to_nat n) (length L)) in *.
      destruct (IH f' e Hat') as (bs & Hrun & Hcat & Hall); [lia|lia|].
      fold (f_read_dir s v) in Hrun. rewrite Hrun. eexists; repeat split.
      + cbn [concat]. rewrite Hcat. symmetry. apply skipn_split. lia.
      + constructor; auto. rewrite firstn_length, skipn_length. lia.
  Qed.

  (* C02_dir_batches for ReadDir: from a freshly opened (or rewound) handle *)
  Lemma read_dir_batches n f :
    0 < n -> hd_name f <> [] -> hd_node f = Some c -> hd_dir_infos f = None ->
    exists bs, read_dir_all (S (S (length L))) s v f n = (bs, Some (RInfos [] (Some EG_EOF)))
               /\ concat bs = L
               /\ Forall (fun b => (0 < length b)%nat /\ Z.of_nat (length b) <= n) bs.
  Proof.
    intros Hn Hnm Hnd Hi.
    assert (Hat : dir_at f 0) by (unfold dir_at; auto).
    destruct (@read_dir_loop n (S (S (length L))) Hn f 0%nat Hat) as (bs & Hrun & Hcat & Hall); [lia|lia|].
    exists bs. repeat split; auto.
  Qed.

  Lemma readdirnames_loop n fuel : 0 < n -> forall f ix,
    dir_at f ix -> (length L - ix < fuel)%nat -> (ix <= length L)%nat ->
    exists bs, readdirnames_all fuel s v f n = (bs, Some (RNames [] (Some EG_EOF)))
               /\ concat bs = skipn ix (map (@fi_name) L)
               /\ Forall (fun b => (0 < length b)%nat /\ Z.of_nat (length b) <= n) bs.
  Proof.
    intros Hn. induction fuel as [|fuel IH]; intros f ix Hat Hfuel Hix; [lia|].
    cbn [readdirnames_all]. unfold f_readdirnames.
    pose proof (@dir_read_at f ix n (fun l e => RNames (map (@fi_name) l) e) Hat) as Hstep.
    destruct (Nat.leb_spec (length L) ix) as [Hle|Hgt].
    - rewrite dir_batch_end in Hstep by auto. destruct Hstep as [Hr _].
      destruct (dir_read s v f n _) as [f' r]. cbn [snd] in Hr. subst r. cbn [map].
      exists []. repeat split; auto. cbn [concat]. now rewrite skipn_all2 by (rewrite map_length; lia).
    - rewrite dir_batch_pos in Hstep by auto. destruct Hstep as [Hr Hat'].
      destruct (dir_read s v f n _) as [f' r]. cbn [fst snd] in *. subst r.
      set (e := Nat.min (ix + Z.to_nat n) (length L)) in *.
      destruct (IH f' e Hat') as (bs & Hrun & Hcat & Hall); [lia|lia|].
      fold (f_readdirnames s v) in Hrun. rewrite Hrun. eexists; repeat split.
      + cbn [concat]. rewrite Hcat. rewrite <- firstn_map, <- skipn_map. symmetry.
        replace e with (Nat.min (ix + Z.to_nat n) (length (map (@fi_name) L))) by (rewrite map_length; reflexivity).
        apply skipn_split. rewrite map_length. lia.
      + constructor; auto. rewrite map_length, firstn_length, skipn_length. lia.
  Qed.

  Lemma readdirnames_batches n f :
    0 < n -> hd_name f <> [] -> hd_node f = Some c -> hd_dir_infos f = None ->
    exists bs, readdirnames_all (S (S (length L))) s v f n = (bs, Some (RNames [] (Some EG_EOF)))
               /\ concat bs = map (@fi_name) L
               /\ Forall (fun b => (0 < length b)%nat /\ Z.of_nat (length b) <= n) bs.
  Proof.
    intros Hn Hnm Hnd Hi.
    assert (Hat : dir_at f 0) by (unfold dir_at; auto).
    destruct (@readdirnames_loop n (S (S (length L))) Hn f 0%nat Hat) as (bs & Hrun & Hcat & Hall); [lia|lia|].
    exists bs. repeat split; auto.
  Qed.
End DirBatches.

(* ======================================================================= *)
(* Part B - refinement: implementation step = specification step outside kf02 *)
(* ======================================================================= *)

(* ---- finite sweeps over flag / permission values ---------------------------------- *)
Lemma N_lt_forall (P : N -> bool) (k : nat) :
  forallb P (map N.of_nat (seq 0 k)) = true -> forall x, (x < N.of_nat k)%N -> P x = true.
Proof.
  intros H x Hx. rewrite forallb_forall in H. apply H.
  replace x with (N.of_nat (N.to_nat x)) by apply N2Nat.id.
  apply in_map, in_seq. lia.
Qed.

(* ToOpenMode (vfs.go:582) on the 12 low bits: the option bits are decoded as open(2) documents them *)
Definition open_mode_bits_ok (flag : N) : bool :=
  Bool.eqb (has (to_open_mode flag) OpenCreateExcl) (fbit flag FO_CREATE && fbit flag FO_EXCL)
  && Bool.eqb (has (to_open_mode flag) OpenTruncate) (fbit flag FO_TRUNC)
  && Bool.eqb (has (to_open_mode flag) OpenAppend) (fbit flag FO_APPEND)
  && match access_of flag with
     | Some a => Bool.eqb (has (to_open_mode flag) OpenRead) (can_read a)
                 && Bool.eqb (has (to_open_mode flag) OpenWrite) (can_write a)
     | None => true
     end.

Lemma open_mode_bits : forall flag, (flag < 4096)%N ->
  has (to_open_mode flag) OpenCreateExcl = (fbit flag FO_CREATE && fbit flag FO_EXCL)
  /\ has (to_open_mode flag) OpenTruncate = fbit flag FO_TRUNC
  /\ has (to_open_mode flag) OpenAppend = fbit flag FO_APPEND
  /\ forall a, access_of flag = Some a ->
       has (to_open_mode flag) OpenRead = can_read a /\ has (to_open_mode flag) OpenWrite = can_write a.
Proof.
  intros flag Hlt.
  assert (H : open_mode_bits_ok flag = true).
  { apply (N_lt_forall open_mode_bits_ok 4096); [vm_compute; reflexivity|exact Hlt]. }
  unfold open_mode_bits_ok in H. rewrite !andb_true_iff in H. destruct H as [[[H1 H2] H3] H4].
  apply eqb_prop in H1, H2, H3. repeat split; auto.
  - rewrite H in H4. apply andb_true_iff in H4. destruct H4 as [H4 _]. now apply eqb_prop in H4.
  - rewrite H in H4. apply andb_true_iff in H4. destruct H4 as [_ H4]. now apply eqb_prop in H4.
Qed.

Definition perm_ok (p : N) : bool :=
  N.eqb (N.land p FILE_MODE_MASK) p && N.eqb (N.land p 511) p && N.eqb (N.ldiff p FILE_MODE_MASK) 0.

Lemma perm_small : forall p, (p < 512)%N ->
  N.land p FILE_MODE_MASK = p /\ N.land p 511 = p /\ N.ldiff p FILE_MODE_MASK = 0%N.
Proof.
  intros p Hlt.
  assert (H : perm_ok p = true).
  { apply (N_lt_forall perm_ok 512); [vm_compute; reflexivity|exact Hlt]. }
  unfold perm_ok in H. rewrite !andb_true_iff in H. destruct H as [[H1 H2] H3].
  apply N.eqb_eq in H1, H2, H3. auto.
Qed.

(* permission bits carry no set-id bit: chown (which clears them) leaves such a mode alone *)
Definition setid_free (p : N) : bool := N.eqb (N.ldiff p MODE_SETUID) p && N.eqb (N.ldiff p MODE_SETGID) p.

Lemma drop_setid_small (u : user) (m : meta) : (m_mode m < 512)%N -> drop_setid u m = m.
Proof.
  intros Hlt.
  assert (H : setid_free (m_mode m) = true).
  { apply (N_lt_forall setid_free 512); [vm_compute; reflexivity|exact Hlt]. }
  unfold setid_free in H. apply andb_true_iff in H. destruct H as [H1 H2]. apply N.eqb_eq in H1, H2.
  unfold drop_setid. rewrite H1, H2. destruct m, (has _ 8 || _); reflexivity.
Qed.

(* ---- the path walk does not look at the content of files ---------------------------- *)
Definition node_sim (a b : option node) : Prop :=
  match a, b with
  | Some (NDir ch m), Some (NDir ch' m') => ch = ch' /\ m = m'
  | Some (NFile _ _ _ _), Some (NFile _ _ _ _) => True
  | Some (NSym l _), Some (NSym l' _) => l = l'
  | None, None => True
  | _, _ => False
  end.

Definition heap_sim (h h' : heap) : Prop := forall i, node_sim (get h i) (get h' i).

Lemma node_sim_refl a : node_sim a a.
Proof. destruct a as [[ch m|d k i m|l m]|]; cbn; auto. Qed.

Lemma heap_sim_upd_file h c d k i m d' k' i' m' :
  get h c = Some (NFile d k i m) -> heap_sim h (upd h c (NFile d' k' i' m')).
Proof.
  intros Hc j. destruct (Nat.eq_dec c j) as [<-|Hne].
  - rewrite get_upd_same by (eapply get_some_lt; eauto). rewrite Hc. exact I.
  - rewrite get_upd_other by auto. apply node_sim_refl.
Qed.

Lemma children_sim h h' p : heap_sim h h' -> children h p = children h' p.
Proof.
  intros H. unfold children. specialize (H p).
  destruct (get h p) as [[ch m|d k i m|l m]|], (get h' p) as [[ch' m'|d' k' i' m'|l' m']|]; cbn in H; try tauto; try reflexivity.
Qed.

Lemma node_is_dir_sim h h' p : heap_sim h h' -> node_is_dir h' p = node_is_dir h p.
Proof.
  intros H. unfold node_is_dir. specialize (H p).
  destruct (get h p) as [[ch m|d k i m|l m]|], (get h' p) as [[ch' m'|d' k' i' m'|l' m']|]; cbn in H; tauto.
Qed.

Lemma search_loop_sim h h' v slm vol : heap_sim h h' -> node_is_dir h vol = true ->
  forall fuel parent pi slc saved,
    search_loop fuel h v slm vol parent pi slc saved = search_loop fuel h' v slm vol parent pi slc saved.
Proof.
  intros Hs Hvol. induction fuel as [|fuel IH]; intros; cbn [search_loop]; [reflexivity|].
  destruct (pi_next (v_os v) pi) as [ok pi1]. destruct ok; cbn [negb]; [|reflexivity].
  rewrite (children_sim parent Hs).
  assert (Hroot : (Nat.eqb parent vol && negb (match get h parent with
                     | Some n => check_permission (node_meta n) OpenLookup (v_user v) | None => false end))
                = (Nat.eqb parent vol && negb (match get h' parent with
                     | Some n => check_permission (node_meta n) OpenLookup (v_user v) | None => false end))).
  { destruct (Nat.eqb_spec parent vol) as [->|Hne]; [|reflexivity]. cbn [andb].
    pose proof (Hs vol) as Hv. unfold node_is_dir in Hvol.
    destruct (get h vol) as [[ch m|d k i m|l m]|]; try discriminate.
    destruct (get h' vol) as [[ch' m'|d' k' i' m'|l' m']|]; cbn in Hv; try tauto.
    destruct Hv as [_ <-]. reflexivity. }
  destruct (alookup str_eqb (pi_part pi1) (children h' parent)) as [c|].
  2:{ now rewrite Hroot. }
  pose proof (Hs c) as Hc.
  destruct (get h c) as [[ch m|d k i m|l m]|] eqn:Eg, (get h' c) as [[ch' m'|d' k' i' m'|l' m']|] eqn:Eg';
    cbn in Hc; try tauto; rewrite <- ?Hroot.
  - destruct Hc as [-> ->].
    destruct (_ && _); [reflexivity|]. destruct (pi_is_last pi1); [reflexivity|].
    destruct (check_permission m' OpenLookup (v_user v)); [apply IH|reflexivity].
  - reflexivity.
  - subst l'. destruct (_ && _); [reflexivity|].
    destruct (pi_is_last pi1 && slmode_eqb slm SlLstat); [reflexivity|].
    destruct (Nat.ltb slCountMax (S slc)); [reflexivity|].
    destruct (pi_replace_part (v_os v) pi1 l) as [reset pi2]. apply IH.
  - reflexivity.
Qed.

Lemma search_node_sim s h' v p slm :
  heap_sim (f_heap s) h' -> node_is_dir (f_heap s) (v_root v) = true -> f_vols s = [] ->
  search_node (with_heap s h') v p slm = search_node s v p slm.
Proof.
  intros Hs Hroot Hvols. unfold search_node. cbn [f_heap f_vols with_heap]. rewrite Hvols.
  destruct (Nat.ltb 0 (pi_vnl _)); cbn [alookup]; [reflexivity|].
  symmetry. now apply search_loop_sim.
Qed.

(* ---- list updates --------------------------------------------------------------------- *)
Lemma set_nth_length {A} (l : list A) i x : length (set_nth l i x) = length l.
Proof. revert i; induction l as [|y l IH]; intros [|i]; cbn; auto. Qed.

Lemma set_nth_same {A} (l : list A) i x : nth_error l i = Some x -> set_nth l i x = l.
Proof.
  revert i; induction l as [|y l IH]; intros [|i] H; cbn in *; try congruence.
  f_equal. now apply IH.
Qed.

Lemma nth_set_nth_eq {A} (l : list A) i x : (i < length l)%nat -> nth_error (set_nth l i x) i = Some x.
Proof. revert i; induction l as [|y l IH]; intros [|i] H; cbn in *; try lia; auto. apply IH; lia. Qed.

Lemma nth_set_nth_ne {A} (l : list A) i j x : i <> j -> nth_error (set_nth l i x) j = nth_error l j.
Proof. revert i j; induction l as [|y l IH]; intros [|i] [|j] H; cbn; auto; congruence. Qed.

Lemma set_nth__same {A} (l : list A) i x : nth_error l i = Some x -> set_nth_ l i x = l.
Proof.
  revert i; induction l as [|y l IH]; intros [|i] H; cbn in *; try congruence.
  f_equal. now apply IH.
Qed.

Lemma Forall2_set_nth {A B} (R : A -> B -> Prop) l1 l2 i x y :
  Forall2 R l1 l2 -> R x y -> Forall2 R (set_nth_ l1 i x) (set_nth l2 i y).
Proof.
  intros H Hxy. revert i. induction H as [|a b l1 l2 Hab H IH]; intros [|i]; cbn; constructor; auto.
Qed.

Lemma Forall2_nth {A B} (R : A -> B -> Prop) l1 l2 i y :
  Forall2 R l1 l2 -> nth_error l2 i = Some y -> exists x, nth_error l1 i = Some x /\ R x y.
Proof.
  intros H. revert i. induction H as [|a b l1 l2 Hab H IH]; intros [|i] Hn; cbn in *; try discriminate.
  - inversion Hn; subst. eauto.
  - eauto.
Qed.

Lemma Forall2_len {A B} (R : A -> B -> Prop) l1 l2 : Forall2 R l1 l2 -> length l1 = length l2.
Proof. induction 1; cbn; auto. Qed.

Lemma Forall2_nth_none {A B} (R : A -> B -> Prop) l1 l2 i :
  Forall2 R l1 l2 -> nth_error l2 i = None -> nth_error l1 i = None.
Proof.
  intros H Hn. apply nth_error_None. apply nth_error_None in Hn.
  now rewrite (Forall2_len H).
Qed.

(* ---- the refinement relation ------------------------------------------------------------ *)
Section Refine.
  (* where the specification's inode i lives in the implementation's heap *)
  Variable ptr : nat -> nat.

  Definition meta_of (ino : inode) : meta := {| m_mode := i_perm ino; m_uid := i_uid ino; m_gid := i_gid ino |}.

  (* an inductive wrapper: unification never unfolds the walk (3000 units of fuel) when comparing two of these *)
  Inductive resolves (s : fsys) (v : view) (p : str) (c : nat) : Prop :=
  | Resolves : (forall slm, let r := search_node s v p slm in
                  sr_err r = EFileExists /\ sr_child r = Some c /\ pi_is_last (sr_pi r) = true) ->
               resolves s v p c.

  Definition rel_fd (ninodes : nat) (f : handle) (o : ofd) : Prop :=
    hd_view f = 0%nat /\ hd_name f <> [] /\
    hd_node f = (if o_closed o then None else Some (ptr (o_ino o))) /\
    (o_ino o < ninodes)%nat /\
    hd_at f = o_off o /\
    has (hd_mode f) OpenRead = can_read (o_acc o) /\
    has (hd_mode f) OpenWrite = can_write (o_acc o) /\
    has (hd_mode f) OpenAppend = o_app o.

  Definition good_view (v : view) : Prop := us_admin (v_user v) = true /\ v_os v = Linux.

  Record Rel' (s : fsys) (vs : list view) (hs : list handle) (st : fstate) : Prop := {
    R_view : exists v, nth_error vs 0 = Some v /\ good_view v;
    R_root : forall v, nth_error vs 0 = Some v -> node_is_dir (f_heap s) (v_root v) = true;
    R_vols : f_vols s = [];
    R_inodes : forall i ino, nth_error (st_inodes st) i = Some ino ->
       (i_perm ino < 512)%N /\
       exists id, get (f_heap s) (ptr i) = Some (NFile (i_bytes ino) (i_nlink ino) id (meta_of ino));
    R_inj : forall i j, (i < length (st_inodes st))%nat -> (j < length (st_inodes st))%nat -> ptr i = ptr j -> i = j;
    R_names : forall v name i, nth_error vs 0 = Some v -> lookup_name st name = Some i ->
       (i < length (st_inodes st))%nat /\ resolves s v (fpath name) (ptr i);
    R_fds : Forall2 (rel_fd (length (st_inodes st))) hs (st_fds st)
  }.

  Definition Rel (w : world) (st : fstate) : Prop := Rel' (w_fs w) (w_views w) (w_handles w) st.

  (* an inode is rewritten in place (bytes, permission bits, owner): the relation survives *)
  Lemma Rel_upd_inode s vs hs st i ino ino' id :
    Rel' s vs hs st ->
    nth_error (st_inodes st) i = Some ino ->
    get (f_heap s) (ptr i) = Some (NFile (i_bytes ino) (i_nlink ino) id (meta_of ino)) ->
    (i_perm ino' < 512)%N ->
    Rel' (with_heap s (upd (f_heap s) (ptr i) (NFile (i_bytes ino') (i_nlink ino') id (meta_of ino')))) vs hs
         (with_inode st i ino').
  Proof.
    intros [Hv Hroot Hvols Hi Hj Hn Hf] Hino Hget Hperm.
    assert (Hlt : (i < length (st_inodes st))%nat) by (apply nth_error_Some; congruence).
    assert (Hsim : heap_sim (f_heap s)
                     (upd (f_heap s) (ptr i) (NFile (i_bytes ino') (i_nlink ino') id (meta_of ino'))))
      by (eapply heap_sim_upd_file; exact Hget).
    constructor; cbn [with_inode st_inodes st_names st_fds with_heap f_heap f_vols]; rewrite ?set_nth_length.
    - exact Hv.
    - intros v Hv0. rewrite (node_is_dir_sim _ Hsim). now apply Hroot.
    - exact Hvols.
    - intros j inoj Hnj. destruct (Nat.eq_dec i j) as [<-|Hne].
      + rewrite nth_set_nth_eq in Hnj by auto. inversion Hnj; subst inoj. split; auto.
        exists id. apply get_upd_same. eapply get_some_lt; eauto.
      + rewrite nth_set_nth_ne in Hnj by auto. destruct (Hi _ _ Hnj) as [Hp [idj Hgj]]. split; auto.
        exists idj. rewrite get_upd_other; auto.
        intros Heq. apply Hne. apply Hj; auto. apply nth_error_Some; congruence.
    - exact Hj.
    - intros v name j Hv0 Hl. unfold lookup_name in *. cbn [st_names] in *.
      destruct (Hn v name j Hv0 Hl) as [Hlj Hres]. split; [exact Hlj|].
      destruct Hres as [Hres]. constructor. intros slm. rewrite search_node_sim; [apply Hres|exact Hsim| |exact Hvols].
      now apply Hroot.
    - exact Hf.
  Qed.

  Lemma with_inode_same st i ino : nth_error (st_inodes st) i = Some ino -> with_inode st i ino = st.
  Proof. intros H. unfold with_inode. rewrite set_nth_same by auto. now destruct st. Qed.

  (* rewriting a file node by itself *)
  Lemma Rel_touch s vs hs st i ino id :
    Rel' s vs hs st ->
    nth_error (st_inodes st) i = Some ino ->
    get (f_heap s) (ptr i) = Some (NFile (i_bytes ino) (i_nlink ino) id (meta_of ino)) ->
    Rel' (with_heap s (upd (f_heap s) (ptr i) (NFile (i_bytes ino) (i_nlink ino) id (meta_of ino)))) vs hs st.
  Proof.
    intros HR Hino Hget.
    pose proof (@Rel_upd_inode s vs hs st i ino ino id HR Hino Hget) as H.
    rewrite (with_inode_same st i Hino) in H. apply H.
    destruct HR as [_ _ _ Hi _ _ _]. now destruct (Hi _ _ Hino).
  Qed.

  Lemma Rel_set_fd s vs hs st fd f o :
    Rel' s vs hs st -> rel_fd (length (st_inodes st)) f o ->
    Rel' s vs (set_nth_ hs fd f) (with_fd st fd o).
  Proof.
    intros [Hv Hroot Hvols Hi Hj Hn Hf] Hrel.
    constructor; cbn [with_fd st_inodes st_names st_fds]; try assumption.
    now apply Forall2_set_nth.
  Qed.

  Lemma with_fd_same st fd o : nth_error (st_fds st) fd = Some o -> with_fd st fd o = st.
  Proof. intros H. unfold with_fd. rewrite set_nth_same by auto. now destruct st. Qed.

  (* the handle changes in a way the specification's description does not see *)
  Lemma Rel_set_handle s vs hs st fd f o :
    Rel' s vs hs st -> nth_error (st_fds st) fd = Some o -> rel_fd (length (st_inodes st)) f o ->
    Rel' s vs (set_nth_ hs fd f) st.
  Proof.
    intros HR Ho Hrel. rewrite <- (with_fd_same st fd Ho). now apply Rel_set_fd.
  Qed.

  Lemma Rel_same_fd s vs hs st fd f :
    Rel' s vs hs st -> nth_error hs fd = Some f -> Rel' s vs (set_nth_ hs fd f) st.
  Proof. intros HR Hf. now rewrite set_nth__same. Qed.

  Lemma Rel_get_fd s vs hs st fd o :
    Rel' s vs hs st -> nth_error (st_fds st) fd = Some o ->
    exists f v, nth_error hs fd = Some f /\ nth_error vs (hd_view f) = Some v /\ good_view v
                /\ rel_fd (length (st_inodes st)) f o.
  Proof.
    intros [Hv Hroot Hvols Hi Hj Hn Hf] Ho.
    destruct (Forall2_nth fd Hf Ho) as (f & Hfn & Hrel).
    destruct Hv as (v & Hv0 & Hgood).
    exists f, v. destruct Hgood as [Hadm Hos].
    assert (Hview : hd_view f = 0%nat) by apply Hrel.
    rewrite Hview. unfold good_view. auto.
  Qed.

  Lemma Rel_no_fd s vs hs st fd :
    Rel' s vs hs st -> nth_error (st_fds st) fd = None -> nth_error hs fd = None.
  Proof. intros [Hv Hroot Hvols Hi Hj Hn Hf] Ho. eapply Forall2_nth_none; eauto. Qed.
End Refine.

(* ---- the domain of the refinement theorem ------------------------------------------------- *)
(* handle operations on any descriptor; Open and path-level Truncate of names that exist.  Creation and
   removal of names (Open of a missing name, Rename, Link, Remove) belong to the namespace (C01). *)
Definition in_scope (st : fstate) (op : fop) : bool :=
  match op with
  | Open name flag perm =>
      match lookup_name st name, access_of flag with
      | Some _, Some _ => N.ltb flag 4096
      | _, _ => false
      end
  | PTruncate name size => match lookup_name st name with Some _ => true | None => false end
  | Fchmod _ perm => N.ltb perm 512
  | PRename _ _ | PLink _ _ | PRemove _ | PReadFile _ | PStat _ => false
  | _ => true
  end.

Lemma on_fd_closed st fd o k :
  nth_error (st_fds st) fd = Some o -> o_closed o = true -> on_fd st fd k = (st, S_Err X_Closed).
Proof. intros H1 H2. unfold on_fd. now rewrite H1, H2. Qed.

Lemma on_fd_open st fd o ino k :
  nth_error (st_fds st) fd = Some o -> o_closed o = false -> nth_error (st_inodes st) (o_ino o) = Some ino ->
  on_fd st fd k = k o ino.
Proof. intros H1 H2 H3. unfold on_fd. now rewrite H1, H2, H3. Qed.

Lemma on_fd_none st fd k : nth_error (st_fds st) fd = None -> on_fd st fd k = (st, S_BadIndex).
Proof. intros H. unfold on_fd. now rewrite H. Qed.

(* the administrator's writes and truncations leave the set-id bits alone *)
Lemma drop_privs_good v m : good_view v -> drop_privs (v_user v) m = m.
Proof. intros [Ha _]. unfold drop_privs. rewrite Ha. reflexivity. Qed.

Lemma good_view_win v : good_view v -> win v = false.
Proof. intros [_ H]. unfold win. now rewrite H. Qed.

Lemma fd_get_some st fd o ino :
  nth_error (st_fds st) fd = Some o -> nth_error (st_inodes st) (o_ino o) = Some ino -> fd_get st fd = Some (o, ino).
Proof. intros H1 H2. unfold fd_get. now rewrite H1, H2. Qed.

Unset Implicit Arguments.

Section StepRefine.
  Variable ptr : nat -> nat.
  Variables (w : world) (st : fstate).
  Hypothesis HR : Rel ptr w st.

  Definition step_ok (op : fop) : Prop :=
    fproj_res (snd (wstep w (impl_call op))) = snd (fspec_step st op)
    /\ Rel ptr (fst (wstep w (impl_call op))) (fst (fspec_step st op)).

  (* a descriptor number never returned: both sides answer "bad index" *)
  Lemma no_fd_handle fd k : nth_error (st_fds st) fd = None -> on_handle w fd k = (w, RBadIndex).
  Proof.
    intros H. unfold on_handle.
    assert (Hn : nth_error (w_handles w) fd = None) by (eapply Rel_no_fd; [exact HR|exact H]).
    now rewrite Hn.
  Qed.

  (* the implementation side of an existing descriptor *)
  Lemma some_fd_handle fd o :
    nth_error (st_fds st) fd = Some o ->
    exists f v, nth_error (w_handles w) fd = Some f /\ good_view v
                /\ rel_fd ptr (length (st_inodes st)) f o
                /\ forall k, on_handle w fd k = k f v.
  Proof.
    intros H. destruct (Rel_get_fd fd HR H) as (f & v & Hf & Hv & Hg & Hrel).
    exists f, v. split; [exact Hf|]. split; [exact Hg|]. split; [exact Hrel|].
    intros k. unfold on_handle. now rewrite Hf, Hv.
  Qed.

  Lemma open_inode o :
    (o_ino o < length (st_inodes st))%nat ->
    exists ino id, nth_error (st_inodes st) (o_ino o) = Some ino /\ (i_perm ino < 512)%N
      /\ get (f_heap (w_fs w)) (ptr (o_ino o)) = Some (NFile (i_bytes ino) (i_nlink ino) id (meta_of ino)).
  Proof.
    intros Hlt. destruct (nth_error (st_inodes st) (o_ino o)) as [ino|] eqn:E.
    - destruct (R_inodes HR _ E) as [Hp [id Hg]]. eauto.
    - apply nth_error_None in E. lia.
  Qed.

  Ltac closed_case f v Hrel Hg :=
    let Hname := fresh "Hname" in let Hnode := fresh "Hnode" in
    destruct Hrel as (_ & Hname & Hnode & _);
    pose proof (closed_handle (w_fs w) f Hname Hnode (good_view_win Hg)) as HC.

  Lemma Rel_same_handle fd f : nth_error (w_handles w) fd = Some f -> Rel ptr (with_handle w fd f) st.
  Proof. intros H. unfold Rel. cbn [with_handle w_fs w_views w_handles]. now apply Rel_same_fd. Qed.

  Lemma step_read fd n : step_ok (Read fd n).
  Proof.
    unfold step_ok. cbn [impl_call wstep fspec_step].
    destruct (nth_error (st_fds st) fd) as [o|] eqn:Efd.
    2:{ rewrite no_fd_handle, on_fd_none by auto. cbn. auto. }
    destruct (some_fd_handle fd o Efd) as (f & v & Hf & Hg & Hrel & Hon). rewrite Hon.
    destruct (o_closed o) eqn:Ecl.
    - (* closed *)
      erewrite on_fd_closed by eassumption.
      destruct Hrel as (_ & Hname & Hnode & _). rewrite Ecl in Hnode.
      destruct (closed_handle (w_fs w) v f Hname Hnode (good_view_win Hg)) as (C & _). rewrite C.
      cbn. split; auto. now apply Rel_same_handle.
    - destruct Hrel as (Hview & Hname & Hnode & Hlt & Hat & Hr & Hw & Ha). rewrite Ecl in Hnode.
      destruct (open_inode o Hlt) as (ino & id & Eino & Hperm & Hget).
      erewrite on_fd_open by eassumption.
      unfold f_read. destruct (hd_name f) eqn:Enm; [congruence|]. rewrite Hnode.
      destruct (Z.leb n 0) eqn:En.
      { cbn. split; auto. now apply Rel_same_handle. }
      unfold file_of. rewrite Hget, Hr.
      destruct (can_read (o_acc o)) eqn:Ecr; cbn [negb].
      2:{ cbn. split; auto. now apply Rel_same_handle. }
      rewrite Hat. unfold get_bytes.
      destruct (firstn (Z.to_nat n) (skipn (Z.to_nat (o_off o)) (i_bytes ino))) as [|b0 got] eqn:Egot.
      + cbn [length Z.of_nat Z.eqb fst snd fproj_res option_map fproj_err]. split; auto.
        unfold Rel. cbn [with_handle w_fs w_views w_handles].
        rewrite Z.add_0_r.
        apply Rel_set_handle with (o := o); auto.
        unfold rel_fd. cbn [hd_view hd_name hd_node hd_at hd_mode]. rewrite Ecl. repeat split; auto; congruence.
      + set (k := Z.of_nat (length (b0 :: got))).
        assert (Hk : Z.eqb k 0 = false) by (apply Z.eqb_neq; unfold k; cbn [length]; lia).
        rewrite Hk. cbn [fst snd fproj_res option_map]. split; [reflexivity|].
        unfold Rel. cbn [with_handle w_fs w_views w_handles with_fd].
        apply Rel_set_fd; auto.
        unfold rel_fd, set_off. cbn [hd_view hd_name hd_node hd_at hd_mode o_ino o_off o_acc o_app o_closed].
        rewrite Ecl. repeat split; auto; congruence.
  Qed.

  Lemma Rel_w : Rel ptr w st. Proof. exact HR. Qed.

  Ltac fd_cases fd o Efd f v Hf Hg Hrel Hon :=
    destruct (nth_error (st_fds st) fd) as [o|] eqn:Efd;
    [ destruct (some_fd_handle fd o Efd) as (f & v & Hf & Hg & Hrel & Hon); rewrite Hon | ].

  Ltac use_kf Hkf Efd Eino :=
    unfold kf02 in Hkf; erewrite fd_get_some in Hkf by eassumption.

  Lemma put_bytes_nil d pos : (pos <= length d)%nat -> put_bytes d pos [] = d.
  Proof.
    intros H. unfold put_bytes. replace (pos - length d)%nat with 0%nat by lia.
    cbn [zeros repeat app length]. rewrite Nat.add_0_r. apply firstn_skipn.
  Qed.

  Lemma readat_state fd n off : fst (fspec_step st (ReadAt fd n off)) = st.
  Proof.
    cbn [fspec_step]. destruct (Z.ltb off 0); [destruct (nth_error _ _); reflexivity|].
    destruct (Z.leb n 0); [destruct (nth_error _ _); reflexivity|].
    unfold on_fd. destruct (nth_error (st_fds st) fd) as [o|]; [|reflexivity].
    destruct (o_closed o); [reflexivity|]. destruct (nth_error _ _); [|reflexivity].
    destruct (negb _); reflexivity.
  Qed.

  Lemma step_read_at fd n off : step_ok (ReadAt fd n off).
  Proof.
    unfold step_ok. rewrite readat_state. cbn [impl_call wstep fspec_step].
    fd_cases fd o Efd f v Hf Hg Hrel Hon.
    2:{ rewrite no_fd_handle by auto. destruct (Z.ltb off 0), (Z.leb n 0); rewrite ?on_fd_none by auto; cbn; auto. }
    cbn [fst snd]. split; [|exact HR].
    destruct Hrel as (Hview & Hname & Hnode & Hlt & Hat & Hr & Hw & Ha).
    destruct (open_inode o Hlt) as (ino & id & Eino & Hperm & Hget).
    unfold f_read_at.
    destruct (Z.ltb_spec off 0) as [Hoff|Hoff]; [reflexivity|].
    destruct (Z.leb_spec n 0) as [Hn|Hn]; [reflexivity|].
    destruct (hd_name f) eqn:Enm; [congruence|]. rewrite Hnode.
    destruct (o_closed o) eqn:Ecl.
    - erewrite on_fd_closed by eassumption. reflexivity.
    - erewrite on_fd_open by eassumption.
      unfold file_of. rewrite Hget, Hr.
      destruct (can_read (o_acc o)); cbn [negb]; [|reflexivity].
      unfold get_bytes, zlen.
      destruct (Z.ltb_spec (Z.of_nat (length (i_bytes ino))) off) as [Hb|Hb].
      * rewrite skipn_all2 by lia. rewrite firstn_nil. cbn [length Z.of_nat].
        destruct (Z.ltb_spec 0 n); [reflexivity|lia].
      * destruct (Z.ltb _ n); reflexivity.
  Qed.

  Lemma step_write fd b : step_ok (Write fd b).
  Proof.
    unfold step_ok. cbn [impl_call wstep fspec_step].
    fd_cases fd o Efd f v Hf Hg Hrel Hon.
    2:{ rewrite no_fd_handle, on_fd_none by auto. cbn. auto. }
    destruct Hrel as (Hview & Hname & Hnode & Hlt & Hat & Hr & Hw & Ha).
    destruct (open_inode o Hlt) as (ino & id & Eino & Hperm & Hget).
    destruct (o_closed o) eqn:Ecl.
    - destruct (closed_handle (w_fs w) v f Hname Hnode (good_view_win Hg)) as (_ & _ & C & _). rewrite C.
      erewrite on_fd_closed by eassumption. cbn. split; auto.
      unfold Rel. cbn [with_handle with_fs w_fs w_views w_handles]. now apply Rel_same_fd.
    - erewrite on_fd_open by eassumption.
      destruct (can_write (o_acc o)) eqn:Ecw; cbn [negb].
      + destruct b as [|b0 b'].
        * erewrite f_write_nil by eassumption. rewrite Hw. cbn. split; auto.
          unfold Rel. cbn [with_handle with_fs w_fs w_views w_handles]. now apply Rel_same_fd.
        * erewrite f_write_ok by (try eassumption; discriminate). rewrite (drop_privs_good _ Hg).
          rewrite Ha, Hat. cbn [fst snd fproj_res].
          set (pos := if o_app o then zlen (i_bytes ino) else o_off o).
          split; [reflexivity|].
          unfold Rel. cbn [with_handle with_fs w_fs w_views w_handles].
          apply Rel_set_fd.
          -- apply Rel_upd_inode with (ino := ino)
                   (ino' := set_bytes ino (put_bytes (i_bytes ino) (Z.to_nat pos) (b0 :: b'))); assumption.
          -- cbn [with_inode st_inodes]. rewrite set_nth_length.
             unfold rel_fd, set_at, set_off. cbn [hd_view hd_name hd_node hd_at hd_mode o_ino o_off o_acc o_app o_closed].
             rewrite Ecl. repeat split; cbn [fst snd]; auto; congruence.
      + unfold f_write. destruct (hd_name f) eqn:Enm; [congruence|]. rewrite Hnode.
        unfold file_of. rewrite Hget, Hw. cbn [negb fst snd fproj_res fproj_err]. rewrite (good_view_win Hg).
        split; [reflexivity|].
        unfold Rel. cbn [with_handle with_fs w_fs w_views w_handles]. now apply Rel_same_fd.
  Qed.

  Lemma step_write_string fd b : step_ok (WriteString fd b).
  Proof. exact (step_write fd b). Qed.

  Ltac same_world := unfold Rel; cbn [with_handle with_fs w_fs w_views w_handles]; try (now apply Rel_same_fd); try exact HR.

  Lemma step_write_at fd b off : step_ok (WriteAt fd b off).
  Proof.
    unfold step_ok. cbn [impl_call wstep fspec_step].
    fd_cases fd o Efd f v Hf Hg Hrel Hon.
    2:{ rewrite no_fd_handle by auto. cbn. auto. }
    destruct Hrel as (Hview & Hname & Hnode & Hlt & Hat & Hr & Hw & Ha).
    destruct (open_inode o Hlt) as (ino & id & Eino & Hperm & Hget).
    unfold lift.
    destruct (o_app o) eqn:Eapp.
    { unfold f_write_at. rewrite Ha. cbn. split; auto; same_world. }
    destruct (Z.ltb_spec off 0) as [Hoff|Hoff].
    { unfold f_write_at. rewrite Ha. destruct (Z.ltb_spec off 0); [|lia]. cbn. split; auto; same_world. }
    destruct b as [|b0 b'].
    { unfold f_write_at. rewrite Ha. destruct (Z.ltb_spec off 0); [lia|]. cbn. split; auto; same_world. }
    destruct (o_closed o) eqn:Ecl.
    - destruct (closed_handle (w_fs w) v f Hname Hnode (good_view_win Hg)) as (_ & _ & _ & C & _). rewrite C, Ha.
      destruct (Z.ltb_spec off 0); [lia|].
      erewrite on_fd_closed by eassumption. cbn. split; auto; same_world.
    - erewrite on_fd_open by eassumption.
      destruct (can_write (o_acc o)) eqn:Ecw.
      + erewrite f_write_at_ok by (try eassumption; discriminate). rewrite (drop_privs_good _ Hg). cbn [negb fst snd fproj_res].
        split; [reflexivity|].
        unfold Rel. cbn [with_fs w_fs w_views w_handles].
        apply Rel_upd_inode with (ino := ino)
          (ino' := set_bytes ino (put_bytes (i_bytes ino) (Z.to_nat off) (b0 :: b'))); assumption.
      + unfold f_write_at. rewrite Ha. destruct (Z.ltb_spec off 0); [lia|].
        destruct (hd_name f) eqn:Enm; [congruence|]. rewrite Hnode.
        unfold file_of. rewrite Hget, Hw. cbn [negb fst snd fproj_res fproj_err]. rewrite (good_view_win Hg).
        cbn. split; auto; same_world.
  Qed.

  (* common prologue of the operations that go through on_fd on the specification side *)
  Ltac prologue fd Hkf o Efd f v Hf Hg Hon Hview Hname Hnode Hlt Hat Hr Hw Ha ino idn Eino Hperm Hget :=
    let Hrel := fresh "Hrel" in
    unfold step_ok; cbn [impl_call wstep fspec_step];
    fd_cases fd o Efd f v Hf Hg Hrel Hon;
    [ destruct Hrel as (Hview & Hname & Hnode & Hlt & Hat & Hr & Hw & Ha);
      destruct (open_inode o Hlt) as (ino & idn & Eino & Hperm & Hget)
    | rewrite no_fd_handle, on_fd_none by auto; cbn; auto ].

  Lemma step_seek fd off wh : step_ok (Seek fd off wh).
  Proof.
    prologue fd Hkf o Efd f v Hf Hg Hon Hview Hname Hnode Hlt Hat Hr Hw Ha ino idn Eino Hperm Hget.
    destruct (o_closed o) eqn:Ecl.
    - destruct (closed_handle (w_fs w) v f Hname Hnode (good_view_win Hg)) as (_ & _ & _ & _ & C & _). rewrite C.
      erewrite on_fd_closed by eassumption. cbn. split; auto; same_world.
    - erewrite on_fd_open by eassumption.
      unfold f_seek. destruct (hd_name f) eqn:Enm; [congruence|]. rewrite Hnode.
      unfold file_of. rewrite Hget, Hat. rewrite (good_view_win Hg). unfold zlen.
      destruct (if Z.eqb wh 0 then Some off else if Z.eqb wh 1 then Some (o_off o + off)
                else if Z.eqb wh 2 then Some (Z.of_nat (length (i_bytes ino)) + off) else None) as [t|].
      + destruct (Z.ltb t 0).
        * cbn. split; auto; same_world.
        * cbn [fst snd fproj_res]. split; [reflexivity|].
          unfold Rel. cbn [with_handle w_fs w_views w_handles]. apply Rel_set_fd; [exact HR|].
          unfold rel_fd, set_at, set_off. cbn [hd_view hd_name hd_node hd_at hd_mode o_ino o_off o_acc o_app o_closed].
          rewrite Ecl. repeat split; auto; congruence.
      + cbn. split; auto; same_world.
  Qed.

  Lemma step_ftruncate fd size : step_ok (Ftruncate fd size).
  Proof.
    prologue fd Hkf o Efd f v Hf Hg Hon Hview Hname Hnode Hlt Hat Hr Hw Ha ino idn Eino Hperm Hget.
    unfold lift.
    destruct (o_closed o) eqn:Ecl.
    - destruct (closed_handle (w_fs w) v f Hname Hnode (good_view_win Hg)) as (_ & _ & _ & _ & _ & C & _). rewrite C.
      erewrite on_fd_closed by eassumption. cbn. split; auto; same_world.
    - erewrite on_fd_open by eassumption.
      unfold f_truncate. destruct (hd_name f) eqn:Enm; [congruence|]. rewrite Hnode.
      unfold file_of. rewrite Hget, Hw. rewrite (good_view_win Hg).
      destruct (Z.ltb_spec size 0) as [Hs|Hs]; cbn [orb].
      + cbn. split; auto; same_world.
      + destruct (can_write (o_acc o)); cbn [negb].
        * rewrite (drop_privs_good _ Hg). cbn [fst snd fproj_res]. split; [reflexivity|].
          rewrite truncate_data_resize by lia.
          unfold Rel. cbn [with_fs w_fs w_views w_handles].
          apply Rel_upd_inode with (ino := ino) (ino' := set_bytes ino (resize (i_bytes ino) (Z.to_nat size))); assumption.
        * cbn. split; auto; same_world.
  Qed.

  Lemma step_fstat fd : step_ok (Fstat fd).
  Proof.
    prologue fd Hkf o Efd f v Hf Hg Hon Hview Hname Hnode Hlt Hat Hr Hw Ha ino idn Eino Hperm Hget.
    cbn [fst snd]. destruct (o_closed o) eqn:Ecl.
    - destruct (closed_handle (w_fs w) v f Hname Hnode (good_view_win Hg)) as (_ & _ & _ & _ & _ & _ & C & _). rewrite C.
      erewrite on_fd_closed by eassumption. cbn. split; auto; same_world.
    - erewrite on_fd_open by eassumption.
      unfold f_stat. destruct (hd_name f) eqn:Enm; [congruence|]. rewrite Hnode, Hget.
      cbn. split; auto; same_world.
  Qed.

  Lemma step_fsync fd : step_ok (Fsync fd).
  Proof.
    prologue fd Hkf o Efd f v Hf Hg Hon Hview Hname Hnode Hlt Hat Hr Hw Ha ino idn Eino Hperm Hget.
    cbn [fst snd]. destruct (o_closed o) eqn:Ecl.
    - destruct (closed_handle (w_fs w) v f Hname Hnode (good_view_win Hg)) as (_ & _ & _ & _ & _ & _ & _ & C & _). rewrite C.
      erewrite on_fd_closed by eassumption. cbn. split; auto; same_world.
    - erewrite on_fd_open by eassumption.
      unfold f_sync. destruct (hd_name f) eqn:Enm; [congruence|]. rewrite Hnode.
      cbn. split; auto; same_world.
  Qed.

  Lemma step_fchmod fd perm : (perm < 512)%N -> step_ok (Fchmod fd perm).
  Proof.
    intros Hp.
    prologue fd Hkf o Efd f v Hf Hg Hon Hview Hname Hnode Hlt Hat Hr Hw Ha ino idn Eino Hperm Hget.
    unfold lift. destruct (o_closed o) eqn:Ecl.
    - destruct (closed_handle (w_fs w) v f Hname Hnode (good_view_win Hg)) as (_ & _ & _ & _ & _ & _ & _ & _ & C & _). rewrite C.
      erewrite on_fd_closed by eassumption. cbn. split; auto; same_world.
    - erewrite on_fd_open by eassumption.
      unfold f_chmod. destruct (hd_name f) eqn:Enm; [congruence|]. rewrite Hnode, Hget.
      destruct Hg as [Hadm Hos]. unfold set_mode_ok, chmod_mode. rewrite Hadm, orb_true_r.
      cbn [fst snd fproj_res set_meta node_meta negb andb]. split; [reflexivity|].
      destruct (perm_small Hp) as (P1 & P2 & _). destruct (perm_small Hperm) as (_ & _ & P3).
      unfold with_mode, meta_of at 1 2 3. cbn [m_mode m_uid m_gid]. rewrite P1, P2, P3. cbn [N.lor].
      unfold Rel. cbn [with_fs w_fs w_views w_handles].
      apply Rel_upd_inode with (ino := ino)
        (ino' := {| i_bytes := i_bytes ino; i_nlink := i_nlink ino; i_perm := perm; i_uid := i_uid ino; i_gid := i_gid ino |});
        assumption.
  Qed.

  Lemma step_fchown fd uid gid : step_ok (Fchown fd uid gid).
  Proof.
    prologue fd Hkf o Efd f v Hf Hg Hon Hview Hname Hnode Hlt Hat Hr Hw Ha ino idn Eino Hperm Hget.
    unfold lift. destruct (o_closed o) eqn:Ecl.
    - destruct (closed_handle (w_fs w) v f Hname Hnode (good_view_win Hg)) as (_ & _ & _ & _ & _ & _ & _ & _ & _ & C & _). rewrite C.
      erewrite on_fd_closed by eassumption. cbn. split; auto; same_world.
    - erewrite on_fd_open by eassumption.
      unfold f_chown. destruct (hd_name f) eqn:Enm; [congruence|]. rewrite Hnode, Hget. rewrite (good_view_win Hg).
      destruct Hg as [Hadm Hos]. unfold check_permission. rewrite Hadm.
      unfold chown_meta. cbn [node_meta]. rewrite (drop_setid_small (v_user v) (meta_of ino)) by exact Hperm.
      cbn [fst snd fproj_res set_meta node_meta]. split; [reflexivity|].
      unfold Rel. cbn [with_fs w_fs w_views w_handles].
      apply Rel_upd_inode with (ino := ino)
        (ino' := {| i_bytes := i_bytes ino; i_nlink := i_nlink ino; i_perm := i_perm ino;
                    i_uid := if Z.eqb uid (-1) then i_uid ino else uid;
                    i_gid := if Z.eqb gid (-1) then i_gid ino else gid |}); assumption.
  Qed.

  Lemma step_fchdir fd : step_ok (Fchdir fd).
  Proof.
    prologue fd Hkf o Efd f v Hf Hg Hon Hview Hname Hnode Hlt Hat Hr Hw Ha ino idn Eino Hperm Hget.
    destruct (o_closed o) eqn:Ecl.
    - destruct (closed_handle (w_fs w) v f Hname Hnode (good_view_win Hg)) as (_ & _ & _ & _ & _ & _ & _ & _ & _ & _ & C & _). rewrite C.
      erewrite on_fd_closed by eassumption. cbn. split; auto; same_world.
    - erewrite on_fd_open by eassumption.
      unfold f_chdir. destruct (hd_name f) eqn:Enm; [congruence|]. rewrite Hnode.
      unfold node_is_dir. rewrite Hget. rewrite (good_view_win Hg).
      cbn. split; auto; same_world.
  Qed.

  Lemma step_close fd : step_ok (Close fd).
  Proof.
    prologue fd Hkf o Efd f v Hf Hg Hon Hview Hname Hnode Hlt Hat Hr Hw Ha ino idn Eino Hperm Hget.
    destruct (o_closed o) eqn:Ecl.
    - destruct (closed_handle (w_fs w) v f Hname Hnode (good_view_win Hg)) as (_ & _ & _ & _ & _ & _ & _ & _ & _ & _ & _ & C & _). rewrite C.
      erewrite on_fd_closed by eassumption. cbn. split; auto; same_world.
    - erewrite on_fd_open by eassumption.
      unfold f_close. rewrite Hnode. cbn [fst snd fproj_res]. split; [reflexivity|].
      unfold Rel. cbn [with_handle w_fs w_views w_handles]. apply Rel_set_fd; [exact HR|].
      unfold rel_fd. cbn [hd_view hd_name hd_node hd_at hd_mode o_ino o_off o_acc o_app o_closed].
      repeat split; auto; congruence.
  Qed.

  (* ---- path-level Truncate and Open of an existing name ---------------------------------- *)
  Lemma view0 : exists v, nth_error (w_views w) 0 = Some v /\ good_view v.
  Proof. exact (R_view HR). Qed.

  Lemma name_inode name i :
    lookup_name st name = Some i ->
    exists v ino idn, nth_error (w_views w) 0 = Some v /\ good_view v
      /\ nth_error (st_inodes st) i = Some ino /\ (i_perm ino < 512)%N
      /\ get (f_heap (w_fs w)) (ptr i) = Some (NFile (i_bytes ino) (i_nlink ino) idn (meta_of ino))
      /\ (i < length (st_inodes st))%nat
      /\ (forall slm, let r := search_node (w_fs w) v (fpath name) slm in
             sr_err r = EFileExists /\ sr_child r = Some (ptr i) /\ pi_is_last (sr_pi r) = true).
  Proof.
    intros Hl. destruct view0 as (v & Hv & Hg).
    destruct (R_names HR name Hv Hl) as [Hlt [Hres]].
    destruct (nth_error (st_inodes st) i) as [ino|] eqn:E; [|apply nth_error_None in E; lia].
    destruct (R_inodes HR _ E) as [Hp [idn Hget]].
    exists v, ino, idn. split; [exact Hv|]. split; [exact Hg|]. split; [reflexivity|]. split; [exact Hp|].
    split; [exact Hget|]. split; [exact Hlt|]. exact Hres.
  Qed.

  Lemma step_ptruncate name size :
    in_scope st (PTruncate name size) = true -> step_ok (PTruncate name size).
  Proof.
    intros Hsc. unfold in_scope in Hsc. unfold step_ok. cbn [impl_call wstep fspec_step].
    destruct (lookup_name st name) as [i|] eqn:El; [|discriminate].
    destruct (name_inode name i El) as (v & ino & idn & Hv & Hg & Eino & Hperm & Hget & Hlt & Hres).
    unfold on_view. rewrite Hv. unfold lift, truncate. rewrite (good_view_win Hg). cbn [negb]. rewrite andb_true_r.
    destruct (Z.ltb_spec size 0) as [Hs|Hs].
    - cbn. split; auto; same_world.
    - destruct (Hres SlEval) as (He & Hc & _). rewrite He, Hc. cbn [is_file_exists negb]. rewrite Hget, Eino.
      destruct (Z.ltb_spec size 0); [lia|].
      destruct Hg as [Hadm Hos]. unfold check_permission, drop_privs. rewrite Hadm. cbn [negb].
      cbn [fst snd fproj_res]. split; [reflexivity|]. rewrite truncate_data_resize by lia.
      unfold Rel. cbn [with_fs w_fs w_views w_handles].
      apply Rel_upd_inode with (ino := ino) (ino' := set_bytes ino (resize (i_bytes ino) (Z.to_nat size))); assumption.
  Qed.

  Lemma Rel_add_fd s vs hs st0 f o :
    Rel' ptr s vs hs st0 -> rel_fd ptr (length (st_inodes st0)) f o ->
    Rel' ptr s vs (hs ++ [f]) {| st_inodes := st_inodes st0; st_names := st_names st0; st_fds := st_fds st0 ++ [o] |}.
  Proof.
    intros [Hv Hroot Hvols Hi Hj Hn Hf] Hrel. constructor; cbn [st_inodes st_names st_fds]; try assumption.
    apply Forall2_app; auto.
  Qed.

  Lemma fpath_nonempty name : fpath name <> [].
  Proof. unfold fpath, DIRP. cbn. discriminate. Qed.

  Lemma step_open name flag perm :
    in_scope st (Open name flag perm) = true -> step_ok (Open name flag perm).
  Proof.
    intros Hsc. unfold in_scope in Hsc.
    destruct (lookup_name st name) as [i|] eqn:El; [|discriminate].
    destruct (access_of flag) as [acc|] eqn:Eacc; [|discriminate].
    apply N.ltb_lt in Hsc. destruct (open_mode_bits Hsc) as (Bx & Bt & Ba & Bacc).
    destruct (Bacc acc Eacc) as [Cr Cw].
    destruct (name_inode name i El) as (v & ino & idn & Hv & Hg & Eino & Hperm & Hget & Hlt & Hres).
    unfold step_ok.
    cbn [impl_call wstep]. unfold on_view. rewrite Hv.
    (* the implementation *)
    remember (fpath name) as pth eqn:Ep.
    destruct pth as [|p0 pth]; [symmetry in Ep; now apply fpath_nonempty in Ep|].
    unfold open_file. cbv zeta.
    destruct (Hres (if has (to_open_mode flag) OpenCreateExcl then SlLstat else SlEval)) as (He & Hc & Hlast).
    rewrite He, Hc, Hlast. cbn [is_file_exists is_not_exist negb andb orb]. rewrite Hget.
    rewrite andb_false_r. cbn [is_not_exist].
    destruct Hg as [Hadm Hos]. unfold check_permission, drop_privs. rewrite Hadm. cbn [negb].
    rewrite Bx, Bt.
    (* the specification *)
    cbn [fspec_step]. rewrite Eacc, El.
    destruct (fbit flag FO_CREATE && fbit flag FO_EXCL) eqn:Ex.
    { cbn. split; auto; same_world. }
    rewrite Eino.
    assert (Hlen : length (w_handles w) = length (st_fds st)) by (apply (Forall2_len (R_fds HR))).
    destruct (fbit flag FO_TRUNC) eqn:Et.
    - cbn [fst snd with_inode st_inodes st_names st_fds fproj_res]. rewrite Hlen. split; [reflexivity|].
      unfold Rel. cbn [w_fs w_views w_handles].
      apply (Rel_add_fd _ _ _ (with_inode st i (set_bytes ino []))).
      + apply Rel_upd_inode with (ino := ino) (ino' := set_bytes ino []); assumption.
      + cbn [with_inode st_inodes]. rewrite set_nth_length.
        unfold rel_fd, new_handle. cbn [hd_view hd_name hd_node hd_at hd_mode o_ino o_off o_acc o_app o_closed].
        repeat split; auto; try discriminate.
    - cbn [fst snd st_inodes st_names st_fds fproj_res]. rewrite Hlen. split; [reflexivity|].
      unfold Rel. cbn [w_fs w_views w_handles].
      apply (Rel_add_fd _ _ _ st).
      + apply Rel_touch; assumption.
      + unfold rel_fd, new_handle. cbn [hd_view hd_name hd_node hd_at hd_mode o_ino o_off o_acc o_app o_closed].
        repeat split; auto; try discriminate.
  Qed.
End StepRefine.

(* ---- the step theorem and its lifting to histories ------------------------------------------ *)
Theorem refine_step ptr w st op :
  Rel ptr w st -> in_scope st op = true -> kf02 st op = None ->
  fproj_res (snd (wstep w (impl_call op))) = snd (fspec_step st op)
  /\ Rel ptr (fst (wstep w (impl_call op))) (fst (fspec_step st op)).
Proof.
  intros HR Hsc Hkf. destruct op; try discriminate Hsc.
  - now apply step_open.
  - now apply step_read.
  - now apply step_read_at.
  - now apply step_write.
  - now apply step_write_string.
  - now apply step_write_at.
  - now apply step_seek.
  - now apply step_ftruncate.
  - now apply step_fstat.
  - now apply step_fsync.
  - apply step_fchmod; auto. now apply N.ltb_lt.
  - now apply step_fchown.
  - now apply step_fchdir.
  - now apply step_close.
  - now apply step_ptruncate.
Qed.

(* every step of the history is in the domain and is not classified as a known deviation *)
Fixpoint clean_history (st : fstate) (ops : list fop) : bool :=
  match ops with
  | [] => true
  | op :: ops' =>
      in_scope st op && match kf02 st op with None => true | Some _ => false end
      && clean_history (fst (fspec_step st op)) ops'
  end.

Theorem refine_history ptr : forall ops w st,
  Rel ptr w st -> clean_history st ops = true ->
  map fproj_res (snd (wrun w (map impl_call ops))) = snd (fspec_run st ops)
  /\ Rel ptr (fst (wrun w (map impl_call ops))) (fst (fspec_run st ops)).
Proof.
  induction ops as [|op ops IH]; intros w st HR Hc; cbn [map wrun fspec_run]; [cbn; auto|].
  cbn [clean_history] in Hc. rewrite !andb_true_iff in Hc. destruct Hc as [[Hsc Hkf] Hrest].
  destruct (kf02 st op) eqn:Ek; [discriminate|].
  destruct (refine_step ptr w st op HR Hsc Ek) as [Hres HR'].
  destruct (wstep w (impl_call op)) as [w1 r]. destruct (fspec_step st op) as [st1 r'].
  cbn [fst snd] in *.
  destruct (IH w1 st1 HR' Hrest) as [Hrs HR2].
  destruct (wrun w1 (map impl_call ops)) as [w2 rs]. destruct (fspec_run st1 ops) as [st2 rs'].
  cbn [fst snd map] in *. split; [congruence|assumption].
Qed.

(* ---- witnesses --------------------------------------------------------------------------------- *)
(* index and class of the first step of a history that kf02 classifies *)
Fixpoint first_kf (st : fstate) (ops : list fop) (k : nat) : option (nat * finding) :=
  match ops with
  | [] => None
  | op :: ops' =>
      match kf02 st op with
      | Some f => Some (k, f)
      | None => first_kf (fst (fspec_step st op)) ops' (S k)
      end
  end.

Definition impl_results (ops : list fop) : list sres :=
  map fproj_res (snd (wrun (init_world_linux 18) (map impl_call ops))).
Definition spec_results (ops : list fop) : list sres := snd (fspec_run empty_state ops).

(* a world and a specification state in the relation: /tmp/a just created through one handle *)
Definition NAME_A : str := [97%N].
Definition w_one : world := Eval vm_compute in fst (wrun (init_world_linux 18) [impl_call (Open NAME_A 66 420)]).
Definition st_one : fstate := Eval vm_compute in fst (fspec_run empty_state [Open NAME_A 66 420]).
Definition ptr_one (i : nat) : nat := (4 + i)%nat.

Lemma Rel_one : Rel ptr_one w_one st_one.
Proof.
  constructor.
  - vm_compute. eexists. split; [reflexivity|]. split; reflexivity.
  - intros v Hv. vm_compute in Hv. inversion Hv; subst. vm_compute. reflexivity.
  - vm_compute. reflexivity.
  - intros i ino Hi. destruct i as [|[|i]]; vm_compute in Hi; try discriminate.
    inversion Hi; subst. split; [vm_compute; reflexivity|]. eexists. vm_compute. reflexivity.
  - intros i j Hi Hj. unfold ptr_one. lia.
  - intros v name i Hv Hl. vm_compute in Hv. inversion Hv; subst.
    unfold lookup_name in Hl.
    change (st_names st_one) with [(NAME_A, 0%nat)] in Hl. cbn [alookup] in Hl.
    destruct (str_eqb_spec name NAME_A) as [->|Hne]; [|discriminate]. inversion Hl; subst.
    split; [vm_compute; lia|]. constructor. intros slm. destruct slm; vm_compute; auto.
  - vm_compute. constructor; [|constructor]. repeat split; auto; discriminate.
Qed.

(* ======================================================================= *)
(* Directory handles: the implementation refines the specification dir_step  *)
(* ======================================================================= *)
(* One handle on a directory that does not change while it is read.  The listing the specification is given
   is the implementation's own (sorted) one. *)
Section DirRefine.
  Variables (s : fsys) (v : view) (c : nat) (ch : list (str * nat)) (m : meta).
  Hypothesis Hdir : get (f_heap s) c = Some (NDir ch m).
  Hypothesis Hlinux : win v = false.

  Let L := dir_infos (f_heap s) ch.
  Let names := map (@fi_name) L.

  (* the implementation side of one operation on the handle *)
  Definition dimpl (f : handle) (op : dop) : handle * res :=
    match op with
    | DReadDir n => f_read_dir s v f n
    | DReaddirnames n => f_readdirnames s v f n
    | DRewind => f_seek s v f 0 0
    | DRead n => f_read s v f n
    | DClose => f_close f
    end.

  (* the projection of its result *)
  Definition dproj (r : res) : dres :=
    match r with
    | RInfos l e => D_Batch (map (@fi_name) l) (option_map fproj_err e)
    | RNames l e => D_Batch l (option_map fproj_err e)
    | RBytes n _ e => D_Data n (option_map fproj_err e)
    | RInt z => D_Int z
    | ROk => D_Ok
    | RFail e => D_Err (fproj_err e)
    | _ => D_Err X_Other
    end.

  Definition drel (f : handle) (d : dfd) : Prop :=
    hd_name f <> [] /\ (d_cursor d <= length L)%nat /\
    if d_closed d then hd_node f = None
    else hd_node f = Some c
         /\ ((hd_dir_infos f = None /\ d_cursor d = 0%nat) \/ (hd_dir_infos f = Some L /\ hd_dir_index f = d_cursor d)).

  Lemma names_length : length names = length L.
  Proof. unfold names. apply map_length. Qed.

  Lemma skipn_names ix : skipn ix names = map (@fi_name) (skipn ix L).
  Proof. unfold names. apply skipn_map. Qed.

  Lemma batch_all ix : firstn (length L - ix) (skipn ix L) = skipn ix L.
  Proof. apply firstn_all2. rewrite skipn_length. lia. Qed.

  Lemma batch_some k ix : (ix <= length L)%nat ->
    firstn (Nat.min (ix + k) (length L) - ix) (skipn ix L) = firstn k (skipn ix L).
  Proof.
    intros Hix. destruct (Nat.le_ge_cases (ix + k) (length L)) as [H|H].
    - rewrite Nat.min_l by lia. f_equal. lia.
    - rewrite Nat.min_r by lia. rewrite batch_all. symmetry. apply firstn_all2. rewrite skipn_length. lia.
  Qed.

  (* the two reads differ in the rendering only *)
  Lemma dir_read_refines f d n (ret : list finfo -> option ekind -> res) :
    (forall l e, dproj (ret l e) = D_Batch (map (@fi_name) l) (option_map fproj_err e)) ->
    drel f d -> d_closed d = false ->
    dproj (snd (dir_read s v f n ret)) = snd (dir_step names d (DReadDir n))
    /\ drel (fst (dir_read s v f n ret)) (fst (dir_step names d (DReadDir n))).
  Proof.
    intros Hret (Hnm & Hcur & Hrel) Hcl. rewrite Hcl in Hrel. destruct Hrel as [Hnd Hpos].
    assert (Hat : dir_at s c ch f (d_cursor d)) by (unfold dir_at; auto).
    pose proof (@dir_read_at s v c ch m Hdir f (d_cursor d) n ret Hat) as Hstep. fold L in Hstep.
    unfold dir_step. rewrite Hcl. rewrite skipn_names.
    unfold dir_batch in Hstep.
    destruct (Z.leb_spec n 0) as [Hn|Hn].
    - (* all the remaining entries *)
      destruct (Z.ltb_spec 0 n); [lia|]. cbn [andb] in Hstep. rewrite batch_all in Hstep.
      destruct Hstep as [Hr (Hnm' & Hnd' & Hpos')]. rewrite Hr, Hret. cbn [fst snd option_map].
      split; [reflexivity|]. unfold drel. cbn [d_cursor d_closed]. rewrite names_length.
      repeat split; auto.
    - destruct (Z.ltb_spec 0 n); [|lia].
      destruct (Nat.leb_spec (length L) (d_cursor d)) as [Hend|Hmid]; cbn [andb] in Hstep.
      + (* at the end: io.EOF, the position stays *)
        destruct Hstep as [Hr (Hnm' & Hnd' & Hpos')]. rewrite Hr, Hret.
        rewrite skipn_all2 by lia. cbn [map fst snd option_map fproj_err].
        split; [reflexivity|]. unfold drel. rewrite Hcl. repeat split; auto.
      + rewrite batch_some in Hstep by lia.
        destruct Hstep as [Hr (Hnm' & Hnd' & Hpos')]. rewrite Hr, Hret.
        destruct (skipn (d_cursor d) L) as [|x rest] eqn:Erest.
        { apply (f_equal (@length _)) in Erest. rewrite skipn_length in Erest. cbn in Erest. lia. }
        cbn [map]. change (fi_name x :: map (@fi_name) rest) with (map (@fi_name) (x :: rest)).
        rewrite <- Erest. cbn [fst snd option_map]. rewrite firstn_map.
        split; [reflexivity|]. unfold drel. cbn [d_cursor d_closed].
        rewrite map_length, firstn_length, skipn_length.
        replace (d_cursor d + Nat.min (Z.to_nat n) (length L - d_cursor d))%nat
          with (Nat.min (d_cursor d + Z.to_nat n) (length L)) by lia.
        repeat split; auto; lia.
  Qed.

  (* every operation on the handle: result and new position as the specification says *)
  Theorem dir_refine_step f d op :
    drel f d ->
    dproj (snd (dimpl f op)) = snd (dir_step names d op)
    /\ drel (fst (dimpl f op)) (fst (dir_step names d op)).
  Proof.
    intros HR. pose proof HR as (Hnm & Hcur & Hrel).
    destruct (d_closed d) eqn:Hcl.
    - (* closed: every call answers the closed-file error and nothing moves *)
      destruct (closed_handle s v f Hnm Hrel Hlinux)
        as (C1 & _ & _ & _ & C5 & _ & _ & _ & _ & _ & _ & C12 & C13 & C14).
      unfold dir_step. rewrite Hcl.
      destruct op; cbn [dimpl]; rewrite ?C1, ?C5, ?C12, ?C13, ?C14; cbn [fst snd dproj fproj_err]; auto.
    - destruct Hrel as [Hnd Hpos].
      destruct op as [n|n| |n|]; cbn [dimpl].
      + apply dir_read_refines; auto.
      + change (dir_step names d (DReaddirnames n)) with (dir_step names d (DReadDir n)).
        apply dir_read_refines; auto.
      + unfold f_seek, file_of, dir_step. rewrite Hcl. destruct (hd_name f) eqn:En; [congruence|].
        rewrite Hnd, Hdir. cbn [Z.eqb andb fst snd dproj]. split; [reflexivity|].
        unfold drel. cbn [hd_name hd_node hd_dir_infos hd_dir_index d_cursor d_closed].
        repeat split; auto; try congruence; lia.
      + unfold f_read, file_of, dir_step. rewrite Hcl. destruct (hd_name f) eqn:En; [congruence|].
        rewrite Hnd, Hdir. fold (win v). rewrite Hlinux.
        destruct (Z.leb n 0); cbn [fst snd dproj option_map fproj_err]; (split; [reflexivity|exact HR]).
      + unfold f_close, dir_step. rewrite Hcl, Hnd. cbn [fst snd dproj]. split; [reflexivity|].
        unfold drel. cbn [hd_name hd_node d_cursor d_closed]. auto.
  Qed.

  (* all histories of operations on the handle *)
  Fixpoint dimpl_run (f : handle) (ops : list dop) : handle * list res :=
    match ops with
    | [] => (f, [])
    | op :: ops' =>
        let '(f1, r) := dimpl f op in
        let '(f2, rs) := dimpl_run f1 ops' in
        (f2, r :: rs)
    end.

  Theorem dir_refine_history : forall ops f d,
    drel f d ->
    map dproj (snd (dimpl_run f ops)) = snd (dir_run names d ops)
    /\ drel (fst (dimpl_run f ops)) (fst (dir_run names d ops)).
  Proof.
    induction ops as [|op ops IH]; intros f d HR; cbn [dimpl_run dir_run map]; [cbn; auto|].
    destruct (dir_refine_step f d op HR) as [Hres HR'].
    destruct (dimpl f op) as [f1 r]. destruct (dir_step names d op) as [d1 r']. cbn [fst snd] in *.
    destruct (IH f1 d1 HR') as [Hrs HR2].
    destruct (dimpl_run f1 ops) as [f2 rs]. destruct (dir_run names d1 ops) as [d2 rs']. cbn [fst snd map] in *.
    split; [congruence|assumption].
  Qed.

  (* a freshly opened handle is in the relation *)
  Lemma drel_fresh f : hd_name f <> [] -> hd_node f = Some c -> hd_dir_infos f = None ->
    drel f {| d_cursor := 0; d_closed := false |}.
  Proof. intros. unfold drel. cbn [d_cursor d_closed]. repeat split; auto. lia. Qed.
End DirRefine.

(* ======================================================================= *)
(* Directory handles on a directory that CHANGES between the calls           *)
(* ======================================================================= *)
(* The file system value may be any [s] at each call, as long as the handle's node is still a directory there: the
   listing a handle reads is the one the directory has at its first read after open or rewind (dir_step_live, the
   current listing being a parameter of every step). *)
Section DirLive.
  Variables (v : view) (c : nat).
  Hypothesis Hlinux : win v = false.

  (* the handle and the description: closed together; nothing read yet / the same listing and position *)
  Definition lrel (f : handle) (x : ldfd) : Prop :=
    hd_name f <> [] /\
    if d_closed (l_d x) then hd_node f = None
    else hd_node f = Some c
         /\ match l_snap x with
            | None => hd_dir_infos f = None /\ d_cursor (l_d x) = 0%nat
            | Some names => exists L, hd_dir_infos f = Some L /\ names = map (@fi_name) L
                                      /\ hd_dir_index f = d_cursor (l_d x) /\ (d_cursor (l_d x) <= length L)%nat
            end.

  (* one read, from a handle whose listing for this pass is L: taken already, or about to be taken from s *)
  Lemma dir_read_gen s ch m f n ret (L : list finfo) (ix : nat) :
    get (f_heap s) c = Some (NDir ch m) ->
    (forall l e, dproj (ret l e) = D_Batch (map (@fi_name) l) (option_map fproj_err e)) ->
    hd_name f <> [] -> hd_node f = Some c -> (ix <= length L)%nat ->
    ((hd_dir_infos f = None /\ ix = 0%nat /\ L = dir_infos (f_heap s) ch) \/ (hd_dir_infos f = Some L /\ hd_dir_index f = ix)) ->
    let d := {| d_cursor := ix; d_closed := false |} in
    let f' := fst (dir_read s v f n ret) in
    let d' := fst (dir_step (map (@fi_name) L) d (DReadDir n)) in
    dproj (snd (dir_read s v f n ret)) = snd (dir_step (map (@fi_name) L) d (DReadDir n))
    /\ hd_name f' <> [] /\ hd_node f' = Some c /\ hd_dir_infos f' = Some L /\ hd_dir_index f' = d_cursor d'
    /\ (d_cursor d' <= length L)%nat /\ d_closed d' = false.
  Proof.
    intros Hdir Hret Hnm Hnd Hix Hpos d.
    assert (E : (match hd_dir_infos f with Some l => l | None => dir_infos (f_heap s) ch end) = L
                /\ (match hd_dir_infos f with Some _ => hd_dir_index f | None => 0%nat end) = ix).
    { destruct Hpos as [(Hi & -> & ->)|[Hi Hx]]; rewrite Hi; auto. }
    destruct E as [E1 E2].
    unfold dir_read. destruct (hd_name f) eqn:En; [congruence|]. rewrite Hnd, Hdir, E1, E2.
    unfold dir_step, d. cbn [d_closed d_cursor].
    rewrite skipn_map. unfold dir_batch.
    destruct (Z.leb_spec n 0) as [Hn|Hn].
    - destruct (Z.ltb_spec 0 n); [lia|]. cbn [andb fst snd].
      rewrite (firstn_all2 (n := length L - ix)) by (rewrite skipn_length; lia).
      rewrite Hret. cbn [option_map hd_name hd_node hd_dir_infos hd_dir_index d_cursor d_closed]. rewrite map_length.
      repeat split; auto; congruence.
    - destruct (Z.ltb_spec 0 n); [|lia].
      destruct (Nat.leb_spec (length L) ix) as [Hend|Hmid]; cbn [andb fst snd].
      + rewrite skipn_all2 by lia. rewrite Hret.
        cbn [map option_map fproj_err fst snd hd_name hd_node hd_dir_infos hd_dir_index d_cursor d_closed].
        repeat split; auto; congruence.
      + destruct (skipn ix L) as [|x0 rest] eqn:Erest.
        { apply (f_equal (@length _)) in Erest. rewrite skipn_length in Erest. cbn in Erest. lia. }
        cbn [map]. change (fi_name x0 :: map (@fi_name) rest) with (map (@fi_name) (x0 :: rest)).
        rewrite <- Erest.
        assert (Hb : firstn (Nat.min (ix + Z.to_nat n) (length L) - ix) (skipn ix L) = firstn (Z.to_nat n) (skipn ix L)).
        { destruct (Nat.le_ge_cases (ix + Z.to_nat n) (length L)) as [H1|H1].
          - rewrite Nat.min_l by lia. f_equal. lia.
          - rewrite Nat.min_r by lia. rewrite !firstn_all2; auto; rewrite skipn_length; lia. }
        rewrite Hb, Hret. cbn [option_map fst snd hd_name hd_node hd_dir_infos hd_dir_index d_cursor d_closed].
        rewrite firstn_map, map_length, firstn_length, skipn_length.
        repeat split; auto; try congruence; lia.
  Qed.

  (* every operation, in any file system value in which the handle's node is a directory *)
  Theorem dir_live_step s ch m f x op :
    get (f_heap s) c = Some (NDir ch m) -> lrel f x ->
    dproj (snd (dimpl s v f op)) = snd (dir_step_live (map (@fi_name) (dir_infos (f_heap s) ch)) x op)
    /\ lrel (fst (dimpl s v f op)) (fst (dir_step_live (map (@fi_name) (dir_infos (f_heap s) ch)) x op)).
  Proof.
    intros Hdir HR. pose proof HR as (Hnm & Hrel). unfold dir_step_live.
    destruct (d_closed (l_d x)) eqn:Hcl.
    - destruct (closed_handle s v f Hnm Hrel Hlinux)
        as (C1 & _ & _ & _ & C5 & _ & _ & _ & _ & _ & _ & C12 & C13 & C14).
      destruct op; cbn [dimpl]; rewrite ?C1, ?C5, ?C12, ?C13, ?C14; cbn [fst snd dproj fproj_err]; auto.
    - destruct Hrel as [Hnd Hsnap].
      assert (Hread : forall n ret,
                (forall l e, dproj (ret l e) = D_Batch (map (@fi_name) l) (option_map fproj_err e)) ->
                let snap := match l_snap x with Some l => l | None => map (@fi_name) (dir_infos (f_heap s) ch) end in
                dproj (snd (dir_read s v f n ret)) = snd (dir_step snap (l_d x) (DReadDir n))
                /\ lrel (fst (dir_read s v f n ret))
                        {| l_d := fst (dir_step snap (l_d x) (DReadDir n)); l_snap := Some snap |}).
      { intros n ret Hret snap.
        destruct (l_d x) as [cur cl] eqn:Ed. cbn [d_closed d_cursor] in *. subst cl.
        destruct (l_snap x) as [names|] eqn:Esn.
        - subst snap. destruct Hsnap as (L & Hi & -> & Hx & Hle).
          destruct (dir_read_gen s ch m f n ret L cur Hdir Hret Hnm Hnd Hle (or_intror (conj Hi Hx)))
            as (Hr & Hn' & Hd' & Hi' & Hx' & Hle' & Hcl').
          split; [exact Hr|]. unfold lrel. cbn [l_d l_snap]. rewrite Hcl'. repeat split; auto. exists L. auto.
        - subst snap. destruct Hsnap as [Hi ->].
          destruct (dir_read_gen s ch m f n ret (dir_infos (f_heap s) ch) 0 Hdir Hret Hnm Hnd (Nat.le_0_l _)
                      (or_introl (conj Hi (conj eq_refl eq_refl))))
            as (Hr & Hn' & Hd' & Hi' & Hx' & Hle' & Hcl').
          split; [exact Hr|]. unfold lrel. cbn [l_d l_snap]. rewrite Hcl'. repeat split; auto.
          exists (dir_infos (f_heap s) ch). auto. }
      destruct op as [n|n| |n|]; cbn [dimpl].
      + destruct (Hread n (fun l e => RInfos l e) (fun _ _ => eq_refl)) as [H1 H2].
        destruct (dir_step _ (l_d x) (DReadDir n)) as [d' r] eqn:Es. cbn [fst snd] in *. auto.
      + destruct (Hread n (fun l e => RNames (map (@fi_name) l) e) (fun _ _ => eq_refl)) as [H1 H2].
        change (dir_step (match l_snap x with Some l => l | None => map (@fi_name) (dir_infos (f_heap s) ch) end)
                  (l_d x) (DReaddirnames n))
          with (dir_step (match l_snap x with Some l => l | None => map (@fi_name) (dir_infos (f_heap s) ch) end)
                  (l_d x) (DReadDir n)).
        destruct (dir_step _ (l_d x) (DReadDir n)) as [d' r] eqn:Es. cbn [fst snd] in *. auto.
      + unfold f_seek, file_of. destruct (hd_name f) eqn:En; [congruence|].
        rewrite Hnd, Hdir. cbn [Z.eqb andb fst snd dproj]. split; [reflexivity|].
        unfold lrel, ldfd0. cbn [hd_name hd_node hd_dir_infos hd_dir_index l_d l_snap d_cursor d_closed].
        repeat split; auto; congruence.
      + unfold f_read, file_of, dir_step. rewrite Hcl. destruct (hd_name f) eqn:En; [congruence|].
        rewrite Hnd, Hdir. fold (win v). rewrite Hlinux.
        destruct (Z.leb n 0); cbn [fst snd dproj option_map fproj_err]; (split; [reflexivity|]);
          unfold lrel; cbn [l_d l_snap]; rewrite Hcl; repeat split; auto; congruence.
      + unfold f_close, dir_step. rewrite Hcl, Hnd. cbn [fst snd dproj]. split; [reflexivity|].
        unfold lrel. cbn [hd_name hd_node l_d l_snap d_cursor d_closed]. auto.
  Qed.

  (* all histories: the file system value (and so the directory) may be a different one at each call *)
  Fixpoint dlive_impl (f : handle) (steps : list (fsys * dop)) : handle * list res :=
    match steps with
    | [] => (f, [])
    | (s, op) :: rest =>
        let '(f1, r) := dimpl s v f op in
        let '(f2, rs) := dlive_impl f1 rest in
        (f2, r :: rs)
    end.

  Fixpoint dlive_spec (x : ldfd) (steps : list (list str * dop)) : ldfd * list dres :=
    match steps with
    | [] => (x, [])
    | (cur, op) :: rest =>
        let '(x1, r) := dir_step_live cur x op in
        let '(x2, rs) := dlive_spec x1 rest in
        (x2, r :: rs)
    end.

  Definition dir_in (s : fsys) : option (list str) :=
    match get (f_heap s) c with
    | Some (NDir ch _) => Some (map (@fi_name) (dir_infos (f_heap s) ch))
    | _ => None
    end.

  Theorem dir_live_history : forall steps f x,
    lrel f x -> Forall (fun st => dir_in (fst st) <> None) steps ->
    let specsteps := map (fun st => (match dir_in (fst st) with Some l => l | None => [] end, snd st)) steps in
    map dproj (snd (dlive_impl f steps)) = snd (dlive_spec x specsteps)
    /\ lrel (fst (dlive_impl f steps)) (fst (dlive_spec x specsteps)).
  Proof.
    induction steps as [|[s op] steps IH]; intros f x HR Hall; cbn [dlive_impl dlive_spec map fst snd]; [cbn; auto|].
    inversion Hall as [|? ? Hd Hrest]; subst. cbn [fst] in Hd. unfold dir_in in *.
    destruct (get (f_heap s) c) as [[ch m|d0 k i m|t m]|] eqn:Hg; try congruence.
    destruct (dir_live_step s ch m f x op Hg HR) as [Hres HR'].
    destruct (dimpl s v f op) as [f1 r]. destruct (dir_step_live _ x op) as [x1 r']. cbn [fst snd] in *.
    destruct (IH f1 x1 HR' Hrest) as [Hrs HR2].
    destruct (dlive_impl f1 steps) as [f2 rs]. destruct (dlive_spec x1 _) as [x2 rs']. cbn [fst snd map] in *.
    split; [congruence|assumption].
  Qed.

  Lemma lrel_fresh f : hd_name f <> [] -> hd_node f = Some c -> hd_dir_infos f = None -> lrel f ldfd0.
  Proof. intros. unfold lrel, ldfd0. cbn [l_d l_snap d_cursor d_closed]. auto. Qed.
End DirLive.
