(* Property C05: an executable check of the invariant, sound with respect to
   [Inv]: inv_check w = true -> Inv w.  It is extracted and run by the
   differential harness on the model state after every call (and on the node
   graph dumped from the Go implementation). *)
From Avfs Require Import Base BaseProofs PathModel MemFS MemFile World Inv.

Fixpoint nodupb (l : list str) : bool :=
  match l with
  | [] => true
  | x :: l' => negb (existsb (str_eqb x) l') && nodupb l'
  end.

(* is there a chain of [fuel] entries starting at d *)
Fixpoint deep (fuel : nat) (h : heap) (d : nat) : bool :=
  match fuel with
  | O => true
  | S f => existsb (fun e => deep f h (snd e)) (children h d)
  end.

Definition ixs (h : heap) : list nat := seq 0 (length h).

Definition check_valid (h : heap) : bool :=
  forallb (fun d => forallb (fun e => Nat.ltb (snd e) (length h)) (children h d)) (ixs h).
Definition check_names (h : heap) : bool :=
  forallb (fun d => nodupb (map fst (children h d))) (ixs h).
Definition check_single (h : heap) : bool :=
  forallb (fun c => if node_is_dir h c then Nat.leb (indeg h c) 1 else true) (ixs h).
Definition check_root (h : heap) : bool := node_is_dir h 0 && Nat.eqb (indeg h 0) 0.
Definition check_acyclic (h : heap) : bool :=
  forallb (fun d => negb (deep (S (length h)) h d)) (ixs h).
Definition check_nlink (h : heap) : bool :=
  forallb (fun f => match get h f with
                    | Some (NFile _ k _ _) => Z.eqb k (Z.of_nat (indeg h f))
                    | _ => true
                    end) (ixs h).

Definition inv_heap_check (h : heap) : bool :=
  check_valid h && check_names h && check_single h && check_root h && check_acyclic h && check_nlink h.

Definition view_check (h : heap) (v : view) : bool :=
  node_is_dir h (v_root v) && ostype_eqb (v_os v) Linux
  && match v_cwd v with c :: _ => N.eqb c SLASH | [] => false end.

Definition handle_check (h : heap) (f : handle) : bool :=
  match hd_node f with Some c => Nat.ltb c (length h) | None => true end.

Definition inv_check (w : world) : bool :=
  let h := f_heap (w_fs w) in
  inv_heap_check h
  && match f_vols (w_fs w) with [] => true | _ => false end
  && forallb (view_check h) (w_views w)
  && forallb (handle_check h) (w_handles w).

(* ---- soundness ---------------------------------------------------------------------- *)
Lemma in_ixs h d : In d (ixs h) <-> d < length h.
Proof. unfold ixs. rewrite in_seq. lia. Qed.

Lemma edge_src_lt h d n c : edge h d n c -> d < length h.
Proof. intros H. apply is_dir_lt. eapply edge_src_dir; eauto. Qed.

Lemma nodupb_NoDup l : nodupb l = true -> NoDup l.
Proof.
  induction l as [|x l IH]; cbn [nodupb]; [constructor|].
  intros H. apply Bool.andb_true_iff in H as [H1 H2]. constructor; auto.
  intros Hin. apply Bool.negb_true_iff in H1.
  assert (existsb (str_eqb x) l = true); [|congruence].
  apply existsb_exists. exists x. split; auto. apply str_eqb_refl.
Qed.

(* in-degree bounds from entries *)
Lemma cnt_two c ch n1 n2 : In (n1, c) ch -> In (n2, c) ch -> n1 <> n2 -> 2 <= cnt c ch.
Proof.
  induction ch as [|[n x] ch IH]; cbn [In cnt]; [tauto|].
  intros H1 H2 Hne. destruct H1 as [E1|H1]; destruct H2 as [E2|H2].
  - congruence.
  - injection E1 as -> ->. rewrite Nat.eqb_refl. cbn [b2n].
    assert (0 < cnt c ch) by (apply cnt_pos; eauto). lia.
  - injection E2 as -> ->. rewrite Nat.eqb_refl. cbn [b2n].
    assert (0 < cnt c ch) by (apply cnt_pos; eauto). lia.
  - specialize (IH H1 H2 Hne). lia.
Qed.

Lemma indeg_ge_node h d c : cnt c (children h d) <= indeg h c.
Proof.
  revert d; induction h as [|x h IH]; intros d.
  - rewrite children_get. unfold get. destruct d; cbn [nth_error cnt]; lia.
  - destruct d as [|d]; cbn [indeg].
    + rewrite children_get. unfold get. cbn [nth_error]. unfold node_cnt. lia.
    + specialize (IH d). rewrite children_get in *. unfold get in *. cbn [nth_error]. lia.
Qed.

Lemma indeg_ge_two_nodes h d1 d2 c :
  d1 < d2 -> cnt c (children h d1) + cnt c (children h d2) <= indeg h c.
Proof.
  revert d1 d2; induction h as [|x h IH]; intros d1 d2 Hlt.
  - rewrite !children_get. unfold get. destruct d1, d2; cbn [nth_error cnt]; lia.
  - destruct d2 as [|d2]; [lia|]. destruct d1 as [|d1]; cbn [indeg].
    + pose proof (indeg_ge_node h d2 c) as H.
      rewrite !children_get in *. unfold get in *. cbn [nth_error]. unfold node_cnt. lia.
    + specialize (IH d1 d2 ltac:(lia)). rewrite !children_get in *. unfold get in *. cbn [nth_error]. lia.
Qed.

Lemma indeg_le1_single h d1 n1 d2 n2 c :
  indeg h c <= 1 -> edge h d1 n1 c -> edge h d2 n2 c -> d1 = d2 /\ n1 = n2.
Proof.
  intros Hle H1 H2. unfold edge in *.
  assert (P1 : 0 < cnt c (children h d1)) by (apply cnt_pos; eauto).
  assert (P2 : 0 < cnt c (children h d2)) by (apply cnt_pos; eauto).
  destruct (Nat.lt_trichotomy d1 d2) as [Hlt|[->|Hgt]].
  - pose proof (indeg_ge_two_nodes h d1 d2 c Hlt). lia.
  - split; auto. destruct (str_eqb_spec n1 n2) as [E|Hne]; auto.
    pose proof (cnt_two c _ n1 n2 H1 H2 Hne). pose proof (indeg_ge_node h d2 c). lia.
  - pose proof (indeg_ge_two_nodes h d2 d1 c Hgt). lia.
Qed.

(* a node on a cycle has a successor on a cycle *)
Lemma cycle_succ h d : reachp h d d -> exists n c, edge h d n c /\ reachp h c c.
Proof.
  intros (x & n & Hr & He). apply reach_head in Hr as [E|(n' & b & He' & Hr')].
  - subst x. exists n, d. split; auto. exists d, n. split; [apply reach_refl | exact He].
  - exists n', b. split; auto. exists d, n'. split; auto. eapply reach_step; eauto.
Qed.

Lemma cycle_deep h k : forall d, reachp h d d -> deep k h d = true.
Proof.
  induction k as [|k IH]; intros d Hc; cbn [deep]; auto.
  destruct (cycle_succ h d Hc) as (n & c & He & Hc').
  apply existsb_exists. exists (n, c). split; [exact He | cbn [snd]; auto].
Qed.

Lemma andb6 a b c d e f : a && b && c && d && e && f = true -> a = true /\ b = true /\ c = true /\ d = true /\ e = true /\ f = true.
Proof. destruct a, b, c, d, e, f; cbn; intuition congruence. Qed.

Lemma inv_heap_check_sound h : inv_heap_check h = true -> Inv_heap h.
Proof.
  unfold inv_heap_check. intros H. apply andb6 in H as (Hv & Hn & Hs & Hr & Ha & Hl).
  unfold check_valid in Hv. rewrite forallb_forall in Hv.
  unfold check_names in Hn. rewrite forallb_forall in Hn.
  unfold check_single in Hs. rewrite forallb_forall in Hs.
  unfold check_acyclic in Ha. rewrite forallb_forall in Ha.
  unfold check_nlink in Hl. rewrite forallb_forall in Hl.
  apply Bool.andb_true_iff in Hr as [Hr1 Hr2]. apply Nat.eqb_eq in Hr2.
  assert (J1 : forall d n c, edge h d n c -> c < length h).
  { intros d n c He. pose proof (edge_src_lt _ _ _ _ He) as Hd. apply in_ixs in Hd.
    specialize (Hv d Hd). rewrite forallb_forall in Hv. specialize (Hv (n, c) He). now apply Nat.ltb_lt in Hv. }
  split.
  - exact J1.
  - intros d. destruct (Nat.lt_ge_cases d (length h)) as [Hd|Hd].
    + apply nodupb_NoDup, Hn, in_ixs, Hd.
    + rewrite children_get, get_none by lia. constructor.
  - intros d1 n1 d2 n2 c H1 H2 Hd. apply (indeg_le1_single h d1 n1 d2 n2 c); auto.
    pose proof (J1 _ _ _ H1) as Hc. apply in_ixs in Hc. specialize (Hs c Hc).
    unfold is_dir in Hd. rewrite Hd in Hs. now apply Nat.leb_le in Hs.
  - split; [exact Hr1|]. now apply indeg_zero.
  - intros d Hc. assert (Hd : d < length h).
    { destruct Hc as (x & n & _ & He). eapply J1; eauto. }
    apply in_ixs in Hd. specialize (Ha d Hd). rewrite (cycle_deep h _ d Hc) in Ha. discriminate.
  - intros f d k i m Hg. pose proof (get_lt _ _ _ Hg) as Hf. apply in_ixs in Hf.
    specialize (Hl f Hf). rewrite Hg in Hl. now apply Z.eqb_eq in Hl.
Qed.

Theorem inv_check_sound w : inv_check w = true -> Inv w.
Proof.
  unfold inv_check. intros H.
  apply Bool.andb_true_iff in H as [H Hh]. apply Bool.andb_true_iff in H as [H Hv].
  apply Bool.andb_true_iff in H as [Hi Hvol].
  split.
  - now apply inv_heap_check_sound.
  - destruct (f_vols (w_fs w)); [reflexivity | discriminate].
  - rewrite forallb_forall in Hv. apply Forall_forall. intros v Hin. specialize (Hv v Hin).
    unfold view_check in Hv. apply Bool.andb_true_iff in Hv as [Hv Hc]. apply Bool.andb_true_iff in Hv as [Hr Ho].
    split; auto.
    + destruct (v_os v); [reflexivity | discriminate].
    + destruct (v_cwd v) as [|c r]; [discriminate|]. apply N.eqb_eq in Hc. subst c. exists r. reflexivity.
  - rewrite forallb_forall in Hh. apply Forall_forall. intros f Hin. specialize (Hh f Hin).
    unfold handle_check in Hh. intros c Hc. rewrite Hc in Hh. now apply Nat.ltb_lt in Hh.
Qed.
