(* Property C05: the executable check is complete: Inv w -> inv_check w = true.
   Together with InvCheck.inv_check_sound: inv_check w = true <-> Inv w. *)
From Avfs Require Import Base BaseProofs PathModel MemFS MemFile World Inv InvCheck InvConseq.

Lemma NoDup_nodupb l : NoDup l -> nodupb l = true.
Proof.
  induction 1 as [|x l Hni Hnd IH]; cbn [nodupb]; auto.
  rewrite IH, Bool.andb_true_r. apply Bool.negb_true_iff.
  destruct (existsb (str_eqb x) l) eqn:E; auto.
  apply existsb_exists in E as (y & Hy & Heq). apply str_eqb_eq in Heq. subst y. contradiction.
Qed.

(* two entries with the same target in a list with unique names have different names *)
Lemma cnt_two_names c ch :
  NoDup (map fst ch) -> 2 <= cnt c ch -> exists n1 n2, n1 <> n2 /\ In (n1, c) ch /\ In (n2, c) ch.
Proof.
  induction ch as [|[n x] ch IH]; cbn [cnt map fst]; [lia|].
  intros Hnd H. inversion Hnd as [|? ? Hni Hnd']; subst.
  destruct (Nat.eqb_spec x c) as [->|Hne]; cbn [b2n] in H.
  - assert (Hp : 0 < cnt c ch) by lia. apply cnt_pos in Hp as (n2 & Hin).
    exists n, n2. split; [|split; [now left | now right]].
    intros ->. apply Hni. change n2 with (fst (n2, c)). now apply in_map.
  - destruct (IH Hnd' ltac:(lia)) as (n1 & n2 & Hd & H1 & H2).
    exists n1, n2. split; auto. split; now right.
Qed.

Lemma indeg_le1_of_single (h : heap) c :
  (forall d, NoDup (map fst (children h d))) ->
  (forall d1 n1 d2 n2, edge h d1 n1 c -> edge h d2 n2 c -> d1 = d2 /\ n1 = n2) ->
  indeg h c <= 1.
Proof.
  induction h as [|x h IH]; intros Hnd Hs; cbn [indeg]; [lia|].
  assert (Hnd' : forall d, NoDup (map fst (children h d))).
  { intros d. specialize (Hnd (S d)). rewrite children_get in *. unfold get in *. exact Hnd. }
  assert (Hs' : forall d1 n1 d2 n2, edge h d1 n1 c -> edge h d2 n2 c -> d1 = d2 /\ n1 = n2).
  { intros d1 n1 d2 n2 H1 H2.
    assert (E1 : edge (x :: h) (S d1) n1 c) by (unfold edge in *; rewrite children_get in *; exact H1).
    assert (E2 : edge (x :: h) (S d2) n2 c) by (unfold edge in *; rewrite children_get in *; exact H2).
    destruct (Hs _ _ _ _ E1 E2) as [E ->]. split; congruence. }
  specialize (IH Hnd' Hs').
  destruct (Nat.eq_dec (node_cnt c x) 0) as [E0|Hpos]; [lia|].
  assert (Hx : forall n, In (n, c) (node_children x) -> edge (x :: h) 0 n c).
  { intros n Hin. unfold edge. rewrite children_get. exact Hin. }
  assert (Hz : indeg h c = 0).
  { apply indeg_zero. intros d n He.
    assert (Hp : 0 < cnt c (node_children x)) by (unfold node_cnt in Hpos; lia).
    apply cnt_pos in Hp as (n0 & Hin).
    assert (E2 : edge (x :: h) (S d) n c) by (unfold edge in *; rewrite children_get in *; exact He).
    destruct (Hs _ _ _ _ (Hx _ Hin) E2) as [E _]. discriminate. }
  rewrite Hz. destruct (Nat.le_gt_cases (node_cnt c x) 1) as [Hle|Hgt]; [lia|]. exfalso.
  assert (Hnd0 : NoDup (map fst (node_children x))).
  { specialize (Hnd 0). rewrite children_get in Hnd. exact Hnd. }
  destruct (cnt_two_names c (node_children x) Hnd0 Hgt) as (n1 & n2 & Hd & H1 & H2).
  destruct (Hs _ _ _ _ (Hx _ H1) (Hx _ H2)) as [_ E]. contradiction.
Qed.

Lemma deep_chain h k : forall d, deep k h d = true -> exists l, chain h (d :: l) /\ length l = k.
Proof.
  induction k as [|k IH]; intros d H; cbn [deep] in H.
  - exists []. split; [exact I | reflexivity].
  - apply existsb_exists in H as ([n c] & Hin & Hd). cbn [snd] in Hd.
    destruct (IH c Hd) as (l & Hc & Hl). exists (c :: l). split; [|cbn [length]; lia].
    split; [exists n; exact Hin | exact Hc].
Qed.

Lemma inv_heap_check_complete h : Inv_heap h -> inv_heap_check h = true.
Proof.
  intros IH. unfold inv_heap_check. repeat (apply Bool.andb_true_iff; split).
  - unfold check_valid. apply forallb_forall. intros d _. apply forallb_forall. intros [n c] Hin.
    cbn [snd]. apply Nat.ltb_lt. eapply (I1_valid IH). exact Hin.
  - unfold check_names. apply forallb_forall. intros d _. apply NoDup_nodupb, IH.
  - unfold check_single. apply forallb_forall. intros c _. destruct (node_is_dir h c) eqn:Ed; auto.
    apply Nat.leb_le. apply indeg_le1_of_single; [apply IH|].
    intros d1 n1 d2 n2 H1 H2. exact (@I3_single _ IH _ _ _ _ _ H1 H2 Ed).
  - exact (proj1 (I4_root IH)).
  - apply Nat.eqb_eq, indeg_zero, (proj2 (I4_root IH)).
  - unfold check_acyclic. apply forallb_forall. intros d _. apply Bool.negb_true_iff.
    destruct (deep (S (length h)) h d) eqn:E; auto.
    apply deep_chain in E as (l & Hc & Hl). pose proof (chain_short h d l IH Hc) as Hs.
    cbn [length] in Hs. lia.
  - unfold check_nlink. apply forallb_forall. intros f _.
    destruct (get h f) as [[ch m|d k i m|lk m]|] eqn:Eg; auto.
    apply Z.eqb_eq. eapply (I6_nlink IH); eauto.
Qed.

Theorem inv_check_complete w : Inv w -> inv_check w = true.
Proof.
  intros [IH HV Hvs Hhs]. unfold inv_check. cbv zeta.
  rewrite (inv_heap_check_complete _ IH), HV. cbn [andb]. apply Bool.andb_true_iff; split.
  - apply forallb_forall. intros v Hin. rewrite Forall_forall in Hvs. destruct (Hvs v Hin) as [Hr Ho (r & Hc)].
    unfold view_check. rewrite Hr, Ho, Hc. reflexivity.
  - apply forallb_forall. intros f Hin. rewrite Forall_forall in Hhs. specialize (Hhs f Hin).
    unfold handle_check. destruct (hd_node f) as [c|] eqn:E; auto. apply Nat.ltb_lt. now apply Hhs.
Qed.

Theorem inv_check_iff w : inv_check w = true <-> Inv w.
Proof. split; [apply inv_check_sound | apply inv_check_complete]. Qed.
