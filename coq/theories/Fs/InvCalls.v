(* Property C05: every namespace call of MemFS.v and every handle method of
   MemFile.v preserves the invariant.  Each proof shows that the call's own
   decision logic (the result of the path walk plus its explicit tests)
   establishes the preconditions of one mutator lemma of InvMutators.v. *)
From Avfs Require Import Base BaseProofs PathModel MemFS MemFile World Inv InvMutators InvSearch InvHandles.

Section Calls.
  Variables (s : fsys) (v : view).
  Hypothesis IH : Inv_heap (f_heap s).
  Hypothesis HV : f_vols s = [].
  Hypothesis VO : view_ok (f_heap s) v.

  Lemma srch path slm : slm <> SlStat -> search_post (f_heap s) (search_node s v path slm).
  Proof. intros. now apply search_node_post. Qed.

  (* ---- creation ---------------------------------------------------------------- *)
  Lemma create_dir_ok (s0 : fsys) p n perm :
    Inv_heap (f_heap s0) -> is_dir (f_heap s0) p -> alk n (children (f_heap s0) p) = None ->
    step_ok s0 (fst (create_dir s0 v p n perm)) /\
    is_dir (f_heap (fst (create_dir s0 v p n perm))) (snd (create_dir s0 v p n perm)).
  Proof.
    intros I0 Hp Hn. cbn [create_dir fst snd f_heap].
    match goal with |- context [f_heap s0 ++ [?x]] =>
      destruct (Inv_heap_create (f_heap s0) p n x I0 Hp Hn) as [H1 H2]; [split; auto|] end.
    split; [split; auto|].
    unfold is_dir. rewrite add_child_kind, node_is_dir_app, Nat.ltb_irrefl, Nat.eqb_refl. reflexivity.
  Qed.

  Lemma mkdir_ok name perm : step_ok s (fst (mkdir s v name perm)).
  Proof.
    unfold mkdir. destruct name as [|b name]; [stay|].
    set (r := search_node s v (b :: name) SlLstat).
    pose proof (srch (b :: name) SlLstat ltac:(discriminate)) as HP. fold r in HP.
    destruct (negb (is_not_exist (sr_err r)) || negb (pi_is_last (sr_pi r))); [stay|].
    destruct (search_post_parent _ _ HP) as (p & Hp1 & Hp2). rewrite Hp1.
    destruct (negb (perm_on (f_heap s) p (N.lor OpenWrite OpenLookup) (v_user v))); [stay|].
    destruct (alk (pi_part (sr_pi r)) (children (f_heap s) p)) eqn:E; [stay|].
    cbn [fst]. now apply create_dir_ok.
  Qed.

  Lemma mkdir_all_loop_ok perm fuel : forall s0 dn pi,
    Inv_heap (f_heap s0) -> is_dir (f_heap s0) dn ->
    step_ok s0 (mkdir_all_loop fuel s0 v dn pi perm).
  Proof.
    induction fuel as [|f IHf]; intros s0 dn pi I0 Hd; cbn [mkdir_all_loop]; [stay|].
    destruct (alk (pi_part pi) (children (f_heap s0) dn)) eqn:E; [stay|].
    destruct (create_dir_ok s0 dn (pi_part pi) perm I0 Hd E) as [H1 H2].
    destruct (create_dir s0 v dn (pi_part pi) perm) as [s1 c]. cbn [fst snd] in H1, H2.
    destruct (pi_next (v_os v) pi) as [ok pi1]. destruct ok; auto.
    eapply step_ok_trans; [exact H1|]. apply IHf; auto. apply H1.
  Qed.

  Lemma mkdir_all_ok path perm : step_ok s (fst (mkdir_all s v path perm)).
  Proof.
    unfold mkdir_all.
    set (r := search_node s v path SlEval).
    pose proof (srch path SlEval ltac:(discriminate)) as HP. fold r in HP.
    destruct (search_post_parent _ _ HP) as (p & Hp1 & Hp2). rewrite Hp1.
    assert (Hloop : step_ok s (fst (if negb (perm_on (f_heap s) p (N.lor OpenWrite OpenLookup) (v_user v))
                               then (s, RFail EPermDenied)
                               else (mkdir_all_loop (S (length (pi_path (sr_pi r)))) s v p (sr_pi r) perm, ROk)))).
    { destruct (negb (perm_on (f_heap s) p (N.lor OpenWrite OpenLookup) (v_user v))); cbn [fst];
        [stay | now apply mkdir_all_loop_ok]. }
    destruct (sr_child r) as [c|]; [|exact Hloop].
    destruct (get (f_heap s) c) as [[ch m|dt k id m|lk m]|]; try exact Hloop.
    - destruct (is_file_exists (sr_err r)); stay.
    - stay.
  Qed.

  Lemma symlink_ok oldname newname : step_ok s (fst (symlink s v oldname newname)).
  Proof.
    unfold symlink.
    set (r := search_node s v newname SlLstat).
    pose proof (srch newname SlLstat ltac:(discriminate)) as HP. fold r in HP.
    destruct (is_not_exist (sr_err r)) eqn:Ene; cbn [negb orb]; [|stay].
    destruct (negb (pi_is_last (sr_pi r))); [stay|].
    destruct (search_post_not_exist _ _ HP Ene) as (p & Hp1 & Hp2 & _ & Hn). rewrite Hp1.
    destruct (negb (perm_on (f_heap s) p OpenWrite (v_user v))); [stay|].
    cbn [fst create_symlink]. split; [|split]; cbn [f_heap f_vols]; auto;
      eapply Inv_heap_create; eauto; split; auto.
  Qed.

  Lemma link_ok oldname newname : step_ok s (fst (link s v oldname newname)).
  Proof.
    unfold link.
    set (ro := search_node s v oldname SlLstat).
    destruct (sr_child ro) as [oc|]; [|stay].
    destruct (negb (is_file_exists (sr_err ro))); [stay|].
    set (rn := search_node s v newname SlLstat).
    pose proof (srch newname SlLstat ltac:(discriminate)) as HP. fold rn in HP.
    destruct (is_not_exist (sr_err rn)) eqn:Ene; cbn [negb]; [|stay].
    destruct (negb (pi_is_last (sr_pi rn))); [stay|].
    destruct (search_post_not_exist _ _ HP Ene) as (p & Hp1 & Hp2 & _ & Hn). rewrite Hp1.
    destruct (negb (perm_on (f_heap s) p OpenWrite (v_user v))); [stay|].
    destruct (get (f_heap s) oc) as [[ch m|dt k id m|lk m]|] eqn:Eg; try stay.
    cbn [fst]. apply step_ok_with_heap. now apply Inv_heap_link.
  Qed.

  (* ---- leaf updates --------------------------------------------------------------- *)
  Lemma truncate_ok name size : step_ok s (fst (truncate s v name size)).
  Proof.
    unfold truncate. destruct (Z.ltb size 0 && negb (win v)); [stay|].
    destruct (negb (is_file_exists (sr_err (search_node s v name SlEval)))); [stay|].
    destruct (sr_child (search_node s v name SlEval)) as [c|]; [|stay].
    destruct (get (f_heap s) c) as [[ch m|dt k id m|lk m]|] eqn:Eg; try stay.
    destruct (Z.ltb size 0); [stay|].
    destruct (negb (check_permission m OpenWrite (v_user v))); [stay|].
    cbn [fst]. apply step_ok_with_heap. eapply Inv_heap_set_file; eauto.
  Qed.

  Lemma chmod_ok name mode : step_ok s (fst (chmod s v name mode)).
  Proof.
    unfold chmod.
    destruct (sr_child (search_node s v name SlEval)) as [c|]; [|stay].
    destruct (negb (is_file_exists (sr_err (search_node s v name SlEval)))); [stay|].
    destruct (get (f_heap s) c) as [n|] eqn:Eg; [|stay].
    destruct n as [ch m|dt k id m|lk m]; try stay.
    - destruct (set_mode_ok (node_meta (NDir ch m)) (v_user v)); [|stay].
      cbn [fst]. apply step_ok_with_heap. now apply Inv_heap_set_meta.
    - destruct (set_mode_ok (node_meta (NFile dt k id m)) (v_user v)); [|stay].
      cbn [fst]. apply step_ok_with_heap. now apply Inv_heap_set_meta.
  Qed.

  Lemma chown_gen_ok slm name uid gid : step_ok s (fst (chown_gen slm s v name uid gid)).
  Proof.
    unfold chown_gen.
    destruct (win v); [stay|].
    destruct (sr_child (search_node s v name slm)) as [c|]; [|stay].
    destruct (negb (is_file_exists (sr_err (search_node s v name slm)))); [stay|].
    destruct (get (f_heap s) c) as [n|] eqn:Eg; [|stay].
    destruct (v_idm v && negb (chown_ok (node_meta n) (v_user v) uid gid)); [stay|].
    cbn [fst]. apply step_ok_with_heap. now apply Inv_heap_set_meta.
  Qed.

  (* ---- Remove ----------------------------------------------------------------------- *)
  Lemma remove_ok name : step_ok s (fst (remove s v name)).
  Proof.
    unfold remove.
    set (r := search_node s v name SlLstat).
    pose proof (srch name SlLstat ltac:(discriminate)) as HP. fold r in HP.
    destruct (sr_child r) as [c|] eqn:Ec; [|stay].
    destruct (sr_parent r) as [p|] eqn:Ep; [|stay].
    destruct (is_file_exists (sr_err r)) eqn:Efe; cbn [negb]; [|stay].
    destruct (Nat.eqb_spec p c) as [->|Hpc]; [stay|].
    destruct (negb (perm_on (f_heap s) p OpenWrite (v_user v))); [stay|].
    destruct (sticky_refuses (f_heap s) p c (v_user v)); [stay|].
    destruct (search_post_child _ _ c HP Ec) as (p' & Hp1 & Hp2 & Hlk).
    assert (p' = p) by congruence. subst p'.
    destruct Hlk as [->|Hlk]; [congruence|].
    assert (Hgo : children (f_heap s) c = [] ->
                  step_ok s (fst (match alk (pi_part (sr_pi r)) (children (f_heap s) p) with
                                  | None => (s, RFail ENoSuchDir)
                                  | Some _ => (with_heap s (delete_node (remove_child (f_heap s) p (pi_part (sr_pi r))) c), ROk)
                                  end))).
    { intros Hleaf. rewrite Hlk. cbn [fst]. apply step_ok_with_heap. now apply Inv_heap_unlink. }
    destruct (get (f_heap s) c) as [[[|e ch] m|dt k id m|lk m]|] eqn:Eg;
      try (apply Hgo; rewrite children_get, Eg; reflexivity).
    stay.
  Qed.
  (* ---- OpenFile, WriteFile ------------------------------------------------------------ *)
  (* the local function open_existing of open_file *)
  Definition oe (vi : nat) (name : str) (om : N) (c : nat) : fsys * (res + handle) :=
    match get (f_heap s) c with
    | Some (NFile d k i m) =>
        if negb (check_permission m (if has om OpenTruncate then N.lor om OpenWrite else om) (v_user v))
        then (s, inl (RFail EPermDenied))
        else if has om OpenCreateExcl then (s, inl (RFail EFileExists))
        else
          let d1 := if has om OpenTruncate then [] else d in
          let at_ := 0%Z in
          let m1 := if has om OpenTruncate then drop_privs (v_user v) m else m in
          (with_heap s (upd (f_heap s) c (NFile d1 k i m1)), inr (new_handle c vi name at_ om))
    | Some (NDir _ m) =>
        if has om OpenCreateExcl then (s, inl (RFail EFileExists))
        else if has om OpenWrite || has om OpenCreate || has om OpenTruncate then (s, inl (RFail EIsADirectory))
        else if negb (check_permission m om (v_user v)) then (s, inl (RFail EPermDenied))
        else (s, inr (new_handle c vi name 0 om))
    | _ => (s, inr (new_handle c vi name 0 om))
    end.

  Lemma open_file_unfold vi name flag perm :
    open_file s v vi name flag perm =
    match name with [] => (s, inl (RFail ENoSuchFile)) | _ =>
    let om := to_open_mode flag in
    let r := search_node s v name (if has om OpenCreateExcl then SlLstat else SlEval) in
    let e := sr_err r in
    if (negb (is_file_exists e) && negb (is_not_exist e)) || negb (pi_is_last (sr_pi r)) then (s, inl (RFail e))
    else if is_file_exists e && has om OpenCreateExcl
            && match sr_child r with
               | Some c => match get (f_heap s) c with Some (NSym _ _) => true | _ => false end
               | None => false
               end
    then (s, inl (RFail e))
    else
      if is_not_exist e then
        if negb (has om OpenCreate) then (s, inl (RFail e))
        else match sr_parent r with
             | None => (s, inl (RFail e))
             | Some parent =>
                 if negb (perm_on (f_heap s) parent (N.lor OpenWrite OpenLookup) (v_user v))
                 then (s, inl (RFail EPermDenied))
                 else
                   match alk (pi_part (sr_pi r)) (children (f_heap s) parent) with
                   | None =>
                       let '(s1, c) := create_file s v parent (pi_part (sr_pi r)) perm in
                       (s1, inr (new_handle c vi name 0 om))
                   | Some c => oe vi name om c
                   end
             end
      else match sr_child r with
           | Some c => oe vi name om c
           | None => (s, inl RPanic)
           end
    end.
  Proof. reflexivity. Qed.

  Definition open_post (x : fsys * (res + handle)) : Prop :=
    step_ok s (fst x) /\ forall f, snd x = inr f -> handle_ok (f_heap (fst x)) f.

  Lemma open_post_stay r : open_post (s, inl r).
  Proof. split; [stay | discriminate]. Qed.

  Lemma oe_ok vi name om c : c < length (f_heap s) -> open_post (oe vi name om c).
  Proof.
    intros Hc. unfold oe.
    assert (Hh : open_post (s, inr (new_handle c vi name 0 om))).
    { split; [stay|]. cbn [snd fst]. intros f [= <-] c'. cbn [new_handle hd_node]. now intros [= <-]. }
    destruct (get (f_heap s) c) as [[ch m|d k i m|lk m]|] eqn:Eg; try exact Hh.
    - destruct (has om OpenCreateExcl); [apply open_post_stay|].
      destruct (has om OpenWrite || has om OpenCreate || has om OpenTruncate); [apply open_post_stay|].
      destruct (negb (check_permission m om (v_user v))); [apply open_post_stay | exact Hh].
    - match goal with |- context [if ?b then _ else _] => destruct b end; [apply open_post_stay|].
      destruct (has om OpenCreateExcl); [apply open_post_stay|].
      cbv zeta.
      destruct (Inv_heap_set_file _ c d k i m (if has om OpenTruncate then [] else d)
                  (if has om OpenTruncate then drop_privs (v_user v) m else m) IH Eg) as [H1 H2].
      split; cbn [fst snd].
      + now apply step_ok_with_heap.
      + intros f [= <-] c'. cbn [new_handle hd_node with_heap f_heap]. intros [= <-]. rewrite upd_length. exact Hc.
  Qed.

  Lemma open_file_ok vi name flag perm : open_post (open_file s v vi name flag perm).
  Proof.
    rewrite open_file_unfold. destruct name as [|b0 name0]; [apply open_post_stay|].
    set (name := b0 :: name0). cbv zeta.
    set (slm := if has (to_open_mode flag) OpenCreateExcl then SlLstat else SlEval).
    assert (Hslm : slm <> SlStat) by (unfold slm; destruct (has (to_open_mode flag) OpenCreateExcl); discriminate).
    set (r := search_node s v name slm).
    pose proof (srch name slm Hslm) as HP. fold r in HP.
    destruct ((negb (is_file_exists (sr_err r)) && negb (is_not_exist (sr_err r))) || negb (pi_is_last (sr_pi r)));
      [apply open_post_stay|].
    match goal with |- context [if ?b then (s, inl (RFail (sr_err r))) else _] => destruct b end;
      [apply open_post_stay|].
    destruct (is_not_exist (sr_err r)) eqn:Ene.
    - destruct (negb (has (to_open_mode flag) OpenCreate)); [apply open_post_stay|].
      destruct (search_post_not_exist _ _ HP Ene) as (p & Hp1 & Hp2 & _ & Hn). rewrite Hp1.
      destruct (negb (perm_on (f_heap s) p (N.lor OpenWrite OpenLookup) (v_user v))); [apply open_post_stay|].
      rewrite Hn. cbn [create_file].
      destruct (Inv_heap_create (f_heap s) p (pi_part (sr_pi r))
                  (NFile [] 1 (f_last_id s + 1)%N (new_meta v (meta_of (f_heap s) p) (file_mode (v_os v)) perm)) IH Hp2 Hn) as [H1 H2].
      { split; auto. }
      split; cbn [fst snd].
      + split; auto.
      + intros f [= <-] c'. cbn [new_handle hd_node f_heap]. intros [= <-].
        rewrite add_child_length, app_length. cbn [length]. lia.
    - destruct (sr_child r) as [c|] eqn:Ec; [|apply open_post_stay].
      apply oe_ok. eapply search_child_valid; eauto.
  Qed.

  Lemma write_file_ok name data perm : step_ok s (fst (write_file s v name data perm)).
  Proof.
    unfold write_file.
    destruct (open_file_ok 0 name (O_WRONLY + O_CREATE + O_TRUNC)%N perm) as [H1 _].
    destruct (open_file s v 0 name (O_WRONLY + O_CREATE + O_TRUNC)%N perm) as [s1 [r|f]]; [stay|].
    cbn [fst] in H1.
    pose proof (f_write_ok s1 v f (proj1 H1) data) as H2.
    destruct (f_write s1 v f data) as [[s2 f'] r]. cbn [fst] in H2.
    assert (H3 : step_ok s s2) by (eapply step_ok_trans; eauto).
    destruct r; exact H3.
  Qed.
End Calls.
