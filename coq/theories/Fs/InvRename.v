(* Property C05: Rename.  The lexical guard of the repaired code
   (strings.HasPrefix(newPath, oldPath + "/")) implies that the new parent is
   not inside the moved directory, because both texts spell the unique walks
   from the root of the view. *)
From Avfs Require Import Base BaseProofs PathModel MemFS MemFile World Inv InvMutators InvSearch InvPath.

Lemma is_file_exists_eq e : is_file_exists e = true -> e = EFileExists.
Proof. destruct e; try discriminate; reflexivity. Qed.

Section Rename.
  Variables (s : fsys) (v : view).
  Hypothesis IH : Inv_heap (f_heap s).
  Hypothesis HV : f_vols s = [].
  Hypothesis VO : view_ok (f_heap s) v.

  (* the guard *)
  Lemma rename_guard ro rn op oc np :
    text_post (f_heap s) (v_root v) ro -> text_post (f_heap s) (v_root v) rn ->
    sr_parent ro = Some op -> sr_child ro = Some oc -> oc <> op -> sr_err ro = EFileExists ->
    alk (pi_part (sr_pi ro)) (children (f_heap s) op) = Some oc ->
    sr_parent rn = Some np -> sr_child rn = None -> is_not_exist (sr_err rn) = true ->
    pi_is_last (sr_pi rn) = true -> is_dir (f_heap s) np ->
    is_prefix (pi_path (sr_pi ro) ++ [SLASH]) (pi_path (sr_pi rn)) = false ->
    ~ reach (f_heap s) oc np.
  Proof.
    intros HTo HTn Hop Hoc Hne Heo Hlk Hnp Hnc Hene Hlast Hdnp Hpre Hr.
    destruct (HTo op Hop) as (nso & Hwo & Hpo).
    { rewrite Heo. discriminate. } { now right. } { rewrite Hoc. congruence. }
    destruct (HTn np Hnp) as (nsn & Hwn & Hpn).
    { intros E. rewrite E in Hene. discriminate. } { now left. } { rewrite Hnc. discriminate. }
    apply reach_walk in Hr as (ms & Hms).
    assert (Hw2 : walk (f_heap s) (v_root v) ((nso ++ [pi_part (sr_pi ro)]) ++ ms) np).
    { eapply walk_app; [|exact Hms]. econstructor; [exact Hwo|]. now apply alookup_In. }
    pose proof (walk_unique _ _ IH _ _ Hwn _ Hw2 Hdnp) as E.
    assert (Ep : exists rest, pi_path (sr_pi rn) = (pi_path (sr_pi ro) ++ [SLASH]) ++ rest).
    { rewrite Hpn, Hpo, E, <- app_assoc, spell_app.
      destruct (ms ++ [pi_part (sr_pi rn)]) as [|x t] eqn:Em; [destruct ms; discriminate|].
      exists (x ++ spell t). rewrite <- app_assoc. reflexivity. }
    destruct Ep as (rest & Ep). rewrite Ep, is_prefix_app in Hpre. discriminate.
  Qed.

  Lemma rename_ok o n : step_ok s (fst (rename s v o n)).
  Proof.
    destruct VO as [Vr Vos Vc].
    unfold rename. cbv zeta.
    set (ro := search_node s v o SlLstat). set (rn := search_node s v n SlLstat).
    assert (HPo : search_post (f_heap s) ro) by (apply search_node_post; auto; discriminate).
    assert (HPn : search_post (f_heap s) rn) by (apply search_node_post; auto; discriminate).
    assert (HTo : text_post (f_heap s) (v_root v) ro) by (apply search_node_text; auto; discriminate).
    assert (HTn : text_post (f_heap s) (v_root v) rn) by (apply search_node_text; auto; discriminate).
    destruct (is_file_exists (sr_err ro)) eqn:Eo; cbn [negb]; [|stay].
    destruct (negb (is_file_exists (sr_err rn)) && negb (is_not_exist (sr_err rn))) eqn:E1; [stay|].
    destruct (is_not_exist (sr_err rn) && negb (pi_is_last (sr_pi rn))) eqn:E2; [stay|].
    destruct (search_post_exists _ _ HPo Eo) as (op & oc & Hop1 & Hop2 & Hoc & Holk).
    rewrite Hop1, Hoc.
    destruct (search_post_parent _ _ HPn) as (np & Hnp1 & Hnp2). rewrite Hnp1.
    assert (Hoc_lt : oc < length (f_heap s)) by (apply (search_child_valid _ ro oc IH HPo Hoc)).
    rewrite Vos. change (sepc Linux) with SLASH.
    (* the tests made before the permission checks, then the permission checks *)
    Ltac perms s v op oc np :=
      destruct (negb (perm_on (f_heap s) op OpenWrite (v_user v))); [stay|];
      destruct (sticky_refuses (f_heap s) op oc (v_user v)); [stay|];
      destruct (negb (Nat.eqb np op) && negb (perm_on (f_heap s) np OpenWrite (v_user v))); [stay|].
    destruct (get (f_heap s) oc) as [[ch m|dt k id m|lk m]|] eqn:Ego.
    4:{ exfalso. apply get_some in Hoc_lt as (x & Hx). congruence. }
    1:{ (* a directory is moved *)
      match goal with |- context [if ?b then Some (if ?b2 then ROk else _) else _] =>
        destruct b; [destruct b2; stay|] end.
      destruct (Nat.eqb_spec oc op) as [->|Hne]; cbn [orb]; [stay|].
      destruct (Nat.eqb oc np); cbn [orb]; [stay|].
      destruct (is_prefix (pi_path (sr_pi ro) ++ [SLASH]) (pi_path (sr_pi rn))) eqn:Epre; [stay|].
      perms s v op oc np.
      destruct (is_not_exist (sr_err rn)) eqn:Ene; cbn [negb]; [|stay].
      match goal with |- context [if ?b then (s, RFail EPermDenied) else _] => destruct b; [stay|] end.
      destruct Holk as [->|Holk]; [congruence|].
      destruct (search_post_not_exist _ _ HPn Ene) as (np' & Hn1 & _ & Hnc & Hnlk).
      assert (np' = np) by congruence. subst np'.
      cbn [andb] in E2. apply Bool.negb_false_iff in E2.
      cbn [fst]. apply step_ok_with_heap.
      apply (Inv_heap_move (f_heap s) op (pi_part (sr_pi ro)) oc np (pi_part (sr_pi rn)) None); auto.
      - discriminate.
      - exact (rename_guard ro rn op oc np HTo HTn Hop1 Hoc Hne (is_file_exists_eq _ Eo) Holk Hnp1 Hnc Ene E2 Hnp2 Epre). }
    (* a file or a symbolic link is moved *)
    all: assert (Hleaf : children (f_heap s) oc = []) by (rewrite children_get, Ego; reflexivity).
    all: assert (Hnd : node_is_dir (f_heap s) oc = false) by (rewrite node_is_dir_get, Ego; reflexivity).
    all: assert (Hne : oc <> op) by (intros ->; unfold is_dir in Hop2; congruence).
    all: destruct Holk as [->|Holk]; [congruence|].
    all: assert (Hnr : ~ reach (f_heap s) oc np)
           by (intros Hr; apply (reach_leaf _ _ _ Hleaf) in Hr; subst; unfold is_dir in Hnp2; congruence).
    all: destruct (str_eqb (pi_path (sr_pi ro)) (pi_path (sr_pi rn))
                  || match sr_child rn with Some nc => Nat.eqb nc oc | None => false end); [stay|].
    all: perms s v op oc np.
    all: destruct (sr_child rn) as [nc|] eqn:Enc.
    2,4: (
      (* no entry under the new name *)
      assert (Hnlk : alk (pi_part (sr_pi rn)) (children (f_heap s) np) = None);
      [ destruct HPn as (np' & Hn1 & _ & Hn3); rewrite Enc in Hn3; destruct Hn3 as [Hn3 Hn4];
        assert (np' = np) by congruence; subst np'; apply Hn4;
        rewrite Hn3 in E1; cbn [negb andb] in E1; now apply Bool.negb_false_iff in E1
      | cbn [fst]; apply step_ok_with_heap;
        apply (Inv_heap_move (f_heap s) op (pi_part (sr_pi ro)) oc np (pi_part (sr_pi rn)) None); auto; discriminate ]).
    all: destruct (search_post_child _ _ nc HPn Enc) as (np' & Hn1 & _ & Hnlk).
    all: assert (np' = np) by congruence; subst np'.
    all: destruct (get (f_heap s) nc) as [[ch' m'|dt' k' id' m'|lk' m']|] eqn:Egn; try stay.
    all: destruct (sticky_refuses (f_heap s) np nc (v_user v)); [stay|].
    all: assert (Hndn : node_is_dir (f_heap s) nc = false) by (rewrite node_is_dir_get, Egn; reflexivity).
    all: destruct Hnlk as [->|Hnlk]; [unfold is_dir in Hnp2; congruence|].
    all: cbn [fst]; apply step_ok_with_heap.
    all: apply (Inv_heap_move (f_heap s) op (pi_part (sr_pi ro)) oc np (pi_part (sr_pi rn)) (Some nc)); auto.
    all: intros nc0 [= <-]; auto.
  Qed.
End Rename.
