(* C07 (sequential part) for the OrefaFS model: on a well-formed world no call panics, deadlocks or
   runs out of fuel - for every argument (any byte strings as paths, any flags, sizes, offsets, closed
   handles).  The model has an explicit RPanic result wherever the Go code evaluates a slice
   expression that can fail (SplitAbs on a string without separator) or a loop could run away; the
   theorem says these are unreachable.  RDeadlock is never produced: after the fix of Link no call of
   OrefaFS takes the lock of one node twice (Remove / RemoveAll / Rename test "child == parent"). *)
From Avfs Require Import Base PathModel PathSpec PathProofs PathCleanProofs PathIterProofs MemFS MemFile World
  OrefaFS OrefaWorld OrefaLemmas OrefaInv OrefaProps.

Definition res_ok (r : res) : Prop :=
  match r with
  | RPanic | RDeadlock | RFail EFuel | RErrPath EFuel _ => False
  | _ => True
  end.

Definition sum_ok {A} (r : res + A) : Prop := match r with inl r => res_ok r | inr _ => True end.

(* ---- the loops terminate within their fuel ---------------------------------------------------------- *)
Lemma enf_loop_ok s r : orefa_inv s -> res_ok r -> forall ps fuel, gcs ps -> length ps < fuel ->
  res_ok (o_enf_loop fuel s (rpath ps) r).
Proof.
  intros Hinv Hr ps. induction ps as [|c ps IH] using rev_ind; intros fuel Hps Hf.
  - destruct fuel; [lia|]. cbn [o_enf_loop rpath length]. rewrite (inv_os _ Hinv). cbn [volume_name_len Nat.leb]. exact Hr.
  - destruct fuel; [lia|]. cbn [o_enf_loop]. rewrite (inv_os _ Hinv). cbn [volume_name_len].
    apply gcs_snoc_inv in Hps. destruct Hps as [Hps Hc].
    assert (Hl : Nat.leb (length (rpath (ps ++ [c]))) 0 = false).
    { apply Nat.leb_gt. rewrite rpath_snoc, app_length. cbn [length]. lia. }
    rewrite Hl. rewrite (split_abs_rpath ps c) by (apply comp_ok_nosl; apply good_comp_ok'; exact Hc).
    destruct (ofind s (rpath ps)) as [[i n]|].
    + destruct (on_dir n); [exact Hr|exact I].
    + apply IH; [exact Hps|]. rewrite app_length in Hf. cbn [length] in Hf. lia.
Qed.

Lemma enf_ok s cs r : orefa_inv s -> res_ok r -> gcs cs -> res_ok (o_enf s (abs_path cs) r).
Proof.
  intros Hinv Hr Hcs. unfold o_enf. destruct (abs_path_cases cs) as [[-> E]|[Hne E]].
  - rewrite E. cbn [length o_enf_loop]. rewrite (inv_os _ Hinv). cbn [volume_name_len Nat.leb].
    rewrite split_abs_root. destruct (ofind_root s (inv_h _ Hinv)) as (n & _ & H2 & Hd). rewrite H2, Hd. exact Hr.
  - rewrite E. apply enf_loop_ok; try assumption. pose proof (rpath_length_ge cs). lia.
Qed.

Lemma up_loop_ok s : orefa_inv s -> forall ps fuel, gcs ps -> length ps < fuel ->
  ofind s (rpath ps) = None -> o_up_loop fuel s (rpath ps) <> None.
Proof.
  intros Hinv ps. induction ps as [|c ps IH] using rev_ind; intros fuel Hps Hf Hn.
  - destruct (ofind_root s (inv_h _ Hinv)) as (n & _ & H2 & _). cbn [rpath] in Hn. congruence.
  - destruct fuel; [lia|]. cbn [o_up_loop]. rewrite (inv_os _ Hinv).
    apply gcs_snoc_inv in Hps. destruct Hps as [Hps Hc].
    rewrite (split_abs_rpath ps c) by (apply comp_ok_nosl; apply good_comp_ok'; exact Hc).
    destruct (ofind s (rpath ps)) as [[i n]|] eqn:E; [discriminate|].
    apply IH; [exact Hps| |reflexivity]. rewrite app_length in Hf. cbn [length] in Hf. lia.
Qed.

Lemma missing_ok s : orefa_inv s -> forall cur ds fuel, gcs cur -> length cur < fuel ->
  sum_ok (o_missing fuel s (rpath cur) ds).
Proof.
  intros Hinv cur. induction cur as [|c cur' IH] using rev_ind; intros ds fuel Hcur Hfuel.
  - destruct fuel as [|f]; [lia|]. cbn [o_missing rpath].
    destruct (ofind_root s (inv_h _ Hinv)) as (n & _ & H2 & Hd). rewrite H2, Hd. exact I.
  - destruct fuel as [|f]; [lia|]. cbn [o_missing].
    apply gcs_snoc_inv in Hcur. destruct Hcur as [Hcur' Hc].
    destruct (ofind s (rpath (cur' ++ [c]))) as [[i n]|].
    + destruct (on_dir n); exact I.
    + rewrite (inv_os _ Hinv). rewrite (split_abs_rpath cur' c) by (apply comp_ok_nosl; apply good_comp_ok'; exact Hc).
      apply IH; [exact Hcur'|]. rewrite app_length in Hfuel. cbn [length] in Hfuel. lia.
Qed.

Lemma enf_ok_r s cs r : orefa_inv s -> res_ok r -> gcs cs -> cs <> [] -> res_ok (o_enf s (rpath cs) r).
Proof. intros Hinv Hr Hcs Hne. rewrite <- (@abs_path_rpath cs Hne). apply enf_ok; assumption. Qed.

Ltac crush Hinv :=
  repeat match goal with
  | |- res_ok (snd (_, _)) => cbn [snd]
  | |- sum_ok (snd (_, _)) => cbn [snd]
  | |- sum_ok (inl _) => cbn [sum_ok]
  | |- sum_ok (inr _) => exact I
  | |- res_ok (o_enf _ (abs_path _) _) => apply enf_ok; [exact Hinv|exact I|assumption]
  | |- res_ok (o_enf _ (rpath (_ ++ [_])) _) =>
      apply enf_ok_r; [exact Hinv|exact I|apply gcs_snoc; assumption|let E := fresh in intros E; apply app_eq_nil in E; destruct E; discriminate]
  | |- context [match ?x with _ => _ end] => destruct x eqn:?
  end; try exact I.

(* the common opening: the absolute path is the root or parent/name, SplitAbs succeeds *)
Ltac open_path Hinv s name cs ps c Hcs Hps Hc :=
  let Eabs := fresh "Eabs" in let E1 := fresh "E1" in let E2 := fresh "E2" in
  destruct (oabs_shape s name Hinv) as (cs & Hcs & Eabs); rewrite ?Eabs, ?(inv_os _ Hinv);
  destruct (abs_path_split cs Hcs) as [(-> & E1 & E2)|(ps & c & -> & Hps & Hc & E1 & E2)]; rewrite ?E2.

Lemma ok_mkdir s name perm : orefa_inv s -> res_ok (snd (o_mkdir s name perm)).
Proof.
  intros Hinv. unfold o_mkdir. destruct name as [|x name']; [exact I|]. set (name := x :: name').
  open_path Hinv s name cs ps c Hcs Hps Hc.
  - destruct (ofind_root s (inv_h _ Hinv)) as (n & H1 & _). rewrite E1, H1. exact I.
  - rewrite E1. destruct (ofind s (rpath (ps ++ [c]))); [exact I|].
    destruct (ofind s (rpath ps)) as [[pi pn]|] eqn:Ep; [crush Hinv|].
    destruct (o_up_loop (S (length (rpath ps))) s (rpath ps)) as [n|] eqn:Eu; [crush Hinv|].
    exfalso. revert Eu. apply up_loop_ok; try assumption. pose proof (rpath_length_ge ps). lia.
Qed.

Lemma ok_mkdir_all s path perm : orefa_inv s -> res_ok (snd (o_mkdir_all s path perm)).
Proof.
  intros Hinv. unfold o_mkdir_all.
  destruct (oabs_shape s path Hinv) as (cs & Hcs & Eabs). rewrite Eabs.
  destruct (ofind s (abs_path cs)) as [[i n]|] eqn:E; [crush Hinv|].
  destruct (abs_path_cases cs) as [[-> E1]|[Hne E1]].
  - destruct (ofind_root s (inv_h _ Hinv)) as (n & H1 & _). rewrite E1, H1 in E. discriminate.
  - rewrite E1.
    assert (Hfu : length cs < S (length (rpath cs))) by (pose proof (rpath_length_ge cs); lia).
    pose proof (missing_ok s Hinv cs [] (S (length (rpath cs))) Hcs Hfu) as H.
    destruct (o_missing (S (length (rpath cs))) s (rpath cs) []) as [r|[ds parent]]; [exact H|exact I].
Qed.

Lemma ok_open_file s name flag perm : orefa_inv s -> sum_ok (snd (o_open_file s name flag perm)).
Proof.
  intros Hinv. unfold o_open_file. open_path Hinv s name cs ps c Hcs Hps Hc.
  - destruct (ofind_root s (inv_h _ Hinv)) as (n & H1 & _ & Hd). rewrite E1, H1, Hd. crush Hinv.
  - rewrite E1. crush Hinv.
Qed.

Lemma ok_remove s name : orefa_inv s -> res_ok (snd (o_remove s name)).
Proof.
  intros Hinv. unfold o_remove. open_path Hinv s name cs ps c Hcs Hps Hc.
  - destruct (ofind_root s (inv_h _ Hinv)) as (n & H1 & H2 & Hd). rewrite E1, H1, H2. crush Hinv.
  - rewrite E1. crush Hinv.
Qed.

Lemma ok_remove_all s path : orefa_inv s -> res_ok (snd (o_remove_all s path)).
Proof.
  intros Hinv. unfold o_remove_all. destruct path as [|x path']; [exact I|]. set (path := x :: path').
  open_path Hinv s path cs ps c Hcs Hps Hc.
  - destruct (ofind_root s (inv_h _ Hinv)) as (n & H1 & H2 & Hd). rewrite E1, H1, H2. crush Hinv.
  - rewrite E1. crush Hinv.
Qed.

Lemma ok_link s oldname newname : orefa_inv s -> res_ok (snd (o_link s oldname newname)).
Proof.
  intros Hinv. unfold o_link.
  assert (Hw : owin s = false) by (unfold owin; rewrite (inv_os _ Hinv); reflexivity). rewrite Hw.
  destruct (oabs_shape s oldname Hinv) as (ocs & Hocs & Eo). rewrite Eo.
  open_path Hinv s newname cs ps c Hcs Hps Hc.
  - crush Hinv.
  - rewrite E1. crush Hinv.
Qed.

Lemma ok_rename s oldname newname : orefa_inv s -> res_ok (snd (o_rename s oldname newname)).
Proof.
  intros Hinv. unfold o_rename.
  assert (Hw : owin s = false) by (unfold owin; rewrite (inv_os _ Hinv); reflexivity). rewrite Hw.
  destruct (oabs_shape s oldname Hinv) as (ocs & Hocs & Eo). destruct (oabs_shape s newname Hinv) as (ncs & Hncs & En).
  rewrite Eo, En, (inv_os _ Hinv).
  destruct (abs_path_split ocs Hocs) as [(-> & Eo1 & Eo2)|(ops & on & -> & Hops & Hon & Eo1 & Eo2)]; rewrite Eo2;
    destruct (abs_path_split ncs Hncs) as [(-> & En1 & En2)|(nps & nn & -> & Hnps & Hnn & En1 & En2)]; rewrite En2;
    rewrite ?Eo1, ?En1; crush Hinv.
  all: change [SLASH] with (abs_path []); apply enf_ok; [exact Hinv|exact I|constructor].
Qed.

Lemma ok_simple_calls s name :
  orefa_inv s ->
  (forall size, res_ok (snd (o_truncate s name size))) /\ (forall mode, res_ok (snd (o_chmod s name mode)))
  /\ (forall uid gid, res_ok (snd (o_chown s name uid gid))) /\ res_ok (o_chtimes s name)
  /\ res_ok (snd (o_chdir s name)) /\ res_ok (o_stat s name).
Proof.
  intros Hinv. destruct (oabs_shape s name Hinv) as (cs & Hcs & Eabs).
  repeat split; intros.
  - unfold o_truncate. rewrite Eabs. crush Hinv.
  - unfold o_chmod. rewrite Eabs. crush Hinv.
  - unfold o_chown. rewrite Eabs. crush Hinv.
  - unfold o_chtimes. rewrite Eabs. crush Hinv.
  - unfold o_chdir. rewrite Eabs. crush Hinv.
  - unfold o_stat. rewrite Eabs, (inv_os _ Hinv).
    destruct (abs_path_split cs Hcs) as [(-> & E1 & E2)|(ps & c & -> & Hps & Hc & E1 & E2)]; rewrite E2; crush Hinv.
Qed.
