(* C07 (sequential part) for the OrefaFS model: on a well-formed world no call panics, deadlocks or
   runs out of fuel - for every argument (any byte strings as paths, any flags, sizes, offsets, closed
   handles).  The model has an explicit RPanic result wherever the Go code evaluates a slice
   expression that can fail (SplitAbs on a string without separator) or a loop could run away; the
   theorem says these are unreachable.  RDeadlock is never produced: after the fix of Link no call of
   OrefaFS takes the lock of one node twice (Remove / RemoveAll / Rename test "child == parent"). *)
From Avfs Require Import Base PathModel PathSpec PathProofs PathCleanProofs PathIterProofs MemFS MemFile World
  OrefaFS OrefaWorld OrefaLemmas OrefaInv OrefaProps.

Definition res_ok (r : res) : Prop :=
  match r with
  | RPanic | RDeadlock | RFail EFuel | RErrPath EFuel _ => False
  | _ => True
  end.

Definition sum_ok {A} (r : res + A) : Prop := match r with inl r => res_ok r | inr _ => True end.

(* ---- the loops terminate within their fuel ---------------------------------------------------------- *)
Lemma enf_loop_ok s r : orefa_inv s -> res_ok r -> forall ps fuel, gcs ps -> length ps < fuel ->
  res_ok (o_enf_loop fuel s (rpath ps) r).
Proof.
  intros Hinv Hr ps. induction ps as [|c ps IH] using rev_ind; intros fuel Hps Hf.
  - destruct fuel; [lia|]. cbn [o_enf_loop rpath length]. rewrite (inv_os _ Hinv). cbn [volume_name_len Nat.leb]. exact Hr.
  - destruct fuel; [lia|]. cbn [o_enf_loop]. rewrite (inv_os _ Hinv). cbn [volume_name_len].
    apply gcs_snoc_inv in Hps. destruct Hps as [Hps Hc].
    assert (Hl : Nat.leb (length (rpath (ps ++ [c]))) 0 = false).
    { apply Nat.leb_gt. rewrite rpath_snoc, app_length. cbn [length]. lia. }
    rewrite Hl. rewrite (split_abs_rpath ps c) by (apply comp_ok_nosl; apply good_comp_ok'; exact Hc).
    destruct (ofind s (rpath ps)) as [[i n]|].
    + destruct (on_dir n); [exact Hr|exact I].
    + apply IH; [exact Hps|]. rewrite app_length in Hf. cbn [length] in Hf. lia.
Qed.

Lemma enf_ok s cs r : orefa_inv s -> res_ok r -> gcs cs -> res_ok (o_enf s (abs_path cs) r).
Proof.
  intros Hinv Hr Hcs. unfold o_enf. destruct (abs_path_cases cs) as [[-> E]|[Hne E]].
  - rewrite E. cbn [length o_enf_loop]. rewrite (inv_os _ Hinv). cbn [volume_name_len Nat.leb].
    rewrite split_abs_root. destruct (ofind_root s (inv_h _ Hinv)) as (n & _ & H2 & Hd). rewrite H2, Hd. exact Hr.
  - rewrite E. apply enf_loop_ok; try assumption. pose proof (rpath_length_ge cs). lia.
Qed.

Lemma up_loop_ok s : orefa_inv s -> forall ps fuel, gcs ps -> length ps < fuel ->
  ofind s (rpath ps) = None -> o_up_loop fuel s (rpath ps) <> None.
Proof.
  intros Hinv ps. induction ps as [|c ps IH] using rev_ind; intros fuel Hps Hf Hn.
  - destruct (ofind_root s (inv_h _ Hinv)) as (n & _ & H2 & _). cbn [rpath] in Hn. congruence.
  - destruct fuel; [lia|]. cbn [o_up_loop]. rewrite (inv_os _ Hinv).
    apply gcs_snoc_inv in Hps. destruct Hps as [Hps Hc].
    rewrite (split_abs_rpath ps c) by (apply comp_ok_nosl; apply good_comp_ok'; exact Hc).
    destruct (ofind s (rpath ps)) as [[i n]|] eqn:E; [discriminate|].
    apply IH; [exact Hps| |reflexivity]. rewrite app_length in Hf. cbn [length] in Hf. lia.
Qed.

Lemma missing_ok s : orefa_inv s -> forall cur ds fuel, gcs cur -> length cur < fuel ->
  sum_ok (o_missing fuel s (rpath cur) ds).
Proof.
  intros Hinv cur. induction cur as [|c cur' IH] using rev_ind; intros ds fuel Hcur Hfuel.
  - destruct fuel as [|f]; [lia|]. cbn [o_missing rpath].
    destruct (ofind_root s (inv_h _ Hinv)) as (n & _ & H2 & Hd). rewrite H2, Hd. exact I.
  - destruct fuel as [|f]; [lia|]. cbn [o_missing].
    apply gcs_snoc_inv in Hcur. destruct Hcur as [Hcur' Hc].
    destruct (ofind s (rpath (cur' ++ [c]))) as [[i n]|].
    + destruct (on_dir n); exact I.
    + rewrite (inv_os _ Hinv). destruct (Nat.leb _ _); [exact I|].
      rewrite (split_abs_rpath cur' c) by (apply comp_ok_nosl; apply good_comp_ok'; exact Hc).
      apply IH; [exact Hcur'|]. rewrite app_length in Hfuel. cbn [length] in Hfuel. lia.
Qed.

Lemma enf_ok_r s cs r : orefa_inv s -> res_ok r -> gcs cs -> cs <> [] -> res_ok (o_enf s (rpath cs) r).
Proof. intros Hinv Hr Hcs Hne. rewrite <- (@abs_path_rpath cs Hne). apply enf_ok; assumption. Qed.

Ltac crush Hinv :=
  repeat match goal with
  | |- res_ok (snd (_, _)) => cbn [snd]
  | |- sum_ok (snd (_, _)) => cbn [snd]
  | |- sum_ok (inl _) => cbn [sum_ok]
  | |- sum_ok (inr _) => exact I
  | |- res_ok (o_enf _ (abs_path _) _) => apply enf_ok; [exact Hinv|exact I|assumption]
  | |- res_ok (o_enf _ (rpath (_ ++ [_])) _) =>
      apply enf_ok_r; [exact Hinv|exact I|apply gcs_snoc; assumption|let E := fresh in intros E; apply app_eq_nil in E; destruct E; discriminate]
  | |- context [match ?x with _ => _ end] => destruct x eqn:?
  end; try exact I.

(* the common opening: the absolute path is the root or parent/name, SplitAbs succeeds *)
Ltac open_path Hinv s name cs ps c Hcs Hps Hc :=
  let Eabs := fresh "Eabs" in let E1 := fresh "E1" in let E2 := fresh "E2" in
  destruct (oabs_shape s name Hinv) as (cs & Hcs & Eabs); rewrite ?Eabs, ?(inv_os _ Hinv);
  destruct (abs_path_split cs Hcs) as [(-> & E1 & E2)|(ps & c & -> & Hps & Hc & E1 & E2)]; rewrite ?E2.

Lemma ok_mkdir s name perm : orefa_inv s -> res_ok (snd (o_mkdir s name perm)).
Proof.
  intros Hinv. unfold o_mkdir. destruct name as [|x name']; [exact I|]. set (name := x :: name').
  open_path Hinv s name cs ps c Hcs Hps Hc.
  - destruct (ofind_root s (inv_h _ Hinv)) as (n & H1 & _). rewrite E1, H1. exact I.
  - rewrite E1. destruct (ofind s (rpath (ps ++ [c]))); [exact I|].
    destruct (ofind s (rpath ps)) as [[pi pn]|] eqn:Ep; [crush Hinv|].
    cbn [snd]. apply enf_ok_r; [exact Hinv|exact I| |].
    + apply gcs_snoc; assumption.
    + destruct ps; discriminate.
Qed.

Lemma ok_mkdir_all s path perm : orefa_inv s -> res_ok (snd (o_mkdir_all s path perm)).
Proof.
  intros Hinv. unfold o_mkdir_all.
  destruct (oabs_shape s path Hinv) as (cs & Hcs & Eabs). rewrite Eabs.
  destruct (ofind s (abs_path cs)) as [[i n]|] eqn:E; [crush Hinv|].
  destruct (abs_path_cases cs) as [[-> E1]|[Hne E1]].
  - destruct (ofind_root s (inv_h _ Hinv)) as (n & H1 & _). rewrite E1, H1 in E. discriminate.
  - rewrite E1.
    assert (Hfu : length cs < S (length (rpath cs))) by (pose proof (rpath_length_ge cs); lia).
    pose proof (missing_ok s Hinv cs [] (S (length (rpath cs))) Hcs Hfu) as H.
    destruct (o_missing (S (length (rpath cs))) s (rpath cs) []) as [r|[ds parent]]; [exact H|exact I].
Qed.

Lemma ok_open_file s name flag perm : orefa_inv s -> sum_ok (snd (o_open_file s name flag perm)).
Proof.
  intros Hinv. unfold o_open_file. open_path Hinv s name cs ps c Hcs Hps Hc.
  - destruct (ofind_root s (inv_h _ Hinv)) as (n & H1 & _ & Hd). rewrite E1, H1, Hd. crush Hinv.
  - rewrite E1. crush Hinv.
Qed.

Lemma ok_remove s name : orefa_inv s -> res_ok (snd (o_remove s name)).
Proof.
  intros Hinv. unfold o_remove. open_path Hinv s name cs ps c Hcs Hps Hc.
  - destruct (ofind_root s (inv_h _ Hinv)) as (n & H1 & H2 & Hd). rewrite E1, H1, H2. crush Hinv.
  - rewrite E1. crush Hinv.
Qed.

Lemma ok_remove_all s path : orefa_inv s -> res_ok (snd (o_remove_all s path)).
Proof.
  intros Hinv. unfold o_remove_all. destruct path as [|x path']; [exact I|]. set (path := x :: path').
  open_path Hinv s path cs ps c Hcs Hps Hc.
  - destruct (ofind_root s (inv_h _ Hinv)) as (n & H1 & H2 & Hd). rewrite E1, H1, H2. crush Hinv.
  - rewrite E1. crush Hinv.
Qed.

Lemma ok_link s oldname newname : orefa_inv s -> res_ok (snd (o_link s oldname newname)).
Proof.
  intros Hinv. unfold o_link.
  assert (Hw : owin s = false) by (unfold owin; rewrite (inv_os _ Hinv); reflexivity). rewrite Hw.
  destruct (oabs_shape s oldname Hinv) as (ocs & Hocs & Eo). rewrite Eo.
  open_path Hinv s newname cs ps c Hcs Hps Hc.
  - crush Hinv.
  - rewrite E1. crush Hinv.
Qed.

Lemma ok_rename s oldname newname : orefa_inv s -> res_ok (snd (o_rename s oldname newname)).
Proof.
  intros Hinv. unfold o_rename.
  assert (Hw : owin s = false) by (unfold owin; rewrite (inv_os _ Hinv); reflexivity). rewrite Hw.
  destruct (oabs_shape s oldname Hinv) as (ocs & Hocs & Eo). destruct (oabs_shape s newname Hinv) as (ncs & Hncs & En).
  rewrite Eo, En, (inv_os _ Hinv).
  destruct (abs_path_split ocs Hocs) as [(-> & Eo1 & Eo2)|(ops & on & -> & Hops & Hon & Eo1 & Eo2)]; rewrite Eo2;
    destruct (abs_path_split ncs Hncs) as [(-> & En1 & En2)|(nps & nn & -> & Hnps & Hnn & En1 & En2)]; rewrite En2;
    rewrite ?Eo1, ?En1; crush Hinv.
  all: change [SLASH] with (abs_path []); apply enf_ok; [exact Hinv|exact I|constructor].
Qed.

Lemma ok_simple_calls s name :
  orefa_inv s ->
  (forall size, res_ok (snd (o_truncate s name size))) /\ (forall mode, res_ok (snd (o_chmod s name mode)))
  /\ (forall uid gid, res_ok (snd (o_chown s name uid gid))) /\ res_ok (o_chtimes s name)
  /\ res_ok (snd (o_chdir s name)) /\ res_ok (o_stat s name).
Proof.
  intros Hinv. destruct (oabs_shape s name Hinv) as (cs & Hcs & Eabs).
  repeat split; intros.
  - unfold o_truncate. rewrite Eabs. crush Hinv.
  - unfold o_chmod. rewrite Eabs. crush Hinv.
  - unfold o_chown. rewrite Eabs. crush Hinv.
  - unfold o_chtimes. rewrite Eabs. crush Hinv.
  - unfold o_chdir. rewrite Eabs. crush Hinv.
  - unfold o_stat. rewrite Eabs, (inv_os _ Hinv).
    destruct (abs_path_split cs Hcs) as [(-> & E1 & E2)|(ps & c & -> & Hps & Hc & E1 & E2)]; rewrite E2; crush Hinv.
Qed.

(* ---- open files ---------------------------------------------------------------------------------------- *)
Definition handle_ok (h : oheap) (f : handle) : Prop :=
  match hd_node f with Some c => c < length h | None => True end.

Ltac prologue_ok Hf :=
  unfold o_prologue;
  match goal with |- context [hd_name ?f] => destruct (hd_name f); [crush I|] end;
  match goal with |- context [hd_node ?f] => unfold handle_ok in Hf; destruct (hd_node f) as [c|]; [|crush I] end;
  match goal with |- context [oget ?h ?c0] =>
    let End := fresh "End" in
    destruct (oget h c0) as [nd|] eqn:End; [|exfalso; destruct (oget_lt_some h c0 Hf) as (x & Hx); congruence] end.

Lemma ok_handle_calls s f : handle_ok (o_heap s) f ->
  (forall n, res_ok (snd (of_read s f n))) /\ (forall n off, res_ok (of_read_at s f n off))
  /\ (forall b, res_ok (snd (of_write s f b))) /\ (forall b off, res_ok (snd (of_write_at s f b off)))
  /\ (forall off wh, res_ok (snd (of_seek s f off wh))) /\ (forall size, res_ok (snd (of_truncate s f size)))
  /\ res_ok (of_stat s f) /\ res_ok (f_sync f) /\ (forall m, res_ok (snd (of_chmod s f m)))
  /\ (forall u g, res_ok (snd (of_chown s f u g))) /\ res_ok (snd (of_chdir s f)) /\ res_ok (snd (f_close f))
  /\ (forall n, res_ok (snd (of_read_dir s f n))) /\ (forall n, res_ok (snd (of_readdirnames s f n))).
Proof.
  intros Hf. repeat split; intros.
  - unfold of_read. prologue_ok Hf. crush I.
  - unfold of_read_at. prologue_ok Hf. crush I.
  - unfold of_write. prologue_ok Hf. crush I.
  - unfold of_write_at. destruct (has (hd_mode f) OpenAppend); [exact I|]. destruct (Z.ltb off 0); [exact I|]. prologue_ok Hf. crush I.
  - unfold of_seek. prologue_ok Hf. crush I.
  - unfold of_truncate. prologue_ok Hf. crush I.
  - unfold of_stat. prologue_ok Hf. all: crush I.
  - unfold f_sync. crush I.
  - unfold of_chmod. prologue_ok Hf. crush I.
  - unfold of_chown. prologue_ok Hf. crush I.
  - unfold of_chdir. prologue_ok Hf. crush I.
  - unfold f_close, closed_err. crush I.
  - unfold of_read_dir. prologue_ok Hf. all: unfold o_batch; crush I.
  - unfold of_readdirnames. prologue_ok Hf. all: unfold o_batch; crush I.
Qed.

(* ---- the heap never shrinks, so open handles keep pointing at nodes ---------------------------------------- *)
Lemma add_child_length h p c j : length (o_add_child h p c j) = length h.
Proof. unfold o_add_child. destruct (oget h p); [apply oupd_length|reflexivity]. Qed.
Lemma del_child_length h p c : length (o_del_child h p c) = length h.
Proof. unfold o_del_child. destruct (oget h p); [apply oupd_length|reflexivity]. Qed.
Lemma release_length h c : length (o_release h c) = length h.
Proof. unfold o_release. destruct (oget h c); [apply oupd_length|reflexivity]. Qed.

Lemma rm_all_length os : forall fuel st p i, length (snd (o_rm_all fuel os st p i)) = length (snd st).
Proof.
  induction fuel as [|f IH]; intros st p i; cbn [o_rm_all]; [reflexivity|]. cbn [snd]. rewrite release_length.
  destruct (oget (snd st) i) as [n|]; [|reflexivity]. destruct (on_dir n); [|reflexivity].
  generalize (on_ch n). intros l. revert st. induction l as [|e l IHl]; intros st; cbn [fold_left]; [reflexivity|].
  rewrite IHl. apply IH.
Qed.

Lemma create_node_length s p a c m : length (o_heap (fst (o_create_node s p a c m))) = S (length (o_heap s)).
Proof. unfold o_create_node. cbn [fst o_heap]. rewrite add_child_length, app_length. cbn [length]. lia. Qed.

Lemma create_chain_length perm : forall paths s p, length (o_heap s) <= length (o_heap (o_create_chain s p paths perm)).
Proof.
  induction paths as [|x r IH]; intros s p; cbn [o_create_chain]; [lia|].
  unfold o_create_dir. pose proof (create_node_length s p x (snd (split_abs (o_os s) x))
    (N.lor (dir_mode (o_os s)) (N.ldiff (N.land perm (511 + MODE_STICKY)) (o_umask s)))) as H.
  destruct (o_create_node s p x _ _) as [s1 c1]. cbn [fst] in H. specialize (IH s1 c1). lia.
Qed.

Ltac len :=
  repeat match goal with
  | |- context [match ?x with _ => _ end] => destruct x eqn:?
  end;
  cbn [fst snd o_heap o_with o_with_heap o_with_cwd o_with_user o_with_umask];
  rewrite ?oupd_length, ?del_child_length, ?add_child_length, ?release_length; try lia.

Lemma len_open_file s name flag perm : length (o_heap s) <= length (o_heap (fst (o_open_file s name flag perm))).
Proof.
  unfold o_open_file, o_create_file.
  repeat match goal with |- context [match ?x with _ => _ end] =>
    lazymatch x with o_create_node _ _ _ _ _ => fail | _ => destruct x eqn:? end end; cbn [fst o_heap o_with_heap o_with]; rewrite ?oupd_length; try lia.
  all: match goal with |- context [o_create_node ?s ?p ?a ?c ?m] =>
         let H := fresh "H" in let sx := fresh "sx" in let cx := fresh "cx" in
         pose proof (create_node_length s p a c m) as H; destruct (o_create_node s p a c m) as [sx cx]; cbn [fst] in *; lia end.
Qed.

Lemma len_mono_ns s :
  (forall n p, length (o_heap s) <= length (o_heap (fst (o_mkdir s n p))))
  /\ (forall n p, length (o_heap s) <= length (o_heap (fst (o_mkdir_all s n p))))
  /\ (forall n, length (o_heap s) <= length (o_heap (fst (o_remove s n))))
  /\ (forall n, length (o_heap s) <= length (o_heap (fst (o_remove_all s n))))
  /\ (forall o n, length (o_heap s) <= length (o_heap (fst (o_rename s o n))))
  /\ (forall o n, length (o_heap s) <= length (o_heap (fst (o_link s o n))))
  /\ (forall n z, length (o_heap s) <= length (o_heap (fst (o_truncate s n z))))
  /\ (forall n m, length (o_heap s) <= length (o_heap (fst (o_chmod s n m))))
  /\ (forall n u g, length (o_heap s) <= length (o_heap (fst (o_chown s n u g))))
  /\ (forall n, length (o_heap s) <= length (o_heap (fst (o_chdir s n)))).
Proof.
  repeat split; intros.
  - unfold o_mkdir, o_create_dir.
    repeat match goal with |- context [match ?x with _ => _ end] =>
      lazymatch x with o_create_node _ _ _ _ _ => fail | _ => destruct x eqn:? end end; cbn [fst]; try lia.
    rewrite create_node_length. lia.
  - unfold o_mkdir_all. repeat match goal with |- context [match ?x with _ => _ end] => destruct x eqn:? end; cbn [fst]; try lia.
    apply create_chain_length.
  - unfold o_remove. len.
  - unfold o_remove_all.
    repeat match goal with |- context [match ?x with _ => _ end] =>
      lazymatch x with o_rm_all _ _ _ _ _ => fail | _ => destruct x eqn:? end end; cbn [fst]; try lia.
    match goal with |- context [o_rm_all ?f ?os ?st ?p ?i] =>
      let H := fresh "H" in let i1 := fresh "i1" in let h1 := fresh "h1" in pose proof (rm_all_length os f st p i) as H; destruct (o_rm_all f os st p i) as [i1 h1] end.
    cbn [snd fst o_with o_heap] in *. rewrite del_child_length. lia.
  - unfold o_rename. len.
  - unfold o_link. len.
  - unfold o_truncate. len.
  - unfold o_chmod. len.
  - unfold o_chown. len.
  - unfold o_chdir. len.
Qed.

Lemma len_handle_calls s f :
  (forall b, length (o_heap (fst (fst (of_write s f b)))) = length (o_heap s))
  /\ (forall b off, length (o_heap (fst (of_write_at s f b off))) = length (o_heap s))
  /\ (forall z, length (o_heap (fst (of_truncate s f z))) = length (o_heap s))
  /\ (forall m, length (o_heap (fst (of_chmod s f m))) = length (o_heap s))
  /\ (forall u g, length (o_heap (fst (of_chown s f u g))) = length (o_heap s))
  /\ length (o_heap (fst (of_chdir s f))) = length (o_heap s).
Proof.
  repeat split; intros.
  - unfold of_write, o_prologue. len; reflexivity.
  - unfold of_write_at, o_prologue. len; reflexivity.
  - unfold of_truncate, o_prologue. len; reflexivity.
  - unfold of_chmod, o_prologue. len; reflexivity.
  - unfold of_chown, o_prologue. len; reflexivity.
  - unfold of_chdir, o_prologue. len; reflexivity.
Qed.

Lemma ofind_lt s k c cn : ofind s k = Some (c, cn) -> c < length (o_heap s).
Proof. intros H. apply ofind_some in H. destruct H as [_ H]. eapply oget_some_lt. exact H. Qed.

Lemma open_file_handle_ok s name flag perm s1 f :
  o_open_file s name flag perm = (s1, inr f) -> handle_ok (o_heap s1) f.
Proof.
  unfold o_open_file, o_create_file. intros E.
  repeat match type of E with context [match ?x with _ => _ end] =>
    lazymatch x with o_create_node _ _ _ _ _ => fail | _ => destruct x eqn:? end end; try discriminate.
  all: try (inversion E; subst; unfold handle_ok; cbn [new_handle hd_node o_with_heap o_with o_heap];
            rewrite ?oupd_length; eapply ofind_lt; eassumption).
  match type of E with context [o_create_node ?s ?p ?a ?c ?m] =>
    pose proof (create_node_length s p a c m) as Hl; destruct (o_create_node s p a c m) as [sx cx] eqn:Ecr end.
  inversion E; subst. unfold handle_ok. cbn [new_handle hd_node]. cbn [fst] in Hl.
  unfold o_create_node in Ecr. inversion Ecr; subst. cbn [o_heap] in *. lia.
Qed.

Lemma ok_composites s name : orefa_inv s ->
  res_ok (o_read_dir s name) /\ res_ok (o_read_file s name) /\ (forall d p, res_ok (snd (o_write_file s name d p))).
Proof.
  intros Hinv. repeat split; intros.
  - unfold o_read_dir. pose proof (ok_open_file s name 0 0 Hinv) as H1.
    destruct (o_open_file s name 0 0) as [s1 [r|f]] eqn:E; [exact H1|].
    apply (ok_handle_calls s1 f (open_file_handle_ok _ _ _ _ _ _ E)).
  - unfold o_read_file. pose proof (ok_open_file s name 0 0 Hinv) as H1.
    destruct (o_open_file s name 0 0) as [s1 [r|f]] eqn:E; [exact H1|].
    pose proof (proj1 (ok_handle_calls s1 f (open_file_handle_ok _ _ _ _ _ _ E))) as H2.
    match goal with |- context [of_read s1 f ?n] => specialize (H2 n); destruct (of_read s1 f n) as [f' r] end.
    cbn [snd] in H2. destruct r; try exact H2; exact I.
  - unfold o_write_file. pose proof (ok_open_file s name (O_WRONLY + O_CREATE + O_TRUNC) p Hinv) as H1.
    destruct (o_open_file s name (O_WRONLY + O_CREATE + O_TRUNC) p) as [s1 [r|f]] eqn:E; [exact H1|].
    pose proof (ok_handle_calls s1 f (open_file_handle_ok _ _ _ _ _ _ E)) as (_ & _ & H2 & _).
    specialize (H2 d). destruct (of_write s1 f d) as [[s2 f2] r]. cbn [snd] in *. destruct r; try exact H2; exact I.
Qed.

(* ---- the world ------------------------------------------------------------------------------------------- *)
Definition handles_ok (w : oworld) : Prop := Forall (handle_ok (o_heap (ow_fs w))) (ow_handles w).

(* the call addresses the one view and an existing handle *)
Definition call_in_range (w : oworld) (c : call) : Prop :=
  match c with
  | CMkdir vi _ _ | CMkdirAll vi _ _ | COpenFile vi _ _ _ | CRemove vi _ | CRemoveAll vi _ | CRename vi _ _
  | CLink vi _ _ | CSymlink vi _ _ | CReadlink vi _ | CTruncate vi _ _ | CChmod vi _ _ | CChown vi _ _ _
  | CLchown vi _ _ _ | CChtimes vi _ | CChdir vi _ | CGetwd vi | CStat vi _ | CLstat vi _ | CEvalSymlinks vi _
  | CReadDir vi _ | CReadFile vi _ | CWriteFile vi _ _ _ | CSub vi _ | CSetUser vi _ _ _ | CSetUMask vi _ => vi = 0
  | FRead hi _ | FReadAt hi _ _ | FWrite hi _ | FWriteAt hi _ _ | FSeek hi _ _ | FTruncate hi _ | FStat hi | FSync hi
  | FChmod hi _ | FChown hi _ _ | FChdir hi | FClose hi | FReadDir hi _ | FReaddirnames hi _ => hi < length (ow_handles w)
  end.

Theorem C07_orefa_total : forall w c,
  orefa_inv (ow_fs w) -> handles_ok w -> call_in_range w c -> res_ok (snd (ostep w c)).
Proof.
  intros w c Hinv Hh Hr. unfold ostep, o_on_view, o_on_handle, olift.
  destruct c; cbn [call_in_range] in Hr; try subst vi;
    try (destruct (nth_error (ow_handles w) hi) as [f|] eqn:Ef; [|apply nth_error_None in Ef; lia];
         assert (Hf : handle_ok (o_heap (ow_fs w)) f) by (apply (proj1 (Forall_forall _ _) Hh); eapply nth_error_In; exact Ef);
         pose proof (ok_handle_calls (ow_fs w) f Hf) as (K1 & K2 & K3 & K4 & K5 & K6 & K7 & K8 & K9 & K10 & K11 & K12 & K13 & K14));
    cbn [snd].
  - apply ok_mkdir; exact Hinv.
  - apply ok_mkdir_all; exact Hinv.
  - pose proof (ok_open_file (ow_fs w) p flag perm Hinv) as H.
    destruct (o_open_file (ow_fs w) p flag perm) as [s1 [r|f]]; [exact H|exact I].
  - apply ok_remove; exact Hinv.
  - apply ok_remove_all; exact Hinv.
  - apply ok_rename; exact Hinv.
  - apply ok_link; exact Hinv.
  - unfold o_symlink. destruct (owin (ow_fs w)); exact I.
  - unfold o_readlink. destruct (owin (ow_fs w)); exact I.
  - apply (ok_simple_calls (ow_fs w) p Hinv).
  - apply (ok_simple_calls (ow_fs w) p Hinv).
  - apply (ok_simple_calls (ow_fs w) p Hinv).
  - apply (ok_simple_calls (ow_fs w) p Hinv).
  - apply (ok_simple_calls (ow_fs w) p Hinv).
  - apply (ok_simple_calls (ow_fs w) p Hinv).
  - exact I.
  - apply (ok_simple_calls (ow_fs w) p Hinv).
  - apply (ok_simple_calls (ow_fs w) p Hinv).
  - exact I.
  - apply (ok_composites (ow_fs w) p Hinv).
  - apply (ok_composites (ow_fs w) p Hinv).
  - apply (ok_composites (ow_fs w) p Hinv).
  - exact I.
  - exact I.
  - exact I.
  - specialize (K1 n). destruct (of_read (ow_fs w) f n). exact K1.
  - apply K2.
  - specialize (K3 b). destruct (of_write (ow_fs w) f b) as [[s1 f1] r]. exact K3.
  - apply K4.
  - specialize (K5 off whence). destruct (of_seek (ow_fs w) f off whence). exact K5.
  - apply K6.
  - exact K7.
  - exact K8.
  - apply K9.
  - apply K10.
  - exact K11.
  - destruct (f_close f). exact K12.
  - specialize (K13 n). destruct (of_read_dir (ow_fs w) f n). exact K13.
  - specialize (K14 n). destruct (of_readdirnames (ow_fs w) f n). exact K14.
Qed.

(* ---- handles stay valid, so the theorem applies along every history ------------------------------------------ *)
Lemma handle_ok_mono h h' f : length h <= length h' -> handle_ok h f -> handle_ok h' f.
Proof. unfold handle_ok. destruct (hd_node f); [lia|auto]. Qed.

Lemma handles_mono h h' l : length h <= length h' -> Forall (handle_ok h) l -> Forall (handle_ok h') l.
Proof. intros Hl H. eapply Forall_impl; [|exact H]. intros f. apply handle_ok_mono. exact Hl. Qed.

Lemma set_nth_forall (A : Type) (P : A -> Prop) (l : list A) : forall i x, Forall P l -> P x -> Forall P (set_nth_ l i x).
Proof.
  induction l as [|y l IH]; intros [|i] x Hl Hx; cbn [set_nth_]; auto; inversion Hl; subst; constructor; auto.
Qed.

Lemma handle_node_kept s f :
  (forall n, hd_node (fst (of_read s f n)) = hd_node f) /\ (forall b, hd_node (snd (fst (of_write s f b))) = hd_node f)
  /\ (forall o wh, hd_node (fst (of_seek s f o wh)) = hd_node f)
  /\ (forall n, hd_node (fst (of_read_dir s f n)) = hd_node f) /\ (forall n, hd_node (fst (of_readdirnames s f n)) = hd_node f).
Proof.
  repeat split; intros.
  - unfold of_read, o_prologue. repeat match goal with |- context [match ?x with _ => _ end] => destruct x eqn:? end; cbn [fst snd hd_node o_set_at o_set_dir]; try reflexivity; try assumption; try congruence.
  - unfold of_write, o_prologue. repeat match goal with |- context [match ?x with _ => _ end] => destruct x eqn:? end; cbn [fst snd hd_node o_set_at o_set_dir]; try reflexivity; try assumption; try congruence.
  - unfold of_seek, o_prologue. repeat match goal with |- context [match ?x with _ => _ end] => destruct x eqn:? end; cbn [fst snd hd_node o_set_at o_set_dir]; try reflexivity; try assumption; try congruence.
  - unfold of_read_dir, o_prologue, o_batch. repeat match goal with |- context [match ?x with _ => _ end] => destruct x eqn:? end; cbn [fst snd hd_node o_set_at o_set_dir]; try reflexivity; try assumption; try congruence.
  - unfold of_readdirnames, o_prologue, o_batch. repeat match goal with |- context [match ?x with _ => _ end] => destruct x eqn:? end; cbn [fst snd hd_node o_set_at o_set_dir]; try reflexivity; try assumption; try congruence.
Qed.

Lemma handles_ok_step w c : handles_ok w -> handles_ok (fst (ostep w c)).
Proof.
  intros Hh. unfold handles_ok in *. unfold ostep, o_on_view, o_on_handle, olift.
  pose proof (len_mono_ns (ow_fs w)) as (L1 & L2 & L3 & L4 & L5 & L6 & L7 & L8 & L9 & L10).
  destruct c; try (destruct vi; [|exact Hh]);
    try (destruct (nth_error (ow_handles w) hi) as [f|] eqn:Ef; [|exact Hh];
         assert (Hf : handle_ok (o_heap (ow_fs w)) f) by (apply (proj1 (Forall_forall _ _) Hh); eapply nth_error_In; exact Ef);
         pose proof (len_handle_calls (ow_fs w) f) as (M1 & M2 & M3 & M4 & M5 & M6);
         pose proof (handle_node_kept (ow_fs w) f) as (N1 & N2 & N3 & N4 & N5));
    cbn [fst ow_fs ow_handles ow_with_fs]; try exact Hh;
    try (eapply handles_mono; [|exact Hh]; auto; fail).
  - pose proof (len_open_file (ow_fs w) p flag perm) as Hl.
    destruct (o_open_file (ow_fs w) p flag perm) as [s1 [r|f]] eqn:E; cbn [fst ow_fs ow_handles ow_with_fs] in *.
    + eapply handles_mono; [exact Hl|exact Hh].
    + apply Forall_app. split; [eapply handles_mono; [exact Hl|exact Hh]|].
      constructor; [|constructor]. eapply open_file_handle_ok. exact E.
  - unfold o_write_file. pose proof (len_open_file (ow_fs w) p (O_WRONLY + O_CREATE + O_TRUNC) perm) as Hl.
    destruct (o_open_file (ow_fs w) p (O_WRONLY + O_CREATE + O_TRUNC) perm) as [s1 [r|f]]; cbn [fst] in *; [exact Hh|].
    pose proof (proj1 (len_handle_calls s1 f) data) as Hl2.
    destruct (of_write s1 f data) as [[s2 f2] r]. cbn [fst] in *.
    assert (Hl3 : length (o_heap (ow_fs w)) <= length (o_heap s2)) by lia.
    destruct r; cbn [fst]; eapply handles_mono; try exact Hh; exact Hl3.
  - specialize (N1 n). destruct (of_read (ow_fs w) f n) as [f' r]. cbn [fst ow_fs ow_handles ow_with_handle] in *.
    apply set_nth_forall; [exact Hh|]. unfold handle_ok in *. rewrite N1. exact Hf.
  - specialize (N2 b). specialize (M1 b). destruct (of_write (ow_fs w) f b) as [[s1 f'] r].
    cbn [fst snd ow_fs ow_handles ow_with_handle ow_with_fs] in *.
    apply set_nth_forall; [eapply handles_mono; [|exact Hh]; lia|]. unfold handle_ok in *. rewrite N2, M1. exact Hf.
  - eapply handles_mono; [|exact Hh]. rewrite M2. lia.
  - specialize (N3 off whence). destruct (of_seek (ow_fs w) f off whence) as [f' r]. cbn [fst ow_fs ow_handles ow_with_handle] in *.
    apply set_nth_forall; [exact Hh|]. unfold handle_ok in *. rewrite N3. exact Hf.
  - eapply handles_mono; [|exact Hh]. rewrite M3. lia.
  - eapply handles_mono; [|exact Hh]. rewrite M4. lia.
  - eapply handles_mono; [|exact Hh]. rewrite M5. lia.
  - eapply handles_mono; [|exact Hh]. rewrite M6. lia.
  - unfold f_close. destruct (hd_node f) eqn:En; cbn [fst ow_fs ow_handles ow_with_handle].
    + apply set_nth_forall; [exact Hh|]. unfold handle_ok. cbn [hd_node]. exact I.
    + apply set_nth_forall; [exact Hh|exact Hf].
  - specialize (N4 n). destruct (of_read_dir (ow_fs w) f n) as [f' r]. cbn [fst ow_fs ow_handles ow_with_handle] in *.
    apply set_nth_forall; [exact Hh|]. unfold handle_ok in *. rewrite N4. exact Hf.
  - specialize (N5 n). destruct (of_readdirnames (ow_fs w) f n) as [f' r]. cbn [fst ow_fs ow_handles ow_with_handle] in *.
    apply set_nth_forall; [exact Hh|]. unfold handle_ok in *. rewrite N5. exact Hf.
Qed.

(* histories in which every call addresses the view and an existing handle *)
Fixpoint run_ok (w : oworld) (cs : list call) : Prop :=
  match cs with
  | [] => True
  | c :: r => call_in_range w c /\ run_ok (fst (ostep w c)) r
  end.

Theorem C07_orefa_run : forall um cs,
  run_ok (o_init_world_linux um) cs -> Forall res_ok (snd (orun (o_init_world_linux um) cs)).
Proof.
  intros um cs.
  assert (H1 : orefa_inv (ow_fs (o_init_world_linux um))) by apply C05_orefa_init.
  assert (H2 : handles_ok (o_init_world_linux um)) by constructor.
  revert H1 H2. generalize (o_init_world_linux um). induction cs as [|c r IH]; intros w Hinv Hh Hrun; cbn [orun].
  - constructor.
  - destruct Hrun as (Hrng & Hrest).
    pose proof (C07_orefa_total w c Hinv Hh Hrng) as Hres.
    pose proof (C05_orefa_step w c Hinv) as Hinv'.
    pose proof (handles_ok_step w c Hh) as Hh'.
    destruct (ostep w c) as [w1 r1]. cbn [fst snd] in *.
    specialize (IH w1 Hinv' Hh' Hrest). destruct (orun w1 r) as [w2 rs]. cbn [snd] in *.
    constructor; assumption.
Qed.
