(* Property C01, the step theorem call by call: on states satisfying the heap hypotheses of the walk
   bridge, for the administrator, on Linux, for calls on clean absolute paths outside the listed
   deviation classes, the implementation model's answer (projected) and resulting file system equal
   the specification's.  Built on WalkBridge / WalkSym. *)
From Avfs Require Import Base PathModel PathSpec PathProofs PathCleanProofs PathIterProofs.
From Avfs Require Import MemFS MemFile World Posix WalkBridge WalkSym WalkBudget WalkReadlink WalkRel DacLemmas.

(* ---- facts about the kernel walk's results ------------------------------------------------------- *)
Lemma kwalk_final : forall f h u root follow cur (work : list str) cnt md K,
  kwalk f h u root false follow cur work cnt md = K ->
  match K with
  | WNode par LNorm name n =>
      alookup str_eqb name (children h par) = Some n /\ node_is_dir h par = true /\ kperm h par 1 u = true
  | WNeg par name _ =>
      alookup str_eqb name (children h par) = None /\ node_is_dir h par = true /\ kperm h par 1 u = true
  | _ => True
  end.
Proof.
  induction f as [|f IH]; intros h u root follow cur work cnt md K HK; subst K; [exact I|].
  rewrite kwalk_S. destruct work as [|c rest]; [exact I|].
  destruct (node_is_dir h cur) eqn:Hd; cbn [negb]; [|exact I].
  destruct (kperm h cur 1 u) eqn:Hp; cbn [negb]; [|exact I]. cbv zeta. cbn [andb].
  destruct (str_eqb c DOTS).
  { destruct (is_nil rest); [exact I|]. apply (IH _ _ _ _ _ _ _ _ _ eq_refl). }
  destruct (str_eqb c DOTDOTS).
  { destruct (is_nil rest); [exact I|]. apply (IH _ _ _ _ _ _ _ _ _ eq_refl). }
  destruct (alookup str_eqb c (children h cur)) as [n|] eqn:Hl.
  2:{ destruct (is_nil rest); [auto|exact I]. }
  destruct (get h n) as [[ch m|dt k i m|t m]|]; [| | |exact I].
  - destruct (is_nil rest); [auto|]. apply (IH _ _ _ _ _ _ _ _ _ eq_refl).
  - destruct (is_nil rest); [destruct md; [exact I|auto]|exact I].
  - destruct (negb (is_nil rest) || follow || md); [|auto].
    destruct (Nat.leb MAXSYMLINKS cnt); [exact I|]. destruct (is_nil t); [exact I|].
    apply (IH _ _ _ _ _ _ _ _ _ eq_refl).
Qed.

(* parent mode and lookup mode on a path whose last component is a proper name *)
Lemma kwalk_pm : forall f h u root follow cur (w : list str) (cl : str) cnt,
  good_comp cl ->
  let K0 := kwalk f h u root false false cur (w ++ [cl]) cnt false in
  K0 <> WErr EFUEL ->
  (forall par kind name n, K0 = WNode par kind name n -> kind = LNorm /\ name = cl) /\
  (forall par name md, K0 = WNeg par name md -> name = cl) /\
  kwalk f h u root true follow cur (w ++ [cl]) cnt false =
    match K0 with
    | WNode par _ _ _ => WParent par LNorm cl false
    | WNeg par _ _ => WParent par LNorm cl false
    | K => K
    end.
Proof.
  induction f as [|f IH]; intros h u root follow cur w cl cnt Hcl K0 Hne; subst K0; [cbn [kwalk] in Hne; congruence|].
  destruct (good_comp_kind _ Hcl) as (K1 & K2).
  revert Hne. rewrite !kwalk_S. destruct w as [|c w]; cbn [app].
  - (* the last component *)
    destruct (node_is_dir h cur); cbn [negb]; [|intros _; repeat split; intros; discriminate].
    destruct (kperm h cur 1 u); cbn [negb]; [|intros _; repeat split; intros; discriminate].
    cbv zeta. cbn [is_nil andb]. rewrite K1, K2.
    destruct (alookup str_eqb cl (children h cur)) as [n|].
    2:{ intros _. split; [intros; discriminate|]. split; [intros ? ? ? [= _ <- _]; reflexivity|reflexivity]. }
    destruct (get h n) as [[ch m|dt k i m|t m]|]; cbn [negb orb]; [| | |congruence].
    all: intros _; split; [intros ? ? ? ? [= _ <- <- _]; auto|]; split; [intros; discriminate|reflexivity].
  - assert (Hnl : is_nil (w ++ [cl]) = false) by (destruct w; reflexivity).
    destruct (node_is_dir h cur); cbn [negb]; [|intros _; repeat split; intros; discriminate].
    destruct (kperm h cur 1 u); cbn [negb]; [|intros _; repeat split; intros; discriminate].
    cbv zeta. rewrite Hnl. cbn [andb negb orb].
    destruct (str_eqb c DOTS); [apply IH; exact Hcl|].
    destruct (str_eqb c DOTDOTS); [apply IH; exact Hcl|].
    destruct (alookup str_eqb c (children h cur)) as [n|]; [|intros _; repeat split; intros; discriminate].
    destruct (get h n) as [[ch m|dt k i m|t m]|]; [| | |congruence].
    + apply IH; exact Hcl.
    + intros _; repeat split; intros; discriminate.
    + destruct (Nat.leb MAXSYMLINKS cnt); [intros _; repeat split; intros; discriminate|].
      destruct (is_nil t); [intros _; repeat split; intros; discriminate|].
      rewrite app_assoc. apply IH; exact Hcl.
Qed.

(* ---- the hypotheses of a step -------------------------------------------------------------------- *)
Record step_hyps (s : fsys) (sv : sview) : Prop := {
  sh_os : v_os (sv_view sv) = Linux;
  sh_admin : us_admin (v_user (sv_view sv)) = true;
  sh_wf : walk_wf (f_heap s);
  sh_lc : links_clean (f_heap s);
  sh_root : node_is_dir (f_heap s) (v_root (sv_view sv)) = true
}.

(* the walk to "/c1/.../cn" is inside the covered domain: proper names, neither model runs out of its fuel
   (WalkBudget.v gives size conditions for that); ELOOP outcomes are covered *)
Definition path_ok (s : fsys) (sv : sview) (slm : slmode) (cs : list str) : Prop :=
  Forall good_comp cs /\
  klookup s sv false (follow_of slm) (abs_path cs) <> WErr EFUEL /\
  sr_err (search_node s (sv_view sv) (abs_path cs) slm) <> EFuel.

Lemma resolve (s : fsys) (sv : sview) (slm : slmode) (cs : list str) :
  step_hyps s sv -> path_ok s sv slm cs ->
  walk_rel (f_heap s) (v_user (sv_view sv)) (v_root (sv_view sv)) (precise_of slm)
    (search_node s (sv_view sv) (abs_path cs) slm) (klookup s sv false (follow_of slm) (abs_path cs)).
Proof.
  intros [Hos Hadm Hwf Hlc Hrd] (Hg & Hk1 & Hnf).
  exact (sym_bridge_lookup s sv slm cs Hos Hwf Hlc Hrd Hg Hk1 Hnf).
Qed.

(* a path - of any form - on which the two walks are related and the implementation model did not run out of fuel;
   [resolved_abs]: clean absolute paths in [path_ok]; WalkRel.v: clean relative paths *)
Definition resolved (s : fsys) (sv : sview) (slm : slmode) (p : str) : Prop :=
  walk_rel (f_heap s) (v_user (sv_view sv)) (v_root (sv_view sv)) (precise_of slm)
    (search_node s (sv_view sv) p slm) (klookup s sv false (follow_of slm) p)
  /\ sr_err (search_node s (sv_view sv) p slm) <> EFuel.

Lemma resolved_abs (s : fsys) (sv : sview) (slm : slmode) (cs : list str) :
  step_hyps s sv -> path_ok s sv slm cs -> resolved s sv slm (abs_path cs).
Proof. intros H Hp. split; [exact (resolve s sv slm cs H Hp)|]. destruct Hp as (_ & _ & Hnf). exact Hnf. Qed.

Lemma werr_cases (e : ekind) (k : N) :
  walk_err_rel e k -> e <> EFuel ->
  (e = ENoSuchDir \/ e = ENotADirectory \/ e = EPermDenied \/ e = ETooManySymlinks) /\ k = snd (ecode Linux e).
Proof. intros [(He & _)|H] Hne; [congruence|exact H]. Qed.

Lemma admin_kperm (s : fsys) (sv : sview) (c : nat) (mask : N) :
  step_hyps s sv -> get (f_heap s) c <> None -> kperm (f_heap s) c mask (v_user (sv_view sv)) = true.
Proof.
  intros H Hg. unfold kperm. destruct (get (f_heap s) c); [|congruence]. rewrite (sh_admin _ _ H). reflexivity.
Qed.

Lemma admin_perm_on (s : fsys) (sv : sview) (c : nat) (perm : N) :
  step_hyps s sv -> get (f_heap s) c <> None -> perm_on (f_heap s) c perm (v_user (sv_view sv)) = true.
Proof.
  intros H Hg. unfold perm_on, check_permission. destruct (get (f_heap s) c); [|congruence].
  rewrite (sh_admin _ _ H). reflexivity.
Qed.

(* ---- what is compared ------------------------------------------------------------------------------- *)
(* the specification reports 0 as the size of a directory (file-system specific, not an observable);
   everything else must be equal *)
Definition spec_info (nd : node) (name : str) : finfo :=
  match nd with
  | NDir _ m => {| fi_name := name; fi_size := 0; fi_mode := m_mode m; fi_uid := m_uid m; fi_gid := m_gid m;
                   fi_nlink := 0; fi_id := 0 |}
  | _ => fill_stat nd name
  end.

Definition stat_sim (a b : pres) : Prop :=
  a = b \/ exists nd name, a = SInfo (fill_stat nd name) /\ b = SInfo (spec_info nd name).

Lemma k_info_spec (h : heap) (n : nat) (nd : node) (name : str) :
  get h n = Some nd -> k_info h n name = spec_info nd name.
Proof. intros H. unfold k_info. rewrite H. destruct nd; reflexivity. Qed.

(* ---- Stat / Lstat ------------------------------------------------------------------------------------- *)
Theorem step_stat_p (s : fsys) (sv : sview) (slm : slmode) (p : str) :
  step_hyps s sv -> resolved s sv slm p ->
  stat_sim (proj_res Linux (stat_gen slm s (sv_view sv) p))
           (k_stat (follow_of slm) s sv p).
Proof.
  intros H (R & Hnf).
  unfold stat_gen, k_stat.
  destruct (klookup s sv false (follow_of slm) p) as [par kind name n|par name md| |e]; cbn [walk_rel] in R.
  - destruct R as (R1 & R2 & R3 & _). rewrite R2, R1. cbn [is_file_exists negb].
    destruct (get (f_heap s) n) as [nd|] eqn:Hg; [|congruence]. right. exists nd, (base (v_os (sv_view sv)) p).
    split; [reflexivity|]. rewrite (k_info_spec _ _ _ _ Hg). reflexivity.
  - destruct R as (R1 & R2 & _). rewrite R2, R1. left. reflexivity.
  - destruct R.
  - destruct R as (R1 & _). destruct (werr_cases _ _ R1 Hnf) as (Hc & ->).
    left. destruct (sr_child _); destruct Hc as [->|[->|[->| ->]]]; reflexivity.
Qed.

Theorem step_stat (s : fsys) (sv : sview) (slm : slmode) (cs : list str) :
  step_hyps s sv -> path_ok s sv slm cs ->
  stat_sim (proj_res Linux (stat_gen slm s (sv_view sv) (abs_path cs)))
           (k_stat (follow_of slm) s sv (abs_path cs)).
Proof. intros H Hp. exact (step_stat_p s sv slm (abs_path cs) H (resolved_abs _ _ _ _ H Hp)). Qed.

(* ---- Readlink ------------------------------------------------------------------------------------------ *)
Theorem step_readlink_p (s : fsys) (sv : sview) (p : str) :
  step_hyps s sv -> resolved s sv SlLstat p ->
  proj_res Linux (readlink s (sv_view sv) p) = k_readlink s sv p.
Proof.
  intros H (R & Hnf).
  unfold readlink, k_readlink. change (follow_of SlLstat) with false in R.
  unfold win. rewrite (sh_os _ _ H). cbn [ostype_eqb].
  destruct (klookup s sv false false p) as [par kind name n|par name md| |e]; cbn [walk_rel] in R.
  - destruct R as (R1 & R2 & R3 & _). rewrite R2, R1. cbn [is_file_exists negb].
    destruct (get (f_heap s) n) as [[ch m|dt k i m|t m]|]; reflexivity.
  - destruct R as (R1 & R2 & _). rewrite R1. reflexivity.
  - destruct R.
  - destruct R as (R1 & _). destruct (werr_cases _ _ R1 Hnf) as (Hc & ->).
    destruct Hc as [->|[->|[->| ->]]]; reflexivity.
Qed.

Theorem step_readlink (s : fsys) (sv : sview) (cs : list str) :
  step_hyps s sv -> path_ok s sv SlLstat cs ->
  proj_res Linux (readlink s (sv_view sv) (abs_path cs)) = k_readlink s sv (abs_path cs).
Proof. intros H Hp. exact (step_readlink_p s sv (abs_path cs) H (resolved_abs _ _ _ _ H Hp)). Qed.

(* ---- Chtimes (the times themselves are not modelled) ---------------------------------------------------- *)
Theorem step_chtimes_p (s : fsys) (sv : sview) (p : str) :
  step_hyps s sv -> resolved s sv SlEval p ->
  proj_res Linux (chtimes s (sv_view sv) p) = k_utimes s sv p.
Proof.
  intros H (R & Hnf).
  unfold chtimes, k_utimes. change (follow_of SlEval) with true in R.
  destruct (klookup s sv false true p) as [par kind name n|par name md| |e]; cbn [walk_rel] in R.
  - destruct R as (R1 & R2 & R3 & _). rewrite R2, R1. cbn [is_file_exists negb].
    unfold owner_or_root, set_mode_ok. rewrite (sh_admin _ _ H). cbn [orb].
    destruct (get (f_heap s) n); [rewrite orb_true_r; reflexivity|congruence].
  - destruct R as (R1 & R2 & _). rewrite R2, R1. reflexivity.
  - destruct R.
  - destruct R as (R1 & _). destruct (werr_cases _ _ R1 Hnf) as (Hc & ->).
    destruct (sr_child _); destruct Hc as [->|[->|[->| ->]]]; reflexivity.
Qed.

Theorem step_chtimes (s : fsys) (sv : sview) (cs : list str) :
  step_hyps s sv -> path_ok s sv SlEval cs ->
  proj_res Linux (chtimes s (sv_view sv) (abs_path cs)) = k_utimes s sv (abs_path cs).
Proof. intros H Hp. exact (step_chtimes_p s sv (abs_path cs) H (resolved_abs _ _ _ _ H Hp)). Qed.

(* ---- a following walk never ends on a symbolic link -------------------------------------------------- *)
Lemma search_follow_nosym (h : heap) (v : view) (slm : slmode) :
  slmode_eqb slm SlLstat = false ->
  forall fuel vol p0 pi sl saved r c,
    node_is_dir h vol = true -> node_is_dir h p0 = true ->
    search_loop fuel h v slm vol p0 pi sl saved = r -> sr_err r = EFileExists -> sr_child r = Some c ->
    forall t m, get h c <> Some (NSym t m).
Proof.
  intros Hslm. induction fuel as [|fuel IH]; intros vol p0 pi sl saved r c Hvd Hpd Hr He Hc t0 m0.
  - subst r. discriminate He.
  - rewrite search_loop_S in Hr. destruct (pi_next (v_os v) pi) as [ok pi1]. cbv zeta in Hr.
    destruct (negb ok).
    { subst r. cbn in Hc. injection Hc as <-. destruct (node_is_dir_get _ _ Hpd) as (ch & m & Hg). congruence. }
    destruct (root_check h v vol p0); [subst r; discriminate Hc|].
    destruct (alookup str_eqb (pi_part pi1) (children h p0)) as [n|]; [|subst r; discriminate Hc].
    destruct (get h n) as [[ch m|dt k i m|t m]|] eqn:Hgn; [| | |subst r; discriminate He].
    + destruct (pi_is_last pi1); [subst r; cbn in Hc; injection Hc as <-; congruence|].
      destruct (check_permission m OpenLookup (v_user v)); [|subst r; discriminate He].
      apply (IH vol n pi1 sl saved r c); auto. unfold node_is_dir. rewrite Hgn. reflexivity.
    + destruct (pi_is_last pi1); subst r; [cbn in Hc; injection Hc as <-; congruence|cbn in He; destruct (v_os v); discriminate He].
    + rewrite Hslm, andb_false_r in Hr. destruct (Nat.ltb slCountMax (S sl)); [subst r; discriminate He|].
      destruct (pi_replace_part (v_os v) pi1 t) as [reset pi2].
      eapply (IH vol (if reset then vol else p0)); eauto. destruct reset; assumption.
Qed.

Lemma resolve_nosym_p (s : fsys) (sv : sview) (slm : slmode) (p : str) (c : nat) :
  step_hyps s sv -> slmode_eqb slm SlLstat = false ->
  sr_err (search_node s (sv_view sv) p slm) = EFileExists ->
  sr_child (search_node s (sv_view sv) p slm) = Some c ->
  forall t m, get (f_heap s) c <> Some (NSym t m).
Proof.
  intros H Hslm He Hc. rewrite (search_node_linux s (sv_view sv) _ slm (sh_os _ _ H)) in He, Hc.
  exact (search_follow_nosym (f_heap s) (sv_view sv) slm Hslm SEARCH_FUEL _ _ _ 0 None _ c
           (sh_root _ _ H) (sh_root _ _ H) eq_refl He Hc).
Qed.

Lemma resolve_nosym (s : fsys) (sv : sview) (slm : slmode) (cs : list str) (c : nat) :
  step_hyps s sv -> slmode_eqb slm SlLstat = false ->
  sr_err (search_node s (sv_view sv) (abs_path cs) slm) = EFileExists ->
  sr_child (search_node s (sv_view sv) (abs_path cs) slm) = Some c ->
  forall t m, get (f_heap s) c <> Some (NSym t m).
Proof. exact (resolve_nosym_p s sv slm (abs_path cs) c). Qed.

(* ---- Chmod --------------------------------------------------------------------------------------------- *)
Theorem step_chmod_p (s : fsys) (sv : sview) (p : str) (mode : N) :
  step_hyps s sv -> resolved s sv SlEval p ->
  (fst (chmod s (sv_view sv) p mode), proj_res Linux (snd (chmod s (sv_view sv) p mode)))
  = k_chmod s sv p mode.
Proof.
  intros H (R & Hnf).
  pose proof (resolve_nosym_p s sv SlEval p) as Hns.
  unfold chmod, k_chmod. change (follow_of SlEval) with true in R.
  destruct (klookup s sv false true p) as [par kind name n|par name md| |e]; cbn [walk_rel] in R.
  - destruct R as (R1 & R2 & R3 & _). specialize (Hns n H eq_refl R1 R2). rewrite R2, R1. cbn [is_file_exists negb].
    unfold owner_or_root, set_mode_ok, chmod_mode. rewrite (sh_admin _ _ H). cbn [orb negb andb].
    destruct (get (f_heap s) n) as [[ch m|dt k i m|t m]|]; try congruence;
      rewrite orb_true_r; reflexivity.
  - destruct R as (R1 & R2 & _). rewrite R2, R1. reflexivity.
  - destruct R.
  - destruct R as (R1 & _). destruct (werr_cases _ _ R1 Hnf) as (Hc & ->).
    destruct (sr_child _); destruct Hc as [->|[->|[->| ->]]]; reflexivity.
Qed.

Theorem step_chmod (s : fsys) (sv : sview) (cs : list str) (mode : N) :
  step_hyps s sv -> path_ok s sv SlEval cs ->
  (fst (chmod s (sv_view sv) (abs_path cs) mode), proj_res Linux (snd (chmod s (sv_view sv) (abs_path cs) mode)))
  = k_chmod s sv (abs_path cs) mode.
Proof. intros H Hp. exact (step_chmod_p s sv (abs_path cs) mode H (resolved_abs _ _ _ _ H Hp)). Qed.

(* ---- Truncate ------------------------------------------------------------------------------------------ *)
Theorem step_truncate_p (s : fsys) (sv : sview) (p : str) (size : Z) :
  step_hyps s sv -> resolved s sv SlEval p ->
  (fst (truncate s (sv_view sv) p size), proj_res Linux (snd (truncate s (sv_view sv) p size)))
  = k_truncate s sv p size.
Proof.
  intros H (R & Hnf).
  unfold truncate, k_truncate, win. rewrite (sh_os _ _ H). cbn [ostype_eqb negb]. rewrite andb_true_r.
  destruct (Z.ltb size 0) eqn:Hsz; [reflexivity|].
  change (follow_of SlEval) with true in R.
  destruct (klookup s sv false true p) as [par kind name n|par name md| |e]; cbn [walk_rel] in R.
  - destruct R as (R1 & R2 & R3 & _). rewrite R2, R1. cbn [is_file_exists negb].
    destruct (get (f_heap s) n) as [[ch m|dt k i m|t m]|] eqn:Hg; [reflexivity| |reflexivity|reflexivity].
    rewrite (admin_kperm s sv n 2 H) by congruence.
    unfold check_permission, drop_privs. rewrite (sh_admin _ _ H). reflexivity.
  - destruct R as (R1 & R2 & _). rewrite R1. reflexivity.
  - destruct R.
  - destruct R as (R1 & _). destruct (werr_cases _ _ R1 Hnf) as (Hc & ->).
    destruct Hc as [->|[->|[->| ->]]]; reflexivity.
Qed.

Theorem step_truncate (s : fsys) (sv : sview) (cs : list str) (size : Z) :
  step_hyps s sv -> path_ok s sv SlEval cs ->
  (fst (truncate s (sv_view sv) (abs_path cs) size), proj_res Linux (snd (truncate s (sv_view sv) (abs_path cs) size)))
  = k_truncate s sv (abs_path cs) size.
Proof. intros H Hp. exact (step_truncate_p s sv (abs_path cs) size H (resolved_abs _ _ _ _ H Hp)). Qed.

(* ---- parent-mode lookups of the specification, on a path ending in a proper name ----------------------- *)
Lemma klookup_pm (s : fsys) (sv : sview) (follow : bool) (w : list str) (cl : str) :
  Forall good_comp (w ++ [cl]) ->
  let K0 := klookup s sv false false (abs_path (w ++ [cl])) in
  K0 <> WErr EFUEL ->
  (forall par kind name n, K0 = WNode par kind name n -> kind = LNorm /\ name = cl) /\
  (forall par name md, K0 = WNeg par name md -> name = cl) /\
  klookup s sv true follow (abs_path (w ++ [cl])) =
    match K0 with
    | WNode par _ _ _ => WParent par LNorm cl false
    | WNeg par _ _ => WParent par LNorm cl false
    | K => K
    end.
Proof.
  intros Hg K0. subst K0. rewrite !(klookup_abs_path s sv _ _ (w ++ [cl]) Hg).
  assert (E : match w ++ [cl] with [] => true | _ => false end = false) by (destruct w; reflexivity).
  rewrite E. apply kwalk_pm. apply Forall_app in Hg as (_ & Hg). inversion Hg; assumption.
Qed.

Lemma klookup_final (s : fsys) (sv : sview) (follow : bool) (cs : list str) :
  Forall good_comp cs ->
  match klookup s sv false follow (abs_path cs) with
  | WNode par LNorm name n =>
      alookup str_eqb name (children (f_heap s) par) = Some n /\ node_is_dir (f_heap s) par = true
      /\ kperm (f_heap s) par 1 (v_user (sv_view sv)) = true
  | WNeg par name _ =>
      alookup str_eqb name (children (f_heap s) par) = None /\ node_is_dir (f_heap s) par = true
      /\ kperm (f_heap s) par 1 (v_user (sv_view sv)) = true
  | _ => True
  end.
Proof.
  intros Hg. rewrite (klookup_abs_path s sv false follow cs Hg).
  apply (kwalk_final WALK_FUEL (f_heap s) _ _ follow _ cs 0 _ _ eq_refl).
Qed.

Lemma mkdir_nonempty (s : fsys) (v : view) (name : str) (perm : N) :
  name <> [] ->
  mkdir s v name perm =
    let r := search_node s v name SlLstat in
    if negb (is_not_exist (sr_err r)) || negb (pi_is_last (sr_pi r)) then (s, RFail (sr_err r))
    else match sr_parent r with
         | None => (s, RFail (sr_err r))
         | Some parent =>
             if negb (perm_on (f_heap s) parent (N.lor OpenWrite OpenLookup) (v_user v)) then (s, RFail EPermDenied)
             else
               let part := pi_part (sr_pi r) in
               match alookup str_eqb part (children (f_heap s) parent) with
               | Some _ => (s, RFail EFileExists)
               | None => (fst (create_dir s v parent part perm), ROk)
               end
         end.
Proof. destruct name; [congruence|reflexivity]. Qed.

Lemma abs_path_nonempty (cs : list str) : abs_path cs <> [].
Proof. discriminate. Qed.

Lemma land_dir_bits (a : N) : N.land (N.land a (511 + MODE_STICKY)) FILE_MODE_MASK = N.land a (511 + MODE_STICKY).
Proof. rewrite <- N.land_assoc. reflexivity. Qed.

(* set-group-id inheritance: createDir / createFile / createSymlink allocate exactly the node inode_init_owner
   prescribes (the group of a set-group-id directory, and the bit itself for a new directory) *)
Lemma land_setgid (x : N) : N.land x MODE_SETGID = if has x MODE_SETGID then MODE_SETGID else 0%N.
Proof.
  unfold has. destruct (N.eqb_spec (N.land x MODE_SETGID) 0) as [E|E]; cbn [negb]; [exact E|].
  apply N.bits_inj. intros k. rewrite N.land_spec. change MODE_SETGID with (2 ^ 22)%N. rewrite N.pow2_bits_eqb.
  destruct (N.eqb_spec 22 k) as [<-|Hk]; [|apply andb_false_r]. rewrite andb_true_r.
  destruct (N.testbit x 22) eqn:Hb; [reflexivity|]. exfalso. apply E. apply N.bits_inj. intros j.
  rewrite N.land_spec, N.bits_0. change MODE_SETGID with (2 ^ 22)%N. rewrite N.pow2_bits_eqb.
  destruct (N.eqb_spec 22 j) as [<-|_]; [rewrite Hb; reflexivity|apply andb_false_r].
Qed.

Lemma create_dir_alloc (s : fsys) (v : view) (par : nat) (name : str) (perm : N) :
  v_os v = Linux ->
  create_dir s v par name perm
  = alloc_child s par name (NDir [] (kmeta (f_heap s) par v MODE_DIR (N.land perm (511 + MODE_STICKY)) true)) false.
Proof.
  intros Hos. unfold create_dir, alloc_child, kmeta, new_dir_meta, new_meta, new_gid, new_owner_gid, is_setgid. rewrite Hos.
  cbn [dir_mode andb m_mode m_uid m_gid]. rewrite land_dir_bits, land_setgid.
  destruct (has (m_mode (meta_of (f_heap s) par)) MODE_SETGID); [rewrite N.lor_assoc|rewrite N.lor_0_r]; reflexivity.
Qed.

Lemma create_file_alloc (s : fsys) (v : view) (par : nat) (name : str) (perm : N) :
  v_os v = Linux ->
  create_file s v par name perm
  = alloc_child s par name (NFile [] 1 (f_last_id s + 1) (kmeta (f_heap s) par v 0 (N.land perm FILE_MODE_MASK) false)) true.
Proof.
  intros Hos. unfold create_file, alloc_child, kmeta, new_meta, new_gid, new_owner_gid, is_setgid. rewrite Hos. reflexivity.
Qed.

Lemma create_symlink_alloc (s : fsys) (v : view) (par : nat) (name t : str) :
  create_symlink s v par name t
  = fst (alloc_child s par name (NSym t {| m_mode := N.lor MODE_SYMLINK 511; m_uid := us_uid (v_user v);
                                           m_gid := new_owner_gid (f_heap s) par (v_user v) |}) false).
Proof. reflexivity. Qed.

(* ---- Mkdir ----------------------------------------------------------------------------------------------- *)
Theorem step_mkdir (s : fsys) (sv : sview) (w : list str) (cl : str) (perm : N) :
  step_hyps s sv -> path_ok s sv SlLstat (w ++ [cl]) ->
  let p := abs_path (w ++ [cl]) in
  (fst (mkdir s (sv_view sv) p perm), proj_res Linux (snd (mkdir s (sv_view sv) p perm))) = k_mkdir s sv p perm.
Proof.
  intros H Hp p. pose proof (resolve s sv SlLstat (w ++ [cl]) H Hp) as R.
  destruct Hp as (Hg & Hk1 & Hnf). change (follow_of SlLstat) with false in R, Hk1. change (precise_of SlLstat) with true in R.
  destruct (klookup_pm s sv false w cl Hg Hk1) as (Hkn & Hkg & Hpm).
  unfold p. rewrite (mkdir_nonempty s (sv_view sv) _ perm (abs_path_nonempty _)). cbv zeta.
  unfold k_mkdir. rewrite Hpm.
  pose proof (klookup_final s sv false (w ++ [cl]) Hg) as Hfin.
  destruct (klookup s sv false false (abs_path (w ++ [cl]))) as [par kind name n|par name md| |e] eqn:HK; cbn [walk_rel] in R.
  - destruct (Hkn _ _ _ _ eq_refl) as (-> & ->). destruct Hfin as (F1 & _). destruct R as (R1 & _).
    rewrite R1, F1. reflexivity.
  - pose proof (Hkg _ _ _ eq_refl) as ->. destruct Hfin as (F1 & F2 & _). destruct R as (R1 & R2 & R3 & R4).
    destruct (at_name_views _ _ _ _ _ _ (R4 eq_refl)) as (V1 & V2 & _).
    rewrite R1, V2, R3, V1, F1. cbn [is_not_exist negb orb].
    rewrite (admin_perm_on s sv par _ H) by (apply node_is_dir_valid; exact F2).
    rewrite (admin_kperm s sv par 3 H) by (apply node_is_dir_valid; exact F2). cbn [negb].
    rewrite create_dir_alloc by exact (sh_os _ _ H). reflexivity.
  - destruct R.
  - destruct R as (R1 & R2). destruct (werr_cases _ _ R1 Hnf) as (Hc & ->).
    destruct Hc as [Hc|[Hc|[Hc|Hc]]]; rewrite Hc in *; try reflexivity.
    rewrite (R2 eq_refl eq_refl). reflexivity.
Qed.

(* ---- Symlink: the implementation stores Clean(target); the specification world is given Clean(target) ----- *)
Theorem step_symlink (s : fsys) (sv : sview) (w : list str) (cl : str) (t : str) :
  step_hyps s sv -> path_ok s sv SlLstat (w ++ [cl]) ->
  let p := abs_path (w ++ [cl]) in
  (fst (symlink s (sv_view sv) t p), proj_res Linux (snd (symlink s (sv_view sv) t p)))
  = k_symlink s sv (clean Linux t) p.
Proof.
  intros H Hp p. pose proof (resolve s sv SlLstat (w ++ [cl]) H Hp) as R.
  destruct Hp as (Hg & Hk1 & Hnf). change (follow_of SlLstat) with false in R, Hk1. change (precise_of SlLstat) with true in R.
  destruct (klookup_pm s sv false w cl Hg Hk1) as (Hkn & Hkg & Hpm).
  unfold p, symlink, k_symlink. rewrite Hpm.
  pose proof (klookup_final s sv false (w ++ [cl]) Hg) as Hfin.
  destruct (clean Linux t) as [|t0 t'] eqn:Et; [exfalso; exact (clean_nonempty t Et)|]. rewrite <- Et. clear Et t0 t'.
  destruct (klookup s sv false false (abs_path (w ++ [cl]))) as [par kind name n|par name md| |e] eqn:HK; cbn [walk_rel] in R.
  - destruct (Hkn _ _ _ _ eq_refl) as (-> & ->). destruct Hfin as (F1 & _). destruct R as (R1 & _).
    rewrite R1, F1. reflexivity.
  - pose proof (Hkg _ _ _ eq_refl) as ->. destruct Hfin as (F1 & F2 & _). destruct R as (R1 & R2 & R3 & R4).
    destruct (at_name_views _ _ _ _ _ _ (R4 eq_refl)) as (V1 & V2 & _).
    rewrite R1, V2, R3, V1, F1. cbn [is_not_exist negb orb].
    rewrite (admin_perm_on s sv par _ H) by (apply node_is_dir_valid; exact F2).
    rewrite (admin_kperm s sv par 3 H) by (apply node_is_dir_valid; exact F2). cbn [negb].
    rewrite create_symlink_alloc, (sh_os _ _ H). reflexivity.
  - destruct R.
  - destruct R as (R1 & R2). destruct (werr_cases _ _ R1 Hnf) as (Hc & ->).
    destruct Hc as [Hc|[Hc|[Hc|Hc]]]; rewrite Hc in *; try reflexivity.
    rewrite (R2 eq_refl eq_refl). reflexivity.
Qed.

(* ---- Remove (os.Remove = unlink, then rmdir) ---------------------------------------------------------------- *)
(* a symbolic link has one name (the implementation never hard-links one; Link on a link is a listed deviation) *)
Definition sym_single (h : heap) : Prop :=
  forall c t m d1 n1 d2 n2, get h c = Some (NSym t m) -> dedge h d1 n1 c -> dedge h d2 n2 c -> d1 = d2 /\ n1 = n2.

Lemma in_aremove (V : Type) (k k' : str) (x : V) (m : list (str * V)) :
  In (k', x) (aremove str_eqb k m) -> k' <> k /\ In (k', x) m.
Proof.
  induction m as [|[k2 v2] m IH]; cbn [aremove In]; [tauto|].
  destruct (str_eqb_spec k k2) as [<-|Hne]; cbn [In].
  - intros Hin. apply IH in Hin. tauto.
  - intros [[= -> ->]|Hin]; [split; [congruence|left; reflexivity]|]. apply IH in Hin. tauto.
Qed.

Lemma get_remove_child (h : heap) (par : nat) (name : str) (c : nat) :
  c <> par -> get (remove_child h par name) c = get h c.
Proof.
  intros Hne. unfold remove_child. destruct (get h par) as [[ch m| |]|]; try reflexivity.
  apply wget_upd_other. congruence.
Qed.

Lemma dedge_remove_child (h : heap) (par : nat) (name : str) (d : nat) (n : str) (c : nat) :
  dedge (remove_child h par name) d n c -> dedge h d n c /\ (d = par -> n <> name).
Proof.
  unfold dedge, children. destruct (Nat.eq_dec d par) as [->|Hne].
  - unfold remove_child. destruct (get h par) as [[ch m| |]|] eqn:Hg; rewrite ?Hg; try tauto.
    rewrite wget_upd_same by (exact (wget_lt _ _ _ Hg)). intros Hin. apply in_aremove in Hin. tauto.
  - rewrite get_remove_child by exact Hne. tauto.
Qed.

Lemma release_single (h : heap) (par : nat) (name : str) (c : nat) :
  sym_single h -> dedge h par name c -> c <> par ->
  release (remove_child h par name) c = delete_node (remove_child h par name) c.
Proof.
  intros Hss He Hne. unfold release. rewrite get_remove_child by exact Hne.
  destruct (get h c) as [[ch m|dt k i m|t m]|] eqn:Hg; try reflexivity.
  destruct (find_parent (remove_child h par name) 0 c) as [p|] eqn:Hf; [|reflexivity]. exfalso.
  apply find_parent_some in Hf as (_ & ch' & m' & n' & Hn' & Hin'). rewrite Nat.sub_0_r in Hn'.
  assert (He' : dedge (remove_child h par name) p n' c) by (unfold dedge, children, get; rewrite Hn'; exact Hin').
  apply dedge_remove_child in He' as (He1 & He2).
  destruct (Hss c t m p n' par name Hg He1 He) as (-> & ->). apply He2; reflexivity.
Qed.

Lemma admin_may_delete (s : fsys) (sv : sview) (par n : nat) (isdir : bool) :
  step_hyps s sv -> get (f_heap s) par <> None ->
  may_delete (f_heap s) par n isdir (v_user (sv_view sv))
  = if isdir then (if node_is_dir (f_heap s) n then None else Some ENOTDIR)
    else (if node_is_dir (f_heap s) n then Some EISDIR else None).
Proof.
  intros H Hg. unfold may_delete. rewrite (admin_kperm s sv par 3 H Hg), (sticky_admin _ _ _ _ (sh_admin _ _ H)).
  reflexivity.
Qed.

Theorem step_remove (s : fsys) (sv : sview) (w : list str) (cl : str) :
  step_hyps s sv -> path_ok s sv SlLstat (w ++ [cl]) -> sym_single (f_heap s) ->
  let p := abs_path (w ++ [cl]) in
  (fst (remove s (sv_view sv) p), proj_res Linux (snd (remove s (sv_view sv) p))) = go_remove s sv p.
Proof.
  intros H Hp Hss p. pose proof (resolve s sv SlLstat (w ++ [cl]) H Hp) as R.
  destruct Hp as (Hg & Hk1 & Hnf). change (follow_of SlLstat) with false in R, Hk1. change (precise_of SlLstat) with true in R.
  destruct (klookup_pm s sv false w cl Hg Hk1) as (Hkn & Hkg & Hpm).
  unfold p, remove, go_remove, k_unlink, k_rmdir. rewrite Hpm.
  pose proof (klookup_final s sv false (w ++ [cl]) Hg) as Hfin.
  destruct (klookup s sv false false (abs_path (w ++ [cl]))) as [par kind name n|par name md| |e] eqn:HK; cbn [walk_rel] in R.
  - destruct (Hkn _ _ _ _ eq_refl) as (-> & ->). destruct Hfin as (F1 & F2 & _).
    destruct R as (R1 & R2 & R3 & _ & _ & R4). destruct (R4 eq_refl) as (R5 & R6).
    destruct (at_name_views _ _ _ _ _ _ (R6 eq_refl)) as (V1 & _).
    assert (Hvp : get (f_heap s) par <> None) by (apply node_is_dir_valid; exact F2).
    assert (Hne : n <> par).
    { intros ->. apply (ww_acyclic _ (sh_wf _ _ H) par). exists par, cl. split; [constructor|].
      apply alookup_in. exact F1. }
    rewrite R2, R5, R1, V1, F1. cbn [is_file_exists negb].
    replace (Nat.eqb par n) with false by (symmetry; apply Nat.eqb_neq; congruence).
    rewrite (admin_perm_on s sv par _ H Hvp), (sticky_admin _ _ _ _ (sh_admin _ _ H)). cbn [negb].
    rewrite !(admin_may_delete s sv par n _ H Hvp).
    destruct (get (f_heap s) n) as [[ch m|dt k i m|t m]|] eqn:Hgn; [| | |congruence].
    + assert (Hnd : node_is_dir (f_heap s) n = true) by (unfold node_is_dir; rewrite Hgn; reflexivity).
      rewrite Hnd. unfold dir_nonempty. rewrite Hgn. destruct ch; reflexivity.
    + assert (Hnd : node_is_dir (f_heap s) n = false) by (unfold node_is_dir; rewrite Hgn; reflexivity).
      rewrite Hnd. rewrite (release_single _ par cl n Hss (alookup_in _ _ _ _ F1) Hne). reflexivity.
    + assert (Hnd : node_is_dir (f_heap s) n = false) by (unfold node_is_dir; rewrite Hgn; reflexivity).
      rewrite Hnd. rewrite (release_single _ par cl n Hss (alookup_in _ _ _ _ F1) Hne). reflexivity.
  - pose proof (Hkg _ _ _ eq_refl) as ->. destruct Hfin as (F1 & _). destruct R as (R1 & R2 & _).
    rewrite R2, R1, F1. reflexivity.
  - destruct R.
  - destruct R as (R1 & _). destruct (werr_cases _ _ R1 Hnf) as (Hc & ->).
    set (r := search_node s (sv_view sv) (abs_path (w ++ [cl])) SlLstat) in *.
    destruct (sr_child r), (sr_parent r); destruct Hc as [Hc|[Hc|[Hc|Hc]]]; rewrite Hc; reflexivity.
Qed.

(* ---- Link (the old name does not denote a symbolic link: Link on a link is a listed deviation) ---------------- *)
Definition not_symlink (s : fsys) (sv : sview) (cs : list str) : Prop :=
  forall par kind name n t m, klookup s sv false false (abs_path cs) = WNode par kind name n ->
                              get (f_heap s) n <> Some (NSym t m).

Theorem step_link (s : fsys) (sv : sview) (co w : list str) (cl : str) :
  step_hyps s sv -> path_ok s sv SlLstat co -> path_ok s sv SlLstat (w ++ [cl]) -> not_symlink s sv co ->
  let o := abs_path co in
  let p := abs_path (w ++ [cl]) in
  (fst (link s (sv_view sv) o p), proj_res Linux (snd (link s (sv_view sv) o p))) = k_link true s sv o p.
Proof.
  intros H Hpo Hp Hns o p.
  pose proof (resolve s sv SlLstat co H Hpo) as Ro. pose proof (resolve s sv SlLstat (w ++ [cl]) H Hp) as R.
  destruct Hpo as (Hgo & _ & Hnfo). destruct Hp as (Hg & Hk1 & Hnf).
  change (follow_of SlLstat) with false in Ro, R, Hk1. change (precise_of SlLstat) with true in Ro, R.
  destruct (klookup_pm s sv false w cl Hg Hk1) as (Hkn & Hkg & Hpm).
  unfold o, p, link, k_link, win. rewrite (sh_os _ _ H). cbn [ostype_eqb]. unfold not_symlink in Hns.
  pose proof (klookup_final s sv false (w ++ [cl]) Hg) as Hfin.
  set (ro := search_node s (sv_view sv) (abs_path co) SlLstat) in *.
  set (rn := search_node s (sv_view sv) (abs_path (w ++ [cl])) SlLstat) in *.
  destruct (klookup s sv false false (abs_path co)) as [opar okind oname oc|opar oname omd| |e] eqn:HKo; cbn [walk_rel] in Ro.
  - destruct Ro as (O1 & O2 & O3 & _). rewrite O2, O1. cbn [is_file_exists negb]. rewrite Hpm.
    pose proof (fun t m => Hns _ _ _ _ t m eq_refl) as Hns'.
    destruct (klookup s sv false false (abs_path (w ++ [cl]))) as [par kind name n|par name md| |e] eqn:HK; cbn [walk_rel] in R.
    + destruct (Hkn _ _ _ _ eq_refl) as (-> & ->). destruct Hfin as (F1 & _). destruct R as (R1 & _).
      rewrite R1, F1. reflexivity.
    + pose proof (Hkg _ _ _ eq_refl) as ->. destruct Hfin as (F1 & F2 & _). destruct R as (R1 & R2 & R3 & R4).
      destruct (at_name_views _ _ _ _ _ _ (R4 eq_refl)) as (V1 & V2 & _).
      rewrite R1, V2, R3, V1, F1. cbn [is_not_exist negb].
      rewrite (admin_perm_on s sv par _ H) by (apply node_is_dir_valid; exact F2).
      rewrite (admin_kperm s sv par 3 H) by (apply node_is_dir_valid; exact F2). cbn [negb].
      rewrite (sh_admin _ _ H). cbn [orb negb andb]. unfold node_is_dir.
      destruct (get (f_heap s) oc) as [[ch m|dt k i m|t m]|] eqn:Hgoc; try reflexivity; [exfalso; exact (Hns' t m eq_refl)|congruence].
    + destruct R.
    + destruct R as (R1 & R2). destruct (werr_cases _ _ R1 Hnf) as (Hc & ->).
      destruct Hc as [Hc|[Hc|[Hc|Hc]]]; rewrite Hc in *; try reflexivity.
      rewrite (R2 eq_refl eq_refl). reflexivity.
  - destruct Ro as (O1 & O2 & _). rewrite O2, O1. reflexivity.
  - destruct Ro.
  - destruct Ro as (O1 & _). destruct (werr_cases _ _ O1 Hnfo) as (Hc & ->).
    destruct (sr_child ro); destruct Hc as [Hc|[Hc|[Hc|Hc]]]; rewrite Hc; reflexivity.
Qed.

(* ---- Chown / Lchown (the node has no set-id bit to lose: "chown clearing set-id bits" is a listed deviation) -------- *)
Lemma ldiff_absent (m b : N) : has m b = false -> N.ldiff m b = m.
Proof.
  unfold has. intros H. apply negb_false_iff, N.eqb_eq in H. apply N.bits_inj. intros n.
  rewrite N.ldiff_spec. assert (Hn : N.testbit (N.land m b) n = false) by (rewrite H; apply N.bits_0).
  rewrite N.land_spec in Hn. destruct (N.testbit m n), (N.testbit b n); cbn in *; congruence.
Qed.

(* Chown / Lchown: the set-id bits of a non-directory are cleared on both sides ([chown_meta] / chown_common) *)
Theorem step_chown (s : fsys) (sv : sview) (slm : slmode) (cs : list str) (uid gid : Z) :
  step_hyps s sv -> path_ok s sv slm cs ->
  (fst (chown_gen slm s (sv_view sv) (abs_path cs) uid gid),
   proj_res Linux (snd (chown_gen slm s (sv_view sv) (abs_path cs) uid gid)))
  = k_chown (follow_of slm) s sv (abs_path cs) uid gid.
Proof.
  intros H Hp. pose proof (resolve s sv slm cs H Hp) as R. destruct Hp as (_ & _ & Hnf).
  unfold chown_gen, k_chown, win in *. rewrite (sh_os _ _ H). cbn [ostype_eqb].
  destruct (klookup s sv false (follow_of slm) (abs_path cs)) as [par kind name n|par name md| |e]; cbn [walk_rel] in R.
  - destruct R as (R1 & R2 & R3 & _). rewrite R2, R1. cbn [is_file_exists negb].
    destruct (get (f_heap s) n) as [nd|] eqn:Hg; [|congruence].
    rewrite (chown_ok_admin _ _ _ _ (sh_admin _ _ H)). cbn [negb]. rewrite andb_false_r.
    destruct nd as [ch m|dt k i m|t m]; reflexivity.
  - destruct R as (R1 & R2 & _). rewrite R2, R1. reflexivity.
  - destruct R.
  - destruct R as (R1 & _). destruct (werr_cases _ _ R1 Hnf) as (Hc & ->).
    destruct (sr_child _); destruct Hc as [->|[->|[->| ->]]]; reflexivity.
Qed.

(* ---- Chdir: both succeed, or both fail with the same errno (the implementation keeps the new working directory as a
        string - by [walk_rel] a link-free path to the node the specification keeps) ------------------------------------ *)
Theorem step_chdir_p (s : fsys) (sv : sview) (p : str) :
  step_hyps s sv -> resolved s sv SlEval p ->
  match chdir s (sv_view sv) p, k_chdir s sv p with
  | inl r, inl e => proj_res Linux r = SErr e
  | inr _, inr _ => True
  | _, _ => False
  end.
Proof.
  intros H (R & Hnf).
  unfold chdir, k_chdir, win. rewrite (sh_os _ _ H). cbn [ostype_eqb]. change (follow_of SlEval) with true in R.
  destruct (klookup s sv false true p) as [par kind name n|par name md| |e]; cbn [walk_rel] in R.
  - destruct R as (R1 & R2 & R3 & _). rewrite R2, R1. cbn [is_file_exists negb]. unfold node_is_dir.
    destruct (get (f_heap s) n) as [[ch m|dt k i m|t m]|] eqn:Hg; cbn [negb]; try reflexivity.
    rewrite (admin_kperm s sv n 1 H) by congruence. unfold check_permission. rewrite (sh_admin _ _ H). exact I.
  - destruct R as (R1 & R2 & _). rewrite R1. reflexivity.
  - destruct R.
  - destruct R as (R1 & _). destruct (werr_cases _ _ R1 Hnf) as (Hc & ->).
    destruct Hc as [->|[->|[->| ->]]]; reflexivity.
Qed.

Theorem step_chdir (s : fsys) (sv : sview) (cs : list str) :
  step_hyps s sv -> path_ok s sv SlEval cs ->
  match chdir s (sv_view sv) (abs_path cs), k_chdir s sv (abs_path cs) with
  | inl r, inl e => proj_res Linux r = SErr e
  | inr _, inr _ => True
  | _, _ => False
  end.
Proof. intros H Hp. exact (step_chdir_p s sv (abs_path cs) H (resolved_abs _ _ _ _ H Hp)). Qed.

(* ---- ReadFile / ReadDir (OpenFile with O_RDONLY, then the handle methods) --------------------------------------- *)
Lemma open_rdonly (s : fsys) (v : view) (vi : nat) (name : str) (perm : N) :
  name <> [] ->
  open_file s v vi name 0 perm =
    let r := search_node s v name SlEval in
    let e := sr_err r in
    if (negb (is_file_exists e) && negb (is_not_exist e)) || negb (pi_is_last (sr_pi r)) then (s, inl (RFail e))
    else if is_not_exist e then (s, inl (RFail e))
    else match sr_child r with
         | Some c =>
             match get (f_heap s) c with
             | Some (NFile d k i m) =>
                 if negb (check_permission m OpenRead (v_user v)) then (s, inl (RFail EPermDenied))
                 else (with_heap s (upd (f_heap s) c (NFile d k i m)), inr (new_handle c vi name 0 OpenRead))
             | Some (NDir _ m) =>
                 if negb (check_permission m OpenRead (v_user v)) then (s, inl (RFail EPermDenied))
                 else (s, inr (new_handle c vi name 0 OpenRead))
             | _ => (s, inr (new_handle c vi name 0 OpenRead))
             end
         | None => (s, inl RPanic)
         end.
Proof.
  intros Hne. unfold open_file. destruct name as [|c0 name']; [congruence|]. set (name := c0 :: name').
  change (to_open_mode 0) with OpenRead.
  change (has OpenRead OpenCreateExcl) with false. change (has OpenRead OpenCreate) with false.
  change (has OpenRead OpenTruncate) with false. change (has OpenRead OpenAppend) with false.
  change (has OpenRead OpenWrite) with false. cbv iota zeta beta. cbn [andb negb orb].
  rewrite andb_false_r. cbv iota. reflexivity.
Qed.

Lemma firstn_whole (A : Type) (l : list A) (n : nat) : length l <= n -> firstn n l = l.
Proof. intros H. apply firstn_all2. exact H. Qed.

Lemma f_read_whole (s1 : fsys) (v : view) (c vi : nat) (name : str) (d : list N) (k : Z) (i : N) (m : meta) :
  name <> [] -> get (f_heap s1) c = Some (NFile d k i m) ->
  snd (f_read s1 v (new_handle c vi name 0 OpenRead) (Z.of_nat (length d) + 512))
  = match d with [] => RBytes 0 [] (Some EG_EOF) | _ => RBytes (Z.of_nat (length d)) d None end.
Proof.
  intros Hn Hg. unfold f_read, file_of. cbn [new_handle hd_name hd_node hd_mode hd_at]. rewrite Hg.
  destruct name as [|c0 name]; [congruence|]. change (has OpenRead OpenRead) with true. cbn [negb].
  change (Z.to_nat 0) with 0. cbn [skipn].
  rewrite firstn_whole by lia. destruct d as [|x d]; [reflexivity|].
  replace (Z.eqb (Z.of_nat (length (x :: d))) 0) with false; [reflexivity|].
  symmetry. apply Z.eqb_neq. cbn [length]. lia.
Qed.

Theorem step_read_file (s : fsys) (sv : sview) (cs : list str) :
  step_hyps s sv -> path_ok s sv SlEval cs ->
  proj_res Linux (read_file s (sv_view sv) (abs_path cs)) = go_read_file s sv (abs_path cs).
Proof.
  intros H Hp. pose proof (resolve s sv SlEval cs H Hp) as R. destruct Hp as (_ & _ & Hnf).
  pose proof (resolve_nosym s sv SlEval cs) as Hns.
  unfold read_file, go_read_file. rewrite (open_rdonly _ _ _ _ _ (abs_path_nonempty cs)). cbv zeta.
  unfold k_open. change (decode_flags 0) with (OF 0 false false false false). cbv iota beta zeta.
  change (negb (N.eqb (N.land (acc_mask 0 false) 2) 0)) with false. change (acc_mask 0 false) with 4%N. cbn [andb negb].
  change (follow_of SlEval) with true in R. change (precise_of SlEval) with true in R.
  destruct (klookup s sv false true (abs_path cs)) as [par kind name n|par name md| |e]; cbn [walk_rel] in R.
  - destruct R as (R1 & R2 & R3 & _ & R4 & _). specialize (Hns n H eq_refl R1 R2).
    rewrite R1, (R4 eq_refl), R2. cbn [is_file_exists is_not_exist negb andb orb].
    destruct (get (f_heap s) n) as [[ch m|dt k i m|t m]|] eqn:Hg; [| |exfalso; exact (Hns t m eq_refl)|congruence].
    + unfold check_permission. rewrite (sh_admin _ _ H), (admin_kperm s sv n _ H) by congruence. cbn [negb andb].
      cbn [new_handle hd_node f_heap]. rewrite Hg. unfold f_read, file_of, new_handle. cbn [hd_name hd_node].
      unfold abs_path at 1. cbv iota. rewrite Hg.
      unfold win. rewrite (sh_os _ _ H). cbn [fst snd]. rewrite ?Hg. reflexivity.
    + unfold check_permission. rewrite (sh_admin _ _ H), (admin_kperm s sv n _ H) by congruence. cbn [negb andb orb].
      cbn [new_handle hd_node with_heap f_heap].
      assert (Hg' : get (upd (f_heap s) n (NFile dt k i m)) n = Some (NFile dt k i m))
        by (apply wget_upd_same; exact (wget_lt _ _ _ Hg)).
      rewrite Hg'.
      pose proof (f_read_whole (with_heap s (upd (f_heap s) n (NFile dt k i m))) (sv_view sv) n 0 (abs_path cs) dt k i m
                    (abs_path_nonempty cs) Hg') as Hr.
      fold (new_handle n 0 (abs_path cs) 0 OpenRead).
      destruct (f_read _ _ _ _) as [f' r']. cbn [snd] in Hr. subst r'. rewrite Hg. destruct dt; reflexivity.
  - destruct R as (R1 & R2 & R3 & R4). destruct (at_name_views _ _ _ _ _ _ (R4 eq_refl)) as (_ & V2 & _).
    rewrite R1, V2. reflexivity.
  - destruct R.
  - destruct R as (R1 & R2). destruct (werr_cases _ _ R1 Hnf) as (Hc & ->).
    destruct Hc as [Hc|[Hc|[Hc|Hc]]]; rewrite Hc in *; try reflexivity.
    rewrite (R2 eq_refl eq_refl). reflexivity.
Qed.

(* ---- ReadDir --------------------------------------------------------------------------------------------------- *)
Definition info_sim (i j : finfo) : Prop := exists nd name, i = fill_stat nd name /\ j = spec_info nd name.

Lemma info_sim_name (i j : finfo) : info_sim i j -> fi_name i = fi_name j.
Proof. intros (nd & name & -> & ->). destruct nd; reflexivity. Qed.

Lemma insert_sorted_sim (x y : finfo) : forall (l1 l2 : list finfo),
  info_sim x y -> Forall2 info_sim l1 l2 ->
  Forall2 info_sim (insert_sorted (@fi_name) x l1) (insert_sorted (@fi_name) y l2).
Proof.
  intros l1 l2 Hxy Hl. induction Hl as [|a b l1 l2 Hab Hl IH]; cbn [insert_sorted].
  - constructor; [exact Hxy|constructor].
  - rewrite (info_sim_name _ _ Hab), (info_sim_name _ _ Hxy).
    destruct (str_ltb (fi_name b) (fi_name y)); constructor; auto; constructor; auto.
Qed.

Lemma sort_by_sim (l1 l2 : list finfo) :
  Forall2 info_sim l1 l2 -> Forall2 info_sim (sort_by (@fi_name) l1) (sort_by (@fi_name) l2).
Proof.
  intros Hl. unfold sort_by. induction Hl as [|a b l1 l2 Hab Hl IH]; cbn [fold_right]; [constructor|].
  apply insert_sorted_sim; assumption.
Qed.

Lemma dir_infos_sim (h : heap) (ch : list (str * nat)) :
  (forall n c, In (n, c) ch -> get h c <> None) ->
  Forall2 info_sim (dir_infos h ch) (sort_by (@fi_name) (map (fun nc => k_info h (snd nc) (fst nc)) ch)).
Proof.
  intros Hv. unfold dir_infos. apply sort_by_sim. induction ch as [|[n c] ch IH]; cbn [flat_map map]; [constructor|].
  destruct (get h c) as [nd|] eqn:Hg; [|exfalso; apply (Hv n c); [left; reflexivity|exact Hg]].
  cbn [app fst snd]. constructor.
  - exists nd, n. split; [reflexivity|]. apply k_info_spec. exact Hg.
  - apply IH. intros n' c' Hin. apply (Hv n' c'). right. exact Hin.
Qed.

Definition obs_sim (a b : pres) : Prop :=
  stat_sim a b \/ exists l1 l2, a = SInfos l1 /\ b = SInfos l2 /\ Forall2 info_sim l1 l2.

Theorem step_read_dir (s : fsys) (sv : sview) (cs : list str) :
  step_hyps s sv -> path_ok s sv SlEval cs -> ptr_valid (f_heap s) ->
  obs_sim (proj_res Linux (read_dir s (sv_view sv) (abs_path cs))) (go_read_dir s sv (abs_path cs)).
Proof.
  intros H Hp Hpv. pose proof (resolve s sv SlEval cs H Hp) as R. destruct Hp as (_ & _ & Hnf).
  pose proof (resolve_nosym s sv SlEval cs) as Hns.
  unfold read_dir, go_read_dir. rewrite (open_rdonly _ _ _ _ _ (abs_path_nonempty cs)). cbv zeta.
  unfold k_open. change (decode_flags 0) with (OF 0 false false false false). cbv iota beta zeta.
  change (negb (N.eqb (N.land (acc_mask 0 false) 2) 0)) with false. change (acc_mask 0 false) with 4%N. cbn [andb negb].
  change (follow_of SlEval) with true in R. change (precise_of SlEval) with true in R.
  destruct (klookup s sv false true (abs_path cs)) as [par kind name n|par name md| |e]; cbn [walk_rel] in R.
  - destruct R as (R1 & R2 & R3 & _ & R4 & _). specialize (Hns n H eq_refl R1 R2).
    rewrite R1, (R4 eq_refl), R2. cbn [is_file_exists is_not_exist negb andb orb].
    destruct (get (f_heap s) n) as [[ch m|dt k i m|t m]|] eqn:Hg; [| |exfalso; exact (Hns t m eq_refl)|congruence].
    + unfold check_permission. rewrite (sh_admin _ _ H), (admin_kperm s sv n _ H) by congruence. cbn [negb andb].
      unfold f_read_dir, dir_read, new_handle. cbn [hd_name hd_node hd_dir_infos]. unfold abs_path at 1. cbv iota. rewrite Hg.
      rewrite dir_batch_all by reflexivity. cbn [orb andb fst snd proj_res]. rewrite ?Hg. right. eexists _, _. split; [reflexivity|]. split; [reflexivity|].
      apply dir_infos_sim. intros n' c' Hin. unfold get. apply nth_error_Some.
      apply (Hpv n n' c'). unfold children. rewrite Hg. exact Hin.
    + unfold check_permission. rewrite (sh_admin _ _ H), (admin_kperm s sv n _ H) by congruence. cbn [negb andb orb].
      assert (Hg' : get (upd (f_heap s) n (NFile dt k i m)) n = Some (NFile dt k i m))
        by (apply wget_upd_same; exact (wget_lt _ _ _ Hg)).
      unfold f_read_dir, dir_read, new_handle. cbn [hd_name hd_node with_heap f_heap]. unfold abs_path at 1. cbv iota.
      rewrite Hg'. cbn [fst snd]. rewrite Hg. left. left. reflexivity.
  - destruct R as (R1 & R2 & R3 & R4). destruct (at_name_views _ _ _ _ _ _ (R4 eq_refl)) as (_ & V2 & _).
    rewrite R1, V2. left. left. reflexivity.
  - destruct R.
  - destruct R as (R1 & R2). destruct (werr_cases _ _ R1 Hnf) as (Hc & ->). left. left.
    destruct Hc as [Hc|[Hc|[Hc|Hc]]]; rewrite Hc in *; try reflexivity.
    rewrite (R2 eq_refl eq_refl). reflexivity.
Qed.

(* ---- WriteFile = OpenFile(O_WRONLY|O_CREATE|O_TRUNC) ; Write ; Close ---------------------------------------------- *)
(* an error of the no-follow walk is an error of the following walk (they differ at the last component only) *)
Lemma kwalk_err_follow : forall f h u root cur (w : list str) (cl : str) cnt e,
  good_comp cl ->
  kwalk f h u root false false cur (w ++ [cl]) cnt false = WErr e ->
  kwalk f h u root false true cur (w ++ [cl]) cnt false = WErr e.
Proof.
  induction f as [|f IH]; intros h u root cur w cl cnt e Hcl HK; [exact HK|].
  destruct (good_comp_kind _ Hcl) as (K1 & K2).
  revert HK. rewrite !kwalk_S. destruct w as [|c w]; cbn [app].
  - destruct (node_is_dir h cur); cbn [negb]; [|auto].
    destruct (kperm h cur 1 u); cbn [negb]; [|auto].
    cbv zeta. cbn [is_nil andb]. rewrite K1, K2.
    destruct (alookup str_eqb cl (children h cur)) as [n|]; [|discriminate].
    destruct (get h n) as [[ch m|dt k i m|t m]|]; cbn [negb orb]; try discriminate. auto.
  - assert (Hnl : is_nil (w ++ [cl]) = false) by (destruct w; reflexivity).
    destruct (node_is_dir h cur); cbn [negb]; [|auto].
    destruct (kperm h cur 1 u); cbn [negb]; [|auto].
    cbv zeta. rewrite Hnl. cbn [andb negb orb].
    destruct (str_eqb c DOTS); [apply IH; exact Hcl|].
    destruct (str_eqb c DOTDOTS); [apply IH; exact Hcl|].
    destruct (alookup str_eqb c (children h cur)) as [n|]; [|auto].
    destruct (get h n) as [[ch m|dt k i m|t m]|]; [apply IH; exact Hcl|auto| |auto].
    destruct (Nat.leb MAXSYMLINKS cnt); [auto|]. destruct (is_nil t); [auto|].
    rewrite app_assoc. apply IH; exact Hcl.
Qed.

Lemma klookup_err_follow (s : fsys) (sv : sview) (w : list str) (cl : str) (e : N) :
  Forall good_comp (w ++ [cl]) ->
  klookup s sv false false (abs_path (w ++ [cl])) = WErr e -> klookup s sv false true (abs_path (w ++ [cl])) = WErr e.
Proof.
  intros Hg. rewrite !(klookup_abs_path s sv _ _ (w ++ [cl]) Hg).
  assert (E : match w ++ [cl] with [] => true | _ => false end = false) by (destruct w; reflexivity).
  rewrite E. apply kwalk_err_follow. apply Forall_app in Hg as (_ & Hg). inversion Hg; assumption.
Qed.

Definition WCT : N := O_WRONLY + O_CREATE + O_TRUNC.

Lemma open_wct (s : fsys) (v : view) (vi : nat) (name : str) (perm : N) :
  name <> [] ->
  open_file s v vi name WCT perm =
    let om := 82%N in
    let r := search_node s v name SlEval in
    let e := sr_err r in
    let h := f_heap s in
    let open_existing (c : nat) : fsys * (res + handle) :=
      match get h c with
      | Some (NFile d k i m) =>
          if negb (check_permission m (N.lor om OpenWrite) (v_user v)) then (s, inl (RFail EPermDenied))
          else (with_heap s (upd h c (NFile [] k i (drop_privs (v_user v) m))), inr (new_handle c vi name 0 om))
      | Some (NDir _ m) => (s, inl (RFail EIsADirectory))
      | _ => (s, inr (new_handle c vi name 0 om))
      end in
    if (negb (is_file_exists e) && negb (is_not_exist e)) || negb (pi_is_last (sr_pi r)) then (s, inl (RFail e))
    else if is_not_exist e then
      match sr_parent r with
      | None => (s, inl (RFail e))
      | Some parent =>
          if negb (perm_on h parent (N.lor OpenWrite OpenLookup) (v_user v)) then (s, inl (RFail EPermDenied))
          else match alookup str_eqb (pi_part (sr_pi r)) (children h parent) with
               | None => let '(s1, c) := create_file s v parent (pi_part (sr_pi r)) perm in
                         (s1, inr (new_handle c vi name 0 om))
               | Some c => open_existing c
               end
      end
    else match sr_child r with
         | Some c => open_existing c
         | None => (s, inl RPanic)
         end.
Proof.
  intros Hne. unfold open_file. destruct name as [|c0 name']; [congruence|]. set (name := c0 :: name').
  change (to_open_mode WCT) with 82%N.
  change (has 82 OpenCreateExcl) with false. change (has 82 OpenCreate) with true.
  change (has 82 OpenTruncate) with true. change (has 82 OpenAppend) with false.
  change (has 82 OpenWrite) with true. cbv iota zeta beta. cbn [andb negb orb].
  rewrite andb_false_r. cbv iota. reflexivity.
Qed.

Lemma get_alloc_new (h : heap) (par : nat) (name : str) (x : node) (ch : list (str * nat)) (m : meta) :
  get h par = Some (NDir ch m) -> get (add_child (h ++ [x]) par name (length h)) (length h) = Some x.
Proof.
  intros Hp. pose proof (wget_lt _ _ _ Hp) as Hlt. unfold add_child.
  rewrite (wget_app_old h x par Hlt), Hp, wget_upd_other by lia. apply wget_app_new.
Qed.

Lemma write_at_empty (b : list N) : write_at_data [] (Z.to_nat 0) b = b.
Proof. unfold write_at_data. destruct b; cbn; rewrite ?app_nil_r; reflexivity. Qed.

Lemma f_write_fresh (s1 : fsys) (v : view) (c vi : nat) (name : str) (b : list N) (k : Z) (i : N) (m : meta) :
  name <> [] -> get (f_heap s1) c = Some (NFile [] k i m) -> us_admin (v_user v) = true ->
  fst (fst (f_write s1 v (new_handle c vi name 0 82) b)) = with_heap s1 (upd (f_heap s1) c (NFile b k i m))
  /\ snd (f_write s1 v (new_handle c vi name 0 82) b) = RInt (Z.of_nat (length b)).
Proof.
  intros Hn Hg Hadm. unfold f_write, file_of, drop_privs. rewrite Hadm. cbn [new_handle hd_name hd_node hd_mode hd_at]. rewrite Hg.
  destruct name as [|c0 name]; [congruence|]. change (has 82 OpenWrite) with true. change (has 82 OpenAppend) with false.
  cbn [negb]. cbv iota. destruct b as [|b0 b'].
  - (* zero bytes: nothing is written; the heap the statement names is the same heap *)
    cbn [fst snd length Z.of_nat]. split; [|reflexivity].
    assert (Hupd : forall (h : heap) (i0 : nat) (x : node), get h i0 = Some x -> upd h i0 x = h).
    { unfold get. induction h as [|y h IHh]; intros [|i0] x Hx; cbn in *; try congruence. f_equal. now apply IHh. }
    rewrite (Hupd _ _ _ Hg). now destruct s1.
  - rewrite write_at_empty. split; reflexivity.
Qed.

Lemma kwalk_not_parent : forall f h u root follow cur (work : list str) cnt md a b c d,
  kwalk f h u root false follow cur work cnt md <> WParent a b c d.
Proof.
  induction f as [|f IH]; intros h u root follow cur work cnt md a b c d; [discriminate|].
  rewrite kwalk_S. destruct work as [|c0 rest]; [discriminate|].
  destruct (negb (node_is_dir h cur)); [discriminate|]. destruct (negb (kperm h cur 1 u)); [discriminate|].
  cbv zeta. cbn [andb].
  destruct (str_eqb c0 DOTS); [destruct (is_nil rest); [discriminate|apply IH]|].
  destruct (str_eqb c0 DOTDOTS); [destruct (is_nil rest); [discriminate|apply IH]|].
  destruct (alookup str_eqb c0 (children h cur)) as [n|]; [|destruct (is_nil rest); discriminate].
  destruct (get h n) as [[ch m|dt k i m|t m]|]; [| | |discriminate].
  - destruct (is_nil rest); [discriminate|apply IH].
  - destruct (is_nil rest); [destruct md; discriminate|discriminate].
  - destruct (negb (is_nil rest) || follow || md); [|discriminate].
    destruct (Nat.leb MAXSYMLINKS cnt); [discriminate|]. destruct (is_nil t); [discriminate|apply IH].
Qed.

Lemma klookup_not_parent (s : fsys) (sv : sview) (follow : bool) (p : str) a b c d :
  klookup s sv false follow p <> WParent a b c d.
Proof. unfold klookup. destruct p; [discriminate|]. apply kwalk_not_parent. Qed.

Lemma write_file_ok (s s1 : fsys) (v : view) (name : str) (data : list N) (perm : N) (c : nat) (k : Z) (i : N) (m : meta) :
  name <> [] -> get (f_heap s1) c = Some (NFile [] k i m) -> us_admin (v_user v) = true ->
  (let '(s2, _, r) := f_write s1 v (new_handle c 0 name 0 82) data in
   match r with RInt _ => (s2, ROk) | _ => (s2, r) end)
  = (with_heap s1 (upd (f_heap s1) c (NFile data k i m)), ROk).
Proof.
  intros Hn Hg Hadm. destruct (f_write_fresh s1 v c 0 name data k i m Hn Hg Hadm) as (E1 & E2).
  destruct (f_write s1 v (new_handle c 0 name 0 82) data) as [[s2 f'] r]. cbn [fst snd] in E1, E2. subst. reflexivity.
Qed.

Lemma drop_privs_admin (u : user) (m : meta) : us_admin u = true -> drop_privs u m = m.
Proof. intros H. unfold drop_privs. rewrite H. reflexivity. Qed.

Section WriteFile.
  Variables (s : fsys) (sv : sview) (w : list str) (cl : str) (data : list N) (perm : N).
  Hypothesis H : step_hyps s sv.
  Hypothesis Hp0 : path_ok s sv SlLstat (w ++ [cl]).
  Hypothesis Hp : path_ok s sv SlEval (w ++ [cl]).
  Notation p := (abs_path (w ++ [cl])).
  Notation v := (sv_view sv).

  (* the open(2) part of the specification, once the parent-mode lookup is known *)
  Lemma write_file_main (Kpm : wres) :
    klookup s sv true false p = Kpm ->
    (Kpm = klookup s sv false true p /\ exists e, Kpm = WErr e) \/ (exists par0, Kpm = WParent par0 LNorm cl false) ->
    (fst (write_file s v p data perm), proj_res Linux (snd (write_file s v p data perm))) = go_write_file s sv p data perm.
  Proof.
    intros Hpm Hcase. pose proof (resolve s sv SlEval (w ++ [cl]) H Hp) as R.
    pose proof (resolve_nosym s sv SlEval (w ++ [cl])) as Hns.
    destruct Hp0 as (Hg & _). destruct Hp as (_ & Hk1 & Hnf).
    change (follow_of SlEval) with true in R, Hk1. change (precise_of SlEval) with true in R.
    pose proof (klookup_final s sv true (w ++ [cl]) Hg) as Hfin.
    pose proof (sh_admin _ _ H) as Hadm.
    unfold write_file, go_write_file. rewrite (open_wct _ _ _ _ _ (abs_path_nonempty _)). cbv zeta.
    unfold k_open. change (decode_flags (O_WRONLY + O_CREATE + O_TRUNC)) with (OF 1 true false true false).
    cbv iota beta zeta. change (negb (N.eqb (N.land (acc_mask 1 true) 2) 0)) with true.
    change (acc_mask 1 true) with 2%N. cbn [andb negb orb]. rewrite Hpm.
    set (r := search_node s v p SlEval) in *.
    destruct Hcase as [(E1 & e0 & E2)|(par0 & ->)].
    { (* the walk to the parent fails: so does the following walk, with the same errno *)
      rewrite <- E1, E2 in R. rewrite E2. cbn [walk_rel] in R. destruct R as (R1 & R2).
      destruct (werr_cases _ _ R1 Hnf) as (Hc & ->).
      destruct Hc as [Hc|[Hc|[Hc|Hc]]]; rewrite Hc in *; try reflexivity.
      rewrite (R2 eq_refl eq_refl). reflexivity. }
    cbv iota.
    destruct (klookup s sv false true p) as [par kind name n|par name md|a b c d|e] eqn:HK1; cbn [walk_rel] in R.
    - (* the last component exists *)
      destruct R as (R1 & R2 & R3 & _ & R4 & _). specialize (Hns n H eq_refl R1 R2).
      rewrite R1, (R4 eq_refl), R2. cbn [is_file_exists is_not_exist negb andb orb].
      destruct (get (f_heap s) n) as [[ch m|dt k i m|t m]|] eqn:Hgn;
        [reflexivity| |exfalso; exact (Hns t m eq_refl)|congruence].
      unfold check_permission. rewrite Hadm, (admin_kperm s sv n _ H) by congruence. cbn [negb andb orb].
      rewrite (drop_privs_admin _ _ Hadm).
      assert (Hg' : get (f_heap (with_heap s (upd (f_heap s) n (NFile [] k i m)))) n = Some (NFile [] k i m))
        by (cbn [with_heap f_heap]; apply wget_upd_same; exact (wget_lt _ _ _ Hgn)).
      rewrite (write_file_ok s _ v _ data perm n k i m (abs_path_nonempty _) Hg' Hadm).
      rewrite Hg', (drop_privs_admin _ _ Hadm). destruct data; reflexivity.
    - (* the last component is missing: create *)
      destruct Hfin as (F1 & F2 & _). destruct R as (R1 & R2 & R3 & R4).
      destruct (at_name_views _ _ _ _ _ _ (R4 eq_refl)) as (V1 & V2 & _).
      rewrite R1, V2, R3, V1, F1. cbn [is_file_exists is_not_exist negb andb orb].
      rewrite (admin_perm_on s sv par _ H) by (apply node_is_dir_valid; exact F2).
      rewrite (admin_kperm s sv par 3 H) by (apply node_is_dir_valid; exact F2). cbn [negb].
      destruct (node_is_dir_get _ _ F2) as (chp & mp & Hgp).
      rewrite create_file_alloc by exact (sh_os _ _ H). unfold alloc_child. cbv iota beta.
      set (x := NFile [] 1 (f_last_id s + 1) (kmeta (f_heap s) par v 0 (N.land perm FILE_MODE_MASK) false)).
      pose proof (get_alloc_new (f_heap s) par name x chp mp Hgp) as Hnew.
      set (s1 := {| f_heap := add_child (f_heap s ++ [x]) par name (length (f_heap s));
                    f_last_id := (f_last_id s + 1)%N; f_vols := f_vols s |}) in *.
      change (get (f_heap s1) (length (f_heap s)) = Some x) in Hnew. unfold x in Hnew.
      rewrite (write_file_ok s s1 v _ data perm (length (f_heap s)) 1 _ _ (abs_path_nonempty _) Hnew Hadm).
      rewrite Hnew, (drop_privs_admin _ _ Hadm). destruct data; reflexivity.
    - destruct R.
    - destruct R as (R1 & R2). destruct (werr_cases _ _ R1 Hnf) as (Hc & ->).
      destruct Hc as [Hc|[Hc|[Hc|Hc]]]; rewrite Hc in *; try reflexivity.
      rewrite (R2 eq_refl eq_refl). reflexivity.
  Qed.

  Theorem step_write_file :
    (fst (write_file s v p data perm), proj_res Linux (snd (write_file s v p data perm))) = go_write_file s sv p data perm.
  Proof.
    destruct Hp0 as (Hg & Hk0 & _). change (follow_of SlLstat) with false in Hk0.
    destruct (klookup_pm s sv false w cl Hg Hk0) as (_ & _ & Hpm).
    apply (write_file_main _ Hpm).
    destruct (klookup s sv false false p) as [par0 k0 n0 c0|par0 n0 md0|a b c d|e0] eqn:HK0.
    - right. eauto.
    - right. eauto.
    - exfalso. exact (klookup_not_parent _ _ _ _ _ _ _ _ HK0).
    - left. split; [symmetry; exact (klookup_err_follow s sv w cl e0 Hg HK0)|eauto].
  Qed.
End WriteFile.

(* ---- Rename of a non-directory to a name that does not exist --------------------------------------------------------- *)
Lemma upd_upd_same (h : heap) (i : nat) (a b : node) : upd (upd h i a) i b = upd h i b.
Proof. revert i. induction h as [|x h IH]; intros [|i]; cbn [upd]; try reflexivity. rewrite IH. reflexivity. Qed.

Lemma upd_comm (h : heap) (i j : nat) (a b : node) : i <> j -> upd (upd h i a) j b = upd (upd h j b) i a.
Proof.
  revert i j. induction h as [|x h IH]; intros [|i] [|j] Hne; cbn [upd]; try reflexivity; try congruence.
  rewrite IH by congruence. reflexivity.
Qed.

Lemma aremove_aset_comm (V : Type) (k k2 : str) (x : V) (m : list (str * V)) :
  k2 <> k -> aremove str_eqb k (aset str_eqb k2 x m) = aset str_eqb k2 x (aremove str_eqb k m).
Proof.
  intros Hne. assert (Hkk : str_eqb k k2 = false) by (apply str_eqb_neq; congruence).
  induction m as [|[k' v'] m IH]; cbn [aset aremove].
  - rewrite Hkk. reflexivity.
  - destruct (str_eqb_spec k2 k') as [<-|H2]; cbn [aremove aset].
    + rewrite Hkk. cbn [aset]. rewrite str_eqb_refl. reflexivity.
    + destruct (str_eqb k k') eqn:Ek; cbn [aset].
      * exact IH.
      * apply str_eqb_neq in H2. rewrite H2. rewrite IH. reflexivity.
Qed.

Lemma move_commute (h : heap) (op np oc : nat) (oname nname : str) cho mo chn mn :
  get h op = Some (NDir cho mo) -> get h np = Some (NDir chn mn) -> (op = np -> nname <> oname) ->
  remove_child (add_child h np nname oc) op oname = add_child (remove_child h op oname) np nname oc.
Proof.
  intros Ho Hn Hne. pose proof (wget_lt _ _ _ Ho) as Lo. pose proof (wget_lt _ _ _ Hn) as Ln.
  destruct (Nat.eq_dec op np) as [E|E].
  - subst np. rewrite Ho in Hn. injection Hn as <- <-.
    unfold add_child, remove_child. rewrite Ho.
    rewrite !wget_upd_same by assumption. rewrite !upd_upd_same.
    rewrite aremove_aset_comm by (apply Hne; reflexivity). reflexivity.
  - unfold add_child at 1. rewrite Hn. unfold remove_child at 1. rewrite wget_upd_other by congruence. rewrite Ho.
    unfold remove_child. rewrite Ho. unfold add_child. rewrite wget_upd_other by congruence. rewrite Hn.
    apply upd_comm. congruence.
Qed.

Definition source_not_dir (s : fsys) (sv : sview) (cs : list str) : Prop :=
  forall par kind name n, klookup s sv false false (abs_path cs) = WNode par kind name n ->
                          node_is_dir (f_heap s) n = false.

Theorem step_rename_new (s : fsys) (sv : sview) (wo : list str) (clo : str) (wn : list str) (cln : str) (np : nat) (md : bool) :
  step_hyps s sv -> path_ok s sv SlLstat (wo ++ [clo]) -> path_ok s sv SlLstat (wn ++ [cln]) ->
  source_not_dir s sv (wo ++ [clo]) ->
  klookup s sv false false (abs_path (wn ++ [cln])) = WNeg np cln md ->
  let o := abs_path (wo ++ [clo]) in
  let n := abs_path (wn ++ [cln]) in
  (fst (rename s (sv_view sv) o n), proj_res Linux (snd (rename s (sv_view sv) o n))) = go_rename s sv o n.
Proof.
  intros H Hpo Hpn Hnd HKn o n.
  pose proof (resolve s sv SlLstat (wo ++ [clo]) H Hpo) as Ro. pose proof (resolve s sv SlLstat (wn ++ [cln]) H Hpn) as Rn.
  destruct Hpo as (Hgo & Hko & Hnfo). destruct Hpn as (Hgn & Hkn & Hnfn).
  change (follow_of SlLstat) with false in Ro, Rn, Hko, Hkn. change (precise_of SlLstat) with true in Ro, Rn.
  destruct (klookup_pm s sv false wo clo Hgo Hko) as (Hono & Hong & Hpmo).
  destruct (klookup_pm s sv false wn cln Hgn Hkn) as (_ & _ & Hpmn).
  pose proof (klookup_final s sv false (wo ++ [clo]) Hgo) as Fo.
  pose proof (klookup_final s sv false (wn ++ [cln]) Hgn) as Fn.
  rewrite HKn in Rn, Hpmn, Fn. cbn [walk_rel] in Rn. destruct Fn as (Fn1 & Fn2 & _).
  destruct Rn as (N1 & N2 & N3 & N4). destruct (at_name_views _ _ _ _ _ _ (N4 eq_refl)) as (NV1 & NV2 & dn & NP & NW & NG).
  unfold o, n, rename, go_rename, k_rename. unfold k_stat at 1. rewrite HKn, Hpmo, Hpmn. cbv beta iota zeta.
  set (ro := search_node s (sv_view sv) (abs_path (wo ++ [clo])) SlLstat) in *.
  set (rn := search_node s (sv_view sv) (abs_path (wn ++ [cln])) SlLstat) in *.
  unfold source_not_dir in Hnd.
  destruct (klookup s sv false false (abs_path (wo ++ [clo]))) as [op okind oname oc|op oname omd|a b c d|e] eqn:HKo;
    cbn [walk_rel] in Ro.
  - destruct (Hono _ _ _ _ eq_refl) as (-> & ->). destruct Fo as (Fo1 & Fo2 & _).
    destruct Ro as (O1 & O2 & O3 & _ & _ & O4). destruct (O4 eq_refl) as (O5 & O6).
    destruct (at_name_views _ _ _ _ _ _ (O6 eq_refl)) as (OV1 & _ & do & OP & OW & OG).
    specialize (Hnd _ _ _ _ eq_refl).
    assert (Hvo : get (f_heap s) op <> None) by (apply node_is_dir_valid; exact Fo2).
    assert (Hvn : get (f_heap s) np <> None) by (apply node_is_dir_valid; exact Fn2).
    rewrite O1, N1, NV2, O5, O2, N3, OV1, NV1, N2. cbn [is_file_exists is_not_exist negb andb orb].
    rewrite !(admin_perm_on s sv _ _ H) by assumption. rewrite !(sticky_admin _ _ _ _ (sh_admin _ _ H)).
    cbn [negb andb]. rewrite !andb_false_r.
    (* the two resolved paths differ *)
    assert (Hdiff : str_eqb (pi_path (sr_pi ro)) (pi_path (sr_pi rn)) = false).
    { apply str_eqb_neq. rewrite OP, NP. intros E.
      apply abs_path_inj in E; [|apply Forall_comp_ok_of; exact OG|apply Forall_comp_ok_of; exact NG].
      apply app_inj_tail in E as (-> & ->). rewrite OW in NW. injection NW as ->. congruence. }
    rewrite Hdiff. cbn [orb]. rewrite Fo1, Fn1. rewrite Hnd. cbn [negb andb].
    rewrite !(admin_may_delete s sv _ _ _ H) by assumption. rewrite Hnd.
    rewrite (admin_kperm s sv np 3 H) by assumption.
    destruct (node_is_dir_get _ _ Fo2) as (cho & mo & Hgo'). destruct (node_is_dir_get _ _ Fn2) as (chn & mn & Hgn').
    assert (Hmove : remove_child (add_child (f_heap s) np cln oc) op clo
                    = add_child (remove_child (f_heap s) op clo) np cln oc).
    { apply (move_commute _ _ _ _ _ _ cho mo chn mn Hgo' Hgn'). intros -> ->. congruence. }
    unfold node_is_dir in Hnd.
    destruct (get (f_heap s) oc) as [[ch m|dt k i m|t m]|] eqn:Hgoc; try discriminate Hnd; try congruence;
      rewrite Hmove; reflexivity.
  - pose proof (Hong _ _ _ eq_refl) as ->. destruct Fo as (Fo1 & _). destruct Ro as (O1 & _). rewrite O1, Fo1. reflexivity.
  - destruct Ro.
  - destruct Ro as (O1 & _). destruct (werr_cases _ _ O1 Hnfo) as (Hc & ->).
    destruct Hc as [Hc|[Hc|[Hc|Hc]]]; rewrite Hc; reflexivity.
Qed.

(* ---- OpenFile as a call of its own (the handle is closed at once on the specification side) ---------------------------- *)
Lemma upd_same (h : heap) (i : nat) (x : node) : get h i = Some x -> upd h i x = h.
Proof.
  unfold get. revert i. induction h as [|y h IH]; intros [|i] Hg; cbn [upd nth_error] in *; try discriminate.
  - injection Hg as ->. reflexivity.
  - rewrite IH by exact Hg. reflexivity.
Qed.

Lemma with_heap_same (s : fsys) : with_heap s (f_heap s) = s.
Proof. destruct s; reflexivity. Qed.

(* same resulting file system; same errno, or the handle is on the node open(2) returns *)
Definition open_sim (a : fsys * (res + handle)) (b : fsys * (N + nat)) : Prop :=
  fst a = fst b /\
  match snd a, snd b with
  | inl r, inl e => exists ek, r = RFail ek /\ snd (ecode Linux ek) = e
  | inr f, inr c => hd_node f = Some c
  | _, _ => False
  end.

Ltac osim := split; [reflexivity|first [reflexivity | eexists; osim]].

Theorem step_open_rdonly (s : fsys) (sv : sview) (vi : nat) (cs : list str) (perm : N) :
  step_hyps s sv -> path_ok s sv SlEval cs ->
  open_sim (open_file s (sv_view sv) vi (abs_path cs) 0 perm) (k_open s sv (abs_path cs) 0 perm).
Proof.
  intros H Hp. pose proof (resolve s sv SlEval cs H Hp) as R. destruct Hp as (_ & _ & Hnf).
  pose proof (resolve_nosym s sv SlEval cs) as Hns.
  rewrite (open_rdonly _ _ _ _ _ (abs_path_nonempty cs)). cbv zeta.
  unfold k_open. change (decode_flags 0) with (OF 0 false false false false). cbv iota beta zeta.
  change (negb (N.eqb (N.land (acc_mask 0 false) 2) 0)) with false. change (acc_mask 0 false) with 4%N. cbn [andb negb].
  change (follow_of SlEval) with true in R. change (precise_of SlEval) with true in R.
  destruct (klookup s sv false true (abs_path cs)) as [par kind name n|par name md| |e]; cbn [walk_rel] in R.
  - destruct R as (R1 & R2 & R3 & _ & R4 & _). specialize (Hns n H eq_refl R1 R2).
    rewrite R1, (R4 eq_refl), R2. cbn [is_file_exists is_not_exist negb andb orb].
    destruct (get (f_heap s) n) as [[ch m|dt k i m|t m]|] eqn:Hg; [| |exfalso; exact (Hns t m eq_refl)|congruence].
    + unfold check_permission. rewrite (sh_admin _ _ H), (admin_kperm s sv n _ H) by congruence. cbn [negb andb].
      osim.
    + unfold check_permission. rewrite (sh_admin _ _ H), (admin_kperm s sv n _ H) by congruence. cbn [negb andb orb].
      rewrite (upd_same _ _ _ Hg), with_heap_same. osim.
  - destruct R as (R1 & R2 & R3 & R4). destruct (at_name_views _ _ _ _ _ _ (R4 eq_refl)) as (_ & V2 & _).
    rewrite R1, V2. osim.
  - destruct R.
  - destruct R as (R1 & R2). destruct (werr_cases _ _ R1 Hnf) as (Hc & ->).
    destruct Hc as [Hc|[Hc|[Hc|Hc]]]; rewrite Hc in *; try osim.
    rewrite (R2 eq_refl eq_refl). osim.
Qed.

Section OpenWct.
  Variables (s : fsys) (sv : sview) (vi : nat) (w : list str) (cl : str) (perm : N).
  Hypothesis H : step_hyps s sv.
  Hypothesis Hp0 : path_ok s sv SlLstat (w ++ [cl]).
  Hypothesis Hp : path_ok s sv SlEval (w ++ [cl]).
  Notation p := (abs_path (w ++ [cl])).
  Notation v := (sv_view sv).

  Lemma open_wct_main (Kpm : wres) :
    klookup s sv true false p = Kpm ->
    (Kpm = klookup s sv false true p /\ exists e, Kpm = WErr e) \/ (exists par0, Kpm = WParent par0 LNorm cl false) ->
    open_sim (open_file s v vi p WCT perm) (k_open s sv p WCT perm).
  Proof.
    intros Hpm Hcase. pose proof (resolve s sv SlEval (w ++ [cl]) H Hp) as R.
    pose proof (resolve_nosym s sv SlEval (w ++ [cl])) as Hns.
    destruct Hp0 as (Hg & _). destruct Hp as (_ & Hk1 & Hnf).
    change (follow_of SlEval) with true in R, Hk1. change (precise_of SlEval) with true in R.
    pose proof (klookup_final s sv true (w ++ [cl]) Hg) as Hfin.
    pose proof (sh_admin _ _ H) as Hadm.
    rewrite (open_wct _ _ _ _ _ (abs_path_nonempty _)). cbv zeta.
    unfold k_open. change (decode_flags WCT) with (OF 1 true false true false).
    cbv iota beta zeta. change (negb (N.eqb (N.land (acc_mask 1 true) 2) 0)) with true.
    change (acc_mask 1 true) with 2%N. cbn [andb negb orb]. rewrite Hpm.
    set (r := search_node s v p SlEval) in *.
    destruct Hcase as [(E1 & e0 & E2)|(par0 & ->)].
    { rewrite <- E1, E2 in R. rewrite E2. cbn [walk_rel] in R. destruct R as (R1 & R2).
      destruct (werr_cases _ _ R1 Hnf) as (Hc & ->).
      destruct Hc as [Hc|[Hc|[Hc|Hc]]]; rewrite Hc in *; try osim.
      rewrite (R2 eq_refl eq_refl). osim. }
    cbv iota.
    destruct (klookup s sv false true p) as [par kind name n|par name md|a b c d|e] eqn:HK1; cbn [walk_rel] in R.
    - destruct R as (R1 & R2 & R3 & _ & R4 & _). specialize (Hns n H eq_refl R1 R2).
      rewrite R1, (R4 eq_refl), R2. cbn [is_file_exists is_not_exist negb andb orb].
      destruct (get (f_heap s) n) as [[ch m|dt k i m|t m]|] eqn:Hgn;
        [osim| |exfalso; exact (Hns t m eq_refl)|congruence].
      unfold check_permission. rewrite Hadm, (admin_kperm s sv n _ H) by congruence. cbn [negb andb orb].
      rewrite (drop_privs_admin _ _ Hadm). osim.
    - destruct Hfin as (F1 & F2 & _). destruct R as (R1 & R2 & R3 & R4).
      destruct (at_name_views _ _ _ _ _ _ (R4 eq_refl)) as (V1 & V2 & _).
      rewrite R1, V2, R3, V1, F1. cbn [is_file_exists is_not_exist negb andb orb].
      rewrite (admin_perm_on s sv par _ H) by (apply node_is_dir_valid; exact F2).
      rewrite (admin_kperm s sv par 3 H) by (apply node_is_dir_valid; exact F2). cbn [negb].
      rewrite create_file_alloc by exact (sh_os _ _ H). osim.
    - destruct R.
    - destruct R as (R1 & R2). destruct (werr_cases _ _ R1 Hnf) as (Hc & ->).
      destruct Hc as [Hc|[Hc|[Hc|Hc]]]; rewrite Hc in *; try osim.
      rewrite (R2 eq_refl eq_refl). osim.
  Qed.

  Theorem step_open_wct : open_sim (open_file s v vi p WCT perm) (k_open s sv p WCT perm).
  Proof.
    destruct Hp0 as (Hg & Hk0 & _). change (follow_of SlLstat) with false in Hk0.
    destruct (klookup_pm s sv false w cl Hg Hk0) as (_ & _ & Hpm).
    apply (open_wct_main _ Hpm).
    destruct (klookup s sv false false p) as [par0 k0 n0 c0|par0 n0 md0|a b c d|e0] eqn:HK0.
    - right. eauto.
    - right. eauto.
    - exfalso. exact (klookup_not_parent _ _ _ _ _ _ _ _ HK0).
    - left. split; [symmetry; exact (klookup_err_follow s sv w cl e0 Hg HK0)|eauto].
  Qed.
End OpenWct.


(* ---- the step theorem at the level of worlds --------------------------------------------------------------------- *)
(* the specification state [sw] abstracts the world [w] seen through view [vi]: same file system, same view
   (the working directory plays no role for absolute paths) *)
Definition absw (w : world) (vi : nat) (sw : sworld) : Prop :=
  sw_fs sw = w_fs w /\ nth_error (w_views w) vi = Some (sv_view (sw_sv sw)).

(* the calls covered, with the conditions under which they are: clean absolute paths, inside the domain of the
   walk bridge ([path_ok]), outside the listed deviation classes *)
Definition covered (vi : nat) (sw : sworld) (c : call) : Prop :=
  let s := sw_fs sw in
  let sv := sw_sv sw in
  step_hyps s sv /\
  match c with
  | CStat vi' p => vi' = vi /\ exists cs, p = abs_path cs /\ path_ok s sv SlStat cs
  | CLstat vi' p => vi' = vi /\ exists cs, p = abs_path cs /\ path_ok s sv SlLstat cs
  | CReadlink vi' p => vi' = vi /\ exists cs, p = abs_path cs /\ path_ok s sv SlLstat cs
  | CChtimes vi' p => vi' = vi /\ exists cs, p = abs_path cs /\ path_ok s sv SlEval cs
  | CChmod vi' p _ => vi' = vi /\ exists cs, p = abs_path cs /\ path_ok s sv SlEval cs
  | CTruncate vi' p _ => vi' = vi /\ exists cs, p = abs_path cs /\ path_ok s sv SlEval cs
  | CMkdir vi' p _ =>
      vi' = vi /\ exists w cl, p = abs_path (w ++ [cl]) /\ path_ok s sv SlLstat (w ++ [cl])
  | CSymlink vi' t p =>
      vi' = vi /\ t = clean Linux t /\
      exists w cl, p = abs_path (w ++ [cl]) /\ path_ok s sv SlLstat (w ++ [cl])
  | COpenFile vi' p flag _ =>
      vi' = vi /\
      ((flag = 0%N /\ exists cs, p = abs_path cs /\ path_ok s sv SlEval cs)
       \/ (flag = WCT /\ exists w cl, p = abs_path (w ++ [cl]) /\ path_ok s sv SlLstat (w ++ [cl])
                                       /\ path_ok s sv SlEval (w ++ [cl])))
  | CRemove vi' p =>
      vi' = vi /\ sym_single (f_heap s) /\ exists w cl, p = abs_path (w ++ [cl]) /\ path_ok s sv SlLstat (w ++ [cl])
  | CLink vi' o p =>
      vi' = vi /\ exists co w cl, o = abs_path co /\ p = abs_path (w ++ [cl]) /\ path_ok s sv SlLstat co
                                  /\ path_ok s sv SlLstat (w ++ [cl]) /\ not_symlink s sv co
  | CChown vi' p _ _ => vi' = vi /\ exists cs, p = abs_path cs /\ path_ok s sv SlEval cs
  | CLchown vi' p _ _ => vi' = vi /\ exists cs, p = abs_path cs /\ path_ok s sv SlLstat cs
  | CReadFile vi' p => vi' = vi /\ exists cs, p = abs_path cs /\ path_ok s sv SlEval cs
  | CReadDir vi' p => vi' = vi /\ ptr_valid (f_heap s) /\ exists cs, p = abs_path cs /\ path_ok s sv SlEval cs
  | CRename vi' o p =>
      vi' = vi /\ exists wo clo wn cln np md,
        o = abs_path (wo ++ [clo]) /\ p = abs_path (wn ++ [cln]) /\ path_ok s sv SlLstat (wo ++ [clo])
        /\ path_ok s sv SlLstat (wn ++ [cln]) /\ source_not_dir s sv (wo ++ [clo])
        /\ klookup s sv false false (abs_path (wn ++ [cln])) = WNeg np cln md
  | CWriteFile vi' p _ _ =>
      vi' = vi /\ exists w cl, p = abs_path (w ++ [cl]) /\ path_ok s sv SlLstat (w ++ [cl])
                               /\ path_ok s sv SlEval (w ++ [cl])
  | _ => False
  end.

Lemma absw_with_fs (w : world) (vi : nat) (sw : sworld) (s1 : fsys) :
  absw w vi sw -> absw (with_fs w s1) vi {| sw_fs := s1; sw_sv := sw_sv sw |}.
Proof. intros (_ & Hv). split; [reflexivity|exact Hv]. Qed.

Lemma obs_sim_refl (r : pres) : obs_sim r r.
Proof. left. left. reflexivity. Qed.

(* unfolding the two step functions, with the paths kept abstract *)
Section StepEqns.
  Variables (w : world) (vi : nat) (v : view).
  Hypothesis Hv : nth_error (w_views w) vi = Some v.

  Lemma impl_lift (c : call) (f : fsys * res) :
    wstep w c = lift w f -> (forall a b c' d h, c <> COpenFile a b c' d \/ snd f <> RHandle h) ->
    (match c with COpenFile _ _ _ _ => False | _ => True end) ->
    impl_step_proj w c = (with_fs w (fst f), proj_res Linux (snd f)).
  Proof.
    intros E _ Hc. unfold impl_step_proj. rewrite E. unfold lift. destruct c; try reflexivity. destruct Hc.
  Qed.

  Lemma impl_ro (c : call) (r : res) :
    wstep w c = (w, r) -> (match c with COpenFile _ _ _ _ => False | _ => True end) ->
    impl_step_proj w c = (w, proj_res Linux r).
  Proof. intros E Hc. unfold impl_step_proj. rewrite E. destruct c; try reflexivity. destruct Hc. Qed.

  Lemma wstep_mkdir p perm : wstep w (CMkdir vi p perm) = lift w (mkdir (w_fs w) v p perm).
  Proof. unfold wstep, on_view. rewrite Hv. reflexivity. Qed.
  Lemma wstep_remove p : wstep w (CRemove vi p) = lift w (remove (w_fs w) v p).
  Proof. unfold wstep, on_view. rewrite Hv. reflexivity. Qed.
  Lemma wstep_rename o p : wstep w (CRename vi o p) = lift w (rename (w_fs w) v o p).
  Proof. unfold wstep, on_view. rewrite Hv. reflexivity. Qed.
  Lemma wstep_link o p : wstep w (CLink vi o p) = lift w (link (w_fs w) v o p).
  Proof. unfold wstep, on_view. rewrite Hv. reflexivity. Qed.
  Lemma wstep_symlink o p : wstep w (CSymlink vi o p) = lift w (symlink (w_fs w) v o p).
  Proof. unfold wstep, on_view. rewrite Hv. reflexivity. Qed.
  Lemma wstep_truncate p size : wstep w (CTruncate vi p size) = lift w (truncate (w_fs w) v p size).
  Proof. unfold wstep, on_view. rewrite Hv. reflexivity. Qed.
  Lemma wstep_chmod p mode : wstep w (CChmod vi p mode) = lift w (chmod (w_fs w) v p mode).
  Proof. unfold wstep, on_view. rewrite Hv. reflexivity. Qed.
  Lemma wstep_readlink p : wstep w (CReadlink vi p) = (w, readlink (w_fs w) v p).
  Proof. unfold wstep, on_view. rewrite Hv. reflexivity. Qed.
  Lemma wstep_chtimes p : wstep w (CChtimes vi p) = (w, chtimes (w_fs w) v p).
  Proof. unfold wstep, on_view. rewrite Hv. reflexivity. Qed.
  Lemma wstep_stat p : wstep w (CStat vi p) = (w, stat_gen SlStat (w_fs w) v p).
  Proof. unfold wstep, on_view. rewrite Hv. reflexivity. Qed.
  Lemma wstep_lstat p : wstep w (CLstat vi p) = (w, stat_gen SlLstat (w_fs w) v p).
  Proof. unfold wstep, on_view. rewrite Hv. reflexivity. Qed.
  Lemma wstep_chown p uid gid : wstep w (CChown vi p uid gid) = lift w (chown_gen SlEval (w_fs w) v p uid gid).
  Proof. unfold wstep, on_view. rewrite Hv. reflexivity. Qed.
  Lemma wstep_lchown p uid gid : wstep w (CLchown vi p uid gid) = lift w (chown_gen SlLstat (w_fs w) v p uid gid).
  Proof. unfold wstep, on_view. rewrite Hv. reflexivity. Qed.
  Lemma wstep_read_file p : wstep w (CReadFile vi p) = (w, read_file (w_fs w) v p).
  Proof. unfold wstep, on_view. rewrite Hv. reflexivity. Qed.
  Lemma wstep_read_dir p : wstep w (CReadDir vi p) = (w, read_dir (w_fs w) v p).
  Proof. unfold wstep, on_view. rewrite Hv. reflexivity. Qed.
  Lemma wstep_write_file p data perm : wstep w (CWriteFile vi p data perm) = lift w (write_file (w_fs w) v p data perm).
  Proof. unfold wstep, on_view. rewrite Hv. reflexivity. Qed.
End StepEqns.

Lemma spec_keep (sw : sworld) (r : fsys * pres) :
  ({| sw_fs := fst r; sw_sv := sw_sv sw |}, snd r) = ({| sw_fs := fst r; sw_sv := sw_sv sw |}, snd r).
Proof. reflexivity. Qed.

Lemma spec_mkdir sw vi p perm : spec_step true sw (CMkdir vi p perm)
  = ({| sw_fs := fst (k_mkdir (sw_fs sw) (sw_sv sw) p perm); sw_sv := sw_sv sw |}, snd (k_mkdir (sw_fs sw) (sw_sv sw) p perm)).
Proof. reflexivity. Qed.
Lemma spec_remove sw vi p : spec_step true sw (CRemove vi p)
  = ({| sw_fs := fst (go_remove (sw_fs sw) (sw_sv sw) p); sw_sv := sw_sv sw |}, snd (go_remove (sw_fs sw) (sw_sv sw) p)).
Proof. reflexivity. Qed.
Lemma spec_rename sw vi o p : spec_step true sw (CRename vi o p)
  = ({| sw_fs := fst (go_rename (sw_fs sw) (sw_sv sw) o p); sw_sv := sw_sv sw |}, snd (go_rename (sw_fs sw) (sw_sv sw) o p)).
Proof. reflexivity. Qed.
Lemma spec_link sw vi o p : spec_step true sw (CLink vi o p)
  = ({| sw_fs := fst (k_link true (sw_fs sw) (sw_sv sw) o p); sw_sv := sw_sv sw |}, snd (k_link true (sw_fs sw) (sw_sv sw) o p)).
Proof. reflexivity. Qed.
Lemma spec_symlink sw vi o p : spec_step true sw (CSymlink vi o p)
  = ({| sw_fs := fst (k_symlink (sw_fs sw) (sw_sv sw) o p); sw_sv := sw_sv sw |}, snd (k_symlink (sw_fs sw) (sw_sv sw) o p)).
Proof. reflexivity. Qed.
Lemma spec_truncate sw vi p size : spec_step true sw (CTruncate vi p size)
  = ({| sw_fs := fst (k_truncate (sw_fs sw) (sw_sv sw) p size); sw_sv := sw_sv sw |}, snd (k_truncate (sw_fs sw) (sw_sv sw) p size)).
Proof. reflexivity. Qed.
Lemma spec_chmod sw vi p mode : spec_step true sw (CChmod vi p mode)
  = ({| sw_fs := fst (k_chmod (sw_fs sw) (sw_sv sw) p mode); sw_sv := sw_sv sw |}, snd (k_chmod (sw_fs sw) (sw_sv sw) p mode)).
Proof. reflexivity. Qed.
Lemma spec_readlink sw vi p : spec_step true sw (CReadlink vi p) = (sw, k_readlink (sw_fs sw) (sw_sv sw) p).
Proof. reflexivity. Qed.
Lemma spec_chtimes sw vi p : spec_step true sw (CChtimes vi p) = (sw, k_utimes (sw_fs sw) (sw_sv sw) p).
Proof. reflexivity. Qed.
Lemma spec_stat sw vi p : spec_step true sw (CStat vi p) = (sw, k_stat true (sw_fs sw) (sw_sv sw) p).
Proof. reflexivity. Qed.
Lemma spec_lstat sw vi p : spec_step true sw (CLstat vi p) = (sw, k_stat false (sw_fs sw) (sw_sv sw) p).
Proof. reflexivity. Qed.
Lemma spec_chown sw vi p uid gid : spec_step true sw (CChown vi p uid gid)
  = ({| sw_fs := fst (k_chown true (sw_fs sw) (sw_sv sw) p uid gid); sw_sv := sw_sv sw |}, snd (k_chown true (sw_fs sw) (sw_sv sw) p uid gid)).
Proof. reflexivity. Qed.
Lemma spec_lchown sw vi p uid gid : spec_step true sw (CLchown vi p uid gid)
  = ({| sw_fs := fst (k_chown false (sw_fs sw) (sw_sv sw) p uid gid); sw_sv := sw_sv sw |}, snd (k_chown false (sw_fs sw) (sw_sv sw) p uid gid)).
Proof. reflexivity. Qed.
Lemma spec_read_file sw vi p : spec_step true sw (CReadFile vi p) = (sw, go_read_file (sw_fs sw) (sw_sv sw) p).
Proof. reflexivity. Qed.
Lemma spec_read_dir sw vi p : spec_step true sw (CReadDir vi p) = (sw, go_read_dir (sw_fs sw) (sw_sv sw) p).
Proof. reflexivity. Qed.
Lemma spec_write_file sw vi p data perm : spec_step true sw (CWriteFile vi p data perm)
  = ({| sw_fs := fst (go_write_file (sw_fs sw) (sw_sv sw) p data perm); sw_sv := sw_sv sw |},
     snd (go_write_file (sw_fs sw) (sw_sv sw) p data perm)).
Proof. reflexivity. Qed.

(* a mutating call: from the call-level equation to the world level *)
Lemma world_of_lift (w : world) (vi : nat) (sw : sworld) (c : call) (f : fsys * res) (g : fsys * pres) :
  absw w vi sw ->
  impl_step_proj w c = (with_fs w (fst f), proj_res Linux (snd f)) ->
  spec_step true sw c = ({| sw_fs := fst g; sw_sv := sw_sv sw |}, snd g) ->
  (fst f, proj_res Linux (snd f)) = g ->
  obs_sim (snd (impl_step_proj w c)) (snd (spec_step true sw c))
  /\ absw (fst (impl_step_proj w c)) vi (fst (spec_step true sw c)).
Proof.
  intros Ha Ei Es E. rewrite Ei, Es, <- E. cbn [fst snd]. split; [apply obs_sim_refl|]. exact (absw_with_fs w vi sw _ Ha).
Qed.

Lemma world_of_ro (w : world) (vi : nat) (sw : sworld) (c : call) (r : res) (g : pres) :
  absw w vi sw ->
  impl_step_proj w c = (w, proj_res Linux r) -> spec_step true sw c = (sw, g) -> obs_sim (proj_res Linux r) g ->
  obs_sim (snd (impl_step_proj w c)) (snd (spec_step true sw c))
  /\ absw (fst (impl_step_proj w c)) vi (fst (spec_step true sw c)).
Proof. intros Ha Ei Es E. rewrite Ei, Es. cbn [fst snd]. split; [exact E|exact Ha]. Qed.

(* at the level of worlds: the implementation's world gets a handle, which the abstraction does not look at *)
Lemma world_open (w : world) (vi : nat) (sw : sworld) (p : str) (flag perm : N) :
  absw w vi sw ->
  open_sim (open_file (w_fs w) (sv_view (sw_sv sw)) vi p flag perm) (k_open (sw_fs sw) (sw_sv sw) p flag perm) ->
  obs_sim (snd (impl_step_proj w (COpenFile vi p flag perm))) (snd (spec_step true sw (COpenFile vi p flag perm)))
  /\ absw (fst (impl_step_proj w (COpenFile vi p flag perm))) vi (fst (spec_step true sw (COpenFile vi p flag perm))).
Proof.
  intros (Hfs & Hv) Hs. unfold impl_step_proj, spec_step, wstep, on_view. rewrite Hv.
  destruct (open_file (w_fs w) (sv_view (sw_sv sw)) vi p flag perm) as [s1 [r|f]];
    destruct (k_open (sw_fs sw) (sw_sv sw) p flag perm) as [s1' [e|c]];
    destruct Hs as (E1 & E2); cbn [fst snd] in *; try contradiction; subst s1'.
  - destruct E2 as (ek & -> & <-). split; [apply obs_sim_refl|]. split; [reflexivity|exact Hv].
  - split; [apply obs_sim_refl|]. split; [reflexivity|exact Hv].
Qed.

Theorem step_world (w : world) (vi : nat) (sw : sworld) (c : call) :
  absw w vi sw -> covered vi sw c ->
  obs_sim (snd (impl_step_proj w c)) (snd (spec_step true sw c))
  /\ absw (fst (impl_step_proj w c)) vi (fst (spec_step true sw c)).
Proof.
  intros Ha (H & Hc). pose proof Ha as (Hfs & Hv).
  destruct c; try (destruct Hc; fail); cbn [covered] in Hc.
  - (* Mkdir *)
    destruct Hc as (-> & ww & cl & Ep & Hp).
    apply (world_of_lift w vi sw _ (mkdir (w_fs w) (sv_view (sw_sv sw)) p perm) (k_mkdir (sw_fs sw) (sw_sv sw) p perm) Ha).
    + apply (impl_lift w _ _ (wstep_mkdir w vi _ Hv p perm)); [left; discriminate|exact I].
    + apply spec_mkdir.
    + rewrite <- Hfs, Ep. exact (step_mkdir (sw_fs sw) (sw_sv sw) ww cl perm H Hp).
  - (* OpenFile *)
    destruct Hc as (-> & [(-> & cs & Ep & Hp)|(-> & ww & cl & Ep & Hp0 & Hp)]); apply (world_open w vi sw _ _ _ Ha);
      rewrite <- Hfs, Ep.
    + exact (step_open_rdonly (sw_fs sw) (sw_sv sw) vi cs perm H Hp).
    + exact (step_open_wct (sw_fs sw) (sw_sv sw) vi ww cl perm H Hp0 Hp).
  - (* Remove *)
    destruct Hc as (-> & Hss & ww & cl & Ep & Hp).
    apply (world_of_lift w vi sw _ (remove (w_fs w) (sv_view (sw_sv sw)) p) (go_remove (sw_fs sw) (sw_sv sw) p) Ha).
    + apply (impl_lift w _ _ (wstep_remove w vi _ Hv p)); [left; discriminate|exact I].
    + apply spec_remove.
    + rewrite <- Hfs, Ep. exact (step_remove (sw_fs sw) (sw_sv sw) ww cl H Hp Hss).
  - (* Rename *)
    destruct Hc as (-> & wo & clo & wn & cln & np & md & Eo & Ep & Hpo & Hpn & Hnd & HKn).
    apply (world_of_lift w vi sw _ (rename (w_fs w) (sv_view (sw_sv sw)) o n) (go_rename (sw_fs sw) (sw_sv sw) o n) Ha).
    + apply (impl_lift w _ _ (wstep_rename w vi _ Hv o n)); [left; discriminate|exact I].
    + apply spec_rename.
    + rewrite <- Hfs, Eo, Ep. exact (step_rename_new (sw_fs sw) (sw_sv sw) wo clo wn cln np md H Hpo Hpn Hnd HKn).
  - (* Link *)
    destruct Hc as (-> & co & ww & cl & Eo & Ep & Hpo & Hp & Hns).
    apply (world_of_lift w vi sw _ (link (w_fs w) (sv_view (sw_sv sw)) o n) (k_link true (sw_fs sw) (sw_sv sw) o n) Ha).
    + apply (impl_lift w _ _ (wstep_link w vi _ Hv o n)); [left; discriminate|exact I].
    + apply spec_link.
    + rewrite <- Hfs, Eo, Ep. exact (step_link (sw_fs sw) (sw_sv sw) co ww cl H Hpo Hp Hns).
  - (* Symlink *)
    destruct Hc as (-> & Ht & ww & cl & Ep & Hp).
    apply (world_of_lift w vi sw _ (symlink (w_fs w) (sv_view (sw_sv sw)) o n) (k_symlink (sw_fs sw) (sw_sv sw) o n) Ha).
    + apply (impl_lift w _ _ (wstep_symlink w vi _ Hv o n)); [left; discriminate|exact I].
    + apply spec_symlink.
    + rewrite <- Hfs, Ep. rewrite Ht at 3. exact (step_symlink (sw_fs sw) (sw_sv sw) ww cl o H Hp).
  - (* Readlink *)
    destruct Hc as (-> & cs & Ep & Hp).
    apply (world_of_ro w vi sw _ (readlink (w_fs w) (sv_view (sw_sv sw)) p) (k_readlink (sw_fs sw) (sw_sv sw) p) Ha).
    + apply (impl_ro w _ _ (wstep_readlink w vi _ Hv p)). exact I.
    + apply spec_readlink.
    + rewrite <- Hfs, Ep, (step_readlink (sw_fs sw) (sw_sv sw) cs H Hp). apply obs_sim_refl.
  - (* Truncate *)
    destruct Hc as (-> & cs & Ep & Hp).
    apply (world_of_lift w vi sw _ (truncate (w_fs w) (sv_view (sw_sv sw)) p size) (k_truncate (sw_fs sw) (sw_sv sw) p size) Ha).
    + apply (impl_lift w _ _ (wstep_truncate w vi _ Hv p size)); [left; discriminate|exact I].
    + apply spec_truncate.
    + rewrite <- Hfs, Ep. exact (step_truncate (sw_fs sw) (sw_sv sw) cs size H Hp).
  - (* Chmod *)
    destruct Hc as (-> & cs & Ep & Hp).
    apply (world_of_lift w vi sw _ (chmod (w_fs w) (sv_view (sw_sv sw)) p mode) (k_chmod (sw_fs sw) (sw_sv sw) p mode) Ha).
    + apply (impl_lift w _ _ (wstep_chmod w vi _ Hv p mode)); [left; discriminate|exact I].
    + apply spec_chmod.
    + rewrite <- Hfs, Ep. exact (step_chmod (sw_fs sw) (sw_sv sw) cs mode H Hp).
  - (* Chown *)
    destruct Hc as (-> & cs & Ep & Hp).
    apply (world_of_lift w vi sw _ (chown_gen SlEval (w_fs w) (sv_view (sw_sv sw)) p uid gid)
             (k_chown true (sw_fs sw) (sw_sv sw) p uid gid) Ha).
    + apply (impl_lift w _ _ (wstep_chown w vi _ Hv p uid gid)); [left; discriminate|exact I].
    + apply spec_chown.
    + rewrite <- Hfs, Ep. exact (step_chown (sw_fs sw) (sw_sv sw) SlEval cs uid gid H Hp).
  - (* Lchown *)
    destruct Hc as (-> & cs & Ep & Hp).
    apply (world_of_lift w vi sw _ (chown_gen SlLstat (w_fs w) (sv_view (sw_sv sw)) p uid gid)
             (k_chown false (sw_fs sw) (sw_sv sw) p uid gid) Ha).
    + apply (impl_lift w _ _ (wstep_lchown w vi _ Hv p uid gid)); [left; discriminate|exact I].
    + apply spec_lchown.
    + rewrite <- Hfs, Ep. exact (step_chown (sw_fs sw) (sw_sv sw) SlLstat cs uid gid H Hp).
  - (* Chtimes *)
    destruct Hc as (-> & cs & Ep & Hp).
    apply (world_of_ro w vi sw _ (chtimes (w_fs w) (sv_view (sw_sv sw)) p) (k_utimes (sw_fs sw) (sw_sv sw) p) Ha).
    + apply (impl_ro w _ _ (wstep_chtimes w vi _ Hv p)). exact I.
    + apply spec_chtimes.
    + rewrite <- Hfs, Ep, (step_chtimes (sw_fs sw) (sw_sv sw) cs H Hp). apply obs_sim_refl.
  - (* Stat *)
    destruct Hc as (-> & cs & Ep & Hp).
    apply (world_of_ro w vi sw _ (stat_gen SlStat (w_fs w) (sv_view (sw_sv sw)) p) (k_stat true (sw_fs sw) (sw_sv sw) p) Ha).
    + apply (impl_ro w _ _ (wstep_stat w vi _ Hv p)). exact I.
    + apply spec_stat.
    + rewrite <- Hfs, Ep. left. exact (step_stat (sw_fs sw) (sw_sv sw) SlStat cs H Hp).
  - (* Lstat *)
    destruct Hc as (-> & cs & Ep & Hp).
    apply (world_of_ro w vi sw _ (stat_gen SlLstat (w_fs w) (sv_view (sw_sv sw)) p) (k_stat false (sw_fs sw) (sw_sv sw) p) Ha).
    + apply (impl_ro w _ _ (wstep_lstat w vi _ Hv p)). exact I.
    + apply spec_lstat.
    + rewrite <- Hfs, Ep. left. exact (step_stat (sw_fs sw) (sw_sv sw) SlLstat cs H Hp).
  - (* ReadDir *)
    destruct Hc as (-> & Hpv & cs & Ep & Hp).
    apply (world_of_ro w vi sw _ (read_dir (w_fs w) (sv_view (sw_sv sw)) p) (go_read_dir (sw_fs sw) (sw_sv sw) p) Ha).
    + apply (impl_ro w _ _ (wstep_read_dir w vi _ Hv p)). exact I.
    + apply spec_read_dir.
    + rewrite <- Hfs, Ep. exact (step_read_dir (sw_fs sw) (sw_sv sw) cs H Hp Hpv).
  - (* ReadFile *)
    destruct Hc as (-> & cs & Ep & Hp).
    apply (world_of_ro w vi sw _ (read_file (w_fs w) (sv_view (sw_sv sw)) p) (go_read_file (sw_fs sw) (sw_sv sw) p) Ha).
    + apply (impl_ro w _ _ (wstep_read_file w vi _ Hv p)). exact I.
    + apply spec_read_file.
    + rewrite <- Hfs, Ep, (step_read_file (sw_fs sw) (sw_sv sw) cs H Hp). apply obs_sim_refl.
  - (* WriteFile *)
    destruct Hc as (-> & ww & cl & Ep & Hp0 & Hp).
    apply (world_of_lift w vi sw _ (write_file (w_fs w) (sv_view (sw_sv sw)) p data perm)
             (go_write_file (sw_fs sw) (sw_sv sw) p data perm) Ha).
    + apply (impl_lift w _ _ (wstep_write_file w vi _ Hv p data perm)); [left; discriminate|exact I].
    + apply spec_write_file.
    + rewrite <- Hfs, Ep. exact (step_write_file (sw_fs sw) (sw_sv sw) ww cl data perm H Hp0 Hp).
Qed.

(* ---- histories ------------------------------------------------------------------------------------------------------- *)
Fixpoint impl_run (w : world) (cs : list call) : world * list pres :=
  match cs with
  | [] => (w, [])
  | c :: cs' => let w1 := fst (impl_step_proj w c) in
                (fst (impl_run w1 cs'), snd (impl_step_proj w c) :: snd (impl_run w1 cs'))
  end.

Fixpoint spec_run (sw : sworld) (cs : list call) : sworld * list pres :=
  match cs with
  | [] => (sw, [])
  | c :: cs' => let sw1 := fst (spec_step true sw c) in
                (fst (spec_run sw1 cs'), snd (spec_step true sw c) :: snd (spec_run sw1 cs'))
  end.

(* every call of the history is covered on the state the SPECIFICATION run has reached *)
Fixpoint covered_run (vi : nat) (sw : sworld) (cs : list call) : Prop :=
  match cs with
  | [] => True
  | c :: cs' => covered vi sw c /\ covered_run vi (fst (spec_step true sw c)) cs'
  end.

Theorem history_world (vi : nat) : forall (cs : list call) (w : world) (sw : sworld),
  absw w vi sw -> covered_run vi sw cs ->
  Forall2 obs_sim (snd (impl_run w cs)) (snd (spec_run sw cs))
  /\ absw (fst (impl_run w cs)) vi (fst (spec_run sw cs)).
Proof.
  induction cs as [|c cs IH]; intros w sw Ha Hc.
  - split; [constructor|exact Ha].
  - destruct Hc as (Hc1 & Hc2). destruct (step_world w vi sw c Ha Hc1) as (S1 & S2).
    destruct (IH _ _ S2 Hc2) as (I1 & I2). cbn [impl_run spec_run fst snd].
    split; [constructor; assumption|exact I2].
Qed.

(* ---- the calls whose proof only needs a resolved path: any path form, in particular clean RELATIVE paths ------------------ *)
Lemma resolved_rel (s : fsys) (sv : sview) (slm : slmode) (bs : list str) (x : str) :
  step_hyps s sv ->
  v_cwd (sv_view sv) = abs_path bs -> Forall good_comp bs ->
  dwalk (f_heap s) (v_user (sv_view sv)) (v_root (sv_view sv)) bs = Some (sv_cwd sv) ->
  is_abs Linux (clean Linux x) = false ->
  klookup s sv false (follow_of slm) (clean Linux x) <> WErr EFUEL ->
  sr_err (search_node s (sv_view sv) (clean Linux x) slm) <> EFuel ->
  resolved s sv slm (clean Linux x).
Proof.
  intros H Hcwd Hbs Hw Hrel Hk Hnf. split; [|exact Hnf].
  apply (sym_bridge_lookup_rel s sv slm bs x (sh_os _ _ H) (sh_wf _ _ H) (sh_lc _ _ H) (sh_root _ _ H)); auto.
  apply (admin_kperm s sv _ 1 H). apply node_is_dir_valid. exact (sh_root _ _ H).
Qed.

Theorem steps_resolved (s : fsys) (sv : sview) (p : str) :
  step_hyps s sv ->
  (forall slm, resolved s sv slm p ->
     stat_sim (proj_res Linux (stat_gen slm s (sv_view sv) p)) (k_stat (follow_of slm) s sv p))
  /\ (resolved s sv SlLstat p -> proj_res Linux (readlink s (sv_view sv) p) = k_readlink s sv p)
  /\ (resolved s sv SlEval p -> proj_res Linux (chtimes s (sv_view sv) p) = k_utimes s sv p)
  /\ (forall mode, resolved s sv SlEval p ->
        (fst (chmod s (sv_view sv) p mode), proj_res Linux (snd (chmod s (sv_view sv) p mode))) = k_chmod s sv p mode)
  /\ (forall size, resolved s sv SlEval p ->
        (fst (truncate s (sv_view sv) p size), proj_res Linux (snd (truncate s (sv_view sv) p size)))
        = k_truncate s sv p size)
  /\ (resolved s sv SlEval p ->
        match chdir s (sv_view sv) p, k_chdir s sv p with
        | inl r, inl e => proj_res Linux r = SErr e
        | inr _, inr _ => True
        | _, _ => False
        end).
Proof.
  intros H. split; [intros slm; apply step_stat_p; exact H|]. split; [apply step_readlink_p; exact H|].
  split; [apply step_chtimes_p; exact H|]. split; [intros mode; apply step_chmod_p; exact H|].
  split; [intros size; apply step_truncate_p; exact H|]. apply step_chdir_p; exact H.
Qed.

(* ---- non-vacuity: a covered history on the example tree of WalkSym.v ------------------------------------------------ *)
Module StepExamples.
  Import WalkSymExamples WalkSymNonVacuity.

  Definition sw_tree : sworld := {| sw_fs := tree_fs; sw_sv := sv_of adminv |}.
  Definition w_tree : world := {| w_fs := tree_fs; w_views := [adminv]; w_handles := [] |}.

  Ltac good_tac :=
    repeat constructor; try discriminate;
    let x := fresh "x" in let Hx := fresh "Hx" in
    intros x Hx; cbn in Hx; repeat (destruct Hx as [Hx|Hx]; [subst x; discriminate|]); destruct Hx.

  Example tree_step_hyps : step_hyps tree_fs (sv_of adminv).
  Proof. split; [reflexivity|reflexivity|exact tree_wf|exact tree_links_clean|reflexivity]. Qed.

  Ltac path_ok_tac := split; [good_tac|split; vm_compute; discriminate].

  (* Lstat of a link to ".."; Stat through an absolute link; Readlink; Mkdir below a directory reached through
     "../../d"; Remove of a dangling link *)
  Definition hist : list call :=
    [ CLstat 0 (abs_path [s_d; s_up]);
      CStat 0 (abs_path [s_abs; s_f]);
      CReadlink 0 (abs_path [s_d; s_e; s_top]);
      CMkdir 0 (abs_path ([s_d; s_e; s_top; s_e] ++ [s_x])) 493 ].

  Example hist_covered : absw w_tree 0 sw_tree /\ covered_run 0 sw_tree hist.
  Proof.
    split; [split; reflexivity|]. unfold hist. cbn [covered_run].
    change (fst (spec_step true sw_tree (CLstat 0 (abs_path [s_d; s_up])))) with sw_tree.
    change (fst (spec_step true sw_tree (CStat 0 (abs_path [s_abs; s_f])))) with sw_tree.
    change (fst (spec_step true sw_tree (CReadlink 0 (abs_path [s_d; s_e; s_top])))) with sw_tree.
    split; [|split; [|split; [|split; [|exact I]]]]; (split; [exact tree_step_hyps|]); (split; [reflexivity|]).
    - exists [s_d; s_up]. split; [reflexivity|path_ok_tac].
    - exists [s_abs; s_f]. split; [reflexivity|path_ok_tac].
    - exists [s_d; s_e; s_top]. split; [reflexivity|path_ok_tac].
    - exists [s_d; s_e; s_top; s_e], s_x. split; [reflexivity|path_ok_tac].
  Qed.

  (* what the two runs answer (computed): the same, and the new directory is there *)
  Example hist_results :
    snd (spec_run sw_tree hist)
    = [ SInfo {| fi_name := s_up; fi_size := 2; fi_mode := m_mode lmeta; fi_uid := 0; fi_gid := 0; fi_nlink := 0; fi_id := 0 |};
        SInfo {| fi_name := s_f; fi_size := 1; fi_mode := 420; fi_uid := 0; fi_gid := 0; fi_nlink := 1; fi_id := 1 |};
        SStr ([DOT; DOT; SLASH; DOT; DOT; SLASH] ++ s_d);
        SOk ]
    /\ snd (impl_run w_tree hist) = snd (spec_run sw_tree hist)
    /\ w_fs (fst (impl_run w_tree hist)) = sw_fs (fst (spec_run sw_tree hist)).
  Proof. vm_compute. repeat split; reflexivity. Qed.
End StepExamples.

