(* C11, confinement of the effects: a mutating namespace call through a view leaves every
   node that is NOT reachable from the view's root (by child edges, in the state before the
   call) exactly as it was.  Proved for Mkdir, MkdirAll, OpenFile, Remove, Rename, Link,
   Symlink, Truncate, Chmod, Chown, Lchown, RemoveAll (recursive removal included) and
   WriteFile - every namespace call that changes the node graph. *)
From Avfs Require Import Base PathModel MemFS MemFile SubProofs.

Lemma get_upd_ne (h : heap) (j : nat) (n : node) (i : nat) : i <> j -> get (upd h j n) i = get h i.
Proof.
  unfold get. revert j i. induction h as [|x h IH]; intros [|j] [|i] H; cbn; auto; try congruence.
Qed.

Lemma upd_length (h : heap) (j : nat) (n : node) : length (upd h j n) = length h.
Proof. revert j. induction h as [|x h IH]; intros [|j]; cbn; auto. Qed.

Lemma get_app_old (h l : heap) (i : nat) : i < length h -> get (h ++ l) i = get h i.
Proof. intros H. unfold get. apply nth_error_app1. exact H. Qed.

Lemma get_add_child_ne h p nm c i : i <> p -> get (add_child h p nm c) i = get h i.
Proof. intros H. unfold add_child. destruct (get h p) as [[ch m| | ]|]; auto. apply get_upd_ne. exact H. Qed.

Lemma get_remove_child_ne h p nm i : i <> p -> get (remove_child h p nm) i = get h i.
Proof. intros H. unfold remove_child. destruct (get h p) as [[ch m| | ]|]; auto. apply get_upd_ne. exact H. Qed.

Lemma get_delete_node_ne h c i : i <> c -> get (delete_node h c) i = get h i.
Proof. intros H. unfold delete_node. destruct (get h c) as [[ch m| | ]|]; auto; apply get_upd_ne; exact H. Qed.

Lemma add_child_length h p nm c : length (add_child h p nm c) = length h.
Proof. unfold add_child. destruct (get h p) as [[ch m| | ]|]; auto. apply upd_length. Qed.

Ltac break_match :=
  match goal with
  | |- context [match ?x with _ => _ end] => destruct x eqn:?
  | |- context [let '(_, _) := ?x in _] => destruct x eqn:?
  end.

(* ---- edges only disappear -------------------------------------------------------------------- *)
Definition sub_edges (h1 h : heap) : Prop := forall x e, In e (children h1 x) -> In e (children h x).

Lemma sub_edges_refl h : sub_edges h h.
Proof. intros x e H. exact H. Qed.

Lemma sub_edges_trans h2 h1 h : sub_edges h2 h1 -> sub_edges h1 h -> sub_edges h2 h.
Proof. intros A B x e H. apply B, A, H. Qed.

Lemma reach_mono h1 h a b : sub_edges h1 h -> reach h1 a b -> reach h a b.
Proof.
  intros Hs Hr. induction Hr as [|x nm c _ IH Hin]; [apply reach_root|].
  eapply reach_edge; [exact IH|apply Hs; exact Hin].
Qed.

Lemma get_upd_same (h : heap) (j : nat) (n : node) : j < length h -> get (upd h j n) j = Some n.
Proof.
  unfold get. revert j. induction h as [|x h IH]; intros [|j] H; cbn in *; try lia; auto. apply IH. lia.
Qed.

Lemma get_Some_lt (h : heap) (j : nat) (n : node) : get h j = Some n -> j < length h.
Proof. intros H. apply nth_error_Some. unfold get in H. congruence. Qed.

(* replacing a directory's children map by a sub-list, or a node by one without children *)
Lemma sub_edges_upd h j n :
  (forall e, In e (match n with NDir ch _ => ch | _ => [] end) -> In e (children h j)) ->
  sub_edges (upd h j n) h.
Proof.
  intros Hn x e Hin. unfold children in Hin. destruct (Nat.eq_dec x j) as [->|Hne].
  - destruct (get h j) as [n0|] eqn:Eg.
    + rewrite (get_upd_same h j n (get_Some_lt h j n0 Eg)) in Hin. apply Hn. exact Hin.
    + assert (Hlen : ~ j < length h) by (intros H; apply nth_error_Some in H; unfold get in Eg; congruence).
      assert (E : upd h j n = h).
      { clear - Hlen. revert j Hlen. induction h as [|y h IH]; intros [|j] H; cbn in *; auto; try lia. f_equal. apply IH. lia. }
      rewrite E, Eg in Hin. destruct Hin.
  - rewrite get_upd_ne in Hin by exact Hne. exact Hin.
Qed.

Lemma In_aremove (k : str) (l : list (str * nat)) e : In e (aremove str_eqb k l) -> In e l.
Proof.
  induction l as [|[k' x] l IH]; cbn [aremove]; [auto|].
  destruct (str_eqb k k'); [intros H; right; auto|intros [<-|H]; [left; reflexivity|right; auto]].
Qed.

Lemma sub_edges_remove_child h p nm : sub_edges (remove_child h p nm) h.
Proof.
  unfold remove_child. destruct (get h p) as [[ch m| | ]|] eqn:Eg; try apply sub_edges_refl.
  apply sub_edges_upd. intros e He. unfold children. rewrite Eg. eapply In_aremove. exact He.
Qed.

Lemma sub_edges_delete_node h c : sub_edges (delete_node h c) h.
Proof.
  unfold delete_node. destruct (get h c) as [[ch m|d k i m|l m]|] eqn:Eg; try apply sub_edges_refl;
    apply sub_edges_upd; intros e [].
Qed.

(* removeAll (recursive): edges only disappear, and nothing outside the subtree of d changes *)
Lemma remove_all_rec_frame (u : user) : forall fuel h d h' e,
  remove_all_rec fuel h u d = (h', e) ->
  sub_edges h' h /\ (forall i, ~ reach h d i -> get h' i = get h i).
Proof.
  induction fuel as [|f IH]; intros h d h' e H; cbn [remove_all_rec] in H.
  - injection H as <- _. split; [apply sub_edges_refl|reflexivity].
  - destruct (negb (perm_on h d OpenWrite u)); [injection H as <- _; split; [apply sub_edges_refl|reflexivity]|].
    (* the loop over the children listed at the start, on the current heap *)
    assert (G : forall chs hc, (forall nm c, In (nm, c) chs -> In (nm, c) (children h d)) ->
                sub_edges hc h -> (forall i, ~ reach h d i -> get hc i = get h i) ->
                forall h2 e2,
                (fix loop (chs : list (str * nat)) (h0 : heap) : heap * option ekind :=
                   match chs with
                   | [] => (h0, None)
                   | (nm, c) :: chs' =>
                       if node_is_dir h0 c then
                         match remove_all_rec f h0 u c with
                         | (h1, Some e) => (h1, Some e)
                         | (h1, None) => loop chs' (delete_node (remove_child h1 d nm) c)
                         end
                       else loop chs' (delete_node (remove_child h0 d nm) c)
                   end) chs hc = (h2, e2) ->
                sub_edges h2 h /\ (forall i, ~ reach h d i -> get h2 i = get h i)).
    { induction chs as [|[nm c] chs IHc]; intros hc Hsub Hse Hfr h2 e2 Hl.
      - injection Hl as <- _. split; assumption.
      - assert (Hcd : reach h d c) by (eapply reach_edge; [apply reach_root|apply Hsub; left; reflexivity]).
        assert (Hstep : forall h1, sub_edges h1 h -> (forall i, ~ reach h d i -> get h1 i = get h i) ->
                  sub_edges (delete_node (remove_child h1 d nm) c) h
                  /\ (forall i, ~ reach h d i -> get (delete_node (remove_child h1 d nm) c) i = get h i)).
        { intros h1 Hs1 Hf1. split.
          - eapply sub_edges_trans; [apply sub_edges_delete_node|].
            eapply sub_edges_trans; [apply sub_edges_remove_child|exact Hs1].
          - intros i Hi. rewrite get_delete_node_ne, get_remove_child_ne; [apply Hf1; exact Hi| |].
            + intros E. subst. apply Hi, reach_root.
            + intros E. subst. apply Hi, Hcd. }
        destruct (node_is_dir hc c).
        + destruct (remove_all_rec f hc u c) as [h1 [e1|]] eqn:Er.
          * injection Hl as <- _. destruct (IH hc c h1 (Some e1) Er) as (S1 & F1). split.
            -- eapply sub_edges_trans; [exact S1|exact Hse].
            -- intros i Hi. rewrite F1; [apply Hfr; exact Hi|].
               intros Hr. apply Hi. eapply reach_trans; [exact Hcd|]. eapply reach_mono; [exact Hse|exact Hr].
          * destruct (IH hc c h1 None Er) as (S1 & F1).
            assert (S1' : sub_edges h1 h) by (eapply sub_edges_trans; [exact S1|exact Hse]).
            assert (F1' : forall i, ~ reach h d i -> get h1 i = get h i).
            { intros i Hi. rewrite F1; [apply Hfr; exact Hi|].
              intros Hr. apply Hi. eapply reach_trans; [exact Hcd|]. eapply reach_mono; [exact Hse|exact Hr]. }
            destruct (Hstep h1 S1' F1') as (S2 & F2).
            apply (IHc _ (fun nm0 c0 H0 => Hsub nm0 c0 (or_intror H0)) S2 F2 h2 e2 Hl).
        + destruct (Hstep hc Hse Hfr) as (S2 & F2).
          apply (IHc _ (fun nm0 c0 H0 => Hsub nm0 c0 (or_intror H0)) S2 F2 h2 e2 Hl). }
    apply (G (children h d) h (fun nm c H0 => H0) (sub_edges_refl h) (fun i _ => eq_refl) h' e H).
Qed.

Section Frame.
  Variable s : fsys.
  Variable v : view.
  Hypothesis Hos : v_os v = Linux.
  Variable i : nat.
  Hypothesis Hi : i < length (f_heap s).
  Hypothesis Hun : ~ reach (f_heap s) (v_root v) i.

  Notation h := (f_heap s).
  Notation R := (reach (f_heap s) (v_root v)).

  Lemma ne_of_reach x : R x -> i <> x.
  Proof. intros Hx E. subst. contradiction. Qed.

  (* collect: the nodes of the search results and the children looked up in them are reachable, hence not i *)
  Ltac facts :=
    repeat match goal with
    | Hc : confined _ _ ?r, E : sr_parent ?r = Some ?x |- _ =>
        lazymatch goal with H : R x |- _ => fail | _ => assert (R x) by (apply (proj1 Hc); exact E) end
    | Hc : confined _ _ ?r, E : sr_child ?r = Some ?x |- _ =>
        lazymatch goal with H : R x |- _ => fail | _ => assert (R x) by (apply (proj2 Hc); exact E) end
    | Hp : R ?p, E : alookup str_eqb _ (children (f_heap s) ?p) = Some ?x |- _ =>
        lazymatch goal with H : R x |- _ => fail | _ => assert (R x) by (eapply reach_child; [exact Hp|exact E]) end
    end;
    repeat match goal with
    | H : R ?x |- _ => lazymatch goal with H' : i <> x |- _ => fail | _ => pose proof (ne_of_reach x H) end
    end.

  Ltac side := assumption || (rewrite ?add_child_length, ?upd_length, ?app_length; cbn [length]; lia) || lia.

  Ltac solve_frame :=
    cbn [f_heap with_heap fst snd create_dir create_file create_symlink];
    repeat first [ rewrite get_add_child_ne by side | rewrite get_remove_child_ne by side
                 | rewrite get_delete_node_ne by side | rewrite get_upd_ne by side | rewrite get_app_old by side ];
    try reflexivity.

  Ltac unpair :=
    repeat match goal with
    | H : create_file _ _ _ _ _ = (_, _) |- _ => unfold create_file in H; injection H as <- <-
    | H : create_dir _ _ _ _ _ = (_, _) |- _ => unfold create_dir in H; injection H as <- <-
    end.

  Ltac go slm path :=
    pose proof (search_node_confined s v path slm Hos) as Hc;
    set (r := search_node s v path slm) in *; clearbody r;
    repeat break_match; unpair; facts; solve_frame.

  Theorem mkdir_frame name perm : get (f_heap (fst (mkdir s v name perm))) i = get h i.
  Proof. unfold mkdir. destruct name as [|c name]; [reflexivity|]. go SlLstat (c :: name). Qed.

  Theorem symlink_frame o n : get (f_heap (fst (symlink s v o n))) i = get h i.
  Proof. unfold symlink. go SlLstat n. Qed.

  Theorem remove_frame name : get (f_heap (fst (remove s v name))) i = get h i.
  Proof. unfold remove. go SlLstat name. Qed.

  Theorem truncate_frame name size : get (f_heap (fst (truncate s v name size))) i = get h i.
  Proof. unfold truncate. go SlEval name. Qed.

  Theorem chmod_frame name mode : get (f_heap (fst (chmod s v name mode))) i = get h i.
  Proof. unfold chmod. go SlEval name. Qed.

  Theorem chown_frame slm name uid gid : get (f_heap (fst (chown_gen slm s v name uid gid))) i = get h i.
  Proof. unfold chown_gen. go slm name. Qed.

  Theorem link_frame o n : get (f_heap (fst (link s v o n))) i = get h i.
  Proof.
    unfold link.
    pose proof (search_node_confined s v o SlLstat Hos) as Hco. set (ro := search_node s v o SlLstat) in *. clearbody ro.
    go SlLstat n.
  Qed.

  Theorem rename_frame o n : get (f_heap (fst (rename s v o n))) i = get h i.
  Proof.
    unfold rename.
    pose proof (search_node_confined s v o SlLstat Hos) as Hco. set (ro := search_node s v o SlLstat) in *. clearbody ro.
    go SlLstat n.
  Qed.

  (* OpenFile: the tree outside the subtree is unchanged, and the node of the handle is reachable or new *)
  Theorem open_file_frame vi name flag perm :
    get (f_heap (fst (open_file s v vi name flag perm))) i = get h i
    /\ length h <= length (f_heap (fst (open_file s v vi name flag perm)))
    /\ (forall f, snd (open_file s v vi name flag perm) = inr f ->
                  exists c, hd_node f = Some c /\ (R c \/ length h <= c)).
  Proof.
    unfold open_file. set (slm := if has (to_open_mode flag) OpenCreateExcl then SlLstat else SlEval).
    pose proof (search_node_confined s v name slm Hos) as Hc. set (r := search_node s v name slm) in *. clearbody r.
    repeat break_match; unpair; facts; (split; [solve_frame|]);
      (split; [cbn [fst f_heap with_heap create_file]; rewrite ?add_child_length, ?upd_length, ?app_length; cbn [length]; lia|]);
      cbn [snd]; intros f Ef; try discriminate; injection Ef as <-; cbn [new_handle hd_node]; eexists; (split; [reflexivity|]);
      first [left; assumption | right; cbn [fst create_file] in *; congruence | right; lia | idtac].
  Qed.

  Theorem remove_all_frame path : get (f_heap (fst (remove_all s v path))) i = get h i.
  Proof.
    unfold remove_all. destruct path as [|c0 path]; [reflexivity|].
    pose proof (search_node_confined s v (c0 :: path) SlLstat Hos) as Hc.
    set (r := search_node s v (c0 :: path) SlLstat) in *. clearbody r.
    destruct (is_not_exist (sr_err r)); [reflexivity|]. destruct (negb (is_file_exists (sr_err r))); [reflexivity|].
    destruct (sr_child r) as [c|] eqn:Ec; [|reflexivity]. destruct (sr_parent r) as [p|] eqn:Ep; [|reflexivity].
    facts. destruct (Nat.eqb p c); [reflexivity|].
    set (X := if match get h c with Some (NDir (_ :: _) _) => true | _ => false end
              then remove_all_rec (S (length h)) h (v_user v) c else (h, None)).
    assert (HX : forall j, ~ R j -> get (fst X) j = get h j).
    { intros j Hj. unfold X. destruct (match get h c with Some (NDir (_ :: _) _) => true | _ => false end); [|reflexivity].
      destruct (remove_all_rec (S (length h)) h (v_user v) c) as [h1 e1] eqn:Er.
      destruct (remove_all_rec_frame (v_user v) _ _ _ _ _ Er) as (_ & F). cbn [fst]. apply F.
      intros Hr. apply Hj. eapply reach_trans; [|exact Hr]. assumption. }
    destruct X as [h1 e1] eqn:EX. cbn [fst] in HX.
    destruct e1; cbn [fst f_heap with_heap]; [apply HX; exact Hun|].
    destruct (negb (perm_on h1 p OpenWrite (v_user v))); cbn [fst f_heap with_heap]; [apply HX; exact Hun|].
    rewrite get_delete_node_ne, get_remove_child_ne by assumption. apply HX. exact Hun.
  Qed.

  (* WriteFile = OpenFile(O_WRONLY|O_CREATE|O_TRUNC) ; Write on the handle's node *)
  Theorem write_file_frame name data perm : get (f_heap (fst (write_file s v name data perm))) i = get h i.
  Proof.
    unfold write_file.
    destruct (open_file_frame 0 name (O_WRONLY + O_CREATE + O_TRUNC) perm) as (Hf & Hlen & Hnode).
    destruct (open_file s v 0 name (O_WRONLY + O_CREATE + O_TRUNC) perm) as [s1 [r1|f]]; cbn [fst snd] in *; [reflexivity|].
    destruct (Hnode f eq_refl) as (c & Hcn & Hcr).
    assert (Hne : i <> c) by (destruct Hcr as [Hr|Hl]; [apply ne_of_reach; exact Hr|lia]).
    assert (Hw : get (f_heap (fst (fst (f_write s1 v f data)))) i = get (f_heap s1) i).
    { unfold f_write. rewrite Hcn. repeat break_match; cbn [fst f_heap with_heap]; try reflexivity;
      apply get_upd_ne; exact Hne. }
    destruct (f_write s1 v f data) as [[s2 f2] r2]. cbn [fst] in Hw.
    destruct r2; cbn [fst]; rewrite Hw; exact Hf.
  Qed.
End Frame.

(* MkdirAll: the creation loop appends new nodes and links the first one into a reachable directory *)
Lemma mkdir_all_loop_frame (v : view) (h0 : heap) (P : nat -> Prop) (i : nat) :
  i < length h0 -> ~ P i ->
  forall fuel s1 dn pi perm,
  length h0 <= length (f_heap s1) -> (P dn \/ length h0 <= dn) ->
  get (f_heap s1) i = get h0 i ->
  get (f_heap (mkdir_all_loop fuel s1 v dn pi perm)) i = get h0 i.
Proof.
  intros Hi Hn. induction fuel as [|f IH]; intros s1 dn pi perm Hlen Hdn Hget; [exact Hget|].
  cbn [mkdir_all_loop]. destruct (alookup str_eqb (pi_part pi) (children (f_heap s1) dn)); [exact Hget|].
  assert (Hne : i <> dn) by (destruct Hdn as [Hp|Hl]; [intros E; subst; contradiction|lia]).
  assert (Hstep : get (f_heap (fst (create_dir s1 v dn (pi_part pi) perm))) i = get h0 i).
  { cbn [create_dir fst f_heap]. rewrite get_add_child_ne by exact Hne. rewrite get_app_old by lia. exact Hget. }
  destruct (create_dir s1 v dn (pi_part pi) perm) as [s2 c] eqn:Ecd.
  unfold create_dir in Ecd. injection Ecd as Es2 Ec.
  assert (Hc : c = length (f_heap s1)) by (symmetry; exact Ec).
  assert (Hlen2 : length h0 <= length (f_heap s2)).
  { rewrite <- Es2. cbn [f_heap]. rewrite add_child_length, app_length. lia. }
  cbn [fst] in Hstep. destruct (pi_next (v_os v) pi) as [ok pi1]. destruct ok; [|exact Hstep].
  apply IH; [exact Hlen2|right; lia|exact Hstep].
Qed.

Theorem mkdir_all_frame (s : fsys) (v : view) (i : nat) (path : str) (perm : N) :
  v_os v = Linux -> i < length (f_heap s) -> ~ reach (f_heap s) (v_root v) i ->
  get (f_heap (fst (mkdir_all s v path perm))) i = get (f_heap s) i.
Proof.
  intros Hos Hi Hun. unfold mkdir_all.
  pose proof (search_node_confined s v path SlEval Hos) as Hc. set (r := search_node s v path SlEval) in *. clearbody r.
  assert (Hloop : forall p, sr_parent r = Some p ->
            get (f_heap (mkdir_all_loop (S (length (pi_path (sr_pi r)))) s v p (sr_pi r) perm)) i = get (f_heap s) i).
  { intros p Ep. apply (mkdir_all_loop_frame v (f_heap s) (reach (f_heap s) (v_root v)) i Hi Hun); auto.
    left. apply (proj1 Hc). exact Ep. }
  repeat break_match; cbn [fst]; try reflexivity; apply Hloop; reflexivity.
Qed.

(* ---- every namespace call, at the level of the world's step function --------------------------------- *)
From Avfs Require Import World SubIsolated.

Theorem wstep_frame (w : world) (c : call) (vi : nat) (v : view) (i : nat) :
  ns_view c = Some vi -> nth_error (w_views w) vi = Some v -> v_os v = Linux ->
  i < length (f_heap (w_fs w)) -> ~ reach (f_heap (w_fs w)) (v_root v) i ->
  get (f_heap (w_fs (fst (wstep w c)))) i = get (f_heap (w_fs w)) i.
Proof.
  intros Hc Hv Hos Hi Hun.
  destruct c; cbn [ns_view] in Hc; try discriminate; injection Hc as ->;
    cbn [wstep]; unfold on_view, lift; rewrite Hv; cbn [fst w_fs with_fs]; try reflexivity.
  - apply mkdir_frame; assumption.
  - apply mkdir_all_frame; assumption.
  - destruct (open_file_frame (w_fs w) v Hos i Hi Hun vi p flag perm) as (Hf & _).
    destruct (open_file (w_fs w) v vi p flag perm) as [s1 [r|f]]; cbn [fst w_fs with_fs] in *; exact Hf.
  - apply remove_frame; assumption.
  - apply remove_all_frame; assumption.
  - apply rename_frame; assumption.
  - apply link_frame; assumption.
  - apply symlink_frame; assumption.
  - apply truncate_frame; assumption.
  - apply chmod_frame; assumption.
  - apply chown_frame; assumption.
  - apply chown_frame; assumption.
  - destruct (chdir (w_fs w) v p); reflexivity.
  - apply write_file_frame; assumption.
  - destruct (sub (w_fs w) v p); reflexivity.
Qed.
