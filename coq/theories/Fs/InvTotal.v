(* Property C07, sequential part, MemFS: on every world satisfying the invariant of C05
   every call returns an ordinary result.
   - never RPanic / RDeadlock: UNCONDITIONAL (any constructor, any argument, any index):
     the panics of the model are nil-pointer dereferences (a walk that returned no parent or
     no child after reporting "exists", a dangling entry or handle), which [Inv] excludes;
   - never the model-only fuel error: the path walk runs on SEARCH_FUEL = 3000 iterations.
     walkproof's budget theorem (WalkBudget.search_budget_top) bounds the iterations by
     (slCountMax+1) * (|components of the absolute path| + slCountMax*T + 1), T the longest
     stored link target in components; the fuel part is therefore stated under that explicit
     size premise [call_sized] (and for calls that address an existing view / handle: a bad index is
     answered by the harness error RBadIndex = RFail EFuel).  The recursive removal of RemoveAll needs
     no premise: its fuel S |heap| suffices because the graph is acyclic. *)
From Avfs Require Import Base BaseProofs PathModel PathSpec PathProofs PathCleanProofs PathIterProofs.
From Avfs Require Import MemFS MemFile World Inv InvMutators InvSearch InvPath InvWorld InvConseq InvRemoveAll.
From Avfs Require Import WalkBudget WalkInv DacLemmas.

Definition no_panic (r : res) : Prop := r <> RPanic /\ r <> RDeadlock.
Definition no_fuel (r : res) : Prop :=
  match r with RFail EFuel | RErrPath EFuel _ => False | _ => True end.
Definition res_ok (r : res) : Prop := no_panic r /\ no_fuel r.

Lemma no_fuel_fail e : e <> EFuel -> no_fuel (RFail e).
Proof. destruct e; cbn; auto. Qed.
Lemma no_fuel_errpath e p : e <> EFuel -> no_fuel (RErrPath e p).
Proof. destruct e; cbn; auto. Qed.

(* ---- the size premise ---------------------------------------------------------------------- *)
Definition path_sized (h : heap) (v : view) (p : str) : Prop :=
  exists T, tbound h T /\
    (slCountMax + 1) * (length (path_comps (abs Linux (v_cwd v) p)) + slCountMax * T + 1) <= SEARCH_FUEL.

Lemma abs_is_abs_path cwd p :
  rooted cwd -> exists cs, abs Linux cwd p = abs_path cs /\ Forall good_comp cs.
Proof.
  intros Hc. unfold abs. destruct (is_abs Linux p) eqn:E.
  - destruct (PathCleanProofs.clean_rooted p E) as (cs & H1 & H2). exists cs. split; auto.
  - destruct Hc as (r & ->). unfold join. cbn [drop_empty_prefix intercalate].
    apply PathCleanProofs.clean_rooted. reflexivity.
Qed.

Lemma search_nofuel s v p slm :
  Inv_heap (f_heap s) -> f_vols s = [] -> view_ok (f_heap s) v -> path_sized (f_heap s) v p ->
  sr_err (search_node s v p slm) <> EFuel.
Proof.
  intros IH HV [Hr Hos Hc] (T & HT & Hsz). rewrite search_node_linux by assumption.
  destruct (abs_is_abs_path (v_cwd v) p Hc) as (cs & Ecs & Hg). rewrite Ecs in *.
  assert (Hok : Forall comp_ok cs) by (apply Forall_comp_ok_of; exact Hg).
  rewrite path_comps_abs_path in Hsz by exact Hok.
  eapply search_budget_top; eauto. now apply Inv_heap_ptr_valid.
Qed.

(* ---- RemoveAll's recursion never runs out of fuel on an acyclic graph ---------------------------- *)
Lemma chain_esub h' h l : esub h' h -> chain h' l -> chain h l.
Proof.
  intros Hs. induction l as [|a l IHl]; cbn [chain]; auto.
  destruct l as [|b l]; auto. intros [(n & He) Hc]. split; [exists n; now apply Hs | now apply IHl].
Qed.

Lemma unlink_esub h p n c : esub (delete_node (remove_child h p n) c) h.
Proof.
  intros a m b. unfold edge. rewrite delete_node_children, remove_child_children.
  destruct (Nat.eqb a c); [intros []|]. destruct (Nat.eqb_spec a p) as [->|]; auto.
  intros Hin. apply In_aremove in Hin as [_ Hin]. exact Hin.
Qed.

Lemma esub_trans h1 h2 h3 : esub h1 h2 -> esub h2 h3 -> esub h1 h3.
Proof. intros A B a n b H. apply B, A, H. Qed.

Lemma ra_esub u : forall fuel h d, esub (fst (remove_all_rec fuel h u d)) h.
Proof.
  induction fuel as [|f IHf]; intros h d; [intros a n b H; exact H|].
  rewrite remove_all_rec_S. destruct (negb (perm_on h d OpenWrite u)); [intros a n b H; exact H|].
  generalize (children h d). intros chs.
  assert (G : forall chs h', esub h' h -> esub (fst (ra_loop (fun h c => remove_all_rec f h u c) d chs h')) h).
  { clear chs. induction chs as [|[nm c] chs IHc]; intros h' Hs; cbn [ra_loop fst]; auto.
    destruct (node_is_dir h' c).
    - pose proof (IHf h' c) as H1. destruct (remove_all_rec f h' u c) as [h1 [e|]]; cbn [fst] in *.
      + eapply esub_trans; eauto.
      + apply IHc. eapply esub_trans; [apply unlink_esub|]. eapply esub_trans; eauto.
    - apply IHc. eapply esub_trans; [apply unlink_esub | exact Hs]. }
  apply G. intros a n b H; exact H.
Qed.

Lemma ra_nofuel u : forall fuel h d, maxlen h d fuel -> snd (remove_all_rec fuel h u d) <> Some EFuel.
Proof.
  induction fuel as [|f IHf]; intros h d Hm; [apply maxlen_pos in Hm; lia|].
  rewrite remove_all_rec_S. destruct (negb (perm_on h d OpenWrite u)); [cbn; discriminate|].
  assert (G : forall chs h', esub h' h -> (forall nm c, In (nm, c) chs -> edge h d nm c) ->
                snd (ra_loop (fun h c => remove_all_rec f h u c) d chs h') <> Some EFuel).
  { induction chs as [|[nm c] chs IHc]; intros h' Hs Hin; cbn [ra_loop snd]; [discriminate|].
    assert (Hmc : maxlen h' c f).
    { intros l Hc. apply (chain_esub _ _ _ Hs) in Hc.
      assert (He : edge h d nm c) by (apply Hin; now left).
      specialize (Hm (c :: l)). cbn [length] in *.
      assert (chain h (d :: c :: l)) by (split; eauto). specialize (Hm H). lia. }
    assert (Hin' : forall nm0 c0, In (nm0, c0) chs -> edge h d nm0 c0) by (intros; apply Hin; now right).
    destruct (node_is_dir h' c).
    - pose proof (IHf h' c Hmc) as H1. pose proof (ra_esub u f h' c) as H2.
      destruct (remove_all_rec f h' u c) as [h1 [e|]]; cbn [fst snd] in *; [exact H1|].
      apply IHc; auto. eapply esub_trans; [apply unlink_esub|]. eapply esub_trans; eauto.
    - apply IHc; auto. eapply esub_trans; [apply unlink_esub | exact Hs]. }
  apply G; [intros a n b H; exact H | intros nm c Hin; exact Hin].
Qed.

(* ---- per call ------------------------------------------------------------------------------------ *)
(* the fuel fact of a walk, found syntactically (no unification up to conversion: the walk must not be unfolded) *)
Ltac by_hyp HQ :=
  lazymatch goal with
  | |- sr_err ?r <> EFuel =>
      match goal with
      | H : _ -> sr_err r <> EFuel |- _ => exact (H HQ)
      | H : sr_err r <> EFuel |- _ => exact H
      end
  end.

(* no panic unconditionally; no fuel error under the size premise Q *)
Definition res_ok_if (Q : Prop) (r : res) : Prop := no_panic r /\ (Q -> no_fuel r).
Definition sum_ok_if {A} (Q : Prop) (x : res + A) : Prop := match x with inl r => res_ok_if Q r | inr _ => True end.

Lemma res_ok_if_ok (Q : Prop) r : res_ok_if Q r -> Q -> res_ok r.
Proof. intros [A B] HQ. split; auto. Qed.

Ltac fin :=
  cbn [fst snd sum_ok_if]; try exact I; unfold res_ok_if, no_panic;
  repeat split; try discriminate; try congruence;
  try (intros _; cbn [no_fuel]; exact I);
  try (intros HQ; apply no_fuel_fail; first [by_hyp HQ | discriminate | (destruct (win _); discriminate)]);
  try (intros HQ; apply no_fuel_errpath; first [by_hyp HQ | discriminate]).

(* lighter variant for call trees without impossible branches: no equations kept, no congruence *)
Ltac fin_lite :=
  cbn [fst snd sum_ok_if]; try exact I; unfold res_ok_if, no_panic;
  repeat split; try discriminate;
  try (intros _; cbn [no_fuel]; exact I);
  try (intros HQ; apply no_fuel_fail; first [by_hyp HQ | discriminate | (destruct (win _); discriminate)]);
  try (intros HQ; apply no_fuel_errpath; first [by_hyp HQ | discriminate]).

Ltac brk_lite :=
  cbv zeta;
  repeat match goal with
         | |- context [match ?x with _ => _ end] => destruct x
         end;
  fin_lite.

Ltac brk_ok :=
  cbv zeta;
  repeat match goal with
         | |- context [match ?x with _ => _ end] => destruct x eqn:?
         end;
  fin.

Section Total.
  Variables (s : fsys) (v : view).
  Hypothesis IH : Inv_heap (f_heap s).
  Hypothesis HV : f_vols s = [].
  Hypothesis VO : view_ok (f_heap s) v.

  Let sized := path_sized (f_heap s) v.

  Lemma nf p slm : sized p -> sr_err (search_node s v p slm) <> EFuel.
  Proof. intros. now apply search_nofuel. Qed.

  Lemma sp p slm : slm <> SlStat -> search_post (f_heap s) (search_node s v p slm).
  Proof. intros. now apply search_node_post. Qed.

  (* the general shape of what a walk returns, for every mode (SlStat included) *)
  Lemma search_shape p slm :
    exists par, sr_parent (search_node s v p slm) = Some par /\
    (forall c, sr_child (search_node s v p slm) = Some c -> c < length (f_heap s)) /\
    (is_file_exists (sr_err (search_node s v p slm)) = true -> sr_child (search_node s v p slm) <> None).
  Proof.
    destruct VO as [Vr Vos Vc]. rewrite search_node_linux by assumption.
    generalize (pi_new Linux (abs Linux (v_cwd v) p)) 0 (@None piter) SEARCH_FUEL.
    assert (Hr : v_root v < length (f_heap s)) by now apply is_dir_lt.
    generalize dependent (v_root v). intros vol _ Hvol.
    assert (G : forall fuel parent pi sl saved, parent < length (f_heap s) ->
      let r := search_loop fuel (f_heap s) v slm vol parent pi sl saved in
      exists par, sr_parent r = Some par /\ (forall c, sr_child r = Some c -> c < length (f_heap s)) /\
                  (is_file_exists (sr_err r) = true -> sr_child r <> None)).
    { induction fuel as [|f IHf]; intros parent pi sl saved Hp; cbn [search_loop].
      - exists parent. cbn. repeat split; try discriminate.
      - destruct (pi_next (v_os v) pi) as [ok pi1]. destruct ok; cbn [negb].
        2:{ exists parent. cbn. repeat split; try discriminate. now intros c [= <-]. }
        match goal with |- context [if ?b then _ else _] => destruct b end.
        { exists parent. cbn. repeat split; try discriminate. }
        destruct (alk (pi_part pi1) (children (f_heap s) parent)) as [c|] eqn:Elk.
        2:{ exists parent. cbn. repeat split; try discriminate. destruct (pi_is_last pi1); discriminate. }
        assert (Hc : c < length (f_heap s)).
        { apply alookup_In in Elk. eapply (I1_valid IH). exact Elk. }
        assert (Hret : forall e, exists par,
                  sr_parent {| sr_parent := Some parent; sr_child := Some c; sr_pi := out_pi pi1 saved; sr_err := e |} = Some par /\
                  (forall c0, sr_child {| sr_parent := Some parent; sr_child := Some c; sr_pi := out_pi pi1 saved; sr_err := e |} = Some c0 -> c0 < length (f_heap s)) /\
                  (is_file_exists e = true -> Some c <> None)).
        { intros e. exists parent. cbn. repeat split; try discriminate. now intros c0 [= <-]. }
        destruct (get (f_heap s) c) as [[ch m|dt k id m|lk m]|] eqn:Eg; cbv zeta.
        + destruct (pi_is_last pi1); [apply Hret|].
          destruct (check_permission m OpenLookup (v_user v)); [now apply IHf | apply Hret].
        + destruct (pi_is_last pi1); apply Hret.
        + repeat match goal with |- context [if ?b then _ else _] => destruct b end; try apply Hret.
          all: destruct (pi_replace_part (v_os v) pi1 lk) as [reset pi2]; apply IHf; destruct reset; auto.
        + apply Hret. }
    intros pi sl saved fuel. now apply G.
  Qed.

  Lemma child_get p slm c :
    sr_child (search_node s v p slm) = Some c -> get (f_heap s) c <> None.
  Proof.
    intros Hc. destruct (search_shape p slm) as (par & _ & H & _). specialize (H c Hc).
    destruct (get_some _ _ H) as (x & ->). discriminate.
  Qed.

  Lemma mkdir_total name perm : res_ok_if (sized name) (snd (mkdir s v name perm)).
  Proof.
    unfold mkdir. destruct name as [|b name]; [fin|].
    pose proof (nf (b :: name) SlLstat) as Hf.
    destruct (search_shape (b :: name) SlLstat) as (par & Hp & _). rewrite Hp. brk_ok.
  Qed.

  Lemma mkdir_all_total path perm : res_ok_if (sized path) (snd (mkdir_all s v path perm)).
  Proof.
    unfold mkdir_all. pose proof (nf path SlEval) as Hf.
    destruct (search_shape path SlEval) as (par & Hp & _). rewrite Hp. brk_ok.
  Qed.

  Lemma open_file_total vi name flag perm : sum_ok_if (sized name) (snd (open_file s v vi name flag perm)).
  Proof.
    unfold open_file. destruct name as [|b name]; [fin|].
    set (slm := if has (to_open_mode flag) OpenCreateExcl then SlLstat else SlEval).
    pose proof (nf (b :: name) slm) as Hf.
    destruct (search_shape (b :: name) slm) as (par & Hp & _ & Hex). fold slm. cbv zeta.
    set (r := search_node s v (b :: name) slm) in *. rewrite Hp.
    destruct (is_file_exists (sr_err r)) eqn:Efe.
    - specialize (Hex eq_refl). destruct (sr_child r) as [c|] eqn:Ec; [|congruence].
      destruct (is_not_exist (sr_err r)) eqn:Ene; [destruct (sr_err r); discriminate|].
      brk_ok.
    - destruct (is_not_exist (sr_err r)) eqn:Ene; brk_ok.
  Qed.

  Lemma remove_total name : res_ok_if (sized name) (snd (remove s v name)).
  Proof. unfold remove. pose proof (nf name SlLstat) as Hf. brk_ok. Qed.

  Lemma remove_all_total path : res_ok_if (sized path) (snd (remove_all s v path)).
  Proof.
    unfold remove_all. destruct path as [|b path]; [fin|].
    pose proof (nf (b :: path) SlLstat) as Hf.
    destruct (search_shape (b :: path) SlLstat) as (par & Hp & Hv & Hex).
    set (r := search_node s v (b :: path) SlLstat) in *. rewrite Hp.
    destruct (is_not_exist (sr_err r)); [fin|].
    destruct (is_file_exists (sr_err r)) eqn:Efe; cbn [negb]; [|fin].
    specialize (Hex eq_refl). destruct (sr_child r) as [c|] eqn:Ec; [|congruence].
    destruct (Nat.eqb par c); [fin|].
    pose proof (ra_nofuel (v_user v) (S (length (f_heap s))) (f_heap s) c (maxlen_heap _ c IH)) as Hra.
    destruct (match get (f_heap s) c with Some (NDir (_ :: _) _) => true | _ => false end).
    - destruct (remove_all_rec (S (length (f_heap s))) (f_heap s) (v_user v) c) as [h1 [e|]]; cbn [snd] in Hra.
      + fin. intros _. apply no_fuel_fail. congruence.
      + destruct (negb (perm_on h1 par OpenWrite (v_user v))); fin.
    - destruct (negb (perm_on (f_heap s) par OpenWrite (v_user v))); fin.
  Qed.

  Lemma rename_total o n : res_ok_if (sized o /\ sized n) (snd (rename s v o n)).
  Proof.
    unfold rename. cbv zeta.
    assert (Hfo : sized o /\ sized n -> sr_err (search_node s v o SlLstat) <> EFuel) by (intros [? ?]; now apply nf).
    assert (Hfn : sized o /\ sized n -> sr_err (search_node s v n SlLstat) <> EFuel) by (intros [? ?]; now apply nf).
    destruct (search_shape o SlLstat) as (op & Hop & _ & Hexo).
    destruct (search_shape n SlLstat) as (np & Hnp & _ & _).
    set (ro := search_node s v o SlLstat) in *. set (rn := search_node s v n SlLstat) in *.
    destruct (is_file_exists (sr_err ro)) eqn:Eo; cbn [negb]; [|fin].
    specialize (Hexo eq_refl). destruct (sr_child ro) as [oc|] eqn:Eoc; [|congruence].
    rewrite Hop, Hnp. cbv zeta.
    (* the tests before the permission checks first (an outermost-first case split would lose them) *)
    destruct (get (f_heap s) oc) as [[ch m|d k i m|t m]|].
    1: match goal with |- context [if ?b then Some (if ?b2 then ROk else _) else if ?b3 then _ else None] =>
         destruct b; [destruct b2|destruct b3] end.
    5,6: match goal with |- context [if ?b then Some ROk else None] => destruct b end.
    all: cbv iota; brk_lite.
  Qed.

  Lemma link_total o n : res_ok_if (sized o /\ sized n) (snd (link s v o n)).
  Proof.
    unfold link.
    assert (Hfo : sized o /\ sized n -> sr_err (search_node s v o SlLstat) <> EFuel) by (intros [? ?]; now apply nf).
    assert (Hfn : sized o /\ sized n -> sr_err (search_node s v n SlLstat) <> EFuel) by (intros [? ?]; now apply nf).
    destruct (search_shape n SlLstat) as (np & Hnp & _). rewrite Hnp. brk_ok.
  Qed.

  Lemma symlink_total o n : res_ok_if (sized n) (snd (symlink s v o n)).
  Proof.
    unfold symlink. pose proof (nf n SlLstat) as Hfn.
    destruct (search_shape n SlLstat) as (np & Hnp & _). rewrite Hnp. brk_ok.
  Qed.

  Lemma readlink_total p : res_ok_if (sized p) (readlink s v p).
  Proof. unfold readlink. pose proof (nf p SlLstat) as Hf. brk_ok. Qed.

  Lemma truncate_total p size : res_ok_if (sized p) (snd (truncate s v p size)).
  Proof. unfold truncate. pose proof (nf p SlEval) as Hf. brk_ok. Qed.

  Lemma chmod_total p mode : res_ok_if (sized p) (snd (chmod s v p mode)).
  Proof. unfold chmod. pose proof (nf p SlEval) as Hf. brk_ok. Qed.

  Lemma chown_gen_total slm p uid gid : res_ok_if (sized p) (snd (chown_gen slm s v p uid gid)).
  Proof.
    unfold chown_gen. pose proof (nf p slm) as Hf. pose proof (child_get p slm) as Hg.
    destruct (win v); [fin|].
    destruct (sr_child (search_node s v p slm)) as [c|]; [|fin].
    specialize (Hg c eq_refl). brk_ok.
  Qed.

  Lemma chtimes_total p : res_ok_if (sized p) (chtimes s v p).
  Proof.
    unfold chtimes. pose proof (nf p SlEval) as Hf. pose proof (child_get p SlEval) as Hg.
    destruct (sr_child (search_node s v p SlEval)) as [c|]; [|fin].
    specialize (Hg c eq_refl). brk_ok.
  Qed.

  Lemma chdir_total p : sum_ok_if (sized p) (chdir s v p).
  Proof. unfold chdir. pose proof (nf p SlEval) as Hf. brk_ok. Qed.

  Lemma stat_gen_total slm p : res_ok_if (sized p) (stat_gen slm s v p).
  Proof.
    unfold stat_gen. pose proof (nf p slm) as Hf. pose proof (child_get p slm) as Hg.
    destruct (sr_child (search_node s v p slm)) as [c|]; [|fin].
    specialize (Hg c eq_refl). brk_ok.
  Qed.

  Lemma eval_symlinks_total p : res_ok_if (sized p) (eval_symlinks s v p).
  Proof. unfold eval_symlinks. pose proof (nf p SlEval) as Hf. brk_ok. Qed.

  Lemma sub_total p : sum_ok_if (sized p) (sub s v p).
  Proof. unfold sub. pose proof (nf p SlEval) as Hf. brk_ok. Qed.
End Total.

Lemma res_ok_weaken (Q : Prop) r : res_ok r -> res_ok_if Q r.
Proof. intros [A B]. split; auto. Qed.

(* ---- handle methods: any handle that points to an allocated node ------------------------------------ *)
Definition sum_ok {A} (x : res + A) : Prop := match x with inl r => res_ok r | inr _ => True end.

Ltac fin0 := cbn [fst snd sum_ok]; try exact I; unfold res_ok, no_panic; repeat split; try discriminate; try congruence;
             try (cbn [no_fuel]; exact I); try (destruct (win _); cbn [no_fuel]; exact I).
Ltac brk0 :=
  cbv zeta;
  repeat match goal with
         | |- context [match ?x with _ => _ end] => destruct x eqn:?
         end;
  fin0.

Section HandleTotal.
  Variables (s : fsys) (v : view) (f : handle).
  Hypothesis HF : handle_ok (f_heap s) f.

  Lemma hget c : hd_node f = Some c -> get (f_heap s) c <> None.
  Proof. intros Hc. destruct (get_some _ _ (HF c Hc)) as (x & ->). discriminate. Qed.

  Lemma f_read_total n : res_ok (snd (f_read s v f n)).
  Proof. unfold f_read. brk0. Qed.
  Lemma f_read_at_total n off : res_ok (f_read_at s v f n off).
  Proof. unfold f_read_at. brk0. Qed.
  Lemma f_write_total b : res_ok (snd (f_write s v f b)).
  Proof. unfold f_write. brk0. Qed.
  Lemma f_write_at_total b off : res_ok (snd (f_write_at s v f b off)).
  Proof. unfold f_write_at. brk0. Qed.
  Lemma f_seek_total off wh : res_ok (snd (f_seek s v f off wh)).
  Proof. unfold f_seek. brk0. Qed.
  Lemma f_truncate_total size : res_ok (snd (f_truncate s v f size)).
  Proof. unfold f_truncate. brk0. Qed.
  Lemma f_stat_total : res_ok (f_stat s v f).
  Proof.
    unfold f_stat. pose proof hget as Hg. destruct (hd_name f); [fin0|].
    destruct (hd_node f) as [c|]; [|fin0]. specialize (Hg c eq_refl). brk0.
  Qed.
  Lemma f_sync_total : res_ok (f_sync f).
  Proof. unfold f_sync. brk0. Qed.
  Lemma f_chmod_total mode : res_ok (snd (f_chmod s v f mode)).
  Proof. unfold f_chmod. brk0. Qed.
  Lemma f_chown_total uid gid : res_ok (snd (f_chown s v f uid gid)).
  Proof.
    unfold f_chown. pose proof hget as Hg. destruct (hd_name f); [fin0|].
    destruct (hd_node f) as [c|]; [|fin0]. specialize (Hg c eq_refl). brk0.
  Qed.
  Lemma f_chdir_total : sum_ok (f_chdir s v f).
  Proof. unfold f_chdir. brk0. Qed.
  Lemma f_close_total : res_ok (snd (f_close f)).
  Proof. unfold f_close. brk0. Qed.
  Lemma f_read_dir_total n : res_ok (snd (f_read_dir s v f n)).
  Proof. unfold f_read_dir, dir_read. brk0. Qed.
  Lemma f_readdirnames_total n : res_ok (snd (f_readdirnames s v f n)).
  Proof. unfold f_readdirnames, dir_read. brk0. Qed.
End HandleTotal.

(* methods that never look at the node need no hypothesis on the handle *)
Lemma f_read_dir_total_any s v f n : res_ok (snd (f_read_dir s v f n)).
Proof. unfold f_read_dir, dir_read. brk0. Qed.
Lemma f_read_total_any s v f n : res_ok (snd (f_read s v f n)).
Proof. unfold f_read. brk0. Qed.
Lemma f_write_total_any s v f b : res_ok (snd (f_write s v f b)).
Proof. unfold f_write. brk0. Qed.

(* ---- composites -------------------------------------------------------------------------------------- *)
Section Composites.
  Variables (s : fsys) (v : view).
  Hypothesis IH : Inv_heap (f_heap s).
  Hypothesis HV : f_vols s = [].
  Hypothesis VO : view_ok (f_heap s) v.

  Lemma read_dir_total name : res_ok_if (path_sized (f_heap s) v name) (read_dir s v name).
  Proof.
    unfold read_dir. pose proof (open_file_total s v IH HV VO 0 name 0 0) as H.
    destruct (open_file s v 0 name 0 0) as [s1 [r|f]]; cbn [snd sum_ok_if] in H; [exact H|].
    apply res_ok_weaken, f_read_dir_total_any.
  Qed.

  Lemma read_file_total name : res_ok_if (path_sized (f_heap s) v name) (read_file s v name).
  Proof.
    unfold read_file. pose proof (open_file_total s v IH HV VO 0 name 0 0) as H.
    destruct (open_file s v 0 name 0 0) as [s1 [r|f]]; cbn [snd sum_ok_if] in H; [exact H|].
    apply res_ok_weaken.
    match goal with |- context [f_read s1 v f ?n] => pose proof (f_read_total_any s1 v f n) as Hr;
      destruct (f_read s1 v f n) as [f' r] end.
    cbn [snd] in Hr. destruct r; auto. fin0.
  Qed.

  Lemma write_file_total name data perm :
    res_ok_if (path_sized (f_heap s) v name) (snd (write_file s v name data perm)).
  Proof.
    unfold write_file.
    pose proof (open_file_total s v IH HV VO 0 name (O_WRONLY + O_CREATE + O_TRUNC)%N perm) as H.
    destruct (open_file s v 0 name (O_WRONLY + O_CREATE + O_TRUNC)%N perm) as [s1 [r|f]]; cbn [snd sum_ok_if] in H; [exact H|].
    apply res_ok_weaken. pose proof (f_write_total_any s1 v f data) as Hr.
    destruct (f_write s1 v f data) as [[s2 f'] r]. cbn [snd] in *. destruct r; auto; fin0.
  Qed.
End Composites.

(* ---- the world --------------------------------------------------------------------------------------------- *)
Definition on_v (w : world) (vi : nat) (P : view -> Prop) : Prop :=
  forall v, nth_error (w_views w) vi = Some v -> P v.

(* the size premise of a call: every path argument that is walked *)
Definition call_sized (w : world) (c : call) : Prop :=
  let h := f_heap (w_fs w) in
  match c with
  | CMkdir vi p _ | CMkdirAll vi p _ | COpenFile vi p _ _ | CRemove vi p | CRemoveAll vi p | CReadlink vi p
  | CTruncate vi p _ | CChmod vi p _ | CChown vi p _ _ | CLchown vi p _ _ | CChtimes vi p | CChdir vi p
  | CStat vi p | CLstat vi p | CEvalSymlinks vi p | CReadDir vi p | CReadFile vi p | CWriteFile vi p _ _ | CSub vi p =>
      on_v w vi (fun v => path_sized h v p)
  | CRename vi o n | CLink vi o n => on_v w vi (fun v => path_sized h v o /\ path_sized h v n)
  | CSymlink vi _ n => on_v w vi (fun v => path_sized h v n)
  | _ => True
  end.

(* the call addresses an existing view / an existing handle (otherwise the harness error RBadIndex) *)
Definition call_in_range (w : world) (c : call) : Prop :=
  match c with
  | CMkdir vi _ _ | CMkdirAll vi _ _ | COpenFile vi _ _ _ | CRemove vi _ | CRemoveAll vi _ | CRename vi _ _
  | CLink vi _ _ | CSymlink vi _ _ | CReadlink vi _ | CTruncate vi _ _ | CChmod vi _ _ | CChown vi _ _ _
  | CLchown vi _ _ _ | CChtimes vi _ | CChdir vi _ | CGetwd vi | CStat vi _ | CLstat vi _ | CEvalSymlinks vi _
  | CReadDir vi _ | CReadFile vi _ | CWriteFile vi _ _ _ | CSub vi _ | CSetUser vi _ _ _ | CSetUMask vi _ =>
      vi < length (w_views w)
  | FRead hi _ | FReadAt hi _ _ | FWrite hi _ | FWriteAt hi _ _ | FSeek hi _ _ | FTruncate hi _ | FStat hi | FSync hi
  | FChmod hi _ | FChown hi _ _ | FChdir hi | FClose hi | FReadDir hi _ | FReaddirnames hi _ =>
      hi < length (w_handles w)
  end.

(* every handle belongs to an existing view (true initially, kept by every step: hviews_ok_step) *)
Definition hviews_ok (w : world) : Prop := Forall (fun f => hd_view f < length (w_views w)) (w_handles w).

Lemma bad_index_no_panic : no_panic RBadIndex.
Proof. split; discriminate. Qed.

Theorem memfs_total_if w c :
  Inv w -> hviews_ok w ->
  no_panic (snd (wstep w c)) /\ (call_in_range w c -> call_sized w c -> no_fuel (snd (wstep w c))).
Proof.
  intros IW HW. pose proof (inv_heap IW) as IH. pose proof (inv_vols IW) as HV.
  assert (VOK : forall vi v, nth_error (w_views w) vi = Some v -> view_ok (f_heap (w_fs w)) v).
  { intros vi v E. eapply Forall_nth_error; [apply (inv_views IW) | exact E]. }
  assert (HOK : forall hi f, nth_error (w_handles w) hi = Some f -> handle_ok (f_heap (w_fs w)) f).
  { intros hi f E. eapply Forall_nth_error; [apply (inv_handles IW) | exact E]. }
  assert (Hbadv : forall vi, nth_error (w_views w) vi = None -> vi < length (w_views w) -> False).
  { intros vi E Hlt. apply nth_error_None in E. lia. }
  assert (Hbadh : forall hi, nth_error (w_handles w) hi = None -> hi < length (w_handles w) -> False).
  { intros hi E Hlt. apply nth_error_None in E. lia. }
  assert (Hif : forall (Q : Prop) r, res_ok_if Q r -> forall (R S : Prop), (R -> S -> Q) -> no_panic r /\ (R -> S -> no_fuel r)).
  { intros Q r [A B] R S HQ. split; auto. }
  assert (Hok : forall r, res_ok r -> forall (R S : Prop), no_panic r /\ (R -> S -> no_fuel r)).
  { intros r [A B] R S. split; auto. }
  destruct c; cbn [wstep call_in_range call_sized]; unfold on_view, on_handle, lift, on_v.
  1-25: destruct (nth_error (w_views w) vi) as [v|] eqn:Ev;
        [pose proof (VOK _ _ Ev) as VO | split; [apply bad_index_no_panic | intros Hr; exfalso; eauto]]; cbn [fst snd].
  26-39: destruct (nth_error (w_handles w) hi) as [f|] eqn:Ef;
         [|split; [apply bad_index_no_panic | intros Hr; exfalso; eauto]].
  26-39: pose proof (HOK _ _ Ef) as HF.
  26-39: assert (Hvf : hd_view f < length (w_views w))
         by (unfold hviews_ok in HW; rewrite Forall_forall in HW; apply HW; eapply nth_error_In; eauto).
  26-39: destruct (nth_error (w_views w) (hd_view f)) as [v|] eqn:Ev; [|exfalso; eauto].
  - eapply Hif; [apply (mkdir_total _ v IH HV VO) | auto].
  - eapply Hif; [apply (mkdir_all_total _ v IH HV VO) | auto].
  - pose proof (open_file_total _ v IH HV VO vi p flag perm) as H.
    destruct (open_file (w_fs w) v vi p flag perm) as [s1 [r|f]]; cbn [fst snd sum_ok_if] in *.
    + eapply Hif; [exact H | auto].
    + apply Hok. fin0.
  - eapply Hif; [apply (remove_total _ v IH HV VO) | auto].
  - eapply Hif; [apply (remove_all_total _ v IH HV VO) | auto].
  - eapply Hif; [apply (rename_total _ v IH HV VO) | auto].
  - eapply Hif; [apply (link_total _ v IH HV VO) | auto].
  - eapply Hif; [apply (symlink_total _ v IH HV VO) | auto].
  - eapply Hif; [apply (readlink_total _ v IH HV VO) | auto].
  - eapply Hif; [apply (truncate_total _ v IH HV VO) | auto].
  - eapply Hif; [apply (chmod_total _ v IH HV VO) | auto].
  - eapply Hif; [apply (chown_gen_total _ v IH HV VO) | auto].
  - eapply Hif; [apply (chown_gen_total _ v IH HV VO) | auto].
  - eapply Hif; [apply (chtimes_total _ v IH HV VO) | auto].
  - pose proof (chdir_total _ v IH HV VO p) as H.
    destruct (chdir (w_fs w) v p) as [r|d]; cbn [fst snd sum_ok_if] in *.
    + eapply Hif; [exact H | auto].
    + apply Hok. fin0.
  - apply Hok. cbn [snd]. destruct (getwd_cases (w_fs w) v) as [-> | ->]; fin0.
  - eapply Hif; [apply (stat_gen_total _ v IH HV VO) | auto].
  - eapply Hif; [apply (stat_gen_total _ v IH HV VO) | auto].
  - eapply Hif; [apply (eval_symlinks_total _ v IH HV VO) | auto].
  - eapply Hif; [apply (read_dir_total _ v IH HV VO) | auto].
  - eapply Hif; [apply (read_file_total _ v IH HV VO) | auto].
  - eapply Hif; [apply (write_file_total _ v IH HV VO) | auto].
  - pose proof (sub_total _ v IH HV VO p) as H.
    destruct (sub (w_fs w) v p) as [r|v']; cbn [fst snd sum_ok_if] in *.
    + eapply Hif; [exact H | auto].
    + apply Hok. fin0.
  - apply Hok. fin0.
  - apply Hok. fin0.
  (* handle calls *)
  - pose proof (f_read_total (w_fs w) v f n) as H. destruct (f_read (w_fs w) v f n). now apply Hok.
  - apply Hok, f_read_at_total.
  - pose proof (f_write_total (w_fs w) v f b) as H. destruct (f_write (w_fs w) v f b) as [[? ?] ?]. now apply Hok.
  - apply Hok, f_write_at_total.
  - pose proof (f_seek_total (w_fs w) v f off whence) as H. destruct (f_seek (w_fs w) v f off whence). now apply Hok.
  - apply Hok, f_truncate_total.
  - apply Hok, f_stat_total, HF.
  - apply Hok, f_sync_total.
  - apply Hok, f_chmod_total.
  - apply Hok, f_chown_total, HF.
  - pose proof (f_chdir_total (w_fs w) v f) as H. destruct (f_chdir (w_fs w) v f); cbn [snd sum_ok] in *; apply Hok; [exact H | fin0].
  - pose proof (f_close_total f) as H. destruct (f_close f). now apply Hok.
  - pose proof (f_read_dir_total (w_fs w) v f n) as H. destruct (f_read_dir (w_fs w) v f n). now apply Hok.
  - pose proof (f_readdirnames_total (w_fs w) v f n) as H. destruct (f_readdirnames (w_fs w) v f n). now apply Hok.
Qed.

(* ---- histories ------------------------------------------------------------------------------------------ *)
Lemma set_nth__length {A} (l : list A) i x : length (set_nth_ l i x) = length l.
Proof. revert i; induction l as [|y l IHl]; intros [|i]; cbn [set_nth_ length]; auto. Qed.

Definition view_kept (f f' : handle) : Prop := hd_view f' = hd_view f.

Ltac brkv := cbv zeta; repeat match goal with |- context [match ?x with _ => _ end] => destruct x end;
             cbn [fst snd hd_view new_handle]; try reflexivity.

Lemma f_read_view s v f n : view_kept f (fst (f_read s v f n)).
Proof. unfold f_read, view_kept. brkv. Qed.
Lemma f_seek_view s v f o wh : view_kept f (fst (f_seek s v f o wh)).
Proof. unfold f_seek, view_kept, set_at. brkv. Qed.
Lemma f_close_view f : view_kept f (fst (f_close f)).
Proof. unfold f_close, view_kept. brkv. Qed.
Lemma f_read_dir_view s v f n : view_kept f (fst (f_read_dir s v f n)).
Proof. unfold f_read_dir, dir_read, view_kept. brkv. Qed.
Lemma f_readdirnames_view s v f n : view_kept f (fst (f_readdirnames s v f n)).
Proof. unfold f_readdirnames, dir_read, view_kept. brkv. Qed.
Lemma f_write_view s v f b : view_kept f (snd (fst (f_write s v f b))).
Proof. unfold f_write, view_kept, set_at. brkv. Qed.

Lemma open_file_view s v vi name flag perm f :
  snd (open_file s v vi name flag perm) = inr f -> hd_view f = vi.
Proof.
  unfold open_file, create_file. cbv zeta.
  repeat match goal with |- context [match ?x with _ => _ end] => destruct x end;
    cbn [fst snd]; intros E; try discriminate; injection E as <-; reflexivity.
Qed.

Lemma hviews_with_handle w hi f f' :
  hviews_ok w -> nth_error (w_handles w) hi = Some f -> view_kept f f' -> hviews_ok (with_handle w hi f').
Proof.
  unfold hviews_ok. intros H E K. cbn [with_handle w_handles w_views]. apply Forall_set_nth_; auto.
  rewrite K. rewrite Forall_forall in H. apply H. eapply nth_error_In; eauto.
Qed.

Lemma hviews_with_view w vi v' : hviews_ok w -> hviews_ok (with_view w vi v').
Proof. unfold hviews_ok. cbn [with_view w_handles w_views]. now rewrite set_nth__length. Qed.

Theorem hviews_ok_step w c : hviews_ok w -> hviews_ok (fst (wstep w c)).
Proof.
  intros HW. destruct c; cbn [wstep]; unfold on_view, on_handle, lift.
  1-25: destruct (nth_error (w_views w) vi) as [v|] eqn:Ev; [|exact HW]; cbn [fst]; try exact HW.
  all: try (destruct (nth_error (w_handles w) hi) as [f|] eqn:Ef; [|exact HW];
            destruct (nth_error (w_views w) (hd_view f)) as [v|] eqn:Ev; [|exact HW]; cbn [fst]; try exact HW).
  - pose proof (open_file_view (w_fs w) v vi p flag perm) as Hv.
    destruct (open_file (w_fs w) v vi p flag perm) as [s1 [r|f]]; cbn [fst snd] in *; [exact HW|].
    unfold hviews_ok in *. cbn [w_handles w_views]. apply Forall_app. split; auto.
    constructor; auto. rewrite (Hv f eq_refl). apply nth_error_Some. congruence.
  - destruct (chdir (w_fs w) v p); cbn [fst]; [exact HW | now apply hviews_with_view].
  - destruct (sub (w_fs w) v p); cbn [fst]; [exact HW|].
    unfold hviews_ok in *. cbn [w_handles w_views]. eapply Forall_impl; [|exact HW].
    intros f Hf. cbv beta in *. rewrite app_length. lia.
  - now apply hviews_with_view.
  - now apply hviews_with_view.
  - pose proof (f_read_view (w_fs w) v f n) as K. destruct (f_read (w_fs w) v f n). eapply hviews_with_handle; eauto.
  - pose proof (f_write_view (w_fs w) v f b) as K. destruct (f_write (w_fs w) v f b) as [[s1 f'] r]. cbn [fst snd] in *.
    eapply (hviews_with_handle (with_fs w s1)); eauto.
  - pose proof (f_seek_view (w_fs w) v f off whence) as K. destruct (f_seek (w_fs w) v f off whence).
    eapply hviews_with_handle; eauto.
  - destruct (f_chdir (w_fs w) v f); cbn [fst]; [exact HW | now apply hviews_with_view].
  - pose proof (f_close_view f) as K. destruct (f_close f). eapply hviews_with_handle; eauto.
  - pose proof (f_read_dir_view (w_fs w) v f n) as K. destruct (f_read_dir (w_fs w) v f n). eapply hviews_with_handle; eauto.
  - pose proof (f_readdirnames_view (w_fs w) v f n) as K. destruct (f_readdirnames (w_fs w) v f n).
    eapply hviews_with_handle; eauto.
Qed.

Lemma hviews_ok_init um : hviews_ok (init_world_linux um).
Proof. constructor. Qed.

(* every call of the history addresses an existing view / handle and satisfies the size premise in the
   state in which it is made *)
Fixpoint run_ok (w : world) (cs : list call) : Prop :=
  match cs with
  | [] => True
  | c :: r => call_in_range w c /\ call_sized w c /\ run_ok (fst (wstep w c)) r
  end.

Theorem memfs_run_no_panic : forall cs w, Inv w -> hviews_ok w -> Forall no_panic (snd (wrun w cs)).
Proof.
  induction cs as [|c cs IHcs]; intros w IW HW; cbn [wrun]; [constructor|].
  pose proof (proj1 (memfs_total_if w c IW HW)) as H1.
  pose proof (Inv_step w c IW) as IW'. pose proof (hviews_ok_step w c HW) as HW'.
  destruct (wstep w c) as [w1 r1]. cbn [fst snd] in *.
  specialize (IHcs w1 IW' HW'). destruct (wrun w1 cs) as [w2 rs]. cbn [snd] in *. constructor; auto.
Qed.

Theorem memfs_run_total : forall cs w, Inv w -> hviews_ok w -> run_ok w cs -> Forall res_ok (snd (wrun w cs)).
Proof.
  induction cs as [|c cs IHcs]; intros w IW HW HR; cbn [wrun]; [constructor|].
  destruct HR as (Hr & Hs & Hrest).
  destruct (memfs_total_if w c IW HW) as [H1 H2]. specialize (H2 Hr Hs).
  pose proof (Inv_step w c IW) as IW'. pose proof (hviews_ok_step w c HW) as HW'.
  destruct (wstep w c) as [w1 r1]. cbn [fst snd] in *.
  specialize (IHcs w1 IW' HW' Hrest). destruct (wrun w1 cs) as [w2 rs]. cbn [snd] in *.
  constructor; auto. split; auto.
Qed.

(* ---- the size premise is decidable (used by the non-vacuity examples) ------------------------------------ *)
Definition tboundb (h : heap) (T : nat) : bool :=
  forallb (fun n => match n with NSym t _ => Nat.leb (length (comps t)) T | _ => true end) h.

Lemma tboundb_sound h T : tboundb h T = true -> tbound h T.
Proof.
  unfold tboundb, tbound. intros H i t m Hg. rewrite forallb_forall in H.
  unfold get in Hg. apply nth_error_In in Hg. specialize (H _ Hg). now apply Nat.leb_le in H.
Qed.

Definition path_sizedb (h : heap) (v : view) (p : str) (T : nat) : bool :=
  tboundb h T &&
  Nat.leb ((slCountMax + 1) * (length (path_comps (abs Linux (v_cwd v) p)) + slCountMax * T + 1)) SEARCH_FUEL.

Lemma path_sizedb_sound h v p T : path_sizedb h v p T = true -> path_sized h v p.
Proof.
  unfold path_sizedb. intros H. apply Bool.andb_true_iff in H as [H1 H2].
  exists T. split; [now apply tboundb_sound | now apply Nat.leb_le].
Qed.
