(* Instances of the generic composites of Walk.v / Glob.v:
   - the MemFS model (MemFS.v / MemFile.v: Lstat, Stat, ReadDir, OpenFile+Readdirnames) - the
     implementation side;
   - the Linux specification model (Posix.v: lstat/stat, os.ReadDir, open+getdents) - the reference side;
   - BasePathFS over an instance (paths translated on the way in);
   and the callback policies "return X at visit i" the correspondence run enumerates. *)
From Avfs Require Import Base PathModel PathMatch MemFS MemFile World Posix Walk Glob.
Set Implicit Arguments.

Definition sinfo_of (i : finfo) : sinfo := {| si_name := fi_name i; si_mode := fi_mode i; si_size := fi_size i |}.
Definition dent_of (i : finfo) : dent := {| de_name := fi_name i; de_mode := fi_mode i |}.

Definition match_of (check_rest : bool) (pattern name : str) : mr :=
  match path_match Linux check_rest pattern name with MBad => MrBad | MVal b => MrVal b end.

(* ---- MemFS ------------------------------------------------------------------------ *)
Section Mem.
  Variable check_rest : bool.      (* true: Match is path/filepath's (default build); false: avfs' own *)
  Variable s : fsys.
  Variable v : view.

  Definition mem_stat (slm : slmode) (p : str) : rs ekind sinfo :=
    match stat_gen slm s v p with
    | RInfo i => RsOk (sinfo_of i)
    | RFail e => RsErr e
    | _ => RsErr EFuel
    end.

  (* OpenFile(O_RDONLY) ; f.ReadDir(-1) : what the file returns (MemFile.ReadDir(-1) happens to be sorted) *)
  Definition mem_file_read_dir (p : str) : list dent * option ekind :=
    match read_dir s v p with
    | RInfos l oe => (map dent_of l, oe)
    | RFail e => ([], Some e)
    | _ => ([], Some EFuel)
    end.

  (* vfs.ReadDir: the generic composite sorts whatever the file returned *)
  Definition mem_read_dir : str -> list dent * option ekind := vfs_read_dir mem_file_read_dir.

  Definition mem_dir_names (p : str) : option (list str) :=
    match open_file s v 0 p 0 0 with
    | (_, Datatypes.inl _) => None
    | (s1, Datatypes.inr f) =>
        match f_readdirnames s1 v f (-1) with
        | (_, RNames l _) => Some l
        | _ => Some []
        end
    end.

  Definition mem_prims : prims ekind :=
    {| p_lstat := mem_stat SlLstat; p_stat := mem_stat SlStat; p_read_dir := mem_read_dir;
       p_dir_names := mem_dir_names; p_match := match_of check_rest; p_not_exist := is_not_exist |}.

  Definition mem_fuel : nat := S (length (f_heap s)).
End Mem.

(* ---- Linux (specification) -------------------------------------------------------------- *)
Section Px.
  Variable s : fsys.
  Variable sv : sview.

  Definition px_stat (follow : bool) (p : str) : rs N sinfo :=
    match k_stat follow s sv p with
    | SInfo i => RsOk (sinfo_of i)
    | SErr e => RsErr e
    | _ => RsErr EFUEL
    end.

  Definition px_read_dir (p : str) : list dent * option N :=
    match go_read_dir s sv p with
    | SInfos l => (map dent_of l, None)
    | SErr e => ([], Some e)
    | _ => ([], Some EFUEL)
    end.

  (* os.Open(dir) ; Readdirnames(-1) : the names in directory order (Glob sorts them) *)
  Definition px_dir_names (p : str) : option (list str) :=
    match k_open s sv p 0 0 with
    | (_, Datatypes.inl _) => None
    | (s1, Datatypes.inr c) =>
        match get (f_heap s1) c with
        | Some (NDir ch _) => Some (map fst ch)
        | _ => Some []
        end
    end.

  Definition px_prims : prims N :=
    {| p_lstat := px_stat false; p_stat := px_stat true; p_read_dir := px_read_dir;
       p_dir_names := px_dir_names; p_match := match_of false;   (* path/filepath.Match does not validate the rest of the pattern *)
       p_not_exist := N.eqb ENOENT |}.
End Px.

(* the specification view of an implementation world: same heap, same user; the working directory as a node *)
Definition sview_of (s : fsys) (v : view) : sview :=
  let sv0 := {| sv_view := v; sv_cwd := v_root v |} in
  {| sv_view := v;
     sv_cwd := match klookup s sv0 false true (v_cwd v) with WNode _ _ _ c => c | _ => v_root v end |}.

(* ---- BasePathFS over an instance ------------------------------------------------------------ *)
Section BasePath.
  Variable E : Type.
  Variable P : prims E.
  Variable bp : str.               (* vfs.basePath: absolute and clean *)

  (* basepathfs_cfg.go ToBasePath for an absolute path (POSIX flavour): Join(basePath, Clean(path)).
     A relative path is first made absolute with the base file system's working directory expressed in
     the BasePathFS namespace; the streams of C14 use absolute operands (relative ones are C10's). *)
  Definition to_base (path : str) : str := join Linux [bp; clean Linux path].

  Definition bp_prims : prims E :=
    {| p_lstat := fun p => p_lstat P (to_base p); p_stat := fun p => p_stat P (to_base p);
       p_read_dir := fun p => p_read_dir P (to_base p); p_dir_names := fun p => p_dir_names P (to_base p);
       p_match := p_match P; p_not_exist := p_not_exist P |}.

  (* BasePathFS.Glob = avfs.Glob(vfs, pattern): the generic Glob over the translating primitives; the matches
     are built in the BasePathFS namespace and need no translation back *)
  Definition bp_glob (pattern : str) : gres := glob bp_prims pattern.
End BasePath.

(* ---- callback policies of the correspondence run ---------------------------------------------- *)
Inductive pol := PolContinue | PolAt (i : nat) (a : nat).     (* a: 0 SkipDir, 1 SkipAll, 2 a custom error *)

Definition pol_fn (E : Type) (p : pol) : policy E unit :=
  fun log _ =>
    match p with
    | PolContinue => AContinue unit
    | PolAt i a =>
        if Nat.eqb (length log) i
        then match a with 0 => ASkipDir unit | 1 => ASkipAll unit | _ => AErr tt end
        else AContinue unit
    end.

(* ---- the queries of the walkglob stream ---------------------------------------------------------- *)
Inductive query :=
| QWalk (root : str) (p : pol)
| QGlob (pattern : str)
| QReadDir (path : str)
| QHelpers (path : str).

Inductive qres (E : Type) :=
| QRWalk (log : list (visit E)) (r : wret unit)
| QRGlob (g : gres)
| QRReadDir (l : list dent) (e : option E)
| QRHelpers (ex de isd ie : bool * option (herr E)).
Arguments QRWalk {E} log r.
Arguments QRGlob {E} g.
Arguments QRReadDir {E} l e.
Arguments QRHelpers {E} ex de isd ie.

(* variant: 0 = the current code, 1 = the code as pinned (SkipAll an ordinary error, SkipDir from the error
   call propagated), 2 = the Go reference algorithms *)
Definition run_query (E : Type) (P : prims E) (fuel : nat) (variant : nat) (bp : option str) (q : query) : qres E :=
  let P' := match bp with Some b => bp_prims P b | None => P end in
  match q with
  | QWalk root p =>
      let '(log, r) := match variant with
                       | 0 => walk_dir P' (@pol_fn E p) fuel root
                       | 1 => walk_dir_pinned P' (@pol_fn E p) fuel root
                       | _ => go_walk_dir P' (@pol_fn E p) fuel root
                       end in
      QRWalk log r
  | QGlob pat =>
      QRGlob (match variant, bp with
              | 2, _ => go_glob P' pat
              | _, Some b => bp_glob P b pat
              | _, None => glob P pat
              end)
  | QReadDir p => let '(l, e) := p_read_dir P' p in QRReadDir l e
  | QHelpers p => QRHelpers (exists_ P' p) (dir_exists P' p) (is_dir P' p) (is_empty P' p)
  end.

Definition view0 (w : world) : view :=
  match w_views w with v :: _ => v | [] => init_view Linux 0 end.

Definition run_query_mem (check_rest : bool) (w : world) (variant : nat) (bp : option str) (q : query) : qres ekind :=
  let s := w_fs w in
  run_query (mem_prims check_rest s (view0 w)) (mem_fuel s) variant bp q.

Definition run_query_px (w : world) (variant : nat) (q : query) : qres N :=
  let s := w_fs w in
  run_query (px_prims s (sview_of s (view0 w))) (mem_fuel s) variant None q.
