(* Property C05: the methods of an open handle (MemFile.v) that change the file
   system value preserve the invariant - whatever the handle is. *)
From Avfs Require Import Base BaseProofs PathModel MemFS MemFile World Inv InvMutators.

Section Handles.
  Variables (s : fsys) (v : view) (f : handle).
  Hypothesis IH : Inv_heap (f_heap s).

  Lemma file_of_get c d k i m : file_of s c = Some (d, k, i, m) -> get (f_heap s) c = Some (NFile d k i m).
  Proof. unfold file_of. destruct (get (f_heap s) c) as [[]|]; try discriminate. now intros [= -> -> -> ->]. Qed.

  Lemma f_write_ok b : step_ok s (fst (fst (f_write s v f b))).
  Proof.
    unfold f_write. destruct (hd_name f); [stay|].
    destruct (hd_node f) as [c|]; [|stay].
    destruct (file_of s c) as [[[[d k] i] m]|] eqn:E; [|stay].
    destruct (negb (has (hd_mode f) OpenWrite)); [stay|].
    destruct b as [|b0 b']; [stay|].
    cbn [fst]. apply step_ok_with_heap. exact (Inv_heap_set_file _ c d k i m _ _ IH (file_of_get c d k i m E)).
  Qed.

  Lemma f_write_at_ok b off : step_ok s (fst (f_write_at s v f b off)).
  Proof.
    unfold f_write_at. destruct (has (hd_mode f) OpenAppend); [stay|]. destruct (Z.ltb off 0); [stay|].
    destruct b as [|b0 b']; [stay|].
    destruct (hd_name f); [stay|].
    destruct (hd_node f) as [c|]; [|stay].
    destruct (file_of s c) as [[[[d k] i] m]|] eqn:E; [|stay].
    destruct (negb (has (hd_mode f) OpenWrite)); [stay|].
    cbn [fst]. apply step_ok_with_heap. exact (Inv_heap_set_file _ c d k i m _ _ IH (file_of_get c d k i m E)).
  Qed.

  Lemma f_truncate_ok size : step_ok s (fst (f_truncate s v f size)).
  Proof.
    unfold f_truncate. destruct (hd_name f); [stay|].
    destruct (hd_node f) as [c|]; [|stay].
    destruct (Z.ltb size 0); [stay|].
    destruct (file_of s c) as [[[[d k] i] m]|] eqn:E; [|stay].
    destruct (negb (has (hd_mode f) OpenWrite)); [stay|].
    cbn [fst]. apply step_ok_with_heap. exact (Inv_heap_set_file _ c d k i m _ _ IH (file_of_get c d k i m E)).
  Qed.

  Lemma f_chmod_ok mode : step_ok s (fst (f_chmod s v f mode)).
  Proof.
    unfold f_chmod. destruct (hd_name f); [stay|].
    destruct (hd_node f) as [c|]; [|stay].
    destruct (get (f_heap s) c) as [nd|] eqn:Eg; [|stay].
    destruct nd as [ch m|dt k id m|lk m]; try stay.
    - destruct (set_mode_ok (node_meta (NDir ch m)) (v_user v)); [|stay].
      cbn [fst]. apply step_ok_with_heap. now apply Inv_heap_set_meta.
    - destruct (set_mode_ok (node_meta (NFile dt k id m)) (v_user v)); [|stay].
      cbn [fst]. apply step_ok_with_heap. now apply Inv_heap_set_meta.
  Qed.

  Lemma f_chown_ok uid gid : step_ok s (fst (f_chown s v f uid gid)).
  Proof.
    unfold f_chown. destruct (hd_name f); [stay|].
    destruct (hd_node f) as [c|]; [|stay].
    destruct (win v); [stay|].
    destruct (get (f_heap s) c) as [nd|] eqn:Eg; [|stay].
    destruct (check_permission (node_meta nd) OpenWrite (v_user v)); [|stay].
    cbn [fst]. apply step_ok_with_heap. now apply Inv_heap_set_meta.
  Qed.
End Handles.
