(* C04_eval: MemFS.EvalSymlinks (the SlEval walk, answer = the cursor's path) against Go's filepath.EvalSymlinks
   ([go_walk_symlinks] of Posix.v: walkSymlinks on components - a destination list with kept "..", Lstat of every
   extension through the kernel, a 255-link budget, Clean at the end).

   Both are related to the kernel's following walk [kwalk … follow := true]: Go's loop makes the same steps as the
   kernel's, carrying the link-free path [dest] of the kernel's current directory ([go_sim]); the implementation's
   cursor path is a directory walk to the same parent ([walk_relx]); directory walks to a directory are unique (C05).
   Administrator (so every directory is searchable: Go pops ".." lexically without a permission test); at most 40
   links crossed (beyond: the listed finding C04-EVAL-LOOP-ERROR - MemFS answers ELOOP, Go goes on to 255 links and a
   non-errno error). *)
From Avfs Require Import Base BaseProofs PathModel PathSpec PathProofs PathCleanProofs PathIterProofs.
From Avfs Require Import MemFS MemFile World Posix Inv InvPath WalkBridge WalkSym WalkBudget WalkReadlink WalkRel StepEq WalkInv.

Lemma render_abs_abs_path (l : list str) : render_abs l = abs_path l.
Proof. reflexivity. Qed.

Lemma comp_ok_dot : comp_ok [DOT].
Proof. split; [discriminate|]. intros x [<-|[]]. discriminate. Qed.

Lemma dd_good_ok (j : nat) (gd : list str) : Forall good_comp gd -> Forall comp_ok (repeat DD j ++ gd).
Proof. intros H. apply rel_comps_ok. exact H. Qed.

(* Clean of the rendered destination: the ".."s at the root go away *)
Lemma clean_render (j : nat) (gd : list str) :
  Forall good_comp gd -> clean Linux (render_abs (repeat DD j ++ gd)) = abs_path gd.
Proof.
  intros Hg. change (render_abs (repeat DD j ++ gd)) with (abs_path (repeat DD j ++ gd)).
  destruct (clean_abs_comps (abs_path (repeat DD j ++ gd)) eq_refl) as (E & _). rewrite E.
  rewrite path_comps_abs_path by (apply dd_good_ok; exact Hg).
  pose proof (norm_pop j [] gd (Forall_nil _)) as P. cbn [rev length Nat.sub firstn] in P. rewrite P.
  rewrite norm_goods0 by exact Hg. reflexivity.
Qed.

Section Eval.
  Variables (s : fsys) (sv : sview).
  Notation h := (f_heap s).
  Notation v := (sv_view sv).
  Notation u := (v_user v).
  Notation root := (v_root v).
  Hypothesis Hwf : walk_wf h.
  Hypothesis Hlc : links_clean h.
  Hypothesis Hrd : node_is_dir h root = true.
  Hypothesis Hadm : us_admin u = true.

  Lemma adm_perm (c : nat) : node_is_dir h c = true -> kperm h c 1 u = true.
  Proof. intros Hd. destruct (node_is_dir_get _ _ Hd) as (ch & m & Hg). exact (kperm_admin _ _ _ _ _ Hadm Hg). Qed.

  Let Hrp : kperm h root 1 u = true := adm_perm root Hrd.

  (* Lstat of an extension of the destination = one lookup in the kernel's current directory *)
  Lemma klookup_ext (j : nat) (gd : list str) (cur : nat) (c : str) :
    Forall good_comp gd -> dwalk h u root gd = Some cur -> good_comp c ->
    j + length gd + 1 < WALK_FUEL ->
    klookup s sv false false (render_abs ((repeat DD j ++ gd) ++ [c]))
    = match alookup str_eqb c (children h cur) with
      | None => WNeg cur c false
      | Some n => match get h n with Some _ => WNode cur LNorm c n | None => WErr EFUEL end
      end.
  Proof.
    intros Hg Hw Hc Hf.
    assert (Hok : Forall comp_ok ((repeat DD j ++ gd) ++ [c])).
    { apply Forall_app. split; [apply dd_good_ok; exact Hg|]. constructor; [apply good_comp_ok; exact Hc|constructor]. }
    change (render_abs ((repeat DD j ++ gd) ++ [c])) with (abs_path ((repeat DD j ++ gd) ++ [c])).
    unfold klookup. change (kabs (abs_path ((repeat DD j ++ gd) ++ [c]))) with true. cbv iota.
    rewrite (kcomps_abs_path _ Hok). unfold abs_path at 1. cbv iota.
    rewrite ktrailing_abs_path by (exact Hok || (destruct (repeat DD j ++ gd); discriminate)).
    rewrite <- app_assoc.
    replace WALK_FUEL with (j + (length gd + (WALK_FUEL - j - length gd))) by lia.
    destruct (kwalk_dotdots h u root Hwf Hrd Hrp j [] root (gd ++ [c]) (length gd + (WALK_FUEL - j - length gd))
                false false 0 false ltac:(destruct gd; discriminate) eq_refl) as (cur' & Hc1 & Hc2).
    assert (cur' = root) by (destruct j; cbn in Hc1; congruence). subst cur'. rewrite Hc2.
    rewrite (kwalk_rewalk h v gd root cur [c] _ root false false 0 false ltac:(discriminate) Hg Hw Hrd Hrp).
    destruct (WALK_FUEL - j - length gd) as [|f0] eqn:Ef; [lia|].
    destruct (dwalk_end_dir _ _ _ _ _ Hw Hrd Hrp) as (Hd & Hp). destruct (good_comp_kind _ Hc) as (K1 & K2).
    rewrite kwalk_S, Hd, Hp. cbn [negb andb is_nil]. cbv zeta. rewrite K1, K2.
    destruct (alookup str_eqb c (children h cur)) as [n|]; [|reflexivity].
    destruct (get h n) as [[ch m|dt k i m|t m]|]; reflexivity.
  Qed.

  Lemma go_S (F : nat) (dest work : list str) (links : nat) :
    go_walk_symlinks (S F) s sv dest work links =
      match work with
      | [] => inr (clean Linux (render_abs dest))
      | c :: rest =>
          if str_eqb c DOTS then go_walk_symlinks F s sv dest rest links
          else if str_eqb c DOTDOTS then
            match rev dest with
            | [] => go_walk_symlinks F s sv (dest ++ [DOTDOTS]) rest links
            | l :: r => if str_eqb l DOTDOTS then go_walk_symlinks F s sv (dest ++ [DOTDOTS]) rest links
                        else go_walk_symlinks F s sv (rev r) rest links
            end
          else
            let dest' := dest ++ [c] in
            match klookup s sv false false (render_abs dest') with
            | WErr e => inl e
            | WNeg _ _ _ => inl ENOENT
            | WNode _ _ _ n =>
                match get (f_heap s) n with
                | Some (NSym link _) =>
                    if Nat.leb 255 links then inl ETOOMANY
                    else if kabs link then go_walk_symlinks F s sv [] (kcomps link ++ rest) (S links)
                    else go_walk_symlinks F s sv dest (kcomps link ++ rest) (S links)
                | Some (NDir _ _) => go_walk_symlinks F s sv dest' rest links
                | Some _ => if is_nil rest then go_walk_symlinks F s sv dest' rest links else inl ENOTDIR
                | None => inl EFUEL
                end
            | _ => inl EFUEL
            end
      end.
  Proof. reflexivity. Qed.

  Definition go_rel (K : wres) (g : N + str) : Prop :=
    match K with
    | WNode par kind name n =>
        exists wp, Forall good_comp wp /\ g = inr (abs_path wp) /\
          (kind = LNorm -> exists gd', wp = gd' ++ [name] /\ dwalk h u root gd' = Some par) /\
          (kind <> LNorm -> dwalk h u root wp = Some n)
    | WNeg _ _ _ => g = inl ENOENT
    | WErr e => g = inl e
    | WParent _ _ _ _ => False
    end.

  (* the walk stops: Go returns the cleaned destination *)
  Lemma go_done (F j : nat) (gd : list str) (links : nat) :
    Forall good_comp gd -> go_walk_symlinks (S F) s sv (repeat DD j ++ gd) [] links = inr (abs_path gd).
  Proof. intros Hg. rewrite go_S. rewrite clean_render by exact Hg. reflexivity. Qed.

  Lemma target_comps_ok (t : str) : clean_shape t -> Forall comp_ok (kcomps t).
  Proof.
    intros [lc Hl -> | k names Hn Hne -> | ->].
    - rewrite kcomps_abs_path by (apply Forall_comp_ok_of; exact Hl). apply Forall_comp_ok_of; exact Hl.
    - destruct (rel_shape_facts k names Hn Hne) as (_ & Hk & _). cbv zeta in Hk. rewrite Hk. apply rel_comps_ok; exact Hn.
    - change (kcomps [DOT]) with [[DOT]]. constructor; [exact comp_ok_dot|constructor].
  Qed.

  Lemma comp_ok_good (c : str) : comp_ok c -> str_eqb c DOTS = false -> str_eqb c DOTDOTS = false -> good_comp c.
  Proof.
    intros (H1 & H2) K1 K2. split; [exact H1|]. split; [exact H2|].
    split; apply str_eqb_neq; assumption.
  Qed.

  Lemma go_sim (Tk B : nat) : kbound h Tk -> B + 2 < WALK_FUEL ->
    forall fk F j (gd : list str) cur (work : list str) links md K,
      Forall good_comp gd -> dwalk h u root gd = Some cur -> Forall comp_ok work -> (md = false \/ work = []) ->
      j + length gd + length work + (MAXSYMLINKS - links) * Tk <= B -> fk < F ->
      kwalk fk h u root false true cur work links md = K -> K <> WErr EFUEL -> K <> WErr ELOOP ->
      go_rel K (go_walk_symlinks F s sv (repeat DD j ++ gd) work links).
  Proof.
    intros Hkb HB. induction fk as [|fk IH]; intros F j gd cur work links md K Hg Hw Hok Hmd Hsz HF HK Hk1 Hk2.
    { cbn [kwalk] in HK. congruence. }
    destruct F as [|F]; [lia|]. destruct (dwalk_end_dir _ _ _ _ _ Hw Hrd Hrp) as (Hd & Hp).
    subst K. revert Hk1 Hk2. rewrite kwalk_S. destruct work as [|c rest].
    - intros _ _. rewrite (go_done F j gd links Hg). exists gd. split; [exact Hg|]. split; [reflexivity|].
      split; [intros [=]|intros _; exact Hw].
    - destruct Hmd as [->|Hmd]; [|discriminate]. inversion Hok as [|? ? Hc Hok']; subst.
      rewrite Hd, Hp. cbn [negb andb]. cbv zeta. rewrite go_S. cbn [length] in Hsz.
      remember ((MAXSYMLINKS - links) * Tk) as Q eqn:EQ.
      destruct (str_eqb c DOTS) eqn:K1.
      { (* "." *)
        destruct rest as [|c2 rest]; cbn [is_nil].
        - intros _ _. destruct F as [|F]; [lia|]. rewrite (go_done F j gd links Hg).
          exists gd. split; [exact Hg|]. split; [reflexivity|]. split; [intros [=]|intros _; exact Hw].
        - intros Hk1 Hk2. apply (IH F j gd cur (c2 :: rest) links false _ Hg Hw Hok'); auto; try lia.
          all: rewrite <- ?EQ; cbn [length] in *; lia. }
      destruct (str_eqb c DOTDOTS) eqn:K2.
      { (* ".." *)
        assert (Hstep : exists j' gd' p, parent_of h root cur = p /\ Forall good_comp gd' /\ dwalk h u root gd' = Some p
                  /\ j' + length gd' <= S (j + length gd)
                  /\ (forall F0 w l, match rev (repeat DD j ++ gd) with
                                     | [] => go_walk_symlinks F0 s sv ((repeat DD j ++ gd) ++ [DOTDOTS]) w l
                                     | l0 :: r => if str_eqb l0 DOTDOTS
                                                  then go_walk_symlinks F0 s sv ((repeat DD j ++ gd) ++ [DOTDOTS]) w l
                                                  else go_walk_symlinks F0 s sv (rev r) w l
                                     end = go_walk_symlinks F0 s sv (repeat DD j' ++ gd') w l)).
        { destruct (rev_case _ gd) as [->|(gd0 & l0 & ->)].
          - exists (S j), [], root. injection Hw as <-. unfold parent_of. rewrite Nat.eqb_refl.
            split; [reflexivity|]. split; [constructor|]. split; [reflexivity|]. split; [cbn [length]; lia|].
            intros F0 w l. rewrite !app_nil_r. change [DOTDOTS] with [DD]. rewrite <- (repeat_cons j DD).
            rewrite rev_repeat_own. destruct j; reflexivity.
          - apply Forall_app in Hg as (Hg0 & Hl). inversion Hl as [|? ? Hl0 _]; subst.
            destruct (dwalk h u root gd0) as [p|] eqn:Hp0; [|rewrite dwalk_app, Hp0 in Hw; discriminate].
            exists j, gd0, p. split; [exact (parent_of_dwalk h u root Hwf gd0 l0 p cur Hp0 Hw)|].
            split; [exact Hg0|]. split; [exact Hp0|]. split; [rewrite app_length; cbn [length]; lia|].
            intros F0 w l. rewrite app_assoc, rev_app_distr. cbn [rev app].
            change (str_eqb l0 DOTDOTS) with (is_dotdot l0). rewrite (good_comp_not_dd _ Hl0).
            rewrite rev_involutive. reflexivity. }
        destruct Hstep as (j' & gd' & p & -> & Hg' & Hw' & Hlen & Hgo). rewrite Hgo.
        destruct rest as [|c2 rest]; cbn [is_nil].
        - intros _ _. destruct F as [|F]; [lia|]. rewrite (go_done F j' gd' links Hg').
          exists gd'. split; [exact Hg'|]. split; [reflexivity|]. split; [intros [=]|intros _; exact Hw'].
        - intros Hk1 Hk2. apply (IH F j' gd' _ (c2 :: rest) links false _ Hg' Hw' Hok'); auto; try lia.
          all: rewrite <- ?EQ; cbn [length] in *; lia. }
      (* a proper name *)
      pose proof (comp_ok_good c Hc K1 K2) as Hgc. cbv zeta.
      rewrite (klookup_ext j gd cur c Hg Hw Hgc) by lia.
      destruct (alookup str_eqb c (children h cur)) as [n|] eqn:Hl.
      2:{ intros _ _. destruct (is_nil rest); reflexivity. }
      destruct (get h n) as [[ch m|dt k i m|t m]|] eqn:Hgn; [| | |intros Hk1; congruence].
      + (* a directory *)
        cbv beta iota. rewrite Hgn.
        assert (Hnd : node_is_dir h n = true) by (unfold node_is_dir; rewrite Hgn; reflexivity).
        assert (Hw2 : dwalk h u root (gd ++ [c]) = Some n)
          by (apply (dwalk_snoc _ _ _ _ _ _ _ Hw Hl Hnd); apply adm_perm; exact Hnd).
        assert (Hg2 : Forall good_comp (gd ++ [c])) by (apply Forall_app; split; [exact Hg|constructor; [exact Hgc|constructor]]).
        rewrite <- app_assoc.
        destruct rest as [|c2 rest]; cbn [is_nil].
        * intros _ _. destruct F as [|F]; [lia|]. rewrite (go_done F j (gd ++ [c]) links Hg2).
          exists (gd ++ [c]). split; [exact Hg2|]. split; [reflexivity|]. split; [|intros Hk; congruence].
          intros _. exists gd. auto.
        * intros Hk1 Hk2. apply (IH F j (gd ++ [c]) n (c2 :: rest) links false _ Hg2 Hw2 Hok'); auto; try lia.
          all: rewrite <- ?EQ, ?app_length; cbn [length] in *; lia.
      + (* a file *)
        cbv beta iota. rewrite Hgn.
        assert (Hg2 : Forall good_comp (gd ++ [c])) by (apply Forall_app; split; [exact Hg|constructor; [exact Hgc|constructor]]).
        destruct rest as [|c2 rest]; cbn [is_nil].
        * intros _ _. destruct F as [|F]; [lia|]. rewrite <- app_assoc. rewrite (go_done F j (gd ++ [c]) links Hg2).
          exists (gd ++ [c]). split; [exact Hg2|]. split; [reflexivity|]. split; [|intros Hk; congruence].
          intros _. exists gd. auto.
        * intros _ _. reflexivity.
      + (* a symbolic link: followed by both *)
        cbv beta iota. rewrite Hgn.
        cbn [negb orb]. rewrite orb_true_r. cbn [orb].
        destruct (Nat.leb MAXSYMLINKS links) eqn:Hcnt; [intros _ Hk2; congruence|]. apply Nat.leb_gt in Hcnt.
        destruct (Hlc cur c n t m (alookup_in _ _ _ _ Hl) Hgn) as (x & Ht).
        pose proof (clean_shape_clean x) as Hsh. pose proof (clean_nonempty x) as Htn. rewrite <- Ht in Hsh, Htn.
        assert (Hnil : is_nil t = false) by (destruct t; [congruence|reflexivity]). rewrite Hnil.
        replace (Nat.leb 255 links) with false by (symmetry; apply Nat.leb_gt; unfold MAXSYMLINKS in Hcnt; lia).
        pose proof (Hkb n t m Hgn) as HT. pose proof (target_comps_ok t Hsh) as Hokt.
        assert (Hok2 : Forall comp_ok (kcomps t ++ rest)) by (apply Forall_app; split; assumption).
        assert (Hmd2 : false || is_nil rest && ktrailing t = false \/ kcomps t ++ rest = []).
        { destruct rest as [|c2 rest]; [|left; reflexivity]. cbn [is_nil andb orb].
          destruct Hsh as [lc Hl0 -> | k0 names Hn Hne -> | ->].
          - destruct lc as [|c1 lc]; [right; reflexivity|left]. apply ktrailing_abs_path; [apply Forall_comp_ok_of; exact Hl0|discriminate].
          - left. destruct (rel_shape_facts k0 names Hn Hne) as (_ & _ & _ & _ & Hkt & _). exact Hkt.
          - left. reflexivity. }
        assert (Hsz2 : forall j2 (gd2 : list str), j2 + length gd2 <= j + length gd ->
                  j2 + length gd2 + length (kcomps t ++ rest) + (MAXSYMLINKS - S links) * Tk <= B).
        { intros j2 gd2 Hle. rewrite app_length.
          assert (EQ2 : Q = Tk + (MAXSYMLINKS - S links) * Tk).
          { rewrite EQ. replace (MAXSYMLINKS - links) with (S (MAXSYMLINKS - S links)) by lia. reflexivity. }
          remember ((MAXSYMLINKS - S links) * Tk) as Q2. lia. }
        intros Hk1 Hk2. destruct (kabs t) eqn:Hka.
        * apply (IH F 0 [] root (kcomps t ++ rest) (S links) _ _ (Forall_nil _) eq_refl Hok2 Hmd2); auto; try lia.
          apply (Hsz2 0 []). cbn [length]. lia.
        * apply (IH F j gd cur (kcomps t ++ rest) (S links) _ _ Hg Hw Hok2 Hmd2); auto; try lia.
  Qed.
End Eval.

(* ---- directory walks to a directory are unique (C05) ------------------------------------------------------------------ *)
Lemma dwalk_walk (h : heap) (u : user) : forall (ns : list str) (d e : nat), dwalk h u d ns = Some e -> walk h d ns e.
Proof.
  induction ns as [|n ns IH]; intros d e H.
  - injection H as <-. constructor.
  - apply dwalk_cons_inv in H as (c & H1 & _ & _ & H4).
    change (n :: ns) with ([n] ++ ns). apply (walk_app h d [n] c ns e); [|apply IH; exact H4].
    apply (walk_snoc h d [] d n c); [constructor|]. apply alookup_in. exact H1.
Qed.

Lemma dwalk_unique (h : heap) (u : user) (root : nat) (a b : list str) (p : nat) :
  Inv_heap h -> node_is_dir h p = true -> dwalk h u root a = Some p -> dwalk h u root b = Some p -> a = b.
Proof.
  intros I Hd Ha Hb. exact (walk_unique h root I a p (dwalk_walk h u a root p Ha) b (dwalk_walk h u b root p Hb) Hd).
Qed.

(* ---- C04_eval ------------------------------------------------------------------------------------------------------------ *)
Theorem eval_agree (s : fsys) (sv : sview) (cs : list str) (Tk : nat) :
  let v := sv_view sv in
  let h := f_heap s in
  v_os v = Linux -> us_admin (v_user v) = true -> Inv_heap h -> links_clean h -> node_is_dir h (v_root v) = true ->
  Forall good_comp cs -> kbound h Tk -> length cs + MAXSYMLINKS * Tk + 2 < WALK_FUEL ->
  klookup s sv false true (abs_path cs) <> WErr EFUEL ->
  klookup s sv false true (abs_path cs) <> WErr ELOOP ->        (* at most 40 links crossed: C04-EVAL-LOOP-ERROR otherwise *)
  sr_err (search_node s v (abs_path cs) SlEval) <> EFuel ->
  proj_res Linux (eval_symlinks s v (abs_path cs)) = go_eval_symlinks s sv (abs_path cs).
Proof.
  intros v h Hos Hadm I Hlc Hrd Hg Hkb Hsz Hk1 Hk2 Hnf. subst v h.
  pose proof (Inv_heap_walk_wf _ I) as Hwf.
  pose proof (sym_bridge_lookup_x s sv SlEval cs Hos Hwf Hlc Hrd Hg) as R. cbv zeta in R.
  change (follow_of SlEval) with true in R. change (precise_of SlEval) with true in R. specialize (R Hk1 Hnf).
  unfold go_eval_symlinks. change (kabs (abs_path cs)) with true. cbv iota.
  rewrite (kcomps_abs_path cs (Forall_comp_ok_of Hg)).
  rewrite (klookup_abs_path s sv false true cs Hg) in R, Hk1, Hk2.
  assert (HF : WALK_FUEL < 20000) by (apply Nat.ltb_lt; vm_compute; reflexivity).
  pose proof (go_sim s sv Hwf Hlc Hrd Hadm Tk (length cs + MAXSYMLINKS * Tk) Hkb Hsz
                WALK_FUEL 20000 0 [] (v_root (sv_view sv)) cs 0 (match cs with [] => true | _ => false end) _
                (Forall_nil _) eq_refl (Forall_comp_ok_of Hg)
                ltac:(destruct cs; [right; reflexivity|left; reflexivity])
                ltac:(cbn [length]; rewrite Nat.sub_0_r; lia) HF eq_refl Hk1 Hk2) as G.
  change (repeat DD 0 ++ []) with (@nil str) in G. unfold eval_symlinks.
  remember (go_walk_symlinks 20000 s sv [] cs 0) as g eqn:Eg. clear Eg HF.
  remember (search_node s (sv_view sv) (abs_path cs) SlEval) as r eqn:Er in *. clear Er.
  destruct (kwalk WALK_FUEL (f_heap s) (v_user (sv_view sv)) (v_root (sv_view sv)) false true (v_root (sv_view sv)) cs 0
              match cs with [] => true | _ => false end) as [par kind name n|par name md|a b c d|e];
    cbn [walk_relx] in R; cbn [go_rel] in G.
  - destruct G as (wp & Hwp & Eg & G1 & G2).
    subst g.
    destruct R as (R1 & R2 & R3 & _ & _ & R4 & R5).
    rewrite R1.
    cbn [is_file_exists negb proj_res].
    f_equal.
    destruct kind; try (destruct (R5 eq_refl ltac:(discriminate)) as (wp' & _ & Hw' & ->); f_equal;
                        assert (Hd : node_is_dir (f_heap s) n = true)
                          by (exact (proj1 (dwalk_end_dir _ _ _ _ _ Hw' Hrd (adm_perm s sv Hadm _ Hrd))));
                        exact (dwalk_unique _ _ _ _ _ n I Hd Hw' (G2 ltac:(discriminate)))).
    destruct (G1 eq_refl) as (gd' & -> & Hgw). destruct (R4 eq_refl) as (_ & R6).
    destruct (at_name_views _ _ _ _ _ _ (R6 eq_refl)) as (_ & _ & done & -> & Hdw & _). f_equal. f_equal.
    assert (Hd : node_is_dir (f_heap s) par = true)
      by (exact (proj1 (dwalk_end_dir _ _ _ _ _ Hgw Hrd (adm_perm s sv Hadm _ Hrd)))).
    exact (dwalk_unique _ _ _ _ _ par I Hd Hdw Hgw).
  - subst g. destruct R as (R1 & _). rewrite R1. reflexivity.
  - destruct G.
  - subst g. destruct R as (R1 & _). destruct (werr_cases _ _ R1 Hnf) as (Hc & ->).
    destruct Hc as [Hc|[Hc|[Hc|Hc]]]; rewrite Hc; reflexivity.
Qed.

Module WalkEvalExamples.
  Import WalkSymExamples.
  (* "/abs/top/e/f": abs -> "/d/e", top -> "../../d"; answer "/d/e/f".  "/d/up" (-> ".."): "/".  Dangling: ENOENT. *)
  Example eval_examples :
    proj_res Linux (eval_symlinks tree_fs adminv (abs_path [s_abs; s_top; s_e; s_f])) = SStr (abs_path [s_d; s_e; s_f])
    /\ go_eval_symlinks tree_fs (sv_of adminv) (abs_path [s_abs; s_top; s_e; s_f]) = SStr (abs_path [s_d; s_e; s_f])
    /\ proj_res Linux (eval_symlinks tree_fs adminv (abs_path [s_d; s_up])) = SStr (abs_path [])
    /\ go_eval_symlinks tree_fs (sv_of adminv) (abs_path [s_d; s_up]) = SStr (abs_path [])
    /\ proj_res Linux (eval_symlinks tree_fs adminv (abs_path [s_dang])) = SErr ENOENT
    /\ go_eval_symlinks tree_fs (sv_of adminv) (abs_path [s_dang]) = SErr ENOENT.
  Proof. vm_compute. repeat split; reflexivity. Qed.
End WalkEvalExamples.
