(* The bridge between the SPECIFICATION (FileSpec.v: os.File on Linux) and the
   IMPLEMENTATION model (MemFS.v, MemFile.v, World.v):
     impl_call  - the MemFS call that realises a specification operation,
     fproj_res   - the projection of an implementation result on the specification's observables,
     kf02       - the decidable classifier of the KNOWN deviations of the implementation,
                  as a function of the specification state and the operation,
     dghost/kfdir - the same for directory handles.
   Definitions only; the theorems are in FileProofs.v. *)
From Avfs Require Import Base PathModel MemFS MemFile World FileSpec.
Set Implicit Arguments.

(* the files of a history live in /tmp *)
Definition DIRP : str := [47; 116; 109; 112; 47]%N.          (* "/tmp/" *)
Definition fpath (name : str) : str := DIRP ++ name.

Definition impl_call (op : fop) : call :=
  match op with
  | Open name flag perm => COpenFile 0 (fpath name) flag perm
  | Read fd n => FRead fd n
  | ReadAt fd n off => FReadAt fd n off
  | Write fd b | WriteString fd b => FWrite fd b
  | WriteAt fd b off => FWriteAt fd b off
  | Seek fd off whence => FSeek fd off whence
  | Ftruncate fd size => FTruncate fd size
  | Fstat fd => FStat fd
  | Fsync fd => FSync fd
  | Fchmod fd perm => FChmod fd perm
  | Fchown fd uid gid => FChown fd uid gid
  | Fchdir fd => FChdir fd
  | Close fd => FClose fd
  | PTruncate name size => CTruncate 0 (fpath name) size
  | PRename old new => CRename 0 (fpath old) (fpath new)
  | PLink old new => CLink 0 (fpath old) (fpath new)
  | PRemove name => CRemove 0 (fpath name)
  | PReadFile name => CReadFile 0 (fpath name)
  | PStat name => CStat 0 (fpath name)
  end.

(* error kinds (Linux flavour of the emulated file system) *)
Definition fproj_err (e : ekind) : serr :=
  match e with
  | EG_EOF => X_EOF
  | EG_Closed | EG_FileClosing => X_Closed
  | EBadFileDesc | EC_BadFileDesc => X_BADF
  | EInvalidArgument | EC_InvalidArgument => X_INVAL
  | EIsADirectory | EC_IsADirectory => X_ISDIR
  | ENotADirectory | EC_NotADirectory => X_NOTDIR
  | EFileExists | EC_FileExists => X_EXIST
  | ENoSuchDir | ENoSuchFile => X_NOENT
  | EG_NegativeOffset => X_NegOff
  | EG_WriteAtInAppendMode => X_AppendWriteAt
  | _ => X_Other
  end.

Definition fproj_info (i : finfo) : sinfo :=
  {| si_size := fi_size i; si_nlink := fi_nlink i; si_perm := fi_mode i; si_uid := fi_uid i; si_gid := fi_gid i |}.

Definition fproj_res (r : res) : sres :=
  match r with
  | ROk => S_Ok
  | RFail EFuel => S_BadIndex
  | RFail e => S_Err (fproj_err e)
  | RErrPath e _ => S_Err (fproj_err e)
  | RInfo i => S_Info (fproj_info i)
  | RBytes n b e => S_Data n b (option_map fproj_err e)
  | RInt z => S_Int z
  | RHandle h => S_Fd h
  | _ => S_Err X_Other
  end.

(* ---- known deviations of MemFile / MemFS from os.File ------------------------- *)
Inductive finding :=
(* directory handles *)
| KfDirRestart           (* after io.EOF or ReadDir(n<=0) the next read starts the listing again; os stays at the end *)
| KfDirAllAfterPartial   (* ReadDir(n<=0) after a partial read returns ALL entries; os returns the remaining ones *)
| KfDirMixedCursors      (* ReadDir and Readdirnames keep separate caches behind one index *)
| KfDirSeek.             (* Seek on a directory handle does nothing and returns 0; os rewinds / validates *)

Definition finding_id (k : finding) : N :=
  match k with
  | KfDirRestart => 21 | KfDirAllAfterPartial => 22 | KfDirMixedCursors => 23 | KfDirSeek => 24
  end%N.

Definition open_on (st : fstate) (i : nat) : bool :=
  existsb (fun o => negb (o_closed o) && Nat.eqb (o_ino o) i) (st_fds st).

Definition fd_get (st : fstate) (fd : nat) : option (ofd * inode) :=
  match nth_error (st_fds st) fd with
  | Some o => match nth_error (st_inodes st) (o_ino o) with Some ino => Some (o, ino) | None => None end
  | None => None
  end.

(* every known deviation of the handle operations has been repaired in /repo: nothing is classified any more,
   a deviation from os.File is a violation *)
Definition kf02 (st : fstate) (op : fop) : option finding := None.

(* ---- directory handles ----------------------------------------------------------- *)
(* History-determined ghost state used only by the classifier: whether the end of the listing has
   been delivered on this description (io.EOF batch, or a ReadDir(n <= 0)) since the last rewind, and
   which of ReadDir / Readdirnames is being used in the current pass. *)
Record dghost := { g_ended : bool; g_kind : option bool (* true = ReadDir *) }.
Definition ghost0 : dghost := {| g_ended := false; g_kind := None |}.

Definition kind_differs (g : dghost) (k : bool) : bool :=
  match g_kind g with Some k' => negb (Bool.eqb k k') | None => false end.

Definition kfdir (listing : list str) (d : dfd) (g : dghost) (op : dop) : option finding :=
  if d_closed d then None
  else
    let rd (k : bool) (n : Z) :=
      match listing with
      | [] => None
      | _ =>
          if g_ended g then Some KfDirRestart
          else if kind_differs g k && Nat.ltb 0 (d_cursor d) then Some KfDirMixedCursors
          else if Z.leb n 0 && Nat.ltb 0 (d_cursor d) then Some KfDirAllAfterPartial
          else None
      end in
    match op with
    | DReadDir n => rd true n
    | DReaddirnames n => rd false n
    | DRewind => if Nat.ltb 0 (d_cursor d) && negb (g_ended g) then Some KfDirSeek else None
    | DRead _ | DClose => None
    end.

Definition dghost_step (listing : list str) (d : dfd) (g : dghost) (op : dop) : dghost :=
  if d_closed d then g
  else
    let rd (k : bool) (n : Z) :=
      if Z.leb n 0 || Nat.leb (length listing) (d_cursor d)
      then {| g_ended := true; g_kind := None |}
      else {| g_ended := g_ended g; g_kind := Some k |} in
    match op with
    | DReadDir n => rd true n
    | DReaddirnames n => rd false n
    | DRewind => ghost0
    | _ => g
    end.

(* the implementation side of a directory operation, on handle hi *)
Definition impl_dcall (hi : nat) (op : dop) : call :=
  match op with
  | DReadDir n => FReadDir hi n
  | DReaddirnames n => FReaddirnames hi n
  | DRewind => FSeek hi 0 0
  | DRead n => FRead hi n
  | DClose => FClose hi
  end.

(* ---- OrefaFS ----------------------------------------------------------------------- *)
(* OrefaFile (vfs/orefafs/orefafs_file.go) is MemFile with other lock modes and type tests; the namespace
   calls the C02 histories use (OpenFile, Truncate, Rename, Link, Remove on regular files in one existing
   directory) behave as those of MemFS: one model, one classifier. *)
Definition orefa_step (w : world) (op : fop) : world * res := wstep w (impl_call op).
Definition kf02_orefa (st : fstate) (op : fop) : option finding := kf02 st op.
