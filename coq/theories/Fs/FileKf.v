(* The bridge between the SPECIFICATION (FileSpec.v: os.File on Linux) and the
   IMPLEMENTATION model (MemFS.v, MemFile.v, World.v):
     impl_call  - the MemFS call that realises a specification operation,
     fproj_res   - the projection of an implementation result on the specification's observables,
     kf02       - the decidable classifier of the KNOWN deviations of the implementation,
                  as a function of the specification state and the operation,
     dghost/kfdir - the same for directory handles.
   Definitions only; the theorems are in FileProofs.v. *)
From Avfs Require Import Base PathModel MemFS MemFile World FileSpec.
Set Implicit Arguments.

(* the files of a history live in /tmp *)
Definition DIRP : str := [47; 116; 109; 112; 47]%N.          (* "/tmp/" *)
Definition fpath (name : str) : str := DIRP ++ name.

Definition impl_call (op : fop) : call :=
  match op with
  | Open name flag perm => COpenFile 0 (fpath name) flag perm
  | Read fd n => FRead fd n
  | ReadAt fd n off => FReadAt fd n off
  | Write fd b | WriteString fd b => FWrite fd b
  | WriteAt fd b off => FWriteAt fd b off
  | Seek fd off whence => FSeek fd off whence
  | Ftruncate fd size => FTruncate fd size
  | Fstat fd => FStat fd
  | Fsync fd => FSync fd
  | Fchmod fd perm => FChmod fd perm
  | Fchown fd uid gid => FChown fd uid gid
  | Fchdir fd => FChdir fd
  | Close fd => FClose fd
  | PTruncate name size => CTruncate 0 (fpath name) size
  | PRename old new => CRename 0 (fpath old) (fpath new)
  | PLink old new => CLink 0 (fpath old) (fpath new)
  | PRemove name => CRemove 0 (fpath name)
  | PReadFile name => CReadFile 0 (fpath name)
  | PStat name => CStat 0 (fpath name)
  end.

(* error kinds (Linux flavour of the emulated file system) *)
Definition fproj_err (e : ekind) : serr :=
  match e with
  | EG_EOF => X_EOF
  | EG_Closed | EG_FileClosing => X_Closed
  | EBadFileDesc | EC_BadFileDesc => X_BADF
  | EInvalidArgument | EC_InvalidArgument => X_INVAL
  | EIsADirectory | EC_IsADirectory => X_ISDIR
  | ENotADirectory | EC_NotADirectory => X_NOTDIR
  | EFileExists | EC_FileExists => X_EXIST
  | ENoSuchDir | ENoSuchFile => X_NOENT
  | EG_NegativeOffset => X_NegOff
  | _ => X_Other
  end.

Definition fproj_info (i : finfo) : sinfo :=
  {| si_size := fi_size i; si_nlink := fi_nlink i; si_perm := fi_mode i; si_uid := fi_uid i; si_gid := fi_gid i |}.

Definition fproj_res (r : res) : sres :=
  match r with
  | ROk => S_Ok
  | RFail EFuel => S_BadIndex
  | RFail e => S_Err (fproj_err e)
  | RErrPath e _ => S_Err (fproj_err e)
  | RInfo i => S_Info (fproj_info i)
  | RBytes n b e => S_Data n b (option_map fproj_err e)
  | RInt z => S_Int z
  | RHandle h => S_Fd h
  | _ => S_Err X_Other
  end.

(* ---- known deviations of MemFile / MemFS from os.File ------------------------- *)
Inductive finding :=
| KfAppendOpenOffset     (* OpenFile(O_APPEND) starts the handle at the end of the file; Linux starts at 0 *)
| KfZeroLenRead          (* Read(empty buffer) on an open file: io.EOF or EBADF; os.File: (0, nil) *)
| KfZeroLenReadAt        (* ReadAt(empty buffer): EBADF / io.EOF beyond the end; os.File: (0, nil) *)
| KfZeroLenWrite         (* Write(empty) moves an O_APPEND offset to the end / zero-fills up to an offset beyond the end *)
| KfZeroLenWriteAt       (* WriteAt(empty, off): EBADF, or extends the file to off; os.File: (0, nil), no effect *)
| KfWriteAtAppend        (* WriteAt on an O_APPEND handle is carried out; os.File refuses it *)
| KfClosedPriority       (* which error wins on a closed handle: offset / size validation versus closed *)
| KfUnlinkDropsData.     (* removing (or renaming over) the last name of a file open somewhere empties its data *)


Definition finding_id (k : finding) : N :=
  match k with
  | KfAppendOpenOffset => 2 | KfZeroLenRead => 3 | KfZeroLenReadAt => 4
  | KfZeroLenWrite => 5 | KfZeroLenWriteAt => 6 | KfWriteAtAppend => 7 | KfClosedPriority => 8
  | KfUnlinkDropsData => 9
  end%N.

Definition open_on (st : fstate) (i : nat) : bool :=
  existsb (fun o => negb (o_closed o) && Nat.eqb (o_ino o) i) (st_fds st).

(* the last link of inode i is about to go while a description is open on non-empty data *)
Definition drops_data (st : fstate) (i : nat) : bool :=
  match nth_error (st_inodes st) i with
  | Some ino => Z.eqb (i_nlink ino) 1 && negb (Nat.eqb (length (i_bytes ino)) 0) && open_on st i
  | None => false
  end.

Definition fd_get (st : fstate) (fd : nat) : option (ofd * inode) :=
  match nth_error (st_fds st) fd with
  | Some o => match nth_error (st_inodes st) (o_ino o) with Some ino => Some (o, ino) | None => None end
  | None => None
  end.

Definition kf02 (st : fstate) (op : fop) : option finding :=
  match op with
  | Open name flag perm =>
      match access_of flag, fst (fspec_step st op), snd (fspec_step st op) with
      | Some a, st', S_Fd k =>
          match fd_get st' k with
          | Some (o, ino) =>
              if o_app o && negb (Nat.eqb (length (i_bytes ino)) 0) then Some KfAppendOpenOffset else None
          | None => None
          end
      | _, _, _ => None
      end
  | Read fd n =>
      match fd_get st fd with
      | Some (o, _) => if Z.leb n 0 && negb (o_closed o) then Some KfZeroLenRead else None
      | None => None
      end
  | ReadAt fd n off =>
      match fd_get st fd with
      | Some (o, ino) =>
          if Z.ltb off 0 then (if o_closed o then Some KfClosedPriority else None)
          else if Z.leb n 0 then
            if o_closed o then Some KfClosedPriority
            else if negb (can_read (o_acc o)) || Z.ltb (zlen (i_bytes ino)) off then Some KfZeroLenReadAt
            else None
          else None
      | None => None
      end
  | Write fd b | WriteString fd b =>
      match fd_get st fd, b with
      | Some (o, ino), [] =>
          if negb (o_closed o) && can_write (o_acc o)
             && (if o_app o then negb (Z.eqb (o_off o) (zlen (i_bytes ino))) else Z.ltb (zlen (i_bytes ino)) (o_off o))
          then Some KfZeroLenWrite else None
      | _, _ => None
      end
  | WriteAt fd b off =>
      match fd_get st fd with
      | Some (o, ino) =>
          if o_app o then Some KfWriteAtAppend
          else if Z.ltb off 0 then None
          else match b with
               | [] =>
                   if o_closed o then Some KfClosedPriority
                   else if negb (can_write (o_acc o)) || Z.ltb (zlen (i_bytes ino)) off then Some KfZeroLenWriteAt
                   else None
               | _ => None
               end
      | None => None
      end
  | Ftruncate fd size =>
      match fd_get st fd with
      | Some (o, _) => if o_closed o && Z.ltb size 0 then Some KfClosedPriority else None
      | None => None
      end
  | PRemove name =>
      match lookup_name st name with
      | Some i => if drops_data st i then Some KfUnlinkDropsData else None
      | None => None
      end
  | PRename old new =>
      match lookup_name st old, lookup_name st new with
      | Some i, Some j =>
          if Nat.eqb i j then None
          else if drops_data st j then Some KfUnlinkDropsData else None
      | _, _ => None
      end
  | _ => None
  end.

(* ---- directory handles ----------------------------------------------------------- *)
(* History-determined ghost state used only by the classifier: whether the end of the listing has
   been delivered on this description (io.EOF batch, or a ReadDir(n <= 0)) since the last rewind, and
   which of ReadDir / Readdirnames is being used in the current pass. *)
Record dghost := { g_ended : bool; g_kind : option bool (* true = ReadDir *) }.
Definition ghost0 : dghost := {| g_ended := false; g_kind := None |}.

Inductive dfinding :=
| KfDirRestart        (* after io.EOF or ReadDir(n<=0) the next read starts the listing again; os stays at the end *)
| KfDirAllAfterPartial(* ReadDir(n<=0) after a partial read returns ALL entries; os returns the remaining ones *)
| KfDirMixedCursors   (* ReadDir and Readdirnames keep separate caches behind one index *)
| KfDirSeek           (* Seek on a directory handle does nothing and returns 0; os rewinds / validates *)
| KfDirZeroLenRead.   (* Read(empty buffer) on a directory handle: EISDIR; os.File: (0, nil) *)

Definition dfinding_id (k : dfinding) : N :=
  match k with KfDirRestart => 21 | KfDirAllAfterPartial => 22 | KfDirMixedCursors => 23 | KfDirSeek => 24 | KfDirZeroLenRead => 25 end%N.

Definition kind_differs (g : dghost) (k : bool) : bool :=
  match g_kind g with Some k' => negb (Bool.eqb k k') | None => false end.

Definition kfdir (listing : list str) (d : dfd) (g : dghost) (op : dop) : option dfinding :=
  if d_closed d then None
  else
    let rd (k : bool) (n : Z) :=
      match listing with
      | [] => None
      | _ =>
          if g_ended g then Some KfDirRestart
          else if kind_differs g k && Nat.ltb 0 (d_cursor d) then Some KfDirMixedCursors
          else if Z.leb n 0 && Nat.ltb 0 (d_cursor d) then Some KfDirAllAfterPartial
          else None
      end in
    match op with
    | DReadDir n => rd true n
    | DReaddirnames n => rd false n
    | DRewind => if Nat.ltb 0 (d_cursor d) && negb (g_ended g) then Some KfDirSeek else None
    | DRead n => if Z.leb n 0 then Some KfDirZeroLenRead else None
    | DClose => None
    end.

Definition dghost_step (listing : list str) (d : dfd) (g : dghost) (op : dop) : dghost :=
  if d_closed d then g
  else
    let rd (k : bool) (n : Z) :=
      if Z.leb n 0 || Nat.leb (length listing) (d_cursor d)
      then {| g_ended := true; g_kind := None |}
      else {| g_ended := g_ended g; g_kind := Some k |} in
    match op with
    | DReadDir n => rd true n
    | DReaddirnames n => rd false n
    | DRewind => ghost0
    | _ => g
    end.

(* the implementation side of a directory operation, on handle hi *)
Definition impl_dcall (hi : nat) (op : dop) : call :=
  match op with
  | DReadDir n => FReadDir hi n
  | DReaddirnames n => FReaddirnames hi n
  | DRewind => FSeek hi 0 0
  | DRead n => FRead hi n
  | DClose => FClose hi
  end.

(* ---- OrefaFS ----------------------------------------------------------------------- *)
(* OrefaFile (vfs/orefafs/orefafs_file.go) is MemFile with other lock modes and type tests; the one
   difference in behaviour is the order of two tests in Truncate (closed before size < 0).  The
   namespace calls the C02 histories use (OpenFile, Truncate, Rename, Link, Remove on regular files in
   one existing directory) behave as those of MemFS. *)
Definition handle_closed (w : world) (hi : nat) : bool :=
  match nth_error (w_handles w) hi with
  | Some f => match hd_node f with None => true | Some _ => false end
  | None => false
  end.

Definition orefa_step (w : world) (op : fop) : world * res :=
  match op with
  | Ftruncate fd size => if handle_closed w fd then wstep w (FTruncate fd 0) else wstep w (FTruncate fd size)
  | _ => wstep w (impl_call op)
  end.

Definition kf02_orefa (st : fstate) (op : fop) : option finding :=
  match op with
  | Ftruncate _ _ => None
  | _ => kf02 st op
  end.
