(* C11, the walk: confinement and the prefix theorem (POSIX flavour).

   - [search_node_confined] : whatever the path string (".." spellings, symbolic
     links with absolute or relative targets included), the parent and child nodes
     searchNode returns are reachable from the view's root by child edges.
   - [search_prefix] : the walk of a view rooted at [nd] on the clean absolute path
     "/p1/.../pn" (n > 0) and the walk of the parent view on "/d1/.../dk/p1/.../pn",
     where d1..dk lead from the parent's root to [nd] through searchable
     directories, return the same parent node, child node and error, and
     iterators positioned on the same component ([pi_corr]); no symbolic link is
     met below [nd].
   - [search_prefix_root] : for "/" through the view and "/d1/.../dk" through the
     parent: same child and error (the parent node and the part differ: the view's
     root is a root).
   - [search_node_abs] : searchNode depends on the path string only through
     Abs(cwd, path), which is a clean absolute path "/q1/.../qm" ([view_comps]) -
     so the two theorems above speak about every path string. *)
From Avfs Require Import Base PathModel PathSpec PathProofs PathCleanProofs PathIterProofs MemFS.

(* ---- reachability by child edges ------------------------------------------------ *)
(* an edge is an entry (name, c) of the children map of a directory - ANY entry, also one
   shadowed by an earlier entry of the same name in a malformed map *)
Inductive reach (h : heap) (r : nat) : nat -> Prop :=
| reach_root : reach h r r
| reach_edge x nm c : reach h r x -> In (nm, c) (children h x) -> reach h r c.

Lemma alookup_In (nm : str) (l : list (str * nat)) (c : nat) : alookup str_eqb nm l = Some c -> In (nm, c) l.
Proof.
  induction l as [|[k x] l IH]; cbn [alookup]; [discriminate|].
  destruct (str_eqb_spec nm k) as [->|_]; [intros [= ->]; left; reflexivity|intros H; right; auto].
Qed.

(* the entries the walk looks up are edges *)
Lemma reach_child h r x nm c : reach h r x -> alookup str_eqb nm (children h x) = Some c -> reach h r c.
Proof. intros Hx Hl. eapply reach_edge; [exact Hx|apply alookup_In; exact Hl]. Qed.

Lemma reach_trans h a b c : reach h a b -> reach h b c -> reach h a c.
Proof. intros Hab Hbc. induction Hbc; [exact Hab|]. eapply reach_edge; eauto. Qed.

Definition confined (h : heap) (root : nat) (r : sres) : Prop :=
  (forall x, sr_parent r = Some x -> reach h root x) /\ (forall c, sr_child r = Some c -> reach h root c).

Lemma confined_mk h root p c pi e :
  reach h root p -> (forall x, c = Some x -> reach h root x) ->
  confined h root {| sr_parent := Some p; sr_child := c; sr_pi := pi; sr_err := e |}.
Proof. intros Hp Hc. split; cbn [sr_parent sr_child]; [intros x [= <-]; exact Hp|exact Hc]. Qed.

Lemma search_loop_confined (h : heap) (v : view) (slm : slmode) (root : nat) :
  forall fuel vol parent pi slc saved,
  reach h root vol -> reach h root parent ->
  confined h root (search_loop fuel h v slm vol parent pi slc saved).
Proof.
  induction fuel as [|f IH]; intros vol parent pi slc saved Hvol Hpar.
  - cbn [search_loop]. apply confined_mk; [exact Hpar|discriminate].
  - cbn [search_loop]. destruct (pi_next (v_os v) pi) as [ok pi1]. destruct ok; cbn [negb].
    2:{ apply confined_mk; [exact Hpar|intros x [= <-]; exact Hpar]. }
    destruct (Nat.eqb parent vol && negb _); [apply confined_mk; [exact Hpar|discriminate]|].
    destruct (alookup str_eqb (pi_part pi1) (children h parent)) as [c|] eqn:Hl.
    2:{ apply confined_mk; [exact Hpar|discriminate]. }
    assert (Hc : reach h root c) by (eapply reach_child; eauto).
    assert (Hret : forall e pi', confined h root {| sr_parent := Some parent; sr_child := Some c; sr_pi := pi'; sr_err := e |}).
    { intros e pi'. apply confined_mk; [exact Hpar|intros x [= <-]; exact Hc]. }
    destruct (get h c) as [[ch m|d k i m|link m]|]; try apply Hret.
    + destruct (pi_is_last pi1); [apply Hret|].
      destruct (check_permission m OpenLookup (v_user v)); [|apply Hret]. apply IH; assumption.
    + destruct (pi_is_last pi1); apply Hret.
    + destruct (pi_is_last pi1 && slmode_eqb slm SlLstat); [apply Hret|].
      destruct (Nat.ltb slCountMax (S slc)); [apply Hret|].
      destruct (pi_replace_part (v_os v) pi1 link) as [reset pi2].
      apply IH; [exact Hvol|]. destruct reset; assumption.
Qed.

(* whatever the path string and the link targets met on the way *)
Theorem search_node_confined (s : fsys) (v : view) (path : str) (slm : slmode) :
  v_os v = Linux ->
  confined (f_heap s) (v_root v) (search_node s v path slm).
Proof.
  intros Hos. unfold search_node. rewrite Hos. cbn [pi_new volume_name_len pi_vnl Nat.ltb Nat.leb].
  apply search_loop_confined; apply reach_root.
Qed.

(* ---- the subtree of a view is part of the subtree of its parent ------------------ *)
(* following the names [ds] from [r] through directories the user may search ends at [nd] *)
Fixpoint dir_chain (h : heap) (u : user) (r : nat) (ds : list str) (nd : nat) : Prop :=
  match ds with
  | [] => r = nd
  | d :: ds' => exists c chs m, alookup str_eqb d (children h r) = Some c /\ get h c = Some (NDir chs m)
                                /\ check_permission m OpenLookup u = true /\ dir_chain h u c ds' nd
  end.

Lemma dir_chain_reach h u : forall ds r nd, dir_chain h u r ds nd -> reach h r nd.
Proof.
  induction ds as [|d ds IH]; intros r nd H; cbn [dir_chain] in H.
  - subst. apply reach_root.
  - destruct H as (c & chs & m & Hl & _ & _ & Hc). eapply reach_trans; [|apply IH; exact Hc].
    eapply reach_child; [apply reach_root|exact Hl].
Qed.

(* so everything reachable from the view's root is reachable from the parent's *)
Lemma reach_sub h u r ds nd x : dir_chain h u r ds nd -> reach h nd x -> reach h r x.
Proof. intros Hc Hx. eapply reach_trans; [eapply dir_chain_reach; exact Hc|exact Hx]. Qed.

(* ---- no symbolic link met when walking [todo] from node [n] ------------------------- *)
Fixpoint symfree_walk (h : heap) (n : nat) (todo : list str) : Prop :=
  match todo with
  | [] => True
  | c :: rest =>
      match alookup str_eqb c (children h n) with
      | None => True
      | Some x => match get h x with
                  | Some (NSym _ _) => False
                  | Some (NDir _ _) => symfree_walk h x rest
                  | _ => True
                  end
      end
  end.

(* ---- corresponding cursors ---------------------------------------------------------- *)
(* both iterators sit on the same component [c] of [ps]; the parent's path has the extra prefix [ds] *)
Definition pi_corr (ds ps : list str) (pp pv : piter) : Prop :=
  exists done c todo, ps = done ++ c :: todo
                      /\ pp = on_comp (ds ++ ps) (ds ++ done) c /\ pv = on_comp ps done c.

Definition sr_corr (ds ps : list str) (rp rv : sres) : Prop :=
  sr_parent rp = sr_parent rv /\ sr_child rp = sr_child rv /\ sr_err rp = sr_err rv
  /\ pi_corr ds ps (sr_pi rp) (sr_pi rv).

Lemma on_comp_part cs done c todo : cs = done ++ c :: todo -> pi_part (on_comp cs done c) = c.
Proof. intros ->. apply (on_comp_views done todo c). Qed.

Lemma on_comp_last cs done c todo :
  cs = done ++ c :: todo -> pi_is_last (on_comp cs done c) = match todo with [] => true | _ => false end.
Proof. intros ->. apply (on_comp_views done todo c). Qed.

Lemma on_comp_left_part cs done c todo : cs = done ++ c :: todo -> pi_left_part (on_comp cs done c) = rpath (done ++ [c]).
Proof. intros ->. apply (on_comp_views done todo c). Qed.

Lemma pi_corr_facts ds ps pp pv :
  pi_corr ds ps pp pv ->
  pi_part pp = pi_part pv /\ pi_is_last pp = pi_is_last pv
  /\ pi_path pp = abs_path (ds ++ ps) /\ pi_path pv = abs_path ps
  /\ exists done, pi_left_part pp = rpath (ds ++ done) /\ pi_left_part pv = rpath done.
Proof.
  intros (done & c & todo & Hps & -> & ->).
  assert (Hcs : ds ++ ps = (ds ++ done) ++ c :: todo) by (rewrite Hps, app_assoc; reflexivity).
  rewrite (on_comp_part _ _ _ _ Hcs), (on_comp_part _ _ _ _ Hps).
  rewrite (on_comp_last _ _ _ _ Hcs), (on_comp_last _ _ _ _ Hps).
  rewrite (on_comp_left_part _ _ _ _ Hcs), (on_comp_left_part _ _ _ _ Hps).
  repeat split. exists (done ++ [c]). rewrite app_assoc. split; reflexivity.
Qed.

(* the search bit of the walk's start directory is tested whenever a name is looked up in it *)
Lemma root_test_false (h : heap) (u : user) (vol n : nat) :
  perm_on h vol OpenLookup u = true ->
  Nat.eqb n vol && negb (match get h n with
                         | Some x => check_permission (node_meta x) OpenLookup u
                         | None => false
                         end) = false.
Proof.
  intros Hp. destruct (Nat.eqb_spec n vol) as [->|_]; [|reflexivity].
  unfold perm_on in Hp. rewrite Hp. reflexivity.
Qed.

Lemma dir_chain_perm h u : forall ds r nd,
  dir_chain h u r ds nd -> perm_on h r OpenLookup u = true -> perm_on h nd OpenLookup u = true.
Proof.
  induction ds as [|d ds IH]; intros r nd H Hr; cbn [dir_chain] in H.
  - subst. exact Hr.
  - destruct H as (c & chs & m & _ & Hg & Hp & Hc). apply (IH c nd Hc). unfold perm_on. rewrite Hg. exact Hp.
Qed.

Section Prefix.
  Variable h : heap.
  Variables vp vv : view.          (* the parent view, the sub view *)
  Variable slm : slmode.
  Hypothesis Hosp : v_os vp = Linux.
  Hypothesis Hosv : v_os vv = Linux.
  Hypothesis Huser : v_user vv = v_user vp.
  Variables ds ps : list str.
  Hypothesis Hds : Forall comp_ok ds.
  Hypothesis Hps : Forall comp_ok ps.

  Let Hcs : Forall comp_ok (ds ++ ps).
  Proof. apply Forall_app. split; assumption. Qed.

  (* phase 2: below the view's root the two walks proceed in lock step *)
  Lemma walk_sim : forall todo done n fp fv pip piv volp volv,
    perm_on h volp OpenLookup (v_user vp) = true -> perm_on h volv OpenLookup (v_user vp) = true ->
    ps = done ++ todo -> todo <> [] ->
    before (ds ++ ps) (ds ++ done) pip -> before ps done piv ->
    length todo < fp -> length todo < fv ->
    symfree_walk h n todo ->
    sr_corr ds ps (search_loop fp h vp slm volp n pip 0 None) (search_loop fv h vv slm volv n piv 0 None).
  Proof.
    induction todo as [|c rest IH]; intros done n fp fv pip piv volp volv Hvolp Hvolv Hsplit Hne Hbp Hbv Hfp Hfv Hsf;
      [congruence|].
    destruct fp as [|fp]; [cbn in Hfp; lia|]. destruct fv as [|fv]; [cbn in Hfv; lia|].
    assert (Hsplitp : ds ++ ps = (ds ++ done) ++ c :: rest) by (rewrite Hsplit, app_assoc; reflexivity).
    cbn [search_loop]. rewrite Hosp, Hosv.
    rewrite (@pi_next_step _ _ _ _ Hcs Hsplitp Hbp), (@pi_next_step _ _ _ _ Hps Hsplit Hbv). cbn [negb].
    rewrite (on_comp_part _ _ _ _ Hsplitp), (on_comp_part _ _ _ _ Hsplit).
    rewrite (on_comp_last _ _ _ _ Hsplitp), (on_comp_last _ _ _ _ Hsplit).
    rewrite Huser, (root_test_false h (v_user vp) volp n Hvolp), (root_test_false h (v_user vp) volv n Hvolv).
    assert (Hpc : pi_corr ds ps (on_comp (ds ++ ps) (ds ++ done) c) (on_comp ps done c)).
    { exists done, c, rest. auto. }
    cbn [symfree_walk] in Hsf. cbn [out_pi].
    destruct (alookup str_eqb c (children h n)) as [x|]; [|repeat split; auto].
    destruct (get h x) as [[ch m|d k i m|link m]|]; try (repeat split; auto; fail).
    - destruct rest as [|c2 rest]; [repeat split; auto|].
      destruct (check_permission m OpenLookup (v_user vp)); [|repeat split; auto].
      apply (IH (done ++ [c])).
      + exact Hvolp.
      + exact Hvolv.
      + rewrite Hsplit, <- app_assoc. reflexivity.
      + discriminate.
      + rewrite app_assoc. apply on_comp_before.
      + apply on_comp_before.
      + cbn [length] in *. lia.
      + cbn [length] in *. lia.
      + exact Hsf.
    - destruct rest; repeat split; auto.
    - destruct Hsf.
  Qed.

  (* phase 1: the parent walks down d1..dk to the view's root *)
  Lemma walk_ds : forall ds2 ds1 n f pi vol nd,
    perm_on h vol OpenLookup (v_user vp) = true ->
    ds = ds1 ++ ds2 -> ps <> [] ->
    before (ds ++ ps) ds1 pi ->
    dir_chain h (v_user vp) n ds2 nd ->
    exists pi', before (ds ++ ps) ds pi'
                /\ search_loop (length ds2 + f) h vp slm vol n pi 0 None = search_loop f h vp slm vol nd pi' 0 None.
  Proof.
    induction ds2 as [|c ds2 IH]; intros ds1 n f pi vol nd Hvol Hsplit Hne Hb Hch.
    - cbn [dir_chain] in Hch. subst nd. rewrite app_nil_r in Hsplit. subst ds1. exists pi. split; [exact Hb|reflexivity].
    - cbn [dir_chain] in Hch. destruct Hch as (x & chs & m & Hl & Hg & Hperm & Hch).
      assert (Hsp : ds ++ ps = ds1 ++ c :: (ds2 ++ ps)) by (rewrite Hsplit, <- app_assoc; reflexivity).
      destruct (IH (ds1 ++ [c]) x f (on_comp (ds ++ ps) ds1 c) vol nd) as (pi' & Hb' & E).
      + exact Hvol.
      + rewrite Hsplit, <- app_assoc. reflexivity.
      + exact Hne.
      + apply on_comp_before.
      + exact Hch.
      + exists pi'. split; [exact Hb'|]. rewrite <- E.
        cbn [length plus search_loop]. rewrite Hosp, (@pi_next_step _ _ _ _ Hcs Hsp Hb). cbn [negb].
        rewrite (on_comp_part _ _ _ _ Hsp), (on_comp_last _ _ _ _ Hsp), (root_test_false h (v_user vp) vol n Hvol), Hl, Hg.
        destruct (ds2 ++ ps) eqn:E2; [apply app_eq_nil in E2; destruct E2; congruence|].
        rewrite Hperm. reflexivity.
  Qed.

  Hypothesis Hchain : dir_chain h (v_user vp) (v_root vp) ds (v_root vv).
  (* the acting user may search the parent's root (hence, by the chain, the view's root) *)
  Hypothesis Hrootp : perm_on h (v_root vp) OpenLookup (v_user vp) = true.

  Let Hrootv : perm_on h (v_root vv) OpenLookup (v_user vp) = true.
  Proof. exact (dir_chain_perm h (v_user vp) ds (v_root vp) (v_root vv) Hchain Hrootp). Qed.

  Lemma loops_prefix fp fv :
    ps <> [] -> symfree_walk h (v_root vv) ps -> length ds + length ps < fp -> length ps < fv ->
    sr_corr ds ps
      (search_loop fp h vp slm (v_root vp) (v_root vp) (pi_new Linux (abs_path (ds ++ ps))) 0 None)
      (search_loop fv h vv slm (v_root vv) (v_root vv) (pi_new Linux (abs_path ps)) 0 None).
  Proof.
    intros Hne Hsf Hfp Hf.
    destruct (walk_ds ds [] (v_root vp) (fp - length ds) (pi_new Linux (abs_path (ds ++ ps))) (v_root vp) (v_root vv))
      as (pi' & Hb' & E); [exact Hrootp|reflexivity|exact Hne|apply pi_new_before|exact Hchain|].
    replace (length ds + (fp - length ds)) with fp in E by lia.
    rewrite E. apply (walk_sim ps []); auto.
    - rewrite app_nil_r. exact Hb'.
    - apply pi_new_before.
    - lia.
  Qed.

  (* "/" through the view, "/d1/.../dk" through the parent *)
  Lemma loops_prefix_root fv fp :
    ps = [] -> ds <> [] -> 0 < fv -> length ds < fp ->
    let rp := search_loop fp h vp slm (v_root vp) (v_root vp) (pi_new Linux (abs_path ds)) 0 None in
    let rv := search_loop fv h vv slm (v_root vv) (v_root vv) (pi_new Linux (abs_path [])) 0 None in
    sr_child rp = Some (v_root vv) /\ sr_child rv = Some (v_root vv)
    /\ sr_err rp = EFileExists /\ sr_err rv = EFileExists /\ sr_parent rv = Some (v_root vv).
  Proof.
    intros Hnil Hne Hfv Hfp rp rv.
    assert (Hv : sr_child rv = Some (v_root vv) /\ sr_err rv = EFileExists /\ sr_parent rv = Some (v_root vv)).
    { unfold rv. destruct fv as [|fv]; [lia|]. cbn [search_loop]. rewrite Hosv.
      change (pi_next Linux (pi_new Linux (abs_path []))) with (false, past_end [] []). cbn. auto. }
    destruct Hv as (V1 & V2 & V3). repeat split; try assumption.
    - (* the parent's walk ends on the last of ds *)
      clear V1 V2 V3 rv. unfold rp. clear rp.
      assert (G : forall ds2 ds1 n f pi, ds = ds1 ++ ds2 -> ds2 <> [] -> before ds ds1 pi -> length ds2 < f ->
                  dir_chain h (v_user vp) n ds2 (v_root vv) ->
                  let r := search_loop f h vp slm (v_root vp) n pi 0 None in
                  sr_child r = Some (v_root vv) /\ sr_err r = EFileExists).
      { induction ds2 as [|c ds2 IH]; intros ds1 n f pi Hsplit Hne2 Hb Hf Hch; [congruence|].
        destruct f as [|f]; [cbn in Hf; lia|]. cbn [dir_chain] in Hch.
        destruct Hch as (x & chs & m & Hl & Hg & Hperm & Hch).
        cbn zeta. cbn [search_loop]. rewrite Hosp, (@pi_next_step _ _ _ _ Hds Hsplit Hb). cbn [negb].
        rewrite (on_comp_part _ _ _ _ Hsplit), (on_comp_last _ _ _ _ Hsplit), (root_test_false h (v_user vp) (v_root vp) n Hrootp), Hl, Hg.
        destruct ds2 as [|c2 ds2].
        - cbn [dir_chain] in Hch. subst x. cbn. auto.
        - rewrite Hperm. apply (IH (ds1 ++ [c])).
          + rewrite Hsplit, <- app_assoc. reflexivity.
          + discriminate.
          + apply on_comp_before.
          + cbn [length] in *. lia.
          + exact Hch. }
      apply (G ds [] (v_root vp) fp); auto. apply pi_new_before.
    - clear V1 V2 V3 rv. unfold rp. clear rp.
      assert (G : forall ds2 ds1 n f pi, ds = ds1 ++ ds2 -> ds2 <> [] -> before ds ds1 pi -> length ds2 < f ->
                  dir_chain h (v_user vp) n ds2 (v_root vv) ->
                  sr_err (search_loop f h vp slm (v_root vp) n pi 0 None) = EFileExists).
      { induction ds2 as [|c ds2 IH]; intros ds1 n f pi Hsplit Hne2 Hb Hf Hch; [congruence|].
        destruct f as [|f]; [cbn in Hf; lia|]. cbn [dir_chain] in Hch.
        destruct Hch as (x & chs & m & Hl & Hg & Hperm & Hch).
        cbn [search_loop]. rewrite Hosp, (@pi_next_step _ _ _ _ Hds Hsplit Hb). cbn [negb].
        rewrite (on_comp_part _ _ _ _ Hsplit), (on_comp_last _ _ _ _ Hsplit), (root_test_false h (v_user vp) (v_root vp) n Hrootp), Hl, Hg.
        destruct ds2 as [|c2 ds2].
        - reflexivity.
        - rewrite Hperm. apply (IH (ds1 ++ [c])).
          + rewrite Hsplit, <- app_assoc. reflexivity.
          + discriminate.
          + apply on_comp_before.
          + cbn [length] in *. lia.
          + exact Hch. }
      apply (G ds [] (v_root vp) fp); auto. apply pi_new_before.
  Qed.
End Prefix.

(* ---- searchNode ------------------------------------------------------------------------ *)
Lemma abs_abs_path cwd cs : Forall good_comp cs -> abs Linux cwd (abs_path cs) = abs_path cs.
Proof. intros Hg. unfold abs. change (is_abs Linux (abs_path cs)) with true. cbv iota. apply clean_abs_path_fix. exact Hg. Qed.

Lemma search_node_abs_path (s : fsys) (v : view) (cs : list str) (slm : slmode) :
  v_os v = Linux -> Forall good_comp cs ->
  search_node s v (abs_path cs) slm
  = search_loop SEARCH_FUEL (f_heap s) v slm (v_root v) (v_root v) (pi_new Linux (abs_path cs)) 0 None.
Proof.
  intros Hos Hg. unfold search_node. rewrite Hos, abs_abs_path by exact Hg. reflexivity.
Qed.

Theorem search_prefix (s : fsys) (vp vv : view) (slm : slmode) (ds ps : list str) :
  v_os vp = Linux -> v_os vv = Linux -> v_user vv = v_user vp ->
  Forall good_comp ds -> Forall good_comp ps -> ps <> [] ->
  dir_chain (f_heap s) (v_user vp) (v_root vp) ds (v_root vv) ->
  perm_on (f_heap s) (v_root vp) OpenLookup (v_user vp) = true ->
  symfree_walk (f_heap s) (v_root vv) ps ->
  length ds + length ps < SEARCH_FUEL ->
  sr_corr ds ps (search_node s vp (abs_path (ds ++ ps)) slm) (search_node s vv (abs_path ps) slm).
Proof.
  intros Hosp Hosv Hu Hds Hps Hne Hch Hroot Hsf Hlen.
  rewrite !search_node_abs_path by (try apply Forall_app; auto).
  apply loops_prefix; auto using Forall_comp_ok_of. lia.
Qed.

Theorem search_prefix_root (s : fsys) (vp vv : view) (slm : slmode) (ds : list str) :
  v_os vp = Linux -> v_os vv = Linux ->
  Forall good_comp ds -> ds <> [] ->
  dir_chain (f_heap s) (v_user vp) (v_root vp) ds (v_root vv) ->
  perm_on (f_heap s) (v_root vp) OpenLookup (v_user vp) = true ->
  length ds < SEARCH_FUEL ->
  let rp := search_node s vp (abs_path ds) slm in
  let rv := search_node s vv (abs_path []) slm in
  sr_child rp = Some (v_root vv) /\ sr_child rv = Some (v_root vv)
  /\ sr_err rp = EFileExists /\ sr_err rv = EFileExists /\ sr_parent rv = Some (v_root vv).
Proof.
  intros Hosp Hosv Hds Hne Hch Hroot Hlen. cbv zeta.
  rewrite !search_node_abs_path by auto.
  apply (loops_prefix_root (f_heap s) vp vv slm Hosp Hosv ds [] (Forall_comp_ok_of Hds)); auto.
  unfold SEARCH_FUEL. lia.
Qed.

(* ---- every path string ------------------------------------------------------------------- *)
(* the components of Abs(cwd, p) for a view whose cwd is the clean absolute path "/cw1/.../cwk" *)
Definition view_comps (cw : list str) (p : str) : list str :=
  if is_abs Linux p then norm true [] (path_comps p) else
  match p with
  | [] => cw                      (* Join drops the empty element *)
  | _ => norm true (rev cw) (path_comps p)
  end.

Lemma join_cwd_empty cw : Forall good_comp cw -> join Linux [abs_path cw; []] = abs_path cw.
Proof.
  intros Hg. rewrite join_abs_any by exact Hg. cbn [path_comps comps comps_acc rev filter ne negb norm].
  rewrite rev_involutive. reflexivity.
Qed.

Theorem abs_view_comps (cw : list str) (p : str) :
  Forall good_comp cw ->
  abs Linux (abs_path cw) p = abs_path (view_comps cw p) /\ Forall good_comp (view_comps cw p).
Proof.
  intros Hg. unfold abs, view_comps. destruct (is_abs Linux p) eqn:Ha.
  - apply clean_abs_comps. exact Ha.
  - destruct p as [|c p].
    + split; [apply join_cwd_empty; exact Hg|exact Hg].
    + rewrite join_abs_any by exact Hg. split; [reflexivity|].
      destruct (@norm_shape true (path_comps (c :: p)) 0 (rev cw)) as (k & names & Hn & Hgn & Hk).
      * unfold path_comps. apply Forall_forall. intros x Hx. apply filter_In in Hx as (Hx & _).
        pose proof (comps_sepfree (c :: p)) as Hs. rewrite Forall_forall in Hs. apply Hs, Hx.
      * apply Forall_rev. eapply Forall_impl; [|exact Hg]. intros a. apply good_good_comp.
      * intros _. reflexivity.
      * change (stk 0 (rev cw)) with (rev cw ++ []) in Hn. rewrite app_nil_r in Hn. rewrite Hn, (Hk eq_refl).
        unfold L. cbn [repeat app]. apply Forall_rev. eapply Forall_impl; [|exact Hgn]. intros a. apply good_good_comp.
Qed.

(* an absolute path string does not even need the cwd *)
Theorem abs_view_comps_abs (cwd p : str) :
  is_abs Linux p = true ->
  abs Linux cwd p = abs_path (view_comps [] p) /\ Forall good_comp (view_comps [] p).
Proof.
  intros Ha. unfold abs, view_comps. rewrite Ha. apply clean_abs_comps. exact Ha.
Qed.

(* searchNode sees the path only through Abs *)
Theorem search_node_abs (s : fsys) (v : view) (p : str) (slm : slmode) (qs : list str) :
  v_os v = Linux -> abs Linux (v_cwd v) p = abs_path qs -> Forall good_comp qs ->
  search_node s v p slm = search_node s v (abs_path qs) slm.
Proof.
  intros Hos Ha Hg. unfold search_node. rewrite Hos, Ha, abs_abs_path by exact Hg. reflexivity.
Qed.

(* the components a view resolves the path string [p] to: for an absolute string
   whatever the cwd, for a relative one when the view's cwd is "/cw1/.../cwk" *)
Lemma view_abs (v : view) (cw : list str) (p : str) :
  (is_abs Linux p = true \/ (v_cwd v = abs_path cw /\ Forall good_comp cw)) ->
  abs Linux (v_cwd v) p = abs_path (view_comps cw p) /\ Forall good_comp (view_comps cw p).
Proof.
  intros [Ha|(Hc & Hg)].
  - replace (view_comps cw p) with (view_comps [] p) by (unfold view_comps; rewrite Ha; reflexivity).
    apply abs_view_comps_abs. exact Ha.
  - rewrite Hc. apply abs_view_comps. exact Hg.
Qed.

(* the prefix theorem for EVERY path string given to the view - unclean spellings
   ("..", ".", "//") and, once the view's cwd is a clean absolute path of the view,
   relative paths: the view's walk on [p] is the parent's walk on
   "/d1/.../dk/q1/.../qm" where q1..qm = [view_comps cw p] *)
Theorem search_prefix_any (s : fsys) (vp vv : view) (slm : slmode) (ds cw : list str) (p : str) :
  v_os vp = Linux -> v_os vv = Linux -> v_user vv = v_user vp ->
  Forall good_comp ds ->
  (is_abs Linux p = true \/ (v_cwd vv = abs_path cw /\ Forall good_comp cw)) ->
  let qs := view_comps cw p in
  qs <> [] ->
  dir_chain (f_heap s) (v_user vp) (v_root vp) ds (v_root vv) ->
  perm_on (f_heap s) (v_root vp) OpenLookup (v_user vp) = true ->
  symfree_walk (f_heap s) (v_root vv) qs ->
  length ds + length qs < SEARCH_FUEL ->
  sr_corr ds qs (search_node s vp (abs_path (ds ++ qs)) slm) (search_node s vv p slm).
Proof.
  intros Hosp Hosv Hu Hds Hcw qs Hne Hch Hroot Hsf Hlen.
  destruct (view_abs vv cw p Hcw) as (Ha & Hg). fold qs in Ha, Hg.
  rewrite (search_node_abs s vv p slm qs Hosv Ha Hg). apply search_prefix; auto.
Qed.

(* ... and confinement in the same terms: the cleaned path has no ".." left to climb with *)
Theorem view_comps_no_dotdot (v : view) (cw : list str) (p : str) (c : str) :
  (is_abs Linux p = true \/ (v_cwd v = abs_path cw /\ Forall good_comp cw)) ->
  In c (view_comps cw p) -> c <> [DOT; DOT] /\ c <> [DOT] /\ c <> [].
Proof.
  intros Hcw Hin. destruct (view_abs v cw p Hcw) as (_ & Hg). rewrite Forall_forall in Hg.
  destruct (Hg c Hin) as (H1 & _ & H3 & H4). auto.
Qed.
