(* Property C05: consequences of the invariant.
   - no directory is below itself; one walk to every directory;
   - every chain of entries is shorter than the heap, so the tree walk of
     World.snap never runs into its fuel bound;
   - listings: sorted, duplicate free, and a name is listed iff its lookup
     succeeds;
   - link counts: nlink = number of (directory, name) entries of the file. *)
From Coq Require Import Permutation Sorted.
From Avfs Require Import Base BaseProofs PathModel MemFS MemFile World Inv InvPath.

(* ---- acyclic, unique walk ------------------------------------------------------------ *)
Theorem Inv_heap_acyclic h : Inv_heap h -> forall d, ~ reachp h d d.
Proof. intros IH. exact (I5_acyclic IH). Qed.

Theorem Inv_heap_unique_walk h r c :
  Inv_heap h -> reach h r c -> is_dir h c -> exists ns, walk h r ns c /\ forall ns', walk h r ns' c -> ns' = ns.
Proof.
  intros IH Hr Hd. destruct (reach_walk h r c Hr) as (ns & Hw). exists ns. split; auto.
  intros ns' Hw'. eapply walk_unique; eauto.
Qed.

(* ---- chains ---------------------------------------------------------------------------- *)
(* a chain is the node list of a walk *)
Fixpoint chain (h : heap) (l : list nat) : Prop :=
  match l with
  | [] => False
  | [a] => True
  | a :: ((b :: _) as l') => (exists n, edge h a n b) /\ chain h l'
  end.

Lemma chain_reach h a l x : chain h (a :: l) -> In x (a :: l) -> reach h a x.
Proof.
  revert a; induction l as [|b l IH]; intros a Hc Hin.
  - destruct Hin as [->|[]]. apply reach_refl.
  - destruct Hc as [(n & He) Hc]. destruct Hin as [->|Hin]; [apply reach_refl|].
    eapply reach_trans; [eapply reach_edge; eauto|]. now apply IH.
Qed.

Lemma chain_tail_valid h a l x : Inv_heap h -> chain h (a :: l) -> In x l -> x < length h.
Proof.
  intros IH. revert a; induction l as [|b l IHl]; intros a Hc Hin; [destruct Hin|].
  destruct Hc as [(n & He) Hc]. destruct Hin as [->|Hin].
  - eapply (I1_valid IH); eauto.
  - eapply IHl; eauto.
Qed.

Lemma chain_NoDup h l : Inv_heap h -> chain h l -> NoDup l.
Proof.
  intros IH. induction l as [|a l IHl]; intros Hc; [constructor|].
  destruct l as [|b l]; [constructor; [intros []|constructor]|].
  destruct Hc as [(n & He) Hc]. constructor; [|now apply IHl].
  intros Hin. apply (@I5_acyclic _ IH a). eapply reachp_trans_r with (b := b).
  - exists a, n. split; [apply reach_refl | exact He].
  - now apply (chain_reach h b l a).
Qed.

Lemma chain_short h a l : Inv_heap h -> chain h (a :: l) -> length (a :: l) <= S (length h).
Proof.
  intros IH Hc. pose proof (chain_NoDup h _ IH Hc) as Hnd. inversion Hnd as [|? ? _ Hnd']; subst.
  assert (Hincl : incl l (seq 0 (length h))).
  { intros x Hx. apply in_seq. pose proof (chain_tail_valid h a l x IH Hc Hx). lia. }
  pose proof (NoDup_incl_length Hnd' Hincl) as Hlen. rewrite seq_length in Hlen. cbn [length]. lia.
Qed.

(* all chains from [i] have at most [k] nodes *)
Definition maxlen (h : heap) (i k : nat) : Prop := forall l, chain h (i :: l) -> length (i :: l) <= k.

Lemma maxlen_heap h i : Inv_heap h -> maxlen h i (S (length h)).
Proof. intros IH l Hc. now apply chain_short. Qed.

Lemma maxlen_child h i n c k : edge h i n c -> maxlen h i (S k) -> maxlen h c k.
Proof.
  intros He Hm l Hc. specialize (Hm (c :: l)). cbn [length] in *.
  assert (chain h (i :: c :: l)) by (split; eauto). specialize (Hm H). lia.
Qed.

Lemma maxlen_pos h i k : maxlen h i k -> 1 <= k.
Proof. intros Hm. specialize (Hm [] I). cbn [length] in Hm. lia. Qed.

(* ---- sort_by: permutation, membership ---------------------------------------------------- *)
Section SortBy.
  Variable A : Type.
  Variable key : A -> str.

  Lemma insert_sorted_perm x l : Permutation (insert_sorted key x l) (x :: l).
  Proof.
    induction l as [|y l IH]; cbn [insert_sorted]; auto.
    destruct (str_ltb (key y) (key x)); auto.
    eapply perm_trans; [apply perm_skip, IH | apply perm_swap].
  Qed.

  Lemma sort_by_perm l : Permutation (sort_by key l) l.
  Proof.
    unfold sort_by. induction l as [|x l IH]; cbn [fold_right]; auto.
    eapply perm_trans; [apply insert_sorted_perm | now apply perm_skip].
  Qed.

  Lemma sort_by_In x l : In x (sort_by key l) <-> In x l.
  Proof.
    split; apply Permutation_in; [apply sort_by_perm | apply Permutation_sym, sort_by_perm].
  Qed.
End SortBy.

Lemma flat_map_ext_in {A B} (f g : A -> list B) l :
  (forall x, In x l -> f x = g x) -> flat_map f l = flat_map g l.
Proof.
  induction l as [|x l IH]; intros H; cbn [flat_map]; auto.
  rewrite (H x (or_introl eq_refl)), IH; auto. intros y Hy. apply H. now right.
Qed.

(* ---- the tree walk never runs out of fuel ---------------------------------------------------- *)
Lemma snap_stable os h : forall k f1 f2 path i,
  maxlen h i k -> k <= f1 -> k <= f2 -> snap f1 os h path i = snap f2 os h path i.
Proof.
  induction k as [|k IH]; intros f1 f2 path i Hm H1 H2.
  - apply maxlen_pos in Hm. lia.
  - destruct f1 as [|f1]; [lia|]. destruct f2 as [|f2]; [lia|]. cbn [snap].
    destruct (get h i) as [[ch m|d kk id m|l m]|] eqn:Eg; auto.
    f_equal. apply flat_map_ext_in. intros [name c] Hin.
    apply sort_by_In in Hin.
    assert (He : edge h i name c). { apply edge_get. eauto. }
    apply IH; try lia. eapply maxlen_child; eauto.
Qed.

Theorem snap_fuel_enough os h path i fuel :
  Inv_heap h -> S (length h) <= fuel -> snap fuel os h path i = snap (S (length h)) os h path i.
Proof.
  intros IH Hf. apply snap_stable with (k := S (length h)); auto. now apply maxlen_heap.
Qed.

(* ---- listings -------------------------------------------------------------------------------- *)
Lemma str_ltb_irrefl a : str_ltb a a = false.
Proof.
  induction a as [|x a IH]; cbn [str_ltb]; auto. now rewrite N.ltb_irrefl, N.eqb_refl.
Qed.

Lemma str_ltb_trichotomy a b : str_ltb a b = false -> a <> b -> str_ltb b a = true.
Proof.
  revert b; induction a as [|x a IH]; intros [|y b]; cbn [str_ltb]; auto; try congruence.
  destruct (N.ltb_spec x y) as [Hlt|Hge]; [discriminate|].
  destruct (N.eqb_spec x y) as [->|Hne].
  - rewrite N.ltb_irrefl, N.eqb_refl. intros H Hn. apply IH; auto. congruence.
  - intros _ _. destruct (N.ltb_spec y x) as [|Hge2]; auto. lia.
Qed.

Lemma str_ltb_asym a b : str_ltb a b = true -> str_ltb b a = false.
Proof.
  revert b; induction a as [|x a IH]; intros [|y b]; cbn [str_ltb]; auto; try discriminate.
  destruct (N.ltb_spec x y) as [Hlt|Hge].
  - intros _. destruct (N.ltb_spec y x); [lia|]. destruct (N.eqb_spec y x); [lia | reflexivity].
  - destruct (N.eqb_spec x y) as [->|Hne]; [|discriminate].
    rewrite N.ltb_irrefl, N.eqb_refl. apply IH.
Qed.

Definition slt (a b : str) : Prop := str_ltb a b = true.

Lemma insert_sorted_id_Sorted x l :
  Sorted slt l -> ~ In x l -> Sorted slt (insert_sorted (fun s : str => s) x l).
Proof.
  induction l as [|y l IH]; intros Hs Hni; cbn [insert_sorted].
  - constructor; constructor.
  - destruct (str_ltb y x) eqn:E.
    + inversion Hs as [|? ? Hs' Hh]; subst. constructor.
      * apply IH; auto. intros Hin. apply Hni. now right.
      * destruct l as [|z l]; cbn [insert_sorted].
        -- constructor. exact E.
        -- destruct (str_ltb z x); constructor; [inversion Hh; auto | exact E].
    + constructor; auto. constructor. apply str_ltb_trichotomy; auto.
      intros ->. apply Hni. now left.
Qed.

Lemma sort_by_id_Sorted l : NoDup l -> Sorted slt (sort_by (fun s : str => s) l).
Proof.
  unfold sort_by. induction 1 as [|x l Hni Hnd IH]; cbn [fold_right]; [constructor|].
  apply insert_sorted_id_Sorted; auto.
  intros Hin. apply Hni. apply (proj1 (sort_by_In str (fun s : str => s) x l)). exact Hin.
Qed.

Lemma insert_sorted_map {A} (key : A -> str) x l :
  map key (insert_sorted key x l) = insert_sorted (fun s : str => s) (key x) (map key l).
Proof.
  induction l as [|y l IH]; cbn [insert_sorted map]; auto.
  destruct (str_ltb (key y) (key x)); cbn [map]; now rewrite ?IH.
Qed.

Lemma sort_by_map {A} (key : A -> str) l :
  map key (sort_by key l) = sort_by (fun s : str => s) (map key l).
Proof.
  unfold sort_by. induction l as [|x l IH]; cbn [fold_right map]; auto.
  now rewrite insert_sorted_map, IH.
Qed.

(* Readdirnames: sorted strictly (hence duplicate free), and exactly the names whose lookup succeeds *)
Theorem dir_names_spec h d :
  Inv_heap h ->
  let ch := children h d in
  Sorted slt (dir_names ch) /\ NoDup (dir_names ch) /\
  forall name, In name (dir_names ch) <-> exists c, alk name ch = Some c.
Proof.
  intros IH ch. pose proof (I2_names IH d) as Hnd. fold ch in Hnd. unfold dir_names.
  split; [now apply sort_by_id_Sorted|]. split.
  - eapply Permutation_NoDup; [apply Permutation_sym, sort_by_perm | exact Hnd].
  - intros name. rewrite sort_by_In. split.
    + intros Hin. destruct (alk name ch) as [c|] eqn:E; [eauto|].
      apply alookup_None in E. contradiction.
    + intros (c & Hc). apply alookup_In in Hc. change name with (fst (name, c)). now apply in_map.
Qed.

(* ReadDir: the infos carry the same names in the same order *)
Theorem dir_infos_names h d :
  Inv_heap h -> map (@fi_name) (dir_infos h (children h d)) = dir_names (children h d).
Proof.
  intros IH. unfold dir_infos, dir_names. rewrite sort_by_map. f_equal.
  assert (Hv : forall n c, In (n, c) (children h d) -> c < length h).
  { intros n c Hin. eapply (I1_valid IH). exact Hin. }
  induction (children h d) as [|[n c] ch IHch]; cbn [flat_map map fst]; auto.
  destruct (get_some h c (Hv n c (or_introl eq_refl))) as (x & Hx). rewrite Hx. cbn [app map].
  f_equal.
  - destruct x; reflexivity.
  - apply IHch. intros n' c' Hin. apply (Hv n' c'). now right.
Qed.

(* ---- link counts ------------------------------------------------------------------------------- *)
(* the (directory, name) entries that point to f *)
Fixpoint entries_from (i : nat) (h : heap) (f : nat) : list (nat * str) :=
  match h with
  | [] => []
  | x :: h' =>
      map (fun e => (i, fst e)) (filter (fun e => Nat.eqb (snd e) f) (node_children x))
      ++ entries_from (S i) h' f
  end.
Definition entries_to (h : heap) (f : nat) : list (nat * str) := entries_from 0 h f.

Lemma cnt_filter f ch : cnt f ch = length (filter (fun e => Nat.eqb (snd e) f) ch).
Proof.
  induction ch as [|[n x] ch IH]; cbn [cnt filter snd]; auto.
  destruct (Nat.eqb x f); cbn [b2n length]; lia.
Qed.

Lemma entries_from_length i h f : length (entries_from i h f) = indeg h f.
Proof.
  revert i; induction h as [|x h IH]; intros i; cbn [entries_from indeg]; auto.
  rewrite app_length, map_length, IH. unfold node_cnt. now rewrite cnt_filter.
Qed.

Lemma entries_from_In i h f d n :
  In (d, n) (entries_from i h f) <-> exists d', d = i + d' /\ edge h d' n f.
Proof.
  revert i; induction h as [|x h IH]; intros i; cbn [entries_from].
  - split; [intros [] | intros (d' & _ & He)]. unfold edge in He. rewrite children_get in He.
    unfold get in He. destruct d'; cbn [nth_error] in He; destruct He.
  - rewrite in_app_iff, IH. split.
    + intros [Hin|(d' & -> & He)].
      * apply in_map_iff in Hin as ([n' c] & [= <- <-] & Hin). apply filter_In in Hin as [Hin Hc].
        cbn [snd] in Hc. apply Nat.eqb_eq in Hc. subst c.
        exists 0. split; [lia|]. unfold edge. rewrite children_get. exact Hin.
      * exists (S d'). split; [lia|]. unfold edge in *. rewrite children_get in *. exact He.
    + intros ([|d'] & -> & He).
      * left. unfold edge in He. rewrite children_get in He. unfold get in He. cbn [nth_error] in He.
        apply in_map_iff. exists (n, f). split; [f_equal; lia|]. apply filter_In. split; auto.
        cbn [snd]. apply Nat.eqb_refl.
      * right. exists d'. split; [lia|]. unfold edge in *. rewrite children_get in *. exact He.
Qed.

Theorem nlink_entries h f d k i m :
  Inv_heap h -> get h f = Some (NFile d k i m) ->
  k = Z.of_nat (length (entries_to h f)) /\
  (forall dd n, In (dd, n) (entries_to h f) <-> edge h dd n f) /\
  ((exists dd n, edge h dd n f) -> (0 < k)%Z).
Proof.
  intros IH Hg. unfold entries_to. rewrite entries_from_length. split; [eapply (I6_nlink IH); eauto|]. split.
  - intros dd n. rewrite entries_from_In. split.
    + intros (d' & -> & He). exact He.
    + intros He. exists dd. split; auto.
  - intros He. apply indeg_pos in He. rewrite (I6_nlink IH _ Hg). lia.
Qed.

(* all names of one node show the same attributes: Stat reads them from the node *)
Theorem stat_same_node n name1 name2 :
  let a := fill_stat n name1 in let b := fill_stat n name2 in
  fi_size a = fi_size b /\ fi_mode a = fi_mode b /\ fi_uid a = fi_uid b /\ fi_gid a = fi_gid b /\
  fi_nlink a = fi_nlink b /\ fi_id a = fi_id b.
Proof. destruct n; cbn; repeat split. Qed.
