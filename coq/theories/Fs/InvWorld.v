(* Property C05: the invariant of the world (file system value + views + open
   handles) holds initially and is preserved by every step of World.wstep. *)
From Avfs Require Import Base BaseProofs PathModel MemFS MemFile World
  Inv InvMutators InvSearch InvPath InvHandles InvCalls InvRemoveAll InvRename.

(* ---- lists -------------------------------------------------------------------------- *)
Lemma Forall_nth_error {A} (P : A -> Prop) l i x : Forall P l -> nth_error l i = Some x -> P x.
Proof. intros H E. apply nth_error_In in E. rewrite Forall_forall in H. auto. Qed.

Lemma Forall_set_nth_ {A} (P : A -> Prop) l i x : Forall P l -> P x -> Forall P (set_nth_ l i x).
Proof.
  intros H Hx. revert i. induction H as [|y l Hy Hl IH]; intros [|i]; cbn [set_nth_]; auto.
Qed.

(* ---- world-level packaging ------------------------------------------------------------ *)
Lemma Inv_lift w r : Inv w -> step_ok (w_fs w) (fst r) -> Inv (fst (lift w r)).
Proof.
  intros IW (H1 & H2 & H3). unfold lift. cbn [fst]. apply Inv_with_fs; auto.
  rewrite H3. apply IW.
Qed.

Lemma Inv_with_view w vi v' :
  Inv w -> view_ok (f_heap (w_fs w)) v' -> Inv (with_view w vi v').
Proof.
  intros [H1 H2 H3 H4] Hv. split; cbn [with_view w_fs w_views w_handles]; auto.
  now apply Forall_set_nth_.
Qed.

Lemma Inv_with_handle w hi f' :
  Inv w -> handle_ok (f_heap (w_fs w)) f' -> Inv (with_handle w hi f').
Proof.
  intros [H1 H2 H3 H4] Hf. split; cbn [with_handle w_fs w_views w_handles]; auto.
  now apply Forall_set_nth_.
Qed.

Definition node_kept (f f' : handle) : Prop := forall c, hd_node f' = Some c -> hd_node f = Some c.

Lemma handle_ok_node_kept h f f' : handle_ok h f -> node_kept f f' -> handle_ok h f'.
Proof. intros H K c Hc. apply H. now apply K. Qed.

Ltac brk :=
  cbv zeta;
  repeat match goal with
         | |- context [match ?x with _ => _ end] => destruct x eqn:?
         end.

Lemma node_kept_refl f : node_kept f f.
Proof. intros c H; exact H. Qed.

Lemma f_read_kept s v f n : node_kept f (fst (f_read s v f n)).
Proof. unfold f_read, node_kept. brk; cbn [fst hd_node]; intros; congruence. Qed.

Lemma f_seek_kept s v f o wh : node_kept f (fst (f_seek s v f o wh)).
Proof. unfold f_seek, node_kept, set_at. brk; cbn [fst hd_node]; intros; congruence. Qed.

Lemma f_close_kept f : node_kept f (fst (f_close f)).
Proof. unfold f_close, node_kept. brk; cbn [fst hd_node]; intros; congruence. Qed.

Lemma f_read_dir_kept s v f n : node_kept f (fst (f_read_dir s v f n)).
Proof. unfold f_read_dir, dir_read, node_kept. brk; cbn [fst hd_node]; intros; congruence. Qed.

Lemma f_readdirnames_kept s v f n : node_kept f (fst (f_readdirnames s v f n)).
Proof. unfold f_readdirnames, dir_read, node_kept. brk; cbn [fst hd_node]; intros; congruence. Qed.

Lemma f_write_kept s v f b : node_kept f (snd (fst (f_write s v f b))).
Proof. unfold f_write, node_kept, set_at. brk; cbn [fst snd hd_node]; intros; congruence. Qed.

(* ---- the current directory stays rooted -------------------------------------------------- *)
Lemma chdir_rooted s v p d :
  f_vols s = [] -> view_ok (f_heap s) v -> chdir s v p = inr d -> cwd_ok d.
Proof.
  intros HV [_ Hos Hc]. unfold chdir.
  pose proof (search_node_rooted s v p SlEval HV Hos Hc) as Hr.
  destruct (negb (is_file_exists (sr_err (search_node s v p SlEval)))); [discriminate|].
  destruct (sr_child (search_node s v p SlEval)) as [c|]; [|discriminate].
  destruct (get (f_heap s) c) as [[ch m| |]|]; try discriminate.
  destruct (check_permission m OpenLookup (v_user v)); [|discriminate].
  intros [= <-]. exact Hr.
Qed.

Lemma f_chdir_rooted s v f d : view_ok (f_heap s) v -> f_chdir s v f = inr d -> cwd_ok d.
Proof.
  intros [_ Hos Hc]. unfold f_chdir. destruct (hd_name f); [discriminate|].
  destruct (hd_node f) as [c|]; [|discriminate].
  destruct (node_is_dir (f_heap s) c); [|discriminate].
  intros [= <-]. rewrite Hos. now apply abs_rooted.
Qed.

Lemma sub_view_ok s v p v' : view_ok (f_heap s) v -> sub s v p = inr v' -> view_ok (f_heap s) v'.
Proof.
  intros [Hr Hos Hc]. unfold sub.
  destruct (sr_child (search_node s v p SlEval)) as [c|]; [|discriminate].
  destruct (negb (is_file_exists (sr_err (search_node s v p SlEval)))); [discriminate|].
  destruct (node_is_dir (f_heap s) c) eqn:E; [|discriminate].
  intros [= <-]. split; cbn [v_root v_os v_cwd]; auto.
Qed.

Ltac lifted L :=
  match goal with |- Inv (fst (lift ?w ?r)) => apply (Inv_lift w r); [assumption | now apply L] end.

(* ---- every step ------------------------------------------------------------------------------ *)
Theorem Inv_step w c : Inv w -> Inv (fst (wstep w c)).
Proof.
  intros IW. pose proof (inv_heap IW) as IH. pose proof (inv_vols IW) as HV.
  assert (VOK : forall vi v, nth_error (w_views w) vi = Some v -> view_ok (f_heap (w_fs w)) v).
  { intros vi v E. eapply Forall_nth_error; [apply (inv_views IW) | exact E]. }
  assert (HOK : forall hi f, nth_error (w_handles w) hi = Some f -> handle_ok (f_heap (w_fs w)) f).
  { intros hi f E. eapply Forall_nth_error; [apply (inv_handles IW) | exact E]. }
  destruct c; cbn [wstep]; unfold on_view, on_handle.
  (* calls on a view *)
  1-25: destruct (nth_error (w_views w) vi) as [v|] eqn:Ev; [|exact IW];
        pose proof (VOK _ _ Ev) as VO.
  - lifted mkdir_ok.
  - lifted mkdir_all_ok.
  - destruct (open_file_ok (w_fs w) v IH HV VO vi p flag perm) as [H1 H2].
    destruct (open_file (w_fs w) v vi p flag perm) as [s1 [r|f]]; cbn [fst snd] in *.
    + destruct H1 as (A & B & C). apply Inv_with_fs; auto. congruence.
    + destruct H1 as (A & B & C). destruct IW as [J1 J2 J3 J4]. split; cbn [w_fs w_views w_handles]; auto.
      * congruence.
      * eapply Forall_impl; [|exact J3]. intros a. now apply view_ok_kept.
      * apply Forall_app. split.
        -- eapply Forall_impl; [|exact J4]. intros a. now apply handle_ok_kept.
        -- constructor; auto.
  - lifted remove_ok.
  - lifted remove_all_ok.
  - lifted rename_ok.
  - lifted link_ok.
  - lifted symlink_ok.
  - exact IW.
  - lifted truncate_ok.
  - lifted chmod_ok.
  - lifted chown_gen_ok.
  - lifted chown_gen_ok.
  - exact IW.
  - destruct (chdir (w_fs w) v p) as [r|d] eqn:E; cbn [fst]; [exact IW|].
    apply Inv_with_view; auto. destruct VO as [A B C]. split; cbn [set_cwd v_root v_os v_cwd]; auto.
    eapply chdir_rooted; eauto; split; auto.
  - exact IW.
  - exact IW.
  - exact IW.
  - exact IW.
  - exact IW.
  - exact IW.
  - lifted write_file_ok.
  - destruct (sub (w_fs w) v p) as [r|v'] eqn:E; cbn [fst]; [exact IW|].
    destruct IW as [J1 J2 J3 J4]. split; cbn [w_fs w_views w_handles]; auto.
    apply Forall_app. split; auto. constructor; auto. eapply sub_view_ok; eauto.
  - cbn [fst]. apply Inv_with_view; auto. destruct VO as [A B C]. split; cbn [v_root v_os v_cwd]; auto.
  - cbn [fst]. apply Inv_with_view; auto. destruct VO as [A B C]. split; cbn [v_root v_os v_cwd]; auto.
  (* calls on a handle *)
  - destruct (nth_error (w_handles w) hi) as [f|] eqn:Ef; [|exact IW].
    destruct (nth_error (w_views w) (hd_view f)) as [v|] eqn:Ev; [|exact IW].
    pose proof (f_read_kept (w_fs w) v f n) as K. destruct (f_read (w_fs w) v f n) as [f' r]. cbn [fst] in *.
    apply Inv_with_handle; auto. eapply handle_ok_node_kept; eauto.
  - destruct (nth_error (w_handles w) hi) as [f|] eqn:Ef; [|exact IW].
    destruct (nth_error (w_views w) (hd_view f)) as [v|] eqn:Ev; exact IW.
  - destruct (nth_error (w_handles w) hi) as [f|] eqn:Ef; [|exact IW].
    destruct (nth_error (w_views w) (hd_view f)) as [v|] eqn:Ev; [|exact IW].
    pose proof (f_write_ok (w_fs w) v f IH b) as Hs. pose proof (f_write_kept (w_fs w) v f b) as K.
    destruct (f_write (w_fs w) v f b) as [[s1 f'] r]. cbn [fst snd] in *.
    apply Inv_with_handle.
    + destruct Hs as (A & B & C). apply Inv_with_fs; auto. congruence.
    + cbn [with_fs w_fs]. eapply handle_ok_node_kept; [|exact K].
      eapply handle_ok_kept; [apply Hs | eauto].
  - destruct (nth_error (w_handles w) hi) as [f|] eqn:Ef; [|exact IW].
    destruct (nth_error (w_views w) (hd_view f)) as [v|] eqn:Ev; [|exact IW].
    lifted f_write_at_ok.
  - destruct (nth_error (w_handles w) hi) as [f|] eqn:Ef; [|exact IW].
    destruct (nth_error (w_views w) (hd_view f)) as [v|] eqn:Ev; [|exact IW].
    pose proof (f_seek_kept (w_fs w) v f off whence) as K.
    destruct (f_seek (w_fs w) v f off whence) as [f' r]. cbn [fst] in *.
    apply Inv_with_handle; auto. eapply handle_ok_node_kept; eauto.
  - destruct (nth_error (w_handles w) hi) as [f|] eqn:Ef; [|exact IW].
    destruct (nth_error (w_views w) (hd_view f)) as [v|] eqn:Ev; [|exact IW].
    lifted f_truncate_ok.
  - destruct (nth_error (w_handles w) hi) as [f|] eqn:Ef; [|exact IW].
    destruct (nth_error (w_views w) (hd_view f)) as [v|] eqn:Ev; exact IW.
  - destruct (nth_error (w_handles w) hi) as [f|] eqn:Ef; [|exact IW].
    destruct (nth_error (w_views w) (hd_view f)) as [v|] eqn:Ev; exact IW.
  - destruct (nth_error (w_handles w) hi) as [f|] eqn:Ef; [|exact IW].
    destruct (nth_error (w_views w) (hd_view f)) as [v|] eqn:Ev; [|exact IW].
    lifted f_chmod_ok.
  - destruct (nth_error (w_handles w) hi) as [f|] eqn:Ef; [|exact IW].
    destruct (nth_error (w_views w) (hd_view f)) as [v|] eqn:Ev; [|exact IW].
    lifted f_chown_ok.
  - destruct (nth_error (w_handles w) hi) as [f|] eqn:Ef; [|exact IW].
    destruct (nth_error (w_views w) (hd_view f)) as [v|] eqn:Ev; [|exact IW].
    pose proof (VOK _ _ Ev) as VO.
    destruct (f_chdir (w_fs w) v f) as [r|d] eqn:E; cbn [fst]; [exact IW|].
    apply Inv_with_view; auto. destruct VO as [A B C]. split; cbn [set_cwd v_root v_os v_cwd]; auto.
    eapply f_chdir_rooted; eauto; split; auto.
  - destruct (nth_error (w_handles w) hi) as [f|] eqn:Ef; [|exact IW].
    destruct (nth_error (w_views w) (hd_view f)) as [v|] eqn:Ev; [|exact IW].
    pose proof (f_close_kept f) as K. destruct (f_close f) as [f' r]. cbn [fst] in *.
    apply Inv_with_handle; auto. eapply handle_ok_node_kept; eauto.
  - destruct (nth_error (w_handles w) hi) as [f|] eqn:Ef; [|exact IW].
    destruct (nth_error (w_views w) (hd_view f)) as [v|] eqn:Ev; [|exact IW].
    pose proof (f_read_dir_kept (w_fs w) v f n) as K. destruct (f_read_dir (w_fs w) v f n) as [f' r]. cbn [fst] in *.
    apply Inv_with_handle; auto. eapply handle_ok_node_kept; eauto.
  - destruct (nth_error (w_handles w) hi) as [f|] eqn:Ef; [|exact IW].
    destruct (nth_error (w_views w) (hd_view f)) as [v|] eqn:Ev; [|exact IW].
    pose proof (f_readdirnames_kept (w_fs w) v f n) as K. destruct (f_readdirnames (w_fs w) v f n) as [f' r]. cbn [fst] in *.
    apply Inv_with_handle; auto. eapply handle_ok_node_kept; eauto.
Qed.

Theorem Inv_run : forall cs w, Inv w -> Inv (fst (wrun w cs)).
Proof.
  induction cs as [|c cs IHcs]; intros w IW; cbn [wrun fst]; auto.
  pose proof (Inv_step w c IW) as H1. destruct (wstep w c) as [w1 r]. cbn [fst] in H1.
  specialize (IHcs w1 H1). destruct (wrun w1 cs) as [w2 rs]. exact IHcs.
Qed.

(* ---- the initial world ---------------------------------------------------------------------- *)
Lemma Inv_heap_single m : Inv_heap [NDir [] m].
Proof.
  assert (HC : forall d, children [NDir [] m] d = []).
  { intros [|d]; [reflexivity|]. rewrite children_get. unfold get. cbn [nth_error]. now destruct d. }
  assert (HE : forall d n c, ~ edge [NDir [] m] d n c).
  { intros d n c. unfold edge. rewrite HC. intros []. }
  split.
  - intros d n c He. now apply HE in He.
  - intros d. rewrite HC. constructor.
  - intros d1 n1 d2 n2 c He. now apply HE in He.
  - split; [reflexivity | intros d n; apply HE].
  - intros d (x & n & _ & He). now apply HE in He.
  - intros f d k i m' Hg. destruct f as [|f]; unfold get in Hg; cbn [nth_error] in Hg; [discriminate|].
    destruct f; discriminate.
Qed.

Lemma mk_ok s v p perm :
  Inv_heap (f_heap s) -> f_vols s = [] -> view_ok (f_heap s) v ->
  let s' := fst (chmod (fst (mkdir_all s v p perm)) v p perm) in
  Inv_heap (f_heap s') /\ f_vols s' = [] /\ view_ok (f_heap s') v.
Proof.
  intros IH HV VO s'.
  destruct (mkdir_all_ok s v IH HV VO p perm) as (A1 & K1 & V1).
  set (s1 := fst (mkdir_all s v p perm)) in *.
  assert (HV1 : f_vols s1 = []) by congruence.
  assert (VO1 : view_ok (f_heap s1) v) by (eapply view_ok_kept; eauto).
  destruct (chmod_ok s1 v A1 p perm) as (A2 & K2 & V2).
  fold s' in A2, K2, V2. split; auto. split; [congruence|]. eapply view_ok_kept; eauto.
Qed.

Theorem Inv_init um : Inv (init_world_linux um).
Proof.
  unfold init_world_linux. cbv zeta.
  set (root := NDir [] {| m_mode := N.lor MODE_DIR 493; m_uid := 0; m_gid := 0 |}).
  set (s0 := {| f_heap := [root]; f_last_id := 0; f_vols := [] |}).
  set (v0 := init_view Linux um).
  assert (I0 : Inv_heap (f_heap s0)) by apply Inv_heap_single.
  assert (VO0 : view_ok (f_heap s0) v0).
  { split; [reflexivity | reflexivity | exists []; reflexivity]. }
  destruct (mk_ok s0 v0 P_home 448%N I0 eq_refl VO0) as (I1 & V1 & O1).
  set (s1 := fst (chmod (fst (mkdir_all s0 v0 P_home 448%N)) v0 P_home 448%N)) in *.
  destruct (mk_ok s1 v0 P_root 448%N I1 V1 O1) as (I2 & V2 & O2).
  set (s2 := fst (chmod (fst (mkdir_all s1 v0 P_root 448%N)) v0 P_root 448%N)) in *.
  destruct (mk_ok s2 v0 P_tmp 511%N I2 V2 O2) as (I3 & V3 & O3).
  set (s3 := fst (chmod (fst (mkdir_all s2 v0 P_tmp 511%N)) v0 P_tmp 511%N)) in *.
  split; cbn [w_fs w_views w_handles]; auto.
  constructor; [|constructor]. destruct O3 as [A B C]. split; cbn [v_root v_os v_cwd]; auto.
Qed.

Theorem Inv_reach um cs : Inv (fst (wrun (init_world_linux um) cs)).
Proof. apply Inv_run, Inv_init. Qed.
