(* C01: RemoveAll of a non-empty directory by the administrator.  MemFS removes the entries one at a time, depth
   first (entry removed from its directory, node delete()d: a link's target is blanked); the specification unlinks the
   top entry and drops the subtree (files released, directories emptied at the end, links left as they are).  The two
   final heaps agree on every node except link nodes that no directory lists any more (garbage): [geq].  Hence the
   snapshots - the reachable part - are equal. *)
From Avfs Require Import Base BaseProofs PathModel PathSpec PathProofs PathCleanProofs PathIterProofs.
From Avfs Require Import MemFS MemFile World Posix Inv InvConseq InvRemoveAll.
From Avfs Require Import WalkBridge WalkSym WalkBudget StepEq HeapEq.

Definition sym_rel (a b : option node) : Prop := exists t t' m, a = Some (NSym t m) /\ b = Some (NSym t' m).
Definition dir_rel (a b : option node) : Prop := exists ch ch' m, a = Some (NDir ch m) /\ b = Some (NDir ch' m).
Definition nkind (a : option node) : nat :=
  match a with None => 0 | Some (NDir _ _) => 1 | Some (NFile _ _ _ _) => 2 | Some (NSym _ _) => 3 end.

Lemma nkind_deleted (a : option node) : nkind (option_map deleted a) = nkind a.
Proof. destruct a as [[| |]|]; reflexivity. Qed.

Lemma dir_rel_trans (a b c : option node) : dir_rel a b -> dir_rel b c -> dir_rel a c.
Proof. intros (c1 & c2 & m & -> & ->) (c3 & c4 & m' & E & ->). injection E as _ <-. exists c1, c4, m. auto. Qed.

Lemma drop_tree_S (f : nat) (h : heap) (c : nat) :
  drop_tree (S f) h c =
  match get h c with
  | Some (NDir ch _) => delete_node (fold_left (fun h0 nc => drop_tree f h0 (snd nc)) ch h) c
  | Some _ => release h c
  | None => h
  end.
Proof. reflexivity. Qed.

(* one entry of [d] removed and its node delete()d *)
Lemma unlink_get (h : heap) (d : nat) (nm : str) (c i : nat) :
  c <> d ->
  get (delete_node (remove_child h d nm) c) i =
  if Nat.eqb i c then option_map deleted (get h c)
  else if Nat.eqb i d then match get h d with Some (NDir ch m) => Some (NDir (aremove str_eqb nm ch) m) | x => x end
  else get h i.
Proof.
  intros Hne. rewrite get_delete_node_eq, !get_remove_child_eq.
  destruct (Nat.eqb_spec i c) as [-> |_]; [|reflexivity].
  destruct (Nat.eqb_spec c d) as [E|_]; [congruence|reflexivity].
Qed.

Lemma children_of_get (h h' : heap) (d : nat) : get h' d = get h d -> children h' d = children h d.
Proof. intros E. unfold children. rewrite E. reflexivity. Qed.

(* the specification's release of a non-directory: the node stays or is delete()d *)
Lemma release_cases (h : heap) (c : nat) : release h c = h \/ release h c = delete_node h c.
Proof. unfold release. destruct (get h c) as [[| |]|]; auto. destruct (find_parent h 0 c); auto. Qed.

Lemma release_file (h : heap) (c : nat) d k i m : get h c = Some (NFile d k i m) -> release h c = delete_node h c.
Proof. intros E. unfold release. rewrite E. reflexivity. Qed.

Section Sim.
  Variables (h0 : heap) (u : user) (e top : nat).
  Hypothesis Hadm : us_admin u = true.
  Hypothesis Hacyc : forall d, ~ dreachp h0 d d.
  Hypothesis Hss : sym_single h0.

  (* [X]: the directories in progress (the recursion stack): MemFS has removed some of their entries already *)
  Record R (X : nat -> Prop) (hi hs : heap) : Prop := {
    r_x : forall i, X i -> dir_rel (get hi i) (get hs i);
    r_pt : forall i, ~ X i -> i <> e ->
           get hi i = get hs i
           \/ (sym_rel (get hi i) (get hs i) /\ (forall d n, In (n, i) (children hs d) -> X d)
               /\ exists d n, In (n, i) (children h0 d) /\ dreach h0 top d);
    r_sub : forall d n c, In (n, c) (children hs d) -> In (n, c) (children h0 d);
    r_kind : forall i, nkind (get hs i) = nkind (get h0 i);
    (* a link of the specification's heap is as it was, or listed by directories in progress only *)
    r_symk : forall i t m, get hs i = Some (NSym t m) ->
             get h0 i = Some (NSym t m) \/ forall d n, In (n, i) (children hs d) -> X d }.

  (* MemFS alone changes the entries of a directory in progress *)
  Lemma R_dirty (X : nat -> Prop) (hi hi2 hs : heap) (d : nat) :
    R X hi hs -> X d -> (forall i, i <> d -> get hi2 i = get hi i) -> dir_rel (get hi2 d) (get hi d) -> R X hi2 hs.
  Proof.
    intros [Rx Rp Rs Rk Ry] Hd Hoth Hdd. split; [| |exact Rs|exact Rk|exact Ry].
    - intros i Hi. destruct (Nat.eq_dec i d) as [-> |Hne].
      + eapply dir_rel_trans; [exact Hdd|apply Rx; exact Hd].
      + rewrite (Hoth i Hne). apply Rx. exact Hi.
    - intros i Hi Hie. assert (Hne : i <> d) by (intros ->; exact (Hi Hd)). rewrite (Hoth i Hne). apply Rp; assumption.
  Qed.

  (* a directory enters / leaves the stack *)
  Lemma R_enter (X : nat -> Prop) (hi hs : heap) (d : nat) :
    R X hi hs -> ~ X d -> d <> e -> node_is_dir hs d = true -> R (fun i => X i \/ i = d) hi hs.
  Proof.
    intros [Rx Rp Rs Rk Ry] Hd Hde Hdir. split; [| |exact Rs|exact Rk|].
    - intros i [Hi| ->]; [apply Rx; exact Hi|].
      destruct (Rp d Hd Hde) as [E|((t & t' & m & _ & E) & _)].
      + unfold node_is_dir in Hdir. rewrite E. destruct (get hs d) as [[ch m| |]|]; try discriminate. exists ch, ch, m. auto.
      + unfold node_is_dir in Hdir. rewrite E in Hdir. discriminate.
    - intros i Hi Hie. assert (Hi' : ~ X i) by tauto. destruct (Rp i Hi' Hie) as [E|(E & F & Q)]; [left; exact E|].
      right. split; [exact E|]. split; [|exact Q]. intros d' n Hin. left. exact (F d' n Hin).
    - intros i t m Hg. destruct (Ry i t m Hg) as [E|F]; [left; exact E|right]. intros d' n Hin. left. exact (F d' n Hin).
  Qed.

  Lemma R_leave (X : nat -> Prop) (hi hs : heap) (d : nat) :
    R (fun i => X i \/ i = d) hi hs -> ~ X d -> R X (delete_node hi d) (delete_node hs d).
  Proof.
    intros [Rx Rp Rs Rk Ry] Hd.
    assert (Hch : forall d', children (delete_node hs d) d' = if Nat.eqb d' d then [] else children hs d').
    { intros d'. unfold children at 1. rewrite get_delete_node_eq. destruct (Nat.eqb_spec d' d) as [-> |_]; [|reflexivity].
      destruct (Rx d (or_intror eq_refl)) as (c1 & c2 & m & _ & ->). reflexivity. }
    split.
    - intros i Hi. assert (Hne : i <> d) by (intros ->; exact (Hd Hi)). apply Nat.eqb_neq in Hne.
      rewrite !get_delete_node_eq, Hne. apply Rx. left. exact Hi.
    - intros i Hi Hie. rewrite !get_delete_node_eq. destruct (Nat.eqb_spec i d) as [-> |Hne].
      + destruct (Rx d (or_intror eq_refl)) as (c1 & c2 & m & -> & ->). left. reflexivity.
      + assert (Hi' : ~ (X i \/ i = d)) by tauto. destruct (Rp i Hi' Hie) as [E|(E & F & Q)]; [left; exact E|].
        right. split; [exact E|]. split; [|exact Q].
        intros d' n Hin. rewrite Hch in Hin. destruct (Nat.eqb_spec d' d) as [-> |Hne']; [destruct Hin|].
        destruct (F d' n Hin) as [HX|HX]; [exact HX|congruence].
    - intros d' n c Hin. rewrite Hch in Hin. destruct (Nat.eqb d' d); [destruct Hin|]. exact (Rs d' n c Hin).
    - intros i. rewrite get_delete_node_eq. destruct (Nat.eqb_spec i d) as [-> |_]; [|apply Rk].
      rewrite nkind_deleted. apply Rk.
    - intros i t m Hg. rewrite get_delete_node_eq in Hg. destruct (Nat.eqb_spec i d) as [-> |Hne].
      + destruct (Rx d (or_intror eq_refl)) as (c1 & c2 & m' & _ & E). rewrite E in Hg. discriminate Hg.
      + destruct (Ry i t m Hg) as [E|F]; [left; exact E|right].
        intros d' n Hin. rewrite Hch in Hin. destruct (Nat.eqb_spec d' d) as [-> |Hne']; [destruct Hin|].
        destruct (F d' n Hin) as [HX|HX]; [exact HX|congruence].
  Qed.

  Lemma children_kind (h : heap) (x : nat) : nkind (get h x) <> 1 -> children h x = [].
  Proof. unfold children. destruct (get h x) as [[| |]|]; cbn [nkind]; congruence. Qed.

  (* a non-directory entry [nm -> c'] of the directory [d] in progress is removed on both sides *)
  Lemma R_nondir (X : nat -> Prop) (hi hs hi2 hs2 : heap) (d : nat) (nm : str) (c' : nat) :
    R X hi hs -> X d -> ~ X c' -> c' <> d ->
    In (nm, c') (children h0 d) -> dreach h0 top d ->
    nkind (get hs c') <> 1 ->
    (forall i, i <> c' -> get hs2 i = get hs i) ->
    nkind (get hs2 c') = nkind (get hs c') ->
    (get hi2 c' = get hs2 c' \/ sym_rel (get hi2 c') (get hs2 c')) ->
    (forall i, i <> c' -> i <> d -> get hi2 i = get hi i) -> dir_rel (get hi2 d) (get hi d) ->
    R X hi2 hs2.
  Proof.
    intros [Rx Rp Rs Rk Ry] Hd Hc Hcd Hin Htop Hk Hs2 Hk2 Hrel Hi2 Hdd.
    assert (Hedges : forall t m, get hs2 c' = Some (NSym t m) -> forall d' n, In (n, c') (children hs d') -> X d').
    { intros t m Hg d' n Hin'. apply Rs in Hin'.
      assert (Hk3 : nkind (get h0 c') = 3) by (rewrite <- Rk, <- Hk2, Hg; reflexivity).
      destruct (get h0 c') as [[| |t0 m0]|] eqn:Eg; cbn [nkind] in Hk3; try discriminate.
      destruct (Hss c' t0 m0 d' n d nm Eg Hin' Hin) as (-> & _). exact Hd. }
    assert (Hch : forall x, children hs2 x = children hs x).
    { intros x. destruct (Nat.eq_dec x c') as [-> | Hne]; [|apply children_of_get, Hs2; exact Hne].
      rewrite !children_kind; [reflexivity|exact Hk|rewrite Hk2; exact Hk]. }
    split.
    - intros i Hi. assert (Hic : i <> c') by (intros ->; exact (Hc Hi)). rewrite (Hs2 i Hic).
      destruct (Nat.eq_dec i d) as [-> | Hne].
      + eapply dir_rel_trans; [exact Hdd|apply Rx; exact Hd].
      + rewrite (Hi2 i Hic Hne). apply Rx. exact Hi.
    - intros i Hi Hie. destruct (Nat.eq_dec i c') as [-> | Hic].
      + destruct Hrel as [E|E]; [left; exact E|]. right. split; [exact E|]. split; [|exists d, nm; auto].
        destruct E as (t & t' & m & _ & Eg2). intros d' n Hin'. rewrite Hch in Hin'. exact (Hedges _ _ Eg2 d' n Hin').
      + assert (Hid : i <> d) by (intros ->; exact (Hi Hd)). rewrite (Hs2 i Hic), (Hi2 i Hic Hid).
        destruct (Rp i Hi Hie) as [E|(E & F & Q)]; [left; exact E|]. right. split; [exact E|]. split; [|exact Q].
        intros d' n Hin'. rewrite Hch in Hin'. exact (F d' n Hin').
    - intros d' n c Hin'. rewrite Hch in Hin'. exact (Rs d' n c Hin').
    - intros i. destruct (Nat.eq_dec i c') as [-> | Hic]; [rewrite Hk2; apply Rk|]. rewrite (Hs2 i Hic). apply Rk.
    - intros i t m Hg. destruct (Nat.eq_dec i c') as [-> | Hic].
      + right. intros d' n Hin'. rewrite Hch in Hin'. exact (Hedges _ _ Hg d' n Hin').
      + rewrite (Hs2 i Hic) in Hg. destruct (Ry i t m Hg) as [E|F]; [left; exact E|right].
        intros d' n Hin'. rewrite Hch in Hin'. exact (F d' n Hin').
  Qed.

  Lemma R_step_nondir (X : nat -> Prop) (hi hs : heap) (d : nat) (nm : str) (c' : nat) (f : nat) :
    R X hi hs -> X d -> ~ X c' -> c' <> d -> c' <> e -> d <> e ->
    In (nm, c') (children h0 d) -> dreach h0 top d -> node_is_dir hi c' = false ->
    R X (delete_node (remove_child hi d nm) c') (drop_tree (S f) hs c')
    /\ get (delete_node (remove_child hi d nm) c') e = get hi e /\ get (drop_tree (S f) hs c') e = get hs e.
  Proof.
    intros HR Hd Hc Hcd Hce Hde Hin Htop Hnd.
    pose proof (unlink_get hi d nm c') as Hu.
    assert (Hi2 : forall i, i <> c' -> i <> d -> get (delete_node (remove_child hi d nm) c') i = get hi i).
    { intros i H1 H2. rewrite (Hu i Hcd). apply Nat.eqb_neq in H1, H2. rewrite H1, H2. reflexivity. }
    assert (Hic : get (delete_node (remove_child hi d nm) c') c' = option_map deleted (get hi c')).
    { rewrite (Hu c' Hcd), Nat.eqb_refl. reflexivity. }
    assert (Hdd : dir_rel (get (delete_node (remove_child hi d nm) c') d) (get hi d)).
    { rewrite (Hu d Hcd). assert (Hne : Nat.eqb d c' = false) by (apply Nat.eqb_neq; congruence). rewrite Hne, Nat.eqb_refl.
      destruct (r_x _ _ _ HR d Hd) as (c1 & c2 & m & -> & _). exists (aremove str_eqb nm c1), c1, m. auto. }
    assert (Hfe : get (delete_node (remove_child hi d nm) c') e = get hi e) by (apply Hi2; congruence).
    (* the relation at c' before the step *)
    assert (Hbefore : (get hi c' = get hs c' /\ nkind (get hs c') <> 1)
                      \/ sym_rel (get hi c') (get hs c')).
    { destruct (r_pt _ _ _ HR c' Hc Hce) as [E|(E & _)]; [left|right; exact E]. split; [exact E|]. rewrite <- E.
      unfold node_is_dir in Hnd. destruct (get hi c') as [[| |]|]; cbn [nkind]; congruence. }
    assert (Hks : nkind (get hs c') <> 1).
    { destruct Hbefore as [(_ & K)|(t & t' & m & _ & ->)]; [exact K|discriminate]. }
    rewrite drop_tree_S.
    (* the specification's heap after the step, by cases *)
    assert (Hspec : exists hs2, match get hs c' with
                                | Some (NDir ch _) => delete_node (fold_left (fun h1 nc => drop_tree f h1 (snd nc)) ch hs) c'
                                | Some _ => release hs c'
                                | None => hs
                                end = hs2
                   /\ (forall i, i <> c' -> get hs2 i = get hs i)
                   /\ (get hs2 c' = option_map deleted (get hs c')
                       \/ (get hs2 c' = get hs c' /\ (nkind (get hs c') = 3 \/ nkind (get hs c') = 0)))).
    { destruct (get hs c') as [[ch m|dt k id m|t m]|] eqn:Eg.
      - exfalso. apply Hks. reflexivity.
      - exists (delete_node hs c'). split; [apply (release_file _ _ _ _ _ _ Eg)|]. split.
        + intros i Hne. rewrite get_delete_node_eq. apply Nat.eqb_neq in Hne. rewrite Hne. reflexivity.
        + left. rewrite get_delete_node_eq, Nat.eqb_refl, Eg. reflexivity.
      - destruct (release_cases hs c') as [E|E]; rewrite E.
        + exists hs. split; [reflexivity|]. split; [reflexivity|]. right. split; [exact Eg|left; reflexivity].
        + exists (delete_node hs c'). split; [reflexivity|]. split.
          * intros i Hne. rewrite get_delete_node_eq. apply Nat.eqb_neq in Hne. rewrite Hne. reflexivity.
          * left. rewrite get_delete_node_eq, Nat.eqb_refl, Eg. reflexivity.
      - exists hs. split; [reflexivity|]. split; [reflexivity|]. right. split; [exact Eg|right; reflexivity]. }
    destruct Hspec as (hs2 & -> & Hs2 & Hs2c).
    assert (Hk2 : nkind (get hs2 c') = nkind (get hs c')).
    { destruct Hs2c as [-> |(-> & _)]; [apply nkind_deleted|reflexivity]. }
    split; [|split; [exact Hfe|apply Hs2; congruence]].
    apply (R_nondir X hi hs _ hs2 d nm c' HR Hd Hc Hcd Hin Htop Hks Hs2 Hk2); [|exact Hi2|exact Hdd].
    rewrite Hic. destruct Hbefore as [(E & _)|(t & t' & m & E1 & E2)].
    - rewrite E. destruct Hs2c as [-> |(-> & [K|K])]; [left; reflexivity| |].
      + right. destruct (get hs c') as [[| |t m]|] eqn:Eg; cbn [nkind] in K; try discriminate.
        exists [], t, m. auto.
      + left. destruct (get hs c') as [[| |]|]; cbn [nkind] in K; try discriminate. reflexivity.
    - right. rewrite E1. destruct Hs2c as [-> |(-> & _)]; rewrite E2; [exists [], [], m|exists [], t', m]; auto.
  Qed.

  (* ---- the simulation of the two recursions ------------------------------------------------------------------------------------ *)
  Definition P (f : nat) : Prop := forall (X : nat -> Prop) (hi hs : heap) (c : nat),
    R X hi hs -> ~ X c -> ~ dreach h0 c e -> (forall x, X x -> dreach h0 x c) -> dreach h0 top c ->
    node_is_dir hs c = true -> maxlen h0 c f ->
    exists hi', remove_all_rec f hi u c = (hi', None)
      /\ R X (delete_node hi' c) (drop_tree f hs c)
      /\ get (delete_node hi' c) e = get hi e /\ get (drop_tree f hs c) e = get hs e.

  Lemma loop_sim (f : nat) (X : nat -> Prop) (d : nat) :
    P f -> ~ X d -> ~ dreach h0 d e -> (forall x, X x -> dreach h0 x d) -> dreach h0 top d -> maxlen h0 d (S f) ->
    forall (chs : list (str * nat)) (hi hs : heap),
    R (fun i => X i \/ i = d) hi hs -> (forall n c, In (n, c) chs -> In (n, c) (children h0 d)) ->
    exists hi', ra_loop (fun h c => remove_all_rec f h u c) d chs hi = (hi', None)
      /\ R (fun i => X i \/ i = d) hi' (fold_left (fun h1 nc => drop_tree f h1 (snd nc)) chs hs)
      /\ get hi' e = get hi e /\ get (fold_left (fun h1 nc => drop_tree f h1 (snd nc)) chs hs) e = get hs e.
  Proof.
    intros HP HXd Hde HXr Htop Hml.
    assert (Hdne : d <> e) by (intros ->; apply Hde; constructor).
    induction chs as [|[nm c'] chs IH]; intros hi hs HR Hin.
    - exists hi. cbn [ra_loop fold_left]. auto.
    - cbn [ra_loop fold_left snd].
      assert (He0 : In (nm, c') (children h0 d)) by (apply Hin; left; reflexivity).
      assert (Hin' : forall n c, In (n, c) chs -> In (n, c) (children h0 d)) by (intros n c H; apply Hin; right; exact H).
      assert (Hstep : dreach h0 d c') by (eapply dreach_step; [constructor|exact He0]).
      assert (HXc : ~ (X c' \/ c' = d)).
      { intros [Hx| ->].
        - apply (Hacyc c'). exists d, nm. split; [apply HXr; exact Hx|exact He0].
        - apply (Hacyc d). exists d, nm. split; [constructor|exact He0]. }
      assert (Hce : ~ dreach h0 c' e) by (intros H; apply Hde; eapply dreach_trans; eassumption).
      assert (Hcne : c' <> e) by (intros ->; apply Hce; constructor).
      assert (Hcd : c' <> d) by tauto.
      assert (Hmc : maxlen h0 c' f) by (apply (maxlen_child h0 d nm c' f He0 Hml)).
      pose proof (maxlen_pos h0 c' f Hmc) as Hpos. destruct f as [|f']; [lia|].
      destruct (node_is_dir hi c') eqn:Hdir.
      + (* a sub-directory *)
        assert (Hdirs : node_is_dir hs c' = true).
        { destruct (r_pt _ _ _ HR c' HXc Hcne) as [E|((t & t' & m & E & _) & _)].
          - unfold node_is_dir in *. rewrite <- E. exact Hdir.
          - unfold node_is_dir in Hdir. rewrite E in Hdir. discriminate. }
        assert (HXr' : forall x, X x \/ x = d -> dreach h0 x c').
        { intros x [Hx| ->]; [eapply dreach_trans; [apply HXr; exact Hx|exact Hstep]|exact Hstep]. }
        destruct (HP _ hi hs c' HR HXc Hce HXr' (dreach_trans _ _ _ _ Htop Hstep) Hdirs Hmc) as (hi1 & -> & R1 & F1 & F2).
        set (hi2 := delete_node (remove_child hi1 d nm) c').
        assert (Hu : forall i, get hi2 i = if Nat.eqb i c' then option_map deleted (get hi1 c')
                                            else if Nat.eqb i d then match get hi1 d with
                                                                     | Some (NDir ch m) => Some (NDir (aremove str_eqb nm ch) m)
                                                                     | x => x end
                                            else get hi1 i) by (intros i; apply unlink_get; exact Hcd).
        assert (R2 : R (fun i => X i \/ i = d) hi2 (drop_tree (S f') hs c')).
        { apply (R_dirty _ (delete_node hi1 c') hi2 _ d R1 (or_intror eq_refl)).
          - intros i Hne. rewrite Hu, get_delete_node_eq. apply Nat.eqb_neq in Hne. rewrite Hne. reflexivity.
          - rewrite Hu, get_delete_node_eq. assert (Hne : Nat.eqb d c' = false) by (apply Nat.eqb_neq; congruence).
            rewrite Hne, Nat.eqb_refl.
            destruct (r_x _ _ _ R1 d (or_intror eq_refl)) as (c1 & c2 & m & E & _).
            rewrite get_delete_node_eq, Hne in E. rewrite E. exists (aremove str_eqb nm c1), c1, m. auto. }
        destruct (IH hi2 _ R2 Hin') as (hi' & E & R3 & G1 & G2). exists hi'. split; [exact E|]. split; [exact R3|].
        split; [|rewrite G2; exact F2]. rewrite G1, Hu.
        assert (N1 : Nat.eqb e c' = false) by (apply Nat.eqb_neq; congruence).
        assert (N2 : Nat.eqb e d = false) by (apply Nat.eqb_neq; congruence).
        rewrite N1, N2. rewrite get_delete_node_eq, N1 in F1. exact F1.
      + (* a file, a link *)
        destruct (R_step_nondir _ hi hs d nm c' f' HR (or_intror eq_refl) HXc Hcd Hcne Hdne He0 Htop Hdir) as (R2 & F1 & F2).
        destruct (IH _ _ R2 Hin') as (hi' & E & R3 & G1 & G2). exists hi'. split; [exact E|]. split; [exact R3|].
        split; [rewrite G1; exact F1|rewrite G2; exact F2].
  Qed.

  Lemma P_all : forall f, P f.
  Proof.
    induction f as [|f IH]; intros X hi hs c HR HXc Hce HXr Htop Hdir Hml.
    - pose proof (maxlen_pos h0 c 0 Hml). lia.
    - assert (Hcne : c <> e) by (intros ->; apply Hce; constructor).
      rewrite remove_all_rec_S, drop_tree_S.
      assert (Eg : get hi c = get hs c).
      { destruct (r_pt _ _ _ HR c HXc Hcne) as [E|((t & t' & m & _ & E) & _)]; [exact E|].
        unfold node_is_dir in Hdir. rewrite E in Hdir. discriminate. }
      unfold node_is_dir in Hdir. destruct (get hs c) as [[ch m| |]|] eqn:Egs; try discriminate.
      assert (Hperm : perm_on hi c OpenWrite u = true).
      { unfold perm_on, check_permission. rewrite Eg, Hadm. reflexivity. }
      rewrite Hperm. cbn [negb].
      assert (Hch : children hi c = ch) by (unfold children; rewrite Eg; reflexivity). rewrite Hch.
      assert (Hdirs : node_is_dir hs c = true) by (unfold node_is_dir; rewrite Egs; reflexivity).
      pose proof (R_enter X hi hs c HR HXc Hcne Hdirs) as R1.
      assert (Hin : forall n c', In (n, c') ch -> In (n, c') (children h0 c)).
      { intros n c' H. apply (r_sub _ _ _ HR). unfold children. rewrite Egs. exact H. }
      destruct (loop_sim f X c IH HXc Hce HXr Htop Hml ch hi hs R1 Hin) as (hi' & E & R2 & G1 & G2).
      exists hi'. split; [exact E|]. split; [apply R_leave; assumption|].
      assert (N : Nat.eqb e c = false) by (apply Nat.eqb_neq; congruence).
      rewrite !get_delete_node_eq, N. auto.
  Qed.
End Sim.

(* ---- equality up to unlisted link nodes ------------------------------------------------------------------------------------------ *)
Definition geq (hi hs : heap) : Prop :=
  forall i, get hi i = get hs i \/ (sym_rel (get hi i) (get hs i) /\ forall d n, ~ In (n, i) (children hs d)).

Lemma geq_refl (h : heap) : geq h h.
Proof. intros i. left. reflexivity. Qed.

Definition fsys_geq (si ss : fsys) : Prop :=
  geq (f_heap si) (f_heap ss) /\ f_last_id si = f_last_id ss /\ f_vols si = f_vols ss.

Lemma fsys_geq_refl (s : fsys) : fsys_geq s s.
Proof. split; [apply geq_refl|auto]. Qed.

(* the listing of the tree below a node both heaps agree on *)
Lemma geq_snap (hi hs : heap) (os : ostype) : geq hi hs ->
  forall (f : nat) (path : str) (i : nat), get hi i = get hs i -> snap f os hi path i = snap f os hs path i.
Proof.
  intros G. induction f as [|f IH]; intros path i E; [reflexivity|]. cbn [snap]. rewrite E.
  destruct (get hs i) as [[ch m| |]|] eqn:Eg; try reflexivity. f_equal.
  rewrite !flat_map_concat_map. f_equal. apply map_ext_in. intros [name c] Hin. apply IH.
  apply (proj1 (sort_by_In (str * nat) (fun x : str * nat => fst x) _ _)) in Hin.
  destruct (G c) as [Ec|(_ & F)]; [exact Ec|]. exfalso. apply (F i name). unfold children. rewrite Eg. exact Hin.
Qed.

Lemma geq_snapshot (wi ws : world) (vi : nat) :
  geq (f_heap (w_fs wi)) (f_heap (w_fs ws)) -> w_views wi = w_views ws ->
  (forall v, nth_error (w_views ws) vi = Some v -> node_is_dir (f_heap (w_fs ws)) (v_root v) = true) ->
  snapshot wi vi = snapshot ws vi.
Proof.
  intros G Ev Hr. unfold snapshot. rewrite Ev. destruct (nth_error (w_views ws) vi) as [v|] eqn:E; [|reflexivity].
  apply geq_snap; [exact G|]. destruct (G (v_root v)) as [Er|((t & t' & m & _ & Es) & _)]; [exact Er|].
  specialize (Hr v eq_refl). unfold node_is_dir in Hr. rewrite Es in Hr. discriminate.
Qed.

(* ---- node kinds are kept by the specification's removal --------------------------------------------------------------------------- *)
Lemma nkind_delete_node (h : heap) (c i : nat) : nkind (get (delete_node h c) i) = nkind (get h i).
Proof. rewrite get_delete_node_eq. destruct (Nat.eqb_spec i c) as [-> |_]; [apply nkind_deleted|reflexivity]. Qed.

Lemma nkind_remove_child (h : heap) (p : nat) (n : str) (i : nat) : nkind (get (remove_child h p n) i) = nkind (get h i).
Proof.
  rewrite get_remove_child_eq. destruct (Nat.eqb_spec i p) as [-> |_]; [|reflexivity]. destruct (get h p) as [[| |]|]; reflexivity.
Qed.

Lemma nkind_release (h : heap) (c i : nat) : nkind (get (release h c) i) = nkind (get h i).
Proof. destruct (release_cases h c) as [-> | ->]; [reflexivity|apply nkind_delete_node]. Qed.

Lemma nkind_drop_tree : forall (f : nat) (h : heap) (c i : nat), nkind (get (drop_tree f h c) i) = nkind (get h i).
Proof.
  induction f as [|f IH]; intros h c i; [reflexivity|]. rewrite drop_tree_S.
  destruct (get h c) as [[ch m|dt k id m|t m]|] eqn:Eg; [|apply nkind_release|apply nkind_release|reflexivity].
  rewrite nkind_delete_node. clear Eg. revert h. induction ch as [|[n x] ch IHc]; intros h; [reflexivity|].
  cbn [fold_left snd]. rewrite IHc. apply IH.
Qed.

(* ---- the removal of a non-empty directory [c], entry [cl] of [par] ------------------------------------------------------------------ *)
Section Top.
  Variables (h : heap) (u : user) (par c : nat) (cl : str).
  Hypothesis Hadm : us_admin u = true.
  Hypothesis Hacyc : forall d, ~ dreachp h d d.
  Hypothesis Hss : sym_single h.
  Hypothesis Hml : maxlen h c (S (length h)).
  Hypothesis Hedge : In (cl, c) (children h par).
  Hypothesis Hdir : node_is_dir h c = true.

  (* the strong form: a node on which the final heaps differ is a link listed (in [h]) by a directory of the subtree;
     the specification's edges are old edges, its kinds are kept, and its listed links are as they were *)
  Lemma top_sim_x :
    exists hi', remove_all_rec (S (length h)) h u c = (hi', None)
      /\ (let hiF := delete_node (remove_child hi' par cl) c in
          let hsF := drop_tree (S (length h)) (remove_child h par cl) c in
          (forall i, get hiF i = get hsF i
                     \/ (sym_rel (get hiF i) (get hsF i) /\ (forall d n, ~ In (n, i) (children hsF d))
                         /\ exists d n, In (n, i) (children h d) /\ dreach h c d))
          /\ (forall d n x, In (n, x) (children hsF d) -> In (n, x) (children h d))
          /\ (forall i t m, get hsF i = Some (NSym t m) ->
                             get h i = Some (NSym t m) \/ forall d n, ~ In (n, i) (children hsF d)))
      /\ get hi' par = get h par.
  Proof.
    assert (Hne : c <> par).
    { intros ->. apply (Hacyc par). exists par, cl. split; [constructor|exact Hedge]. }
    assert (Hnr : ~ dreach h c par).
    { intros Hr. apply (Hacyc c). exists par, cl. split; [exact Hr|exact Hedge]. }
    set (hs0 := remove_child h par cl).
    assert (Hg0 : forall i, i <> par -> get hs0 i = get h i).
    { intros i Hi. unfold hs0. rewrite get_remove_child_eq. apply Nat.eqb_neq in Hi. rewrite Hi. reflexivity. }
    assert (Hk0 : forall i, nkind (get hs0 i) = nkind (get h i)) by (intros i; apply nkind_remove_child).
    assert (HR : R h par c (fun _ => False) h hs0).
    { split.
      - intros i [].
      - intros i _ Hi. left. symmetry. apply Hg0. exact Hi.
      - intros d n x Hin. destruct (Nat.eq_dec d par) as [-> | Hd].
        + unfold children, hs0 in Hin. rewrite get_remove_child_eq, Nat.eqb_refl in Hin. unfold children.
          destruct (get h par) as [[ch m| |]|]; try exact Hin. apply in_aremove in Hin. tauto.
        + rewrite (children_of_get h hs0 d (Hg0 d Hd)) in Hin. exact Hin.
      - exact Hk0.
      - intros i t m Hg. left. destruct (Nat.eq_dec i par) as [-> | Hi]; [|rewrite <- (Hg0 i Hi); exact Hg].
        unfold hs0 in Hg. rewrite get_remove_child_eq, Nat.eqb_refl in Hg. destruct (get h par) as [[| |]|]; try discriminate Hg; exact Hg. }
    assert (Hdirs : node_is_dir hs0 c = true) by (unfold node_is_dir; rewrite (Hg0 c Hne); exact Hdir).
    destruct (P_all h u par c Hadm Hacyc Hss (S (length h)) (fun _ => False) h hs0 c HR (fun x => x) Hnr
                (fun x (F : False) => match F with end) (dreach_refl _ _) Hdirs Hml) as (hi' & E & R1 & F1 & F2).
    assert (Np : Nat.eqb par c = false) by (apply Nat.eqb_neq; congruence).
    rewrite get_delete_node_eq, Np in F1.
    exists hi'. split; [exact E|]. split; [|exact F1]. cbv zeta. split; [|split].
    - intros i. rewrite (unlink_get hi' par cl c i Hne). destruct (Nat.eq_dec i par) as [-> | Hi].
      + left. rewrite Np, Nat.eqb_refl, F1, F2. unfold hs0. rewrite get_remove_child_eq, Nat.eqb_refl. reflexivity.
      + assert (Ni : Nat.eqb i par = false) by (apply Nat.eqb_neq; exact Hi). rewrite Ni.
        destruct (r_pt _ _ _ _ _ _ R1 i (fun x => x) Hi) as [Eq|(Eq & F & Q)]; rewrite get_delete_node_eq in Eq.
        * left. exact Eq.
        * right. split; [exact Eq|]. split; [|exact Q]. intros d n Hin. exact (F d n Hin).
    - intros d n x Hin. exact (r_sub _ _ _ _ _ _ R1 d n x Hin).
    - intros i t m Hg. destruct (r_symk _ _ _ _ _ _ R1 i t m Hg) as [Eq|F]; [left; exact Eq|right].
      intros d n Hin. exact (F d n Hin).
  Qed.

  Lemma top_sim :
    exists hi', remove_all_rec (S (length h)) h u c = (hi', None)
      /\ geq (delete_node (remove_child hi' par cl) c) (drop_tree (S (length h)) (remove_child h par cl) c)
      /\ get hi' par = get h par.
  Proof.
    destruct top_sim_x as (hi' & E & (G & _) & F). exists hi'. split; [exact E|]. split; [|exact F].
    intros i. destruct (G i) as [Eq|(Eq & Fe & _)]; [left; exact Eq|right; split; assumption].
  Qed.
End Top.

(* ---- the calls ------------------------------------------------------------------------------------------------------------------------ *)
Lemma remove_all_nonempty (s : fsys) (v : view) (path : str) :
  path <> [] ->
  remove_all s v path =
    let r := search_node s v path SlLstat in
    if is_not_exist (sr_err r) then (s, ROk)
    else if negb (is_file_exists (sr_err r)) then (s, RFail (sr_err r))
    else match sr_child r, sr_parent r with
         | Some c, Some parent =>
             let h := f_heap s in
             let nonempty_dir := match get h c with Some (NDir (_ :: _) _) => true | _ => false end in
             if Nat.eqb parent c then (s, RFail EInvalidArgument)
             else
               let '(h1, e1) := if nonempty_dir then remove_all_rec (S (length h)) h (v_user v) c else (h, None) in
               match e1 with
               | Some e => (with_heap s h1, RFail e)
               | None =>
                   if negb (perm_on h1 parent OpenWrite (v_user v)) then (with_heap s h1, RFail EPermDenied)
                   else (with_heap s (delete_node (remove_child h1 parent (pi_part (sr_pi r))) c), ROk)
               end
         | _, _ => (s, RPanic)
         end.
Proof. destruct path; [congruence|reflexivity]. Qed.

Lemma go_remove_all_nonempty (s : fsys) (sv : sview) (p : str) :
  p <> [] ->
  go_remove_all s sv p =
    if ends_with_dot p then (s, SErr EINVAL)
    else match go_remove s sv p with
         | (s1, SOk) => (s1, SOk)
         | (_, SErr e) =>
             if N.eqb e ENOENT then (s, SOk)
             else
               match klookup s sv true false p with
               | WParent par LNorm name _ =>
                   let h := f_heap s in
                   match alookup str_eqb name (children h par) with
                   | Some c =>
                       if node_is_dir h c
                       then (with_heap s (drop_tree (S (length h)) (remove_child h par name) c), SOk)
                       else (s, SErr e)
                   | None => (s, SErr e)
                   end
               | _ => (s, SErr e)
               end
         | (_, r) => (s, r)
         end.
Proof. destruct p; [congruence|reflexivity]. Qed.

Lemma ends_with_dot_name (w : list str) (cl : str) : good_comp cl -> ends_with_dot (abs_path (w ++ [cl])) = false.
Proof.
  intros (Hne & Hns & Hd & _). unfold ends_with_dot.
  assert (E : abs_path (w ++ [cl]) = rpath w ++ SLASH :: cl).
  { rewrite abs_path_rpath by (destruct w; discriminate). rewrite rpath_app. cbn [rpath]. rewrite app_nil_r. reflexivity. }
  rewrite E, rev_app_distr. cbn [rev]. rewrite <- app_assoc. cbn [app].
  destruct (rev cl) as [|d [|c r]] eqn:Er.
  - exfalso. apply Hne. rewrite <- (rev_involutive cl), Er. reflexivity.
  - cbn [app]. assert (Ecl : cl = [d]) by (rewrite <- (rev_involutive cl), Er; reflexivity).
    destruct (N.eqb_spec d DOT) as [-> |_]; [congruence|reflexivity].
  - cbn [app]. assert (Hc : In c cl) by (apply in_rev; rewrite Er; right; left; reflexivity).
    destruct (N.eqb_spec c SLASH) as [Ec|_]; [exfalso; exact (Hns c Hc Ec)|apply Bool.andb_false_r].
Qed.

Ltac kinds_tac :=
  intros ?i; try change (N.eqb ENOTEMPTY ENOENT) with false; cbv iota; cbn [fst f_heap with_heap];
  rewrite ?nkind_drop_tree, ?nkind_delete_node, ?nkind_remove_child; reflexivity.

Theorem step_remove_all (s : fsys) (sv : sview) (w : list str) (cl : str) :
  step_hyps s sv -> Inv_heap (f_heap s) -> sym_single (f_heap s) -> path_ok s sv SlLstat (w ++ [cl]) ->
  let p := abs_path (w ++ [cl]) in
  proj_res Linux (snd (remove_all s (sv_view sv) p)) = snd (go_remove_all s sv p)
  /\ fsys_geq (fst (remove_all s (sv_view sv) p)) (fst (go_remove_all s sv p))
  /\ (forall i, nkind (get (f_heap (fst (go_remove_all s sv p))) i) = nkind (get (f_heap s) i)).
Proof.
  intros H Hinv Hss Hp p. pose proof (resolve s sv SlLstat (w ++ [cl]) H Hp) as R.
  destruct Hp as (Hg & Hk1 & Hnf). change (follow_of SlLstat) with false in R, Hk1. change (precise_of SlLstat) with true in R.
  destruct (klookup_pm s sv false w cl Hg Hk1) as (Hkn & Hkg & Hpm).
  assert (Hgcl : good_comp cl) by (apply Forall_app in Hg as (_ & Hg); exact (Forall_inv Hg)).
  unfold p. rewrite (remove_all_nonempty s (sv_view sv) _ (abs_path_nonempty _)).
  rewrite (go_remove_all_nonempty s sv _ (abs_path_nonempty _)), (ends_with_dot_name w cl Hgcl). cbv zeta.
  unfold go_remove, k_unlink, k_rmdir. rewrite Hpm.
  pose proof (klookup_final s sv false (w ++ [cl]) Hg) as Hfin.
  destruct (klookup s sv false false (abs_path (w ++ [cl]))) as [par kind name n|par name md| |e] eqn:HK; cbn [walk_rel] in R.
  - destruct (Hkn _ _ _ _ eq_refl) as (-> & ->). destruct Hfin as (F1 & F2 & _).
    destruct R as (R1 & R2 & R3 & _ & _ & R4). destruct (R4 eq_refl) as (R5 & R6).
    destruct (at_name_views _ _ _ _ _ _ (R6 eq_refl)) as (V1 & _).
    assert (Hvp : get (f_heap s) par <> None) by (apply node_is_dir_valid; exact F2).
    assert (Hedge : In (cl, n) (children (f_heap s) par)) by (apply alookup_in; exact F1).
    assert (Hne : n <> par).
    { intros ->. apply (ww_acyclic _ (sh_wf _ _ H) par). exists par, cl. split; [constructor|exact Hedge]. }
    rewrite R2, R5, R1, V1, F1. cbn [is_file_exists is_not_exist negb].
    replace (Nat.eqb par n) with false by (symmetry; apply Nat.eqb_neq; congruence).
    rewrite !(admin_may_delete s sv par n _ H Hvp).
    destruct (get (f_heap s) n) as [[[|x ch] m|dt k i m|t m]|] eqn:Hgn; [| | | |congruence].
    + (* an empty directory *)
      assert (Hnd : node_is_dir (f_heap s) n = true) by (unfold node_is_dir; rewrite Hgn; reflexivity).
      rewrite Hnd. unfold dir_nonempty. rewrite Hgn, (admin_perm_on s sv par _ H Hvp). cbn [negb fst snd].
      split; [reflexivity|split; [apply fsys_geq_refl|kinds_tac]].
    + (* a non-empty directory *)
      assert (Hnd : node_is_dir (f_heap s) n = true) by (unfold node_is_dir; rewrite Hgn; reflexivity).
      rewrite Hnd. unfold dir_nonempty. rewrite Hgn. change (N.eqb ENOTEMPTY ENOTDIR) with false.
      change (N.eqb ENOTEMPTY ENOENT) with false. cbv iota.
      destruct (top_sim (f_heap s) (v_user (sv_view sv)) par n cl (sh_admin _ _ H) (ww_acyclic _ (sh_wf _ _ H)) Hss
                  (maxlen_heap (f_heap s) n Hinv) Hedge Hnd) as (hi' & -> & G & Fp).
      assert (Hpo : perm_on hi' par OpenWrite (v_user (sv_view sv)) = true).
      { unfold perm_on, check_permission. rewrite Fp. destruct (get (f_heap s) par); [|congruence].
        rewrite (sh_admin _ _ H). reflexivity. }
      rewrite Hpo. cbn [negb fst snd]. split; [reflexivity|]. split; [split; [exact G|split; reflexivity]|kinds_tac].
    + assert (Hnd : node_is_dir (f_heap s) n = false) by (unfold node_is_dir; rewrite Hgn; reflexivity).
      rewrite Hnd, (admin_perm_on s sv par _ H Hvp). cbn [negb fst snd].
      rewrite (release_single _ par cl n Hss Hedge Hne). split; [reflexivity|split; [apply fsys_geq_refl|kinds_tac]].
    + assert (Hnd : node_is_dir (f_heap s) n = false) by (unfold node_is_dir; rewrite Hgn; reflexivity).
      rewrite Hnd, (admin_perm_on s sv par _ H Hvp). cbn [negb fst snd].
      rewrite (release_single _ par cl n Hss Hedge Hne). split; [reflexivity|split; [apply fsys_geq_refl|kinds_tac]].
  - pose proof (Hkg _ _ _ eq_refl) as ->. destruct Hfin as (F1 & _). destruct R as (R1 & R2 & _).
    rewrite R1, F1. cbn [is_not_exist fst snd]. split; [reflexivity|split; [apply fsys_geq_refl|kinds_tac]].
  - destruct R.
  - destruct R as (R1 & _). destruct (werr_cases _ _ R1 Hnf) as (Hc & ->).
    set (r := search_node s (sv_view sv) (abs_path (w ++ [cl])) SlLstat) in *.
    destruct (sr_child r), (sr_parent r); destruct Hc as [Hc|[Hc|[Hc|Hc]]]; rewrite Hc;
      (split; [reflexivity|split; [apply fsys_geq_refl|kinds_tac]]).
Qed.

(* ---- at the level of worlds ------------------------------------------------------------------------------------------------------------ *)
Lemma wstep_remove_all (w : world) (vi : nat) (v : view) (p : str) :
  nth_error (w_views w) vi = Some v -> wstep w (CRemoveAll vi p) = lift w (remove_all (w_fs w) v p).
Proof. intros Hv. unfold wstep, on_view. rewrite Hv. reflexivity. Qed.

Lemma spec_remove_all (sw : sworld) (vi : nat) (p : str) :
  spec_step true sw (CRemoveAll vi p)
  = ({| sw_fs := fst (go_remove_all (sw_fs sw) (sw_sv sw) p); sw_sv := sw_sv sw |}, snd (go_remove_all (sw_fs sw) (sw_sv sw) p)).
Proof. reflexivity. Qed.

Theorem step_world_remove_all (w : world) (vi : nat) (sw : sworld) (ww : list str) (cl : str) :
  absw w vi sw -> step_hyps (sw_fs sw) (sw_sv sw) -> Inv_heap (f_heap (sw_fs sw)) -> sym_single (f_heap (sw_fs sw)) ->
  path_ok (sw_fs sw) (sw_sv sw) SlLstat (ww ++ [cl]) ->
  let c := CRemoveAll vi (abs_path (ww ++ [cl])) in
  snd (impl_step_proj w c) = snd (spec_step true sw c)
  /\ fsys_geq (w_fs (fst (impl_step_proj w c))) (sw_fs (fst (spec_step true sw c)))
  /\ sw_sv (fst (spec_step true sw c)) = sw_sv sw
  /\ snapshot (fst (impl_step_proj w c)) vi = snapshot (with_fs w (sw_fs (fst (spec_step true sw c)))) vi.
Proof.
  intros Ha H Hinv Hss Hp c. pose proof Ha as (Hfs & Hv).
  destruct (step_remove_all (sw_fs sw) (sw_sv sw) ww cl H Hinv Hss Hp) as (E1 & E2 & E3).
  assert (Ei : impl_step_proj w c = (with_fs w (fst (remove_all (w_fs w) (sv_view (sw_sv sw)) (abs_path (ww ++ [cl])))),
                                    proj_res Linux (snd (remove_all (w_fs w) (sv_view (sw_sv sw)) (abs_path (ww ++ [cl])))))).
  { apply (impl_lift w _ _ (wstep_remove_all w vi _ _ Hv)); [left; discriminate|exact I]. }
  rewrite Ei. unfold c. rewrite spec_remove_all, <- Hfs. cbn [fst snd sw_fs sw_sv w_fs with_fs].
  split; [exact E1|]. split; [exact E2|]. split; [reflexivity|].
  apply geq_snapshot; cbn [w_fs w_views with_fs]; [exact (proj1 E2)|reflexivity|].
  intros v Hv'. rewrite Hv in Hv'. injection Hv' as <-.
  pose proof (sh_root _ _ H) as Hr. unfold node_is_dir in *.
  specialize (E3 (v_root (sv_view (sw_sv sw)))).
  destruct (get (f_heap (sw_fs sw)) (v_root (sv_view (sw_sv sw)))) as [[| |]|]; try discriminate.
  destruct (get _ (v_root (sv_view (sw_sv sw)))) as [[| |]|]; cbn [nkind] in E3; try discriminate. reflexivity.
Qed.

(* ---- walks do not see the difference --------------------------------------------------------------------------------------------------- *)
Theorem search_loop_geq (hi hs : heap) (v : view) (slm : slmode) : geq hi hs ->
  forall f vol p pi sl saved, get hi vol = get hs vol -> get hi p = get hs p ->
  search_loop f hi v slm vol p pi sl saved = search_loop f hs v slm vol p pi sl saved.
Proof.
  intros G. induction f as [|f IH]; intros vol p pi sl saved Ev Ep; [reflexivity|].
  rewrite !search_loop_S. destruct (pi_next (v_os v) pi) as [ok pi1]. destruct (negb ok); [reflexivity|]. cbv zeta.
  assert (Erc : root_check hi v vol p = root_check hs v vol p) by (unfold root_check; rewrite Ep; reflexivity).
  rewrite Erc. destruct (root_check hs v vol p); [reflexivity|].
  rewrite (children_of_get hs hi p Ep).
  destruct (alookup str_eqb (pi_part pi1) (children hs p)) as [c|] eqn:El; [|reflexivity].
  assert (Ec : get hi c = get hs c).
  { destruct (G c) as [E|(_ & F)]; [exact E|]. exfalso. apply (F p (pi_part pi1)). apply alookup_in. exact El. }
  rewrite Ec. destruct (get hs c) as [[ch m|d k id m|t m]|] eqn:Egs; try reflexivity.
  - destruct (pi_is_last pi1); [reflexivity|]. destruct (check_permission m OpenLookup (v_user v)); [|reflexivity].
    apply IH; [assumption|congruence].
  - destruct (pi_is_last pi1 && slmode_eqb slm SlLstat); [reflexivity|].
    destruct (Nat.ltb slCountMax (S sl)); [reflexivity|]. destruct (pi_replace_part (v_os v) pi1 t) as [reset pi2].
    destruct reset; apply IH; assumption.
Qed.

Corollary search_node_geq (si ss : fsys) (v : view) (p : str) (slm : slmode) :
  fsys_geq si ss -> f_vols ss = [] -> get (f_heap si) (v_root v) = get (f_heap ss) (v_root v) ->
  search_node si v p slm = search_node ss v p slm.
Proof.
  intros (G & _ & Hv) Hnv Er. unfold search_node. rewrite Hv, Hnv.
  destruct (Nat.ltb 0 (pi_vnl (pi_new (v_os v) (abs (v_os v) (v_cwd v) p)))); [cbn [alookup]; reflexivity|].
  apply search_loop_geq; assumption.
Qed.
