(* C01: Rename over an EXISTING destination (a file or a symbolic link replaced by a file or a symbolic link).
   The implementation replaces the destination's entry in place, the specification (renameat2) removes it and appends the
   moved one: the resulting file systems are equal up to the order of directory entries ([fsys_heq], HeapEq.v). *)
From Coq Require Import Permutation.
From Avfs Require Import Base BaseProofs PathModel PathSpec PathProofs PathCleanProofs PathIterProofs.
From Avfs Require Import MemFS MemFile World Posix Inv WalkBridge WalkSym WalkBudget WalkReadlink WalkRel StepEq HeapEq DacLemmas.

(* a node that is not a directory is nobody's ancestor *)
Lemma parent_of_dir_or_self (h : heap) (root d : nat) :
  node_is_dir h root = true -> parent_of h root d = d \/ node_is_dir h (parent_of h root d) = true.
Proof.
  intros Hrd. unfold parent_of. destruct (Nat.eqb_spec d root) as [->|_]; [right; exact Hrd|].
  destruct (find_parent h 0 d) as [p|] eqn:Hf; [|left; reflexivity]. right.
  apply find_parent_some in Hf as (_ & ch & m & n & Hn & _). rewrite Nat.sub_0_r in Hn.
  unfold node_is_dir, get. rewrite Hn. reflexivity.
Qed.

Lemma is_ancestor_nondir (h : heap) (root a : nat) :
  node_is_dir h root = true -> node_is_dir h a = false ->
  forall f d, a <> d -> is_ancestor f h root a d = false.
Proof.
  intros Hrd Ha. induction f as [|f IH]; intros d Hne; [reflexivity|]. cbn [is_ancestor].
  replace (Nat.eqb a d) with false by (symmetry; apply Nat.eqb_neq; exact Hne).
  destruct (Nat.eqb d root); [reflexivity|]. cbv zeta.
  destruct (Nat.eqb_spec (parent_of h root d) d) as [|Hp]; [reflexivity|]. apply IH.
  destruct (parent_of_dir_or_self h root d Hrd) as [E|E]; [congruence|]. intros Ea. rewrite <- Ea in E. congruence.
Qed.

Definition dest_plain (s : fsys) (nc : nat) : Prop :=
  node_is_dir (f_heap s) nc = false /\
  forall nd, get (f_heap s) nc = Some nd -> has (m_mode (node_meta nd)) MODE_DIR = false.

Lemma go_rename_plain_dest (s : fsys) (sv : sview) (o n : str) par kind name nc :
  klookup s sv false false n = WNode par kind name nc -> dest_plain s nc -> get (f_heap s) nc <> None ->
  go_rename s sv o n = k_rename s sv o n.
Proof.
  intros HK (_ & Hm) Hv. unfold go_rename, k_stat. rewrite HK. unfold k_info.
  destruct (get (f_heap s) nc) as [nd|] eqn:Hg; [|congruence]. specialize (Hm nd eq_refl).
  destruct nd; cbn [fi_mode node_meta] in *; rewrite Hm; reflexivity.
Qed.

Theorem step_rename_over (s : fsys) (sv : sview) (wo : list str) (clo : str) (wn : list str) (cln : str) (np nc : nat) :
  step_hyps s sv -> path_ok s sv SlLstat (wo ++ [clo]) -> path_ok s sv SlLstat (wn ++ [cln]) ->
  source_not_dir s sv (wo ++ [clo]) ->
  klookup s sv false false (abs_path (wn ++ [cln])) = WNode np LNorm cln nc -> dest_plain s nc ->
  (forall par k nm oc, klookup s sv false false (abs_path (wo ++ [clo])) = WNode par k nm oc -> oc <> nc) ->
  sym_single (f_heap s) -> NoDup (map fst (children (f_heap s) np)) ->
  let o := abs_path (wo ++ [clo]) in
  let n := abs_path (wn ++ [cln]) in
  fsys_heq (fst (rename s (sv_view sv) o n)) (fst (go_rename s sv o n))
  /\ proj_res Linux (snd (rename s (sv_view sv) o n)) = snd (go_rename s sv o n).
Proof.
  intros H Hpo Hpn Hnd HKn (Hncd & Hncm) Hdiff Hss Hndp o n.
  pose proof (resolve s sv SlLstat (wo ++ [clo]) H Hpo) as Ro. pose proof (resolve s sv SlLstat (wn ++ [cln]) H Hpn) as Rn.
  destruct Hpo as (Hgo & Hko & Hnfo). destruct Hpn as (Hgn & Hkn & Hnfn).
  change (follow_of SlLstat) with false in Ro, Rn, Hko, Hkn. change (precise_of SlLstat) with true in Ro, Rn.
  destruct (klookup_pm s sv false wo clo Hgo Hko) as (Hono & Hong & Hpmo).
  destruct (klookup_pm s sv false wn cln Hgn Hkn) as (_ & _ & Hpmn).
  pose proof (klookup_final s sv false (wo ++ [clo]) Hgo) as Fo.
  pose proof (klookup_final s sv false (wn ++ [cln]) Hgn) as Fn.
  rewrite HKn in Rn, Hpmn, Fn. cbn [walk_rel] in Rn. destruct Fn as (Fn1 & Fn2 & _).
  destruct Rn as (N1 & N2 & N3 & _ & _ & N4). destruct (N4 eq_refl) as (N5 & N6).
  destruct (at_name_views _ _ _ _ _ _ (N6 eq_refl)) as (NV1 & NV2 & dn & NP & NW & NG).
  destruct (get (f_heap s) nc) as [ndc|] eqn:Hgnc; [|congruence]. specialize (Hncm ndc eq_refl).
  unfold o, n. rewrite (go_rename_plain_dest s sv _ _ _ _ _ _ HKn (conj Hncd (fun nd E => eq_trans (f_equal (fun x => has (m_mode (node_meta x)) MODE_DIR) (eq_sym (f_equal (fun o => match o with Some y => y | None => nd end) (eq_trans (eq_sym Hgnc) E)))) Hncm)) ltac:(congruence)).
  unfold rename, k_rename. rewrite Hpmo, Hpmn. cbv beta iota zeta.
  remember (search_node s (sv_view sv) (abs_path (wo ++ [clo])) SlLstat) as ro eqn:Ero in *.
  remember (search_node s (sv_view sv) (abs_path (wn ++ [cln])) SlLstat) as rn eqn:Ern in *. clear Ero Ern.
  unfold source_not_dir in Hnd.
  destruct (klookup s sv false false (abs_path (wo ++ [clo]))) as [op okind oname oc|op oname omd|a b c d|e] eqn:HKo;
    cbn [walk_rel] in Ro.
  - destruct (Hono _ _ _ _ eq_refl) as (-> & ->). destruct Fo as (Fo1 & Fo2 & _).
    destruct Ro as (O1 & O2 & O3 & _ & _ & O4). destruct (O4 eq_refl) as (O5 & O6).
    destruct (at_name_views _ _ _ _ _ _ (O6 eq_refl)) as (OV1 & _ & do & OP & OW & OG).
    specialize (Hnd _ _ _ _ eq_refl). specialize (Hdiff _ _ _ _ eq_refl).
    assert (Hvo : get (f_heap s) op <> None) by (apply node_is_dir_valid; exact Fo2).
    assert (Hvn : get (f_heap s) np <> None) by (apply node_is_dir_valid; exact Fn2).
    rewrite O1, N1, O5, O2, N5, OV1, NV1, N2. cbn [is_file_exists is_not_exist negb andb orb].
    rewrite !(admin_perm_on s sv _ _ H) by assumption. rewrite !(sticky_admin _ _ _ _ (sh_admin _ _ H)).
    cbn [negb andb]. rewrite !andb_false_r.
    assert (Hpdiff : str_eqb (pi_path (sr_pi ro)) (pi_path (sr_pi rn)) = false).
    { apply str_eqb_neq. rewrite OP, NP. intros E.
      apply abs_path_inj in E; [|apply Forall_comp_ok_of; exact OG|apply Forall_comp_ok_of; exact NG].
      apply app_inj_tail in E as (-> & ->). rewrite OW in NW. injection NW as ->. congruence. }
    rewrite Hpdiff. cbn [orb].
    replace (Nat.eqb nc oc) with false by (symmetry; apply Nat.eqb_neq; congruence). cbn [orb].
    rewrite Fo1, Fn1, Hnd, ?Hgnc. cbn [negb andb].
    assert (Enc : Nat.eqb nc oc = false) by (apply Nat.eqb_neq; congruence). rewrite ?Enc.
    assert (Hnco : nc <> op) by (intros ->; congruence). assert (Hncn : nc <> np) by (intros ->; congruence).
    rewrite (is_ancestor_nondir _ _ nc (sh_root _ _ H) Hncd _ op Hnco).
    rewrite !(admin_may_delete s sv _ _ _ H) by assumption. rewrite Hnd, Hncd.
    unfold dir_nonempty. rewrite ?Hgnc, ?Enc.
    rewrite (release_single _ np cln nc Hss (alookup_in _ _ _ _ Fn1) Hncn).
    destruct (node_is_dir_get _ _ Fo2) as (cho & mo & Hgo'). destruct (node_is_dir_get _ _ Fn2) as (chn & mn & Hgn').
    assert (Hheq : heq (remove_child (add_child (delete_node (f_heap s) nc) np cln oc) op clo)
                       (add_child (remove_child (delete_node (remove_child (f_heap s) np cln) nc) op clo) np cln oc)).
    { apply (rename_over_heq _ _ _ _ _ _ _ cho mo chn mn Hgo' Hgn'); auto.
      - unfold children in Hndp. rewrite Hgn' in Hndp. exact Hndp.
      - intros -> ->. congruence. }
    unfold node_is_dir in Hnd, Hncd. rewrite Hgnc in Hncd.
    destruct (get (f_heap s) oc) as [[ch m|dt k i m|t m]|] eqn:Hgoc; try discriminate Hnd; try congruence;
      destruct ndc as [ch2 m2|dt2 k2 i2 m2|t2 m2]; try discriminate Hncd; cbv iota; cbn [fst snd f_heap with_heap];
      (split; [split; [exact Hheq|split; reflexivity]|reflexivity]).
  - pose proof (Hong _ _ _ eq_refl) as ->. destruct Fo as (Fo1 & _). destruct Ro as (O1 & _). rewrite O1, Fo1. cbn [fst snd].
    split; [split; [apply heq_refl|split; reflexivity]|reflexivity].
  - destruct Ro.
  - destruct Ro as (O1 & _). destruct (werr_cases _ _ O1 Hnfo) as (Hc & ->).
    destruct Hc as [Hc|[Hc|[Hc|Hc]]]; rewrite Hc; cbn [fst snd];
      (split; [split; [apply heq_refl|split; reflexivity]|reflexivity]).
Qed.

(* ---- [heq] is a congruence for the two walks (names unique: I2 of C05) -------------------------------------------------- *)
Definition names_nodup (h : heap) : Prop := forall d, NoDup (map fst (children h d)).

Lemma heq_get (h h' : heap) (i : nat) : heq h h' ->
  match get h i, get h' i with
  | Some (NDir ch m), Some (NDir ch' m') => Permutation ch ch' /\ m = m'
  | Some (NFile d k id m), Some y => y = NFile d k id m
  | Some (NSym t m), Some y => y = NSym t m
  | None, None => True
  | _, _ => False
  end.
Proof.
  intros H. specialize (H i). unfold onode_eq, node_eq in H.
  destruct (get h i) as [[ch m|d k id m|t m]|], (get h' i) as [[ch' m'|d' k' id' m'|t' m']|]; auto; try discriminate H; try contradiction; congruence.
Qed.

Lemma heq_root_check (h h' : heap) (v : view) (vol p : nat) : heq h h' -> root_check h' v vol p = root_check h v vol p.
Proof.
  intros H. unfold root_check. pose proof (heq_get h h' p H) as G.
  destruct (get h p) as [[ch m|d k id m|t m]|], (get h' p) as [[ch' m'|d' k' id' m'|t' m']|]; try contradiction; try discriminate G;
    try (injection G as -> -> -> ->); try (injection G as -> ->); try reflexivity.
  destruct G as (_ & ->). reflexivity.
Qed.

Theorem search_loop_heq (h h' : heap) (v : view) (slm : slmode) : heq h h' -> names_nodup h ->
  forall f vol p pi sl saved, search_loop f h' v slm vol p pi sl saved = search_loop f h v slm vol p pi sl saved.
Proof.
  intros H Hnd. induction f as [|f IH]; intros vol p pi sl saved; [reflexivity|].
  rewrite !search_loop_S. destruct (pi_next (v_os v) pi) as [ok pi1]. destruct (negb ok); [reflexivity|]. cbv zeta.
  rewrite (heq_root_check h h' v vol p H). destruct (root_check h v vol p); [reflexivity|].
  rewrite <- (heq_alookup h h' p (pi_part pi1) H (Hnd p)).
  destruct (alookup str_eqb (pi_part pi1) (children h p)) as [c|]; [|reflexivity].
  pose proof (heq_get h h' c H) as G.
  destruct (get h c) as [[ch m|d k id m|t m]|], (get h' c) as [[ch' m'|d' k' id' m'|t' m']|]; try contradiction; try discriminate G.
  - destruct G as (_ & <-). destruct (pi_is_last pi1); [reflexivity|]. destruct (check_permission m OpenLookup (v_user v)); [apply IH|reflexivity].
  - reflexivity.
  - injection G as -> ->. destruct (pi_is_last pi1 && slmode_eqb slm SlLstat); [reflexivity|].
    destruct (Nat.ltb slCountMax (S sl)); [reflexivity|]. destruct (pi_replace_part (v_os v) pi1 t) as [reset pi2]. apply IH.
  - reflexivity.
Qed.

Corollary search_node_heq (s s' : fsys) (v : view) (p : str) (slm : slmode) :
  fsys_heq s s' -> names_nodup (f_heap s) -> search_node s' v p slm = search_node s v p slm.
Proof.
  intros (H & _ & Hv) Hnd. unfold search_node. rewrite <- Hv.
  destruct (Nat.ltb 0 (pi_vnl (pi_new (v_os v) (abs (v_os v) (v_cwd v) p)))).
  - destruct (alookup str_eqb _ (f_vols s)); [apply search_loop_heq; assumption|reflexivity].
  - apply search_loop_heq; assumption.
Qed.
