(* C01: OpenFile with ANY flag word.  The behaviour of MemFS depends on the flag word only through the open mode
   [to_open_mode flag], that of open(2) only through [decode_flags flag]; both are functions of the access mode
   (flag land 3) and the bits O_CREATE, O_EXCL, O_TRUNC, O_APPEND.  Three theorems: no O_CREATE (O_RDONLY, O_WRONLY,
   O_RDWR, with or without O_TRUNC / O_APPEND), O_CREATE without O_EXCL, O_CREATE with O_EXCL. *)
From Avfs Require Import Base BaseProofs PathModel PathSpec PathProofs PathCleanProofs PathIterProofs.
From Avfs Require Import MemFS MemFile World Posix Inv.
From Avfs Require Import WalkBridge WalkSym WalkBudget WalkReadlink WalkRel StepEq.

Local Open Scope N_scope.

(* ---- the bits -------------------------------------------------------------------------------------------------------------------- *)
Lemma land3_cases (flag : N) : N.land flag 3 = 0 \/ N.land flag 3 = 1 \/ N.land flag 3 = 2 \/ N.land flag 3 = 3.
Proof.
  change 3 with (N.ones 2) at 1 2 3 4. rewrite N.land_ones. change (2 ^ 2) with 4.
  pose proof (N.mod_lt flag 4 ltac:(discriminate)) as H. remember (flag mod 4) as x. clear Heqx. lia.
Qed.

Lemma om_bits (flag : N) :
  let om := to_open_mode flag in
  has om OpenCreateExcl = has flag O_CREATE && has flag O_EXCL
  /\ has om OpenCreate = has flag O_CREATE
  /\ has om OpenTruncate = has flag O_TRUNC
  /\ has om OpenWrite = negb (N.eqb (N.land flag 3) 0).
Proof.
  unfold to_open_mode.
  destruct (land3_cases flag) as [E|[E|[E|E]]]; rewrite E;
    destruct (has flag O_CREATE), (has flag O_EXCL), (has flag O_APPEND), (has flag O_TRUNC); repeat split; reflexivity.
Qed.

Lemma wants_write_bits (flag : N) (t : bool) :
  negb (N.eqb (N.land (acc_mask (N.land flag 3) t) 2) 0) = negb (N.eqb (N.land flag 3) 0) || t.
Proof. destruct (land3_cases flag) as [E|[E|[E|E]]]; rewrite E; destruct t; reflexivity. Qed.

(* ---- MemFS's OpenFile as a function of four booleans ---------------------------------------------------------------------------------- *)
Definition open_nf (s : fsys) (v : view) (vi : nat) (name : str) (perm : N) (wr cr ex tr : bool) (om : N)
  : fsys * (res + handle) :=
  let r := search_node s v name (if ex then SlLstat else SlEval) in
  let e := sr_err r in
  if (negb (is_file_exists e) && negb (is_not_exist e)) || negb (pi_is_last (sr_pi r)) then (s, inl (RFail e))
  else if is_file_exists e && ex
          && match sr_child r with
             | Some c => match get (f_heap s) c with Some (NSym _ _) => true | _ => false end
             | None => false
             end
  then (s, inl (RFail e))
  else
    let h := f_heap s in
    let open_existing (c : nat) : fsys * (res + handle) :=
      match get h c with
      | Some (NFile d k i m) =>
          if negb (check_permission m (if tr then N.lor om OpenWrite else om) (v_user v))
          then (s, inl (RFail EPermDenied))
          else if ex then (s, inl (RFail EFileExists))
          else (with_heap s (upd h c (NFile (if tr then [] else d) k i (if tr then drop_privs (v_user v) m else m))),
                inr (new_handle c vi name 0%Z om))
      | Some (NDir _ m) =>
          if ex then (s, inl (RFail EFileExists))
          else if wr || cr || tr then (s, inl (RFail EIsADirectory))
          else if negb (check_permission m om (v_user v)) then (s, inl (RFail EPermDenied))
          else (s, inr (new_handle c vi name 0%Z om))
      | _ => (s, inr (new_handle c vi name 0%Z om))
      end in
    if is_not_exist e then
      if negb cr then (s, inl (RFail e))
      else match sr_parent r with
           | None => (s, inl (RFail e))
           | Some parent =>
               if negb (perm_on h parent (N.lor OpenWrite OpenLookup) (v_user v))
               then (s, inl (RFail EPermDenied))
               else
                 let part := pi_part (sr_pi r) in
                 match alookup str_eqb part (children h parent) with
                 | None =>
                     let '(s1, c) := create_file s v parent part perm in
                     (s1, inr (new_handle c vi name 0%Z om))
                 | Some c => open_existing c
                 end
           end
    else match sr_child r with
         | Some c => open_existing c
         | None => (s, inl RPanic)
         end.

Lemma open_file_nf (s : fsys) (v : view) (vi : nat) (name : str) (flag perm : N) :
  name <> [] ->
  open_file s v vi name flag perm =
  open_nf s v vi name perm (negb (N.eqb (N.land flag 3) 0)) (has flag O_CREATE) (has flag O_CREATE && has flag O_EXCL)
          (has flag O_TRUNC) (to_open_mode flag).
Proof.
  intros Hne. unfold open_file, open_nf. destruct name as [|c0 name']; [congruence|].
  destruct (om_bits flag) as (B1 & B2 & B3 & B4). cbv zeta in B1, B2, B3, B4 |- *.
  rewrite B1, B2, B3, B4. reflexivity.
Qed.

(* ---- without O_CREATE: O_RDONLY / O_WRONLY / O_RDWR, with or without O_TRUNC, O_APPEND (and a stray O_EXCL) ------------------------------ *)
Theorem step_open_nocreate (s : fsys) (sv : sview) (vi : nat) (cs : list str) (flag perm : N) :
  step_hyps s sv -> path_ok s sv SlEval cs -> has flag O_CREATE = false ->
  open_sim (open_file s (sv_view sv) vi (abs_path cs) flag perm) (k_open s sv (abs_path cs) flag perm).
Proof.
  intros H Hp Hcr. pose proof (resolve s sv SlEval cs H Hp) as R. destruct Hp as (_ & _ & Hnf).
  pose proof (resolve_nosym s sv SlEval cs) as Hns. pose proof (sh_admin _ _ H) as Hadm.
  rewrite (open_file_nf _ _ _ _ _ _ (abs_path_nonempty cs)), Hcr. cbn [andb]. unfold open_nf. cbv beta iota zeta.
  unfold k_open, decode_flags. rewrite Hcr. cbv beta iota zeta. rewrite wants_write_bits.
  set (wr := negb (N.eqb (N.land flag 3) 0)). set (tr := has flag O_TRUNC).
  change (follow_of SlEval) with true in R. change (precise_of SlEval) with true in R.
  destruct (klookup s sv false true (abs_path cs)) as [par kind name n|par name md| |e]; cbn [walk_rel] in R.
  - destruct R as (R1 & R2 & R3 & _ & R4 & _). specialize (Hns n H eq_refl R1 R2).
    rewrite R1, (R4 eq_refl), R2. cbn [is_file_exists is_not_exist negb andb orb].
    destruct (get (f_heap s) n) as [[ch m|dt k i m|t m]|] eqn:Hg; [| |exfalso; exact (Hns t m eq_refl)|congruence].
    + unfold check_permission. rewrite Hadm, (admin_kperm s sv n _ H) by congruence. cbn [negb andb orb].
      rewrite Bool.orb_false_r. destruct (wr || tr); osim.
    + unfold check_permission. rewrite Hadm, (admin_kperm s sv n _ H) by congruence. cbn [negb andb orb].
      rewrite (drop_privs_admin _ _ Hadm). destruct tr; cbn [andb].
      * osim.
      * rewrite (upd_same _ _ _ Hg), with_heap_same. osim.
  - destruct R as (R1 & R2 & R3 & R4). destruct (at_name_views _ _ _ _ _ _ (R4 eq_refl)) as (_ & V2 & _).
    rewrite R1, V2. osim.
  - destruct R.
  - destruct R as (R1 & R2). destruct (werr_cases _ _ R1 Hnf) as (Hc & ->).
    destruct Hc as [Hc|[Hc|[Hc|Hc]]]; rewrite Hc in *; try osim.
    rewrite (R2 eq_refl eq_refl). osim.
Qed.

(* ---- O_CREATE without O_EXCL ------------------------------------------------------------------------------------------------------------ *)
Section OpenCreate.
  Variables (s : fsys) (sv : sview) (vi : nat) (w : list str) (cl : str) (flag perm : N).
  Hypothesis H : step_hyps s sv.
  Hypothesis Hp0 : path_ok s sv SlLstat (w ++ [cl]).
  Hypothesis Hp : path_ok s sv SlEval (w ++ [cl]).
  Hypothesis Hcr : has flag O_CREATE = true.
  Hypothesis Hex : has flag O_EXCL = false.
  Notation p := (abs_path (w ++ [cl])).
  Notation v := (sv_view sv).

  Lemma open_create_main (Kpm : wres) :
    klookup s sv true false p = Kpm ->
    (Kpm = klookup s sv false true p /\ exists e, Kpm = WErr e) \/ (exists par0, Kpm = WParent par0 LNorm cl false) ->
    open_sim (open_file s v vi p flag perm) (k_open s sv p flag perm).
  Proof.
    intros Hpm Hcase. pose proof (resolve s sv SlEval (w ++ [cl]) H Hp) as R.
    pose proof (resolve_nosym s sv SlEval (w ++ [cl])) as Hns.
    destruct Hp0 as (Hg & _). destruct Hp as (_ & Hk1 & Hnf).
    change (follow_of SlEval) with true in R, Hk1. change (precise_of SlEval) with true in R.
    pose proof (klookup_final s sv true (w ++ [cl]) Hg) as Hfin.
    pose proof (sh_admin _ _ H) as Hadm.
    rewrite (open_file_nf _ _ _ _ _ _ (abs_path_nonempty _)), Hcr, Hex. cbn [andb]. unfold open_nf. cbv beta iota zeta.
    unfold k_open, decode_flags. rewrite Hcr, Hex. cbv beta iota zeta. cbn [negb]. rewrite Hpm.
    set (tr := has flag O_TRUNC). set (wr := negb (N.eqb (N.land flag 3) 0)).
    set (r := search_node s v p SlEval) in *.
    destruct Hcase as [(E1 & e0 & E2)|(par0 & ->)].
    { rewrite <- E1, E2 in R. rewrite E2. cbn [walk_rel] in R. destruct R as (R1 & R2).
      destruct (werr_cases _ _ R1 Hnf) as (Hc & ->).
      destruct Hc as [Hc|[Hc|[Hc|Hc]]]; rewrite Hc in *; try osim.
      rewrite (R2 eq_refl eq_refl). osim. }
    cbv iota.
    destruct (klookup s sv false true p) as [par kind name n|par name md|a b c d|e] eqn:HK1; cbn [walk_rel] in R.
    - destruct R as (R1 & R2 & R3 & _ & R4 & _). specialize (Hns n H eq_refl R1 R2).
      rewrite R1, (R4 eq_refl), R2. cbn [is_file_exists is_not_exist negb andb orb].
      destruct (get (f_heap s) n) as [[ch m|dt k i m|t m]|] eqn:Hgn;
        [rewrite Bool.orb_true_r; osim| |exfalso; exact (Hns t m eq_refl)|congruence].
      unfold check_permission. rewrite Hadm, (admin_kperm s sv n _ H) by congruence. cbn [negb andb orb].
      rewrite (drop_privs_admin _ _ Hadm). destruct tr; cbn [andb negb].
      + osim.
      + rewrite (upd_same _ _ _ Hgn), with_heap_same. osim.
    - destruct Hfin as (F1 & F2 & _). destruct R as (R1 & R2 & R3 & R4).
      destruct (at_name_views _ _ _ _ _ _ (R4 eq_refl)) as (V1 & V2 & _).
      rewrite R1, V2, R3, V1, F1. cbn [is_file_exists is_not_exist negb andb orb].
      rewrite (admin_perm_on s sv par _ H) by (apply node_is_dir_valid; exact F2).
      rewrite (admin_kperm s sv par 3 H) by (apply node_is_dir_valid; exact F2). cbn [negb].
      rewrite create_file_alloc by exact (sh_os _ _ H). osim.
    - destruct R.
    - destruct R as (R1 & R2). destruct (werr_cases _ _ R1 Hnf) as (Hc & ->).
      destruct Hc as [Hc|[Hc|[Hc|Hc]]]; rewrite Hc in *; try osim.
      rewrite (R2 eq_refl eq_refl). osim.
  Qed.

  Theorem step_open_create : open_sim (open_file s v vi p flag perm) (k_open s sv p flag perm).
  Proof.
    destruct Hp0 as (Hg & Hk0 & _). change (follow_of SlLstat) with false in Hk0.
    destruct (klookup_pm s sv false w cl Hg Hk0) as (_ & _ & Hpm).
    apply (open_create_main _ Hpm).
    destruct (klookup s sv false false p) as [par0 k0 n0 c0|par0 n0 md0|a b c d|e0] eqn:HK0.
    - right. eauto.
    - right. eauto.
    - exfalso. exact (klookup_not_parent _ _ _ _ _ _ _ _ HK0).
    - left. split; [symmetry; exact (klookup_err_follow s sv w cl e0 Hg HK0)|eauto].
  Qed.
End OpenCreate.

(* ---- O_CREATE with O_EXCL: the final symbolic link is not followed ------------------------------------------------------------------------ *)
Theorem step_open_excl (s : fsys) (sv : sview) (vi : nat) (w : list str) (cl : str) (flag perm : N) :
  step_hyps s sv -> path_ok s sv SlLstat (w ++ [cl]) ->
  has flag O_CREATE = true -> has flag O_EXCL = true ->
  let p := abs_path (w ++ [cl]) in
  open_sim (open_file s (sv_view sv) vi p flag perm) (k_open s sv p flag perm).
Proof.
  intros H Hp Hcr Hex p. pose proof (resolve s sv SlLstat (w ++ [cl]) H Hp) as R.
  destruct Hp as (Hg & Hk1 & Hnf). change (follow_of SlLstat) with false in R, Hk1. change (precise_of SlLstat) with true in R.
  destruct (klookup_pm s sv false w cl Hg Hk1) as (Hkn & Hkg & Hpm).
  pose proof (klookup_final s sv false (w ++ [cl]) Hg) as Hfin. pose proof (sh_admin _ _ H) as Hadm.
  unfold p. rewrite (open_file_nf _ _ _ _ _ _ (abs_path_nonempty _)), Hcr, Hex. cbn [andb]. unfold open_nf. cbv beta iota zeta.
  unfold k_open, decode_flags. rewrite Hcr, Hex. cbv beta iota zeta. cbn [negb]. rewrite Hpm.
  set (tr := has flag O_TRUNC). set (wr := negb (N.eqb (N.land flag 3) 0)).
  set (r := search_node s (sv_view sv) (abs_path (w ++ [cl])) SlLstat) in *.
  destruct (klookup s sv false false (abs_path (w ++ [cl]))) as [par kind name n|par name md|a b c d|e] eqn:HK; cbn [walk_rel] in R.
  - destruct (Hkn _ _ _ _ eq_refl) as (-> & ->). destruct R as (R1 & R2 & R3 & _ & R4 & _).
    rewrite R1, (R4 eq_refl), R2. cbn [is_file_exists is_not_exist negb andb orb].
    destruct (get (f_heap s) n) as [[ch m|dt k i m|t m]|] eqn:Hgn; [osim| |osim|congruence].
    unfold check_permission. rewrite Hadm. cbn [negb]. osim.
  - pose proof (Hkg _ _ _ eq_refl) as ->. destruct Hfin as (F1 & F2 & _). destruct R as (R1 & R2 & R3 & R4).
    destruct (at_name_views _ _ _ _ _ _ (R4 eq_refl)) as (V1 & V2 & _).
    rewrite R1, V2, R3, V1, F1. cbn [is_file_exists is_not_exist negb andb orb].
    rewrite (admin_perm_on s sv par _ H) by (apply node_is_dir_valid; exact F2).
    rewrite (admin_kperm s sv par 3 H) by (apply node_is_dir_valid; exact F2). cbn [negb].
    rewrite create_file_alloc by exact (sh_os _ _ H). osim.
  - destruct R.
  - destruct R as (R1 & R2). destruct (werr_cases _ _ R1 Hnf) as (Hc & ->).
    destruct Hc as [Hc|[Hc|[Hc|Hc]]]; rewrite Hc in *; try osim.
    rewrite (R2 eq_refl eq_refl). osim.
Qed.
