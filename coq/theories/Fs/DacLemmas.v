(* C03: ownership and mode of created objects, the administrator's permission, class selection facts. *)
From Avfs Require Import Base PathModel MemFS MemFile World.

(* every object MemFS creates belongs to the calling user and has mode perm &^ umask; its group is the calling
   user's group, or the group of the directory it is created in when that directory is set-group-ID ([new_gid]);
   a new directory also inherits the set-group-ID bit *)
Lemma create_dir_meta s v parent name perm :
  let '(s', c) := create_dir s v parent name perm in
  c = length (f_heap s)
  /\ exists h', f_heap s' = h'
     /\ nth_error (f_heap s ++ [NDir [] (new_dir_meta v (meta_of (f_heap s) parent) perm)]) c
        = Some (NDir [] (new_dir_meta v (meta_of (f_heap s) parent) perm)).
Proof.
  unfold create_dir. cbn zeta. split; [reflexivity|]. eexists; split; [reflexivity|].
  rewrite nth_error_app2 by apply Nat.le_refl. rewrite Nat.sub_diag. reflexivity.
Qed.

Lemma new_meta_owner v pm tb perm :
  m_uid (new_meta v pm tb perm) = us_uid (v_user v)
  /\ m_gid (new_meta v pm tb perm) = (if has (m_mode pm) MODE_SETGID then m_gid pm else us_gid (v_user v))
  /\ m_mode (new_meta v pm tb perm) = N.lor tb (N.ldiff (N.land perm FILE_MODE_MASK) (v_umask v)).
Proof. unfold new_meta, new_gid. cbn. auto. Qed.

(* the administrator passes every permission check *)
Lemma check_permission_admin m p u : us_admin u = true -> check_permission m p u = true.
Proof. intros H. unfold check_permission. rewrite H. reflexivity. Qed.

(* the sticky bit of a directory never refuses the administrator *)
Lemma sticky_admin h d n u : us_admin u = true -> sticky_refuses h d n u = false.
Proof. intros H. unfold sticky_refuses. rewrite H. cbn [negb]. rewrite andb_false_r. reflexivity. Qed.

(* Getwd answers the working-directory string, or refuses for want of search permission; never the administrator *)
Lemma getwd_cases s v : getwd s v = RStr (v_cwd v) \/ getwd s v = RFail EPermDenied.
Proof.
  unfold getwd. set (r := search_node s v (v_cwd v) SlLstat). destruct (sr_child r); [|left; reflexivity].
  destruct (is_file_exists (sr_err r)); [|left; reflexivity].
  destruct (get (f_heap s) n) as [[ch m| |]|]; try (left; reflexivity).
  destruct (check_permission m OpenLookup (v_user v)); [left|right]; reflexivity.
Qed.

Lemma getwd_admin s v : us_admin (v_user v) = true -> getwd s v = RStr (v_cwd v).
Proof.
  intros H. unfold getwd. set (r := search_node s v (v_cwd v) SlLstat). destruct (sr_child r); [|reflexivity].
  destruct (is_file_exists (sr_err r)); [|reflexivity].
  destruct (get (f_heap s) n) as [[ch m| |]|]; try reflexivity.
  rewrite check_permission_admin by exact H. reflexivity.
Qed.

(* chown(2) never refuses the administrator *)
Lemma chown_ok_admin m u uid gid : us_admin u = true -> chown_ok m u uid gid = true.
Proof. intros H. unfold chown_ok. rewrite H. reflexivity. Qed.

Lemma set_mode_ok_admin m u : us_admin u = true -> set_mode_ok m u = true.
Proof. intros H. unfold set_mode_ok. rewrite H. apply orb_true_r. Qed.

(* class selection is exclusive: the owner is judged by the owner bits only, a group member who is not the
   owner by the group bits only, everybody else by the other bits only *)
Lemma check_permission_owner m p u :
  us_admin u = false -> m_uid m = us_uid u ->
  check_permission m p u = N.eqb (N.land (N.shiftr (N.land (m_mode m) 65535) 6) (N.land p 7)) (N.land p 7).
Proof. intros Ha Hu. unfold check_permission. rewrite Ha, Hu, Z.eqb_refl. reflexivity. Qed.

Lemma check_permission_group m p u :
  us_admin u = false -> m_uid m <> us_uid u -> m_gid m = us_gid u ->
  check_permission m p u = N.eqb (N.land (N.shiftr (N.land (m_mode m) 65535) 3) (N.land p 7)) (N.land p 7).
Proof.
  intros Ha Hu Hg. unfold check_permission. rewrite Ha, Hg, Z.eqb_refl.
  destruct (Z.eqb_spec (m_uid m) (us_uid u)); [contradiction|]. reflexivity.
Qed.

Lemma check_permission_other m p u :
  us_admin u = false -> m_uid m <> us_uid u -> m_gid m <> us_gid u ->
  check_permission m p u = N.eqb (N.land (N.land (m_mode m) 65535) (N.land p 7)) (N.land p 7).
Proof.
  intros Ha Hu Hg. unfold check_permission. rewrite Ha.
  destruct (Z.eqb_spec (m_uid m) (us_uid u)); [contradiction|].
  destruct (Z.eqb_spec (m_gid m) (us_gid u)); [contradiction|]. reflexivity.
Qed.
