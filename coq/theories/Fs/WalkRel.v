(* The walk bridge for RELATIVE paths (C01/C04): the implementation resolves Abs(cwd, p) lexically from the view's
   root, the kernel resolves p component-wise from the working-directory NODE.  They agree when the working directory
   string is a directory walk "/b1/../bk" (link-free, every directory searchable by the caller - unconditional for the
   administrator) from the root to that node: the leading ".."s of a clean relative path pop the last names of the
   cwd string lexically, the kernel goes up physically; then both stand on the same clean path ([resync] of WalkSym.v).
   (MemFS re-tests the search permission of every ancestor of the cwd, the kernel does not: that is why the walk to
   the cwd must be searchable for the caller.) *)
From Avfs Require Import Base PathModel PathSpec PathProofs PathCleanProofs PathIterProofs.
From Avfs Require Import MemFS MemFile World Posix WalkBridge WalkSym WalkBudget WalkReadlink.

Section Rel.
  Variables (h : heap) (v : view).
  Hypothesis Hos : v_os v = Linux.
  Notation u := (v_user v).
  Notation root := (v_root v).
  Hypothesis Hwf : walk_wf h.
  Hypothesis Hlc : links_clean h.
  Hypothesis Hrd : node_is_dir h root = true.
  Hypothesis Hrp : kperm h root 1 u = true.
  Variable slm : slmode.
  Notation follow := (negb (slmode_eqb slm SlLstat)).

  (* the working directory: a directory walk [bs] from the root (link-free, searchable all along) to the node [cwdn] *)
  Variables (bs : list str) (cwdn : nat).
  Hypothesis Hbs : Forall good_comp bs.
  Hypothesis Hcwd : dwalk h u root bs = Some cwdn.

  (* k leading "..", then proper names *)
  Theorem rel_bridge (k : nat) (names : list str) (fi fk : nat) :
    Forall good_comp names -> repeat DD k ++ names <> [] ->
    let cs' := firstn (length bs - k) bs ++ names in
    let K := kwalk fk h u root false follow cwdn (repeat DD k ++ names) 0 false in
    let r := search_loop fi h v slm root root (pi_new Linux (abs_path cs')) 0 None in
    K <> WErr EFUEL -> sr_err r <> EFuel ->
    walk_relx h u root (precise_of slm) r K.
  Proof.
    intros Hng Hne cs' K r Hk Hnf. subst K r.
    assert (Hgb' : Forall good_comp (firstn (length bs - k) bs)) by (apply firstn_good; exact Hbs).
    assert (Hg' : Forall good_comp cs') by (apply Forall_app; split; assumption).
    assert (Hok' : Forall comp_ok cs') by (apply Forall_comp_ok_of; exact Hg').
    destruct names as [|c0 w].
    - (* only ".."s: the walk ends on the last one *)
      destruct k as [|k]; [cbn in Hne; congruence|]. rewrite app_nil_r in *.
      destruct (kwalk_dotdots_end h u root Hwf Hrd Hrp k bs cwdn fk follow 0 false Hcwd) as (p & Hp1 & Hp2).
      pose proof (kwalk_mono (S k) fk h u root false follow cwdn (repeat DD (S k)) 0 false _ eq_refl Hk) as Hm.
      change (S k + fk) with (S (k + fk)) in Hm. rewrite Hp2 in Hm. rewrite <- Hm.
      pose proof (search_loop_mono (S (length cs')) fi h v slm root root _ 0 None _ eq_refl Hnf) as Hm2.
      rewrite <- Hm2. unfold cs' in *. rewrite app_nil_r in *.
      destruct (search_rewalk_full h v Hos _ root p [] _ fi slm root _ 0 None eq_refl Hok' (pi_new_before _) Hp1 Hrp)
        as (R1 & R2 & R3 & R4 & R5).
      cbn. change (S (length (firstn (length bs - S k) bs)) + fi) with (S (length (firstn (length bs - S k) bs) + fi)).
      split; [exact R1|]. split; [exact R2|].
      split; [apply node_is_dir_valid; exact (proj1 (dwalk_end_dir _ _ _ _ _ Hp1 Hrd Hrp))|].
      split; [exact R3|]. split; [intros _; apply R4; reflexivity|]. split; [intros [=]|].
      intros _ _. exists (firstn (length bs - S k) bs). split; [exact Hgb'|]. split; [exact Hp1|exact (R5 eq_refl)].
    - assert (Hw' : c0 :: w <> []) by discriminate.
      destruct (kwalk_dotdots h u root Hwf Hrd Hrp k bs cwdn (c0 :: w) fk false follow 0 false Hw' Hcwd)
        as (cur' & Hc1 & Hc2).
      pose proof (kwalk_mono k fk h u root false follow cwdn (repeat DD k ++ c0 :: w) 0 false _ eq_refl Hk) as Hm.
      rewrite Hc2 in Hm. rewrite <- Hm in Hk |- *.
      assert (IH : sync_goal h v slm fk) by (apply sym_bridge_at; assumption).
      apply (resync h v Hos Hrd Hrp slm fk IH fi cs' [] cs' (firstn (length bs - k) bs) (c0 :: w) root cur'
               _ 0 None _); auto.
      all: try apply pi_new_before; try (unfold MAXSYMLINKS; lia).
  Qed.

  (* "." *)
  Theorem rel_bridge_dot (fi fk : nat) :
    let K := kwalk fk h u root false follow cwdn [[DOT]] 0 false in
    let r := search_loop fi h v slm root root (pi_new Linux (abs_path bs)) 0 None in
    K <> WErr EFUEL -> sr_err r <> EFuel ->
    walk_relx h u root (precise_of slm) r K.
  Proof.
    intros K r Hk Hnf. subst K r. destruct fk as [|fk]; [cbn [kwalk] in Hk; congruence|].
    destruct (dwalk_end_dir _ _ _ _ _ Hcwd Hrd Hrp) as (Hd & Hp).
    rewrite kwalk_S, Hd, Hp. cbn [negb andb is_nil]. cbv zeta. change (str_eqb [DOT] DOTS) with true. cbv iota.
    assert (Hok : Forall comp_ok bs) by (apply Forall_comp_ok_of; exact Hbs).
    pose proof (search_loop_mono (S (length bs)) fi h v slm root root _ 0 None _ eq_refl Hnf) as Hm2.
    rewrite <- Hm2.
    destruct (search_rewalk_full h v Hos bs root cwdn [] bs fi slm root _ 0 None eq_refl Hok (pi_new_before _) Hcwd Hrp)
      as (R1 & R2 & R3 & R4 & R5).
    cbn. change (S (length bs) + fi) with (S (length bs + fi)).
    split; [exact R1|]. split; [exact R2|]. split; [apply node_is_dir_valid; exact Hd|].
    split; [exact R3|]. split; [intros _; apply R4; reflexivity|]. split; [intros [=]|].
    intros _ _. exists bs. split; [exact Hbs|]. split; [exact Hcwd|exact (R5 eq_refl)].
  Qed.
End Rel.

(* ---- at the level of the two entry points -------------------------------------------------------------------------- *)
Lemma path_comps_rel (k : nat) (names : list str) :
  Forall good_comp names -> repeat DD k ++ names <> [] ->
  path_comps (intercalate [SLASH] (repeat DD k ++ names)) = repeat DD k ++ names.
Proof.
  intros Hg Hne. destruct (rel_shape_facts k names Hg Hne) as (Hc & _). cbv zeta in Hc.
  unfold path_comps. rewrite Hc. apply filter_ne_id. apply rel_comps_ok. exact Hg.
Qed.

Theorem sym_bridge_lookup_rel_x (s : fsys) (sv : sview) (slm : slmode) (bs : list str) (x : str) :
  let v := sv_view sv in
  let h := f_heap s in
  let p := clean Linux x in
  v_os v = Linux -> walk_wf h -> links_clean h -> node_is_dir h (v_root v) = true ->
  kperm h (v_root v) 1 (v_user v) = true ->
  v_cwd v = abs_path bs -> Forall good_comp bs -> dwalk h (v_user v) (v_root v) bs = Some (sv_cwd sv) ->
  is_abs Linux p = false ->
  let K := klookup s sv false (follow_of slm) p in
  let r := search_node s v p slm in
  K <> WErr EFUEL -> sr_err r <> EFuel ->
  walk_relx h (v_user v) (v_root v) (precise_of slm) r K.
Proof.
  intros v h p Hos Hwf Hlc Hrd Hrp Hcwd Hbs Hw Hrel K r. subst K r.
  unfold search_node. rewrite Hos, Hcwd. unfold abs. rewrite Hrel, (join_abs_any _ Hbs).
  change (Nat.ltb 0 (pi_vnl (pi_new Linux (abs_path (norm true (rev bs) (path_comps p)))))) with false. cbv iota.
  destruct (clean_shape_clean x) as [lc _ E|k names Hng Hne E|E]; fold p in E.
  - rewrite E in Hrel. discriminate Hrel.
  - destruct (rel_shape_facts k names Hng Hne) as (_ & Hkc & _ & Hka & Hkt & Hnil). cbv zeta in Hkc, Hka, Hkt, Hnil.
    rewrite <- E in Hkc, Hka, Hkt, Hnil.
    unfold klookup. destruct p as [|c0 p'] eqn:Ep; [discriminate Hnil|]. rewrite <- Ep in *. rewrite Hka, Hkc, Hkt.
    rewrite E, (path_comps_rel k names Hng Hne), norm_pop by exact Hbs.
    rewrite norm_goods0 by exact Hng. rewrite rev_involutive.
    apply (rel_bridge (f_heap s) (sv_view sv) Hos Hwf Hlc Hrd Hrp slm bs (sv_cwd sv) Hbs Hw k names); assumption.
  - rewrite E. change (path_comps [DOT]) with [[DOT]]. rewrite norm_dot by reflexivity. cbn [norm]. rewrite rev_involutive.
    unfold klookup. change (kabs [DOT]) with false. change (kcomps [DOT]) with [[DOT]]. change (ktrailing [DOT]) with false.
    cbv iota.
    apply rel_bridge_dot; assumption.
Qed.

Theorem sym_bridge_lookup_rel (s : fsys) (sv : sview) (slm : slmode) (bs : list str) (x : str) :
  let v := sv_view sv in
  let h := f_heap s in
  let p := clean Linux x in
  v_os v = Linux -> walk_wf h -> links_clean h -> node_is_dir h (v_root v) = true ->
  kperm h (v_root v) 1 (v_user v) = true ->
  v_cwd v = abs_path bs -> Forall good_comp bs -> dwalk h (v_user v) (v_root v) bs = Some (sv_cwd sv) ->
  is_abs Linux p = false ->
  let K := klookup s sv false (follow_of slm) p in
  let r := search_node s v p slm in
  K <> WErr EFUEL -> sr_err r <> EFuel ->
  walk_rel h (v_user v) (v_root v) (precise_of slm) r K.
Proof.
  intros v h p H1 H2 H3 H4 H5 H6 H7 H8 H9 K r H10 H11. apply walk_relx_rel.
  apply (sym_bridge_lookup_rel_x s sv slm bs x); assumption.
Qed.

(* non-vacuity: the example tree of WalkSym.v, working directory "/d/e" (node 2), paths "../up" (a link to "..",
   followed: the root), "top/e/f" (through "../../d"), ".", ".." *)
Module WalkRelExamples.
  Import WalkSymExamples WalkSymNonVacuity.
  Definition cwdv : view :=
    {| v_root := 0; v_cwd := abs_path [s_d; s_e]; v_user := alice; v_umask := 18; v_os := Linux; v_idm := true |}.
  Definition cwdsv : sview := {| sv_view := cwdv; sv_cwd := 2 |}.
  Definition relp (l : list str) : str := intercalate [SLASH] l.

  Example rel_walks :
    (let r := search_node tree_fs cwdv (relp [DD; s_up]) SlStat in (sr_err r, sr_child r)) = (EFileExists, Some 0)
    /\ klookup tree_fs cwdsv false true (relp [DD; s_up]) = WNode 0 LDotDot DD 0
    /\ (let r := search_node tree_fs cwdv (relp [s_top; s_e; s_f]) SlStat in (sr_err r, sr_child r)) = (EFileExists, Some 3)
    /\ klookup tree_fs cwdsv false true (relp [s_top; s_e; s_f]) = WNode 2 LNorm s_f 3
    /\ (let r := search_node tree_fs cwdv [DOT] SlStat in (sr_err r, sr_child r)) = (EFileExists, Some 2)
    /\ klookup tree_fs cwdsv false true [DOT] = WNode 2 LDot [DOT] 2
    /\ (let r := search_node tree_fs cwdv DD SlLstat in (sr_err r, sr_child r)) = (EFileExists, Some 1)
    /\ klookup tree_fs cwdsv false false DD = WNode 1 LDotDot DD 1.
  Proof. vm_compute. repeat split; reflexivity. Qed.

  Example rel_instance :
    walk_rel tree alice 0 true
      (search_node tree_fs cwdv (relp [s_top; s_e; s_f]) SlEval)
      (klookup tree_fs cwdsv false true (relp [s_top; s_e; s_f])).
  Proof.
    change (relp [s_top; s_e; s_f]) with (clean Linux (relp [s_top; s_e; s_f])).
    apply (sym_bridge_lookup_rel tree_fs cwdsv SlEval [s_d; s_e] (relp [s_top; s_e; s_f])).
    - reflexivity.
    - exact tree_wf.
    - exact tree_links_clean.
    - reflexivity.
    - reflexivity.
    - reflexivity.
    - repeat constructor; try discriminate; intros x [<-|[]]; discriminate.
    - reflexivity.
    - reflexivity.
    - vm_compute; discriminate.
    - vm_compute; discriminate.
  Qed.
End WalkRelExamples.
