(* C01: calls that cannot move the working directory.  [dext h h']: every directory of [h] is a directory of [h'] and keeps
   its entries that lead to directories.  Directory walks of the administrator survive ([dwalk_dext]); every specification
   call that only creates entries, changes attributes or contents, or removes / moves NON-directory entries is [dext]. *)
From Avfs Require Import Base BaseProofs PathModel PathSpec PathProofs PathCleanProofs PathIterProofs.
From Avfs Require Import MemFS MemFile World Posix Inv.
From Avfs Require Import WalkBridge WalkSym WalkBudget WalkReadlink WalkRel DacLemmas StepEq StepInv HeapEq StepOpen StepNamePath StepMkdirAll.

Definition dext (h h' : heap) : Prop :=
  forall d, node_is_dir h d = true ->
    node_is_dir h' d = true
    /\ forall n c, alookup str_eqb n (children h d) = Some c -> node_is_dir h c = true -> alookup str_eqb n (children h' d) = Some c.

Lemma dext_refl (h : heap) : dext h h.
Proof. intros d Hd. auto. Qed.

Lemma dext_trans (a b c : heap) : dext a b -> dext b c -> dext a c.
Proof.
  intros H1 H2 d Hd. destruct (H1 d Hd) as (D1 & L1). destruct (H2 d D1) as (D2 & L2). split; [exact D2|].
  intros n x Hl Hx. apply L2; [apply L1; assumption|]. exact (proj1 (H1 x Hx)).
Qed.

Lemma dwalk_dext (h h' : heap) (u : user) : us_admin u = true -> dext h h' ->
  forall ns d e, node_is_dir h d = true -> dwalk h u d ns = Some e -> dwalk h' u d ns = Some e.
Proof.
  intros Ha He. induction ns as [|n ns IH]; intros d e Hd Hw; [exact Hw|].
  apply dwalk_cons_inv in Hw as (c & H1 & H2 & H3 & H4). cbn [dwalk].
  destruct (He d Hd) as (_ & L). rewrite (L n c H1 H2).
  destruct (He c H2) as (D & _). rewrite D.
  destruct (WalkBridge.node_is_dir_get _ _ D) as (ch & m & Hg). rewrite (kperm_admin _ _ _ 1 _ Ha Hg). apply IH; assumption.
Qed.

(* ---- the primitives ---------------------------------------------------------------------------------------------------------------------- *)
Lemma nid_get (h : heap) (d : nat) : node_is_dir h d = true -> exists ch m, get h d = Some (NDir ch m).
Proof. exact (WalkBridge.node_is_dir_get h d). Qed.

Lemma dext_pointwise (h h' : heap) :
  (forall d ch m, get h d = Some (NDir ch m) ->
     exists ch' m', get h' d = Some (NDir ch' m')
                    /\ forall n c, alookup str_eqb n ch = Some c -> node_is_dir h c = true -> alookup str_eqb n ch' = Some c) ->
  dext h h'.
Proof.
  intros H d Hd. destruct (nid_get _ _ Hd) as (ch & m & Hg). destruct (H d ch m Hg) as (ch' & m' & Hg' & L).
  split; [unfold node_is_dir; rewrite Hg'; reflexivity|]. unfold children. rewrite Hg, Hg'. exact L.
Qed.

Lemma dext_app (h : heap) (x : node) : dext h (h ++ [x]).
Proof.
  apply dext_pointwise. intros d ch m Hg. exists ch, m. split; [|auto].
  rewrite get_app. pose proof (get_lt _ _ _ Hg) as Hlt. apply Nat.ltb_lt in Hlt. rewrite Hlt. exact Hg.
Qed.

(* a node is replaced by one of the same kind; a directory keeps its directory entries *)
Lemma dext_upd (h : heap) (i : nat) (y x : node) :
  get h i = Some y ->
  match y, x with
  | NDir ch _, NDir ch' _ => forall n c, alookup str_eqb n ch = Some c -> node_is_dir h c = true -> alookup str_eqb n ch' = Some c
  | NDir _ _, _ => False
  | _, NDir _ _ => False
  | _, _ => True
  end ->
  dext h (upd h i x).
Proof.
  intros Hg Hk. pose proof (get_lt _ _ _ Hg) as Hlt. apply Nat.ltb_lt in Hlt.
  apply dext_pointwise. intros d ch m Hd. rewrite get_upd. destruct (Nat.eqb_spec d i) as [-> |_]; [|eauto].
  rewrite Hlt. rewrite Hg in Hd. injection Hd as ->. destruct x as [ch' m'| |]; try contradiction. eauto.
Qed.

Lemma dext_upd_meta (h : heap) (i : nat) (y : node) (m : meta) : get h i = Some y -> dext h (upd h i (set_meta y m)).
Proof. intros Hg. apply (dext_upd h i y _ Hg). destruct y; cbn [set_meta]; auto. Qed.

(* an entry is added under a name that was free, or led to a non-directory *)
Lemma dext_add_child (h : heap) (p : nat) (n : str) (c : nat) :
  (forall c0, alookup str_eqb n (children h p) = Some c0 -> node_is_dir h c0 = false) -> dext h (add_child h p n c).
Proof.
  intros Hfree. unfold add_child. destruct (get h p) as [[ch m| |]|] eqn:Hg; try apply dext_refl.
  apply (dext_upd h p _ _ Hg). intros k x Hl Hx. destruct (str_eqb_spec k n) as [-> | Hne].
  - unfold children in Hfree. rewrite Hg in Hfree. rewrite (Hfree x Hl) in Hx. discriminate.
  - rewrite alookup_aset_other by exact Hne. exact Hl.
Qed.

(* an entry that leads to a non-directory is removed *)
Lemma dext_remove_child (h : heap) (p : nat) (n : str) :
  (forall c0, alookup str_eqb n (children h p) = Some c0 -> node_is_dir h c0 = false) -> dext h (remove_child h p n).
Proof.
  intros Hnd. unfold remove_child. destruct (get h p) as [[ch m| |]|] eqn:Hg; try apply dext_refl.
  apply (dext_upd h p _ _ Hg). intros k x Hl Hx. destruct (str_eqb_spec k n) as [-> | Hne].
  - unfold children in Hnd. rewrite Hg in Hnd. rewrite (Hnd x Hl) in Hx. discriminate.
  - rewrite alookup_aremove_other by exact Hne. exact Hl.
Qed.

Lemma dext_delete_nondir (h : heap) (c : nat) : node_is_dir h c = false -> dext h (delete_node h c).
Proof.
  intros Hnd. unfold delete_node. unfold node_is_dir in Hnd. destruct (get h c) as [[| |]|] eqn:Hg; try discriminate; try apply dext_refl.
  - apply (dext_upd h c _ _ Hg). exact I.
  - apply (dext_upd h c _ _ Hg). exact I.
Qed.

Lemma dext_release_nondir (h : heap) (c : nat) : node_is_dir h c = false -> dext h (release h c).
Proof.
  intros Hnd. unfold release. destruct (get h c) as [[| |]|]; try (apply dext_delete_nondir; exact Hnd).
  destruct (find_parent h 0 c); [apply dext_refl|apply dext_delete_nondir; exact Hnd].
Qed.

Lemma dext_alloc (h : heap) (p : nat) (n : str) (x : node) :
  alookup str_eqb n (children h p) = None -> node_children x = [] -> dext h (add_child (h ++ [x]) p n (length h)).
Proof.
  intros Hfr Hx. eapply dext_trans; [apply (dext_app h x)|]. apply dext_add_child. intros c0 Hl.
  rewrite children_app in Hl. destruct (Nat.ltb p (length h)); [congruence|].
  destruct (Nat.eqb p (length h)); [rewrite Hx in Hl|]; discriminate.
Qed.

Lemma nid_add_child (h : heap) (p : nat) (n : str) (c i : nat) : node_is_dir (add_child h p n c) i = node_is_dir h i.
Proof.
  unfold node_is_dir. rewrite get_add_child_eq. destruct (Nat.eqb_spec i p) as [-> |_]; [|reflexivity].
  destruct (get h p) as [[| |]|]; reflexivity.
Qed.

Lemma nid_remove_child (h : heap) (p : nat) (n : str) (i : nat) : node_is_dir (remove_child h p n) i = node_is_dir h i.
Proof.
  unfold node_is_dir. rewrite get_remove_child_eq. destruct (Nat.eqb_spec i p) as [-> |_]; [|reflexivity].
  destruct (get h p) as [[| |]|]; reflexivity.
Qed.

Lemma get_add_child_file (h : heap) (p : nat) (n : str) (c i : nat) d k id m :
  get h i = Some (NFile d k id m) -> get (add_child h p n c) i = Some (NFile d k id m).
Proof.
  intros Hg. rewrite get_add_child_eq. destruct (Nat.eqb_spec i p) as [<- |_]; [rewrite Hg; reflexivity|exact Hg].
Qed.

Lemma may_delete_nondir (h : heap) (d c : nat) (u : user) : may_delete h d c false u = None -> node_is_dir h c = false.
Proof.
  unfold may_delete. destruct (negb (kperm h d 3 u)); [discriminate|]. destruct (sticky_refuses h d c u); [discriminate|].
  destruct (node_is_dir h c); [discriminate|reflexivity].
Qed.

(* ---- the specification's calls --------------------------------------------------------------------------------------------------------------- *)
Ltac dx :=
  first [ apply dext_refl
        | unfold alloc_child; cbn [fst f_heap]; apply dext_alloc; [assumption|reflexivity]
        | eapply dext_upd; [eassumption|exact I]
        | eapply dext_upd_meta; eassumption ].

Section Calls.
  Variables (s : fsys) (sv : sview).
  Notation h := (f_heap s).

  Lemma dext_k_mkdir p perm : dext h (f_heap (fst (k_mkdir s sv p perm))).
  Proof. unfold k_mkdir. crush; dx. Qed.

  Lemma dext_k_symlink t p : dext h (f_heap (fst (k_symlink s sv t p))).
  Proof. unfold k_symlink. crush; dx. Qed.

  Lemma dext_k_chmod p mode : dext h (f_heap (fst (k_chmod s sv p mode))).
  Proof. unfold k_chmod. crush; dx. Qed.

  Lemma dext_k_chown follow p uid gid : dext h (f_heap (fst (k_chown follow s sv p uid gid))).
  Proof. unfold k_chown. crush; dx. Qed.

  Lemma dext_k_truncate p size : dext h (f_heap (fst (k_truncate s sv p size))).
  Proof. unfold k_truncate. crush; dx. Qed.

  Lemma dext_k_open p flag perm : dext h (f_heap (fst (k_open s sv p flag perm))).
  Proof.
    unfold k_open. destruct (decode_flags flag) as [acc creat excl trunc append]. cbv zeta beta. crush; try dx.
    match goal with
    | Hk : klookup s sv false ?fl p = WNeg ?par ?nm _, E : alloc_child _ _ _ _ _ = (_, _) |- _ =>
        pose proof (np_final s sv p fl) as Hfin; rewrite Hk in Hfin; destruct Hfin as (Hfr & _);
        unfold alloc_child in E; inversion E; subst; clear E; cbn [f_heap]; apply dext_alloc; [exact Hfr|reflexivity]
    end.
  Qed.

  Lemma dext_k_link phl o p : dext h (f_heap (fst (k_link phl s sv o p))).
  Proof.
    unfold k_link. crush; try dx.
    all: try (apply dext_add_child; intros c0 E0; congruence).
    match goal with |- dext _ (upd (add_child _ ?np ?nm ?oc) _ _) =>
      apply (dext_trans _ (add_child h np nm oc)); [apply dext_add_child; intros c0 E0; congruence|];
      eapply dext_upd; [apply get_add_child_file; eassumption|exact I] end.
  Qed.

  Lemma dext_k_unlink p : dext h (f_heap (fst (k_unlink s sv p))).
  Proof.
    unfold k_unlink. crush; try dx.
    match goal with Hm : may_delete _ ?par ?c false _ = None, Hl : alookup _ ?name _ = Some ?c |- _ =>
      pose proof (may_delete_nondir _ _ _ _ Hm) as Hnd;
      eapply dext_trans; [apply (dext_remove_child h par name); intros c0 E0; congruence|];
      apply dext_release_nondir; rewrite nid_remove_child; exact Hnd end.
  Qed.
End Calls.

Lemma dext_go_write_file (s : fsys) (sv : sview) (p : str) (data : list N) (perm : N) :
  dext (f_heap s) (f_heap (fst (go_write_file s sv p data perm))).
Proof.
  unfold go_write_file. pose proof (dext_k_open s sv p (O_WRONLY + O_CREATE + O_TRUNC) perm) as H1.
  destruct (k_open s sv p (O_WRONLY + O_CREATE + O_TRUNC) perm) as [s1 [e|c]]; cbn [fst] in *; [apply dext_refl|].
  destruct (get (f_heap s1) c) as [[| |]|] eqn:Hg; cbn [fst f_heap with_heap]; try exact H1.
  eapply dext_trans; [exact H1|]. eapply dext_upd; [exact Hg|exact I].
Qed.

Lemma dext_go_mkdir_all (sv : sview) (perm : N) : forall (f : nat) (s : fsys) (p : str),
  dext (f_heap s) (f_heap (fst (go_mkdir_all f s sv p perm))).
Proof.
  induction f as [|f IH]; intros s p; [apply dext_refl|]. rewrite go_mkdir_all_S.
  destruct (k_stat true s sv p); try (destruct (has _ _); apply dext_refl).
  all: cbv zeta;
    assert (H1 : dext (f_heap s) (f_heap (fst (match parent_prefix p with
                                                | [] => (s, SOk)
                                                | _ :: _ => go_mkdir_all f s sv (parent_prefix p) perm
                                                end)))) by (destruct (parent_prefix p); [apply dext_refl|apply IH]);
    destruct (match parent_prefix p with [] => (s, SOk) | _ :: _ => go_mkdir_all f s sv (parent_prefix p) perm end) as [s1 r1];
    cbn [fst] in H1; destruct r1; cbn [fst]; try exact H1;
    pose proof (dext_k_mkdir s1 sv p perm) as H2; destruct (k_mkdir s1 sv p perm) as [s2 r2]; cbn [fst] in H2;
    destruct r2; cbn [fst]; try (eapply dext_trans; eassumption);
    destruct (k_stat false s1 sv p); try (destruct (has _ _)); cbn [fst]; exact H1.
Qed.

(* Remove of something that is not a directory *)
Definition target_nondir (s : fsys) (sv : sview) (p : str) : Prop :=
  forall par name md c, klookup s sv true false p = WParent par LNorm name md ->
                        alookup str_eqb name (children (f_heap s) par) = Some c -> node_is_dir (f_heap s) c = false.

Lemma k_rmdir_nondir (s : fsys) (sv : sview) (p : str) : target_nondir s sv p -> fst (k_rmdir s sv p) = s.
Proof.
  intros Hnd. unfold k_rmdir, target_nondir in *. crush; try reflexivity. exfalso.
  match goal with Hl : alookup _ ?name (children _ ?par) = Some ?c, Hm : may_delete _ ?par ?c true _ = None |- _ =>
    pose proof (Hnd _ _ _ _ eq_refl Hl) as Hc; unfold may_delete in Hm; rewrite Hc in Hm;
    destruct (negb (kperm (f_heap s) par 3 (v_user (sv_view sv)))); [discriminate|];
    destruct (sticky_refuses (f_heap s) par c (v_user (sv_view sv))); discriminate end.
Qed.

Lemma dext_go_remove (s : fsys) (sv : sview) (p : str) :
  target_nondir s sv p -> dext (f_heap s) (f_heap (fst (go_remove s sv p))).
Proof.
  intros Hnd. unfold go_remove. pose proof (dext_k_unlink s sv p) as H1. pose proof (k_rmdir_nondir s sv p Hnd) as H2.
  destruct (k_unlink s sv p) as [s1 r1]. destruct (k_rmdir s sv p) as [s2 r2]. cbn [fst] in *. subst s2.
  destruct r1; cbn [fst]; try exact H1; try apply dext_refl. destruct r2; cbn [fst]; apply dext_refl.
Qed.

(* ---- one step of the specification ------------------------------------------------------------------------------------------------------------ *)
Definition cwd_keeping (sw : sworld) (c : call) : Prop :=
  match c with
  | CMkdir _ _ _ | CMkdirAll _ _ _ | COpenFile _ _ _ _ | CLink _ _ _ | CSymlink _ _ _ | CReadlink _ _ | CTruncate _ _ _
  | CChmod _ _ _ | CChown _ _ _ _ | CLchown _ _ _ _ | CChtimes _ _ | CStat _ _ | CLstat _ _ | CReadDir _ _ | CReadFile _ _
  | CWriteFile _ _ _ _ => True
  | CRemove _ p => target_nondir (sw_fs sw) (sw_sv sw) p
  | _ => False
  end.

Theorem dext_spec_step (sw : sworld) (c : call) : cwd_keeping sw c ->
  dext (f_heap (sw_fs sw)) (f_heap (sw_fs (fst (spec_step true sw c)))).
Proof.
  intros Hk. destruct c; try contradiction; try apply dext_refl; unfold spec_step; cbn [fst sw_fs].
  - apply dext_k_mkdir.
  - apply dext_go_mkdir_all.
  - pose proof (dext_k_open (sw_fs sw) (sw_sv sw) p flag perm) as H1.
    destruct (k_open (sw_fs sw) (sw_sv sw) p flag perm) as [s1 [e|c]]; exact H1.
  - apply dext_go_remove. exact Hk.
  - apply dext_k_link.
  - apply dext_k_symlink.
  - apply dext_k_truncate.
  - apply dext_k_chmod.
  - apply dext_k_chown.
  - apply dext_k_chown.
  - apply dext_go_write_file.
Qed.
