(* C01, last sentence: "A path that is not lexically clean behaves exactly as its Clean() form".
   Every MemFS call resolves its path with searchNode, which first makes it absolute with Abs - and Abs
   cleans.  With Clean idempotent (PathCleanProofs.clean_idempotent, for ALL byte strings) the walk and
   therefore every call below is invariant under cleaning an absolute path argument. *)
From Avfs Require Import Base PathModel PathSpec PathCleanProofs MemFS MemFile World.

Lemma clean_abs_is_abs p : is_abs Linux p = true -> is_abs Linux (clean Linux p) = true.
Proof. intros H. destruct (clean_rooted p H) as [cs [-> _]]. reflexivity. Qed.

Lemma abs_clean_linux cur p : is_abs Linux p = true -> abs Linux cur (clean Linux p) = abs Linux cur p.
Proof.
  intros Habs. unfold abs. rewrite Habs, (clean_abs_is_abs p Habs). apply clean_idempotent.
Qed.

Lemma search_unclean s v p slm :
  v_os v = Linux -> is_abs Linux p = true -> search_node s v (clean Linux p) slm = search_node s v p slm.
Proof.
  intros Hos Habs. unfold search_node. rewrite Hos, (abs_clean_linux (v_cwd v) p Habs). reflexivity.
Qed.

Lemma abs_nonempty p : is_abs Linux p = true -> p <> [].
Proof. intros H ->. discriminate H. Qed.

Section Calls.
  Variables (s : fsys) (v : view) (p : str).
  Hypothesis Hos : v_os v = Linux.
  Hypothesis Habs : is_abs Linux p = true.

  Lemma mkdir_unclean perm : mkdir s v (clean Linux p) perm = mkdir s v p perm.
  Proof.
    unfold mkdir. rewrite (search_unclean s v p SlLstat Hos Habs).
    pose proof (clean_abs_is_abs p Habs) as Hc.
    destruct p as [|c r]; [discriminate Habs|].
    destruct (clean Linux (c :: r)) eqn:E; [discriminate Hc|]. reflexivity.
  Qed.

  Lemma mkdir_all_unclean perm : mkdir_all s v (clean Linux p) perm = mkdir_all s v p perm.
  Proof. unfold mkdir_all. rewrite (search_unclean s v p SlEval Hos Habs). reflexivity. Qed.

  Lemma remove_unclean : remove s v (clean Linux p) = remove s v p.
  Proof. unfold remove. rewrite (search_unclean s v p SlLstat Hos Habs). reflexivity. Qed.

  Lemma remove_all_unclean : remove_all s v (clean Linux p) = remove_all s v p.
  Proof.
    unfold remove_all. rewrite (search_unclean s v p SlLstat Hos Habs).
    pose proof (clean_abs_is_abs p Habs) as Hc.
    destruct p as [|c r]; [discriminate Habs|].
    destruct (clean Linux (c :: r)) eqn:E; [discriminate Hc|]. reflexivity.
  Qed.

  Lemma readlink_unclean : readlink s v (clean Linux p) = readlink s v p.
  Proof. unfold readlink. rewrite (search_unclean s v p SlLstat Hos Habs). reflexivity. Qed.

  Lemma truncate_unclean size : truncate s v (clean Linux p) size = truncate s v p size.
  Proof. unfold truncate. rewrite (search_unclean s v p SlEval Hos Habs). reflexivity. Qed.

  Lemma chmod_unclean mode : chmod s v (clean Linux p) mode = chmod s v p mode.
  Proof. unfold chmod. rewrite (search_unclean s v p SlEval Hos Habs). reflexivity. Qed.

  Lemma chown_unclean slm uid gid : chown_gen slm s v (clean Linux p) uid gid = chown_gen slm s v p uid gid.
  Proof. unfold chown_gen. rewrite (search_unclean s v p slm Hos Habs). reflexivity. Qed.

  Lemma chtimes_unclean : chtimes s v (clean Linux p) = chtimes s v p.
  Proof. unfold chtimes. rewrite (search_unclean s v p SlEval Hos Habs). reflexivity. Qed.

  Lemma chdir_unclean : chdir s v (clean Linux p) = chdir s v p.
  Proof. unfold chdir. rewrite (search_unclean s v p SlEval Hos Habs). reflexivity. Qed.

  Lemma eval_symlinks_unclean : eval_symlinks s v (clean Linux p) = eval_symlinks s v p.
  Proof. unfold eval_symlinks. rewrite (search_unclean s v p SlEval Hos Habs). reflexivity. Qed.

  Lemma sub_unclean : sub s v (clean Linux p) = sub s v p.
  Proof. unfold sub. rewrite (search_unclean s v p SlEval Hos Habs). reflexivity. Qed.

  (* two-path calls: both arguments *)
  Variable q : str.
  Hypothesis Hq : is_abs Linux q = true.

  Lemma link_unclean : link s v (clean Linux p) (clean Linux q) = link s v p q.
  Proof.
    unfold link. rewrite (search_unclean s v p SlLstat Hos Habs), (search_unclean s v q SlLstat Hos Hq). reflexivity.
  Qed.

  Lemma symlink_newname_unclean t : symlink s v t (clean Linux q) = symlink s v t q.
  Proof. unfold symlink. rewrite (search_unclean s v q SlLstat Hos Hq). reflexivity. Qed.
End Calls.

Lemma unclean_calls : forall s v p, v_os v = Linux -> is_abs Linux p = true ->
  (forall perm, mkdir s v (clean Linux p) perm = mkdir s v p perm)
  /\ (forall perm, mkdir_all s v (clean Linux p) perm = mkdir_all s v p perm)
  /\ remove s v (clean Linux p) = remove s v p
  /\ remove_all s v (clean Linux p) = remove_all s v p
  /\ readlink s v (clean Linux p) = readlink s v p
  /\ (forall size, truncate s v (clean Linux p) size = truncate s v p size)
  /\ (forall mode, chmod s v (clean Linux p) mode = chmod s v p mode)
  /\ (forall slm uid gid, chown_gen slm s v (clean Linux p) uid gid = chown_gen slm s v p uid gid)
  /\ chtimes s v (clean Linux p) = chtimes s v p
  /\ chdir s v (clean Linux p) = chdir s v p
  /\ eval_symlinks s v (clean Linux p) = eval_symlinks s v p
  /\ (forall q, is_abs Linux q = true -> link s v (clean Linux p) (clean Linux q) = link s v p q)
  /\ (forall t, symlink s v t (clean Linux p) = symlink s v t p).
Proof.
  intros s v p Hos Habs.
  split; [intros; apply mkdir_unclean; assumption|].
  split; [intros; apply mkdir_all_unclean; assumption|].
  split; [apply remove_unclean; assumption|].
  split; [apply remove_all_unclean; assumption|].
  split; [apply readlink_unclean; assumption|].
  split; [intros; apply truncate_unclean; assumption|].
  split; [intros; apply chmod_unclean; assumption|].
  split; [intros; apply chown_unclean; assumption|].
  split; [apply chtimes_unclean; assumption|].
  split; [apply chdir_unclean; assumption|].
  split; [apply eval_symlinks_unclean; assumption|].
  split; [intros; apply link_unclean; assumption|].
  intros; apply symlink_newname_unclean; assumption.
Qed.
