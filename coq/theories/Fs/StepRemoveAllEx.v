(* C01: RemoveAll - the hypotheses of StepRemoveAll are satisfiable, and the equivalence [geq] is needed: on the example
   tree RemoveAll "/d" leaves different heaps (MemFS blanks the targets of the two links below /d, the specification keeps
   them) with equal snapshots. *)
From Avfs Require Import Base BaseProofs PathModel PathSpec PathProofs PathCleanProofs PathIterProofs.
From Avfs Require Import MemFS MemFile World Posix Inv InvWorld.
From Avfs Require Import WalkBridge WalkSym WalkBudget StepEq StepInv HeapEq StepRemoveAll.

Module StepRemoveAllExamples.
  Import WalkSymExamples WalkSymNonVacuity StepExamples StepInvExamples.

  Ltac good_tac :=
    repeat constructor; try discriminate;
    let x := fresh "x" in let Hx := fresh "Hx" in
    intros x Hx; cbn in Hx; repeat (destruct Hx as [Hx|Hx]; [subst x; discriminate|]); destruct Hx.

  Definition ra : call := CRemoveAll 0 (abs_path ([] ++ [s_d])).

  Example ra_instance :
    snd (impl_step_proj w_tree ra) = snd (spec_step true sw_tree ra)
    /\ fsys_geq (w_fs (fst (impl_step_proj w_tree ra))) (sw_fs (fst (spec_step true sw_tree ra)))
    /\ sw_sv (fst (spec_step true sw_tree ra)) = sw_sv sw_tree
    /\ snapshot (fst (impl_step_proj w_tree ra)) 0 = snapshot (with_fs w_tree (sw_fs (fst (spec_step true sw_tree ra)))) 0.
  Proof.
    apply (step_world_remove_all w_tree 0 sw_tree [] s_d).
    - split; reflexivity.
    - exact tree_step_hyps.
    - exact (@inv_heap _ tree_inv).
    - exact tree_sym_single.
    - split; [good_tac|split; vm_compute; discriminate].
  Qed.

  (* the answer, and the heaps really differ (nodes 4 and 5, the links /d/up and /d/e/top) *)
  Example ra_answer : snd (impl_step_proj w_tree ra) = SOk.
  Proof. vm_compute. reflexivity. Qed.

  Example ra_heaps_differ :
    f_heap (w_fs (fst (impl_step_proj w_tree ra))) <> f_heap (sw_fs (fst (spec_step true sw_tree ra))).
  Proof. vm_compute. discriminate. Qed.

  Example ra_gone : klookup (sw_fs (fst (spec_step true sw_tree ra))) (sv_of adminv) false false (abs_path [s_d]) = WNeg 0 s_d false.
  Proof. vm_compute. reflexivity. Qed.
End StepRemoveAllExamples.
