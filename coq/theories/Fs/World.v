(* The world a history runs in: one shared node graph, any number of MemFS
   views (Sub) and open handles; the call alphabet; the step function; and the
   observable snapshot of a tree. *)
From Avfs Require Import Base PathModel MemFS MemFile.
Set Implicit Arguments.

Inductive call :=
(* namespace calls on view [vi] *)
| CMkdir (vi : nat) (p : str) (perm : N)
| CMkdirAll (vi : nat) (p : str) (perm : N)
| COpenFile (vi : nat) (p : str) (flag perm : N)
| CRemove (vi : nat) (p : str)
| CRemoveAll (vi : nat) (p : str)
| CRename (vi : nat) (o n : str)
| CLink (vi : nat) (o n : str)
| CSymlink (vi : nat) (o n : str)
| CReadlink (vi : nat) (p : str)
| CTruncate (vi : nat) (p : str) (size : Z)
| CChmod (vi : nat) (p : str) (mode : N)
| CChown (vi : nat) (p : str) (uid gid : Z)
| CLchown (vi : nat) (p : str) (uid gid : Z)
| CChtimes (vi : nat) (p : str)
| CChdir (vi : nat) (p : str)
| CGetwd (vi : nat)
| CStat (vi : nat) (p : str)
| CLstat (vi : nat) (p : str)
| CEvalSymlinks (vi : nat) (p : str)
| CReadDir (vi : nat) (p : str)
| CReadFile (vi : nat) (p : str)
| CWriteFile (vi : nat) (p : str) (data : list N) (perm : N)
| CSub (vi : nat) (p : str)
| CSetUser (vi : nat) (uid gid : Z) (admin : bool)
| CSetUMask (vi : nat) (mask : N)
(* handle calls on handle [hi] *)
| FRead (hi : nat) (n : Z)
| FReadAt (hi : nat) (n off : Z)
| FWrite (hi : nat) (b : list N)
| FWriteAt (hi : nat) (b : list N) (off : Z)
| FSeek (hi : nat) (off whence : Z)
| FTruncate (hi : nat) (size : Z)
| FStat (hi : nat)
| FSync (hi : nat)
| FChmod (hi : nat) (mode : N)
| FChown (hi : nat) (uid gid : Z)
| FChdir (hi : nat)
| FClose (hi : nat)
| FReadDir (hi : nat) (n : Z)
| FReaddirnames (hi : nat) (n : Z).

Fixpoint set_nth_ {A} (l : list A) (i : nat) (x : A) : list A :=
  match l, i with
  | [], _ => []
  | _ :: l', O => x :: l'
  | y :: l', S i' => y :: set_nth_ l' i' x
  end.

Definition with_fs (w : world) (s : fsys) : world :=
  {| w_fs := s; w_views := w_views w; w_handles := w_handles w |}.
Definition with_view (w : world) (vi : nat) (v : view) : world :=
  {| w_fs := w_fs w; w_views := set_nth_ (w_views w) vi v; w_handles := w_handles w |}.
Definition with_handle (w : world) (hi : nat) (f : handle) : world :=
  {| w_fs := w_fs w; w_views := w_views w; w_handles := set_nth_ (w_handles w) hi f |}.

Definition set_cwd (v : view) (d : str) : view :=
  {| v_root := v_root v; v_cwd := d; v_user := v_user v; v_umask := v_umask v; v_os := v_os v; v_idm := v_idm v |}.

(* a call on a view / handle index that does not exist is a harness error *)
Definition RBadIndex : res := RFail EFuel.

Definition on_view (w : world) (vi : nat) (k : view -> world * res) : world * res :=
  match nth_error (w_views w) vi with Some v => k v | None => (w, RBadIndex) end.

Definition on_handle (w : world) (hi : nat) (k : handle -> view -> world * res) : world * res :=
  match nth_error (w_handles w) hi with
  | Some f => match nth_error (w_views w) (hd_view f) with Some v => k f v | None => (w, RBadIndex) end
  | None => (w, RBadIndex)
  end.

Definition lift (w : world) (r : fsys * res) : world * res := (with_fs w (fst r), snd r).

Definition wstep (w : world) (c : call) : world * res :=
  let s := w_fs w in
  match c with
  | CMkdir vi p perm => on_view w vi (fun v => lift w (mkdir s v p perm))
  | CMkdirAll vi p perm => on_view w vi (fun v => lift w (mkdir_all s v p perm))
  | COpenFile vi p flag perm =>
      on_view w vi (fun v =>
        match open_file s v vi p flag perm with
        | (s1, inl r) => (with_fs w s1, r)
        | (s1, inr f) =>
            ({| w_fs := s1; w_views := w_views w; w_handles := w_handles w ++ [f] |},
             RHandle (length (w_handles w)))
        end)
  | CRemove vi p => on_view w vi (fun v => lift w (remove s v p))
  | CRemoveAll vi p => on_view w vi (fun v => lift w (remove_all s v p))
  | CRename vi o n => on_view w vi (fun v => lift w (rename s v o n))
  | CLink vi o n => on_view w vi (fun v => lift w (link s v o n))
  | CSymlink vi o n => on_view w vi (fun v => lift w (symlink s v o n))
  | CReadlink vi p => on_view w vi (fun v => (w, readlink s v p))
  | CTruncate vi p size => on_view w vi (fun v => lift w (truncate s v p size))
  | CChmod vi p mode => on_view w vi (fun v => lift w (chmod s v p mode))
  | CChown vi p uid gid => on_view w vi (fun v => lift w (chown_gen SlEval s v p uid gid))
  | CLchown vi p uid gid => on_view w vi (fun v => lift w (chown_gen SlLstat s v p uid gid))
  | CChtimes vi p => on_view w vi (fun v => (w, chtimes s v p))
  | CChdir vi p =>
      on_view w vi (fun v =>
        match chdir s v p with
        | inl r => (w, r)
        | inr d => (with_view w vi (set_cwd v d), ROk)
        end)
  | CGetwd vi => on_view w vi (fun v => (w, getwd s v))
  | CStat vi p => on_view w vi (fun v => (w, stat_gen SlStat s v p))
  | CLstat vi p => on_view w vi (fun v => (w, stat_gen SlLstat s v p))
  | CEvalSymlinks vi p => on_view w vi (fun v => (w, eval_symlinks s v p))
  | CReadDir vi p => on_view w vi (fun v => (w, read_dir s v p))
  | CReadFile vi p => on_view w vi (fun v => (w, read_file s v p))
  | CWriteFile vi p data perm => on_view w vi (fun v => lift w (write_file s v p data perm))
  | CSub vi p =>
      on_view w vi (fun v =>
        match sub s v p with
        | inl r => (w, r)
        | inr v' => ({| w_fs := s; w_views := w_views w ++ [v']; w_handles := w_handles w |},
                     RView (length (w_views w)))
        end)
  | CSetUser vi uid gid admin =>
      on_view w vi (fun v =>
        (with_view w vi {| v_root := v_root v; v_cwd := v_cwd v;
                           v_user := {| us_uid := uid; us_gid := gid; us_admin := admin |};
                           v_umask := v_umask v; v_os := v_os v; v_idm := v_idm v |}, ROk))
  | CSetUMask vi mask =>
      on_view w vi (fun v =>
        (with_view w vi {| v_root := v_root v; v_cwd := v_cwd v; v_user := v_user v;
                           v_umask := mask; v_os := v_os v; v_idm := v_idm v |}, ROk))
  | FRead hi n =>
      on_handle w hi (fun f v => let '(f', r) := f_read s v f n in (with_handle w hi f', r))
  | FReadAt hi n off => on_handle w hi (fun f v => (w, f_read_at s v f n off))
  | FWrite hi b =>
      on_handle w hi (fun f v => let '(s1, f', r) := f_write s v f b in (with_handle (with_fs w s1) hi f', r))
  | FWriteAt hi b off => on_handle w hi (fun f v => lift w (f_write_at s v f b off))
  | FSeek hi off whence =>
      on_handle w hi (fun f v => let '(f', r) := f_seek s v f off whence in (with_handle w hi f', r))
  | FTruncate hi size => on_handle w hi (fun f v => lift w (f_truncate s v f size))
  | FStat hi => on_handle w hi (fun f v => (w, f_stat s v f))
  | FSync hi => on_handle w hi (fun f v => (w, f_sync f))
  | FChmod hi mode => on_handle w hi (fun f v => lift w (f_chmod s v f mode))
  | FChown hi uid gid => on_handle w hi (fun f v => lift w (f_chown s v f uid gid))
  | FChdir hi =>
      on_handle w hi (fun f v =>
        match f_chdir s v f with
        | inl r => (w, r)
        | inr d => (with_view w (hd_view f) (set_cwd v d), ROk)
        end)
  | FClose hi => on_handle w hi (fun f v => let '(f', r) := f_close f in (with_handle w hi f', r))
  | FReadDir hi n =>
      on_handle w hi (fun f v => let '(f', r) := f_read_dir s v f n in (with_handle w hi f', r))
  | FReaddirnames hi n =>
      on_handle w hi (fun f v => let '(f', r) := f_readdirnames s v f n in (with_handle w hi f', r))
  end.

Fixpoint wrun (w : world) (cs : list call) : world * list res :=
  match cs with
  | [] => (w, [])
  | c :: cs' =>
      let '(w1, r) := wstep w c in
      let '(w2, rs) := wrun w1 cs' in
      (w2, r :: rs)
  end.

(* ---- initial world (memfs_cfg.go NewWithOptions, POSIX flavour) --------- *)
(* root 0755, then MkdirAll + Chmod of /home (0700... see SystemDirs), /root, /tmp
   by the administrator with the process umask [um]. *)
Definition root_user : user := {| us_uid := 0; us_gid := 0; us_admin := true |}.

Definition init_view (os : ostype) (um : N) : view :=
  {| v_root := 0; v_cwd := match os with Linux => [47%N] | Windows => [67; 58; 92]%N end;
     v_user := root_user; v_umask := 0; v_os := os; v_idm := true |}.

Definition s2 (l : list N) : str := l.
Definition P_home : str := [47;104;111;109;101]%N.        (* /home *)
Definition P_root : str := [47;114;111;111;116]%N.        (* /root *)
Definition P_tmp : str := [47;116;109;112]%N.             (* /tmp *)

Definition init_world_linux (um : N) : world :=
  let root := NDir [] {| m_mode := N.lor MODE_DIR 493; m_uid := 0; m_gid := 0 |} in
  let s0 := {| f_heap := [root]; f_last_id := 0; f_vols := [] |} in
  (* the umask is still 0 while the system directories are made; it is set afterwards *)
  let v0 := init_view Linux um in
  let mk s p perm := fst (chmod (fst (mkdir_all s v0 p perm)) v0 p perm) in
  let s1 := mk s0 P_home 448%N in
  let s2 := mk s1 P_root 448%N in
  let s3 := mk s2 P_tmp 511%N in
  {| w_fs := s3;
     w_views := [{| v_root := 0; v_cwd := [47%N]; v_user := root_user; v_umask := um; v_os := Linux; v_idm := true |}];
     w_handles := [] |}.

(* ---- observable snapshot of the tree below a node ------------------------ *)
Inductive sentry :=
| SDir (path : str) (mode : N) (uid gid : Z)
| SFile (path : str) (mode : N) (uid gid : Z) (data : list N) (nlink : Z) (id : N)
| SSym (path : str) (mode : N) (uid gid : Z) (target : str).

Definition join_path (os : ostype) (dir name : str) : str :=
  match dir with
  | [c] => if is_sep os c then dir ++ name else dir ++ [sepc os] ++ name
  | _ => dir ++ [sepc os] ++ name
  end.

Fixpoint snap (fuel : nat) (os : ostype) (h : heap) (path : str) (i : nat) : list sentry :=
  match fuel with
  | O => []
  | S f =>
      match get h i with
      | Some (NDir ch m) =>
          SDir path (m_mode m) (m_uid m) (m_gid m)
          :: flat_map (fun '(name, c) => snap f os h (join_path os path name) c)
                      (sort_by (fun x => fst x) ch)
      | Some (NFile d k id m) => [SFile path (m_mode m) (m_uid m) (m_gid m) d k id]
      | Some (NSym l m) => [SSym path (m_mode m) (m_uid m) (m_gid m) l]
      | None => []
      end
  end.

(* entries deeper than 10 levels are not listed: keeps the snapshot total on the cyclic graphs a
   defective rename can produce; the harness applies the same cut *)
Definition SNAP_DEPTH : nat := 11.

Definition snapshot (w : world) (vi : nat) : list sentry :=
  match nth_error (w_views w) vi with
  | Some v => snap SNAP_DEPTH (v_os v) (f_heap (w_fs w)) [sepc (v_os v)] (v_root v)
  | None => []
  end.

(* ---- numeric value of an error, as the harness prints it ------------------ *)
(* class: 0 = avfs.LinuxError, 1 = avfs.WindowsError, 2 = avfs.CustomError (offset from customErrorBase),
   3 = Go-level sentinel (1 fs.ErrClosed, 2 fs.ErrInvalid, 3 io.EOF), 9 = model-only.
   Mirrors avfs.Errors.SetOSType (errors.go:222) and the constants of errors.go. *)
Local Open Scope N_scope.
Definition ecode (os : ostype) (e : ekind) : N * N :=
  let w := ostype_eqb os Windows in
  let lw (l x : N) : N * N := if w then (1%N, x) else (0%N, l) in
  match e with
  | EBadFileDesc => lw 9%N 5%N
  | EDirNotEmpty => lw 39 145
  | EFileExists => lw 17 80
  | EInvalidArgument => lw 22 131
  | EIsADirectory => lw 21 21
  | ENoSuchDir => lw 2 3
  | ENoSuchFile => lw 2 2
  | ENotADirectory => lw 20 3
  | EOpNotPermitted => lw 1 536871042
  | EPermDenied => lw 13 5
  | ETooManySymlinks => (0, 40)
  | EC_FileExists => (0, 17) | EC_OpNotPermitted => (0, 1) | EC_InvalidArgument => (0, 22)
  | EC_NotADirectory => (0, 20) | EC_IsADirectory => (0, 21) | EC_BadFileDesc => (0, 9)
  | EW_DirNameInvalid => (1, 267) | EW_AlreadyExists => (1, 183) | EW_AccessDenied => (1, 5)
  | EW_NotReparsePoint => (1, 4390) | EW_IncorrectFunc => (1, 1) | EW_InvalidHandle => (1, 6)
  | EW_NotSupported => (1, 536871042)
  | EG_Closed => (3, 1) | EG_Invalid => (3, 2) | EG_EOF => (3, 3)
  | EG_FileClosing => (2, 2) | EG_NegativeOffset => (2, 1) | EG_WriteAtInAppendMode => (2, 7)
  | EFuel => (9, 0)
  end%N.

Local Close Scope N_scope.
Definition view_os (w : world) (vi : nat) : ostype :=
  match nth_error (w_views w) vi with Some v => v_os v | None => Linux end.
Definition handle_view (w : world) (hi : nat) : nat :=
  match nth_error (w_handles w) hi with Some f => hd_view f | None => 0 end.
