(* The well-formedness invariant of the OrefaFS model (DESIGN 5 C05, I7 included)
   and its preservation by every call.

   [F s cs] is the node the node map gives for the path with components cs
   (key "/c1/.../cn", "" for the root); [Ch h p c] is the entry c of the
   children map of node p.  The invariant ties the two: a path is in the map
   exactly when its parent path is and the parent's children map has the
   entry (clause inv_edge), which is I7 "index p = n <-> walking gives n" in
   its local, one-step form (orefa_walk gives the unfolded form). *)
From Avfs Require Import Base PathModel PathSpec PathProofs PathCleanProofs PathIterProofs MemFS MemFile World
  OrefaFS OrefaWorld OrefaLemmas.


Definition gcs (cs : list str) : Prop := Forall good_comp cs.
Definition Fi (idx : list (str * nat)) (cs : list str) : option nat := ikey idx (rpath cs).
Definition Ch (h : oheap) (p : nat) (c : str) : option nat :=
  match oget h p with Some n => alookup str_eqb c (on_ch n) | None => None end.
Definition kcount (i : nat) (idx : list (str * nat)) : nat := kcount_p nat (fun v => Nat.eqb v i) idx.
Definition is_dir_at (h : oheap) (i : nat) : Prop := exists n, oget h i = Some n /\ on_dir n = true.

Record hinv (idx : list (str * nat)) (h : oheap) : Prop := {
  hi_nodup : NoDup (map fst idx);
  hi_keys : forall k i, ikey idx k = Some i -> (k = [SLASH] /\ i = 0) \/ exists cs, gcs cs /\ k = rpath cs;
  hi_root : ikey idx [] = Some 0 /\ ikey idx [SLASH] = Some 0;
  hi_rootdir : is_dir_at h 0;
  hi_rootkey : forall cs, gcs cs -> Fi idx cs = Some 0 -> cs = [];
  hi_valid : forall k i, ikey idx k = Some i -> exists n, oget h i = Some n;
  hi_edge : forall cs c i, gcs cs -> good_comp c ->
      (Fi idx (cs ++ [c]) = Some i <-> exists p, Fi idx cs = Some p /\ Ch h p c = Some i);
  hi_leaf : forall i n, oget h i = Some n -> on_dir n = false -> on_ch n = [];
  hi_nlink : forall i n, oget h i = Some n -> i <> 0 -> on_nlink n = Z.of_nat (kcount i idx);
  hi_dirnlink : forall i n, oget h i = Some n -> on_dir n = true -> (on_nlink n <= 1)%Z;
  hi_chgood : forall i n c j, oget h i = Some n -> In (c, j) (on_ch n) -> good_comp c;
  hi_chnodup : forall i n, oget h i = Some n -> NoDup (map fst (on_ch n))
}.

Record orefa_inv (s : ofs) : Prop := {
  inv_os : o_os s = Linux;
  inv_cwd : exists bs, gcs bs /\ o_cwd s = abs_path bs;
  inv_h : hinv (o_index s) (o_heap s)
}.

(* ---- heap access lemmas --------------------------------------------------------- *)
Lemma oupd_length h : forall i n, length (oupd h i n) = length h.
Proof. induction h as [|x h IH]; intros [|i] n; cbn [oupd length]; auto. Qed.

Lemma oget_oupd_eq h : forall i n, i < length h -> oget (oupd h i n) i = Some n.
Proof.
  unfold oget. induction h as [|x h IH]; intros [|i] n Hi; cbn [oupd length nth_error] in *; try lia; auto.
  apply IH. lia.
Qed.

Lemma oget_oupd_neq h : forall i j n, i <> j -> oget (oupd h i n) j = oget h j.
Proof.
  unfold oget. induction h as [|x h IH]; intros [|i] [|j] n Hne; cbn [oupd nth_error]; try congruence; auto.
Qed.

Lemma oget_some_lt h i n : oget h i = Some n -> i < length h.
Proof. unfold oget. intros H. apply nth_error_Some. congruence. Qed.

Lemma oget_lt_some h i : i < length h -> exists n, oget h i = Some n.
Proof. unfold oget. intros H. destruct (nth_error h i) eqn:E; [eauto|]. apply nth_error_None in E. lia. Qed.

Lemma oget_app_old h n i : i < length h -> oget (h ++ [n]) i = oget h i.
Proof. unfold oget. intros H. apply nth_error_app1. exact H. Qed.

Lemma oget_app_new h n : oget (h ++ [n]) (length h) = Some n.
Proof. unfold oget. rewrite nth_error_app2 by lia. rewrite Nat.sub_diag. reflexivity. Qed.

Lemma oget_app_some h n i x : oget h i = Some x -> oget (h ++ [n]) i = Some x.
Proof. intros H. rewrite oget_app_old; [exact H|]. eapply oget_some_lt. exact H. Qed.

(* one lemma for reading a heap after an update *)
Lemma oget_oupd h i j n x : oget h i = Some x ->
  oget (oupd h i n) j = if Nat.eqb i j then Some n else oget h j.
Proof.
  intros Hx. destruct (Nat.eqb_spec i j) as [->|Hne].
  - apply oget_oupd_eq. eapply oget_some_lt. exact Hx.
  - apply oget_oupd_neq. exact Hne.
Qed.

(* ---- children maps under the mutators --------------------------------------------- *)
Lemma Ch_add_child h p c j pn : oget h p = Some pn ->
  forall q c', Ch (o_add_child h p c j) q c' =
    if Nat.eqb p q && str_eqb c' c then Some j else Ch h q c'.
Proof.
  intros Hp q c'. unfold Ch, o_add_child. rewrite Hp. rewrite (oget_oupd _ _ _ _ _ Hp).
  destruct (Nat.eqb_spec p q) as [->|Hne]; cbn [andb].
  - rewrite Hp. cbn [on_with_ch on_ch]. destruct (str_eqb_spec c' c) as [->|Hc].
    + apply al_aset_eq.
    + apply al_aset_neq. exact Hc.
  - reflexivity.
Qed.

Lemma Ch_del_child h p c pn : oget h p = Some pn ->
  forall q c', Ch (o_del_child h p c) q c' =
    if Nat.eqb p q && str_eqb c' c then None else Ch h q c'.
Proof.
  intros Hp q c'. unfold Ch, o_del_child. rewrite Hp. rewrite (oget_oupd _ _ _ _ _ Hp).
  destruct (Nat.eqb_spec p q) as [->|Hne]; cbn [andb].
  - rewrite Hp. cbn [on_with_ch on_ch]. destruct (str_eqb_spec c' c) as [->|Hc].
    + apply al_aremove_eq.
    + apply al_aremove_neq. exact Hc.
  - reflexivity.
Qed.

Lemma Ch_release h c cn : oget h c = Some cn ->
  forall q c', Ch (o_release h c) q c' = if Nat.eqb c q then None else Ch h q c'.
Proof.
  intros Hc q c'. unfold Ch, o_release. rewrite Hc. rewrite (oget_oupd _ _ _ _ _ Hc).
  destruct (Nat.eqb_spec c q) as [->|Hne]; reflexivity.
Qed.

Lemma Ch_app_old h n q c : q < length h -> Ch (h ++ [n]) q c = Ch h q c.
Proof. intros H. unfold Ch. rewrite oget_app_old by exact H. reflexivity. Qed.

(* ---- consequences of the invariant ---------------------------------------------------- *)
Section Consequences.
  Variables (idx : list (str * nat)) (h : oheap).
  Hypothesis Hinv : hinv idx h.

  Lemma gcs_ok cs : gcs cs -> Forall comp_ok cs.
  Proof. apply Forall_comp_ok_of. Qed.

  Lemma gcs_app a b : gcs a -> gcs b -> gcs (a ++ b).
  Proof. intros. apply Forall_app. auto. Qed.

  Lemma gcs_snoc a c : gcs a -> good_comp c -> gcs (a ++ [c]).
  Proof. intros Ha Hc. apply gcs_app; [exact Ha|]. constructor; [exact Hc|constructor]. Qed.

  Lemma gcs_snoc_inv a c : gcs (a ++ [c]) -> gcs a /\ good_comp c.
  Proof. intros H. apply Forall_app in H. destruct H as [Ha Hc]. inversion Hc; subst. auto. Qed.

  (* the parent of a key is a key, of a directory, that lists it *)
  Lemma parent_is_dir cs c i : gcs cs -> good_comp c -> Fi idx (cs ++ [c]) = Some i ->
    exists p pn, Fi idx cs = Some p /\ oget h p = Some pn /\ on_dir pn = true /\ alookup str_eqb c (on_ch pn) = Some i.
  Proof.
    intros Hcs Hc HF. apply (hi_edge _ _ Hinv) in HF; [|exact Hcs|exact Hc].
    destruct HF as (p & Hp & Hch). unfold Ch in Hch. destruct (oget h p) as [pn|] eqn:Ep; [|discriminate].
    exists p, pn. repeat split; auto.
    destruct (on_dir pn) eqn:Ed; [reflexivity|]. rewrite (hi_leaf _ _ Hinv _ _ Ep Ed) in Hch. discriminate.
  Qed.

  Lemma kcount_two k1 k2 i : k1 <> k2 -> ikey idx k1 = Some i -> ikey idx k2 = Some i -> 2 <= kcount i idx.
  Proof.
    intros Hne H1 H2. unfold ikey in *.
    pose proof (kcount_aremove _ (fun v => Nat.eqb v i) _ _ _ (hi_nodup _ _ Hinv) H1) as E1.
    cbv beta in E1. rewrite Nat.eqb_refl in E1.
    assert (H2' : alookup str_eqb k2 (aremove str_eqb k1 idx) = Some i).
    { rewrite al_aremove_neq by (intros E; apply Hne; auto). exact H2. }
    pose proof (kcount_aremove _ (fun v => Nat.eqb v i) _ _ _ (nodup_aremove _ k1 _ (hi_nodup _ _ Hinv)) H2') as E2.
    cbv beta in E2. rewrite Nat.eqb_refl in E2. unfold kcount. lia.
  Qed.

  (* a directory has one path *)
  Lemma dir_key_unique cs1 cs2 p : gcs cs1 -> gcs cs2 -> Fi idx cs1 = Some p -> Fi idx cs2 = Some p ->
    is_dir_at h p -> cs1 = cs2.
  Proof.
    intros H1 H2 F1 F2 (n & Hn & Hd).
    destruct (Nat.eq_dec p 0) as [->|Hp0].
    - rewrite (hi_rootkey _ _ Hinv _ H1 F1), (hi_rootkey _ _ Hinv _ H2 F2). reflexivity.
    - destruct (list_eq_dec (list_eq_dec N.eq_dec) cs1 cs2) as [E|Hne]; [exact E|exfalso].
      assert (Hk : rpath cs1 <> rpath cs2).
      { intros E. apply Hne. apply rpath_inj; [apply gcs_ok; exact H1|apply gcs_ok; exact H2|exact E]. }
      pose proof (kcount_two _ _ _ Hk F1 F2) as H2c.
      pose proof (hi_nlink _ _ Hinv _ _ Hn Hp0) as Hl. pose proof (hi_dirnlink _ _ Hinv _ _ Hn Hd) as Hd1. lia.
  Qed.
End Consequences.

(* ---- P1: an update that keeps children, link count and type ------------------------------ *)
Lemma oget_oupd_cases h c n n' i x : oget h c = Some n -> oget (oupd h c n') i = Some x ->
  (i = c /\ x = n') \/ (i <> c /\ oget h i = Some x).
Proof.
  intros Hc Hx. rewrite (oget_oupd _ _ _ _ _ Hc) in Hx.
  destruct (Nat.eqb_spec c i) as [->|Hne]; [left; inversion Hx; auto|right; auto].
Qed.

Lemma Ch_oupd_same h c n n' : oget h c = Some n -> on_ch n' = on_ch n ->
  forall q c', Ch (oupd h c n') q c' = Ch h q c'.
Proof.
  intros Hc Hch q c'. unfold Ch. rewrite (oget_oupd _ _ _ _ _ Hc).
  destruct (Nat.eqb_spec c q) as [->|Hne]; [rewrite Hc, Hch|]; reflexivity.
Qed.

Lemma is_dir_at_oupd h c n n' i : oget h c = Some n -> on_dir n' = on_dir n ->
  is_dir_at h i -> is_dir_at (oupd h c n') i.
Proof.
  intros Hc Hd (x & Hx & Hxd). unfold is_dir_at. rewrite (oget_oupd _ _ _ _ _ Hc).
  destruct (Nat.eqb_spec c i) as [->|Hne]; [|eauto].
  exists n'. split; [reflexivity|]. rewrite Hd. congruence.
Qed.

Lemma hinv_upd idx h c n n' : hinv idx h -> oget h c = Some n ->
  on_ch n' = on_ch n -> on_nlink n' = on_nlink n -> on_dir n' = on_dir n ->
  hinv idx (oupd h c n').
Proof.
  intros Hinv Hc Hch Hnl Hd. constructor.
  - apply (hi_nodup _ _ Hinv).
  - apply (hi_keys _ _ Hinv).
  - apply (hi_root _ _ Hinv).
  - apply (is_dir_at_oupd _ _ _ _ _ Hc Hd (hi_rootdir _ _ Hinv)).
  - apply (hi_rootkey _ _ Hinv).
  - intros k i Hk. destruct (hi_valid _ _ Hinv _ _ Hk) as (x & Hx).
    rewrite (oget_oupd _ _ _ _ _ Hc). destruct (Nat.eqb c i); eauto.
  - intros cs c' i Hcs Hc'. rewrite (hi_edge _ _ Hinv cs c' i Hcs Hc').
    split; intros (p & Hp & Hq); exists p; (split; [exact Hp|]).
    + rewrite (Ch_oupd_same _ _ _ _ Hc Hch). exact Hq.
    + rewrite (Ch_oupd_same _ _ _ _ Hc Hch) in Hq. exact Hq.
  - intros i x Hx Hxd. destruct (oget_oupd_cases _ _ _ _ _ _ Hc Hx) as [[-> ->]|[_ Hx']].
    + rewrite Hch. apply (hi_leaf _ _ Hinv _ _ Hc). congruence.
    + apply (hi_leaf _ _ Hinv _ _ Hx' Hxd).
  - intros i x Hx Hi0. destruct (oget_oupd_cases _ _ _ _ _ _ Hc Hx) as [[-> ->]|[_ Hx']].
    + rewrite Hnl. apply (hi_nlink _ _ Hinv _ _ Hc Hi0).
    + apply (hi_nlink _ _ Hinv _ _ Hx' Hi0).
  - intros i x Hx Hxd. destruct (oget_oupd_cases _ _ _ _ _ _ Hc Hx) as [[-> ->]|[_ Hx']].
    + rewrite Hnl. apply (hi_dirnlink _ _ Hinv _ _ Hc). congruence.
    + apply (hi_dirnlink _ _ Hinv _ _ Hx' Hxd).
  - intros i x c' j Hx Hin. destruct (oget_oupd_cases _ _ _ _ _ _ Hc Hx) as [[-> ->]|[_ Hx']].
    + rewrite Hch in Hin. apply (hi_chgood _ _ Hinv _ _ _ _ Hc Hin).
    + apply (hi_chgood _ _ Hinv _ _ _ _ Hx' Hin).
  - intros i x Hx. destruct (oget_oupd_cases _ _ _ _ _ _ Hc Hx) as [[-> ->]|[_ Hx']].
    + rewrite Hch. apply (hi_chnodup _ _ Hinv _ _ Hc).
    + apply (hi_chnodup _ _ Hinv _ _ Hx').
Qed.

(* ---- lookups in the node map by components --------------------------------------------- *)
Lemma cs_eq_dec (a b : list str) : {a = b} + {a <> b}.
Proof. apply list_eq_dec. apply list_eq_dec. apply N.eq_dec. Qed.

Lemma Fi_aset_eq idx ks v : Fi (aset str_eqb (rpath ks) v idx) ks = Some v.
Proof. unfold Fi, ikey. apply al_aset_eq. Qed.

Lemma Fi_aset_neq idx ks v cs : gcs cs -> gcs ks -> cs <> ks -> Fi (aset str_eqb (rpath ks) v idx) cs = Fi idx cs.
Proof.
  intros Hc Hk Hne. unfold Fi, ikey. apply al_aset_neq. intros E. apply Hne.
  apply rpath_inj; [apply gcs_ok; exact Hc|apply gcs_ok; exact Hk|exact E].
Qed.

Lemma Fi_aremove_eq idx ks : Fi (aremove str_eqb (rpath ks) idx) ks = None.
Proof. unfold Fi, ikey. apply al_aremove_eq. Qed.

Lemma Fi_aremove_neq idx ks cs : gcs cs -> gcs ks -> cs <> ks -> Fi (aremove str_eqb (rpath ks) idx) cs = Fi idx cs.
Proof.
  intros Hc Hk Hne. unfold Fi, ikey. apply al_aremove_neq. intros E. apply Hne.
  apply rpath_inj; [apply gcs_ok; exact Hc|apply gcs_ok; exact Hk|exact E].
Qed.

Lemma kcount_zero idx h i : hinv idx h -> (forall k, ikey idx k <> Some i) -> kcount i idx = 0.
Proof.
  intros Hinv Hno. unfold kcount. destruct (kcount_p nat (fun v => Nat.eqb v i) idx) eqn:E; [reflexivity|exfalso].
  destruct (kcount_pos_in nat (fun v => Nat.eqb v i) idx) as (k & v & Hin & Hv); [lia|].
  apply Nat.eqb_eq in Hv. subst v. apply (Hno k). unfold ikey. apply in_al; [apply (hi_nodup _ _ Hinv)|exact Hin].
Qed.

Lemma kcount_fresh idx h : hinv idx h -> kcount (length h) idx = 0.
Proof.
  intros Hinv. apply (kcount_zero idx h); [exact Hinv|]. intros k Hk.
  destruct (hi_valid _ _ Hinv _ _ Hk) as (n & Hn). apply oget_some_lt in Hn. lia.
Qed.

Lemma snoc_neq_self (A : Type) (l : list A) x : l <> l ++ [x].
Proof. intros E. apply (f_equal (@length A)) in E. rewrite app_length in E. cbn in E. lia. Qed.

Lemma rpath_snoc_not_nil cs c : rpath (cs ++ [c]) <> [].
Proof. rewrite rpath_snoc. destruct (rpath cs); discriminate. Qed.

(* ---- P2: a new node under an existing directory ------------------------------------------- *)
Lemma hinv_create idx h ps c p pn nd :
  hinv idx h -> gcs ps -> good_comp c ->
  Fi idx ps = Some p -> oget h p = Some pn -> on_dir pn = true ->
  Fi idx (ps ++ [c]) = None ->
  on_ch nd = [] -> on_nlink nd = 1%Z ->
  hinv (aset str_eqb (rpath (ps ++ [c])) (length h) idx) (o_add_child (h ++ [nd]) p c (length h)).
Proof.
  intros Hinv Hps Hc HFp Hp Hpd HFn Hndch Hndnl.
  assert (Hplt : p < length h) by (eapply oget_some_lt; exact Hp).
  assert (Hp' : oget (h ++ [nd]) p = Some pn) by (apply oget_app_some; exact Hp).
  assert (Hgk : gcs (ps ++ [c])) by (apply gcs_snoc; assumption).
  assert (HKnil : (rpath (ps ++ [c])) <> []) by apply rpath_snoc_not_nil.
  assert (HKsl : (rpath (ps ++ [c])) <> [SLASH]) by (apply rpath_not_slash; apply gcs_ok; exact Hgk).
  assert (Hnewp : (length h) <> p) by (lia).
  (* reading the (length h) heap *)
  assert (Hget : forall i, oget (o_add_child (h ++ [nd]) p c (length h)) i =
            if Nat.eqb p i then Some (on_with_ch pn (aset str_eqb c (length h) (on_ch pn)))
            else if Nat.eqb i (length h) then Some nd else oget h i).
  { intros i. unfold o_add_child. rewrite Hp'. rewrite (oget_oupd _ _ _ _ _ Hp').
    destruct (Nat.eqb_spec p i) as [E|Hne]; [reflexivity|].
    destruct (Nat.eqb_spec i (length h)) as [->|Hne2]; [apply oget_app_new|].
    destruct (Nat.lt_ge_cases i (length h)) as [Hl|Hg].
    - apply oget_app_old. exact Hl.
    - unfold oget. rewrite (proj2 (nth_error_None _ _)) by (rewrite app_length; cbn [length]; lia).
      symmetry. apply nth_error_None. lia. }
  assert (HCh : forall q c', Ch (o_add_child (h ++ [nd]) p c (length h)) q c' =
            if Nat.eqb p q && str_eqb c' c then Some (length h) else Ch h q c').
  { intros q c'. rewrite (Ch_add_child _ _ _ _ _ Hp'). destruct (Nat.eqb p q && str_eqb c' c); [reflexivity|].
    unfold Ch. destruct (Nat.lt_ge_cases q (length h)) as [Hl|Hg].
    - rewrite oget_app_old by exact Hl. reflexivity.
    - destruct (Nat.eqb_spec q (length h)) as [->|Hne2].
      + rewrite oget_app_new, Hndch. cbn [alookup]. unfold oget.
        rewrite (proj2 (nth_error_None _ _)) by (lia). reflexivity.
      + unfold oget. rewrite (proj2 (nth_error_None (h ++ [nd]) q)) by (rewrite app_length; cbn [length]; lia).
        rewrite (proj2 (nth_error_None h q)) by lia. reflexivity. }
  constructor.
  - apply nodup_aset. apply (hi_nodup _ _ Hinv).
  - intros k i Hk. unfold ikey in Hk. destruct (str_eqb_spec k (rpath (ps ++ [c]))) as [->|Hne].
    + right. exists (ps ++ [c]). auto.
    + rewrite al_aset_neq in Hk by exact Hne. apply (hi_keys _ _ Hinv _ _ Hk).
  - unfold ikey. rewrite !al_aset_neq by congruence. apply (hi_root _ _ Hinv).
  - destruct (hi_rootdir _ _ Hinv) as (r & Hr & Hrd). unfold is_dir_at. rewrite Hget.
    destruct (Nat.eqb_spec p 0) as [->|Hp0].
    + eexists. split; [reflexivity|]. cbn. rewrite Hp in Hr. inversion Hr; subst. exact Hrd.
    + destruct (Nat.eqb_spec 0 (length h)) as [E|_]; [lia|]. eauto.
  - intros cs Hcs HF. destruct (cs_eq_dec cs (ps ++ [c])) as [->|Hne].
    + rewrite Fi_aset_eq in HF. inversion HF. lia.
    + rewrite Fi_aset_neq in HF by assumption. apply (hi_rootkey _ _ Hinv _ Hcs HF).
  - intros k i Hk. unfold ikey in Hk. rewrite Hget. destruct (str_eqb_spec k (rpath (ps ++ [c]))) as [->|Hne].
    + rewrite al_aset_eq in Hk. inversion Hk; subst i.
      destruct (Nat.eqb p (length h)); [eauto|]. rewrite Nat.eqb_refl. eauto.
    + rewrite al_aset_neq in Hk by exact Hne. destruct (hi_valid _ _ Hinv _ _ Hk) as (n & Hn).
      destruct (Nat.eqb p i); [eauto|]. destruct (Nat.eqb i (length h)); eauto.
  - intros cs c' i Hcs Hc'.
    destruct (cs_eq_dec (cs ++ [c']) (ps ++ [c])) as [E|Hne].
    + apply app_inj_tail in E. destruct E as [-> ->]. rewrite Fi_aset_eq.
      rewrite Fi_aset_neq by (try assumption; apply snoc_neq_self). rewrite HFp. split.
      * intros [= <-]. exists p. split; [reflexivity|]. rewrite HCh, Nat.eqb_refl, str_eqb_refl. reflexivity.
      * intros (q & [= <-] & Hq). rewrite HCh, Nat.eqb_refl, str_eqb_refl in Hq. exact Hq.
    + rewrite Fi_aset_neq by (try assumption; apply gcs_snoc; assumption).
      rewrite (hi_edge _ _ Hinv cs c' i Hcs Hc').
      destruct (cs_eq_dec cs (ps ++ [c])) as [->|Hne2].
      * rewrite Fi_aset_eq. rewrite HFn. split.
        -- intros (q & Hq & _). discriminate.
        -- intros (q & [= <-] & Hq). rewrite HCh in Hq.
           destruct (Nat.eqb_spec p (length h)) as [E|_]; [lia|]. cbn [andb] in Hq.
           unfold Ch in Hq. unfold oget in Hq. rewrite (proj2 (nth_error_None h (length h))) in Hq by (lia). discriminate.
      * rewrite Fi_aset_neq by assumption.
        split; intros (q & Hq & Hqc); exists q; (split; [exact Hq|]).
        -- rewrite HCh. destruct (Nat.eqb_spec p q) as [<-|_]; [|exact Hqc].
           destruct (str_eqb_spec c' c) as [->|_]; [|exact Hqc]. exfalso. apply Hne.
           rewrite (dir_key_unique idx h Hinv cs ps p Hcs Hps Hq HFp); [reflexivity|]. exists pn. auto.
        -- rewrite HCh in Hqc. destruct (Nat.eqb_spec p q) as [<-|_]; [|exact Hqc].
           destruct (str_eqb_spec c' c) as [->|_]; [|exact Hqc]. exfalso. apply Hne.
           rewrite (dir_key_unique idx h Hinv cs ps p Hcs Hps Hq HFp); [reflexivity|]. exists pn. auto.
  - intros i n Hn Hnd. rewrite Hget in Hn. destruct (Nat.eqb p i).
    + inversion Hn; subst n. change (on_dir pn = false) in Hnd. congruence.
    + destruct (Nat.eqb i (length h)); [inversion Hn; subst; exact Hndch|]. apply (hi_leaf _ _ Hinv _ _ Hn Hnd).
  - intros i n Hn Hi0. rewrite Hget in Hn. unfold kcount.
    rewrite kcount_aset_new by exact HFn. fold (kcount i idx).
    destruct (Nat.eqb_spec p i) as [<-|Hpi].
    + inversion Hn; subst n. cbn [on_with_ch on_nlink]. destruct (Nat.eqb_spec (length h) p) as [E|_]; [lia|].
      rewrite Nat.add_0_r. apply (hi_nlink _ _ Hinv _ _ Hp Hi0).
    + destruct (Nat.eqb_spec i (length h)) as [->|Hin].
      * inversion Hn; subst n. rewrite Nat.eqb_refl. rewrite (kcount_fresh idx h Hinv). rewrite Hndnl. reflexivity.
      * destruct (Nat.eqb_spec (length h) i) as [E|_]; [congruence|]. rewrite Nat.add_0_r. apply (hi_nlink _ _ Hinv _ _ Hn Hi0).
  - intros i n Hn Hnd. rewrite Hget in Hn. destruct (Nat.eqb p i).
    + inversion Hn; subst n. cbn [on_with_ch on_nlink]. apply (hi_dirnlink _ _ Hinv _ _ Hp Hpd).
    + destruct (Nat.eqb i (length h)); [inversion Hn; subst; rewrite Hndnl; lia|]. apply (hi_dirnlink _ _ Hinv _ _ Hn Hnd).
  - intros i n c' j Hn Hin. rewrite Hget in Hn. destruct (Nat.eqb p i).
    + inversion Hn; subst n. cbn [on_with_ch on_ch] in Hin. apply in_aset_cases in Hin.
      destruct Hin as [[-> _]|Hin]; [exact Hc|]. apply (hi_chgood _ _ Hinv _ _ _ _ Hp Hin).
    + destruct (Nat.eqb i (length h)); [inversion Hn; subst; rewrite Hndch in Hin; destruct Hin|].
      apply (hi_chgood _ _ Hinv _ _ _ _ Hn Hin).
  - intros i n Hn. rewrite Hget in Hn. destruct (Nat.eqb p i).
    + inversion Hn; subst n. cbn [on_with_ch on_ch]. apply nodup_aset. apply (hi_chnodup _ _ Hinv _ _ Hp).
    + destruct (Nat.eqb i (length h)); [inversion Hn; subst; rewrite Hndch; constructor|]. apply (hi_chnodup _ _ Hinv _ _ Hn).
Qed.

(* the edge clause after adding the key of ps/c and the entry c of directory p, both for node t *)
Lemma edge_add idx h h' ps c p t :
  hinv idx h -> gcs ps -> good_comp c ->
  Fi idx ps = Some p -> is_dir_at h p -> Fi idx (ps ++ [c]) = None ->
  (forall q c', Ch h' q c' = if Nat.eqb p q && str_eqb c' c then Some t else Ch h q c') ->
  (forall c', Ch h t c' = None) -> t <> p ->
  forall cs c' i, gcs cs -> good_comp c' ->
    (Fi (aset str_eqb (rpath (ps ++ [c])) t idx) (cs ++ [c']) = Some i
     <-> exists q, Fi (aset str_eqb (rpath (ps ++ [c])) t idx) cs = Some q /\ Ch h' q c' = Some i).
Proof.
  intros Hinv Hps Hc HFp Hpd HFn HCh Htleaf Htp cs c' i Hcs Hc'.
  assert (Hgk : gcs (ps ++ [c])) by (apply gcs_snoc; assumption).
  destruct (cs_eq_dec (cs ++ [c']) (ps ++ [c])) as [E|Hne].
  - apply app_inj_tail in E. destruct E as [-> ->]. rewrite Fi_aset_eq.
    rewrite Fi_aset_neq by (try assumption; apply snoc_neq_self). rewrite HFp. split.
    + intros [= <-]. exists p. split; [reflexivity|]. rewrite HCh, Nat.eqb_refl, str_eqb_refl. reflexivity.
    + intros (q & [= <-] & Hq). rewrite HCh, Nat.eqb_refl, str_eqb_refl in Hq. exact Hq.
  - rewrite Fi_aset_neq by (try assumption; apply gcs_snoc; assumption).
    rewrite (hi_edge _ _ Hinv cs c' i Hcs Hc').
    destruct (cs_eq_dec cs (ps ++ [c])) as [->|Hne2].
    + rewrite Fi_aset_eq. rewrite HFn. split.
      * intros (q & Hq & _). discriminate.
      * intros (q & [= <-] & Hq). rewrite HCh in Hq.
        destruct (Nat.eqb_spec p t) as [E|_]; [congruence|]. cbn [andb] in Hq. rewrite Htleaf in Hq. discriminate.
    + rewrite Fi_aset_neq by assumption.
      split; intros (q & Hq & Hqc); exists q; (split; [exact Hq|]).
      * rewrite HCh. destruct (Nat.eqb_spec p q) as [<-|_]; [|exact Hqc].
        destruct (str_eqb_spec c' c) as [->|_]; [|exact Hqc]. exfalso. apply Hne.
        rewrite (dir_key_unique idx h Hinv cs ps p Hcs Hps Hq HFp Hpd). reflexivity.
      * rewrite HCh in Hqc. destruct (Nat.eqb_spec p q) as [<-|_]; [|exact Hqc].
        destruct (str_eqb_spec c' c) as [->|_]; [|exact Hqc]. exfalso. apply Hne.
        rewrite (dir_key_unique idx h Hinv cs ps p Hcs Hps Hq HFp Hpd). reflexivity.
Qed.

(* ---- P3: a second name for an existing file (Link) ------------------------------------------ *)
Lemma hinv_link idx h ps c p pn oc ocn :
  hinv idx h -> gcs ps -> good_comp c ->
  Fi idx ps = Some p -> oget h p = Some pn -> on_dir pn = true ->
  Fi idx (ps ++ [c]) = None ->
  oget h oc = Some ocn -> on_dir ocn = false ->
  hinv (aset str_eqb (rpath (ps ++ [c])) oc idx)
       (oupd (o_add_child h p c oc) oc (on_with_nlink ocn (on_nlink ocn + 1))).
Proof.
  intros Hinv Hps Hc HFp Hp Hpd HFn Hoc Hocd.
  assert (Hgk : gcs (ps ++ [c])) by (apply gcs_snoc; assumption).
  assert (HKnil : rpath (ps ++ [c]) <> []) by apply rpath_snoc_not_nil.
  assert (HKsl : rpath (ps ++ [c]) <> [SLASH]) by (apply rpath_not_slash; apply gcs_ok; exact Hgk).
  assert (Hne : oc <> p) by (intros ->; rewrite Hp in Hoc; inversion Hoc; subst; congruence).
  assert (Hoc0 : oc <> 0).
  { intros ->. destruct (hi_rootdir _ _ Hinv) as (r & Hr & Hrd). rewrite Hoc in Hr. inversion Hr; subst. congruence. }
  assert (Hoc1 : oget (o_add_child h p c oc) oc = Some ocn).
  { unfold o_add_child. rewrite Hp. rewrite (oget_oupd _ _ _ _ _ Hp).
    destruct (Nat.eqb_spec p oc) as [E|_]; [congruence|exact Hoc]. }
  assert (Hget : forall i, oget (oupd (o_add_child h p c oc) oc (on_with_nlink ocn (on_nlink ocn + 1))) i =
            if Nat.eqb oc i then Some (on_with_nlink ocn (on_nlink ocn + 1))
            else if Nat.eqb p i then Some (on_with_ch pn (aset str_eqb c oc (on_ch pn))) else oget h i).
  { intros i. rewrite (oget_oupd _ _ _ _ _ Hoc1). destruct (Nat.eqb oc i); [reflexivity|].
    unfold o_add_child. rewrite Hp. apply (oget_oupd _ _ _ _ _ Hp). }
  assert (HCh : forall q c', Ch (oupd (o_add_child h p c oc) oc (on_with_nlink ocn (on_nlink ocn + 1))) q c' =
            if Nat.eqb p q && str_eqb c' c then Some oc else Ch h q c').
  { intros q c'. rewrite (Ch_oupd_same _ _ _ _ Hoc1) by reflexivity. apply (Ch_add_child _ _ _ _ _ Hp). }
  assert (Hleaf : forall c', Ch h oc c' = None).
  { intros c'. unfold Ch. rewrite Hoc. rewrite (hi_leaf _ _ Hinv _ _ Hoc Hocd). reflexivity. }
  constructor.
  - apply nodup_aset. apply (hi_nodup _ _ Hinv).
  - intros k i Hk. unfold ikey in Hk. destruct (str_eqb_spec k (rpath (ps ++ [c]))) as [->|Hnk].
    + right. exists (ps ++ [c]). auto.
    + rewrite al_aset_neq in Hk by exact Hnk. apply (hi_keys _ _ Hinv _ _ Hk).
  - unfold ikey. rewrite !al_aset_neq by congruence. apply (hi_root _ _ Hinv).
  - destruct (hi_rootdir _ _ Hinv) as (r & Hr & Hrd). unfold is_dir_at. rewrite Hget.
    destruct (Nat.eqb_spec oc 0) as [E|_]; [congruence|].
    destruct (Nat.eqb_spec p 0) as [->|_]; [|eauto].
    eexists. split; [reflexivity|]. rewrite Hp in Hr. inversion Hr; subst. exact Hrd.
  - intros cs Hcs HF. destruct (cs_eq_dec cs (ps ++ [c])) as [->|Hnc].
    + rewrite Fi_aset_eq in HF. congruence.
    + rewrite Fi_aset_neq in HF by assumption. apply (hi_rootkey _ _ Hinv _ Hcs HF).
  - intros k i Hk. unfold ikey in Hk. rewrite Hget. destruct (str_eqb_spec k (rpath (ps ++ [c]))) as [->|Hnk].
    + rewrite al_aset_eq in Hk. inversion Hk; subst i. rewrite Nat.eqb_refl. eauto.
    + rewrite al_aset_neq in Hk by exact Hnk. destruct (hi_valid _ _ Hinv _ _ Hk) as (n & Hn).
      destruct (Nat.eqb oc i); [eauto|]. destruct (Nat.eqb p i); eauto.
  - apply (edge_add idx h _ ps c p oc Hinv Hps Hc HFp); try assumption. exists pn. auto.
  - intros i n Hn Hnd. rewrite Hget in Hn. destruct (Nat.eqb oc i).
    + inversion Hn; subst n. cbn [on_with_nlink on_ch]. apply (hi_leaf _ _ Hinv _ _ Hoc Hocd).
    + destruct (Nat.eqb p i).
      * inversion Hn; subst n. change (on_dir pn = false) in Hnd. congruence.
      * apply (hi_leaf _ _ Hinv _ _ Hn Hnd).
  - intros i n Hn Hi0. rewrite Hget in Hn. unfold kcount.
    rewrite kcount_aset_new by exact HFn. fold (kcount i idx). cbv beta.
    destruct (Nat.eqb_spec oc i) as [<-|Hoi].
    + inversion Hn; subst n. cbn [on_with_nlink on_nlink].
      rewrite (hi_nlink _ _ Hinv _ _ Hoc Hi0). lia.
    + rewrite Nat.add_0_r. destruct (Nat.eqb p i) eqn:Epi.
      * apply Nat.eqb_eq in Epi. subst i. inversion Hn; subst n. cbn [on_with_ch on_nlink]. apply (hi_nlink _ _ Hinv _ _ Hp Hi0).
      * apply (hi_nlink _ _ Hinv _ _ Hn Hi0).
  - intros i n Hn Hnd. rewrite Hget in Hn. destruct (Nat.eqb oc i).
    + inversion Hn; subst n. change (on_dir ocn = true) in Hnd. congruence.
    + destruct (Nat.eqb p i).
      * inversion Hn; subst n. cbn [on_with_ch on_nlink]. apply (hi_dirnlink _ _ Hinv _ _ Hp Hpd).
      * apply (hi_dirnlink _ _ Hinv _ _ Hn Hnd).
  - intros i n c' j Hn Hin. rewrite Hget in Hn. destruct (Nat.eqb oc i).
    + inversion Hn; subst n. cbn [on_with_nlink on_ch] in Hin. apply (hi_chgood _ _ Hinv _ _ _ _ Hoc Hin).
    + destruct (Nat.eqb p i).
      * inversion Hn; subst n. cbn [on_with_ch on_ch] in Hin. apply in_aset_cases in Hin.
        destruct Hin as [[-> _]|Hin]; [exact Hc|]. apply (hi_chgood _ _ Hinv _ _ _ _ Hp Hin).
      * apply (hi_chgood _ _ Hinv _ _ _ _ Hn Hin).
  - intros i n Hn. rewrite Hget in Hn. destruct (Nat.eqb oc i).
    + inversion Hn; subst n. cbn [on_with_nlink on_ch]. apply (hi_chnodup _ _ Hinv _ _ Hoc).
    + destruct (Nat.eqb p i).
      * inversion Hn; subst n. cbn [on_with_ch on_ch]. apply nodup_aset. apply (hi_chnodup _ _ Hinv _ _ Hp).
      * apply (hi_chnodup _ _ Hinv _ _ Hn).
Qed.

(* ---- P4: a name of a childless node goes away (Remove; the destination of Rename) ---------------- *)
Lemma hinv_unlink idx h ps c p pn t tn :
  hinv idx h -> gcs ps -> good_comp c ->
  Fi idx ps = Some p -> oget h p = Some pn ->
  Fi idx (ps ++ [c]) = Some t -> oget h t = Some tn -> on_ch tn = [] ->
  hinv (aremove str_eqb (rpath (ps ++ [c])) idx) (o_del_child (o_release h t) p c).
Proof.
  intros Hinv Hps Hc HFp Hp HFt Ht Htch.
  assert (Hgk : gcs (ps ++ [c])) by (apply gcs_snoc; assumption).
  assert (HKnil : rpath (ps ++ [c]) <> []) by apply rpath_snoc_not_nil.
  assert (HKsl : rpath (ps ++ [c]) <> [SLASH]) by (apply rpath_not_slash; apply gcs_ok; exact Hgk).
  destruct (parent_is_dir idx h Hinv ps c t Hps Hc HFt) as (p' & pn' & HFp' & Hp' & Hpd & Hpc).
  rewrite HFp in HFp'. inversion HFp'; subst p'. rewrite Hp in Hp'. inversion Hp'; subst pn'. clear HFp' Hp'.
  assert (Ht0 : t <> 0).
  { intros ->. pose proof (hi_rootkey _ _ Hinv _ Hgk HFt) as E. destruct ps; discriminate. }
  assert (Htp : t <> p).
  { intros ->. pose proof (dir_key_unique idx h Hinv _ _ p Hgk Hps HFt HFp) as E.
    apply (snoc_neq_self _ ps c). symmetry. apply E. exists pn. auto. }
  assert (Hp1 : oget (o_release h t) p = Some pn).
  { unfold o_release. rewrite Ht. rewrite (oget_oupd _ _ _ _ _ Ht). destruct (Nat.eqb_spec t p); [congruence|exact Hp]. }
  assert (Hget : forall i, oget (o_del_child (o_release h t) p c) i =
            if Nat.eqb p i then Some (on_with_ch pn (aremove str_eqb c (on_ch pn)))
            else if Nat.eqb t i then Some (on_remove tn) else oget h i).
  { intros i. unfold o_del_child. rewrite Hp1. rewrite (oget_oupd _ _ _ _ _ Hp1).
    destruct (Nat.eqb p i); [reflexivity|]. unfold o_release. rewrite Ht. apply (oget_oupd _ _ _ _ _ Ht). }
  assert (HCh : forall q c', Ch (o_del_child (o_release h t) p c) q c' =
            if Nat.eqb p q && str_eqb c' c then None else Ch h q c').
  { intros q c'. rewrite (Ch_del_child _ _ _ _ Hp1). destruct (Nat.eqb p q && str_eqb c' c); [reflexivity|].
    rewrite (Ch_release _ _ _ Ht). destruct (Nat.eqb_spec t q) as [<-|_]; [|reflexivity].
    unfold Ch. rewrite Ht, Htch. reflexivity. }
  constructor.
  - apply nodup_aremove. apply (hi_nodup _ _ Hinv).
  - intros k i Hk. unfold ikey in Hk. destruct (str_eqb_spec k (rpath (ps ++ [c]))) as [->|Hnk].
    + rewrite al_aremove_eq in Hk. discriminate.
    + rewrite al_aremove_neq in Hk by exact Hnk. apply (hi_keys _ _ Hinv _ _ Hk).
  - unfold ikey. rewrite !al_aremove_neq by congruence. apply (hi_root _ _ Hinv).
  - destruct (hi_rootdir _ _ Hinv) as (r & Hr & Hrd). unfold is_dir_at. rewrite Hget.
    destruct (Nat.eqb_spec p 0) as [->|_].
    + eexists. split; [reflexivity|]. exact Hpd.
    + destruct (Nat.eqb_spec t 0) as [E|_]; [congruence|eauto].
  - intros cs Hcs HF. destruct (cs_eq_dec cs (ps ++ [c])) as [->|Hnc].
    + rewrite Fi_aremove_eq in HF. discriminate.
    + rewrite Fi_aremove_neq in HF by assumption. apply (hi_rootkey _ _ Hinv _ Hcs HF).
  - intros k i Hk. unfold ikey in Hk. rewrite Hget. destruct (str_eqb_spec k (rpath (ps ++ [c]))) as [->|Hnk].
    + rewrite al_aremove_eq in Hk. discriminate.
    + rewrite al_aremove_neq in Hk by exact Hnk. destruct (hi_valid _ _ Hinv _ _ Hk) as (n & Hn).
      destruct (Nat.eqb p i); [eauto|]. destruct (Nat.eqb t i); eauto.
  - intros cs c' i Hcs Hc'.
    destruct (cs_eq_dec (cs ++ [c']) (ps ++ [c])) as [E|Hne].
    + apply app_inj_tail in E. destruct E as [-> ->]. rewrite Fi_aremove_eq.
      rewrite Fi_aremove_neq by (try assumption; apply snoc_neq_self). rewrite HFp. split; [discriminate|].
      intros (q & [= <-] & Hq). rewrite HCh, Nat.eqb_refl, str_eqb_refl in Hq. discriminate.
    + rewrite Fi_aremove_neq by (try assumption; apply gcs_snoc; assumption).
      rewrite (hi_edge _ _ Hinv cs c' i Hcs Hc').
      destruct (cs_eq_dec cs (ps ++ [c])) as [->|Hne2].
      * rewrite Fi_aremove_eq. rewrite HFt. split.
        -- intros (q & [= <-] & Hq). unfold Ch in Hq. rewrite Ht, Htch in Hq. discriminate.
        -- intros (q & Hq & _). discriminate.
      * rewrite Fi_aremove_neq by assumption.
        split; intros (q & Hq & Hqc); exists q; (split; [exact Hq|]).
        -- rewrite HCh. destruct (Nat.eqb_spec p q) as [<-|_]; [|exact Hqc].
           destruct (str_eqb_spec c' c) as [->|_]; [|exact Hqc]. exfalso. apply Hne.
           rewrite (dir_key_unique idx h Hinv cs ps p Hcs Hps Hq HFp); [reflexivity|]. exists pn. auto.
        -- rewrite HCh in Hqc. destruct (Nat.eqb p q && str_eqb c' c); [discriminate|exact Hqc].
  - intros i n Hn Hnd. rewrite Hget in Hn. destruct (Nat.eqb p i).
    + inversion Hn; subst n. change (on_dir pn = false) in Hnd. congruence.
    + destruct (Nat.eqb t i); [inversion Hn; subst; reflexivity|]. apply (hi_leaf _ _ Hinv _ _ Hn Hnd).
  - intros i n Hn Hi0. rewrite Hget in Hn.
    pose proof (kcount_aremove nat (fun v => Nat.eqb v i) _ _ _ (hi_nodup _ _ Hinv) HFt) as Hk. cbv beta in Hk.
    fold (kcount i idx) in Hk. fold (kcount i (aremove str_eqb (rpath (ps ++ [c])) idx)) in Hk.
    destruct (Nat.eqb_spec p i) as [<-|Hpi].
    + inversion Hn; subst n. cbn [on_with_ch on_nlink]. rewrite (hi_nlink _ _ Hinv _ _ Hp Hi0).
      destruct (Nat.eqb_spec t p); [congruence|]. f_equal. lia.
    + destruct (Nat.eqb_spec t i) as [<-|Hti].
      * inversion Hn; subst n. cbn [on_remove on_nlink]. rewrite (hi_nlink _ _ Hinv _ _ Ht Hi0). lia.
      * rewrite (hi_nlink _ _ Hinv _ _ Hn Hi0). f_equal. lia.
  - intros i n Hn Hnd. rewrite Hget in Hn. destruct (Nat.eqb p i).
    + inversion Hn; subst n. cbn [on_with_ch on_nlink]. apply (hi_dirnlink _ _ Hinv _ _ Hp Hpd).
    + destruct (Nat.eqb t i).
      * inversion Hn; subst n. change (on_dir tn = true) in Hnd. cbn [on_remove on_nlink].
        pose proof (hi_dirnlink _ _ Hinv _ _ Ht Hnd). lia.
      * apply (hi_dirnlink _ _ Hinv _ _ Hn Hnd).
  - intros i n c' j Hn Hin. rewrite Hget in Hn. destruct (Nat.eqb p i).
    + inversion Hn; subst n. cbn [on_with_ch on_ch] in Hin. apply in_aremove_in in Hin.
      apply (hi_chgood _ _ Hinv _ _ _ _ Hp Hin).
    + destruct (Nat.eqb t i); [inversion Hn; subst; destruct Hin|]. apply (hi_chgood _ _ Hinv _ _ _ _ Hn Hin).
  - intros i n Hn. rewrite Hget in Hn. destruct (Nat.eqb p i).
    + inversion Hn; subst n. cbn [on_with_ch on_ch]. apply nodup_aremove. apply (hi_chnodup _ _ Hinv _ _ Hp).
    + destruct (Nat.eqb t i); [inversion Hn; subst; constructor|]. apply (hi_chnodup _ _ Hinv _ _ Hn).
Qed.

(* ---- keys below keys ------------------------------------------------------------------------- *)
Lemma Fi_prefix_closed idx h : hinv idx h -> forall rest cs, gcs cs -> gcs rest ->
  Fi idx (cs ++ rest) <> None -> Fi idx cs <> None.
Proof.
  intros Hinv rest. induction rest as [|c r IH] using rev_ind; intros cs Hcs Hr HF.
  - rewrite app_nil_r in HF. exact HF.
  - apply gcs_snoc_inv in Hr. destruct Hr as [Hr Hc]. rewrite app_assoc in HF.
    destruct (Fi idx ((cs ++ r) ++ [c])) as [i|] eqn:E; [|congruence].
    apply (hi_edge _ _ Hinv) in E; [|apply gcs_app; assumption|exact Hc].
    destruct E as (p & Hp & _). apply IH; [exact Hcs|exact Hr|congruence].
Qed.

Lemma Fi_below_leaf idx h cs t c rest : hinv idx h -> gcs cs -> gcs (c :: rest) ->
  Fi idx cs = Some t -> (forall c', Ch h t c' = None) -> Fi idx (cs ++ c :: rest) = None.
Proof.
  intros Hinv Hcs Hr Ht Hleaf. inversion Hr as [|? ? Hc Hrest]; subst.
  destruct (Fi idx (cs ++ c :: rest)) as [i|] eqn:E; [exfalso|reflexivity].
  assert (H1 : Fi idx ((cs ++ [c]) ++ rest) <> None) by (rewrite <- app_assoc; cbn [app]; congruence).
  apply (Fi_prefix_closed idx h Hinv rest (cs ++ [c])) in H1; [|apply gcs_snoc; assumption|exact Hrest].
  destruct (Fi idx (cs ++ [c])) as [j|] eqn:E2; [|congruence].
  apply (hi_edge _ _ Hinv) in E2; [|exact Hcs|exact Hc]. destruct E2 as (p & Hp & Hq).
  rewrite Ht in Hp. inversion Hp; subst p. rewrite Hleaf in Hq. discriminate.
Qed.

Lemma Fi_below_none idx h cs c rest : hinv idx h -> gcs cs -> gcs (c :: rest) ->
  Fi idx cs = None -> Fi idx (cs ++ c :: rest) = None.
Proof.
  intros Hinv Hcs Hr Hn. destruct (Fi idx (cs ++ c :: rest)) as [i|] eqn:E; [exfalso|reflexivity].
  apply (Fi_prefix_closed idx h Hinv (c :: rest) cs Hcs Hr); congruence.
Qed.

(* ---- P5: a node moves from one name to another (Rename) ---------------------------------------- *)
(* the node map after the move, as a function of the components:
   below the new name what was below the old one, nothing below the old name, the rest unchanged *)
Definition Gmove (idx : list (str * nat)) (old new cs : list str) : option nat :=
  match strip new cs with
  | Some r => Fi idx (old ++ r)
  | None => match strip old cs with Some _ => None | None => Fi idx cs end
  end.

Record move_spec (idx idx' : list (str * nat)) (old new : list str) (nc : option nat) : Prop := {
  ms_nodup : NoDup (map fst idx');
  ms_keys : forall k i, ikey idx' k = Some i -> (k = [SLASH] /\ i = 0) \/ exists cs, gcs cs /\ k = rpath cs;
  ms_root : ikey idx' [] = Some 0 /\ ikey idx' [SLASH] = Some 0;
  ms_F : forall cs, gcs cs -> Fi idx' cs = Gmove idx old new cs;
  ms_vals : forall k i, ikey idx' k = Some i -> exists k0, ikey idx k0 = Some i;
  ms_count : forall i, kcount i idx' + (match nc with Some j => if Nat.eqb j i then 1 else 0 | None => 0 end) = kcount i idx
}.

Lemma hinv_move idx idx' h ops on nps nn op oc ocn np npn nc :
  hinv idx h -> gcs ops -> good_comp on -> gcs nps -> good_comp nn ->
  Fi idx ops = Some op -> Fi idx (ops ++ [on]) = Some oc -> oget h oc = Some ocn ->
  Fi idx nps = Some np -> oget h np = Some npn -> on_dir npn = true ->
  (forall r, nps ++ [nn] <> (ops ++ [on]) ++ r) ->
  Fi idx (nps ++ [nn]) = nc ->
  (forall j, nc = Some j -> j <> oc /\ exists jn, oget h j = Some jn /\ on_dir jn = false /\ on_dir ocn = false) ->
  move_spec idx idx' (ops ++ [on]) (nps ++ [nn]) nc ->
  hinv idx' (o_del_child (o_add_child (match nc with Some j => o_release h j | None => h end) np nn oc) op on).
Proof.
  intros Hinv Hops Hon Hnps Hnn HFop HFoc Hoc HFnp Hnp Hnpd Hnb HFnc Hnc Hms.
  set (old := ops ++ [on]) in *. set (new := nps ++ [nn]) in *.
  assert (Hgo : gcs old) by (apply gcs_snoc; assumption).
  assert (Hgn : gcs new) by (apply gcs_snoc; assumption).
  destruct (parent_is_dir idx h Hinv ops on oc Hops Hon HFoc) as (op' & opn & HFop' & Hop & Hopd & Hopc).
  rewrite HFop in HFop'. inversion HFop'; subst op'. clear HFop'.
  assert (Hoc0 : oc <> 0).
  { intros ->. pose proof (hi_rootkey _ _ Hinv _ Hgo HFoc) as E. unfold old in E. destruct ops; discriminate. }
  assert (Hocop : oc <> op).
  { intros ->. pose proof (dir_key_unique idx h Hinv _ _ op Hgo Hops HFoc HFop) as E.
    apply (snoc_neq_self _ ops on). symmetry. apply E. exists opn. auto. }
  (* the replaced node is a file different from everything involved *)
  assert (Hncf : forall j, nc = Some j -> j <> oc /\ j <> op /\ j <> np /\ (forall c', Ch h j c' = None)).
  { intros j Hj. destruct (Hnc j Hj) as (H1 & jn & Hjn & Hjd & _). repeat split; [exact H1| | |].
    - intros ->. rewrite Hop in Hjn. inversion Hjn; subst. congruence.
    - intros ->. rewrite Hnp in Hjn. inversion Hjn; subst. congruence.
    - intros c'. unfold Ch. rewrite Hjn. rewrite (hi_leaf _ _ Hinv _ _ Hjn Hjd). reflexivity. }
  (* nothing lies below the new name *)
  assert (Hbelow_new : forall c r, gcs (c :: r) -> Fi idx (new ++ c :: r) = None).
  { intros c r Hcr. destruct nc as [j|] eqn:Enc.
    - destruct (Hncf j eq_refl) as (_ & _ & _ & Hl). apply (Fi_below_leaf idx h new j c r Hinv Hgn Hcr HFnc Hl).
    - apply (Fi_below_none idx h new c r Hinv Hgn Hcr HFnc). }
  (* hence the old name is not below the new one *)
  assert (Hob : forall r, old <> new ++ r).
  { intros r E. destruct r as [|c r].
    - rewrite app_nil_r in E. apply (Hnb []). rewrite app_nil_r. symmetry. exact E.
    - assert (Hcr : gcs (c :: r)). { rewrite E in Hgo. apply Forall_app in Hgo. apply Hgo. }
      rewrite E in HFoc. rewrite (Hbelow_new c r Hcr) in HFoc. discriminate. }
  set (h1 := match nc with Some j => o_release h j | None => h end).
  assert (Hh1 : forall i, oget h1 i = match nc with
                                      | Some j => if Nat.eqb j i then option_map on_remove (oget h j) else oget h i
                                      | None => oget h i end).
  { intros i. unfold h1. destruct nc as [j|]; [|reflexivity].
    destruct (Hnc j eq_refl) as (_ & jn & Hjn & _). unfold o_release. rewrite Hjn.
    rewrite (oget_oupd _ _ _ _ _ Hjn). destruct (Nat.eqb j i); reflexivity. }
  assert (Hnp1 : oget h1 np = Some npn).
  { rewrite Hh1. destruct nc as [j|]; [|exact Hnp]. destruct (Hncf j eq_refl) as (_ & _ & Hjnp & _).
    destruct (Nat.eqb_spec j np); [congruence|exact Hnp]. }
  assert (Hop1 : oget h1 op = Some opn).
  { rewrite Hh1. destruct nc as [j|]; [|exact Hop]. destruct (Hncf j eq_refl) as (_ & Hjop & _ & _).
    destruct (Nat.eqb_spec j op); [congruence|exact Hop]. }
  set (h2 := o_add_child h1 np nn oc).
  assert (Hop2 : exists opn2, oget h2 op = Some opn2 /\ on_nlink opn2 = on_nlink opn /\ on_dir opn2 = true
                 /\ on_ch opn2 = (if Nat.eqb np op then aset str_eqb nn oc (on_ch opn) else on_ch opn)).
  { unfold h2, o_add_child. rewrite Hnp1. rewrite (oget_oupd _ _ _ _ _ Hnp1).
    destruct (Nat.eqb_spec np op) as [E|_].
    - subst np. rewrite Hop1 in Hnp1. inversion Hnp1; subst npn. eexists. split; [reflexivity|]. cbn. auto.
    - exists opn. auto. }
  destruct Hop2 as (opn2 & Hop2 & Hop2l & Hop2d & Hop2c).
  set (h3 := o_del_child h2 op on).
  (* the children maps of the final heap *)
  assert (HCh : forall q c', Ch h3 q c' =
            if Nat.eqb op q && str_eqb c' on then None
            else if Nat.eqb np q && str_eqb c' nn then Some oc
            else match nc with Some j => if Nat.eqb j q then None else Ch h q c' | None => Ch h q c' end).
  { intros q c'. unfold h3. rewrite (Ch_del_child _ _ _ _ Hop2). destruct (Nat.eqb op q && str_eqb c' on); [reflexivity|].
    unfold h2. rewrite (Ch_add_child _ _ _ _ _ Hnp1). destruct (Nat.eqb np q && str_eqb c' nn); [reflexivity|].
    unfold h1. destruct nc as [j|]; [|reflexivity]. destruct (Hnc j eq_refl) as (_ & jn & Hjn & _).
    apply (Ch_release _ _ _ Hjn). }
  (* reading the final heap *)
  assert (Hget : forall i n, oget h3 i = Some n ->
            (i = op /\ on_nlink n = on_nlink opn /\ on_dir n = true /\
               (forall c' j, In (c', j) (on_ch n) -> c' = nn \/ In (c', j) (on_ch opn)) /\ NoDup (map fst (on_ch n)))
            \/ (i <> op /\ i = np /\ on_nlink n = on_nlink npn /\ on_dir n = true /\
               (forall c' j, In (c', j) (on_ch n) -> c' = nn \/ In (c', j) (on_ch npn)) /\ NoDup (map fst (on_ch n)))
            \/ (i <> op /\ i <> np /\ nc = Some i /\ exists jn, oget h i = Some jn /\ n = on_remove jn)
            \/ (i <> op /\ i <> np /\ nc <> Some i /\ oget h i = Some n)).
  { intros i n Hn. unfold h3, o_del_child in Hn. rewrite Hop2 in Hn. rewrite (oget_oupd _ _ _ _ _ Hop2) in Hn.
    destruct (Nat.eqb_spec op i) as [<-|Hopi].
    - left. inversion Hn; subst n. cbn [on_with_ch on_nlink on_ch]. split; [reflexivity|]. split; [exact Hop2l|].
      split; [exact Hop2d|]. split.
      + intros c' j Hin. apply in_aremove_in in Hin. rewrite Hop2c in Hin. destruct (Nat.eqb np op).
        * apply in_aset_cases in Hin. destruct Hin as [[-> _]|Hin]; auto.
        * auto.
      + apply nodup_aremove. rewrite Hop2c. destruct (Nat.eqb np op); [apply nodup_aset|]; apply (hi_chnodup _ _ Hinv _ _ Hop).
    - right. unfold h2, o_add_child in Hn. rewrite Hnp1 in Hn. rewrite (oget_oupd _ _ _ _ _ Hnp1) in Hn.
      destruct (Nat.eqb_spec np i) as [<-|Hnpi].
      + left. inversion Hn; subst n. cbn [on_with_ch on_nlink on_ch]. repeat split; auto.
        * intros c' j Hin. apply in_aset_cases in Hin. destruct Hin as [[-> _]|Hin]; auto.
        * apply nodup_aset. apply (hi_chnodup _ _ Hinv _ _ Hnp).
      + right. rewrite Hh1 in Hn. destruct nc as [j|].
        * destruct (Nat.eqb_spec j i) as [->|Hji].
          -- left. repeat split; auto. destruct (oget h i) as [jn|]; [|discriminate]. cbn in Hn. inversion Hn. eauto.
          -- right. repeat split; auto. congruence.
        * right. repeat split; auto. discriminate. }
  assert (Hlen : length h3 = length h).
  { unfold h3, o_del_child. destruct (oget h2 op); [rewrite oupd_length|].
    all: unfold h2, o_add_child; destruct (oget h1 np); [rewrite oupd_length|].
    all: unfold h1; destruct nc as [j|]; [unfold o_release; destruct (oget h j); [rewrite oupd_length|]|]; reflexivity. }
  assert (Hfwd : forall i x, oget h i = Some x -> exists n, oget h3 i = Some n /\ on_dir n = on_dir x).
  { intros i x Hx. destruct (oget_lt_some h3 i) as (n & Hn); [rewrite Hlen; eapply oget_some_lt; exact Hx|].
    exists n. split; [exact Hn|].
    destruct (Hget i n Hn) as [(-> & _ & Hd & _)|[(_ & -> & _ & Hd & _)|[(_ & _ & _ & jn & Hjn & ->)|(_ & _ & _ & Hold)]]].
    - rewrite Hop in Hx. inversion Hx; subst. congruence.
    - rewrite Hnp in Hx. inversion Hx; subst. congruence.
    - rewrite Hjn in Hx. inversion Hx; subst. reflexivity.
    - rewrite Hold in Hx. inversion Hx; subst. reflexivity. }
  assert (Hold_ne : old <> []) by (unfold old; destruct ops; discriminate).
  constructor.
  - apply (ms_nodup _ _ _ _ _ Hms).
  - apply (ms_keys _ _ _ _ _ Hms).
  - apply (ms_root _ _ _ _ _ Hms).
  - destruct (hi_rootdir _ _ Hinv) as (r & Hr & Hrd). destruct (Hfwd 0 r Hr) as (n & Hn & Hd).
    exists n. split; [exact Hn|congruence].
  - intros cs Hcs HF. rewrite (ms_F _ _ _ _ _ Hms cs Hcs) in HF. unfold Gmove in HF.
    destruct (strip new cs) as [r|] eqn:E1.
    + apply strip_some in E1. subst cs. apply Forall_app in Hcs. destruct Hcs as [_ Hr].
      pose proof (hi_rootkey _ _ Hinv _ (gcs_app _ _ Hgo Hr) HF) as E. destruct old; [congruence|discriminate].
    + destruct (strip old cs); [discriminate|]. apply (hi_rootkey _ _ Hinv _ Hcs HF).
  - intros k i Hk. destruct (ms_vals _ _ _ _ _ Hms _ _ Hk) as (k0 & Hk0).
    destruct (hi_valid _ _ Hinv _ _ Hk0) as (x & Hx). destruct (Hfwd i x Hx) as (n & Hn & _). eauto.
  - intros cs c' i Hcs Hc'.
    rewrite (ms_F _ _ _ _ _ Hms (cs ++ [c']) (gcs_snoc _ _ Hcs Hc')).
    assert (HGcs : forall q, (Fi idx' cs = Some q) <-> (Gmove idx old new cs = Some q))
      by (intros q; rewrite (ms_F _ _ _ _ _ Hms cs Hcs); reflexivity).
    assert (Hrhs : (exists q, Fi idx' cs = Some q /\ Ch h3 q c' = Some i) <->
                   (exists q, Gmove idx old new cs = Some q /\ Ch h3 q c' = Some i)).
    { split; intros (q & Hq & Hqc); exists q; (split; [apply HGcs; exact Hq|exact Hqc]). }
    rewrite Hrhs. clear Hrhs HGcs. unfold Gmove.
    destruct (strip new (cs ++ [c'])) as [r|] eqn:EA.
    + apply strip_some in EA. destruct (snoc_eq_app _ _ _ _ EA) as [[-> Enew]|(r' & -> & Ecs)].
      * (* the new name itself *)
        unfold new in Enew. apply app_inj_tail in Enew. destruct Enew as [<- <-].
        rewrite app_nil_r. fold old. rewrite HFoc.
        assert (E1 : strip new nps = None).
        { apply strip_none. intros r E. apply (f_equal (@length str)) in E. unfold new in E. rewrite !app_length in E. cbn in E. lia. }
        assert (E2 : strip old nps = None).
        { apply strip_none. intros r E. apply (Hnb (r ++ [nn])). rewrite app_assoc. rewrite <- E. reflexivity. }
        rewrite E1, E2, HFnp.
        assert (Hch : Ch h3 np nn = Some oc).
        { rewrite HCh. destruct (Nat.eqb_spec op np) as [E|_].
          - destruct (str_eqb_spec nn on) as [E'|_]; cbn [andb].
            + exfalso. apply (Hnb []). rewrite app_nil_r. unfold new, old. rewrite E'. rewrite E in HFop.
              rewrite (dir_key_unique idx h Hinv nps ops np Hnps Hops HFnp HFop); [reflexivity|]. exists npn. auto.
            + rewrite Nat.eqb_refl, str_eqb_refl. reflexivity.
          - cbn [andb]. rewrite Nat.eqb_refl, str_eqb_refl. reflexivity. }
        split.
        -- intros [= <-]. exists np. auto.
        -- intros (q & [= <-] & Hq). congruence.
      * (* strictly below the new name *)
        subst cs. apply Forall_app in Hcs. destruct Hcs as [_ Hr'].
        rewrite strip_app. rewrite app_assoc.
        rewrite (hi_edge _ _ Hinv (old ++ r') c' i (gcs_app _ _ Hgo Hr') Hc').
        split; intros (q & Hq & Hqc); exists q; (split; [exact Hq|]).
        -- rewrite HCh.
           destruct (Nat.eqb_spec op q) as [<-|_].
           { exfalso. pose proof (dir_key_unique idx h Hinv _ _ op (gcs_app _ _ Hgo Hr') Hops Hq HFop) as E.
             assert (Hd : is_dir_at h op) by (exists opn; auto). specialize (E Hd).
             apply (f_equal (@length str)) in E. unfold old in E. rewrite !app_length in E. cbn in E. lia. }
           cbn [andb]. destruct (Nat.eqb_spec np q) as [<-|_].
           { exfalso. pose proof (dir_key_unique idx h Hinv _ _ np (gcs_app _ _ Hgo Hr') Hnps Hq HFnp) as E.
             assert (Hd : is_dir_at h np) by (exists npn; auto). specialize (E Hd).
             apply (Hnb (r' ++ [nn])). rewrite app_assoc, E. reflexivity. }
           cbn [andb]. destruct nc as [j|]; [|exact Hqc].
           destruct (Nat.eqb_spec j q) as [->|_]; [|exact Hqc].
           destruct (Hncf q eq_refl) as (_ & _ & _ & Hl). rewrite Hl in Hqc. discriminate.
        -- rewrite HCh in Hqc. destruct (Nat.eqb op q && str_eqb c' on); [discriminate|].
           destruct (Nat.eqb_spec np q) as [<-|_].
           { exfalso. pose proof (dir_key_unique idx h Hinv _ _ np (gcs_app _ _ Hgo Hr') Hnps Hq HFnp) as E.
             assert (Hd : is_dir_at h np) by (exists npn; auto). specialize (E Hd).
             apply (Hnb (r' ++ [nn])). rewrite app_assoc, E. reflexivity. }
           cbn [andb] in Hqc. destruct nc as [j|]; [|exact Hqc].
           destruct (Nat.eqb j q); [discriminate|exact Hqc].
    + destruct (strip old (cs ++ [c'])) as [r|] eqn:EB.
      * (* at or below the old name: gone *)
        split; [discriminate|]. intros (q & Hq & Hqc). exfalso.
        apply strip_some in EB. destruct (snoc_eq_app _ _ _ _ EB) as [[-> Eold]|(r' & -> & Ecs)].
        -- unfold old in Eold. apply app_inj_tail in Eold. destruct Eold as [<- <-].
           assert (E1 : strip new ops = None).
           { apply strip_none. intros r E. apply (Hob (r ++ [on])). unfold old. rewrite E, <- app_assoc. reflexivity. }
           assert (E2 : strip old ops = None).
           { apply strip_none. intros r E. apply (f_equal (@length str)) in E. unfold old in E. rewrite !app_length in E. cbn in E. lia. }
           rewrite E1, E2, HFop in Hq. inversion Hq; subst q.
           rewrite HCh, Nat.eqb_refl, str_eqb_refl in Hqc. discriminate.
        -- subst cs.
           assert (E1 : strip new (old ++ r') = None).
           { apply strip_none. intros r E. apply (proj1 (strip_none new ((old ++ r') ++ [c'])) EA (r ++ [c'])).
             rewrite E, <- app_assoc. reflexivity. }
           rewrite E1, strip_app in Hq. discriminate.
      * (* elsewhere: unchanged *)
        assert (E1 : strip new cs = None).
        { apply strip_none. intros r E. apply (proj1 (strip_none new (cs ++ [c'])) EA (r ++ [c'])). rewrite E, <- app_assoc. reflexivity. }
        assert (E2 : strip old cs = None).
        { apply strip_none. intros r E. apply (proj1 (strip_none old (cs ++ [c'])) EB (r ++ [c'])). rewrite E, <- app_assoc. reflexivity. }
        rewrite E1, E2. rewrite (hi_edge _ _ Hinv cs c' i Hcs Hc').
        split; intros (q & Hq & Hqc); exists q; (split; [exact Hq|]).
        -- rewrite HCh.
           destruct (Nat.eqb_spec op q) as [<-|_].
           { destruct (str_eqb_spec c' on) as [->|_]; cbn [andb].
             - exfalso. apply (proj1 (strip_none old (cs ++ [on])) EB []). rewrite app_nil_r. unfold old.
               rewrite (dir_key_unique idx h Hinv cs ops op Hcs Hops Hq HFop); [reflexivity|]. exists opn. auto.
             - destruct (Nat.eqb_spec np op) as [E|_].
               + destruct (str_eqb_spec c' nn) as [->|_]; cbn [andb].
                 * exfalso. apply (proj1 (strip_none new (cs ++ [nn])) EA []). rewrite app_nil_r. unfold new.
                   subst np. rewrite (dir_key_unique idx h Hinv cs nps op Hcs Hnps Hq HFnp); [reflexivity|]. exists opn. auto.
                 * destruct nc as [j|]; [|exact Hqc]. destruct (Hncf j eq_refl) as (_ & Hjop & _ & _).
                   destruct (Nat.eqb_spec j op); [congruence|exact Hqc].
               + cbn [andb]. destruct nc as [j|]; [|exact Hqc]. destruct (Hncf j eq_refl) as (_ & Hjop & _ & _).
                 destruct (Nat.eqb_spec j op); [congruence|exact Hqc]. }
           cbn [andb]. destruct (Nat.eqb_spec np q) as [<-|_].
           { destruct (str_eqb_spec c' nn) as [->|_]; cbn [andb].
             - exfalso. apply (proj1 (strip_none new (cs ++ [nn])) EA []). rewrite app_nil_r. unfold new.
               rewrite (dir_key_unique idx h Hinv cs nps np Hcs Hnps Hq HFnp); [reflexivity|]. exists npn. auto.
             - destruct nc as [j|]; [|exact Hqc]. destruct (Hncf j eq_refl) as (_ & _ & Hjnp & _).
               destruct (Nat.eqb_spec j np); [congruence|exact Hqc]. }
           cbn [andb]. destruct nc as [j|]; [|exact Hqc].
           destruct (Nat.eqb_spec j q) as [->|_]; [|exact Hqc].
           destruct (Hncf q eq_refl) as (_ & _ & _ & Hl). rewrite Hl in Hqc. discriminate.
        -- rewrite HCh in Hqc. destruct (Nat.eqb op q && str_eqb c' on); [discriminate|].
           destruct (Nat.eqb_spec np q) as [<-|_].
           { destruct (str_eqb_spec c' nn) as [->|_]; cbn [andb] in Hqc.
             - exfalso. apply (proj1 (strip_none new (cs ++ [nn])) EA []). rewrite app_nil_r. unfold new.
               rewrite (dir_key_unique idx h Hinv cs nps np Hcs Hnps Hq HFnp); [reflexivity|]. exists npn. auto.
             - destruct nc as [j|]; [|exact Hqc]. destruct (Nat.eqb j np); [discriminate|exact Hqc]. }
           cbn [andb] in Hqc. destruct nc as [j|]; [|exact Hqc]. destruct (Nat.eqb j q); [discriminate|exact Hqc].
  - intros i n Hn Hnd.
    destruct (Hget i n Hn) as [(_ & _ & Hd & _)|[(_ & _ & _ & Hd & _)|[(_ & _ & _ & jn & Hjn & ->)|(_ & _ & _ & Hold)]]]; try congruence.
    + reflexivity.
    + apply (hi_leaf _ _ Hinv _ _ Hold Hnd).
  - intros i n Hn Hi0. pose proof (ms_count _ _ _ _ _ Hms i) as Hc.
    destruct (Hget i n Hn) as [(-> & Hl & _)|[(_ & -> & Hl & _)|[(_ & _ & Enc & jn & Hjn & ->)|(_ & _ & Enc & Hold)]]].
    + rewrite Hl, (hi_nlink _ _ Hinv _ _ Hop Hi0). f_equal.
      destruct nc as [j|]; [|lia]. destruct (Hncf j eq_refl) as (_ & Hjop & _ & _). destruct (Nat.eqb_spec j op); [congruence|lia].
    + rewrite Hl, (hi_nlink _ _ Hinv _ _ Hnp Hi0). f_equal.
      destruct nc as [j|]; [|lia]. destruct (Hncf j eq_refl) as (_ & _ & Hjnp & _). destruct (Nat.eqb_spec j np); [congruence|lia].
    + cbn [on_remove on_nlink]. rewrite (hi_nlink _ _ Hinv _ _ Hjn Hi0). rewrite Enc, Nat.eqb_refl in Hc. lia.
    + rewrite (hi_nlink _ _ Hinv _ _ Hold Hi0). f_equal.
      destruct nc as [j|]; [|lia]. destruct (Nat.eqb_spec j i); [congruence|lia].
  - intros i n Hn Hnd.
    destruct (Hget i n Hn) as [(-> & Hl & _)|[(_ & -> & Hl & _)|[(_ & _ & Enc & jn & Hjn & ->)|(_ & _ & Enc & Hold)]]].
    + rewrite Hl. apply (hi_dirnlink _ _ Hinv _ _ Hop Hopd).
    + rewrite Hl. apply (hi_dirnlink _ _ Hinv _ _ Hnp Hnpd).
    + change (on_dir jn = true) in Hnd. cbn [on_remove on_nlink]. pose proof (hi_dirnlink _ _ Hinv _ _ Hjn Hnd). lia.
    + apply (hi_dirnlink _ _ Hinv _ _ Hold Hnd).
  - intros i n c' j Hn Hin.
    destruct (Hget i n Hn) as [(-> & _ & _ & Hc & _)|[(_ & -> & _ & _ & Hc & _)|[(_ & _ & Enc & jn & Hjn & ->)|(_ & _ & Enc & Hold)]]].
    + destruct (Hc _ _ Hin) as [->|Hin']; [exact Hnn|]. apply (hi_chgood _ _ Hinv _ _ _ _ Hop Hin').
    + destruct (Hc _ _ Hin) as [->|Hin']; [exact Hnn|]. apply (hi_chgood _ _ Hinv _ _ _ _ Hnp Hin').
    + destruct Hin.
    + apply (hi_chgood _ _ Hinv _ _ _ _ Hold Hin).
  - intros i n Hn.
    destruct (Hget i n Hn) as [(_ & _ & _ & _ & Hnd)|[(_ & _ & _ & _ & _ & Hnd)|[(_ & _ & Enc & jn & Hjn & ->)|(_ & _ & Enc & Hold)]]]; try exact Hnd.
    + constructor.
    + apply (hi_chnodup _ _ Hinv _ _ Hold).
Qed.

(* ---- the node map after the Rename of a file ---------------------------------------------------- *)
Lemma Gmove_cases idx old new cs :
  (exists r, cs = new ++ r /\ Gmove idx old new cs = Fi idx (old ++ r))
  \/ ((forall r, cs <> new ++ r) /\ (exists r, cs = old ++ r) /\ Gmove idx old new cs = None)
  \/ ((forall r, cs <> new ++ r) /\ (forall r, cs <> old ++ r) /\ Gmove idx old new cs = Fi idx cs).
Proof.
  unfold Gmove. destruct (strip new cs) as [r|] eqn:E1.
  - left. exists r. split; [apply strip_some; exact E1|reflexivity].
  - right. destruct (strip old cs) as [r|] eqn:E2.
    + left. split; [apply strip_none; exact E1|]. split; [exists r; apply strip_some; exact E2|reflexivity].
    + right. split; [apply strip_none; exact E1|]. split; [apply strip_none; exact E2|reflexivity].
Qed.

Lemma move_spec_file idx h old new oc nc :
  hinv idx h -> gcs old -> gcs new -> old <> [] -> new <> [] ->
  Fi idx old = Some oc -> Fi idx new = nc -> old <> new ->
  (forall c r, gcs (c :: r) -> Fi idx (old ++ c :: r) = None) ->
  (forall c r, gcs (c :: r) -> Fi idx (new ++ c :: r) = None) ->
  move_spec idx (aremove str_eqb (rpath old) (aset str_eqb (rpath new) oc idx)) old new nc.
Proof.
  intros Hinv Hgo Hgn Hone Hnne HFo HFn Hon Hbo Hbn.
  assert (HKon : rpath old <> rpath new).
  { intros E. apply Hon. apply rpath_inj; [apply gcs_ok; exact Hgo|apply gcs_ok; exact Hgn|exact E]. }
  assert (HoK : rpath old <> [] /\ rpath old <> [SLASH]).
  { split; [intros E; apply rpath_nil_inv in E; congruence|apply rpath_not_slash; apply gcs_ok; exact Hgo]. }
  assert (HnK : rpath new <> [] /\ rpath new <> [SLASH]).
  { split; [intros E; apply rpath_nil_inv in E; congruence|apply rpath_not_slash; apply gcs_ok; exact Hgn]. }
  constructor.
  - apply nodup_aremove. apply nodup_aset. apply (hi_nodup _ _ Hinv).
  - intros k i Hk. unfold ikey in Hk. destruct (str_eqb_spec k (rpath old)) as [->|Hko].
    + rewrite al_aremove_eq in Hk. discriminate.
    + rewrite al_aremove_neq in Hk by exact Hko. destruct (str_eqb_spec k (rpath new)) as [->|Hkn].
      * right. exists new. auto.
      * rewrite al_aset_neq in Hk by exact Hkn. apply (hi_keys _ _ Hinv _ _ Hk).
  - unfold ikey. destruct HoK, HnK. rewrite !al_aremove_neq by congruence. rewrite !al_aset_neq by congruence.
    apply (hi_root _ _ Hinv).
  - intros cs Hcs.
    destruct (Gmove_cases idx old new cs) as [(r & -> & ->)|[(Hn1 & (r & ->) & ->)|(Hn1 & Hn2 & ->)]].
    + destruct r as [|c r].
      * rewrite !app_nil_r. rewrite Fi_aremove_neq by (try assumption; congruence). rewrite Fi_aset_eq. congruence.
      * assert (Hcr : gcs (c :: r)) by (apply Forall_app in Hcs; apply Hcs).
        rewrite (Hbo c r Hcr).
        assert (Hne1 : new ++ c :: r <> old).
        { intros E. rewrite <- E in HFo. rewrite (Hbn c r Hcr) in HFo. discriminate. }
        assert (Hne2 : new ++ c :: r <> new).
        { intros E. apply (f_equal (@length str)) in E. rewrite app_length in E. cbn in E. lia. }
        rewrite Fi_aremove_neq by assumption. rewrite Fi_aset_neq by assumption. apply (Hbn c r Hcr).
    + destruct r as [|c r].
      * rewrite app_nil_r. apply Fi_aremove_eq.
      * assert (Hcr : gcs (c :: r)) by (apply Forall_app in Hcs; apply Hcs).
        assert (Hne1 : old ++ c :: r <> old).
        { intros E. apply (f_equal (@length str)) in E. rewrite app_length in E. cbn in E. lia. }
        assert (Hne2 : old ++ c :: r <> new) by (intros E; apply (Hn1 []); rewrite app_nil_r; exact E).
        rewrite Fi_aremove_neq by assumption. rewrite Fi_aset_neq by assumption. apply (Hbo c r Hcr).
    + assert (Hne1 : cs <> old) by (intros E; apply (Hn2 []); rewrite app_nil_r; exact E).
      assert (Hne2 : cs <> new) by (intros E; apply (Hn1 []); rewrite app_nil_r; exact E).
      rewrite Fi_aremove_neq by assumption. rewrite Fi_aset_neq by assumption. reflexivity.
  - intros k i Hk. unfold ikey in Hk. destruct (str_eqb_spec k (rpath old)) as [->|Hko].
    + rewrite al_aremove_eq in Hk. discriminate.
    + rewrite al_aremove_neq in Hk by exact Hko. destruct (str_eqb_spec k (rpath new)) as [->|Hkn].
      * rewrite al_aset_eq in Hk. inversion Hk; subst. exists (rpath old). exact HFo.
      * rewrite al_aset_neq in Hk by exact Hkn. exists k. exact Hk.
  - intros i.
    assert (Hlo : alookup str_eqb (rpath old) (aset str_eqb (rpath new) oc idx) = Some oc).
    { rewrite al_aset_neq by exact HKon. exact HFo. }
    pose proof (kcount_aremove nat (fun v => Nat.eqb v i) _ _ _ (nodup_aset nat (rpath new) oc idx (hi_nodup _ _ Hinv)) Hlo) as H1.
    cbv beta in H1. unfold kcount. destruct nc as [j|].
    + pose proof (kcount_aset_old nat (fun v => Nat.eqb v i) (rpath new) oc j idx HFn) as H2. cbv beta in H2.
      destruct (Nat.eqb j i), (Nat.eqb oc i); lia.
    + pose proof (kcount_aset_new nat (fun v => Nat.eqb v i) (rpath new) oc idx HFn) as H2. cbv beta in H2.
      destruct (Nat.eqb oc i); lia.
Qed.

(* ---- the node map after the Rename of a directory (keys below it re-keyed) ------------------------- *)
Lemma move_spec_dir idx h old new oc :
  hinv idx h -> gcs old -> gcs new -> old <> [] -> new <> [] ->
  Fi idx old = Some oc -> Fi idx new = None -> (forall r, new <> old ++ r) ->
  move_spec idx (o_rekey Linux (rpath old) (rpath new) (aremove str_eqb (rpath old) (aset str_eqb (rpath new) oc idx)))
            old new None.
Proof.
  intros Hinv Hgo Hgn Hone Hnne HFo HFn Hnb.
  set (idx1 := aremove str_eqb (rpath old) (aset str_eqb (rpath new) oc idx)).
  set (g := rekey_fn (rpath old) (rpath new)).
  rewrite o_rekey_mapk. fold g.
  assert (Hoko : Forall comp_ok old) by (apply gcs_ok; exact Hgo).
  assert (Hokn : Forall comp_ok new) by (apply gcs_ok; exact Hgn).
  assert (Hon : old <> new) by (intros E; apply (Hnb []); rewrite app_nil_r; auto).
  assert (Hob : forall r, old <> new ++ r).
  { intros r E. destruct r as [|c r]; [rewrite app_nil_r in E; congruence|].
    assert (Hcr : gcs (c :: r)). { rewrite E in Hgo. apply Forall_app in Hgo. apply Hgo. }
    rewrite E in HFo. rewrite (Fi_below_none idx h new c r Hinv Hgn Hcr HFn) in HFo. discriminate. }
  assert (Hbn : forall c r, gcs (c :: r) -> Fi idx (new ++ c :: r) = None).
  { intros c r Hcr. apply (Fi_below_none idx h new c r Hinv Hgn Hcr HFn). }
  (* the intermediate map *)
  assert (HF1 : forall cs, gcs cs -> Fi idx1 cs = if cs_eq_dec cs old then None else if cs_eq_dec cs new then Some oc else Fi idx cs).
  { intros cs Hcs. unfold idx1. destruct (cs_eq_dec cs old) as [->|H1]; [apply Fi_aremove_eq|].
    rewrite Fi_aremove_neq by assumption. destruct (cs_eq_dec cs new) as [->|H2]; [apply Fi_aset_eq|].
    apply Fi_aset_neq; assumption. }
  assert (Hnd1 : NoDup (map fst idx1)).
  { unfold idx1. apply nodup_aremove. apply nodup_aset. apply (hi_nodup _ _ Hinv). }
  assert (Hshape : forall k i, ikey idx1 k = Some i -> (k = [SLASH] /\ i = 0) \/ exists cs, gcs cs /\ k = rpath cs).
  { intros k i Hk. unfold idx1, ikey in Hk. destruct (str_eqb_spec k (rpath old)) as [->|Hko].
    - rewrite al_aremove_eq in Hk. discriminate.
    - rewrite al_aremove_neq in Hk by exact Hko. destruct (str_eqb_spec k (rpath new)) as [->|Hkn].
      + right. exists new. auto.
      + rewrite al_aset_neq in Hk by exact Hkn. apply (hi_keys _ _ Hinv _ _ Hk). }
  (* the key function on components *)
  assert (Hg : forall cs, gcs cs ->
            (exists c r, cs = old ++ c :: r /\ g (rpath cs) = rpath (new ++ c :: r))
            \/ ((forall c r, cs <> old ++ c :: r) /\ g (rpath cs) = rpath cs)).
  { intros cs Hcs. destruct (strip old cs) as [[|c r]|] eqn:E.
    - apply strip_some in E. rewrite app_nil_r in E. subst cs. right.
      assert (Hn : forall c r, old <> old ++ c :: r).
      { intros c r E. apply (f_equal (@length str)) in E. rewrite app_length in E. cbn in E. lia. }
      split; [exact Hn|]. apply rekey_fn_other; assumption.
    - apply strip_some in E. subst cs. left. exists c, r. split; [reflexivity|].
      apply rekey_fn_below; [exact Hoko|]. apply gcs_ok. apply Forall_app in Hcs. apply Hcs.
    - right. assert (Hn : forall c r, cs <> old ++ c :: r) by (intros c r; apply (proj1 (strip_none old cs) E)).
      split; [exact Hn|]. apply rekey_fn_other; [exact Hoko|apply gcs_ok; exact Hcs|exact Hn]. }
  assert (Hgs : g [SLASH] = [SLASH]) by (apply rekey_fn_slash; assumption).
  (* a key of the intermediate map, re-keyed, is a path; below the new name only from below the old one *)
  assert (Hkey1 : forall k, In k (map fst idx1) ->
            k = [SLASH] \/ exists cs, gcs cs /\ k = rpath cs /\ Fi idx1 cs <> None).
  { intros k Hk. apply in_keys_al in Hk. destruct (alookup str_eqb k idx1) as [i|] eqn:E; [|congruence].
    destruct (Hshape k i E) as [[-> _]|(cs & Hcs & ->)]; [left; reflexivity|].
    right. exists cs. repeat split; auto. unfold Fi, ikey. congruence. }
  assert (Hinj : forall k1 k2, In k1 (map fst idx1) -> In k2 (map fst idx1) -> g k1 = g k2 -> k1 = k2).
  { assert (Hhalf : forall cs1 cs2 c r, gcs cs1 -> gcs cs2 -> cs1 = old ++ c :: r ->
                     (forall c' r', cs2 <> old ++ c' :: r') -> Fi idx1 cs2 <> None -> rpath (new ++ c :: r) <> rpath cs2).
    { intros cs1 cs2 c r H1 H2 E1 Hn2 HF2 E. apply HF2.
      assert (Hcr : gcs (c :: r)). { rewrite E1 in H1. apply Forall_app in H1. apply H1. }
      assert (E2 : cs2 = new ++ c :: r).
      { symmetry. apply rpath_inj; [apply gcs_ok; apply gcs_app; assumption|apply gcs_ok; exact H2|exact E]. }
      rewrite (HF1 cs2 H2). destruct (cs_eq_dec cs2 old) as [_|_]; [reflexivity|].
      destruct (cs_eq_dec cs2 new) as [E3|_].
      - exfalso. rewrite E2 in E3. apply (f_equal (@length str)) in E3. rewrite app_length in E3. cbn in E3. lia.
      - rewrite E2. apply Hbn. exact Hcr. }
    intros k1 k2 Hk1 Hk2 E.
    destruct (Hkey1 k1 Hk1) as [->|(cs1 & Hc1 & -> & HF1')]; destruct (Hkey1 k2 Hk2) as [->|(cs2 & Hc2 & -> & HF2')].
    - reflexivity.
    - exfalso. rewrite Hgs in E. destruct (Hg cs2 Hc2) as [(c & r & E2 & Eg)|(_ & Eg)]; rewrite Eg in E; symmetry in E.
      + revert E. apply rpath_not_slash. apply gcs_ok. apply gcs_app; [exact Hgn|]. rewrite E2 in Hc2. apply Forall_app in Hc2. apply Hc2.
      + revert E. apply rpath_not_slash. apply gcs_ok. exact Hc2.
    - exfalso. rewrite Hgs in E. destruct (Hg cs1 Hc1) as [(c & r & E1 & Eg)|(_ & Eg)]; rewrite Eg in E.
      + revert E. apply rpath_not_slash. apply gcs_ok. apply gcs_app; [exact Hgn|]. rewrite E1 in Hc1. apply Forall_app in Hc1. apply Hc1.
      + revert E. apply rpath_not_slash. apply gcs_ok. exact Hc1.
    - destruct (Hg cs1 Hc1) as [(c1 & r1 & E1 & Eg1)|(Hn1 & Eg1)]; destruct (Hg cs2 Hc2) as [(c2 & r2 & E2 & Eg2)|(Hn2 & Eg2)];
        rewrite Eg1, Eg2 in E.
      + assert (Hcr1 : gcs (c1 :: r1)). { rewrite E1 in Hc1. apply Forall_app in Hc1. apply Hc1. }
        assert (Hcr2 : gcs (c2 :: r2)). { rewrite E2 in Hc2. apply Forall_app in Hc2. apply Hc2. }
        apply rpath_inj in E; [|apply gcs_ok; apply gcs_app; assumption|apply gcs_ok; apply gcs_app; assumption].
        apply app_inv_head in E. rewrite E1, E2, E. reflexivity.
      + exfalso. exact (Hhalf cs1 cs2 c1 r1 Hc1 Hc2 E1 Hn2 HF2' E).
      + exfalso. symmetry in E. exact (Hhalf cs2 cs1 c2 r2 Hc2 Hc1 E2 Hn1 HF1' E).
      + exact E. }
  (* look-ups after re-keying *)
  assert (Hlk_in : forall cs, gcs cs -> Fi idx1 cs <> None ->
             alookup str_eqb (g (rpath cs)) (mapk nat g idx1) = Fi idx1 cs).
  { intros cs Hcs HF. apply (al_mapk_in nat g idx1 (rpath cs) Hnd1 Hinj). apply in_keys_al. exact HF. }
  constructor.
  - apply nodup_mapk; assumption.
  - intros k i Hk. apply al_mapk_some in Hk. destruct Hk as (k0 & Hk0 & Hin).
    assert (Hk1 : ikey idx1 k0 = Some i) by (apply in_al; assumption).
    destruct (Hshape k0 i Hk1) as [[-> ->]|(cs & Hcs & ->)].
    + left. rewrite Hgs in Hk0. auto.
    + right. destruct (Hg cs Hcs) as [(c & r & E1 & Eg)|(_ & Eg)]; rewrite Eg in Hk0; subst k.
      * exists (new ++ c :: r). split; [|reflexivity]. apply gcs_app; [exact Hgn|]. rewrite E1 in Hcs. apply Forall_app in Hcs. apply Hcs.
      * exists cs. auto.
  - assert (Hr1 : ikey idx1 [] = Some 0 /\ ikey idx1 [SLASH] = Some 0).
    { unfold idx1, ikey.
      assert (rpath old <> [] /\ rpath old <> [SLASH]) as [? ?]
        by (split; [intros E; apply rpath_nil_inv in E; congruence|apply rpath_not_slash; exact Hoko]).
      assert (rpath new <> [] /\ rpath new <> [SLASH]) as [? ?]
        by (split; [intros E; apply rpath_nil_inv in E; congruence|apply rpath_not_slash; exact Hokn]).
      rewrite !al_aremove_neq by congruence. rewrite !al_aset_neq by congruence. apply (hi_root _ _ Hinv). }
    destruct Hr1 as [Hr1 Hr2]. split.
    + assert (E : g (rpath []) = rpath []).
      { destruct (Hg [] (Forall_nil _)) as [(c & r & E1 & _)|(_ & Eg)]; [destruct old; discriminate|exact Eg]. }
      unfold ikey. change (@nil N) with (rpath []). rewrite <- E.
      rewrite (Hlk_in [] (Forall_nil _)); unfold Fi; cbn [rpath]; congruence.
    + unfold ikey. rewrite <- Hgs. rewrite (al_mapk_in nat g idx1 [SLASH] Hnd1 Hinj); [exact Hr2|].
      apply in_keys_al. unfold ikey in Hr2. congruence.
  - intros cs Hcs. unfold Fi at 1. unfold ikey.
    destruct (Gmove_cases idx old new cs) as [(r & -> & ->)|[(Hn1 & (r & ->) & ->)|(Hn1 & Hn2 & ->)]].
    + destruct r as [|c r].
      * rewrite !app_nil_r. rewrite HFo.
        assert (Eg : g (rpath new) = rpath new).
        { destruct (Hg new Hgn) as [(c & r & E1 & _)|(_ & Eg)]; [exfalso; exact (Hnb _ E1)|exact Eg]. }
        rewrite <- Eg. rewrite (Hlk_in new Hgn); rewrite (HF1 new Hgn);
          destruct (cs_eq_dec new old); try congruence; destruct (cs_eq_dec new new); congruence.
      * assert (Hcr : gcs (c :: r)) by (apply Forall_app in Hcs; apply Hcs).
        assert (Hgoc : gcs (old ++ c :: r)) by (apply gcs_app; assumption).
        assert (Eg : g (rpath (old ++ c :: r)) = rpath (new ++ c :: r)).
        { apply rekey_fn_below; [exact Hoko|apply gcs_ok; exact Hcr]. }
        assert (E1 : Fi idx1 (old ++ c :: r) = Fi idx (old ++ c :: r)).
        { rewrite (HF1 _ Hgoc). destruct (cs_eq_dec (old ++ c :: r) old) as [E|_].
          - apply (f_equal (@length str)) in E. rewrite app_length in E. cbn in E. lia.
          - destruct (cs_eq_dec (old ++ c :: r) new) as [E|_]; [exfalso; exact (Hnb _ (eq_sym E))|reflexivity]. }
        destruct (Fi idx (old ++ c :: r)) as [i|] eqn:EF.
        -- rewrite <- Eg. rewrite (Hlk_in _ Hgoc); congruence.
        -- apply al_mapk_notin. intros k Hk Ek.
           destruct (Hkey1 k Hk) as [->|(cs2 & Hc2 & -> & HF2)].
           ++ rewrite Hgs in Ek. symmetry in Ek. revert Ek. apply rpath_not_slash. apply gcs_ok. exact Hcs.
           ++ destruct (Hg cs2 Hc2) as [(c2 & r2 & E2 & Eg2)|(_ & Eg2)]; rewrite Eg2 in Ek.
              ** assert (Hcr2 : gcs (c2 :: r2)). { rewrite E2 in Hc2. apply Forall_app in Hc2. apply Hc2. }
                 apply rpath_inj in Ek; [|apply gcs_ok; apply gcs_app; assumption|apply gcs_ok; exact Hcs].
                 apply app_inv_head in Ek. apply HF2. rewrite E2, Ek. congruence.
              ** apply rpath_inj in Ek; [|apply gcs_ok; exact Hc2|apply gcs_ok; exact Hcs]. subst cs2.
                 apply HF2. rewrite (HF1 _ Hcs). destruct (cs_eq_dec (new ++ c :: r) old); [reflexivity|].
                 destruct (cs_eq_dec (new ++ c :: r) new) as [E|_].
                 { apply (f_equal (@length str)) in E. rewrite app_length in E. cbn in E. lia. }
                 apply Hbn. exact Hcr.
    + apply al_mapk_notin. intros k Hk Ek.
      destruct (Hkey1 k Hk) as [->|(cs2 & Hc2 & -> & HF2)].
      * rewrite Hgs in Ek. symmetry in Ek. revert Ek. apply rpath_not_slash. apply gcs_ok. exact Hcs.
      * destruct (Hg cs2 Hc2) as [(c2 & r2 & E2 & Eg2)|(Hn2 & Eg2)]; rewrite Eg2 in Ek.
        -- assert (Hcr2 : gcs (c2 :: r2)). { rewrite E2 in Hc2. apply Forall_app in Hc2. apply Hc2. }
           apply rpath_inj in Ek; [|apply gcs_ok; apply gcs_app; assumption|apply gcs_ok; exact Hcs].
           exact (Hn1 _ (eq_sym Ek)).
        -- apply rpath_inj in Ek; [|apply gcs_ok; exact Hc2|apply gcs_ok; exact Hcs]. subst cs2.
           destruct r as [|c r]; [|exact (Hn2 c r eq_refl)].
           rewrite app_nil_r in HF2. apply HF2. rewrite (HF1 old Hgo). destruct (cs_eq_dec old old); congruence.
    + assert (Eg : g (rpath cs) = rpath cs).
      { destruct (Hg cs Hcs) as [(c & r & E1 & _)|(_ & Eg)]; [exfalso; exact (Hn2 _ E1)|exact Eg]. }
      assert (E1 : Fi idx1 cs = Fi idx cs).
      { rewrite (HF1 cs Hcs). destruct (cs_eq_dec cs old) as [E|_]; [exfalso; apply (Hn2 []); rewrite app_nil_r; exact E|].
        destruct (cs_eq_dec cs new) as [E|_]; [exfalso; apply (Hn1 []); rewrite app_nil_r; exact E|reflexivity]. }
      destruct (Fi idx cs) as [i|] eqn:EF.
      * rewrite <- Eg. rewrite (Hlk_in cs Hcs); congruence.
      * apply al_mapk_notin. intros k Hk Ek.
        destruct (Hkey1 k Hk) as [->|(cs2 & Hc2 & -> & HF2)].
        -- rewrite Hgs in Ek. symmetry in Ek. revert Ek. apply rpath_not_slash. apply gcs_ok. exact Hcs.
        -- destruct (Hg cs2 Hc2) as [(c2 & r2 & E2 & Eg2)|(_ & Eg2)]; rewrite Eg2 in Ek.
           ++ assert (Hcr2 : gcs (c2 :: r2)). { rewrite E2 in Hc2. apply Forall_app in Hc2. apply Hc2. }
              apply rpath_inj in Ek; [|apply gcs_ok; apply gcs_app; assumption|apply gcs_ok; exact Hcs].
              exact (Hn1 _ (eq_sym Ek)).
           ++ apply rpath_inj in Ek; [|apply gcs_ok; exact Hc2|apply gcs_ok; exact Hcs]. subst cs2. congruence.
  - intros k i Hk. apply al_mapk_some in Hk. destruct Hk as (k0 & _ & Hin).
    assert (Hk1 : ikey idx1 k0 = Some i) by (apply in_al; assumption).
    unfold idx1, ikey in Hk1. destruct (str_eqb_spec k0 (rpath old)) as [->|Hko].
    + rewrite al_aremove_eq in Hk1. discriminate.
    + rewrite al_aremove_neq in Hk1 by exact Hko. destruct (str_eqb_spec k0 (rpath new)) as [->|Hkn].
      * rewrite al_aset_eq in Hk1. inversion Hk1; subst. exists (rpath old). exact HFo.
      * rewrite al_aset_neq in Hk1 by exact Hkn. exists k0. exact Hk1.
  - intros i. unfold kcount. rewrite kcount_mapk. rewrite Nat.add_0_r.
    assert (HKon : rpath old <> rpath new).
    { intros E. apply Hon. apply rpath_inj; [exact Hoko|exact Hokn|exact E]. }
    assert (Hlo : alookup str_eqb (rpath old) (aset str_eqb (rpath new) oc idx) = Some oc).
    { rewrite al_aset_neq by exact HKon. exact HFo. }
    pose proof (kcount_aremove nat (fun v => Nat.eqb v i) _ _ _ (nodup_aset nat (rpath new) oc idx (hi_nodup _ _ Hinv)) Hlo) as H1.
    cbv beta in H1.
    pose proof (kcount_aset_new nat (fun v => Nat.eqb v i) (rpath new) oc idx HFn) as H2. cbv beta in H2.
    fold idx1 in H1. destruct (Nat.eqb oc i); lia.
Qed.

(* ================================================================================================= *)
(* The calls                                                                                         *)
(* ================================================================================================= *)

(* ---- Abs of any argument is a clean absolute path ------------------------------------------------- *)
Lemma norm_rooted_good (bs : list str) (p : str) : gcs bs -> gcs (norm true (rev bs) (path_comps p)).
Proof.
  intros Hb.
  assert (Hsf : Forall sepfree (path_comps p)).
  { unfold path_comps. pose proof (comps_sepfree p) as H. induction H as [|x l Hx _ IH]; cbn [filter]; [constructor|].
    destruct (ne x); [constructor; assumption|assumption]. }
  assert (Hg : Forall good (rev bs)) by (apply Forall_rev; apply Forall_good_of; exact Hb).
  destruct (@norm_shape true (path_comps p) 0 (rev bs) Hsf Hg (fun _ => eq_refl)) as (k' & names' & E & Hn & Hk).
  unfold stk in E. cbn [repeat] in E. rewrite app_nil_r in E. rewrite E. rewrite (Hk eq_refl). unfold L. cbn [repeat app].
  apply Forall_rev. eapply Forall_impl; [|exact Hn]. intros a. apply good_good_comp.
Qed.

Lemma abs_shape (bs : list str) (p : str) : gcs bs -> exists cs, gcs cs /\ abs Linux (abs_path bs) p = abs_path cs.
Proof.
  intros Hb. rewrite abs_linux_def. destruct (is_abs Linux p) eqn:E.
  - destruct (clean_abs_comps p E) as [E1 E2]. eexists. split; [exact E2|exact E1].
  - rewrite join_abs_any by exact Hb. eexists. split; [apply norm_rooted_good; exact Hb|reflexivity].
Qed.

Lemma oabs_shape s p : orefa_inv s -> exists cs, gcs cs /\ oabs s p = abs_path cs.
Proof.
  intros Hinv. destruct (inv_cwd _ Hinv) as (bs & Hb & Ec). unfold oabs. rewrite (inv_os _ Hinv), Ec.
  apply abs_shape. exact Hb.
Qed.

(* ---- look-ups --------------------------------------------------------------------------------------- *)
Lemma ofind_some s k i n : ofind s k = Some (i, n) <-> (ikey (o_index s) k = Some i /\ oget (o_heap s) i = Some n).
Proof.
  unfold ofind. destruct (ikey (o_index s) k) as [j|]; [|split; [discriminate|intros [? _]; discriminate]].
  destruct (oget (o_heap s) j) as [m|] eqn:E.
  - split; [intros [= <- <-]; auto|intros [[= <-] H]; rewrite E in H; inversion H; reflexivity].
  - split; [discriminate|intros [[= <-] H]; congruence].
Qed.

Lemma ofind_none s k : hinv (o_index s) (o_heap s) -> ofind s k = None -> ikey (o_index s) k = None.
Proof.
  intros Hinv. unfold ofind. destruct (ikey (o_index s) k) as [j|] eqn:E; [|reflexivity].
  destruct (hi_valid _ _ Hinv _ _ E) as (n & Hn). rewrite Hn. discriminate.
Qed.

Lemma ofind_root s : hinv (o_index s) (o_heap s) ->
  exists n, ofind s [SLASH] = Some (0, n) /\ ofind s [] = Some (0, n) /\ on_dir n = true.
Proof.
  intros Hinv. destruct (hi_rootdir _ _ Hinv) as (n & Hn & Hd). destruct (hi_root _ _ Hinv) as [H1 H2].
  exists n. unfold ofind. rewrite H1, H2, Hn. auto.
Qed.

(* an absolute path is the root, or a parent path and a name *)
Lemma abs_path_split cs : gcs cs ->
  (cs = [] /\ abs_path cs = [SLASH] /\ osplit Linux (abs_path cs) = Some ([], []))
  \/ (exists ps c, cs = ps ++ [c] /\ gcs ps /\ good_comp c /\ abs_path cs = rpath cs
        /\ osplit Linux (abs_path cs) = Some (rpath ps, c)).
Proof.
  intros Hcs. destruct cs as [|c0 cs0] using rev_ind.
  - left. auto.
  - clear IHcs0. right. apply gcs_snoc_inv in Hcs. destruct Hcs as [Hps Hc].
    exists cs0, c0. split; [reflexivity|]. split; [exact Hps|]. split; [exact Hc|]. split.
    + apply abs_path_rpath. destruct cs0; discriminate.
    + rewrite abs_path_rpath by (destruct cs0; discriminate). apply split_abs_rpath.
      apply comp_ok_nosl. apply good_comp_ok'. exact Hc.
Qed.

(* ---- the type bit is out of reach of Chmod ------------------------------------------------------------ *)
Lemma has_mode_dir_testbit x : has x MODE_DIR = N.testbit x 31.
Proof.
  unfold has. change MODE_DIR with (2 ^ 31)%N.
  destruct (N.testbit x 31) eqn:E.
  - apply negb_true_iff. apply N.eqb_neq. intros H.
    assert (H2 : N.testbit (N.land x (2 ^ 31)) 31 = true) by (rewrite N.land_spec, E, N.pow2_bits_true; reflexivity).
    rewrite H in H2. rewrite N.bits_0 in H2. discriminate.
  - apply negb_false_iff. apply N.eqb_eq. apply N.bits_inj. intros n. rewrite N.land_spec, N.bits_0.
    rewrite N.pow2_bits_eqb. destruct (N.eqb_spec 31 n) as [<-|_]; [rewrite E; reflexivity|apply andb_false_r].
Qed.

Lemma with_mode_dir m mode : has (m_mode (with_mode m mode)) MODE_DIR = has (m_mode m) MODE_DIR.
Proof.
  rewrite !has_mode_dir_testbit. unfold with_mode. cbn [m_mode].
  rewrite N.lor_spec, N.ldiff_spec, N.land_spec.
  assert (E : N.testbit FILE_MODE_MASK 31 = false) by (vm_compute; reflexivity).
  rewrite E. rewrite andb_false_r, orb_false_r, andb_true_r. reflexivity.
Qed.

(* ---- state-level helpers --------------------------------------------------------------------------------- *)
Lemma inv_with s idx h : orefa_inv s -> hinv idx h -> orefa_inv (o_with s idx h).
Proof. intros Hinv Hh. constructor; [apply (inv_os _ Hinv)|apply (inv_cwd _ Hinv)|exact Hh]. Qed.

Lemma inv_with_heap s h : orefa_inv s -> hinv (o_index s) h -> orefa_inv (o_with_heap s h).
Proof. intros Hinv Hh. apply inv_with; assumption. Qed.

Lemma inv_create_node s ps c pi pn mode :
  orefa_inv s -> gcs ps -> good_comp c ->
  ofind s (rpath ps) = Some (pi, pn) -> on_dir pn = true -> ofind s (rpath (ps ++ [c])) = None ->
  orefa_inv (fst (o_create_node s pi (rpath (ps ++ [c])) c mode)).
Proof.
  intros Hinv Hps Hc Hp Hpd Hn. apply ofind_some in Hp. destruct Hp as [Hpi Hpn].
  apply (ofind_none _ _ (inv_h _ Hinv)) in Hn.
  unfold o_create_node. cbn [fst]. constructor; cbn [o_os o_cwd o_index o_heap].
  - apply (inv_os _ Hinv).
  - apply (inv_cwd _ Hinv).
  - apply (hinv_create _ _ ps c pi pn); try assumption; try reflexivity. apply (inv_h _ Hinv).
Qed.

(* an update of the data or the meta data of one node *)
Lemma inv_upd_data s c cn d : orefa_inv s -> oget (o_heap s) c = Some cn ->
  orefa_inv (o_with_heap s (oupd (o_heap s) c (on_with_data cn d))).
Proof.
  intros Hinv Hc. apply inv_with_heap; [exact Hinv|].
  apply (hinv_upd _ _ c cn); try reflexivity; [apply (inv_h _ Hinv)|exact Hc].
Qed.

Lemma inv_upd_mode s c cn mode : orefa_inv s -> oget (o_heap s) c = Some cn ->
  orefa_inv (o_with_heap s (oupd (o_heap s) c (on_with_meta cn (with_mode (on_meta cn) mode)))).
Proof.
  intros Hinv Hc. apply inv_with_heap; [exact Hinv|].
  apply (hinv_upd _ _ c cn); try reflexivity; [apply (inv_h _ Hinv)|exact Hc|].
  unfold on_dir. cbn [on_with_meta on_meta]. apply with_mode_dir.
Qed.

Lemma inv_upd_owner s c cn uid gid : orefa_inv s -> oget (o_heap s) c = Some cn ->
  orefa_inv (o_with_heap s (oupd (o_heap s) c (on_with_meta cn (o_chown_meta (on_meta cn) uid gid)))).
Proof.
  intros Hinv Hc. apply inv_with_heap; [exact Hinv|].
  apply (hinv_upd _ _ c cn); try reflexivity; [apply (inv_h _ Hinv)|exact Hc|].
  unfold on_dir. cbn [on_with_meta on_meta]. apply o_chown_meta_dir.
Qed.

(* ---- Mkdir ------------------------------------------------------------------------------------------------ *)
Lemma step_mkdir s name perm : orefa_inv s -> orefa_inv (fst (o_mkdir s name perm)).
Proof.
  intros Hinv. unfold o_mkdir. destruct name as [|x name']; [exact Hinv|]. set (name := x :: name').
  destruct (oabs_shape s name Hinv) as (cs & Hcs & Eabs). rewrite Eabs, (inv_os _ Hinv).
  destruct (abs_path_split cs Hcs) as [(-> & E1 & E2)|(ps & c & -> & Hps & Hc & E1 & E2)]; rewrite E2.
  - destruct (ofind_root s (inv_h _ Hinv)) as (n & H1 & _). rewrite E1, H1. exact Hinv.
  - rewrite E1. destruct (ofind s (rpath (ps ++ [c]))) eqn:Ec; [exact Hinv|].
    destruct (ofind s (rpath ps)) as [[pi pn]|] eqn:Ep.
    + destruct (on_dir pn) eqn:Ed; [|exact Hinv]. cbn [negb]. unfold o_create_dir.
      apply (inv_create_node s ps c pi pn); assumption.
    + exact Hinv.
Qed.

(* ---- OpenFile ----------------------------------------------------------------------------------------------- *)
Lemma step_open_file s name flag perm : orefa_inv s -> orefa_inv (fst (o_open_file s name flag perm)).
Proof.
  intros Hinv. unfold o_open_file.
  destruct (oabs_shape s name Hinv) as (cs & Hcs & Eabs). rewrite Eabs, (inv_os _ Hinv).
  destruct (abs_path_split cs Hcs) as [(-> & E1 & E2)|(ps & c & -> & Hps & Hc & E1 & E2)]; rewrite E2.
  - destruct (ofind_root s (inv_h _ Hinv)) as (n & H1 & _ & Hd). rewrite E1, H1, Hd.
    destruct (has (to_open_mode flag) OpenCreateExcl); [exact Hinv|].
    destruct (has (to_open_mode flag) OpenWrite || has (to_open_mode flag) OpenCreate || has (to_open_mode flag) OpenTruncate); exact Hinv.
  - rewrite E1. destruct (ofind s (rpath (ps ++ [c]))) as [[ci cn]|] eqn:Ec.
    + destruct (on_dir cn).
      * destruct (has (to_open_mode flag) OpenCreateExcl); [exact Hinv|].
        destruct (has (to_open_mode flag) OpenWrite || has (to_open_mode flag) OpenCreate || has (to_open_mode flag) OpenTruncate); exact Hinv.
      * destruct (has (to_open_mode flag) OpenCreateExcl); [exact Hinv|]. cbn [fst].
        apply ofind_some in Ec. destruct Ec as [_ Hcn]. apply inv_upd_data; assumption.
    + destruct (ofind s (rpath ps)) as [[pi pn]|] eqn:Ep; [|exact Hinv].
      destruct (on_dir pn) eqn:Ed; [|exact Hinv]. cbn [negb].
      destruct (has (to_open_mode flag) OpenCreate); [|exact Hinv]. cbn [negb].
      unfold o_create_file.
      pose proof (inv_create_node s ps c pi pn (N.lor (file_mode (o_os s)) (N.ldiff (N.land perm FILE_MODE_MASK) (o_umask s))) Hinv Hps Hc Ep Ed Ec) as H.
      destruct (o_create_node s pi (rpath (ps ++ [c])) c _) as [s1 c1]. exact H.
Qed.

(* ---- Remove ------------------------------------------------------------------------------------------------- *)
Lemma step_remove s name : orefa_inv s -> orefa_inv (fst (o_remove s name)).
Proof.
  intros Hinv. unfold o_remove.
  destruct (oabs_shape s name Hinv) as (cs & Hcs & Eabs). rewrite Eabs, (inv_os _ Hinv).
  destruct (abs_path_split cs Hcs) as [(-> & E1 & E2)|(ps & c & -> & Hps & Hc & E1 & E2)]; rewrite E2.
  - destruct (ofind_root s (inv_h _ Hinv)) as (n & H1 & H2 & Hd). rewrite E1, H1, H2. rewrite Nat.eqb_refl. exact Hinv.
  - rewrite E1. destruct (ofind s (rpath (ps ++ [c]))) as [[ci cn]|] eqn:Ec; [|exact Hinv].
    destruct (ofind s (rpath ps)) as [[pi pn]|] eqn:Ep; [|exact Hinv].
    destruct (Nat.eqb ci pi); [exact Hinv|].
    destruct (on_dir cn && match on_ch cn with [] => false | _ :: _ => true end) eqn:Ene; [exact Hinv|].
    cbn [fst]. apply inv_with; [exact Hinv|].
    apply ofind_some in Ec. destruct Ec as [Hci Hcn]. apply ofind_some in Ep. destruct Ep as [Hpi Hpn].
    apply (hinv_unlink _ _ ps c pi pn ci cn); try assumption; [apply (inv_h _ Hinv)|].
    destruct (on_dir cn) eqn:Ed.
    + cbn [andb] in Ene. destruct (on_ch cn); [reflexivity|discriminate].
    + apply (hi_leaf _ _ (inv_h _ Hinv) _ _ Hcn Ed).
Qed.

(* ---- Link --------------------------------------------------------------------------------------------------- *)
Lemma step_link s oldname newname : orefa_inv s -> orefa_inv (fst (o_link s oldname newname)).
Proof.
  intros Hinv. unfold o_link.
  destruct (oabs_shape s newname Hinv) as (cs & Hcs & Eabs). rewrite Eabs, (inv_os _ Hinv).
  assert (Hw : owin s = false) by (unfold owin; rewrite (inv_os _ Hinv); reflexivity). rewrite Hw.
  destruct (abs_path_split cs Hcs) as [(-> & E1 & E2)|(ps & c & -> & Hps & Hc & E1 & E2)]; rewrite E2.
  - destruct (ofind s (oabs s oldname)) as [[oc ocn]|]; [|exact Hinv].
    destruct (ofind_root s (inv_h _ Hinv)) as (n & H1 & H2 & Hd). rewrite E1, H1, H2, Hd. exact Hinv.
  - rewrite E1. destruct (ofind s (oabs s oldname)) as [[oc ocn]|] eqn:Eo; [|exact Hinv].
    destruct (ofind s (rpath ps)) as [[pi pn]|] eqn:Ep; [|exact Hinv].
    destruct (on_dir pn) eqn:Ed; [|exact Hinv]. cbn [negb].
    destruct (ofind s (rpath (ps ++ [c]))) eqn:Ec; [exact Hinv|].
    destruct (on_dir ocn) eqn:Eod; [exact Hinv|]. cbn [fst].
    apply ofind_some in Eo. destruct Eo as [_ Hocn]. apply ofind_some in Ep. destruct Ep as [Hpi Hpn].
    apply (ofind_none _ _ (inv_h _ Hinv)) in Ec.
    assert (Hne : oc <> pi) by (intros ->; rewrite Hpn in Hocn; inversion Hocn; subst; congruence).
    assert (Hoc1 : oget (o_add_child (o_heap s) pi c oc) oc = Some ocn).
    { unfold o_add_child. rewrite Hpn. rewrite (oget_oupd _ _ _ _ _ Hpn).
      destruct (Nat.eqb_spec pi oc); [congruence|exact Hocn]. }
    rewrite Hoc1. apply inv_with; [exact Hinv|].
    apply (hinv_link _ _ ps c pi pn oc ocn); try assumption. apply (inv_h _ Hinv).
Qed.

(* ---- Truncate, Chmod, Chown, Chdir ------------------------------------------------------------------------------ *)
Lemma step_truncate s name size : orefa_inv s -> orefa_inv (fst (o_truncate s name size)).
Proof.
  intros Hinv. unfold o_truncate. destruct (Z.ltb size 0 && negb (owin s)); [exact Hinv|].
  destruct (ofind s (oabs s name)) as [[c cn]|] eqn:Ec; [|exact Hinv].
  destruct (on_dir cn); [exact Hinv|]. destruct (Z.ltb size 0); [exact Hinv|]. cbn [fst].
  apply ofind_some in Ec. destruct Ec as [_ Hcn]. apply inv_upd_data; assumption.
Qed.

Lemma step_chmod s name mode : orefa_inv s -> orefa_inv (fst (o_chmod s name mode)).
Proof.
  intros Hinv. unfold o_chmod. destruct (ofind s (oabs s name)) as [[c cn]|] eqn:Ec; [|exact Hinv]. cbn [fst].
  apply ofind_some in Ec. destruct Ec as [_ Hcn]. apply inv_upd_mode; assumption.
Qed.

Lemma step_chown s name uid gid : orefa_inv s -> orefa_inv (fst (o_chown s name uid gid)).
Proof.
  intros Hinv. unfold o_chown. destruct (owin s); [exact Hinv|].
  destruct (ofind s (oabs s name)) as [[c cn]|] eqn:Ec; [|exact Hinv]. cbn [fst].
  apply ofind_some in Ec. destruct Ec as [_ Hcn]. apply inv_upd_owner; assumption.
Qed.

Lemma inv_with_cwd s p : orefa_inv s -> orefa_inv (o_with_cwd s (oabs s p)).
Proof.
  intros Hinv. destruct (oabs_shape s p Hinv) as (cs & Hcs & Eabs). constructor; cbn [o_with_cwd o_os o_cwd o_index o_heap].
  - apply (inv_os _ Hinv).
  - exists cs. auto.
  - apply (inv_h _ Hinv).
Qed.

Lemma step_chdir s dir : orefa_inv s -> orefa_inv (fst (o_chdir s dir)).
Proof.
  intros Hinv. unfold o_chdir. destruct (ofind s (oabs s dir)) as [[c cn]|]; [|exact Hinv].
  destruct (on_dir cn); [|exact Hinv]. cbn [fst]. apply inv_with_cwd. exact Hinv.
Qed.

(* ---- Rename -------------------------------------------------------------------------------------------------- *)
Lemma ofind_Fi s cs i n : ofind s (rpath cs) = Some (i, n) -> Fi (o_index s) cs = Some i /\ oget (o_heap s) i = Some n.
Proof. intros H. apply ofind_some in H. exact H. Qed.

Lemma step_rename s oldname newname : orefa_inv s -> orefa_inv (fst (o_rename s oldname newname)).
Proof.
  intros Hinv. pose proof (inv_h _ Hinv) as Hh. unfold o_rename.
  destruct (oabs_shape s oldname Hinv) as (ocs & Hocs & Eo). destruct (oabs_shape s newname Hinv) as (ncs & Hncs & En).
  rewrite Eo, En, (inv_os _ Hinv).
  assert (Hw : owin s = false) by (unfold owin; rewrite (inv_os _ Hinv); reflexivity). rewrite Hw.
  destruct (ofind_root s Hh) as (rn & Hr1 & Hr2 & Hrd).
  destruct (abs_path_split ocs Hocs) as [(-> & Eo1 & Eo2)|(ops & on & -> & Hops & Hon & Eo1 & Eo2)]; rewrite Eo2;
    destruct (abs_path_split ncs Hncs) as [(-> & En1 & En2)|(nps & nn & -> & Hnps & Hnn & En1 & En2)]; rewrite En2.
  - (* the root onto the root *)
    change (abs_path (@nil str)) with [SLASH]. rewrite Hr2, Hr1, Hrd. cbn [negb orb]. destruct (_ && _); exact Hinv.
  - (* the root to another name *)
    change (abs_path (@nil str)) with [SLASH]. rewrite Hr2, Hr1.
    destruct (ofind s (rpath nps)) as [[np npn]|]; [|rewrite Hrd; exact Hinv].
    rewrite Hrd. cbn [negb orb]. destruct (on_dir npn); [|exact Hinv]. cbn [negb].
    destruct (match ofind s (abs_path (nps ++ [nn])) with Some (_, nn0) => on_dir nn0 | None => false end);
      [destruct (_ && _); exact Hinv|].
    rewrite Nat.eqb_refl. cbn [andb orb]. exact Hinv.
  - (* onto the root *)
    change (abs_path (@nil str)) with [SLASH].
    destruct (ofind s (rpath ops)) as [[op opn]|]; [|exact Hinv]. rewrite Hr2.
    destruct (ofind s (abs_path (ops ++ [on]))) as [[oc ocn]|].
    + destruct (negb (on_dir opn) || negb (on_dir rn)); [exact Hinv|]. rewrite Hr1, Hrd. destruct (_ && _); exact Hinv.
    + destruct (negb (on_dir opn) || negb (on_dir rn)); exact Hinv.
  - (* the general case *)
    rewrite Eo1, En1. change (sepc Linux) with SLASH.
    destruct (ofind s (rpath ops)) as [[op opn]|] eqn:Eop; [|exact Hinv].
    destruct (ofind s (rpath nps)) as [[np npn]|] eqn:Enp; [|destruct (negb (on_dir opn)); exact Hinv].
    destruct (ofind s (rpath (ops ++ [on]))) as [[oc ocn]|] eqn:Eoc;
      [|destruct (negb (on_dir opn) || negb (on_dir npn)); exact Hinv].
    destruct (on_dir opn) eqn:Eopd; [|exact Hinv]. destruct (on_dir npn) eqn:Enpd; [|exact Hinv]. cbn [negb orb].
    apply ofind_Fi in Eop. destruct Eop as [HFop Hop]. apply ofind_Fi in Enp. destruct Enp as [HFnp Hnp].
    apply ofind_Fi in Eoc. destruct Eoc as [HFoc Hoc].
    set (old := ops ++ [on]) in *. set (new := nps ++ [nn]) in *.
    assert (Hgo : gcs old) by (apply gcs_snoc; assumption).
    assert (Hgn : gcs new) by (apply gcs_snoc; assumption).
    assert (Hone : old <> []) by (unfold old; destruct ops; discriminate).
    assert (Hnne : new <> []) by (unfold new; destruct nps; discriminate).
    destruct (ofind s (rpath new)) as [[nc ncn]|] eqn:Enc.
    + (* the new name exists *)
      apply ofind_Fi in Enc. destruct Enc as [HFnc Hncn].
      destruct (on_dir ncn) eqn:Encd; [destruct (_ && _); exact Hinv|].
      destruct (on_dir ocn) eqn:Eocd.
      * cbn [andb]. destruct (Nat.eqb oc op || is_prefix (rpath old ++ [SLASH]) (rpath new)); exact Hinv.
      * cbn [andb]. destruct (Nat.eqb_spec nc oc) as [Eq|Hncoc]; [exact Hinv|]. cbn [fst].
        assert (Hleaf_o : forall c', Ch (o_heap s) oc c' = None).
        { intros c'. unfold Ch. rewrite Hoc, (hi_leaf _ _ Hh _ _ Hoc Eocd). reflexivity. }
        assert (Hleaf_n : forall c', Ch (o_heap s) nc c' = None).
        { intros c'. unfold Ch. rewrite Hncn, (hi_leaf _ _ Hh _ _ Hncn Encd). reflexivity. }
        assert (Hon' : old <> new) by (intros E; rewrite E in HFoc; congruence).
        assert (Hbo : forall c r, gcs (c :: r) -> Fi (o_index s) (old ++ c :: r) = None).
        { intros c r Hcr. apply (Fi_below_leaf _ _ old oc c r Hh Hgo Hcr HFoc Hleaf_o). }
        assert (Hbn : forall c r, gcs (c :: r) -> Fi (o_index s) (new ++ c :: r) = None).
        { intros c r Hcr. apply (Fi_below_leaf _ _ new nc c r Hh Hgn Hcr HFnc Hleaf_n). }
        assert (Hnb : forall r, new <> old ++ r).
        { intros r E. destruct r as [|c r]; [rewrite app_nil_r in E; congruence|].
          assert (Hcr : gcs (c :: r)). { rewrite E in Hgn. apply Forall_app in Hgn. apply Hgn. }
          rewrite E in HFnc. rewrite (Hbo c r Hcr) in HFnc. discriminate. }
        apply inv_with; [exact Hinv|].
        apply (hinv_move (o_index s) _ (o_heap s) ops on nps nn op oc ocn np npn (Some nc)); try assumption.
        -- intros j [= <-]. split; [exact Hncoc|]. exists ncn. auto.
        -- apply (move_spec_file _ (o_heap s)); assumption.
    + (* the new name is free *)
      cbn [andb]. apply (ofind_none _ _ Hh) in Enc. change (Fi (o_index s) new = None) in Enc.
      destruct (on_dir ocn) eqn:Eocd; cbn [andb].
      * destruct (Nat.eqb oc op || is_prefix (rpath old ++ [SLASH]) (rpath new)) eqn:Eg; [exact Hinv|]. cbn [fst].
        apply orb_false_iff in Eg. destruct Eg as [_ Epre].
        assert (Hnb : forall r, new <> old ++ r).
        { intros r E. destruct r as [|c r]; [rewrite app_nil_r in E; rewrite E in Enc; congruence|].
          assert (Ht : is_prefix (rpath old ++ [SLASH]) (rpath new) = true).
          { apply is_prefix_rpath; [apply gcs_ok; exact Hgo|apply gcs_ok; exact Hgn|]. exists c, r. exact E. }
          congruence. }
        apply inv_with; [exact Hinv|].
        apply (hinv_move (o_index s) _ (o_heap s) ops on nps nn op oc ocn np npn None); try assumption.
        -- intros j [=].
        -- apply (move_spec_dir _ (o_heap s)); assumption.
      * cbn [fst].
        assert (Hleaf_o : forall c', Ch (o_heap s) oc c' = None).
        { intros c'. unfold Ch. rewrite Hoc, (hi_leaf _ _ Hh _ _ Hoc Eocd). reflexivity. }
        assert (Hon' : old <> new) by (intros E; rewrite E in HFoc; congruence).
        assert (Hbo : forall c r, gcs (c :: r) -> Fi (o_index s) (old ++ c :: r) = None).
        { intros c r Hcr. apply (Fi_below_leaf _ _ old oc c r Hh Hgo Hcr HFoc Hleaf_o). }
        assert (Hbn : forall c r, gcs (c :: r) -> Fi (o_index s) (new ++ c :: r) = None).
        { intros c r Hcr. apply (Fi_below_none _ _ new c r Hh Hgn Hcr Enc). }
        assert (Hnb : forall r, new <> old ++ r).
        { intros r E. destruct r as [|c r]; [rewrite app_nil_r in E; congruence|].
          unfold new in E. destruct (snoc_eq_app _ _ _ _ E) as [[E1 _]|(r' & Er & Enps)]; [discriminate|].
          destruct r' as [|c2 r2].
          - rewrite app_nil_r in Enps. rewrite Enps in HFnp. rewrite HFoc in HFnp. inversion HFnp; subst np.
            rewrite Hoc in Hnp. inversion Hnp; subst. congruence.
          - assert (Hcr : gcs (c2 :: r2)). { rewrite Enps in Hnps. apply Forall_app in Hnps. apply Hnps. }
            rewrite Enps in HFnp. rewrite (Hbo c2 r2 Hcr) in HFnp. discriminate. }
        apply inv_with; [exact Hinv|].
        apply (hinv_move (o_index s) _ (o_heap s) ops on nps nn op oc ocn np npn None); try assumption.
        -- intros j [=].
        -- apply (move_spec_file _ (o_heap s)); assumption.
Qed.

(* ---- MkdirAll ------------------------------------------------------------------------------------------------ *)
(* the keys of the directories below [ps] along [rest], from the shallowest to the deepest *)
Fixpoint chain_paths (ps rest : list str) : list str :=
  match rest with
  | [] => []
  | c :: r => rpath (ps ++ [c]) :: chain_paths (ps ++ [c]) r
  end.

Lemma chain_paths_snoc rest : forall ps c,
  chain_paths ps (rest ++ [c]) = chain_paths ps rest ++ [rpath (ps ++ rest ++ [c])].
Proof.
  induction rest as [|x r IH]; intros ps c; cbn [chain_paths app]; [reflexivity|].
  rewrite IH. rewrite <- !app_assoc. reflexivity.
Qed.

Lemma rpath_length_ge cs : length cs <= length (rpath cs).
Proof. induction cs as [|c cs IH]; cbn [rpath length]; [lia|]. rewrite app_length. lia. Qed.

Lemma osplit_split_abs os p x : osplit os p = Some x -> split_abs os p = x.
Proof. unfold osplit. destruct (Nat.eqb _ 0); [discriminate|]. intros [= <-]. reflexivity. Qed.

Lemma o_missing_spec s : orefa_inv s -> forall cur ds fuel, gcs cur -> length cur < fuel ->
  (exists r, o_missing fuel s (rpath cur) ds = inl r)
  \/ (exists cur0 mid i n, cur = cur0 ++ mid
        /\ o_missing fuel s (rpath cur) ds = inr (ds ++ rev (chain_paths cur0 mid), i)
        /\ ofind s (rpath cur0) = Some (i, n) /\ on_dir n = true
        /\ (forall c r, mid = c :: r -> Fi (o_index s) (cur0 ++ [c]) = None)).
Proof.
  intros Hinv cur. induction cur as [|c cur' IH] using rev_ind; intros ds fuel Hcur Hfuel.
  - destruct fuel as [|f]; [lia|]. cbn [o_missing rpath].
    destruct (ofind_root s (inv_h _ Hinv)) as (n & _ & H2 & Hd). rewrite H2, Hd.
    right. exists [], [], 0, n. cbn [chain_paths rev app]. rewrite app_nil_r. repeat split; auto. intros c r [=].
  - destruct fuel as [|f]; [lia|]. cbn [o_missing].
    apply gcs_snoc_inv in Hcur. destruct Hcur as [Hcur' Hc].
    destruct (ofind s (rpath (cur' ++ [c]))) as [[i n]|] eqn:E.
    + destruct (on_dir n) eqn:Ed.
      * right. exists (cur' ++ [c]), [], i, n. cbn [chain_paths rev]. rewrite !app_nil_r. repeat split; auto. intros c0 r [=].
      * left. eauto.
    + rewrite (inv_os _ Hinv).
      assert (Hvl : Nat.leb (length (rpath (cur' ++ [c]))) (volume_name_len Linux (rpath (cur' ++ [c]))) = false).
      { apply Nat.leb_gt. cbn [volume_name_len]. pose proof (rpath_length_ge (cur' ++ [c])) as Hl.
        rewrite app_length in Hl. cbn [length] in Hl. lia. }
      rewrite Hvl. clear Hvl.
      rewrite (split_abs_rpath cur' c) by (apply comp_ok_nosl; apply good_comp_ok'; exact Hc).
      rewrite app_length in Hfuel. cbn [length] in Hfuel.
      assert (Hf' : length cur' < f) by lia.
      destruct (IH (ds ++ [rpath (cur' ++ [c])]) f Hcur' Hf') as [(r & Hr)|(cur0 & mid & i & n & Ecur & Hres & Hf & Hd & Hmiss)].
      * left. eauto.
      * right. exists cur0, (mid ++ [c]), i, n. split; [rewrite Ecur, app_assoc; reflexivity|].
        split; [|split; [exact Hf|split; [exact Hd|]]].
        -- rewrite Hres. rewrite chain_paths_snoc, rev_app_distr. cbn [rev app].
           rewrite <- app_assoc. cbn [app]. rewrite Ecur, <- app_assoc. reflexivity.
        -- intros c0 r Em. destruct mid as [|m0 mid'].
           ++ rewrite app_nil_r in Ecur. cbn [app] in Em. inversion Em as [[Ec0 Er]]. rewrite <- Ecur.
              apply (ofind_none _ _ (inv_h _ Hinv)) in E. rewrite <- Ec0. exact E.
           ++ cbn [app] in Em. inversion Em as [[Ec0 Er]]. rewrite <- Ec0. apply (Hmiss m0 mid' eq_refl).
Qed.

Lemma dir_mode_is_dir x : has (N.lor (dir_mode Linux) x) MODE_DIR = true.
Proof.
  rewrite has_mode_dir_testbit, N.lor_spec. cbn [dir_mode]. change MODE_DIR with (2 ^ 31)%N.
  rewrite N.pow2_bits_true. reflexivity.
Qed.

Lemma chain_inv perm : forall mid s cur0 i n, orefa_inv s -> gcs (cur0 ++ mid) ->
  ofind s (rpath cur0) = Some (i, n) -> on_dir n = true ->
  (forall c r, mid = c :: r -> Fi (o_index s) (cur0 ++ [c]) = None) ->
  orefa_inv (o_create_chain s i (chain_paths cur0 mid) perm).
Proof.
  induction mid as [|c r IH]; intros s cur0 i n Hinv Hg Hf Hd Hmiss; cbn [chain_paths o_create_chain]; [exact Hinv|].
  assert (Hg0 : gcs cur0) by (apply Forall_app in Hg; apply Hg).
  assert (Hcr : gcs (c :: r)) by (apply Forall_app in Hg; apply Hg).
  inversion Hcr as [|? ? Hc Hr]; subst.
  rewrite (inv_os _ Hinv).
  rewrite (osplit_split_abs Linux _ _ (split_abs_rpath cur0 c (comp_ok_nosl _ (good_comp_ok' _ Hc)))). cbn [snd].
  assert (Hn : ofind s (rpath (cur0 ++ [c])) = None).
  { unfold ofind. unfold Fi in Hmiss. rewrite (Hmiss c r eq_refl). reflexivity. }
  unfold o_create_dir.
  pose proof (inv_create_node s cur0 c i n (N.lor (dir_mode (o_os s)) (N.ldiff (N.land perm (511 + MODE_STICKY)) (o_umask s)))
                Hinv Hg0 Hc Hf Hd Hn) as Hinv1.
  destruct (o_create_node s i (rpath (cur0 ++ [c])) c _) as [s1 c1] eqn:Ecreate. cbn [fst] in Hinv1.
  apply ofind_some in Hf. destruct Hf as [Hfi Hfn].
  assert (Hilt : i < length (o_heap s)) by (eapply oget_some_lt; exact Hfn).
  set (pm := match oget (o_heap s) i with Some n0 => on_meta n0 | None => {| m_mode := 0; m_uid := 0; m_gid := 0 |} end).
  set (mode0 := N.lor (dir_mode (o_os s)) (N.ldiff (N.land perm (511 + MODE_STICKY)) (o_umask s))).
  set (nd := {| on_ch := []; on_data := []; on_nlink := 1; on_id := (o_last_id s + 1)%N;
                on_meta := {| m_mode := if has (m_mode pm) MODE_SETGID && has mode0 MODE_DIR
                                        then N.lor mode0 MODE_SETGID else mode0;
                              m_uid := us_uid (o_user s);
                              m_gid := if has (m_mode pm) MODE_SETGID then m_gid pm else us_gid (o_user s) |} |}) in *.
  assert (Es1 : o_index s1 = aset str_eqb (rpath (cur0 ++ [c])) (length (o_heap s)) (o_index s)
                /\ o_heap s1 = o_add_child (o_heap s ++ [nd]) i c (length (o_heap s)) /\ c1 = length (o_heap s)).
  { unfold o_create_node in Ecreate. inversion Ecreate. cbn [o_index o_heap]. auto. }
  destruct Es1 as (Eidx & Eheap & Ec1).
  apply (IH s1 (cur0 ++ [c]) c1 nd Hinv1).
  - rewrite <- app_assoc. exact Hg.
  - apply ofind_some. rewrite Eidx, Eheap, Ec1. split.
    + unfold ikey. apply al_aset_eq.
    + unfold o_add_child. rewrite (oget_app_some _ nd _ _ Hfn). rewrite oget_oupd_neq by lia. apply oget_app_new.
  - unfold nd, on_dir, mode0. cbn [on_meta m_mode]. rewrite (inv_os _ Hinv).
    match goal with |- context [if ?b then _ else _] => destruct b end; [rewrite <- N.lor_assoc|]; apply dir_mode_is_dir.
  - intros c2 r2 Er. rewrite Eidx.
    assert (Hg2 : gcs (c2 :: r2)) by (rewrite <- Er; exact Hr). inversion Hg2 as [|? ? Hc2 _]; subst.
    rewrite Fi_aset_neq.
    + apply (Fi_below_none _ (o_heap s) (cur0 ++ [c]) c2 [] (inv_h _ Hinv)).
      * apply gcs_snoc; assumption.
      * constructor; [exact Hc2|constructor].
      * apply (Hmiss c (c2 :: r2) eq_refl).
    + apply gcs_snoc; [apply gcs_snoc; assumption|exact Hc2].
    + apply gcs_snoc; assumption.
    + intros E. apply (f_equal (@length str)) in E. rewrite !app_length in E. cbn in E. lia.
Qed.

Lemma step_mkdir_all s path perm : orefa_inv s -> orefa_inv (fst (o_mkdir_all s path perm)).
Proof.
  intros Hinv. unfold o_mkdir_all.
  destruct (oabs_shape s path Hinv) as (cs & Hcs & Eabs). rewrite Eabs.
  destruct (ofind s (abs_path cs)) as [[i n]|] eqn:E; [destruct (on_dir n); exact Hinv|].
  destruct (abs_path_cases cs) as [[-> E1]|[Hne E1]].
  - destruct (ofind_root s (inv_h _ Hinv)) as (n & H1 & _). rewrite E1, H1 in E. discriminate.
  - rewrite E1 in *.
    assert (Hfu : length cs < S (length (rpath cs))) by (pose proof (rpath_length_ge cs); lia).
    destruct (o_missing_spec s Hinv cs [] (S (length (rpath cs))) Hcs Hfu) as [(r & Hr)|(cur0 & mid & i & n & Ecur & Hres & Hf & Hd & Hmiss)].
    + rewrite Hr. exact Hinv.
    + rewrite Hres. cbn [app fst]. rewrite rev_involutive.
      apply (chain_inv perm mid s cur0 i n Hinv); try assumption. rewrite <- Ecur. exact Hcs.
Qed.

(* ---- RemoveAll of a file or of an empty directory -------------------------------------------------------------- *)
Definition ra_leaf (s : ofs) (path : str) : Prop :=
  match ofind s (oabs s path) with Some (_, n) => on_ch n = [] | None => True end.

Lemma step_remove_all_leaf s path : orefa_inv s -> ra_leaf s path -> orefa_inv (fst (o_remove_all s path)).
Proof.
  intros Hinv Hleaf. unfold o_remove_all. destruct path as [|x path']; [exact Hinv|]. set (path := x :: path') in *.
  unfold ra_leaf in Hleaf.
  destruct (oabs_shape s path Hinv) as (cs & Hcs & Eabs). rewrite Eabs in *. rewrite (inv_os _ Hinv).
  destruct (abs_path_split cs Hcs) as [(-> & E1 & E2)|(ps & c & -> & Hps & Hc & E1 & E2)]; rewrite E2.
  - destruct (ofind_root s (inv_h _ Hinv)) as (n & H1 & H2 & Hd). rewrite E1, H1, H2. rewrite Nat.eqb_refl. exact Hinv.
  - rewrite E1 in *. destruct (ofind s (rpath (ps ++ [c]))) as [[ci cn]|] eqn:Ec; [|exact Hinv].
    destruct (ofind s (rpath ps)) as [[pi pn]|] eqn:Ep; [|exact Hinv].
    destruct (Nat.eqb ci pi); [exact Hinv|].
    apply ofind_some in Ec. destruct Ec as [Hci Hcn]. apply ofind_some in Ep. destruct Ep as [Hpi Hpn].
    cbn [o_rm_all snd fst]. rewrite Hcn, Hleaf.
    assert (E : (if on_dir cn then fold_left (fun acc (e : str * nat) => o_rm_all (length (o_heap s)) Linux acc (rpath (ps ++ [c]) ++ [sepc Linux] ++ fst e) (snd e)) [] (o_index s, o_heap s) else (o_index s, o_heap s)) = (o_index s, o_heap s))
      by (destruct (on_dir cn); reflexivity).
    rewrite E. cbn [fst snd]. apply inv_with; [exact Hinv|].
    apply (hinv_unlink _ _ ps c pi pn ci cn); try assumption. apply (inv_h _ Hinv).
Qed.

(* ---- open files ------------------------------------------------------------------------------------------------ *)
Ltac prologue Hinv :=
  unfold o_prologue;
  match goal with |- context [hd_name ?f] => destruct (hd_name f); [exact Hinv|] end;
  match goal with |- context [hd_node ?f] => destruct (hd_node f) as [c|]; [|exact Hinv] end;
  match goal with |- context [oget ?h ?c0] => destruct (oget h c0) as [nd|] eqn:End; [|exact Hinv] end.

Lemma step_of_write s f b : orefa_inv s -> orefa_inv (fst (fst (of_write s f b))).
Proof.
  intros Hinv. unfold of_write. prologue Hinv.
  destruct (on_dir nd || negb (has (hd_mode f) OpenWrite)); [exact Hinv|]. destruct b; [exact Hinv|].
  cbn [fst]. apply inv_upd_data; assumption.
Qed.

Lemma step_of_write_at s f b off : orefa_inv s -> orefa_inv (fst (of_write_at s f b off)).
Proof.
  intros Hinv. unfold of_write_at. destruct (has (hd_mode f) OpenAppend); [exact Hinv|].
  destruct (Z.ltb off 0); [exact Hinv|]. destruct b; [exact Hinv|]. prologue Hinv.
  destruct (on_dir nd || negb (has (hd_mode f) OpenWrite)); [exact Hinv|]. cbn [fst]. apply inv_upd_data; assumption.
Qed.

Lemma step_of_truncate s f size : orefa_inv s -> orefa_inv (fst (of_truncate s f size)).
Proof.
  intros Hinv. unfold of_truncate. prologue Hinv.
  destruct (on_dir nd || negb (has (hd_mode f) OpenWrite)); [exact Hinv|]. destruct (Z.ltb size 0); [exact Hinv|].
  cbn [fst]. apply inv_upd_data; assumption.
Qed.

Lemma step_of_chmod s f mode : orefa_inv s -> orefa_inv (fst (of_chmod s f mode)).
Proof. intros Hinv. unfold of_chmod. prologue Hinv. cbn [fst]. apply inv_upd_mode; assumption. Qed.

Lemma step_of_chown s f uid gid : orefa_inv s -> orefa_inv (fst (of_chown s f uid gid)).
Proof.
  intros Hinv. unfold of_chown. prologue Hinv. destruct (owin s); [exact Hinv|]. cbn [fst]. apply inv_upd_owner; assumption.
Qed.

Lemma step_of_chdir s f : orefa_inv s -> orefa_inv (fst (of_chdir s f)).
Proof.
  intros Hinv. unfold of_chdir. prologue Hinv. destruct (on_dir nd); [|exact Hinv]. cbn [fst]. apply inv_with_cwd. exact Hinv.
Qed.

Lemma step_write_file s name data perm : orefa_inv s -> orefa_inv (fst (o_write_file s name data perm)).
Proof.
  intros Hinv. unfold o_write_file.
  pose proof (step_open_file s name (O_WRONLY + O_CREATE + O_TRUNC) perm Hinv) as H1.
  destruct (o_open_file s name (O_WRONLY + O_CREATE + O_TRUNC) perm) as [s1 [r|f]]; [exact Hinv|]. cbn [fst] in H1.
  pose proof (step_of_write s1 f data H1) as H2.
  destruct (of_write s1 f data) as [[s2 f2] r]. cbn [fst] in H2. destruct r; exact H2.
Qed.

Lemma inv_with_user s u : orefa_inv s -> orefa_inv (o_with_user s u).
Proof. intros Hinv. constructor; [apply (inv_os _ Hinv)|apply (inv_cwd _ Hinv)|apply (inv_h _ Hinv)]. Qed.

Lemma inv_with_umask s m : orefa_inv s -> orefa_inv (o_with_umask s m).
Proof. intros Hinv. constructor; [apply (inv_os _ Hinv)|apply (inv_cwd _ Hinv)|apply (inv_h _ Hinv)]. Qed.
