(* The well-formedness invariant of the OrefaFS model (DESIGN 5 C05, I7 included)
   and its preservation by every call.

   [F s cs] is the node the node map gives for the path with components cs
   (key "/c1/.../cn", "" for the root); [Ch h p c] is the entry c of the
   children map of node p.  The invariant ties the two: a path is in the map
   exactly when its parent path is and the parent's children map has the
   entry (clause inv_edge), which is I7 "index p = n <-> walking gives n" in
   its local, one-step form (orefa_walk gives the unfolded form). *)
From Avfs Require Import Base PathModel PathSpec PathCleanProofs PathIterProofs MemFS MemFile World
  OrefaFS OrefaWorld OrefaLemmas.


Definition gcs (cs : list str) : Prop := Forall good_comp cs.
Definition Fi (idx : list (str * nat)) (cs : list str) : option nat := ikey idx (rpath cs).
Definition Ch (h : oheap) (p : nat) (c : str) : option nat :=
  match oget h p with Some n => alookup str_eqb c (on_ch n) | None => None end.
Definition kcount (i : nat) (idx : list (str * nat)) : nat := kcount_p nat (fun v => Nat.eqb v i) idx.
Definition is_dir_at (h : oheap) (i : nat) : Prop := exists n, oget h i = Some n /\ on_dir n = true.

Record hinv (idx : list (str * nat)) (h : oheap) : Prop := {
  hi_nodup : NoDup (map fst idx);
  hi_keys : forall k i, ikey idx k = Some i -> (k = [SLASH] /\ i = 0) \/ exists cs, gcs cs /\ k = rpath cs;
  hi_root : ikey idx [] = Some 0 /\ ikey idx [SLASH] = Some 0;
  hi_rootdir : is_dir_at h 0;
  hi_rootkey : forall cs, gcs cs -> Fi idx cs = Some 0 -> cs = [];
  hi_valid : forall k i, ikey idx k = Some i -> exists n, oget h i = Some n;
  hi_edge : forall cs c i, gcs cs -> good_comp c ->
      (Fi idx (cs ++ [c]) = Some i <-> exists p, Fi idx cs = Some p /\ Ch h p c = Some i);
  hi_leaf : forall i n, oget h i = Some n -> on_dir n = false -> on_ch n = [];
  hi_nlink : forall i n, oget h i = Some n -> i <> 0 -> on_nlink n = Z.of_nat (kcount i idx);
  hi_dirnlink : forall i n, oget h i = Some n -> on_dir n = true -> (on_nlink n <= 1)%Z;
  hi_chgood : forall i n c j, oget h i = Some n -> In (c, j) (on_ch n) -> good_comp c;
  hi_chnodup : forall i n, oget h i = Some n -> NoDup (map fst (on_ch n))
}.

Record orefa_inv (s : ofs) : Prop := {
  inv_os : o_os s = Linux;
  inv_cwd : exists bs, gcs bs /\ o_cwd s = abs_path bs;
  inv_h : hinv (o_index s) (o_heap s)
}.

(* ---- heap access lemmas --------------------------------------------------------- *)
Lemma oupd_length h : forall i n, length (oupd h i n) = length h.
Proof. induction h as [|x h IH]; intros [|i] n; cbn [oupd length]; auto. Qed.

Lemma oget_oupd_eq h : forall i n, i < length h -> oget (oupd h i n) i = Some n.
Proof.
  unfold oget. induction h as [|x h IH]; intros [|i] n Hi; cbn [oupd length nth_error] in *; try lia; auto.
  apply IH. lia.
Qed.

Lemma oget_oupd_neq h : forall i j n, i <> j -> oget (oupd h i n) j = oget h j.
Proof.
  unfold oget. induction h as [|x h IH]; intros [|i] [|j] n Hne; cbn [oupd nth_error]; try congruence; auto.
Qed.

Lemma oget_some_lt h i n : oget h i = Some n -> i < length h.
Proof. unfold oget. intros H. apply nth_error_Some. congruence. Qed.

Lemma oget_lt_some h i : i < length h -> exists n, oget h i = Some n.
Proof. unfold oget. intros H. destruct (nth_error h i) eqn:E; [eauto|]. apply nth_error_None in E. lia. Qed.

Lemma oget_app_old h n i : i < length h -> oget (h ++ [n]) i = oget h i.
Proof. unfold oget. intros H. apply nth_error_app1. exact H. Qed.

Lemma oget_app_new h n : oget (h ++ [n]) (length h) = Some n.
Proof. unfold oget. rewrite nth_error_app2 by lia. rewrite Nat.sub_diag. reflexivity. Qed.

Lemma oget_app_some h n i x : oget h i = Some x -> oget (h ++ [n]) i = Some x.
Proof. intros H. rewrite oget_app_old; [exact H|]. eapply oget_some_lt. exact H. Qed.

(* one lemma for reading a heap after an update *)
Lemma oget_oupd h i j n x : oget h i = Some x ->
  oget (oupd h i n) j = if Nat.eqb i j then Some n else oget h j.
Proof.
  intros Hx. destruct (Nat.eqb_spec i j) as [->|Hne].
  - apply oget_oupd_eq. eapply oget_some_lt. exact Hx.
  - apply oget_oupd_neq. exact Hne.
Qed.

(* ---- children maps under the mutators --------------------------------------------- *)
Lemma Ch_add_child h p c j pn : oget h p = Some pn ->
  forall q c', Ch (o_add_child h p c j) q c' =
    if Nat.eqb p q && str_eqb c' c then Some j else Ch h q c'.
Proof.
  intros Hp q c'. unfold Ch, o_add_child. rewrite Hp. rewrite (oget_oupd _ _ _ _ _ Hp).
  destruct (Nat.eqb_spec p q) as [->|Hne]; cbn [andb].
  - rewrite Hp. cbn [on_with_ch on_ch]. destruct (str_eqb_spec c' c) as [->|Hc].
    + apply al_aset_eq.
    + apply al_aset_neq. exact Hc.
  - reflexivity.
Qed.

Lemma Ch_del_child h p c pn : oget h p = Some pn ->
  forall q c', Ch (o_del_child h p c) q c' =
    if Nat.eqb p q && str_eqb c' c then None else Ch h q c'.
Proof.
  intros Hp q c'. unfold Ch, o_del_child. rewrite Hp. rewrite (oget_oupd _ _ _ _ _ Hp).
  destruct (Nat.eqb_spec p q) as [->|Hne]; cbn [andb].
  - rewrite Hp. cbn [on_with_ch on_ch]. destruct (str_eqb_spec c' c) as [->|Hc].
    + apply al_aremove_eq.
    + apply al_aremove_neq. exact Hc.
  - reflexivity.
Qed.

Lemma Ch_release h c cn : oget h c = Some cn ->
  forall q c', Ch (o_release h c) q c' = if Nat.eqb c q then None else Ch h q c'.
Proof.
  intros Hc q c'. unfold Ch, o_release. rewrite Hc. rewrite (oget_oupd _ _ _ _ _ Hc).
  destruct (Nat.eqb_spec c q) as [->|Hne]; reflexivity.
Qed.

Lemma Ch_app_old h n q c : q < length h -> Ch (h ++ [n]) q c = Ch h q c.
Proof. intros H. unfold Ch. rewrite oget_app_old by exact H. reflexivity. Qed.

(* ---- consequences of the invariant ---------------------------------------------------- *)
Section Consequences.
  Variables (idx : list (str * nat)) (h : oheap).
  Hypothesis Hinv : hinv idx h.

  Lemma gcs_ok cs : gcs cs -> Forall comp_ok cs.
  Proof. apply Forall_comp_ok_of. Qed.

  Lemma gcs_app a b : gcs a -> gcs b -> gcs (a ++ b).
  Proof. intros. apply Forall_app. auto. Qed.

  Lemma gcs_snoc a c : gcs a -> good_comp c -> gcs (a ++ [c]).
  Proof. intros Ha Hc. apply gcs_app; [exact Ha|]. constructor; [exact Hc|constructor]. Qed.

  Lemma gcs_snoc_inv a c : gcs (a ++ [c]) -> gcs a /\ good_comp c.
  Proof. intros H. apply Forall_app in H. destruct H as [Ha Hc]. inversion Hc; subst. auto. Qed.

  (* the parent of a key is a key, of a directory, that lists it *)
  Lemma parent_is_dir cs c i : gcs cs -> good_comp c -> Fi idx (cs ++ [c]) = Some i ->
    exists p pn, Fi idx cs = Some p /\ oget h p = Some pn /\ on_dir pn = true /\ alookup str_eqb c (on_ch pn) = Some i.
  Proof.
    intros Hcs Hc HF. apply (hi_edge _ _ Hinv) in HF; [|exact Hcs|exact Hc].
    destruct HF as (p & Hp & Hch). unfold Ch in Hch. destruct (oget h p) as [pn|] eqn:Ep; [|discriminate].
    exists p, pn. repeat split; auto.
    destruct (on_dir pn) eqn:Ed; [reflexivity|]. rewrite (hi_leaf _ _ Hinv _ _ Ep Ed) in Hch. discriminate.
  Qed.

  Lemma kcount_two k1 k2 i : k1 <> k2 -> ikey idx k1 = Some i -> ikey idx k2 = Some i -> 2 <= kcount i idx.
  Proof.
    intros Hne H1 H2. unfold ikey in *.
    pose proof (kcount_aremove _ (fun v => Nat.eqb v i) _ _ _ (hi_nodup _ _ Hinv) H1) as E1.
    cbv beta in E1. rewrite Nat.eqb_refl in E1.
    assert (H2' : alookup str_eqb k2 (aremove str_eqb k1 idx) = Some i).
    { rewrite al_aremove_neq by (intros E; apply Hne; auto). exact H2. }
    pose proof (kcount_aremove _ (fun v => Nat.eqb v i) _ _ _ (nodup_aremove _ k1 _ (hi_nodup _ _ Hinv)) H2') as E2.
    cbv beta in E2. rewrite Nat.eqb_refl in E2. unfold kcount. lia.
  Qed.

  (* a directory has one path *)
  Lemma dir_key_unique cs1 cs2 p : gcs cs1 -> gcs cs2 -> Fi idx cs1 = Some p -> Fi idx cs2 = Some p ->
    is_dir_at h p -> cs1 = cs2.
  Proof.
    intros H1 H2 F1 F2 (n & Hn & Hd).
    destruct (Nat.eq_dec p 0) as [->|Hp0].
    - rewrite (hi_rootkey _ _ Hinv _ H1 F1), (hi_rootkey _ _ Hinv _ H2 F2). reflexivity.
    - destruct (list_eq_dec (list_eq_dec N.eq_dec) cs1 cs2) as [E|Hne]; [exact E|exfalso].
      assert (Hk : rpath cs1 <> rpath cs2).
      { intros E. apply Hne. apply rpath_inj; [apply gcs_ok; exact H1|apply gcs_ok; exact H2|exact E]. }
      pose proof (kcount_two _ _ _ Hk F1 F2) as H2c.
      pose proof (hi_nlink _ _ Hinv _ _ Hn Hp0) as Hl. pose proof (hi_dirnlink _ _ Hinv _ _ Hn Hd) as Hd1. lia.
  Qed.
End Consequences.

(* ---- P1: an update that keeps children, link count and type ------------------------------ *)
Lemma oget_oupd_cases h c n n' i x : oget h c = Some n -> oget (oupd h c n') i = Some x ->
  (i = c /\ x = n') \/ (i <> c /\ oget h i = Some x).
Proof.
  intros Hc Hx. rewrite (oget_oupd _ _ _ _ _ Hc) in Hx.
  destruct (Nat.eqb_spec c i) as [->|Hne]; [left; inversion Hx; auto|right; auto].
Qed.

Lemma Ch_oupd_same h c n n' : oget h c = Some n -> on_ch n' = on_ch n ->
  forall q c', Ch (oupd h c n') q c' = Ch h q c'.
Proof.
  intros Hc Hch q c'. unfold Ch. rewrite (oget_oupd _ _ _ _ _ Hc).
  destruct (Nat.eqb_spec c q) as [->|Hne]; [rewrite Hc, Hch|]; reflexivity.
Qed.

Lemma is_dir_at_oupd h c n n' i : oget h c = Some n -> on_dir n' = on_dir n ->
  is_dir_at h i -> is_dir_at (oupd h c n') i.
Proof.
  intros Hc Hd (x & Hx & Hxd). unfold is_dir_at. rewrite (oget_oupd _ _ _ _ _ Hc).
  destruct (Nat.eqb_spec c i) as [->|Hne]; [|eauto].
  exists n'. split; [reflexivity|]. rewrite Hd. congruence.
Qed.

Lemma hinv_upd idx h c n n' : hinv idx h -> oget h c = Some n ->
  on_ch n' = on_ch n -> on_nlink n' = on_nlink n -> on_dir n' = on_dir n ->
  hinv idx (oupd h c n').
Proof.
  intros Hinv Hc Hch Hnl Hd. constructor.
  - apply (hi_nodup _ _ Hinv).
  - apply (hi_keys _ _ Hinv).
  - apply (hi_root _ _ Hinv).
  - apply (is_dir_at_oupd _ _ _ _ _ Hc Hd (hi_rootdir _ _ Hinv)).
  - apply (hi_rootkey _ _ Hinv).
  - intros k i Hk. destruct (hi_valid _ _ Hinv _ _ Hk) as (x & Hx).
    rewrite (oget_oupd _ _ _ _ _ Hc). destruct (Nat.eqb c i); eauto.
  - intros cs c' i Hcs Hc'. rewrite (hi_edge _ _ Hinv cs c' i Hcs Hc').
    split; intros (p & Hp & Hq); exists p; (split; [exact Hp|]).
    + rewrite (Ch_oupd_same _ _ _ _ Hc Hch). exact Hq.
    + rewrite (Ch_oupd_same _ _ _ _ Hc Hch) in Hq. exact Hq.
  - intros i x Hx Hxd. destruct (oget_oupd_cases _ _ _ _ _ _ Hc Hx) as [[-> ->]|[_ Hx']].
    + rewrite Hch. apply (hi_leaf _ _ Hinv _ _ Hc). congruence.
    + apply (hi_leaf _ _ Hinv _ _ Hx' Hxd).
  - intros i x Hx Hi0. destruct (oget_oupd_cases _ _ _ _ _ _ Hc Hx) as [[-> ->]|[_ Hx']].
    + rewrite Hnl. apply (hi_nlink _ _ Hinv _ _ Hc Hi0).
    + apply (hi_nlink _ _ Hinv _ _ Hx' Hi0).
  - intros i x Hx Hxd. destruct (oget_oupd_cases _ _ _ _ _ _ Hc Hx) as [[-> ->]|[_ Hx']].
    + rewrite Hnl. apply (hi_dirnlink _ _ Hinv _ _ Hc). congruence.
    + apply (hi_dirnlink _ _ Hinv _ _ Hx' Hxd).
  - intros i x c' j Hx Hin. destruct (oget_oupd_cases _ _ _ _ _ _ Hc Hx) as [[-> ->]|[_ Hx']].
    + rewrite Hch in Hin. apply (hi_chgood _ _ Hinv _ _ _ _ Hc Hin).
    + apply (hi_chgood _ _ Hinv _ _ _ _ Hx' Hin).
  - intros i x Hx. destruct (oget_oupd_cases _ _ _ _ _ _ Hc Hx) as [[-> ->]|[_ Hx']].
    + rewrite Hch. apply (hi_chnodup _ _ Hinv _ _ Hc).
    + apply (hi_chnodup _ _ Hinv _ _ Hx').
Qed.

(* ---- lookups in the node map by components --------------------------------------------- *)
Lemma cs_eq_dec (a b : list str) : {a = b} + {a <> b}.
Proof. apply list_eq_dec. apply list_eq_dec. apply N.eq_dec. Qed.

Lemma Fi_aset_eq idx ks v : Fi (aset str_eqb (rpath ks) v idx) ks = Some v.
Proof. unfold Fi, ikey. apply al_aset_eq. Qed.

Lemma Fi_aset_neq idx ks v cs : gcs cs -> gcs ks -> cs <> ks -> Fi (aset str_eqb (rpath ks) v idx) cs = Fi idx cs.
Proof.
  intros Hc Hk Hne. unfold Fi, ikey. apply al_aset_neq. intros E. apply Hne.
  apply rpath_inj; [apply gcs_ok; exact Hc|apply gcs_ok; exact Hk|exact E].
Qed.

Lemma Fi_aremove_eq idx ks : Fi (aremove str_eqb (rpath ks) idx) ks = None.
Proof. unfold Fi, ikey. apply al_aremove_eq. Qed.

Lemma Fi_aremove_neq idx ks cs : gcs cs -> gcs ks -> cs <> ks -> Fi (aremove str_eqb (rpath ks) idx) cs = Fi idx cs.
Proof.
  intros Hc Hk Hne. unfold Fi, ikey. apply al_aremove_neq. intros E. apply Hne.
  apply rpath_inj; [apply gcs_ok; exact Hc|apply gcs_ok; exact Hk|exact E].
Qed.

Lemma kcount_zero idx h i : hinv idx h -> (forall k, ikey idx k <> Some i) -> kcount i idx = 0.
Proof.
  intros Hinv Hno. unfold kcount. destruct (kcount_p nat (fun v => Nat.eqb v i) idx) eqn:E; [reflexivity|exfalso].
  destruct (kcount_pos_in nat (fun v => Nat.eqb v i) idx) as (k & v & Hin & Hv); [lia|].
  apply Nat.eqb_eq in Hv. subst v. apply (Hno k). unfold ikey. apply in_al; [apply (hi_nodup _ _ Hinv)|exact Hin].
Qed.

Lemma kcount_fresh idx h : hinv idx h -> kcount (length h) idx = 0.
Proof.
  intros Hinv. apply (kcount_zero idx h); [exact Hinv|]. intros k Hk.
  destruct (hi_valid _ _ Hinv _ _ Hk) as (n & Hn). apply oget_some_lt in Hn. lia.
Qed.

Lemma snoc_neq_self (A : Type) (l : list A) x : l <> l ++ [x].
Proof. intros E. apply (f_equal (@length A)) in E. rewrite app_length in E. cbn in E. lia. Qed.

Lemma rpath_snoc_not_nil cs c : rpath (cs ++ [c]) <> [].
Proof. rewrite rpath_snoc. destruct (rpath cs); discriminate. Qed.

(* ---- P2: a new node under an existing directory ------------------------------------------- *)
Lemma hinv_create idx h ps c p pn nd :
  hinv idx h -> gcs ps -> good_comp c ->
  Fi idx ps = Some p -> oget h p = Some pn -> on_dir pn = true ->
  Fi idx (ps ++ [c]) = None ->
  on_ch nd = [] -> on_nlink nd = 1%Z ->
  hinv (aset str_eqb (rpath (ps ++ [c])) (length h) idx) (o_add_child (h ++ [nd]) p c (length h)).
Proof.
  intros Hinv Hps Hc HFp Hp Hpd HFn Hndch Hndnl.
  assert (Hplt : p < length h) by (eapply oget_some_lt; exact Hp).
  assert (Hp' : oget (h ++ [nd]) p = Some pn) by (apply oget_app_some; exact Hp).
  assert (Hgk : gcs (ps ++ [c])) by (apply gcs_snoc; assumption).
  assert (HKnil : (rpath (ps ++ [c])) <> []) by apply rpath_snoc_not_nil.
  assert (HKsl : (rpath (ps ++ [c])) <> [SLASH]) by (apply rpath_not_slash; apply gcs_ok; exact Hgk).
  assert (Hnewp : (length h) <> p) by (lia).
  (* reading the (length h) heap *)
  assert (Hget : forall i, oget (o_add_child (h ++ [nd]) p c (length h)) i =
            if Nat.eqb p i then Some (on_with_ch pn (aset str_eqb c (length h) (on_ch pn)))
            else if Nat.eqb i (length h) then Some nd else oget h i).
  { intros i. unfold o_add_child. rewrite Hp'. rewrite (oget_oupd _ _ _ _ _ Hp').
    destruct (Nat.eqb_spec p i) as [E|Hne]; [reflexivity|].
    destruct (Nat.eqb_spec i (length h)) as [->|Hne2]; [apply oget_app_new|].
    destruct (Nat.lt_ge_cases i (length h)) as [Hl|Hg].
    - apply oget_app_old. exact Hl.
    - unfold oget. rewrite (proj2 (nth_error_None _ _)) by (rewrite app_length; cbn [length]; lia).
      symmetry. apply nth_error_None. lia. }
  assert (HCh : forall q c', Ch (o_add_child (h ++ [nd]) p c (length h)) q c' =
            if Nat.eqb p q && str_eqb c' c then Some (length h) else Ch h q c').
  { intros q c'. rewrite (Ch_add_child _ _ _ _ _ Hp'). destruct (Nat.eqb p q && str_eqb c' c); [reflexivity|].
    unfold Ch. destruct (Nat.lt_ge_cases q (length h)) as [Hl|Hg].
    - rewrite oget_app_old by exact Hl. reflexivity.
    - destruct (Nat.eqb_spec q (length h)) as [->|Hne2].
      + rewrite oget_app_new, Hndch. cbn [alookup]. unfold oget.
        rewrite (proj2 (nth_error_None _ _)) by (lia). reflexivity.
      + unfold oget. rewrite (proj2 (nth_error_None (h ++ [nd]) q)) by (rewrite app_length; cbn [length]; lia).
        rewrite (proj2 (nth_error_None h q)) by lia. reflexivity. }
  constructor.
  - apply nodup_aset. apply (hi_nodup _ _ Hinv).
  - intros k i Hk. unfold ikey in Hk. destruct (str_eqb_spec k (rpath (ps ++ [c]))) as [->|Hne].
    + right. exists (ps ++ [c]). auto.
    + rewrite al_aset_neq in Hk by exact Hne. apply (hi_keys _ _ Hinv _ _ Hk).
  - unfold ikey. rewrite !al_aset_neq by congruence. apply (hi_root _ _ Hinv).
  - destruct (hi_rootdir _ _ Hinv) as (r & Hr & Hrd). unfold is_dir_at. rewrite Hget.
    destruct (Nat.eqb_spec p 0) as [->|Hp0].
    + eexists. split; [reflexivity|]. cbn. rewrite Hp in Hr. inversion Hr; subst. exact Hrd.
    + destruct (Nat.eqb_spec 0 (length h)) as [E|_]; [lia|]. eauto.
  - intros cs Hcs HF. destruct (cs_eq_dec cs (ps ++ [c])) as [->|Hne].
    + rewrite Fi_aset_eq in HF. inversion HF. lia.
    + rewrite Fi_aset_neq in HF by assumption. apply (hi_rootkey _ _ Hinv _ Hcs HF).
  - intros k i Hk. unfold ikey in Hk. rewrite Hget. destruct (str_eqb_spec k (rpath (ps ++ [c]))) as [->|Hne].
    + rewrite al_aset_eq in Hk. inversion Hk; subst i.
      destruct (Nat.eqb p (length h)); [eauto|]. rewrite Nat.eqb_refl. eauto.
    + rewrite al_aset_neq in Hk by exact Hne. destruct (hi_valid _ _ Hinv _ _ Hk) as (n & Hn).
      destruct (Nat.eqb p i); [eauto|]. destruct (Nat.eqb i (length h)); eauto.
  - intros cs c' i Hcs Hc'.
    destruct (cs_eq_dec (cs ++ [c']) (ps ++ [c])) as [E|Hne].
    + apply app_inj_tail in E. destruct E as [-> ->]. rewrite Fi_aset_eq.
      rewrite Fi_aset_neq by (try assumption; apply snoc_neq_self). rewrite HFp. split.
      * intros [= <-]. exists p. split; [reflexivity|]. rewrite HCh, Nat.eqb_refl, str_eqb_refl. reflexivity.
      * intros (q & [= <-] & Hq). rewrite HCh, Nat.eqb_refl, str_eqb_refl in Hq. exact Hq.
    + rewrite Fi_aset_neq by (try assumption; apply gcs_snoc; assumption).
      rewrite (hi_edge _ _ Hinv cs c' i Hcs Hc').
      destruct (cs_eq_dec cs (ps ++ [c])) as [->|Hne2].
      * rewrite Fi_aset_eq. rewrite HFn. split.
        -- intros (q & Hq & _). discriminate.
        -- intros (q & [= <-] & Hq). rewrite HCh in Hq.
           destruct (Nat.eqb_spec p (length h)) as [E|_]; [lia|]. cbn [andb] in Hq.
           unfold Ch in Hq. unfold oget in Hq. rewrite (proj2 (nth_error_None h (length h))) in Hq by (lia). discriminate.
      * rewrite Fi_aset_neq by assumption.
        split; intros (q & Hq & Hqc); exists q; (split; [exact Hq|]).
        -- rewrite HCh. destruct (Nat.eqb_spec p q) as [<-|_]; [|exact Hqc].
           destruct (str_eqb_spec c' c) as [->|_]; [|exact Hqc]. exfalso. apply Hne.
           rewrite (dir_key_unique idx h Hinv cs ps p Hcs Hps Hq HFp); [reflexivity|]. exists pn. auto.
        -- rewrite HCh in Hqc. destruct (Nat.eqb_spec p q) as [<-|_]; [|exact Hqc].
           destruct (str_eqb_spec c' c) as [->|_]; [|exact Hqc]. exfalso. apply Hne.
           rewrite (dir_key_unique idx h Hinv cs ps p Hcs Hps Hq HFp); [reflexivity|]. exists pn. auto.
  - intros i n Hn Hnd. rewrite Hget in Hn. destruct (Nat.eqb p i).
    + inversion Hn; subst n. change (on_dir pn = false) in Hnd. congruence.
    + destruct (Nat.eqb i (length h)); [inversion Hn; subst; exact Hndch|]. apply (hi_leaf _ _ Hinv _ _ Hn Hnd).
  - intros i n Hn Hi0. rewrite Hget in Hn. unfold kcount.
    rewrite kcount_aset_new by exact HFn. fold (kcount i idx).
    destruct (Nat.eqb_spec p i) as [<-|Hpi].
    + inversion Hn; subst n. cbn [on_with_ch on_nlink]. destruct (Nat.eqb_spec (length h) p) as [E|_]; [lia|].
      rewrite Nat.add_0_r. apply (hi_nlink _ _ Hinv _ _ Hp Hi0).
    + destruct (Nat.eqb_spec i (length h)) as [->|Hin].
      * inversion Hn; subst n. rewrite Nat.eqb_refl. rewrite (kcount_fresh idx h Hinv). rewrite Hndnl. reflexivity.
      * destruct (Nat.eqb_spec (length h) i) as [E|_]; [congruence|]. rewrite Nat.add_0_r. apply (hi_nlink _ _ Hinv _ _ Hn Hi0).
  - intros i n Hn Hnd. rewrite Hget in Hn. destruct (Nat.eqb p i).
    + inversion Hn; subst n. cbn [on_with_ch on_nlink]. apply (hi_dirnlink _ _ Hinv _ _ Hp Hpd).
    + destruct (Nat.eqb i (length h)); [inversion Hn; subst; rewrite Hndnl; lia|]. apply (hi_dirnlink _ _ Hinv _ _ Hn Hnd).
  - intros i n c' j Hn Hin. rewrite Hget in Hn. destruct (Nat.eqb p i).
    + inversion Hn; subst n. cbn [on_with_ch on_ch] in Hin. apply in_aset_cases in Hin.
      destruct Hin as [[-> _]|Hin]; [exact Hc|]. apply (hi_chgood _ _ Hinv _ _ _ _ Hp Hin).
    + destruct (Nat.eqb i (length h)); [inversion Hn; subst; rewrite Hndch in Hin; destruct Hin|].
      apply (hi_chgood _ _ Hinv _ _ _ _ Hn Hin).
  - intros i n Hn. rewrite Hget in Hn. destruct (Nat.eqb p i).
    + inversion Hn; subst n. cbn [on_with_ch on_ch]. apply nodup_aset. apply (hi_chnodup _ _ Hinv _ _ Hp).
    + destruct (Nat.eqb i (length h)); [inversion Hn; subst; rewrite Hndch; constructor|]. apply (hi_chnodup _ _ Hinv _ _ Hn).
Qed.

(* the edge clause after adding the key of ps/c and the entry c of directory p, both for node t *)
Lemma edge_add idx h h' ps c p t :
  hinv idx h -> gcs ps -> good_comp c ->
  Fi idx ps = Some p -> is_dir_at h p -> Fi idx (ps ++ [c]) = None ->
  (forall q c', Ch h' q c' = if Nat.eqb p q && str_eqb c' c then Some t else Ch h q c') ->
  (forall c', Ch h t c' = None) -> t <> p ->
  forall cs c' i, gcs cs -> good_comp c' ->
    (Fi (aset str_eqb (rpath (ps ++ [c])) t idx) (cs ++ [c']) = Some i
     <-> exists q, Fi (aset str_eqb (rpath (ps ++ [c])) t idx) cs = Some q /\ Ch h' q c' = Some i).
Proof.
  intros Hinv Hps Hc HFp Hpd HFn HCh Htleaf Htp cs c' i Hcs Hc'.
  assert (Hgk : gcs (ps ++ [c])) by (apply gcs_snoc; assumption).
  destruct (cs_eq_dec (cs ++ [c']) (ps ++ [c])) as [E|Hne].
  - apply app_inj_tail in E. destruct E as [-> ->]. rewrite Fi_aset_eq.
    rewrite Fi_aset_neq by (try assumption; apply snoc_neq_self). rewrite HFp. split.
    + intros [= <-]. exists p. split; [reflexivity|]. rewrite HCh, Nat.eqb_refl, str_eqb_refl. reflexivity.
    + intros (q & [= <-] & Hq). rewrite HCh, Nat.eqb_refl, str_eqb_refl in Hq. exact Hq.
  - rewrite Fi_aset_neq by (try assumption; apply gcs_snoc; assumption).
    rewrite (hi_edge _ _ Hinv cs c' i Hcs Hc').
    destruct (cs_eq_dec cs (ps ++ [c])) as [->|Hne2].
    + rewrite Fi_aset_eq. rewrite HFn. split.
      * intros (q & Hq & _). discriminate.
      * intros (q & [= <-] & Hq). rewrite HCh in Hq.
        destruct (Nat.eqb_spec p t) as [E|_]; [congruence|]. cbn [andb] in Hq. rewrite Htleaf in Hq. discriminate.
    + rewrite Fi_aset_neq by assumption.
      split; intros (q & Hq & Hqc); exists q; (split; [exact Hq|]).
      * rewrite HCh. destruct (Nat.eqb_spec p q) as [<-|_]; [|exact Hqc].
        destruct (str_eqb_spec c' c) as [->|_]; [|exact Hqc]. exfalso. apply Hne.
        rewrite (dir_key_unique idx h Hinv cs ps p Hcs Hps Hq HFp Hpd). reflexivity.
      * rewrite HCh in Hqc. destruct (Nat.eqb_spec p q) as [<-|_]; [|exact Hqc].
        destruct (str_eqb_spec c' c) as [->|_]; [|exact Hqc]. exfalso. apply Hne.
        rewrite (dir_key_unique idx h Hinv cs ps p Hcs Hps Hq HFp Hpd). reflexivity.
Qed.

(* ---- P3: a second name for an existing file (Link) ------------------------------------------ *)
Lemma hinv_link idx h ps c p pn oc ocn :
  hinv idx h -> gcs ps -> good_comp c ->
  Fi idx ps = Some p -> oget h p = Some pn -> on_dir pn = true ->
  Fi idx (ps ++ [c]) = None ->
  oget h oc = Some ocn -> on_dir ocn = false ->
  hinv (aset str_eqb (rpath (ps ++ [c])) oc idx)
       (oupd (o_add_child h p c oc) oc (on_with_nlink ocn (on_nlink ocn + 1))).
Proof.
  intros Hinv Hps Hc HFp Hp Hpd HFn Hoc Hocd.
  assert (Hgk : gcs (ps ++ [c])) by (apply gcs_snoc; assumption).
  assert (HKnil : rpath (ps ++ [c]) <> []) by apply rpath_snoc_not_nil.
  assert (HKsl : rpath (ps ++ [c]) <> [SLASH]) by (apply rpath_not_slash; apply gcs_ok; exact Hgk).
  assert (Hne : oc <> p) by (intros ->; rewrite Hp in Hoc; inversion Hoc; subst; congruence).
  assert (Hoc0 : oc <> 0).
  { intros ->. destruct (hi_rootdir _ _ Hinv) as (r & Hr & Hrd). rewrite Hoc in Hr. inversion Hr; subst. congruence. }
  assert (Hoc1 : oget (o_add_child h p c oc) oc = Some ocn).
  { unfold o_add_child. rewrite Hp. rewrite (oget_oupd _ _ _ _ _ Hp).
    destruct (Nat.eqb_spec p oc) as [E|_]; [congruence|exact Hoc]. }
  assert (Hget : forall i, oget (oupd (o_add_child h p c oc) oc (on_with_nlink ocn (on_nlink ocn + 1))) i =
            if Nat.eqb oc i then Some (on_with_nlink ocn (on_nlink ocn + 1))
            else if Nat.eqb p i then Some (on_with_ch pn (aset str_eqb c oc (on_ch pn))) else oget h i).
  { intros i. rewrite (oget_oupd _ _ _ _ _ Hoc1). destruct (Nat.eqb oc i); [reflexivity|].
    unfold o_add_child. rewrite Hp. apply (oget_oupd _ _ _ _ _ Hp). }
  assert (HCh : forall q c', Ch (oupd (o_add_child h p c oc) oc (on_with_nlink ocn (on_nlink ocn + 1))) q c' =
            if Nat.eqb p q && str_eqb c' c then Some oc else Ch h q c').
  { intros q c'. rewrite (Ch_oupd_same _ _ _ _ Hoc1) by reflexivity. apply (Ch_add_child _ _ _ _ _ Hp). }
  assert (Hleaf : forall c', Ch h oc c' = None).
  { intros c'. unfold Ch. rewrite Hoc. rewrite (hi_leaf _ _ Hinv _ _ Hoc Hocd). reflexivity. }
  constructor.
  - apply nodup_aset. apply (hi_nodup _ _ Hinv).
  - intros k i Hk. unfold ikey in Hk. destruct (str_eqb_spec k (rpath (ps ++ [c]))) as [->|Hnk].
    + right. exists (ps ++ [c]). auto.
    + rewrite al_aset_neq in Hk by exact Hnk. apply (hi_keys _ _ Hinv _ _ Hk).
  - unfold ikey. rewrite !al_aset_neq by congruence. apply (hi_root _ _ Hinv).
  - destruct (hi_rootdir _ _ Hinv) as (r & Hr & Hrd). unfold is_dir_at. rewrite Hget.
    destruct (Nat.eqb_spec oc 0) as [E|_]; [congruence|].
    destruct (Nat.eqb_spec p 0) as [->|_]; [|eauto].
    eexists. split; [reflexivity|]. rewrite Hp in Hr. inversion Hr; subst. exact Hrd.
  - intros cs Hcs HF. destruct (cs_eq_dec cs (ps ++ [c])) as [->|Hnc].
    + rewrite Fi_aset_eq in HF. congruence.
    + rewrite Fi_aset_neq in HF by assumption. apply (hi_rootkey _ _ Hinv _ Hcs HF).
  - intros k i Hk. unfold ikey in Hk. rewrite Hget. destruct (str_eqb_spec k (rpath (ps ++ [c]))) as [->|Hnk].
    + rewrite al_aset_eq in Hk. inversion Hk; subst i. rewrite Nat.eqb_refl. eauto.
    + rewrite al_aset_neq in Hk by exact Hnk. destruct (hi_valid _ _ Hinv _ _ Hk) as (n & Hn).
      destruct (Nat.eqb oc i); [eauto|]. destruct (Nat.eqb p i); eauto.
  - apply (edge_add idx h _ ps c p oc Hinv Hps Hc HFp); try assumption. exists pn. auto.
  - intros i n Hn Hnd. rewrite Hget in Hn. destruct (Nat.eqb oc i).
    + inversion Hn; subst n. cbn [on_with_nlink on_ch]. apply (hi_leaf _ _ Hinv _ _ Hoc Hocd).
    + destruct (Nat.eqb p i).
      * inversion Hn; subst n. change (on_dir pn = false) in Hnd. congruence.
      * apply (hi_leaf _ _ Hinv _ _ Hn Hnd).
  - intros i n Hn Hi0. rewrite Hget in Hn. unfold kcount.
    rewrite kcount_aset_new by exact HFn. fold (kcount i idx). cbv beta.
    destruct (Nat.eqb_spec oc i) as [<-|Hoi].
    + inversion Hn; subst n. cbn [on_with_nlink on_nlink].
      rewrite (hi_nlink _ _ Hinv _ _ Hoc Hi0). lia.
    + rewrite Nat.add_0_r. destruct (Nat.eqb p i) eqn:Epi.
      * apply Nat.eqb_eq in Epi. subst i. inversion Hn; subst n. cbn [on_with_ch on_nlink]. apply (hi_nlink _ _ Hinv _ _ Hp Hi0).
      * apply (hi_nlink _ _ Hinv _ _ Hn Hi0).
  - intros i n Hn Hnd. rewrite Hget in Hn. destruct (Nat.eqb oc i).
    + inversion Hn; subst n. change (on_dir ocn = true) in Hnd. congruence.
    + destruct (Nat.eqb p i).
      * inversion Hn; subst n. cbn [on_with_ch on_nlink]. apply (hi_dirnlink _ _ Hinv _ _ Hp Hpd).
      * apply (hi_dirnlink _ _ Hinv _ _ Hn Hnd).
  - intros i n c' j Hn Hin. rewrite Hget in Hn. destruct (Nat.eqb oc i).
    + inversion Hn; subst n. cbn [on_with_nlink on_ch] in Hin. apply (hi_chgood _ _ Hinv _ _ _ _ Hoc Hin).
    + destruct (Nat.eqb p i).
      * inversion Hn; subst n. cbn [on_with_ch on_ch] in Hin. apply in_aset_cases in Hin.
        destruct Hin as [[-> _]|Hin]; [exact Hc|]. apply (hi_chgood _ _ Hinv _ _ _ _ Hp Hin).
      * apply (hi_chgood _ _ Hinv _ _ _ _ Hn Hin).
  - intros i n Hn. rewrite Hget in Hn. destruct (Nat.eqb oc i).
    + inversion Hn; subst n. cbn [on_with_nlink on_ch]. apply (hi_chnodup _ _ Hinv _ _ Hoc).
    + destruct (Nat.eqb p i).
      * inversion Hn; subst n. cbn [on_with_ch on_ch]. apply nodup_aset. apply (hi_chnodup _ _ Hinv _ _ Hp).
      * apply (hi_chnodup _ _ Hinv _ _ Hn).
Qed.

(* ---- P4: a name of a childless node goes away (Remove; the destination of Rename) ---------------- *)
Lemma hinv_unlink idx h ps c p pn t tn :
  hinv idx h -> gcs ps -> good_comp c ->
  Fi idx ps = Some p -> oget h p = Some pn ->
  Fi idx (ps ++ [c]) = Some t -> oget h t = Some tn -> on_ch tn = [] ->
  hinv (aremove str_eqb (rpath (ps ++ [c])) idx) (o_del_child (o_release h t) p c).
Proof.
  intros Hinv Hps Hc HFp Hp HFt Ht Htch.
  assert (Hgk : gcs (ps ++ [c])) by (apply gcs_snoc; assumption).
  assert (HKnil : rpath (ps ++ [c]) <> []) by apply rpath_snoc_not_nil.
  assert (HKsl : rpath (ps ++ [c]) <> [SLASH]) by (apply rpath_not_slash; apply gcs_ok; exact Hgk).
  destruct (parent_is_dir idx h Hinv ps c t Hps Hc HFt) as (p' & pn' & HFp' & Hp' & Hpd & Hpc).
  rewrite HFp in HFp'. inversion HFp'; subst p'. rewrite Hp in Hp'. inversion Hp'; subst pn'. clear HFp' Hp'.
  assert (Ht0 : t <> 0).
  { intros ->. pose proof (hi_rootkey _ _ Hinv _ Hgk HFt) as E. destruct ps; discriminate. }
  assert (Htp : t <> p).
  { intros ->. pose proof (dir_key_unique idx h Hinv _ _ p Hgk Hps HFt HFp) as E.
    apply (snoc_neq_self _ ps c). symmetry. apply E. exists pn. auto. }
  assert (Hp1 : oget (o_release h t) p = Some pn).
  { unfold o_release. rewrite Ht. rewrite (oget_oupd _ _ _ _ _ Ht). destruct (Nat.eqb_spec t p); [congruence|exact Hp]. }
  assert (Hget : forall i, oget (o_del_child (o_release h t) p c) i =
            if Nat.eqb p i then Some (on_with_ch pn (aremove str_eqb c (on_ch pn)))
            else if Nat.eqb t i then Some (on_remove tn) else oget h i).
  { intros i. unfold o_del_child. rewrite Hp1. rewrite (oget_oupd _ _ _ _ _ Hp1).
    destruct (Nat.eqb p i); [reflexivity|]. unfold o_release. rewrite Ht. apply (oget_oupd _ _ _ _ _ Ht). }
  assert (HCh : forall q c', Ch (o_del_child (o_release h t) p c) q c' =
            if Nat.eqb p q && str_eqb c' c then None else Ch h q c').
  { intros q c'. rewrite (Ch_del_child _ _ _ _ Hp1). destruct (Nat.eqb p q && str_eqb c' c); [reflexivity|].
    rewrite (Ch_release _ _ _ Ht). destruct (Nat.eqb_spec t q) as [<-|_]; [|reflexivity].
    unfold Ch. rewrite Ht, Htch. reflexivity. }
  constructor.
  - apply nodup_aremove. apply (hi_nodup _ _ Hinv).
  - intros k i Hk. unfold ikey in Hk. destruct (str_eqb_spec k (rpath (ps ++ [c]))) as [->|Hnk].
    + rewrite al_aremove_eq in Hk. discriminate.
    + rewrite al_aremove_neq in Hk by exact Hnk. apply (hi_keys _ _ Hinv _ _ Hk).
  - unfold ikey. rewrite !al_aremove_neq by congruence. apply (hi_root _ _ Hinv).
  - destruct (hi_rootdir _ _ Hinv) as (r & Hr & Hrd). unfold is_dir_at. rewrite Hget.
    destruct (Nat.eqb_spec p 0) as [->|_].
    + eexists. split; [reflexivity|]. exact Hpd.
    + destruct (Nat.eqb_spec t 0) as [E|_]; [congruence|eauto].
  - intros cs Hcs HF. destruct (cs_eq_dec cs (ps ++ [c])) as [->|Hnc].
    + rewrite Fi_aremove_eq in HF. discriminate.
    + rewrite Fi_aremove_neq in HF by assumption. apply (hi_rootkey _ _ Hinv _ Hcs HF).
  - intros k i Hk. unfold ikey in Hk. rewrite Hget. destruct (str_eqb_spec k (rpath (ps ++ [c]))) as [->|Hnk].
    + rewrite al_aremove_eq in Hk. discriminate.
    + rewrite al_aremove_neq in Hk by exact Hnk. destruct (hi_valid _ _ Hinv _ _ Hk) as (n & Hn).
      destruct (Nat.eqb p i); [eauto|]. destruct (Nat.eqb t i); eauto.
  - intros cs c' i Hcs Hc'.
    destruct (cs_eq_dec (cs ++ [c']) (ps ++ [c])) as [E|Hne].
    + apply app_inj_tail in E. destruct E as [-> ->]. rewrite Fi_aremove_eq.
      rewrite Fi_aremove_neq by (try assumption; apply snoc_neq_self). rewrite HFp. split; [discriminate|].
      intros (q & [= <-] & Hq). rewrite HCh, Nat.eqb_refl, str_eqb_refl in Hq. discriminate.
    + rewrite Fi_aremove_neq by (try assumption; apply gcs_snoc; assumption).
      rewrite (hi_edge _ _ Hinv cs c' i Hcs Hc').
      destruct (cs_eq_dec cs (ps ++ [c])) as [->|Hne2].
      * rewrite Fi_aremove_eq. rewrite HFt. split.
        -- intros (q & [= <-] & Hq). unfold Ch in Hq. rewrite Ht, Htch in Hq. discriminate.
        -- intros (q & Hq & _). discriminate.
      * rewrite Fi_aremove_neq by assumption.
        split; intros (q & Hq & Hqc); exists q; (split; [exact Hq|]).
        -- rewrite HCh. destruct (Nat.eqb_spec p q) as [<-|_]; [|exact Hqc].
           destruct (str_eqb_spec c' c) as [->|_]; [|exact Hqc]. exfalso. apply Hne.
           rewrite (dir_key_unique idx h Hinv cs ps p Hcs Hps Hq HFp); [reflexivity|]. exists pn. auto.
        -- rewrite HCh in Hqc. destruct (Nat.eqb p q && str_eqb c' c); [discriminate|exact Hqc].
  - intros i n Hn Hnd. rewrite Hget in Hn. destruct (Nat.eqb p i).
    + inversion Hn; subst n. change (on_dir pn = false) in Hnd. congruence.
    + destruct (Nat.eqb t i); [inversion Hn; subst; reflexivity|]. apply (hi_leaf _ _ Hinv _ _ Hn Hnd).
  - intros i n Hn Hi0. rewrite Hget in Hn.
    pose proof (kcount_aremove nat (fun v => Nat.eqb v i) _ _ _ (hi_nodup _ _ Hinv) HFt) as Hk. cbv beta in Hk.
    fold (kcount i idx) in Hk. fold (kcount i (aremove str_eqb (rpath (ps ++ [c])) idx)) in Hk.
    destruct (Nat.eqb_spec p i) as [<-|Hpi].
    + inversion Hn; subst n. cbn [on_with_ch on_nlink]. rewrite (hi_nlink _ _ Hinv _ _ Hp Hi0).
      destruct (Nat.eqb_spec t p); [congruence|]. f_equal. lia.
    + destruct (Nat.eqb_spec t i) as [<-|Hti].
      * inversion Hn; subst n. cbn [on_remove on_nlink]. rewrite (hi_nlink _ _ Hinv _ _ Ht Hi0). lia.
      * rewrite (hi_nlink _ _ Hinv _ _ Hn Hi0). f_equal. lia.
  - intros i n Hn Hnd. rewrite Hget in Hn. destruct (Nat.eqb p i).
    + inversion Hn; subst n. cbn [on_with_ch on_nlink]. apply (hi_dirnlink _ _ Hinv _ _ Hp Hpd).
    + destruct (Nat.eqb t i).
      * inversion Hn; subst n. change (on_dir tn = true) in Hnd. cbn [on_remove on_nlink].
        pose proof (hi_dirnlink _ _ Hinv _ _ Ht Hnd). lia.
      * apply (hi_dirnlink _ _ Hinv _ _ Hn Hnd).
  - intros i n c' j Hn Hin. rewrite Hget in Hn. destruct (Nat.eqb p i).
    + inversion Hn; subst n. cbn [on_with_ch on_ch] in Hin. apply in_aremove_in in Hin.
      apply (hi_chgood _ _ Hinv _ _ _ _ Hp Hin).
    + destruct (Nat.eqb t i); [inversion Hn; subst; destruct Hin|]. apply (hi_chgood _ _ Hinv _ _ _ _ Hn Hin).
  - intros i n Hn. rewrite Hget in Hn. destruct (Nat.eqb p i).
    + inversion Hn; subst n. cbn [on_with_ch on_ch]. apply nodup_aremove. apply (hi_chnodup _ _ Hinv _ _ Hp).
    + destruct (Nat.eqb t i); [inversion Hn; subst; constructor|]. apply (hi_chnodup _ _ Hinv _ _ Hn).
Qed.
