(* C01, last sentence, for RELATIVE paths: with a clean absolute working directory, a relative path that is not
   lexically clean is resolved exactly as its Clean() form (UncleanProofs.v has the absolute case).

   Abs(cwd, p) = Join(cwd, p) runs Pike's machine over the components of p from the stack of the names of cwd;
   Clean(p) runs the unrooted machine over them first.  [norm_rooted_of_unrooted]: normalising with the unrooted
   rules first (".." at the front are kept) and then with the rooted rules from any stack is the same as
   normalising with the rooted rules directly. *)
From Avfs Require Import Base PathModel PathSpec PathProofs PathCleanProofs PathIterProofs.
From Avfs Require Import MemFS MemFile World UncleanProofs.

Lemma norm_app_ex (r : bool) : forall (A st : list str), exists st2, forall B, norm r st (A ++ B) = norm r st2 B.
Proof.
  induction A as [|c A IH]; intros st; [exists st; reflexivity|]. cbn [app norm].
  destruct (match c with [] => true | _ => false end || is_dot c); [apply IH|].
  destruct (is_dotdot c).
  - destruct st as [|top st'].
    + destruct r; apply IH.
    + destruct (is_dotdot top); apply IH.
  - apply IH.
Qed.

Lemma norm_DD_pop_true (top : str) (st cs : list str) :
  good top -> norm true (top :: st) (DD :: cs) = norm true st cs.
Proof. intros (_ & _ & _ & Hdd). cbn [norm]. change (is_dot DD) with false. change (is_dotdot DD) with true. cbn. rewrite Hdd. reflexivity. Qed.

Lemma norm_rooted_of_unrooted : forall (cs : list str) (k : nat) (names st : list str),
  Forall sepfree cs -> Forall good names ->
  norm true st (norm false (stk k names) cs) = norm true st (L k names ++ cs).
Proof.
  induction cs as [|c cs IH]; intros k names st Hsf Hg.
  - cbn [norm]. rewrite rev_stk, app_nil_r. reflexivity.
  - inversion Hsf as [|? ? Hc Hcs]; subst.
    destruct (norm_app_ex true (L k names) st) as (st2 & Hst2).
    destruct c as [|x c'].
    { rewrite norm_empty, IH by assumption. rewrite !Hst2. reflexivity. }
    set (c := x :: c') in *.
    destruct (is_dot c) eqn:Hd.
    { rewrite norm_dot by exact Hd. rewrite IH by assumption. rewrite !Hst2. rewrite norm_dot by exact Hd. reflexivity. }
    destruct (is_dotdot c) eqn:Hdd.
    { apply is_dotdot_DD in Hdd. rewrite Hdd. destruct names as [|top names].
      - change (stk k []) with (stk k (@nil str)). rewrite norm_dd_push, IH by (auto; constructor).
        rewrite L_S, <- app_assoc. reflexivity.
      - inversion Hg as [|? ? Htop Hg']; subst. rewrite norm_dd_pop by exact Htop. rewrite IH by assumption.
        rewrite L_cons, <- app_assoc. cbn [app].
        destruct (norm_app_ex true (L k names) st) as (st3 & Hst3). rewrite !Hst3.
        destruct Htop as (T1 & T2 & T3 & T4). rewrite norm_push by assumption.
        rewrite norm_DD_pop_true by (repeat split; assumption). reflexivity. }
    rewrite norm_push; [|discriminate|exact Hd|exact Hdd]. change (c :: stk k names) with (stk k (c :: names)).
    rewrite IH; [|assumption|constructor; [repeat split; auto; discriminate|assumption]].
    rewrite L_cons, <- app_assoc. reflexivity.
Qed.

(* the components of Clean(p) and of p are the same to the rooted machine, p relative *)
Lemma norm_comps_clean_rel (p : str) (st : list str) :
  is_abs Linux p = false -> norm true st (comps (clean Linux p)) = norm true st (comps p).
Proof.
  intros Hrel. rewrite clean_spec_correct. destruct p as [|c0 p']; [reflexivity|].
  unfold clean_spec. change (N.eqb c0 SLASH) with (is_abs Linux (c0 :: p')). rewrite Hrel. unfold render.
  pose proof (norm_rooted_of_unrooted (comps (c0 :: p')) 0 [] st (comps_sepfree _) (Forall_nil _)) as K.
  change (stk 0 []) with (@nil str) in K. change (L 0 [] ++ comps (c0 :: p')) with (comps (c0 :: p')) in K.
  destruct (norm_shape0 false (c0 :: p')) as (k & names & Hn & Hg & _).
  destruct (norm false [] (comps (c0 :: p'))) as [|a l] eqn:El.
  - rewrite <- K. reflexivity.
  - rewrite <- K. rewrite comps_intercalate; [reflexivity|discriminate|].
    rewrite Hn. apply L_sepfree. exact Hg.
Qed.

Lemma clean_rel_is_rel (p : str) : is_abs Linux p = false -> is_abs Linux (clean Linux p) = false.
Proof.
  intros Hrel. rewrite clean_spec_correct. destruct p as [|c0 p']; [reflexivity|].
  unfold clean_spec. change (N.eqb c0 SLASH) with (is_abs Linux (c0 :: p')). rewrite Hrel. unfold render.
  destruct (norm_shape0 false (c0 :: p')) as (k & names & Hn & Hg & _). rewrite Hn.
  destruct (L k names) as [|a l] eqn:El; [reflexivity|]. rewrite <- El.
  destruct (@intercalate_head (L k names)) as (x & s' & Hi & Hx).
  - rewrite El. discriminate.
  - apply L_ne. exact Hg.
  - apply L_sepfree. exact Hg.
  - rewrite Hi. exact Hx.
Qed.

Theorem abs_clean_rel (bs : list str) (p : str) :
  Forall good_comp bs -> is_abs Linux p = false ->
  abs Linux (abs_path bs) (clean Linux p) = abs Linux (abs_path bs) p.
Proof.
  intros Hg Hrel. unfold abs. rewrite Hrel, (clean_rel_is_rel p Hrel).
  rewrite !(join_abs_any _ Hg). unfold path_comps. rewrite !norm_filter.
  rewrite (norm_comps_clean_rel p _ Hrel). reflexivity.
Qed.

(* the walk every call starts with, for ANY path - absolute or relative - given a clean absolute working directory *)
Theorem search_unclean_any (s : fsys) (v : view) (bs : list str) (p : str) (slm : slmode) :
  v_os v = Linux -> v_cwd v = abs_path bs -> Forall good_comp bs ->
  search_node s v (clean Linux p) slm = search_node s v p slm.
Proof.
  intros Hos Hcwd Hg. destruct (is_abs Linux p) eqn:Ha; [apply search_unclean; assumption|].
  unfold search_node. rewrite Hos, Hcwd, (abs_clean_rel bs p Hg Ha). reflexivity.
Qed.

(* hence the calls that use their path only through that walk *)
Theorem unclean_calls_any (s : fsys) (v : view) (bs : list str) (p : str) :
  v_os v = Linux -> v_cwd v = abs_path bs -> Forall good_comp bs ->
  remove s v (clean Linux p) = remove s v p
  /\ readlink s v (clean Linux p) = readlink s v p
  /\ (forall size, truncate s v (clean Linux p) size = truncate s v p size)
  /\ (forall mode, chmod s v (clean Linux p) mode = chmod s v p mode)
  /\ (forall slm uid gid, chown_gen slm s v (clean Linux p) uid gid = chown_gen slm s v p uid gid)
  /\ chtimes s v (clean Linux p) = chtimes s v p
  /\ chdir s v (clean Linux p) = chdir s v p
  /\ eval_symlinks s v (clean Linux p) = eval_symlinks s v p
  /\ (forall perm, mkdir_all s v (clean Linux p) perm = mkdir_all s v p perm)
  /\ (forall t, symlink s v t (clean Linux p) = symlink s v t p)
  /\ (forall perm, p <> [] -> mkdir s v (clean Linux p) perm = mkdir s v p perm).
Proof.
  intros Hos Hcwd Hg. pose proof (fun slm => search_unclean_any s v bs p slm Hos Hcwd Hg) as E.
  split; [unfold remove; rewrite (E SlLstat); reflexivity|].
  split; [unfold readlink; rewrite (E SlLstat); reflexivity|].
  split; [intros size; unfold truncate; rewrite (E SlEval); reflexivity|].
  split; [intros mode; unfold chmod; rewrite (E SlEval); reflexivity|].
  split; [intros slm uid gid; unfold chown_gen; rewrite (E slm); reflexivity|].
  split; [unfold chtimes; rewrite (E SlEval); reflexivity|].
  split; [unfold chdir; rewrite (E SlEval); reflexivity|].
  split; [unfold eval_symlinks; rewrite (E SlEval); reflexivity|].
  split; [intros perm; unfold mkdir_all; rewrite (E SlEval); reflexivity|].
  split; [intros t; unfold symlink; rewrite (E SlLstat); reflexivity|].
  intros perm Hne. unfold mkdir. rewrite (E SlLstat).
  destruct p as [|c r]; [congruence|].
  destruct (clean Linux (c :: r)) eqn:Ec; [|reflexivity]. exfalso.
  rewrite clean_spec_correct in Ec. unfold clean_spec in Ec.
  destruct (norm_shape0 (N.eqb c SLASH) (c :: r)) as (k & names & Hn & Hgn & _). rewrite Hn in Ec.
  unfold render in Ec. destruct (N.eqb c SLASH); [discriminate Ec|].
  destruct (L k names) as [|a l] eqn:El; [discriminate Ec|].
  assert (Hnn : Forall (fun x : str => x <> []) (a :: l)) by (rewrite <- El; apply L_ne; exact Hgn).
  apply (intercalate_nil_inv [SLASH]) in Ec; [discriminate Ec|exact Hnn].
Qed.

(* non-vacuity: "x/../y/./z" from "/d" *)
Example unclean_rel_example :
  let cwd := abs_path [[100%N]] in
  let p := [120; 47; 46; 46; 47; 121; 47; 46; 47; 122]%N in
  is_abs Linux p = false /\ clean Linux p = [121; 47; 122]%N
  /\ abs Linux cwd p = [47; 100; 47; 121; 47; 122]%N /\ abs Linux cwd (clean Linux p) = abs Linux cwd p.
Proof. vm_compute. repeat split; reflexivity. Qed.
