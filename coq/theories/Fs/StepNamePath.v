(* C01: the entry-creating calls on ANY path whose last element is a proper name ([name_path]): clean absolute paths
   "/w/cl" (the instances of StepEq.v) and clean RELATIVE paths "../../w/cl" resolved from a working directory that
   is a directory walk from the root ([cwd_rel], Fs/WalkRel.v).  The step lemmas are stated for a path string [p] with
   [name_path p cl] and [resolved s sv slm p] (the two walks are related, WalkSym.v / WalkRel.v). *)
From Avfs Require Import Base BaseProofs PathModel PathSpec PathProofs PathCleanProofs PathIterProofs.
From Avfs Require Import MemFS MemFile World Posix Inv.
From Avfs Require Import WalkBridge WalkSym WalkBudget WalkReadlink WalkRel StepEq StepOpen.

(* the kernel splits [p] into components ending in the proper name [cl], with no trailing separator *)
Definition name_path (p cl : str) : Prop :=
  p <> [] /\ good_comp cl /\ ktrailing p = false /\ exists w, kcomps p = w ++ [cl].

Lemma name_path_abs (w : list str) (cl : str) : Forall good_comp (w ++ [cl]) -> name_path (abs_path (w ++ [cl])) cl.
Proof.
  intros Hg. assert (Hok : Forall comp_ok (w ++ [cl])) by (eapply Forall_impl; [|exact Hg]; apply good_comp_ok).
  split; [apply abs_path_nonempty|]. split; [apply Forall_app in Hg as (_ & Hg); exact (Forall_inv Hg)|].
  split; [apply ktrailing_abs_path; [exact Hok|destruct w; discriminate]|]. exists w. apply kcomps_abs_path. exact Hok.
Qed.

(* "../" k times, then names *)
Definition rel_path (k : nat) (names : list str) : str := intercalate [SLASH] (repeat DD k ++ names).

Lemma name_path_rel (k : nat) (w : list str) (cl : str) :
  Forall good_comp (w ++ [cl]) -> name_path (rel_path k (w ++ [cl])) cl.
Proof.
  intros Hg. assert (Hne : repeat DD k ++ w ++ [cl] <> []) by (apply app_ne_r; destruct w; discriminate).
  destruct (rel_shape_facts k (w ++ [cl]) Hg Hne) as (_ & Hkc & _ & _ & Hkt & Hnil). cbv zeta in Hkc, Hkt, Hnil.
  unfold rel_path. split; [intros E; rewrite E in Hnil; discriminate|].
  split; [apply Forall_app in Hg as (_ & Hg); exact (Forall_inv Hg)|]. split; [exact Hkt|].
  exists (repeat DD k ++ w). rewrite Hkc, app_assoc. reflexivity.
Qed.

(* a path whose cleaned form is "../"^k w/cl *)
Lemma name_path_clean_rel (x : str) (k : nat) (w : list str) (cl : str) :
  clean Linux x = rel_path k (w ++ [cl]) -> Forall good_comp (w ++ [cl]) ->
  name_path (clean Linux x) cl /\ is_abs Linux (clean Linux x) = false.
Proof.
  intros E Hg. rewrite E. split; [apply name_path_rel; exact Hg|].
  assert (Hne : repeat DD k ++ w ++ [cl] <> []) by (apply app_ne_r; destruct w; discriminate).
  destruct (rel_shape_facts k (w ++ [cl]) Hg Hne) as (_ & _ & Ha & _). exact Ha.
Qed.

(* ---- the kernel's lookups on a name path --------------------------------------------------------------------------------------------- *)
Section NamePath.
  Variables (s : fsys) (sv : sview) (p cl : str).
  Hypothesis Hnp : name_path p cl.
  Notation v := (sv_view sv).

  Lemma np_pm (follow : bool) :
    let K0 := klookup s sv false false p in
    K0 <> WErr EFUEL ->
    (forall par kind name n, K0 = WNode par kind name n -> kind = LNorm /\ name = cl) /\
    (forall par name md, K0 = WNeg par name md -> name = cl) /\
    klookup s sv true follow p =
      match K0 with
      | WNode par _ _ _ => WParent par LNorm cl false
      | WNeg par _ _ => WParent par LNorm cl false
      | K => K
      end.
  Proof.
    destruct Hnp as (Hne & Hcl & Hkt & w & Hkc). unfold klookup. destruct p as [|c0 p']; [congruence|].
    rewrite Hkt, Hkc. apply kwalk_pm. exact Hcl.
  Qed.

  Lemma np_final (follow : bool) :
    match klookup s sv false follow p with
    | WNode par LNorm name n =>
        alookup str_eqb name (children (f_heap s) par) = Some n /\ node_is_dir (f_heap s) par = true
        /\ kperm (f_heap s) par 1 (v_user v) = true
    | WNeg par name _ =>
        alookup str_eqb name (children (f_heap s) par) = None /\ node_is_dir (f_heap s) par = true
        /\ kperm (f_heap s) par 1 (v_user v) = true
    | _ => True
    end.
  Proof.
    clear Hnp. unfold klookup. destruct p as [|c0 p']; [exact I|].
    apply (kwalk_final WALK_FUEL (f_heap s) _ _ follow _ _ 0 _ _ eq_refl).
  Qed.

  Lemma np_err_follow (e : N) : klookup s sv false false p = WErr e -> klookup s sv false true p = WErr e.
  Proof.
    destruct Hnp as (Hne & Hcl & Hkt & w & Hkc). unfold klookup. destruct p as [|c0 p']; [congruence|].
    rewrite Hkt, Hkc. apply kwalk_err_follow. exact Hcl.
  Qed.
End NamePath.

Lemma resolved_nofuel (s : fsys) (sv : sview) (slm : slmode) (p : str) :
  resolved s sv slm p -> klookup s sv false (follow_of slm) p <> WErr EFUEL.
Proof.
  intros (R & Hnf) E. rewrite E in R. cbn [walk_rel] in R. destruct R as (R1 & _).
  destruct (werr_cases _ _ R1 Hnf) as ([Hc|[Hc|[Hc|Hc]]] & E2); rewrite Hc in E2; discriminate E2.
Qed.

Definition no_setgid_p (s : fsys) (sv : sview) (follow : bool) (p : str) : Prop :=
  forall par name md, klookup s sv false follow p = WNeg par name md ->
                      is_setgid (m_mode (meta_of (f_heap s) par)) = false.

(* ---- the creating calls ---------------------------------------------------------------------------------------------------------------- *)
Section Steps.
  Variables (s : fsys) (sv : sview) (p cl : str).
  Hypothesis H : step_hyps s sv.
  Hypothesis Hnp : name_path p cl.
  Notation v := (sv_view sv).

  Theorem step_mkdir_p (perm : N) :
    resolved s sv SlLstat p -> no_setgid_p s sv false p ->
    (fst (mkdir s v p perm), proj_res Linux (snd (mkdir s v p perm))) = k_mkdir s sv p perm.
  Proof.
    intros Hr Hsg. pose proof (resolved_nofuel _ _ _ _ Hr) as Hk1. destruct Hr as (R & Hnf).
    change (follow_of SlLstat) with false in R, Hk1. change (precise_of SlLstat) with true in R.
    destruct (np_pm s sv p cl Hnp false Hk1) as (Hkn & Hkg & Hpm).
    rewrite (mkdir_nonempty s v _ perm (proj1 Hnp)). cbv zeta.
    unfold k_mkdir. rewrite Hpm. unfold no_setgid_p in Hsg.
    pose proof (np_final s sv p false) as Hfin.
    destruct (klookup s sv false false p) as [par kind name n|par name md| |e] eqn:HK; cbn [walk_rel] in R.
    - destruct (Hkn _ _ _ _ eq_refl) as (-> & ->). destruct Hfin as (F1 & _). destruct R as (R1 & _).
      rewrite R1, F1. reflexivity.
    - pose proof (Hkg _ _ _ eq_refl) as ->. destruct Hfin as (F1 & F2 & _). destruct R as (R1 & R2 & R3 & R4).
      destruct (at_name_views _ _ _ _ _ _ (R4 eq_refl)) as (V1 & V2 & _).
      rewrite R1, V2, R3, V1, F1. cbn [is_not_exist negb orb].
      rewrite (admin_perm_on s sv par _ H) by (apply node_is_dir_valid; exact F2).
      rewrite (admin_kperm s sv par 3 H) by (apply node_is_dir_valid; exact F2). cbn [negb].
      unfold create_dir, alloc_child, kmeta, new_meta, new_owner_gid. rewrite (Hsg _ _ _ eq_refl), (sh_os _ _ H). cbn [fst dir_mode andb].
      rewrite land_dir_bits. reflexivity.
    - destruct R.
    - destruct R as (R1 & R2). destruct (werr_cases _ _ R1 Hnf) as (Hc & ->).
      destruct Hc as [Hc|[Hc|[Hc|Hc]]]; rewrite Hc in *; try reflexivity.
      rewrite (R2 eq_refl eq_refl). reflexivity.
  Qed.

  Theorem step_symlink_p (t : str) :
    resolved s sv SlLstat p -> no_setgid_p s sv false p ->
    (fst (symlink s v t p), proj_res Linux (snd (symlink s v t p))) = k_symlink s sv (clean Linux t) p.
  Proof.
    intros Hr Hsg. pose proof (resolved_nofuel _ _ _ _ Hr) as Hk1. destruct Hr as (R & Hnf).
    change (follow_of SlLstat) with false in R, Hk1. change (precise_of SlLstat) with true in R.
    destruct (np_pm s sv p cl Hnp false Hk1) as (Hkn & Hkg & Hpm).
    unfold symlink, k_symlink. rewrite Hpm. unfold no_setgid_p in Hsg.
    pose proof (np_final s sv p false) as Hfin.
    destruct (clean Linux t) as [|t0 t'] eqn:Et; [exfalso; exact (clean_nonempty t Et)|]. rewrite <- Et. clear Et t0 t'.
    destruct (klookup s sv false false p) as [par kind name n|par name md| |e] eqn:HK; cbn [walk_rel] in R.
    - destruct (Hkn _ _ _ _ eq_refl) as (-> & ->). destruct Hfin as (F1 & _). destruct R as (R1 & _).
      rewrite R1, F1. reflexivity.
    - pose proof (Hkg _ _ _ eq_refl) as ->. destruct Hfin as (F1 & F2 & _). destruct R as (R1 & R2 & R3 & R4).
      destruct (at_name_views _ _ _ _ _ _ (R4 eq_refl)) as (V1 & V2 & _).
      rewrite R1, V2, R3, V1, F1. cbn [is_not_exist negb orb].
      rewrite (admin_perm_on s sv par _ H) by (apply node_is_dir_valid; exact F2).
      rewrite (admin_kperm s sv par 3 H) by (apply node_is_dir_valid; exact F2). cbn [negb].
      unfold create_symlink, alloc_child, new_owner_gid. rewrite (Hsg _ _ _ eq_refl), (sh_os _ _ H). reflexivity.
    - destruct R.
    - destruct R as (R1 & R2). destruct (werr_cases _ _ R1 Hnf) as (Hc & ->).
      destruct Hc as [Hc|[Hc|[Hc|Hc]]]; rewrite Hc in *; try reflexivity.
      rewrite (R2 eq_refl eq_refl). reflexivity.
  Qed.
End Steps.

Definition not_symlink_p (s : fsys) (sv : sview) (o : str) : Prop :=
  forall par kind name n t m, klookup s sv false false o = WNode par kind name n -> get (f_heap s) n <> Some (NSym t m).

Section Steps2.
  Variables (s : fsys) (sv : sview) (p cl : str).
  Hypothesis H : step_hyps s sv.
  Hypothesis Hnp : name_path p cl.
  Notation v := (sv_view sv).

  (* Link: the old path is any resolved path *)
  Theorem step_link_p (o : str) :
    resolved s sv SlLstat o -> resolved s sv SlLstat p -> not_symlink_p s sv o ->
    (fst (link s v o p), proj_res Linux (snd (link s v o p))) = k_link true s sv o p.
  Proof.
    intros Hro Hr Hns. pose proof (resolved_nofuel _ _ _ _ Hr) as Hk1.
    destruct Hro as (Ro & Hnfo). destruct Hr as (R & Hnf).
    change (follow_of SlLstat) with false in Ro, R, Hk1. change (precise_of SlLstat) with true in Ro, R.
    destruct (np_pm s sv p cl Hnp false Hk1) as (Hkn & Hkg & Hpm).
    unfold link, k_link, win. rewrite (sh_os _ _ H). cbn [ostype_eqb]. unfold not_symlink_p in Hns.
    pose proof (np_final s sv p false) as Hfin.
    set (ro := search_node s v o SlLstat) in *.
    set (rn := search_node s v p SlLstat) in *.
    destruct (klookup s sv false false o) as [opar okind oname oc|opar oname omd| |e] eqn:HKo; cbn [walk_rel] in Ro.
    - destruct Ro as (O1 & O2 & O3 & _). rewrite O2, O1. cbn [is_file_exists negb]. rewrite Hpm.
      pose proof (fun t m => Hns _ _ _ _ t m eq_refl) as Hns'.
      destruct (klookup s sv false false p) as [par kind name n|par name md| |e] eqn:HK; cbn [walk_rel] in R.
      + destruct (Hkn _ _ _ _ eq_refl) as (-> & ->). destruct Hfin as (F1 & _). destruct R as (R1 & _).
        rewrite R1, F1. reflexivity.
      + pose proof (Hkg _ _ _ eq_refl) as ->. destruct Hfin as (F1 & F2 & _). destruct R as (R1 & R2 & R3 & R4).
        destruct (at_name_views _ _ _ _ _ _ (R4 eq_refl)) as (V1 & V2 & _).
        rewrite R1, V2, R3, V1, F1. cbn [is_not_exist negb].
        rewrite (admin_perm_on s sv par _ H) by (apply node_is_dir_valid; exact F2).
        rewrite (admin_kperm s sv par 3 H) by (apply node_is_dir_valid; exact F2). cbn [negb].
        rewrite (sh_admin _ _ H). cbn [orb negb andb]. unfold node_is_dir.
        destruct (get (f_heap s) oc) as [[ch m|dt k i m|t m]|] eqn:Hgoc; try reflexivity; [exfalso; exact (Hns' t m eq_refl)|congruence].
      + destruct R.
      + destruct R as (R1 & R2). destruct (werr_cases _ _ R1 Hnf) as (Hc & ->).
        destruct Hc as [Hc|[Hc|[Hc|Hc]]]; rewrite Hc in *; try reflexivity.
        rewrite (R2 eq_refl eq_refl). reflexivity.
    - destruct Ro as (O1 & O2 & _). rewrite O2, O1. reflexivity.
    - destruct Ro.
    - destruct Ro as (O1 & _). destruct (werr_cases _ _ O1 Hnfo) as (Hc & ->).
      destruct (sr_child ro); destruct Hc as [Hc|[Hc|[Hc|Hc]]]; rewrite Hc; reflexivity.
  Qed.
End Steps2.
