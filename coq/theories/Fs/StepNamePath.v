(* C01: the entry-creating calls on ANY path whose last element is a proper name ([name_path]): clean absolute paths
   "/w/cl" (the instances of StepEq.v) and clean RELATIVE paths "../../w/cl" resolved from a working directory that
   is a directory walk from the root ([cwd_rel], Fs/WalkRel.v).  The step lemmas are stated for a path string [p] with
   [name_path p cl] and [resolved s sv slm p] (the two walks are related, WalkSym.v / WalkRel.v). *)
From Avfs Require Import Base BaseProofs PathModel PathSpec PathProofs PathCleanProofs PathIterProofs.
From Avfs Require Import MemFS MemFile World Posix Inv.
From Avfs Require Import WalkBridge WalkSym WalkBudget WalkReadlink WalkRel StepEq StepOpen.

(* the kernel splits [p] into components ending in the proper name [cl], with no trailing separator *)
Definition name_path (p cl : str) : Prop :=
  p <> [] /\ good_comp cl /\ ktrailing p = false /\ exists w, kcomps p = w ++ [cl].

Lemma name_path_abs (w : list str) (cl : str) : Forall good_comp (w ++ [cl]) -> name_path (abs_path (w ++ [cl])) cl.
Proof.
  intros Hg. assert (Hok : Forall comp_ok (w ++ [cl])) by (eapply Forall_impl; [|exact Hg]; apply good_comp_ok).
  split; [apply abs_path_nonempty|]. split; [apply Forall_app in Hg as (_ & Hg); exact (Forall_inv Hg)|].
  split; [apply ktrailing_abs_path; [exact Hok|destruct w; discriminate]|]. exists w. apply kcomps_abs_path. exact Hok.
Qed.

(* "../" k times, then names *)
Definition rel_path (k : nat) (names : list str) : str := intercalate [SLASH] (repeat DD k ++ names).

Lemma name_path_rel (k : nat) (w : list str) (cl : str) :
  Forall good_comp (w ++ [cl]) -> name_path (rel_path k (w ++ [cl])) cl.
Proof.
  intros Hg. assert (Hne : repeat DD k ++ w ++ [cl] <> []) by (apply app_ne_r; destruct w; discriminate).
  destruct (rel_shape_facts k (w ++ [cl]) Hg Hne) as (_ & Hkc & _ & _ & Hkt & Hnil). cbv zeta in Hkc, Hkt, Hnil.
  unfold rel_path. split; [intros E; rewrite E in Hnil; discriminate|].
  split; [apply Forall_app in Hg as (_ & Hg); exact (Forall_inv Hg)|]. split; [exact Hkt|].
  exists (repeat DD k ++ w). rewrite Hkc, app_assoc. reflexivity.
Qed.

(* a path whose cleaned form is "../"^k w/cl *)
Lemma name_path_clean_rel (x : str) (k : nat) (w : list str) (cl : str) :
  clean Linux x = rel_path k (w ++ [cl]) -> Forall good_comp (w ++ [cl]) ->
  name_path (clean Linux x) cl /\ is_abs Linux (clean Linux x) = false.
Proof.
  intros E Hg. rewrite E. split; [apply name_path_rel; exact Hg|].
  assert (Hne : repeat DD k ++ w ++ [cl] <> []) by (apply app_ne_r; destruct w; discriminate).
  destruct (rel_shape_facts k (w ++ [cl]) Hg Hne) as (_ & _ & Ha & _). exact Ha.
Qed.

(* ---- the kernel's lookups on a name path --------------------------------------------------------------------------------------------- *)
Section NamePath.
  Variables (s : fsys) (sv : sview) (p cl : str).
  Hypothesis Hnp : name_path p cl.
  Notation v := (sv_view sv).

  Lemma np_pm (follow : bool) :
    let K0 := klookup s sv false false p in
    K0 <> WErr EFUEL ->
    (forall par kind name n, K0 = WNode par kind name n -> kind = LNorm /\ name = cl) /\
    (forall par name md, K0 = WNeg par name md -> name = cl) /\
    klookup s sv true follow p =
      match K0 with
      | WNode par _ _ _ => WParent par LNorm cl false
      | WNeg par _ _ => WParent par LNorm cl false
      | K => K
      end.
  Proof.
    destruct Hnp as (Hne & Hcl & Hkt & w & Hkc). unfold klookup. destruct p as [|c0 p']; [congruence|].
    rewrite Hkt, Hkc. apply kwalk_pm. exact Hcl.
  Qed.

  Lemma np_final (follow : bool) :
    match klookup s sv false follow p with
    | WNode par LNorm name n =>
        alookup str_eqb name (children (f_heap s) par) = Some n /\ node_is_dir (f_heap s) par = true
        /\ kperm (f_heap s) par 1 (v_user v) = true
    | WNeg par name _ =>
        alookup str_eqb name (children (f_heap s) par) = None /\ node_is_dir (f_heap s) par = true
        /\ kperm (f_heap s) par 1 (v_user v) = true
    | _ => True
    end.
  Proof.
    clear Hnp. unfold klookup. destruct p as [|c0 p']; [exact I|].
    apply (kwalk_final WALK_FUEL (f_heap s) _ _ follow _ _ 0 _ _ eq_refl).
  Qed.

  Lemma np_err_follow (e : N) : klookup s sv false false p = WErr e -> klookup s sv false true p = WErr e.
  Proof.
    destruct Hnp as (Hne & Hcl & Hkt & w & Hkc). unfold klookup. destruct p as [|c0 p']; [congruence|].
    rewrite Hkt, Hkc. apply kwalk_err_follow. exact Hcl.
  Qed.
End NamePath.

Lemma resolved_nofuel (s : fsys) (sv : sview) (slm : slmode) (p : str) :
  resolved s sv slm p -> klookup s sv false (follow_of slm) p <> WErr EFUEL.
Proof.
  intros (R & Hnf) E. rewrite E in R. cbn [walk_rel] in R. destruct R as (R1 & _).
  destruct (werr_cases _ _ R1 Hnf) as ([Hc|[Hc|[Hc|Hc]]] & E2); rewrite Hc in E2; discriminate E2.
Qed.

(* ---- the creating calls ---------------------------------------------------------------------------------------------------------------- *)
Section Steps.
  Variables (s : fsys) (sv : sview) (p cl : str).
  Hypothesis H : step_hyps s sv.
  Hypothesis Hnp : name_path p cl.
  Notation v := (sv_view sv).

  Theorem step_mkdir_p (perm : N) :
    resolved s sv SlLstat p ->
    (fst (mkdir s v p perm), proj_res Linux (snd (mkdir s v p perm))) = k_mkdir s sv p perm.
  Proof.
    intros Hr. pose proof (resolved_nofuel _ _ _ _ Hr) as Hk1. destruct Hr as (R & Hnf).
    change (follow_of SlLstat) with false in R, Hk1. change (precise_of SlLstat) with true in R.
    destruct (np_pm s sv p cl Hnp false Hk1) as (Hkn & Hkg & Hpm).
    rewrite (mkdir_nonempty s v _ perm (proj1 Hnp)). cbv zeta.
    unfold k_mkdir. rewrite Hpm.
    pose proof (np_final s sv p false) as Hfin.
    destruct (klookup s sv false false p) as [par kind name n|par name md| |e] eqn:HK; cbn [walk_rel] in R.
    - destruct (Hkn _ _ _ _ eq_refl) as (-> & ->). destruct Hfin as (F1 & _). destruct R as (R1 & _).
      rewrite R1, F1. reflexivity.
    - pose proof (Hkg _ _ _ eq_refl) as ->. destruct Hfin as (F1 & F2 & _). destruct R as (R1 & R2 & R3 & R4).
      destruct (at_name_views _ _ _ _ _ _ (R4 eq_refl)) as (V1 & V2 & _).
      rewrite R1, V2, R3, V1, F1. cbn [is_not_exist negb orb].
      rewrite (admin_perm_on s sv par _ H) by (apply node_is_dir_valid; exact F2).
      rewrite (admin_kperm s sv par 3 H) by (apply node_is_dir_valid; exact F2). cbn [negb].
      rewrite create_dir_alloc by exact (sh_os _ _ H). reflexivity.
    - destruct R.
    - destruct R as (R1 & R2). destruct (werr_cases _ _ R1 Hnf) as (Hc & ->).
      destruct Hc as [Hc|[Hc|[Hc|Hc]]]; rewrite Hc in *; try reflexivity.
      rewrite (R2 eq_refl eq_refl). reflexivity.
  Qed.

  Theorem step_symlink_p (t : str) :
    resolved s sv SlLstat p ->
    (fst (symlink s v t p), proj_res Linux (snd (symlink s v t p))) = k_symlink s sv (clean Linux t) p.
  Proof.
    intros Hr. pose proof (resolved_nofuel _ _ _ _ Hr) as Hk1. destruct Hr as (R & Hnf).
    change (follow_of SlLstat) with false in R, Hk1. change (precise_of SlLstat) with true in R.
    destruct (np_pm s sv p cl Hnp false Hk1) as (Hkn & Hkg & Hpm).
    unfold symlink, k_symlink. rewrite Hpm.
    pose proof (np_final s sv p false) as Hfin.
    destruct (clean Linux t) as [|t0 t'] eqn:Et; [exfalso; exact (clean_nonempty t Et)|]. rewrite <- Et. clear Et t0 t'.
    destruct (klookup s sv false false p) as [par kind name n|par name md| |e] eqn:HK; cbn [walk_rel] in R.
    - destruct (Hkn _ _ _ _ eq_refl) as (-> & ->). destruct Hfin as (F1 & _). destruct R as (R1 & _).
      rewrite R1, F1. reflexivity.
    - pose proof (Hkg _ _ _ eq_refl) as ->. destruct Hfin as (F1 & F2 & _). destruct R as (R1 & R2 & R3 & R4).
      destruct (at_name_views _ _ _ _ _ _ (R4 eq_refl)) as (V1 & V2 & _).
      rewrite R1, V2, R3, V1, F1. cbn [is_not_exist negb orb].
      rewrite (admin_perm_on s sv par _ H) by (apply node_is_dir_valid; exact F2).
      rewrite (admin_kperm s sv par 3 H) by (apply node_is_dir_valid; exact F2). cbn [negb].
      rewrite create_symlink_alloc, (sh_os _ _ H). reflexivity.
    - destruct R.
    - destruct R as (R1 & R2). destruct (werr_cases _ _ R1 Hnf) as (Hc & ->).
      destruct Hc as [Hc|[Hc|[Hc|Hc]]]; rewrite Hc in *; try reflexivity.
      rewrite (R2 eq_refl eq_refl). reflexivity.
  Qed.
End Steps.

Definition not_symlink_p (s : fsys) (sv : sview) (o : str) : Prop :=
  forall par kind name n t m, klookup s sv false false o = WNode par kind name n -> get (f_heap s) n <> Some (NSym t m).

Section Steps2.
  Variables (s : fsys) (sv : sview) (p cl : str).
  Hypothesis H : step_hyps s sv.
  Hypothesis Hnp : name_path p cl.
  Notation v := (sv_view sv).

  (* Link: the old path is any resolved path *)
  Theorem step_link_p (o : str) :
    resolved s sv SlLstat o -> resolved s sv SlLstat p -> not_symlink_p s sv o ->
    (fst (link s v o p), proj_res Linux (snd (link s v o p))) = k_link true s sv o p.
  Proof.
    intros Hro Hr Hns. pose proof (resolved_nofuel _ _ _ _ Hr) as Hk1.
    destruct Hro as (Ro & Hnfo). destruct Hr as (R & Hnf).
    change (follow_of SlLstat) with false in Ro, R, Hk1. change (precise_of SlLstat) with true in Ro, R.
    destruct (np_pm s sv p cl Hnp false Hk1) as (Hkn & Hkg & Hpm).
    unfold link, k_link, win. rewrite (sh_os _ _ H). cbn [ostype_eqb]. unfold not_symlink_p in Hns.
    pose proof (np_final s sv p false) as Hfin.
    set (ro := search_node s v o SlLstat) in *.
    set (rn := search_node s v p SlLstat) in *.
    destruct (klookup s sv false false o) as [opar okind oname oc|opar oname omd| |e] eqn:HKo; cbn [walk_rel] in Ro.
    - destruct Ro as (O1 & O2 & O3 & _). rewrite O2, O1. cbn [is_file_exists negb]. rewrite Hpm.
      pose proof (fun t m => Hns _ _ _ _ t m eq_refl) as Hns'.
      destruct (klookup s sv false false p) as [par kind name n|par name md| |e] eqn:HK; cbn [walk_rel] in R.
      + destruct (Hkn _ _ _ _ eq_refl) as (-> & ->). destruct Hfin as (F1 & _). destruct R as (R1 & _).
        rewrite R1, F1. reflexivity.
      + pose proof (Hkg _ _ _ eq_refl) as ->. destruct Hfin as (F1 & F2 & _). destruct R as (R1 & R2 & R3 & R4).
        destruct (at_name_views _ _ _ _ _ _ (R4 eq_refl)) as (V1 & V2 & _).
        rewrite R1, V2, R3, V1, F1. cbn [is_not_exist negb].
        rewrite (admin_perm_on s sv par _ H) by (apply node_is_dir_valid; exact F2).
        rewrite (admin_kperm s sv par 3 H) by (apply node_is_dir_valid; exact F2). cbn [negb].
        rewrite (sh_admin _ _ H). cbn [orb negb andb]. unfold node_is_dir.
        destruct (get (f_heap s) oc) as [[ch m|dt k i m|t m]|] eqn:Hgoc; try reflexivity; [exfalso; exact (Hns' t m eq_refl)|congruence].
      + destruct R.
      + destruct R as (R1 & R2). destruct (werr_cases _ _ R1 Hnf) as (Hc & ->).
        destruct Hc as [Hc|[Hc|[Hc|Hc]]]; rewrite Hc in *; try reflexivity.
        rewrite (R2 eq_refl eq_refl). reflexivity.
    - destruct Ro as (O1 & O2 & _). rewrite O2, O1. reflexivity.
    - destruct Ro.
    - destruct Ro as (O1 & _). destruct (werr_cases _ _ O1 Hnfo) as (Hc & ->).
      destruct (sr_child ro); destruct Hc as [Hc|[Hc|[Hc|Hc]]]; rewrite Hc; reflexivity.
  Qed.
End Steps2.

(* ---- OpenFile with O_CREATE, WriteFile ------------------------------------------------------------------------------------------------- *)
Section OpenP.
  Variables (s : fsys) (sv : sview) (vi : nat) (p cl : str) (flag perm : N).
  Hypothesis H : step_hyps s sv.
  Hypothesis Hnp : name_path p cl.
  Notation v := (sv_view sv).

  (* the parent-mode lookup: an error shared with the following walk, or the parent of [cl] *)
  Lemma np_pm_cases :
    resolved s sv SlLstat p ->
    (klookup s sv true false p = klookup s sv false true p /\ exists e, klookup s sv true false p = WErr e)
    \/ (exists par0, klookup s sv true false p = WParent par0 LNorm cl false).
  Proof.
    intros Hr0. pose proof (resolved_nofuel _ _ _ _ Hr0) as Hk0. change (follow_of SlLstat) with false in Hk0.
    destruct (np_pm s sv p cl Hnp false Hk0) as (_ & _ & Hpm). rewrite Hpm.
    destruct (klookup s sv false false p) as [par0 k0 n0 c0|par0 n0 md0|a b c d|e0] eqn:HK0.
    - right. eauto.
    - right. eauto.
    - exfalso. exact (klookup_not_parent _ _ _ _ _ _ _ _ HK0).
    - left. split; [symmetry; exact (np_err_follow s sv p cl Hnp e0 HK0)|eauto].
  Qed.

  Theorem step_open_create_p :
    resolved s sv SlLstat p -> resolved s sv SlEval p ->
    has flag O_CREATE = true -> has flag O_EXCL = false ->
    open_sim (open_file s v vi p flag perm) (k_open s sv p flag perm).
  Proof.
    intros Hr0 Hr Hcr Hex. pose proof (np_pm_cases Hr0) as Hcase. destruct Hr as (R & Hnf).
    pose proof (resolve_nosym_p s sv SlEval p) as Hns.
    change (follow_of SlEval) with true in R. change (precise_of SlEval) with true in R.
    pose proof (np_final s sv p true) as Hfin. pose proof (sh_admin _ _ H) as Hadm.
    rewrite (open_file_nf _ _ _ _ _ _ (proj1 Hnp)), Hcr, Hex. cbn [andb]. unfold open_nf. cbv beta iota zeta.
    unfold k_open, decode_flags. rewrite Hcr, Hex. cbv beta iota zeta. cbn [negb].
   
    set (tr := has flag O_TRUNC). set (wr := negb (N.eqb (N.land flag 3) 0)).
    set (r := search_node s v p SlEval) in *.
    destruct Hcase as [(E1 & e0 & E2)|(par0 & ->)].
    { rewrite E2. rewrite <- E1, E2 in R. cbn [walk_rel] in R. destruct R as (R1 & R2).
      destruct (werr_cases _ _ R1 Hnf) as (Hc & ->).
      destruct Hc as [Hc|[Hc|[Hc|Hc]]]; rewrite Hc in *; try osim.
      rewrite (R2 eq_refl eq_refl). osim. }
    cbv iota.
    destruct (klookup s sv false true p) as [par kind name n|par name md|a b c d|e] eqn:HK1; cbn [walk_rel] in R.
    - destruct R as (R1 & R2 & R3 & _ & R4 & _). specialize (Hns n H eq_refl R1 R2).
      rewrite R1, (R4 eq_refl), R2. cbn [is_file_exists is_not_exist negb andb orb].
      destruct (get (f_heap s) n) as [[ch m|dt k i m|t m]|] eqn:Hgn;
        [rewrite Bool.orb_true_r; osim| |exfalso; exact (Hns t m eq_refl)|congruence].
      unfold check_permission. rewrite Hadm, (admin_kperm s sv n _ H) by congruence. cbn [negb andb orb].
      rewrite (drop_privs_admin _ _ Hadm). destruct tr; cbn [andb negb].
      + osim.
      + rewrite (upd_same _ _ _ Hgn), with_heap_same. osim.
    - destruct Hfin as (F1 & F2 & _). destruct R as (R1 & R2 & R3 & R4).
      destruct (at_name_views _ _ _ _ _ _ (R4 eq_refl)) as (V1 & V2 & _).
      rewrite R1, V2, R3, V1, F1. cbn [is_file_exists is_not_exist negb andb orb].
      rewrite (admin_perm_on s sv par _ H) by (apply node_is_dir_valid; exact F2).
      rewrite (admin_kperm s sv par 3 H) by (apply node_is_dir_valid; exact F2). cbn [negb].
      rewrite create_file_alloc by exact (sh_os _ _ H). osim.
    - destruct R.
    - destruct R as (R1 & R2). destruct (werr_cases _ _ R1 Hnf) as (Hc & ->).
      destruct Hc as [Hc|[Hc|[Hc|Hc]]]; rewrite Hc in *; try osim.
      rewrite (R2 eq_refl eq_refl). osim.
  Qed.

  Theorem step_open_excl_p :
    resolved s sv SlLstat p ->
    has flag O_CREATE = true -> has flag O_EXCL = true ->
    open_sim (open_file s v vi p flag perm) (k_open s sv p flag perm).
  Proof.
    intros Hr Hcr Hex. pose proof (resolved_nofuel _ _ _ _ Hr) as Hk1. destruct Hr as (R & Hnf).
    change (follow_of SlLstat) with false in R, Hk1. change (precise_of SlLstat) with true in R.
    destruct (np_pm s sv p cl Hnp false Hk1) as (Hkn & Hkg & Hpm).
    pose proof (np_final s sv p false) as Hfin. pose proof (sh_admin _ _ H) as Hadm.
    rewrite (open_file_nf _ _ _ _ _ _ (proj1 Hnp)), Hcr, Hex. cbn [andb]. unfold open_nf. cbv beta iota zeta.
    unfold k_open, decode_flags. rewrite Hcr, Hex. cbv beta iota zeta. cbn [negb]. rewrite Hpm.
   
    set (tr := has flag O_TRUNC). set (wr := negb (N.eqb (N.land flag 3) 0)).
    set (r := search_node s v p SlLstat) in *.
    destruct (klookup s sv false false p) as [par kind name n|par name md|a b c d|e] eqn:HK; cbn [walk_rel] in R.
    - destruct (Hkn _ _ _ _ eq_refl) as (-> & ->). destruct R as (R1 & R2 & R3 & _ & R4 & _).
      rewrite R1, (R4 eq_refl), R2. cbn [is_file_exists is_not_exist negb andb orb].
      destruct (get (f_heap s) n) as [[ch m|dt k i m|t m]|] eqn:Hgn; [osim| |osim|congruence].
      unfold check_permission. rewrite Hadm. cbn [negb]. osim.
    - pose proof (Hkg _ _ _ eq_refl) as ->. destruct Hfin as (F1 & F2 & _). destruct R as (R1 & R2 & R3 & R4).
      destruct (at_name_views _ _ _ _ _ _ (R4 eq_refl)) as (V1 & V2 & _).
      rewrite R1, V2, R3, V1, F1. cbn [is_file_exists is_not_exist negb andb orb].
      rewrite (admin_perm_on s sv par _ H) by (apply node_is_dir_valid; exact F2).
      rewrite (admin_kperm s sv par 3 H) by (apply node_is_dir_valid; exact F2). cbn [negb].
      rewrite create_file_alloc by exact (sh_os _ _ H). osim.
    - destruct R.
    - destruct R as (R1 & R2). destruct (werr_cases _ _ R1 Hnf) as (Hc & ->).
      destruct Hc as [Hc|[Hc|[Hc|Hc]]]; rewrite Hc in *; try osim.
      rewrite (R2 eq_refl eq_refl). osim.
  Qed.
End OpenP.

Section WriteFileP.
  Variables (s : fsys) (sv : sview) (p cl : str) (data : list N) (perm : N).
  Hypothesis H : step_hyps s sv.
  Hypothesis Hnp : name_path p cl.
  Notation v := (sv_view sv).

  Theorem step_write_file_p :
    resolved s sv SlLstat p -> resolved s sv SlEval p ->
    (fst (write_file s v p data perm), proj_res Linux (snd (write_file s v p data perm))) = go_write_file s sv p data perm.
  Proof.
    intros Hr0 Hr. pose proof (np_pm_cases s sv p cl Hnp Hr0) as Hcase. destruct Hr as (R & Hnf).
    pose proof (resolve_nosym_p s sv SlEval p) as Hns.
    change (follow_of SlEval) with true in R. change (precise_of SlEval) with true in R.
    pose proof (np_final s sv p true) as Hfin. pose proof (sh_admin _ _ H) as Hadm.
    pose proof (proj1 Hnp) as Hne.
    unfold write_file, go_write_file. rewrite (open_wct _ _ _ _ _ Hne). cbv zeta.
    unfold k_open. change (decode_flags (O_WRONLY + O_CREATE + O_TRUNC)) with (OF 1 true false true false).
    cbv iota beta zeta. change (negb (N.eqb (N.land (acc_mask 1 true) 2) 0)) with true.
    change (acc_mask 1 true) with 2%N. cbn [andb negb orb].
    set (r := search_node s v p SlEval) in *.
    destruct Hcase as [(E1 & e0 & E2)|(par0 & ->)].
    { rewrite E2. rewrite <- E1, E2 in R. cbn [walk_rel] in R. destruct R as (R1 & R2).
      destruct (werr_cases _ _ R1 Hnf) as (Hc & ->).
      destruct Hc as [Hc|[Hc|[Hc|Hc]]]; rewrite Hc in *; try reflexivity.
      rewrite (R2 eq_refl eq_refl). reflexivity. }
    cbv iota.
    destruct (klookup s sv false true p) as [par kind name n|par name md|a b c d|e] eqn:HK1; cbn [walk_rel] in R.
    - destruct R as (R1 & R2 & R3 & _ & R4 & _). specialize (Hns n H eq_refl R1 R2).
      rewrite R1, (R4 eq_refl), R2. cbn [is_file_exists is_not_exist negb andb orb].
      destruct (get (f_heap s) n) as [[ch m|dt k i m|t m]|] eqn:Hgn;
        [reflexivity| |exfalso; exact (Hns t m eq_refl)|congruence].
      unfold check_permission. rewrite Hadm, (admin_kperm s sv n _ H) by congruence. cbn [negb andb orb].
      rewrite (drop_privs_admin _ _ Hadm).
      assert (Hg' : get (f_heap (with_heap s (upd (f_heap s) n (NFile [] k i m)))) n = Some (NFile [] k i m))
        by (cbn [with_heap f_heap]; apply wget_upd_same; exact (wget_lt _ _ _ Hgn)).
      rewrite (write_file_ok s _ v _ data perm n k i m Hne Hg' Hadm).
      rewrite Hg', (drop_privs_admin _ _ Hadm). destruct data; reflexivity.
    - destruct Hfin as (F1 & F2 & _). destruct R as (R1 & R2 & R3 & R4).
      destruct (at_name_views _ _ _ _ _ _ (R4 eq_refl)) as (V1 & V2 & _).
      rewrite R1, V2, R3, V1, F1. cbn [is_file_exists is_not_exist negb andb orb].
      rewrite (admin_perm_on s sv par _ H) by (apply node_is_dir_valid; exact F2).
      rewrite (admin_kperm s sv par 3 H) by (apply node_is_dir_valid; exact F2). cbn [negb].
      destruct (node_is_dir_get _ _ F2) as (chp & mp & Hgp).
      rewrite create_file_alloc by exact (sh_os _ _ H). unfold alloc_child. cbv iota beta.
      set (x := NFile [] 1 (f_last_id s + 1) (kmeta (f_heap s) par v 0 (N.land perm FILE_MODE_MASK) false)).
      pose proof (get_alloc_new (f_heap s) par name x chp mp Hgp) as Hnew.
      set (s1 := {| f_heap := add_child (f_heap s ++ [x]) par name (length (f_heap s));
                    f_last_id := (f_last_id s + 1)%N; f_vols := f_vols s |}) in *.
      change (get (f_heap s1) (length (f_heap s)) = Some x) in Hnew. unfold x in Hnew.
      rewrite (write_file_ok s s1 v _ data perm (length (f_heap s)) 1 _ _ Hne Hnew Hadm).
      rewrite Hnew, (drop_privs_admin _ _ Hadm). destruct data; reflexivity.
    - destruct R.
    - destruct R as (R1 & R2). destruct (werr_cases _ _ R1 Hnf) as (Hc & ->).
      destruct Hc as [Hc|[Hc|[Hc|Hc]]]; rewrite Hc in *; try reflexivity.
      rewrite (R2 eq_refl eq_refl). reflexivity.
  Qed.
End WriteFileP.

(* without O_CREATE: any resolved path *)
Theorem step_open_nocreate_p (s : fsys) (sv : sview) (vi : nat) (p : str) (flag perm : N) :
  step_hyps s sv -> p <> [] -> resolved s sv SlEval p -> has flag O_CREATE = false ->
  open_sim (open_file s (sv_view sv) vi p flag perm) (k_open s sv p flag perm).
Proof.
  intros H Hne (R & Hnf) Hcr.
  pose proof (resolve_nosym_p s sv SlEval p) as Hns. pose proof (sh_admin _ _ H) as Hadm.
  rewrite (open_file_nf _ _ _ _ _ _ Hne), Hcr. cbn [andb]. unfold open_nf. cbv beta iota zeta.
  unfold k_open, decode_flags. rewrite Hcr. cbv beta iota zeta. rewrite wants_write_bits.
  set (wr := negb (N.eqb (N.land flag 3) 0)). set (tr := has flag O_TRUNC).
  change (follow_of SlEval) with true in R. change (precise_of SlEval) with true in R.
  destruct (klookup s sv false true p) as [par kind name n|par name md| |e]; cbn [walk_rel] in R.
  - destruct R as (R1 & R2 & R3 & _ & R4 & _). specialize (Hns n H eq_refl R1 R2).
    rewrite R1, (R4 eq_refl), R2. cbn [is_file_exists is_not_exist negb andb orb].
    destruct (get (f_heap s) n) as [[ch m|dt k i m|t m]|] eqn:Hg; [| |exfalso; exact (Hns t m eq_refl)|congruence].
    + unfold check_permission. rewrite Hadm, (admin_kperm s sv n _ H) by congruence. cbn [negb andb orb].
      rewrite Bool.orb_false_r. destruct (wr || tr); osim.
    + unfold check_permission. rewrite Hadm, (admin_kperm s sv n _ H) by congruence. cbn [negb andb orb].
      rewrite (drop_privs_admin _ _ Hadm). destruct tr; cbn [andb].
      * osim.
      * rewrite (upd_same _ _ _ Hg), with_heap_same. osim.
  - destruct R as (R1 & R2 & R3 & R4). destruct (at_name_views _ _ _ _ _ _ (R4 eq_refl)) as (_ & V2 & _).
    rewrite R1, V2. osim.
  - destruct R.
  - destruct R as (R1 & R2). destruct (werr_cases _ _ R1 Hnf) as (Hc & ->).
    destruct Hc as [Hc|[Hc|[Hc|Hc]]]; rewrite Hc in *; try osim.
    rewrite (R2 eq_refl eq_refl). osim.
Qed.

(* ---- relative paths: the premises of the theorems above from the working directory ------------------------------------------------------ *)
(* [x] cleans to "../"^k w/cl; the working-directory string is a directory walk [bs] from the root to the working-directory
   node of the specification *)
Theorem rel_name_resolved (s : fsys) (sv : sview) (bs : list str) (x : str) (k : nat) (w : list str) (cl : str) :
  step_hyps s sv ->
  v_cwd (sv_view sv) = abs_path bs -> Forall good_comp bs ->
  dwalk (f_heap s) (v_user (sv_view sv)) (v_root (sv_view sv)) bs = Some (sv_cwd sv) ->
  clean Linux x = rel_path k (w ++ [cl]) -> Forall good_comp (w ++ [cl]) ->
  name_path (clean Linux x) cl
  /\ forall slm, klookup s sv false (follow_of slm) (clean Linux x) <> WErr EFUEL ->
                 sr_err (search_node s (sv_view sv) (clean Linux x) slm) <> EFuel ->
                 resolved s sv slm (clean Linux x).
Proof.
  intros H Hcwd Hbs Hw E Hg. destruct (name_path_clean_rel x k w cl E Hg) as (Hnp & Hrel). split; [exact Hnp|].
  intros slm Hk Hnf. exact (resolved_rel s sv slm bs x H Hcwd Hbs Hw Hrel Hk Hnf).
Qed.

(* ---- non-vacuity: the link tree, working directory "/d/e" (node 2), the administrator -------------------------------------------------------- *)
Module StepNamePathExamples.
  Import WalkSymExamples WalkSymNonVacuity.

  Definition acwdv : view :=
    {| v_root := 0; v_cwd := abs_path [s_d; s_e]; v_user := root_user; v_umask := 18; v_os := Linux; v_idm := true |}.
  Definition acwdsv : sview := {| sv_view := acwdv; sv_cwd := 2 |}.

  Example acwd_hyps : step_hyps tree_fs acwdsv.
  Proof. split; [reflexivity|reflexivity|exact tree_wf|exact tree_links_clean|reflexivity]. Qed.

  Ltac good_tac :=
    repeat constructor; try discriminate;
    let x := fresh "x" in let Hx := fresh "Hx" in
    intros x Hx; cbn in Hx; repeat (destruct Hx as [Hx|Hx]; [subst x; discriminate|]); destruct Hx.

  (* "../x" from "/d/e" is "/d/x"; "x" is "/d/e/x"; "../../missing/x" fails in both with ENOENT *)
  Definition up_x : str := DD ++ SLASH :: s_x.

  Lemma rel_inst (x : str) (k : nat) (w : list str) (cl : str) :
    clean Linux x = rel_path k (w ++ [cl]) -> Forall good_comp (w ++ [cl]) ->
    name_path (clean Linux x) cl
    /\ forall slm, klookup tree_fs acwdsv false (follow_of slm) (clean Linux x) <> WErr EFUEL ->
                   sr_err (search_node tree_fs acwdv (clean Linux x) slm) <> EFuel ->
                   resolved tree_fs acwdsv slm (clean Linux x).
  Proof.
    intros E Hg. apply (rel_name_resolved tree_fs acwdsv [s_d; s_e] x k w cl acwd_hyps eq_refl); [good_tac|reflexivity|exact E|exact Hg].
  Qed.

  Example mkdir_rel_instance :
    (fst (mkdir tree_fs acwdv (clean Linux up_x) 493), proj_res Linux (snd (mkdir tree_fs acwdv (clean Linux up_x) 493)))
    = k_mkdir tree_fs acwdsv (clean Linux up_x) 493
    /\ snd (k_mkdir tree_fs acwdsv (clean Linux up_x) 493) = SOk
    /\ klookup (fst (k_mkdir tree_fs acwdsv (clean Linux up_x) 493)) (sv_of adminv) false false (abs_path [s_d; s_x])
       = WNode 1 LNorm s_x (length tree).
  Proof.
    destruct (rel_inst up_x 1 [] s_x eq_refl ltac:(good_tac)) as (Hnp & Hr).
    split; [|split; vm_compute; reflexivity].
    apply (step_mkdir_p tree_fs acwdsv _ s_x acwd_hyps Hnp).
    apply (Hr SlLstat); vm_compute; discriminate.
  Qed.

  Example write_file_rel_instance :
    (fst (write_file tree_fs acwdv (clean Linux s_x) [1%N; 2%N] 420),
     proj_res Linux (snd (write_file tree_fs acwdv (clean Linux s_x) [1%N; 2%N] 420)))
    = go_write_file tree_fs acwdsv (clean Linux s_x) [1%N; 2%N] 420
    /\ snd (go_write_file tree_fs acwdsv (clean Linux s_x) [1%N; 2%N] 420) = SOk.
  Proof.
    destruct (rel_inst s_x 0 [] s_x eq_refl ltac:(good_tac)) as (Hnp & Hr).
    split; [|vm_compute; reflexivity].
    apply (step_write_file_p tree_fs acwdsv _ s_x [1%N; 2%N] 420 acwd_hyps Hnp).
    - apply (Hr SlLstat); vm_compute; discriminate.
    - apply (Hr SlEval); vm_compute; discriminate.
  Qed.

  (* O_CREATE|O_EXCL|O_RDWR of the existing link "top" (relative, not followed): EEXIST on both sides *)
  Example open_excl_rel_instance :
    open_sim (open_file tree_fs acwdv 0 (clean Linux s_top) (O_CREATE + O_EXCL + O_RDWR) 420)
             (k_open tree_fs acwdsv (clean Linux s_top) (O_CREATE + O_EXCL + O_RDWR) 420)
    /\ snd (k_open tree_fs acwdsv (clean Linux s_top) (O_CREATE + O_EXCL + O_RDWR) 420) = inl EEXIST.
  Proof.
    destruct (rel_inst s_top 0 [] s_top eq_refl ltac:(good_tac)) as (Hnp & Hr).
    split; [|vm_compute; reflexivity].
    apply (step_open_excl_p tree_fs acwdsv 0 _ s_top _ 420 acwd_hyps Hnp); [|reflexivity|reflexivity].
    apply (Hr SlLstat); vm_compute; discriminate.
  Qed.
End StepNamePathExamples.
