(* C01: the entry-removing and -moving calls (Remove, Rename, RemoveAll) on ANY resolved name path - absolute or
   relative (Fs/StepNamePath.v has the creating calls). *)
From Avfs Require Import Base BaseProofs PathModel PathSpec PathProofs PathCleanProofs PathIterProofs.
From Avfs Require Import MemFS MemFile World Posix Inv InvConseq.
From Avfs Require Import WalkBridge WalkSym WalkBudget WalkReadlink WalkRel DacLemmas StepEq StepOpen StepNamePath
  HeapEq StepRename StepRenameDir StepRemoveAll StepRemoveAllExact.

Section RemoveP.
  Variables (s : fsys) (sv : sview) (p cl : str).
  Hypothesis H : step_hyps s sv.
  Hypothesis Hnp : name_path p cl.
  Notation v := (sv_view sv).

  Theorem step_remove_p :
    resolved s sv SlLstat p -> sym_single (f_heap s) ->
    (fst (remove s v p), proj_res Linux (snd (remove s v p))) = go_remove s sv p.
  Proof.
    intros Hr Hss. pose proof (resolved_nofuel _ _ _ _ Hr) as Hk1. destruct Hr as (R & Hnf).
    change (follow_of SlLstat) with false in R, Hk1. change (precise_of SlLstat) with true in R.
    destruct (np_pm s sv p cl Hnp false Hk1) as (Hkn & Hkg & Hpm).
    unfold remove, go_remove, k_unlink, k_rmdir. rewrite Hpm.
    pose proof (np_final s sv p false) as Hfin.
    destruct (klookup s sv false false p) as [par kind name n|par name md| |e] eqn:HK; cbn [walk_rel] in R.
    - destruct (Hkn _ _ _ _ eq_refl) as (-> & ->). destruct Hfin as (F1 & F2 & _).
      destruct R as (R1 & R2 & R3 & _ & _ & R4). destruct (R4 eq_refl) as (R5 & R6).
      destruct (at_name_views _ _ _ _ _ _ (R6 eq_refl)) as (V1 & _).
      assert (Hvp : get (f_heap s) par <> None) by (apply node_is_dir_valid; exact F2).
      assert (Hne : n <> par).
      { intros ->. apply (ww_acyclic _ (sh_wf _ _ H) par). exists par, cl. split; [constructor|].
        apply alookup_in. exact F1. }
      rewrite R2, R5, R1, V1, F1. cbn [is_file_exists negb].
      replace (Nat.eqb par n) with false by (symmetry; apply Nat.eqb_neq; congruence).
      rewrite (admin_perm_on s sv par _ H Hvp), (sticky_admin _ _ _ _ (sh_admin _ _ H)). cbn [negb].
      rewrite !(admin_may_delete s sv par n _ H Hvp).
      destruct (get (f_heap s) n) as [[ch m|dt k i m|t m]|] eqn:Hgn; [| | |congruence].
      + assert (Hnd : node_is_dir (f_heap s) n = true) by (unfold node_is_dir; rewrite Hgn; reflexivity).
        rewrite Hnd. unfold dir_nonempty. rewrite Hgn. destruct ch; reflexivity.
      + assert (Hnd : node_is_dir (f_heap s) n = false) by (unfold node_is_dir; rewrite Hgn; reflexivity).
        rewrite Hnd. rewrite (release_single _ par cl n Hss (alookup_in _ _ _ _ F1) Hne). reflexivity.
      + assert (Hnd : node_is_dir (f_heap s) n = false) by (unfold node_is_dir; rewrite Hgn; reflexivity).
        rewrite Hnd. rewrite (release_single _ par cl n Hss (alookup_in _ _ _ _ F1) Hne). reflexivity.
    - pose proof (Hkg _ _ _ eq_refl) as ->. destruct Hfin as (F1 & _). destruct R as (R1 & R2 & _).
      rewrite R2, R1, F1. reflexivity.
    - destruct R.
    - destruct R as (R1 & _). destruct (werr_cases _ _ R1 Hnf) as (Hc & ->).
      set (r := search_node s v p SlLstat) in *.
      destruct (sr_child r), (sr_parent r); destruct Hc as [Hc|[Hc|[Hc|Hc]]]; rewrite Hc; reflexivity.
  Qed.
End RemoveP.

Definition source_not_dir_p (s : fsys) (sv : sview) (o : str) : Prop :=
  forall par kind name n, klookup s sv false false o = WNode par kind name n -> node_is_dir (f_heap s) n = false.
Definition source_is_dir_p (s : fsys) (sv : sview) (o : str) : Prop :=
  forall par kind name n, klookup s sv false false o = WNode par kind name n -> node_is_dir (f_heap s) n = true.

Section RenameP.
  Variables (s : fsys) (sv : sview) (o clo n cln : str).
  Hypothesis H : step_hyps s sv.
  Hypothesis Hnpo : name_path o clo.
  Hypothesis Hnpn : name_path n cln.
  Notation v := (sv_view sv).

  Theorem step_rename_new_p (np : nat) (md : bool) :
    resolved s sv SlLstat o -> resolved s sv SlLstat n -> source_not_dir_p s sv o ->
    klookup s sv false false n = WNeg np cln md ->
    (fst (rename s v o n), proj_res Linux (snd (rename s v o n))) = go_rename s sv o n.
  Proof.
  intros Hro Hrn Hnd HKn.
  pose proof (resolved_nofuel _ _ _ _ Hro) as Hko. pose proof (resolved_nofuel _ _ _ _ Hrn) as Hkn.
  destruct Hro as (Ro & Hnfo). destruct Hrn as (Rn & Hnfn).
  change (follow_of SlLstat) with false in Ro, Rn, Hko, Hkn. change (precise_of SlLstat) with true in Ro, Rn.
  destruct (np_pm s sv o clo Hnpo false Hko) as (Hono & Hong & Hpmo).
  destruct (np_pm s sv n cln Hnpn false Hkn) as (_ & _ & Hpmn).
  pose proof (np_final s sv o false) as Fo.
  pose proof (np_final s sv n false) as Fn.
  rewrite HKn in Rn, Hpmn, Fn. cbn [walk_rel] in Rn. destruct Fn as (Fn1 & Fn2 & _).
  destruct Rn as (N1 & N2 & N3 & N4). destruct (at_name_views _ _ _ _ _ _ (N4 eq_refl)) as (NV1 & NV2 & dn & NP & NW & NG).
  unfold rename, go_rename, k_rename. unfold k_stat at 1. rewrite HKn, Hpmo, Hpmn. cbv beta iota zeta.
  set (ro := search_node s (sv_view sv) (o) SlLstat) in *.
  set (rn := search_node s (sv_view sv) (n) SlLstat) in *.
  unfold source_not_dir_p in Hnd.
  destruct (klookup s sv false false (o)) as [op okind oname oc|op oname omd|a b c d|e] eqn:HKo;
    cbn [walk_rel] in Ro.
  - destruct (Hono _ _ _ _ eq_refl) as (-> & ->). destruct Fo as (Fo1 & Fo2 & _).
    destruct Ro as (O1 & O2 & O3 & _ & _ & O4). destruct (O4 eq_refl) as (O5 & O6).
    destruct (at_name_views _ _ _ _ _ _ (O6 eq_refl)) as (OV1 & _ & do & OP & OW & OG).
    specialize (Hnd _ _ _ _ eq_refl).
    assert (Hvo : get (f_heap s) op <> None) by (apply node_is_dir_valid; exact Fo2).
    assert (Hvn : get (f_heap s) np <> None) by (apply node_is_dir_valid; exact Fn2).
    rewrite O1, N1, NV2, O5, O2, N3, OV1, NV1, N2. cbn [is_file_exists is_not_exist negb andb orb].
    rewrite !(admin_perm_on s sv _ _ H) by assumption. rewrite !(sticky_admin _ _ _ _ (sh_admin _ _ H)).
    cbn [negb andb]. rewrite !andb_false_r.
    (* the two resolved paths differ *)
    assert (Hdiff : str_eqb (pi_path (sr_pi ro)) (pi_path (sr_pi rn)) = false).
    { apply str_eqb_neq. rewrite OP, NP. intros E.
      apply abs_path_inj in E; [|apply Forall_comp_ok_of; exact OG|apply Forall_comp_ok_of; exact NG].
      apply app_inj_tail in E as (-> & ->). rewrite OW in NW. injection NW as ->. congruence. }
    rewrite Hdiff. cbn [orb]. rewrite Fo1, Fn1. rewrite Hnd. cbn [negb andb].
    rewrite !(admin_may_delete s sv _ _ _ H) by assumption. rewrite Hnd.
    rewrite (admin_kperm s sv np 3 H) by assumption.
    destruct (node_is_dir_get _ _ Fo2) as (cho & mo & Hgo'). destruct (node_is_dir_get _ _ Fn2) as (chn & mn & Hgn').
    assert (Hmove : remove_child (add_child (f_heap s) np cln oc) op clo
                    = add_child (remove_child (f_heap s) op clo) np cln oc).
    { apply (move_commute _ _ _ _ _ _ cho mo chn mn Hgo' Hgn'). intros -> ->. congruence. }
    unfold node_is_dir in Hnd.
    destruct (get (f_heap s) oc) as [[ch m|dt k i m|t m]|] eqn:Hgoc; try discriminate Hnd; try congruence;
      rewrite Hmove; reflexivity.
  - pose proof (Hong _ _ _ eq_refl) as ->. destruct Fo as (Fo1 & _). destruct Ro as (O1 & _). rewrite O1, Fo1. reflexivity.
  - destruct Ro.
  - destruct Ro as (O1 & _). destruct (werr_cases _ _ O1 Hnfo) as (Hc & ->).
    destruct Hc as [Hc|[Hc|[Hc|Hc]]]; rewrite Hc; reflexivity.
Qed.

  Theorem step_rename_dir_new_p (np : nat) (md : bool) :
    Inv_heap (f_heap s) -> resolved s sv SlLstat o -> resolved s sv SlLstat n -> source_is_dir_p s sv o ->
    klookup s sv false false n = WNeg np cln md ->
    (fst (rename s v o n), proj_res Linux (snd (rename s v o n))) = go_rename s sv o n.
  Proof.
  intros I Hro Hrn Hsd HKn.
  pose proof (resolved_nofuel _ _ _ _ Hro) as Hko. pose proof (resolved_nofuel _ _ _ _ Hrn) as Hkn.
  destruct Hro as (Ro & Hnfo). destruct Hrn as (Rn & Hnfn).
  change (follow_of SlLstat) with false in Ro, Rn, Hko, Hkn. change (precise_of SlLstat) with true in Ro, Rn.
  destruct (np_pm s sv o clo Hnpo false Hko) as (Hono & Hong & Hpmo).
  destruct (np_pm s sv n cln Hnpn false Hkn) as (_ & _ & Hpmn).
  pose proof (np_final s sv o false) as Fo.
  pose proof (np_final s sv n false) as Fn.
  rewrite HKn in Rn, Hpmn, Fn. cbn [walk_rel] in Rn. destruct Fn as (Fn1 & Fn2 & _).
  destruct Rn as (N1 & N2 & N3 & N4). destruct (at_name_views _ _ _ _ _ _ (N4 eq_refl)) as (NV1 & NV2 & dn & NP & NW & NG).
  unfold rename, go_rename, k_rename. unfold k_stat at 1. rewrite HKn, Hpmo, Hpmn. cbv beta iota zeta.
  remember (search_node s (sv_view sv) (o) SlLstat) as ro eqn:Ero in *.
  remember (search_node s (sv_view sv) (n) SlLstat) as rn eqn:Ern in *. clear Ero Ern.
  unfold source_is_dir_p in Hsd.
  destruct (klookup s sv false false (o)) as [op okind oname oc|op oname omd|a b c d|e] eqn:HKo;
    cbn [walk_rel] in Ro.
  - destruct (Hono _ _ _ _ eq_refl) as (-> & ->). destruct Fo as (Fo1 & Fo2 & _).
    destruct Ro as (O1 & O2 & O3 & _ & _ & O4). destruct (O4 eq_refl) as (O5 & O6).
    destruct (at_name_views _ _ _ _ _ _ (O6 eq_refl)) as (OV1 & _ & do & OP & OW & OG).
    specialize (Hsd _ _ _ _ eq_refl).
    assert (Hvo : get (f_heap s) op <> None) by (apply node_is_dir_valid; exact Fo2).
    assert (Hvn : get (f_heap s) np <> None) by (apply node_is_dir_valid; exact Fn2).
    assert (Hvc : get (f_heap s) oc <> None) by (apply node_is_dir_valid; exact Hsd).
    pose proof (sh_root _ _ H) as Hrd.
    assert (Hrp : kperm (f_heap s) (v_root (sv_view sv)) 1 (v_user (sv_view sv)) = true)
      by (apply (admin_kperm s sv _ 1 H); apply node_is_dir_valid; exact Hrd).
    rewrite O1, N1, NV2, O5, O2, N3, OV1, NV1, N2. cbn [is_file_exists is_not_exist negb andb orb].
    rewrite !(admin_perm_on s sv _ _ H) by assumption. rewrite !(sticky_admin _ _ _ _ (sh_admin _ _ H)).
    cbn [negb andb]. rewrite !andb_false_r.
    rewrite Fo1, Fn1, Hsd. cbn [negb andb].
    (* the two tests *)
    assert (Hwoc : dwalk (f_heap s) (v_user (sv_view sv)) (v_root (sv_view sv)) (do ++ [clo]) = Some oc)
      by (apply (dwalk_snoc _ _ _ _ _ _ _ OW Fo1 Hsd); apply (admin_kperm s sv oc 1 H Hvc)).
    assert (Hocop : Nat.eqb oc op = false).
    { apply Nat.eqb_neq. intros ->. apply (ww_acyclic _ (sh_wf _ _ H) op). exists op, clo. split; [constructor|].
      apply alookup_in. exact Fo1. }
    assert (Htest : is_prefix (pi_path (sr_pi ro) ++ [sepc (v_os (sv_view sv))]) (pi_path (sr_pi rn))
                    = is_ancestor (S (length (f_heap s))) (f_heap s) (v_root (sv_view sv)) oc np).
    { rewrite OP, NP, (sh_os _ _ H). change (sepc Linux) with SLASH. apply bool_iff_eq.
      rewrite (path_prefix_iff (do ++ [clo]) dn cln) by
        (try (destruct do; discriminate); apply Forall_comp_ok_of; assumption).
      symmetry. apply (ancestor_iff_prefix (f_heap s) _ _ I Hrd Hrp (do ++ [clo]) dn oc np Hsd Hwoc NW). }
    destruct (node_is_dir_get _ _ Hsd) as (chd & mdd & Hgoc). rewrite Hgoc.
    rewrite Hocop, Htest. cbn [orb].
    destruct (is_ancestor (S (length (f_heap s))) (f_heap s) (v_root (sv_view sv)) oc np) eqn:Ea;
      [rewrite orb_true_r; reflexivity|].
    assert (Hocnp : Nat.eqb oc np = false).
    { destruct (Nat.eqb_spec oc np) as [<-|]; [|reflexivity]. cbn [is_ancestor] in Ea. rewrite Nat.eqb_refl in Ea. discriminate Ea. }
    rewrite Hocnp. cbn [orb].
    rewrite !(admin_may_delete s sv _ _ _ H) by assumption. rewrite Hsd.
    rewrite (admin_kperm s sv np 3 H) by assumption. rewrite (admin_kperm s sv oc 2 H) by assumption.
    rewrite (sh_admin _ _ H). cbn [negb andb]. rewrite !andb_false_r. cbn [andb].
    destruct (node_is_dir_get _ _ Fo2) as (cho & mo & Hgo'). destruct (node_is_dir_get _ _ Fn2) as (chn & mn & Hgn').
    rewrite (move_commute _ _ _ _ _ _ cho mo chn mn Hgo' Hgn') by (intros -> ->; congruence). reflexivity.
  - pose proof (Hong _ _ _ eq_refl) as ->. destruct Fo as (Fo1 & _). destruct Ro as (O1 & _). rewrite O1, Fo1. reflexivity.
  - destruct Ro.
  - destruct Ro as (O1 & _). destruct (werr_cases _ _ O1 Hnfo) as (Hc & ->).
    destruct Hc as [Hc|[Hc|[Hc|Hc]]]; rewrite Hc; reflexivity.
Qed.
End RenameP.

(* ---- RemoveAll (a subtree without links: equal states) ------------------------------------------------------------------------------------- *)
Lemma ends_with_dot_comp (x cl : str) : good_comp cl -> ends_with_dot (x ++ cl) = false.
Proof.
  intros (Hne & Hns & Hd & _). unfold ends_with_dot. rewrite rev_app_distr.
  destruct (rev cl) as [|d [|c r]] eqn:Er.
  - exfalso. apply Hne. rewrite <- (rev_involutive cl), Er. reflexivity.
  - assert (Ecl : cl = [d]) by (rewrite <- (rev_involutive cl), Er; reflexivity). cbn [app].
    assert (Hdd : N.eqb d DOT = false) by (apply N.eqb_neq; intros ->; congruence). rewrite Hdd.
    destruct (rev x) as [|c r]; reflexivity.
  - cbn [app]. assert (Hc : In c cl) by (apply in_rev; rewrite Er; right; left; reflexivity).
    destruct (N.eqb_spec c SLASH) as [Ec|_]; [exfalso; exact (Hns c Hc Ec)|apply Bool.andb_false_r].
Qed.

Lemma ends_with_dot_rel (k : nat) (w : list str) (cl : str) :
  Forall good_comp (w ++ [cl]) -> ends_with_dot (rel_path k (w ++ [cl])) = false.
Proof.
  intros Hg. assert (Hcl : good_comp cl) by (apply Forall_app in Hg as (_ & Hg); exact (Forall_inv Hg)).
  unfold rel_path. rewrite app_assoc, intercalate_snoc. destruct (repeat DD k ++ w) as [|a l].
  - apply (ends_with_dot_comp [] cl Hcl).
  - rewrite app_assoc. apply ends_with_dot_comp. exact Hcl.
Qed.

Theorem step_remove_all_exact_p (s : fsys) (sv : sview) (p cl : str) :
  step_hyps s sv -> name_path p cl -> ends_with_dot p = false -> Inv_heap (f_heap s) -> sym_single (f_heap s) ->
  resolved s sv SlLstat p -> nolink_target s sv p ->
  (fst (remove_all s (sv_view sv) p), proj_res Linux (snd (remove_all s (sv_view sv) p))) = go_remove_all s sv p.
Proof.
  intros H Hnp Hdot Hinv Hss Hr Hnl. pose proof (resolved_nofuel _ _ _ _ Hr) as Hk1. destruct Hr as (R & Hnf).
  change (follow_of SlLstat) with false in R, Hk1. change (precise_of SlLstat) with true in R.
  destruct (np_pm s sv p cl Hnp false Hk1) as (Hkn & Hkg & Hpm).
  rewrite (remove_all_nonempty s (sv_view sv) _ (proj1 Hnp)).
  rewrite (go_remove_all_nonempty s sv _ (proj1 Hnp)), Hdot. cbv zeta.
  unfold go_remove, k_unlink, k_rmdir. rewrite Hpm. unfold nolink_target in Hnl.
  pose proof (np_final s sv p false) as Hfin.
  destruct (klookup s sv false false (p)) as [par kind name n|par name md| |e] eqn:HK; cbn [walk_rel] in R.
  - destruct (Hkn _ _ _ _ eq_refl) as (-> & ->). destruct Hfin as (F1 & F2 & _).
    destruct R as (R1 & R2 & R3 & _ & _ & R4). destruct (R4 eq_refl) as (R5 & R6).
    destruct (at_name_views _ _ _ _ _ _ (R6 eq_refl)) as (V1 & _).
    assert (Hvp : get (f_heap s) par <> None) by (apply node_is_dir_valid; exact F2).
    assert (Hedge : In (cl, n) (children (f_heap s) par)) by (apply alookup_in; exact F1).
    assert (Hne : n <> par).
    { intros ->. apply (ww_acyclic _ (sh_wf _ _ H) par). exists par, cl. split; [constructor|exact Hedge]. }
    rewrite R2, R5, R1, V1, F1. cbn [is_file_exists is_not_exist negb].
    replace (Nat.eqb par n) with false by (symmetry; apply Nat.eqb_neq; congruence).
    rewrite !(admin_may_delete s sv par n _ H Hvp).
    destruct (get (f_heap s) n) as [[[|x ch] m|dt k i m|t m]|] eqn:Hgn; [| | | |congruence].
    + assert (Hnd : node_is_dir (f_heap s) n = true) by (unfold node_is_dir; rewrite Hgn; reflexivity).
      rewrite Hnd. unfold dir_nonempty. rewrite Hgn, (admin_perm_on s sv par _ H Hvp). reflexivity.
    + assert (Hnd : node_is_dir (f_heap s) n = true) by (unfold node_is_dir; rewrite Hgn; reflexivity).
      rewrite Hnd. unfold dir_nonempty. rewrite Hgn. change (N.eqb ENOTEMPTY ENOTDIR) with false.
      change (N.eqb ENOTEMPTY ENOENT) with false. cbv iota.
      destruct (top_exact (f_heap s) (v_user (sv_view sv)) par n cl (sh_admin _ _ H) (ww_acyclic _ (sh_wf _ _ H)) Hss
                  (maxlen_heap (f_heap s) n Hinv) Hedge Hnd (Hnl _ _ _ _ eq_refl)) as (hi' & -> & G & Fp).
      assert (Hpo : perm_on hi' par OpenWrite (v_user (sv_view sv)) = true).
      { unfold perm_on, check_permission. rewrite Fp. destruct (get (f_heap s) par); [|congruence].
        rewrite (sh_admin _ _ H). reflexivity. }
      rewrite Hpo, G. reflexivity.
    + assert (Hnd : node_is_dir (f_heap s) n = false) by (unfold node_is_dir; rewrite Hgn; reflexivity).
      rewrite Hnd, (admin_perm_on s sv par _ H Hvp). cbn [negb fst snd].
      rewrite (release_single _ par cl n Hss Hedge Hne). reflexivity.
    + assert (Hnd : node_is_dir (f_heap s) n = false) by (unfold node_is_dir; rewrite Hgn; reflexivity).
      rewrite Hnd, (admin_perm_on s sv par _ H Hvp). cbn [negb fst snd].
      rewrite (release_single _ par cl n Hss Hedge Hne). reflexivity.
  - pose proof (Hkg _ _ _ eq_refl) as ->. destruct Hfin as (F1 & _). destruct R as (R1 & R2 & _).
    rewrite R1, F1. reflexivity.
  - destruct R.
  - destruct R as (R1 & _). destruct (werr_cases _ _ R1 Hnf) as (Hc & ->).
    set (r := search_node s (sv_view sv) (p) SlLstat) in *.
    destruct (sr_child r), (sr_parent r); destruct Hc as [Hc|[Hc|[Hc|Hc]]]; rewrite Hc; reflexivity.
Qed.
