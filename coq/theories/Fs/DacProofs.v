(* Property C03, part 1: the permission test of MemFS IS the kernel's acl_permission_check
   (class selection + bit test, for every mode word, every request, every user); consequences for the
   combined masks the calls use; the walk of the implementation is refused with EPermDenied exactly
   where the kernel's walk is refused with EACCES (and, on a link-free path, at the first traversed
   directory lacking search permission). *)
From Avfs Require Import Base PathModel PathSpec PathProofs PathCleanProofs PathIterProofs.
From Avfs Require Import MemFS MemFile World Posix WalkBridge WalkSym.

(* ---- bits ------------------------------------------------------------------------------------- *)
Lemma testbit_7 (i : N) : N.testbit 7 i = N.ltb i 3.
Proof.
  change 7%N with (N.ones 3). destruct (N.ltb_spec i 3) as [H|H].
  - apply N.ones_spec_low. exact H.
  - apply N.ones_spec_high. exact H.
Qed.

Lemma testbit_511_low (i : N) : (i < 9)%N -> N.testbit 511 i = true.
Proof. change 511%N with (N.ones 9). apply N.ones_spec_low. Qed.

Lemma testbit_65535_low (i : N) : (i < 16)%N -> N.testbit 65535 i = true.
Proof. change 65535%N with (N.ones 16). apply N.ones_spec_low. Qed.

(* the three bits of a class, selected by shift [k] <= 6: MemFS masks the mode word with 0xFFFF, the kernel
   with 0o777; under the request mask (3 bits) the two agree *)
Lemma class_bits (m p k : N) :
  (k <= 6)%N ->
  N.land (N.shiftr (N.land m 65535) k) (N.land p 7)
  = N.land (N.land (N.shiftr (N.land m 511) k) 7) (N.land p 7).
Proof.
  intros Hk. apply N.bits_inj. intros i.
  rewrite !N.land_spec, !N.shiftr_spec, !N.land_spec by apply N.le_0_l.
  rewrite testbit_7. destruct (N.ltb_spec i 3) as [Hi|Hi].
  - rewrite testbit_511_low, testbit_65535_low by lia. rewrite !andb_true_r. reflexivity.
  - rewrite !andb_false_r. reflexivity.
Qed.

(* goal 1: MemFS's checkPermission is Linux's acl_permission_check, plus the administrator's override *)
Theorem check_permission_kperm (m : meta) (p : N) (u : user) :
  check_permission m p u = us_admin u || kperm_bits m u (N.land p 7).
Proof.
  unfold check_permission, kperm_bits, mode_perm. destruct (us_admin u); [reflexivity|]. cbn [orb].
  destruct (Z.eqb (m_uid m) (us_uid u)); [rewrite class_bits by lia; reflexivity|].
  destruct (Z.eqb (m_gid m) (us_gid u)); [rewrite class_bits by lia; reflexivity|].
  rewrite <- (N.shiftr_0_r (N.land (m_mode m) 65535)), <- (N.shiftr_0_r (N.land (m_mode m) 511)).
  rewrite class_bits by lia. reflexivity.
Qed.

Corollary perm_on_kperm (h : heap) (i : nat) (p : N) (u : user) :
  perm_on h i p u = kperm h i (N.land p 7) u.
Proof. unfold perm_on, kperm. destruct (get h i); [apply check_permission_kperm|reflexivity]. Qed.

(* a request for several bits is granted iff each of them is *)
Lemma land_sub_lor (b x y : N) :
  N.eqb (N.land b (N.lor x y)) (N.lor x y) = N.eqb (N.land b x) x && N.eqb (N.land b y) y.
Proof.
  apply eq_true_iff_eq. rewrite andb_true_iff, !N.eqb_eq. split.
  - intros H. split; apply N.bits_inj; intros i; apply (f_equal (fun z => N.testbit z i)) in H;
      rewrite ?N.land_spec, ?N.lor_spec in *;
      destruct (N.testbit b i), (N.testbit x i), (N.testbit y i); cbn in *; congruence.
  - intros (H1 & H2). apply N.bits_inj; intros i.
    apply (f_equal (fun z => N.testbit z i)) in H1. apply (f_equal (fun z => N.testbit z i)) in H2.
    rewrite ?N.land_spec, ?N.lor_spec in *.
    destruct (N.testbit b i), (N.testbit x i), (N.testbit y i); cbn in *; congruence.
Qed.

Lemma kperm_bits_lor (m : meta) (u : user) (x y : N) :
  kperm_bits m u (N.lor x y) = kperm_bits m u x && kperm_bits m u y.
Proof. unfold kperm_bits. apply land_sub_lor. Qed.

Lemma kperm_lor (h : heap) (i : nat) (x y : N) (u : user) :
  kperm h i (N.lor x y) u = kperm h i x u && kperm h i y u.
Proof.
  unfold kperm. destruct (get h i); [|reflexivity]. rewrite kperm_bits_lor.
  destruct (us_admin u); reflexivity.
Qed.

(* write + search on a directory whose search permission is already known *)
Lemma kperm_3 (h : heap) (i : nat) (u : user) : kperm h i 3 u = kperm h i 2 u && kperm h i 1 u.
Proof. exact (kperm_lor h i 2 1 u). Qed.

Lemma kperm_6 (h : heap) (i : nat) (u : user) : kperm h i 6 u = kperm h i 4 u && kperm h i 2 u.
Proof. exact (kperm_lor h i 4 2 u). Qed.

Lemma kperm_0 (h : heap) (i : nat) (u : user) : get h i <> None -> kperm h i 0 u = true.
Proof.
  unfold kperm, kperm_bits. destruct (get h i); [|congruence]. intros _. rewrite N.land_0_r. apply orb_true_r.
Qed.

(* the requests MemFS makes, as kernel masks *)
Lemma perm_on_write_lookup (h : heap) (i : nat) (u : user) :
  perm_on h i (N.lor OpenWrite OpenLookup) u = kperm h i 3 u.
Proof. apply perm_on_kperm. Qed.

Lemma perm_on_write (h : heap) (i : nat) (u : user) : perm_on h i OpenWrite u = kperm h i 2 u.
Proof. apply perm_on_kperm. Qed.

Lemma perm_on_write_searchable (h : heap) (i : nat) (u : user) :
  kperm h i 1 u = true -> perm_on h i OpenWrite u = kperm h i 3 u.
Proof. intros H. rewrite perm_on_write, kperm_3, H, andb_true_r. reflexivity. Qed.

Lemma check_permission_node (h : heap) (c : nat) (n : node) (p : N) (u : user) :
  get h c = Some n -> check_permission (node_meta n) p u = kperm h c (N.land p 7) u.
Proof. intros H. unfold kperm. rewrite H. apply check_permission_kperm. Qed.

(* owner-only operations *)
Lemma set_mode_ok_owner_or_root (m : meta) (u : user) : set_mode_ok m u = owner_or_root m u.
Proof. unfold set_mode_ok, owner_or_root. apply orb_comm. Qed.
