(* Property C03, part 1: the permission test of MemFS IS the kernel's acl_permission_check
   (class selection + bit test, for every mode word, every request, every user); consequences for the
   combined masks the calls use; the walk of the implementation is refused with EPermDenied exactly
   where the kernel's walk is refused with EACCES (and, on a link-free path, at the first traversed
   directory lacking search permission). *)
From Avfs Require Import Base PathModel PathSpec PathProofs PathCleanProofs PathIterProofs.
From Avfs Require Import MemFS MemFile World Posix WalkBridge WalkSym.

(* ---- bits ------------------------------------------------------------------------------------- *)
Lemma testbit_7 (i : N) : N.testbit 7 i = N.ltb i 3.
Proof.
  change 7%N with (N.ones 3). destruct (N.ltb_spec i 3) as [H|H].
  - apply N.ones_spec_low. exact H.
  - apply N.ones_spec_high. exact H.
Qed.

Lemma testbit_511_low (i : N) : (i < 9)%N -> N.testbit 511 i = true.
Proof. change 511%N with (N.ones 9). apply N.ones_spec_low. Qed.

Lemma testbit_65535_low (i : N) : (i < 16)%N -> N.testbit 65535 i = true.
Proof. change 65535%N with (N.ones 16). apply N.ones_spec_low. Qed.

(* the three bits of a class, selected by shift [k] <= 6: MemFS masks the mode word with 0xFFFF, the kernel
   with 0o777; under the request mask (3 bits) the two agree *)
Lemma class_bits (m p k : N) :
  (k <= 6)%N ->
  N.land (N.shiftr (N.land m 65535) k) (N.land p 7)
  = N.land (N.land (N.shiftr (N.land m 511) k) 7) (N.land p 7).
Proof.
  intros Hk. apply N.bits_inj. intros i.
  rewrite !N.land_spec, !N.shiftr_spec, !N.land_spec by apply N.le_0_l.
  rewrite testbit_7. destruct (N.ltb_spec i 3) as [Hi|Hi].
  - rewrite testbit_511_low, testbit_65535_low by lia. rewrite !andb_true_r. reflexivity.
  - rewrite !andb_false_r. reflexivity.
Qed.

(* goal 1: MemFS's checkPermission is Linux's acl_permission_check, plus the administrator's override *)
Theorem check_permission_kperm (m : meta) (p : N) (u : user) :
  check_permission m p u = us_admin u || kperm_bits m u (N.land p 7).
Proof.
  unfold check_permission, kperm_bits, mode_perm. destruct (us_admin u); [reflexivity|]. cbn [orb].
  destruct (Z.eqb (m_uid m) (us_uid u)); [rewrite class_bits by lia; reflexivity|].
  destruct (Z.eqb (m_gid m) (us_gid u)); [rewrite class_bits by lia; reflexivity|].
  rewrite <- (N.shiftr_0_r (N.land (m_mode m) 65535)), <- (N.shiftr_0_r (N.land (m_mode m) 511)).
  rewrite class_bits by lia. reflexivity.
Qed.

Corollary perm_on_kperm (h : heap) (i : nat) (p : N) (u : user) :
  perm_on h i p u = kperm h i (N.land p 7) u.
Proof. unfold perm_on, kperm. destruct (get h i); [apply check_permission_kperm|reflexivity]. Qed.

(* a request for several bits is granted iff each of them is *)
Lemma land_sub_lor (b x y : N) :
  N.eqb (N.land b (N.lor x y)) (N.lor x y) = N.eqb (N.land b x) x && N.eqb (N.land b y) y.
Proof.
  apply eq_true_iff_eq. rewrite andb_true_iff, !N.eqb_eq. split.
  - intros H. split; apply N.bits_inj; intros i; apply (f_equal (fun z => N.testbit z i)) in H;
      rewrite ?N.land_spec, ?N.lor_spec in *;
      destruct (N.testbit b i), (N.testbit x i), (N.testbit y i); cbn in *; congruence.
  - intros (H1 & H2). apply N.bits_inj; intros i.
    apply (f_equal (fun z => N.testbit z i)) in H1. apply (f_equal (fun z => N.testbit z i)) in H2.
    rewrite ?N.land_spec, ?N.lor_spec in *.
    destruct (N.testbit b i), (N.testbit x i), (N.testbit y i); cbn in *; congruence.
Qed.

Lemma kperm_bits_lor (m : meta) (u : user) (x y : N) :
  kperm_bits m u (N.lor x y) = kperm_bits m u x && kperm_bits m u y.
Proof. unfold kperm_bits. apply land_sub_lor. Qed.

Lemma kperm_lor (h : heap) (i : nat) (x y : N) (u : user) :
  kperm h i (N.lor x y) u = kperm h i x u && kperm h i y u.
Proof.
  unfold kperm. destruct (get h i); [|reflexivity]. rewrite kperm_bits_lor.
  destruct (us_admin u); reflexivity.
Qed.

(* write + search on a directory whose search permission is already known *)
Lemma kperm_3 (h : heap) (i : nat) (u : user) : kperm h i 3 u = kperm h i 2 u && kperm h i 1 u.
Proof. exact (kperm_lor h i 2 1 u). Qed.

Lemma kperm_6 (h : heap) (i : nat) (u : user) : kperm h i 6 u = kperm h i 4 u && kperm h i 2 u.
Proof. exact (kperm_lor h i 4 2 u). Qed.

Lemma kperm_0 (h : heap) (i : nat) (u : user) : get h i <> None -> kperm h i 0 u = true.
Proof.
  unfold kperm, kperm_bits. destruct (get h i); [|congruence]. intros _. rewrite N.land_0_r. apply orb_true_r.
Qed.

(* the requests MemFS makes, as kernel masks *)
Lemma perm_on_write_lookup (h : heap) (i : nat) (u : user) :
  perm_on h i (N.lor OpenWrite OpenLookup) u = kperm h i 3 u.
Proof. apply perm_on_kperm. Qed.

Lemma perm_on_write (h : heap) (i : nat) (u : user) : perm_on h i OpenWrite u = kperm h i 2 u.
Proof. apply perm_on_kperm. Qed.

Lemma perm_on_write_searchable (h : heap) (i : nat) (u : user) :
  kperm h i 1 u = true -> perm_on h i OpenWrite u = kperm h i 3 u.
Proof. intros H. rewrite perm_on_write, kperm_3, H, andb_true_r. reflexivity. Qed.

Lemma check_permission_node (h : heap) (c : nat) (n : node) (p : N) (u : user) :
  get h c = Some n -> check_permission (node_meta n) p u = kperm h c (N.land p 7) u.
Proof. intros H. unfold kperm. rewrite H. apply check_permission_kperm. Qed.

(* owner-only operations *)
Lemma set_mode_ok_owner_or_root (m : meta) (u : user) : set_mode_ok m u = owner_or_root m u.
Proof. unfold set_mode_ok, owner_or_root. apply orb_comm. Qed.

(* ---- goal 2: the walk is refused at the same place ------------------------------------------------ *)
Lemma werr_cases' (e : ekind) (k : N) :
  walk_err_rel e k -> e <> EFuel ->
  (e = ENoSuchDir \/ e = ENotADirectory \/ e = EPermDenied \/ e = ETooManySymlinks) /\ k = snd (ecode Linux e).
Proof. intros [(He & _)|H] Hne; [congruence|exact H]. Qed.

Lemma walk_rel_denied (h : heap) (u : user) (root : nat) (pr : bool) (r : sres) (K : wres) :
  walk_rel h u root pr r K -> sr_err r <> EFuel -> (sr_err r = EPermDenied <-> K = WErr EACCES).
Proof.
  intros R Hnf. destruct K as [par kind name n|par name md|par kind name md|e]; cbn [walk_rel] in R.
  - destruct R as (R1 & _). split; [congruence|discriminate].
  - destruct R as (R1 & _). split; [congruence|discriminate].
  - destruct R.
  - destruct R as (R1 & _). destruct (werr_cases' _ _ R1 Hnf) as (Hc & ->). split.
    + intros ->. reflexivity.
    + intros [= He]. destruct Hc as [Hc|[Hc|[Hc|Hc]]]; rewrite Hc in He; try exact Hc; vm_compute in He; discriminate He.
Qed.

(* with symbolic links (the hypotheses of the walk bridge), for ANY user *)
Theorem walk_denied_iff (s : fsys) (sv : sview) (slm : slmode) (cs : list str) :
  let v := sv_view sv in
  let h := f_heap s in
  v_os v = Linux -> walk_wf h -> links_clean h -> node_is_dir h (v_root v) = true ->
  Forall good_comp cs ->
  let K := klookup s sv false (follow_of slm) (abs_path cs) in
  let r := search_node s v (abs_path cs) slm in
  K <> WErr EFUEL -> K <> WErr ELOOP -> sr_err r <> EFuel ->
  (sr_err r = EPermDenied <-> K = WErr EACCES).
Proof.
  intros v h Hos Hwf Hlc Hrd Hg K r Hk1 Hk2 Hnf.
  exact (walk_rel_denied _ _ _ _ _ _ (sym_bridge_lookup s sv slm cs Hos Hwf Hlc Hrd Hg Hk1 Hk2 Hnf) Hnf).
Qed.

(* on a link-free path: WHERE the walk is refused.  [first_unsearchable h u d cs]: looking [cs] up from the
   directory [d], the first directory in which a name has to be looked up and that [u] may not search *)
Fixpoint first_unsearchable (h : heap) (u : user) (d : nat) (cs : list str) : option nat :=
  match cs with
  | [] => None
  | c :: rest =>
      if negb (kperm h d 1 u) then Some d
      else match alookup str_eqb c (children h d) with
           | Some n => if node_is_dir h n && negb (is_nil rest) then first_unsearchable h u n rest else None
           | None => None
           end
  end.

(* it is the first one: everything before it is a walk through searchable directories *)
Lemma first_unsearchable_spec (h : heap) (u : user) : forall (cs : list str) (d x : nat),
  kperm h d 1 u = true -> first_unsearchable h u d cs = Some x ->
  exists pre c post y, cs = pre ++ c :: post /\ post <> [] /\ dwalk h u d pre = Some y
                       /\ alookup str_eqb c (children h y) = Some x /\ node_is_dir h x = true /\ kperm h x 1 u = false.
Proof.
  induction cs as [|c rest IH]; intros d x Hp H; [discriminate|]. cbn [first_unsearchable] in H.
  rewrite Hp in H. cbn [negb] in H.
  destruct (alookup str_eqb c (children h d)) as [n|] eqn:Hl; [|discriminate].
  destruct (node_is_dir h n) eqn:Hd; [|discriminate]. destruct rest as [|c2 rest]; [discriminate|]. cbn [is_nil negb andb] in H.
  destruct (kperm h n 1 u) eqn:Hpn.
  - destruct (IH n x Hpn H) as (pre & c' & post & y & E & Hne & Hw & Hl' & Hd' & Hp').
    exists (c :: pre), c', post, y. rewrite E. repeat split; auto. cbn [dwalk]. rewrite Hl, Hd, Hpn. exact Hw.
  - cbn [first_unsearchable] in H. rewrite Hpn in H. injection H as <-.
    exists [], c, (c2 :: rest), d. repeat split; auto. discriminate.
Qed.

(* the directory the implementation's walk was refused at *)
Definition sr_denied (r : sres) : option nat :=
  match sr_child r with Some c => Some c | None => sr_parent r end.

Section Denied.
  Variables (h : heap) (v : view).
  Hypothesis Hos : v_os v = Linux.
  Notation u := (v_user v).

  Lemma denied_at : forall (todo done : list str) (parent : nat) pi fi fk slm vol pm follow slcount cnt saved kroot,
    todo <> [] -> Forall good_comp (done ++ todo) -> before (done ++ todo) done pi ->
    link_free h parent todo = true -> node_is_dir h parent = true -> kperm h parent 1 u = true ->
    length todo <= fi -> length todo <= fk ->
    match first_unsearchable h u parent todo with
    | Some d => sr_err (search_loop fi h v slm vol parent pi slcount saved) = EPermDenied
                /\ sr_child (search_loop fi h v slm vol parent pi slcount saved) = Some d
                /\ kwalk fk h u kroot pm follow parent todo cnt false = WErr EACCES
    | None => sr_err (search_loop fi h v slm vol parent pi slcount saved) <> EPermDenied
              /\ kwalk fk h u kroot pm follow parent todo cnt false <> WErr EACCES
    end.
  Proof.
    induction todo as [|c todo IH];
      intros done parent pi fi fk slm vol pm follow slcount cnt saved kroot Hne Hg Hb Hlf Hd Hp Hfi Hfk; [congruence|].
    destruct fi as [|fi]; [cbn [length] in Hfi; lia|]. destruct fk as [|fk]; [cbn [length] in Hfk; lia|].
    cbn [length] in Hfi, Hfk.
    assert (Hok : Forall comp_ok (done ++ c :: todo)) by (apply Forall_comp_ok_of; exact Hg).
    assert (Hc : good_comp c) by (apply Forall_app in Hg as (_ & Hg); inversion Hg; assumption).
    destruct (good_comp_kind _ Hc) as (K1 & K2).
    rewrite (search_loop_on h v Hos fi slm vol parent pi slcount saved done todo c Hok Hb).
    rewrite (root_check_pass h v vol parent Hp).
    rewrite kwalk_S, Hd, Hp. cbn [negb]. cbv zeta. rewrite K1, K2.
    cbn [first_unsearchable]. rewrite Hp. cbn [negb]. cbn [link_free] in Hlf.
    destruct (alookup str_eqb c (children h parent)) as [n|] eqn:Hl.
    2:{ destruct todo as [|c2 todo]; cbn [is_nil]; [destruct pm|rewrite andb_false_r]; cbn [andb sr_err]; split; discriminate. }
    destruct (get h n) as [[ch m|dt k i m|link m]|] eqn:Hgn; [| |discriminate Hlf|].
    - assert (Hnd : node_is_dir h n = true) by (unfold node_is_dir; rewrite Hgn; reflexivity). rewrite Hnd.
      destruct todo as [|c2 todo]; cbn [is_nil negb andb].
      + destruct pm; cbn [andb sr_err]; split; discriminate.
      + rewrite andb_false_r.
        assert (Hpn : kperm h n 1 u = check_permission m OpenLookup u) by (apply (kperm_dir _ _ _ _ u Hgn)).
        destruct (check_permission m OpenLookup u) eqn:Hcp.
        * apply (IH (done ++ [c]) n); auto; try lia; try discriminate.
          -- rewrite <- app_assoc. exact Hg.
          -- rewrite <- app_assoc. apply on_comp_before.
        * cbn [first_unsearchable]. rewrite Hpn. cbn [negb sr_err sr_child].
          destruct fk as [|fk]; [cbn [length] in Hfk; lia|].
          rewrite kwalk_S, Hnd, Hpn. cbn [negb]. auto.
    - assert (Hnd : node_is_dir h n = false) by (unfold node_is_dir; rewrite Hgn; reflexivity). rewrite Hnd. cbn [andb].
      destruct todo as [|c2 todo]; cbn [is_nil]; [destruct pm|rewrite andb_false_r]; cbn [andb sr_err]; split; discriminate.
    - assert (Hnd : node_is_dir h n = false) by (unfold node_is_dir; rewrite Hgn; reflexivity). rewrite Hnd. cbn [andb].
      destruct todo as [|c2 todo]; cbn [is_nil]; [destruct pm|rewrite andb_false_r]; cbn [andb sr_err]; split; discriminate.
  Qed.
End Denied.

(* goal 2, link-free form: both walks are refused (EPermDenied / EACCES) exactly when some traversed directory
   lacks search permission, and the implementation's walk stops AT the first such directory *)
Theorem walk_denied_first (s : fsys) (sv : sview) (cs : list str) (slm : slmode) (pm follow : bool) :
  let v := sv_view sv in
  let h := f_heap s in
  v_os v = Linux -> Forall good_comp cs -> link_free h (v_root v) cs = true ->
  node_is_dir h (v_root v) = true -> length cs < SEARCH_FUEL ->
  let r := search_node s v (abs_path cs) slm in
  match first_unsearchable h (v_user v) (v_root v) cs with
  | Some d => sr_err r = EPermDenied /\ sr_denied r = Some d /\ klookup s sv pm follow (abs_path cs) = WErr EACCES
  | None => sr_err r <> EPermDenied /\ klookup s sv pm follow (abs_path cs) <> WErr EACCES
  end.
Proof.
  intros v h Hos Hg Hlf Hd Hlen r. subst r.
  rewrite (search_node_abs_path s v cs slm Hos Hg), (klookup_abs_path s sv pm follow cs Hg).
  fold v h. destruct cs as [|c cs].
  - cbn [first_unsearchable]. unfold SEARCH_FUEL, WALK_FUEL.
    rewrite (search_loop_end h v Hos _ slm (v_root v) (v_root v) _ 0 None [] (Forall_nil _) (pi_new_before [])).
    rewrite kwalk_S. destruct pm; split; discriminate.
  - destruct (kperm h (v_root v) 1 (v_user v)) eqn:Hp.
    + pose proof (denied_at h v Hos (c :: cs) [] (v_root v) (pi_new Linux (abs_path (c :: cs))) SEARCH_FUEL WALK_FUEL slm
                    (v_root v) pm follow 0 0 None (v_root v)) as D.
      cbn [app] in D. specialize (D ltac:(discriminate) Hg (pi_new_before (c :: cs)) Hlf Hd Hp).
      specialize (D ltac:(lia) ltac:(unfold SEARCH_FUEL, WALK_FUEL in *; lia)).
      destruct (first_unsearchable h (v_user v) (v_root v) (c :: cs)) as [d|]; [|exact D].
      destruct D as (D1 & D2 & D3). unfold sr_denied. rewrite D2. auto.
    + cbn [first_unsearchable]. rewrite Hp. cbn [negb].
      assert (Hok : Forall comp_ok (c :: cs)) by (apply Forall_comp_ok_of; exact Hg).
      unfold SEARCH_FUEL, WALK_FUEL.
      rewrite (search_loop_on h v Hos _ slm (v_root v) (v_root v) _ 0 None [] cs c Hok (pi_new_before (c :: cs))). cbv zeta.
      rewrite root_check_kperm, Nat.eqb_refl, Hp. rewrite kwalk_S, Hd, Hp. cbn. auto.
Qed.
