(* Property C03, part 1: the permission test of MemFS IS the kernel's acl_permission_check
   (class selection + bit test, for every mode word, every request, every user); consequences for the
   combined masks the calls use; the walk of the implementation is refused with EPermDenied exactly
   where the kernel's walk is refused with EACCES (and, on a link-free path, at the first traversed
   directory lacking search permission). *)
From Avfs Require Import Base PathModel PathSpec PathProofs PathCleanProofs PathIterProofs.
From Avfs Require Import MemFS MemFile World Posix WalkBridge WalkSym WalkReadlink StepEq.

(* ---- bits ------------------------------------------------------------------------------------- *)
Lemma testbit_7 (i : N) : N.testbit 7 i = N.ltb i 3.
Proof.
  change 7%N with (N.ones 3). destruct (N.ltb_spec i 3) as [H|H].
  - apply N.ones_spec_low. exact H.
  - apply N.ones_spec_high. exact H.
Qed.

Lemma testbit_511_low (i : N) : (i < 9)%N -> N.testbit 511 i = true.
Proof. change 511%N with (N.ones 9). apply N.ones_spec_low. Qed.

Lemma testbit_65535_low (i : N) : (i < 16)%N -> N.testbit 65535 i = true.
Proof. change 65535%N with (N.ones 16). apply N.ones_spec_low. Qed.

(* the three bits of a class, selected by shift [k] <= 6: MemFS masks the mode word with 0xFFFF, the kernel
   with 0o777; under the request mask (3 bits) the two agree *)
Lemma class_bits (m p k : N) :
  (k <= 6)%N ->
  N.land (N.shiftr (N.land m 65535) k) (N.land p 7)
  = N.land (N.land (N.shiftr (N.land m 511) k) 7) (N.land p 7).
Proof.
  intros Hk. apply N.bits_inj. intros i.
  rewrite !N.land_spec, !N.shiftr_spec, !N.land_spec by apply N.le_0_l.
  rewrite testbit_7. destruct (N.ltb_spec i 3) as [Hi|Hi].
  - rewrite testbit_511_low, testbit_65535_low by lia. rewrite !andb_true_r. reflexivity.
  - rewrite !andb_false_r. reflexivity.
Qed.

(* goal 1: MemFS's checkPermission is Linux's acl_permission_check, plus the administrator's override *)
Theorem check_permission_kperm (m : meta) (p : N) (u : user) :
  check_permission m p u = us_admin u || kperm_bits m u (N.land p 7).
Proof.
  unfold check_permission, kperm_bits, mode_perm. destruct (us_admin u); [reflexivity|]. cbn [orb].
  destruct (Z.eqb (m_uid m) (us_uid u)); [rewrite class_bits by lia; reflexivity|].
  destruct (Z.eqb (m_gid m) (us_gid u)); [rewrite class_bits by lia; reflexivity|].
  rewrite <- (N.shiftr_0_r (N.land (m_mode m) 65535)), <- (N.shiftr_0_r (N.land (m_mode m) 511)).
  rewrite class_bits by lia. reflexivity.
Qed.

Corollary perm_on_kperm (h : heap) (i : nat) (p : N) (u : user) :
  perm_on h i p u = kperm h i (N.land p 7) u.
Proof. unfold perm_on, kperm. destruct (get h i); [apply check_permission_kperm|reflexivity]. Qed.

(* a request for several bits is granted iff each of them is *)
Lemma land_sub_lor (b x y : N) :
  N.eqb (N.land b (N.lor x y)) (N.lor x y) = N.eqb (N.land b x) x && N.eqb (N.land b y) y.
Proof.
  apply eq_true_iff_eq. rewrite andb_true_iff, !N.eqb_eq. split.
  - intros H. split; apply N.bits_inj; intros i; apply (f_equal (fun z => N.testbit z i)) in H;
      rewrite ?N.land_spec, ?N.lor_spec in *;
      destruct (N.testbit b i), (N.testbit x i), (N.testbit y i); cbn in *; congruence.
  - intros (H1 & H2). apply N.bits_inj; intros i.
    apply (f_equal (fun z => N.testbit z i)) in H1. apply (f_equal (fun z => N.testbit z i)) in H2.
    rewrite ?N.land_spec, ?N.lor_spec in *.
    destruct (N.testbit b i), (N.testbit x i), (N.testbit y i); cbn in *; congruence.
Qed.

Lemma kperm_bits_lor (m : meta) (u : user) (x y : N) :
  kperm_bits m u (N.lor x y) = kperm_bits m u x && kperm_bits m u y.
Proof. unfold kperm_bits. apply land_sub_lor. Qed.

Lemma kperm_lor (h : heap) (i : nat) (x y : N) (u : user) :
  kperm h i (N.lor x y) u = kperm h i x u && kperm h i y u.
Proof.
  unfold kperm. destruct (get h i); [|reflexivity]. rewrite kperm_bits_lor.
  destruct (us_admin u); reflexivity.
Qed.

(* write + search on a directory whose search permission is already known *)
Lemma kperm_3 (h : heap) (i : nat) (u : user) : kperm h i 3 u = kperm h i 2 u && kperm h i 1 u.
Proof. exact (kperm_lor h i 2 1 u). Qed.

Lemma kperm_6 (h : heap) (i : nat) (u : user) : kperm h i 6 u = kperm h i 4 u && kperm h i 2 u.
Proof. exact (kperm_lor h i 4 2 u). Qed.

Lemma kperm_0 (h : heap) (i : nat) (u : user) : get h i <> None -> kperm h i 0 u = true.
Proof.
  unfold kperm, kperm_bits. destruct (get h i); [|congruence]. intros _. rewrite N.land_0_r. apply orb_true_r.
Qed.

(* the requests MemFS makes, as kernel masks *)
Lemma perm_on_write_lookup (h : heap) (i : nat) (u : user) :
  perm_on h i (N.lor OpenWrite OpenLookup) u = kperm h i 3 u.
Proof. apply perm_on_kperm. Qed.

Lemma perm_on_write (h : heap) (i : nat) (u : user) : perm_on h i OpenWrite u = kperm h i 2 u.
Proof. apply perm_on_kperm. Qed.

Lemma perm_on_write_searchable (h : heap) (i : nat) (u : user) :
  kperm h i 1 u = true -> perm_on h i OpenWrite u = kperm h i 3 u.
Proof. intros H. rewrite perm_on_write, kperm_3, H, andb_true_r. reflexivity. Qed.

Lemma check_permission_node (h : heap) (c : nat) (n : node) (p : N) (u : user) :
  get h c = Some n -> check_permission (node_meta n) p u = kperm h c (N.land p 7) u.
Proof. intros H. unfold kperm. rewrite H. apply check_permission_kperm. Qed.

(* owner-only operations *)
Lemma set_mode_ok_owner_or_root (m : meta) (u : user) : set_mode_ok m u = owner_or_root m u.
Proof. unfold set_mode_ok, owner_or_root. apply orb_comm. Qed.

(* ---- goal 2: the walk is refused at the same place ------------------------------------------------ *)
Lemma werr_cases' (e : ekind) (k : N) :
  walk_err_rel e k -> e <> EFuel ->
  (e = ENoSuchDir \/ e = ENotADirectory \/ e = EPermDenied \/ e = ETooManySymlinks) /\ k = snd (ecode Linux e).
Proof. intros [(He & _)|H] Hne; [congruence|exact H]. Qed.

Lemma walk_rel_denied (h : heap) (u : user) (root : nat) (pr : bool) (r : sres) (K : wres) :
  walk_rel h u root pr r K -> sr_err r <> EFuel -> (sr_err r = EPermDenied <-> K = WErr EACCES).
Proof.
  intros R Hnf. destruct K as [par kind name n|par name md|par kind name md|e]; cbn [walk_rel] in R.
  - destruct R as (R1 & _). split; [congruence|discriminate].
  - destruct R as (R1 & _). split; [congruence|discriminate].
  - destruct R.
  - destruct R as (R1 & _). destruct (werr_cases' _ _ R1 Hnf) as (Hc & ->). split.
    + intros ->. reflexivity.
    + intros [= He]. destruct Hc as [Hc|[Hc|[Hc|Hc]]]; rewrite Hc in He; try exact Hc; vm_compute in He; discriminate He.
Qed.

(* with symbolic links (the hypotheses of the walk bridge), for ANY user *)
Theorem walk_denied_iff (s : fsys) (sv : sview) (slm : slmode) (cs : list str) :
  let v := sv_view sv in
  let h := f_heap s in
  v_os v = Linux -> walk_wf h -> links_clean h -> node_is_dir h (v_root v) = true ->
  Forall good_comp cs ->
  let K := klookup s sv false (follow_of slm) (abs_path cs) in
  let r := search_node s v (abs_path cs) slm in
  K <> WErr EFUEL -> sr_err r <> EFuel ->
  (sr_err r = EPermDenied <-> K = WErr EACCES).
Proof.
  intros v h Hos Hwf Hlc Hrd Hg K r Hk1 Hnf.
  exact (walk_rel_denied _ _ _ _ _ _ (sym_bridge_lookup s sv slm cs Hos Hwf Hlc Hrd Hg Hk1 Hnf) Hnf).
Qed.

(* on a link-free path: WHERE the walk is refused.  [first_unsearchable h u d cs]: looking [cs] up from the
   directory [d], the first directory in which a name has to be looked up and that [u] may not search *)
Fixpoint first_unsearchable (h : heap) (u : user) (d : nat) (cs : list str) : option nat :=
  match cs with
  | [] => None
  | c :: rest =>
      if negb (kperm h d 1 u) then Some d
      else match alookup str_eqb c (children h d) with
           | Some n => if node_is_dir h n && negb (is_nil rest) then first_unsearchable h u n rest else None
           | None => None
           end
  end.

(* it is the first one: everything before it is a walk through searchable directories *)
Lemma first_unsearchable_spec (h : heap) (u : user) : forall (cs : list str) (d x : nat),
  kperm h d 1 u = true -> first_unsearchable h u d cs = Some x ->
  exists pre c post y, cs = pre ++ c :: post /\ post <> [] /\ dwalk h u d pre = Some y
                       /\ alookup str_eqb c (children h y) = Some x /\ node_is_dir h x = true /\ kperm h x 1 u = false.
Proof.
  induction cs as [|c rest IH]; intros d x Hp H; [discriminate|]. cbn [first_unsearchable] in H.
  rewrite Hp in H. cbn [negb] in H.
  destruct (alookup str_eqb c (children h d)) as [n|] eqn:Hl; [|discriminate].
  destruct (node_is_dir h n) eqn:Hd; [|discriminate]. destruct rest as [|c2 rest]; [discriminate|]. cbn [is_nil negb andb] in H.
  destruct (kperm h n 1 u) eqn:Hpn.
  - destruct (IH n x Hpn H) as (pre & c' & post & y & E & Hne & Hw & Hl' & Hd' & Hp').
    exists (c :: pre), c', post, y. rewrite E. repeat split; auto. cbn [dwalk]. rewrite Hl, Hd, Hpn. exact Hw.
  - cbn [first_unsearchable] in H. rewrite Hpn in H. injection H as <-.
    exists [], c, (c2 :: rest), d. repeat split; auto. discriminate.
Qed.

(* the directory the implementation's walk was refused at *)
Definition sr_denied (r : sres) : option nat :=
  match sr_child r with Some c => Some c | None => sr_parent r end.

Section Denied.
  Variables (h : heap) (v : view).
  Hypothesis Hos : v_os v = Linux.
  Notation u := (v_user v).

  Lemma denied_at : forall (todo done : list str) (parent : nat) pi fi fk slm vol pm follow slcount cnt saved kroot,
    todo <> [] -> Forall good_comp (done ++ todo) -> before (done ++ todo) done pi ->
    link_free h parent todo = true -> node_is_dir h parent = true -> kperm h parent 1 u = true ->
    length todo <= fi -> length todo <= fk ->
    match first_unsearchable h u parent todo with
    | Some d => sr_err (search_loop fi h v slm vol parent pi slcount saved) = EPermDenied
                /\ sr_child (search_loop fi h v slm vol parent pi slcount saved) = Some d
                /\ kwalk fk h u kroot pm follow parent todo cnt false = WErr EACCES
    | None => sr_err (search_loop fi h v slm vol parent pi slcount saved) <> EPermDenied
              /\ kwalk fk h u kroot pm follow parent todo cnt false <> WErr EACCES
    end.
  Proof.
    induction todo as [|c todo IH];
      intros done parent pi fi fk slm vol pm follow slcount cnt saved kroot Hne Hg Hb Hlf Hd Hp Hfi Hfk; [congruence|].
    destruct fi as [|fi]; [cbn [length] in Hfi; lia|]. destruct fk as [|fk]; [cbn [length] in Hfk; lia|].
    cbn [length] in Hfi, Hfk.
    assert (Hok : Forall comp_ok (done ++ c :: todo)) by (apply Forall_comp_ok_of; exact Hg).
    assert (Hc : good_comp c) by (apply Forall_app in Hg as (_ & Hg); inversion Hg; assumption).
    destruct (good_comp_kind _ Hc) as (K1 & K2).
    rewrite (search_loop_on h v Hos fi slm vol parent pi slcount saved done todo c Hok Hb).
    rewrite (root_check_pass h v vol parent Hp).
    rewrite kwalk_S, Hd, Hp. cbn [negb]. cbv zeta. rewrite K1, K2.
    cbn [first_unsearchable]. rewrite Hp. cbn [negb]. cbn [link_free] in Hlf.
    destruct (alookup str_eqb c (children h parent)) as [n|] eqn:Hl.
    2:{ destruct todo as [|c2 todo]; cbn [is_nil]; [destruct pm|rewrite andb_false_r]; cbn [andb sr_err]; split; discriminate. }
    destruct (get h n) as [[ch m|dt k i m|link m]|] eqn:Hgn; [| |discriminate Hlf|].
    - assert (Hnd : node_is_dir h n = true) by (unfold node_is_dir; rewrite Hgn; reflexivity). rewrite Hnd.
      destruct todo as [|c2 todo]; cbn [is_nil negb andb].
      + destruct pm; cbn [andb sr_err]; split; discriminate.
      + rewrite andb_false_r.
        assert (Hpn : kperm h n 1 u = check_permission m OpenLookup u) by (apply (kperm_dir _ _ _ _ u Hgn)).
        destruct (check_permission m OpenLookup u) eqn:Hcp.
        * apply (IH (done ++ [c]) n); auto; try lia; try discriminate.
          -- rewrite <- app_assoc. exact Hg.
          -- rewrite <- app_assoc. apply on_comp_before.
        * cbn [first_unsearchable]. rewrite Hpn. cbn [negb sr_err sr_child].
          destruct fk as [|fk]; [cbn [length] in Hfk; lia|].
          rewrite kwalk_S, Hnd, Hpn. cbn [negb]. auto.
    - assert (Hnd : node_is_dir h n = false) by (unfold node_is_dir; rewrite Hgn; reflexivity). rewrite Hnd. cbn [andb].
      destruct todo as [|c2 todo]; cbn [is_nil]; [destruct pm|rewrite andb_false_r]; cbn [andb sr_err]; split; discriminate.
    - assert (Hnd : node_is_dir h n = false) by (unfold node_is_dir; rewrite Hgn; reflexivity). rewrite Hnd. cbn [andb].
      destruct todo as [|c2 todo]; cbn [is_nil]; [destruct pm|rewrite andb_false_r]; cbn [andb sr_err]; split; discriminate.
  Qed.
End Denied.

(* goal 2, link-free form: both walks are refused (EPermDenied / EACCES) exactly when some traversed directory
   lacks search permission, and the implementation's walk stops AT the first such directory *)
Theorem walk_denied_first (s : fsys) (sv : sview) (cs : list str) (slm : slmode) (pm follow : bool) :
  let v := sv_view sv in
  let h := f_heap s in
  v_os v = Linux -> Forall good_comp cs -> link_free h (v_root v) cs = true ->
  node_is_dir h (v_root v) = true -> length cs < SEARCH_FUEL ->
  let r := search_node s v (abs_path cs) slm in
  match first_unsearchable h (v_user v) (v_root v) cs with
  | Some d => sr_err r = EPermDenied /\ sr_denied r = Some d /\ klookup s sv pm follow (abs_path cs) = WErr EACCES
  | None => sr_err r <> EPermDenied /\ klookup s sv pm follow (abs_path cs) <> WErr EACCES
  end.
Proof.
  intros v h Hos Hg Hlf Hd Hlen r. subst r.
  rewrite (search_node_abs_path s v cs slm Hos Hg), (klookup_abs_path s sv pm follow cs Hg).
  fold v h. destruct cs as [|c cs].
  - cbn [first_unsearchable]. unfold SEARCH_FUEL, WALK_FUEL.
    rewrite (search_loop_end h v Hos _ slm (v_root v) (v_root v) _ 0 None [] (Forall_nil _) (pi_new_before [])).
    rewrite kwalk_S. destruct pm; split; discriminate.
  - destruct (kperm h (v_root v) 1 (v_user v)) eqn:Hp.
    + pose proof (denied_at h v Hos (c :: cs) [] (v_root v) (pi_new Linux (abs_path (c :: cs))) SEARCH_FUEL WALK_FUEL slm
                    (v_root v) pm follow 0 0 None (v_root v)) as D.
      cbn [app] in D. specialize (D ltac:(discriminate) Hg (pi_new_before (c :: cs)) Hlf Hd Hp).
      specialize (D ltac:(lia) ltac:(unfold SEARCH_FUEL, WALK_FUEL in *; lia)).
      destruct (first_unsearchable h (v_user v) (v_root v) (c :: cs)) as [d|]; [|exact D].
      destruct D as (D1 & D2 & D3). unfold sr_denied. rewrite D2. auto.
    + cbn [first_unsearchable]. rewrite Hp. cbn [negb].
      assert (Hok : Forall comp_ok (c :: cs)) by (apply Forall_comp_ok_of; exact Hg).
      unfold SEARCH_FUEL, WALK_FUEL.
      rewrite (search_loop_on h v Hos _ slm (v_root v) (v_root v) _ 0 None [] cs c Hok (pi_new_before (c :: cs))). cbv zeta.
      rewrite root_check_kperm, Nat.eqb_refl, Hp. rewrite kwalk_S, Hd, Hp. cbn. auto.
Qed.

(* ---- goal 5: ownership and mode of everything the calls create --------------------------------------------- *)
Lemma upd_length (h : heap) (i : nat) (x : node) : length (upd h i x) = length h.
Proof. revert i. induction h as [|y h IH]; intros [|i]; cbn [upd length]; auto. Qed.

Definition meta_at (h : heap) (i : nat) : option meta := option_map node_meta (get h i).

Lemma meta_at_upd (h : heap) (i j : nat) (x : node) :
  (forall y, get h i = Some y -> node_meta x = node_meta y) -> meta_at (upd h i x) j = meta_at h j.
Proof.
  intros Hm. unfold meta_at. destruct (Nat.eq_dec i j) as [->|Hne].
  - destruct (get h j) as [y|] eqn:Hg.
    + rewrite wget_upd_same by (exact (wget_lt _ _ _ Hg)). cbn. rewrite (Hm y eq_refl). reflexivity.
    + assert (Hlen : length h <= j) by (apply nth_error_None; exact Hg).
      replace (get (upd h j x) j) with (@None node); [reflexivity|]. symmetry. apply nth_error_None. rewrite upd_length. exact Hlen.
  - rewrite wget_upd_other by exact Hne. reflexivity.
Qed.

Lemma add_child_length (h : heap) (p : nat) (name : str) (c : nat) : length (add_child h p name c) = length h.
Proof. unfold add_child. destruct (get h p) as [[ch m| |]|]; try reflexivity. apply upd_length. Qed.

Lemma meta_at_add_child (h : heap) (p : nat) (name : str) (c i : nat) : meta_at (add_child h p name c) i = meta_at h i.
Proof.
  unfold add_child. destruct (get h p) as [[ch m| |]|] eqn:Hg; try reflexivity.
  apply meta_at_upd. intros y Hy. rewrite Hg in Hy. injection Hy as <-. reflexivity.
Qed.

Lemma meta_at_new (h : heap) (x : node) : meta_at (h ++ [x]) (length h) = Some (node_meta x).
Proof. unfold meta_at, get. rewrite nth_error_app2 by apply Nat.le_refl. rewrite Nat.sub_diag. reflexivity. Qed.

Lemma meta_at_old (h : heap) (x : node) (i : nat) : i < length h -> meta_at (h ++ [x]) i = meta_at h i.
Proof. intros Hi. unfold meta_at, get. rewrite nth_error_app1 by exact Hi. reflexivity. Qed.

(* what a creating call leaves behind: exactly one new node, at the end of the heap, with meta [m];
   the meta of every older node is unchanged *)
Definition allocated (s s' : fsys) (m : meta) : Prop :=
  length (f_heap s') = S (length (f_heap s))
  /\ meta_at (f_heap s') (length (f_heap s)) = Some m
  /\ forall i, i < length (f_heap s) -> meta_at (f_heap s') i = meta_at (f_heap s) i.

(* [pm]: the meta data of the directory the node is created in (set-group-id inheritance) *)
Definition dir_meta (v : view) (pm : meta) (perm : N) : meta := new_dir_meta v pm perm.
Definition file_meta (v : view) (pm : meta) (perm : N) : meta := new_meta v pm (file_mode (v_os v)) perm.
Definition link_meta (v : view) (pm : meta) : meta :=
  {| m_mode := N.lor MODE_SYMLINK 511; m_uid := us_uid (v_user v); m_gid := new_gid v pm |}.

(* the directory a call creates in: the parent the walk hands back *)
Definition parent_meta (s : fsys) (r : sres) : meta :=
  match sr_parent r with Some p => meta_of (f_heap s) p | None => {| m_mode := 0; m_uid := 0; m_gid := 0 |} end.

Lemma create_dir_allocated (s : fsys) (v : view) (parent : nat) (name : str) (perm : N) :
  allocated s (fst (create_dir s v parent name perm)) (dir_meta v (meta_of (f_heap s) parent) perm) /\ snd (create_dir s v parent name perm) = length (f_heap s).
Proof.
  unfold create_dir, allocated. cbn [fst snd f_heap]. split; [|reflexivity].
  rewrite add_child_length, app_length, Nat.add_comm. cbn [length plus]. split; [reflexivity|]. split.
  - rewrite meta_at_add_child, meta_at_new. reflexivity.
  - intros i Hi. rewrite meta_at_add_child. apply meta_at_old. exact Hi.
Qed.

Lemma create_file_allocated (s : fsys) (v : view) (parent : nat) (name : str) (perm : N) :
  allocated s (fst (create_file s v parent name perm)) (file_meta v (meta_of (f_heap s) parent) perm) /\ snd (create_file s v parent name perm) = length (f_heap s).
Proof.
  unfold create_file, allocated. cbn [fst snd f_heap]. split; [|reflexivity].
  rewrite add_child_length, app_length, Nat.add_comm. cbn [length plus]. split; [reflexivity|]. split.
  - rewrite meta_at_add_child, meta_at_new. reflexivity.
  - intros i Hi. rewrite meta_at_add_child. apply meta_at_old. exact Hi.
Qed.

Lemma create_symlink_allocated (s : fsys) (v : view) (parent : nat) (name link : str) :
  allocated s (create_symlink s v parent name link) (link_meta v (meta_of (f_heap s) parent)).
Proof.
  unfold create_symlink, allocated. cbn [f_heap].
  rewrite add_child_length, app_length, Nat.add_comm. cbn [length plus]. split; [reflexivity|]. split.
  - rewrite meta_at_add_child, meta_at_new. reflexivity.
  - intros i Hi. rewrite meta_at_add_child. apply meta_at_old. exact Hi.
Qed.

(* Mkdir *)
Theorem mkdir_created (s : fsys) (v : view) (name : str) (perm : N) :
  (snd (mkdir s v name perm) = ROk
   /\ allocated s (fst (mkdir s v name perm)) (dir_meta v (parent_meta s (search_node s v name SlLstat)) perm))
  \/ (snd (mkdir s v name perm) <> ROk /\ fst (mkdir s v name perm) = s).
Proof.
  unfold mkdir, parent_meta. destruct name as [|x name]; [right; split; [discriminate|reflexivity]|].
  destruct (_ || _); [right; split; [discriminate|reflexivity]|].
  destruct (sr_parent _) as [parent|]; [|right; split; [discriminate|reflexivity]].
  destruct (negb _); [right; split; [discriminate|reflexivity]|].
  destruct (alookup _ _ _); [right; split; [discriminate|reflexivity]|].
  left. split; [reflexivity|]. apply create_dir_allocated.
Qed.

(* Symlink *)
Theorem symlink_created (s : fsys) (v : view) (oldname newname : str) :
  (snd (symlink s v oldname newname) = ROk
   /\ allocated s (fst (symlink s v oldname newname)) (link_meta v (parent_meta s (search_node s v newname SlLstat))))
  \/ (snd (symlink s v oldname newname) <> ROk /\ fst (symlink s v oldname newname) = s).
Proof.
  unfold symlink, parent_meta. cbv zeta. destruct (_ || _); [right; split; [discriminate|reflexivity]|].
  destruct (sr_parent _) as [parent|]; [|right; split; [discriminate|reflexivity]].
  destruct (negb _); [right; split; [discriminate|reflexivity]|].
  left. split; [reflexivity|]. apply create_symlink_allocated.
Qed.

(* OpenFile: either nothing is allocated (no owner, group or permission bit changes; a truncation by a user who is
   not an administrator clears set-id bits of the file: [meta_kept]), or the file opened is the new node *)
Definition SETID : N := N.lor MODE_SETUID MODE_SETGID.

(* [m'] is [m] up to set-id bits that were cleared: same owner and group, same mode outside the set-id bits, no bit added *)
Definition meta_kept (m' m : meta) : Prop :=
  m_uid m' = m_uid m /\ m_gid m' = m_gid m
  /\ N.ldiff (m_mode m') SETID = N.ldiff (m_mode m) SETID /\ N.land (m_mode m') (m_mode m) = m_mode m'.

Definition ometa_kept (o' o : option meta) : Prop :=
  match o', o with Some m', Some m => meta_kept m' m | None, None => True | _, _ => False end.

Lemma meta_kept_refl (m : meta) : meta_kept m m.
Proof. repeat split. apply N.land_diag. Qed.

Lemma ometa_kept_refl (o : option meta) : ometa_kept o o.
Proof. destruct o; [apply meta_kept_refl|exact I]. Qed.

Lemma meta_kept_trans (a b c : meta) : meta_kept a b -> meta_kept b c -> meta_kept a c.
Proof.
  intros (A1 & A2 & A3 & A4) (B1 & B2 & B3 & B4). repeat split; try congruence.
  rewrite <- A4 at 1. rewrite <- N.land_assoc, B4. exact A4.
Qed.

Lemma ometa_kept_trans (a b c : option meta) : ometa_kept a b -> ometa_kept b c -> ometa_kept a c.
Proof. destruct a, b, c; cbn; try tauto. apply meta_kept_trans. Qed.

(* what dropSetId / removePrivs do to a meta *)
Lemma drop_setid_kept (u : user) (m : meta) : meta_kept (drop_setid u m) m.
Proof.
  unfold meta_kept, drop_setid, SETID. cbn [m_uid m_gid m_mode]. split; [reflexivity|]. split; [reflexivity|].
  split; apply N.bits_inj; intros k;
    (destruct (has (m_mode m) 8 || _); rewrite ?N.land_spec, ?N.ldiff_spec, ?N.lor_spec;
     destruct (N.testbit (m_mode m) k), (N.testbit MODE_SETUID k), (N.testbit MODE_SETGID k); reflexivity).
Qed.

Lemma drop_privs_kept (u : user) (m : meta) : meta_kept (drop_privs u m) m.
Proof. unfold drop_privs. destruct (us_admin u); [apply meta_kept_refl|apply drop_setid_kept]. Qed.

Definition metas_kept (s s' : fsys) : Prop :=
  length (f_heap s') = length (f_heap s) /\ forall i, ometa_kept (meta_at (f_heap s') i) (meta_at (f_heap s) i).

Lemma metas_kept_refl (s : fsys) : metas_kept s s.
Proof. split; [reflexivity|]. intros i. apply ometa_kept_refl. Qed.

(* one file node rewritten with a meta that is [meta_kept] *)
Lemma metas_kept_upd (s : fsys) (c : nat) (d d' : list N) (k k' : Z) (i i' : N) (m m' : meta) :
  get (f_heap s) c = Some (NFile d k i m) -> meta_kept m' m ->
  metas_kept s (with_heap s (upd (f_heap s) c (NFile d' k' i' m'))).
Proof.
  intros Hg Hk. split; [apply upd_length|]. intros j. cbn [with_heap f_heap]. unfold meta_at.
  destruct (Nat.eq_dec c j) as [<-|Hne].
  - rewrite wget_upd_same by (exact (wget_lt _ _ _ Hg)). rewrite Hg. exact Hk.
  - rewrite wget_upd_other by exact Hne. apply ometa_kept_refl.
Qed.

Theorem open_file_created (s : fsys) (v : view) (vi : nat) (name : str) (flag perm : N) :
  metas_kept s (fst (open_file s v vi name flag perm))
  \/ (allocated s (fst (open_file s v vi name flag perm))
        (file_meta v (parent_meta s (search_node s v name (if has (to_open_mode flag) OpenCreateExcl then SlLstat else SlEval))) perm)
      /\ exists f, snd (open_file s v vi name flag perm) = inr f /\ hd_node f = Some (length (f_heap s))).
Proof.
  assert (OE : forall c (om : N),
    metas_kept s (fst (match get (f_heap s) c with
      | Some (NFile d k i m) =>
          if negb (check_permission m (if has om OpenTruncate then N.lor om OpenWrite else om) (v_user v))
          then (s, inl (RFail EPermDenied))
          else if has om OpenCreateExcl then (s, inl (RFail EFileExists))
          else
            let d1 := if has om OpenTruncate then [] else d in
            let at_ := 0%Z in
            let m1 := if has om OpenTruncate then drop_privs (v_user v) m else m in
            (with_heap s (upd (f_heap s) c (NFile d1 k i m1)), inr (new_handle c vi name at_ om))
      | Some (NDir _ m) =>
          if has om OpenCreateExcl then (s, inl (RFail EFileExists))
          else if has om OpenWrite || has om OpenCreate || has om OpenTruncate then (s, inl (RFail EIsADirectory))
          else if negb (check_permission m om (v_user v)) then (s, inl (RFail EPermDenied))
          else (s, inr (new_handle c vi name 0 om))
      | _ => (s, inr (new_handle c vi name 0 om))
      end))).
  { intros c om. destruct (get (f_heap s) c) as [[ch m|d k i m|t m]|] eqn:Hg; try apply metas_kept_refl.
    - destruct (has om OpenCreateExcl); [apply metas_kept_refl|]. destruct (_ || _); [apply metas_kept_refl|].
      destruct (negb _); apply metas_kept_refl.
    - destruct (negb _); [apply metas_kept_refl|]. destruct (has om OpenCreateExcl); [apply metas_kept_refl|].
      cbv zeta. cbn [fst]. apply (metas_kept_upd s c d _ k k i i m _ Hg).
      destruct (has om OpenTruncate); [apply drop_privs_kept|apply meta_kept_refl]. }
  unfold open_file, parent_meta. destruct name as [|x name]; [left; apply metas_kept_refl|]. cbv zeta.
  destruct (_ || _); [left; apply metas_kept_refl|].
  destruct (_ && _); [left; apply metas_kept_refl|].
  destruct (is_not_exist _).
  - destruct (negb (has _ OpenCreate)); [left; apply metas_kept_refl|].
    destruct (sr_parent _) as [parent|]; [|left; apply metas_kept_refl].
    destruct (negb (perm_on _ _ _ _)); [left; apply metas_kept_refl|].
    destruct (alookup _ _ _) as [c|]; [left; apply OE|].
    right. pose proof (create_file_allocated s v parent (pi_part (sr_pi (search_node s v (x :: name)
             (if has (to_open_mode flag) OpenCreateExcl then SlLstat else SlEval)))) perm) as (A1 & A2).
    destruct (create_file _ _ _ _ _) as [s1 c]. cbn [fst snd] in *. split; [exact A1|]. eexists. split; [reflexivity|].
    cbn [new_handle hd_node]. rewrite A2. reflexivity.
  - destruct (sr_child _) as [c|]; [left; apply OE|left; apply metas_kept_refl].
Qed.

(* WriteFile = OpenFile(O_WRONLY|O_CREATE|O_TRUNC) ; Write ; Close *)
Lemma f_write_metas (s : fsys) (v : view) (f : handle) (b : list N) : metas_kept s (fst (fst (f_write s v f b))).
Proof.
  unfold f_write. destruct (hd_name f); [apply metas_kept_refl|]. destruct (hd_node f) as [c|]; [|apply metas_kept_refl].
  unfold file_of. destruct (get (f_heap s) c) as [[ch m|d k i m|t m]|] eqn:Hg; try apply metas_kept_refl.
  destruct (negb _); [apply metas_kept_refl|]. destruct b; [apply metas_kept_refl|].
  cbv zeta. cbn [fst]. apply (metas_kept_upd s c d _ k k i i m _ Hg). apply drop_privs_kept.
Qed.

(* after a creation: the new node keeps its meta up to cleared set-id bits, and so does every older node *)
Definition allocated_w (s s' : fsys) (m : meta) : Prop :=
  length (f_heap s') = S (length (f_heap s))
  /\ meta_at (f_heap s') (length (f_heap s)) = Some m
  /\ forall i, i < length (f_heap s) -> ometa_kept (meta_at (f_heap s') i) (meta_at (f_heap s) i).

Lemma allocated_then_kept (s s1 s2 : fsys) (m : meta) :
  allocated s s1 m -> metas_kept s1 s2 -> exists m', allocated_w s s2 m' /\ meta_kept m' m.
Proof.
  intros (A1 & A2 & A3) (K1 & K2). pose proof (K2 (length (f_heap s))) as Kn. rewrite A2 in Kn.
  destruct (meta_at (f_heap s2) (length (f_heap s))) as [m'|] eqn:E; [|destruct Kn].
  exists m'. split; [|exact Kn]. split; [congruence|]. split; [exact E|].
  intros i Hi. rewrite <- (A3 i Hi). apply K2.
Qed.

Lemma metas_kept_trans (s s1 s2 : fsys) : metas_kept s s1 -> metas_kept s1 s2 -> metas_kept s s2.
Proof. intros (A1 & A2) (K1 & K2). split; [congruence|]. intros i. exact (ometa_kept_trans _ _ _ (K2 i) (A2 i)). Qed.

(* a non-administrator's WriteFile with set-id bits in [perm] creates the file with them and the write clears them,
   as on Linux: the new node has the created meta up to cleared set-id bits *)
Theorem write_file_created (s : fsys) (v : view) (name : str) (data : list N) (perm : N) :
  metas_kept s (fst (write_file s v name data perm))
  \/ exists m', allocated_w s (fst (write_file s v name data perm)) m'
                /\ meta_kept m' (file_meta v (parent_meta s (search_node s v name SlEval)) perm).
Proof.
  unfold write_file.
  pose proof (open_file_created s v 0 name (O_WRONLY + O_CREATE + O_TRUNC) perm) as HO.
  change (has (to_open_mode (O_WRONLY + O_CREATE + O_TRUNC)) OpenCreateExcl) with false in HO. cbv iota in HO.
  destruct (open_file s v 0 name (O_WRONLY + O_CREATE + O_TRUNC) perm) as [s1 [r|f]]; cbn [fst snd] in HO.
  - left. apply metas_kept_refl.
  - pose proof (f_write_metas s1 v f data) as HW.
    destruct (f_write s1 v f data) as [[s2 f'] r]. cbn [fst] in HW.
    assert (E : fst (match r with RInt _ => (s2, ROk) | _ => (s2, r) end) = s2) by (destruct r; reflexivity).
    rewrite E. destruct HO as [HO|(HO & _)].
    + left. exact (metas_kept_trans _ _ _ HO HW).
    + right. exact (allocated_then_kept _ _ _ _ HO HW).
Qed.

(* MkdirAll: any number of new directories, all with the creator's ownership and mode *)
Definition allocated_many (s s' : fsys) (m : meta) : Prop :=
  length (f_heap s) <= length (f_heap s')
  /\ (forall i, i < length (f_heap s) -> meta_at (f_heap s') i = meta_at (f_heap s) i)
  /\ (forall i, length (f_heap s) <= i < length (f_heap s') -> meta_at (f_heap s') i = Some m).

Lemma allocated_many_refl (s : fsys) (m : meta) : allocated_many s s m.
Proof. split; [apply Nat.le_refl|]. split; [reflexivity|]. intros i Hi. lia. Qed.

Lemma allocated_one_many (s s1 s2 : fsys) (m : meta) : allocated s s1 m -> allocated_many s1 s2 m -> allocated_many s s2 m.
Proof.
  intros (A1 & A2 & A3) (B1 & B2 & B3). split; [lia|]. split.
  - intros i Hi. rewrite B2 by lia. apply A3. exact Hi.
  - intros i Hi. destruct (Nat.lt_ge_cases i (length (f_heap s1))) as [Hlt|Hge].
    + rewrite B2 by exact Hlt. assert (i = length (f_heap s)) as -> by lia. exact A2.
    + apply B3. lia.
Qed.

(* a directory created in a new directory gets the same meta data again: the group and the set-group-id bit are
   inherited along the chain MkdirAll creates *)
Lemma land_new_dir_setgid (os : ostype) (perm um x : N) :
  N.land (N.lor (N.lor (dir_mode os) (N.ldiff (N.land (N.land perm (511 + MODE_STICKY)) FILE_MODE_MASK) um))
                (N.land x MODE_SETGID)) MODE_SETGID = N.land x MODE_SETGID.
Proof.
  apply N.bits_inj. intros k. rewrite !N.land_spec, !N.lor_spec, N.ldiff_spec, !N.land_spec.
  change MODE_SETGID with (2 ^ 22)%N. rewrite N.pow2_bits_eqb. destruct (N.eqb_spec 22 k) as [<-|_].
  - replace (N.testbit (dir_mode os) 22) with false by (destruct os; reflexivity).
    change (N.testbit (511 + MODE_STICKY) 22) with false. rewrite !andb_false_r, !andb_true_r. reflexivity.
  - rewrite !andb_false_r. reflexivity.
Qed.

Lemma dir_meta_idem (v : view) (pm : meta) (perm : N) : dir_meta v (dir_meta v pm perm) perm = dir_meta v pm perm.
Proof.
  unfold dir_meta, new_dir_meta, new_meta, new_gid, has. cbn [m_mode m_uid m_gid].
  rewrite !land_new_dir_setgid. destruct (negb (N.eqb (N.land (m_mode pm) MODE_SETGID) 0)); reflexivity.
Qed.

Lemma meta_at_of (h : heap) (i : nat) (m : meta) : meta_at h i = Some m -> meta_of h i = m.
Proof. unfold meta_at, meta_of. destruct (get h i); cbn [option_map]; congruence. Qed.

Lemma mkdir_all_loop_created (v : view) (perm : N) : forall fuel s dn pi,
  allocated_many s (mkdir_all_loop fuel s v dn pi perm) (dir_meta v (meta_of (f_heap s) dn) perm).
Proof.
  induction fuel as [|fuel IH]; intros s dn pi; cbn [mkdir_all_loop]; [apply allocated_many_refl|].
  destruct (alookup _ _ _); [apply allocated_many_refl|].
  pose proof (create_dir_allocated s v dn (pi_part pi) perm) as (A & Ac).
  destruct (create_dir s v dn (pi_part pi) perm) as [s1 c]. cbn [fst snd] in A, Ac.
  destruct (pi_next (v_os v) pi) as [ok pi1]. destruct ok.
  - subst c. pose proof (IH s1 (length (f_heap s)) pi1) as B. destruct A as (A1 & A2 & A3).
    rewrite (meta_at_of _ _ _ A2), dir_meta_idem in B.
    exact (allocated_one_many _ _ _ _ (conj A1 (conj A2 A3)) B).
  - exact (allocated_one_many _ _ _ _ A (allocated_many_refl s1 _)).
Qed.

Theorem mkdir_all_created (s : fsys) (v : view) (path : str) (perm : N) :
  allocated_many s (fst (mkdir_all s v path perm)) (dir_meta v (parent_meta s (search_node s v path SlEval)) perm).
Proof.
  unfold mkdir_all, parent_meta. cbv zeta. destruct (sr_child _) as [c|].
  - destruct (get (f_heap s) c) as [[ch m|d k i m|t m]|].
    + destruct (is_file_exists _); apply allocated_many_refl.
    + apply allocated_many_refl.
    + destruct (sr_parent _); [|apply allocated_many_refl]. destruct (negb _); [apply allocated_many_refl|].
      apply mkdir_all_loop_created.
    + destruct (sr_parent _); [|apply allocated_many_refl]. destruct (negb _); [apply allocated_many_refl|].
      apply mkdir_all_loop_created.
  - destruct (sr_parent _); [|apply allocated_many_refl]. destruct (negb _); [apply allocated_many_refl|].
    apply mkdir_all_loop_created.
Qed.

(* the meta in question, spelled out: the caller's uid; the caller's gid, or the gid of the directory [pm] the object
   is created in when that directory is set-group-id; type bits | (perm & mask) &^ umask, and for a new directory
   the set-group-id bit of [pm] *)
Lemma dir_meta_spec (v : view) (pm : meta) (perm : N) :
  m_uid (dir_meta v pm perm) = us_uid (v_user v)
  /\ m_gid (dir_meta v pm perm) = (if has (m_mode pm) MODE_SETGID then m_gid pm else us_gid (v_user v))
  /\ m_mode (dir_meta v pm perm)
     = N.lor (N.lor (dir_mode (v_os v)) (N.ldiff (N.land perm (511 + MODE_STICKY)) (v_umask v))) (N.land (m_mode pm) MODE_SETGID).
Proof. unfold dir_meta, new_dir_meta, new_meta, new_gid. cbn [m_uid m_gid m_mode]. rewrite land_dir_bits. auto. Qed.

Lemma file_meta_spec (v : view) (pm : meta) (perm : N) :
  m_uid (file_meta v pm perm) = us_uid (v_user v)
  /\ m_gid (file_meta v pm perm) = (if has (m_mode pm) MODE_SETGID then m_gid pm else us_gid (v_user v))
  /\ m_mode (file_meta v pm perm) = N.lor (file_mode (v_os v)) (N.ldiff (N.land perm FILE_MODE_MASK) (v_umask v)).
Proof. unfold file_meta, new_meta, new_gid. cbn [m_uid m_gid m_mode]. auto. Qed.
