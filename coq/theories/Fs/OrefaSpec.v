(* The bridge between the specification of Linux (Posix.v, which runs on the MemFS heap) and the
   OrefaFS model: an OrefaFS state is built from a specification state (same node numbers; the node
   map is the set of paths of the tree), so that the statement of the step theorem of C01 for
   OrefaFS - "from the same state the implementation model answers as the specification" - can be
   evaluated on every state the oracle stream generates (driver command ofso). *)
From Avfs Require Import Base PathModel MemFS MemFile World Posix OrefaFS OrefaWorld.
Set Implicit Arguments.

Definition onode_of (root i : nat) (n : node) : onode :=
  match n with
  | NDir ch m => {| on_ch := ch; on_data := []; on_nlink := if Nat.eqb i root then 0 else 1; on_id := 0; on_meta := m |}
  | NFile d k id m => {| on_ch := []; on_data := d; on_nlink := k; on_id := id; on_meta := m |}
  | NSym l m => {| on_ch := []; on_data := l; on_nlink := 1; on_id := 0; on_meta := m |}   (* outside the symlink-free universe *)
  end.

Fixpoint oheap_of (root i : nat) (h : heap) : oheap :=
  match h with
  | [] => []
  | n :: h' => onode_of root i n :: oheap_of root (S i) h'
  end.

(* every path of the tree below node [i], with the key convention of OrefaFS (dir ++ sep ++ name) *)
Fixpoint index_of (fuel : nat) (os : ostype) (h : heap) (path : str) (i : nat) : list (str * nat) :=
  match fuel with
  | O => []
  | S f =>
      (path, i) ::
      match get h i with
      | Some (NDir ch _) => flat_map (fun e : str * nat => index_of f os h (path ++ [sepc os] ++ fst e) (snd e)) ch
      | _ => []
      end
  end.

Definition oworld_of_sworld (w : sworld) : oworld :=
  let v := sv_view (sw_sv w) in
  let h := f_heap (sw_fs w) in
  let os := v_os v in
  {| ow_fs := {| o_index := ([sepc os], v_root v) :: index_of (S (length h)) os h [] (v_root v);
                 o_heap := oheap_of (v_root v) 0 h;
                 o_last_id := f_last_id (sw_fs w);
                 o_cwd := path_of (S (length h)) h (v_root v) (sv_cwd (sw_sv w)) [];
                 o_user := v_user v; o_umask := v_umask v; o_os := os |};
     ow_handles := [] |}.

(* the OrefaFS model's answer projected to the specification's observables *)
Definition o_impl_step_proj (w : oworld) (c : call) : oworld * pres :=
  let '(w1, r) := ostep w c in
  (w1, match c, r with
       | COpenFile _ _ _ _, RHandle _ => SOk
       | _, _ => proj_res Linux r
       end).
