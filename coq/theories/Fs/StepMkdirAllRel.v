(* C01: MkdirAll on a RELATIVE path "../"^k dn/rest: the working directory is a directory walk [bs] from the root, [dn] a
   directory walk from the ancestor k levels up to [par], the first component of [rest] is missing in [par].  MemFS
   resolves Abs(cwd, p) from the root, os.MkdirAll stats / recurses on the relative prefixes "../"^k dn/init from the
   working-directory node: both build the chain [mk_chain] below [par]. *)
From Avfs Require Import Base BaseProofs PathModel PathSpec PathProofs PathCleanProofs PathIterProofs.
From Avfs Require Import MemFS MemFile World Posix Inv InvMutators InvSearch InvHandles InvCalls.
From Avfs Require Import WalkBridge WalkSym WalkBudget WalkReadlink WalkRel DacLemmas StepEq WalkInv StepMkdirAll StepNamePath.

(* ---- the kernel walk along a directory walk, from any directory --------------------------------------------------------------------- *)
Section KFrom.
  Variables (h : heap) (v : view) (root d0 : nat).
  Notation u := (v_user v).
  Hypothesis Ha : us_admin u = true.
  Hypothesis Hd0 : node_is_dir h d0 = true.

  Lemma kf_perm (d : nat) : node_is_dir h d = true -> kperm h d 1 u = true.
  Proof. intros Hd. destruct (node_is_dir_get _ _ Hd) as (ch & m & Hg). exact (kperm_admin _ _ _ 1 _ Ha Hg). Qed.

  Lemma kf_end (dn : list str) (par : nat) : dwalk h u d0 dn = Some par -> node_is_dir h par = true /\ kperm h par 1 u = true.
  Proof. intros Hw. exact (dwalk_end_dir _ _ _ _ _ Hw Hd0 (kf_perm d0 Hd0)). Qed.

  Lemma kw_missing (dn : list str) (par : nat) (c : str) (todo : list str) (follow : bool) (f cnt : nat) :
    Forall good_comp (dn ++ c :: todo) -> dwalk h u d0 dn = Some par -> alookup str_eqb c (children h par) = None ->
    kwalk (length dn + S f) h u root false follow d0 (dn ++ c :: todo) cnt false
    = if is_nil todo then WNeg par c false else WErr ENOENT.
  Proof.
    intros Hg Hw Hfr. destruct (kf_end dn par Hw) as (Hpd & Hpk). apply Forall_app in Hg as (Hg1 & Hg2).
    rewrite (kwalk_rewalk h v dn d0 par (c :: todo) _ root false follow cnt _ ltac:(discriminate) Hg1 Hw Hd0 (kf_perm d0 Hd0)).
    rewrite kwalk_S, Hpd, Hpk. cbn [negb andb].
    destruct (good_comp_kind c (Forall_inv Hg2)) as (K1 & K2). rewrite K1, K2, Hfr. reflexivity.
  Qed.

  Lemma kw_dir (w : list str) (cl : str) (par : nat) (f cnt : nat) :
    Forall good_comp (w ++ [cl]) -> dwalk h u d0 (w ++ [cl]) = Some par ->
    exists p, kwalk (length w + S f) h u root false true d0 (w ++ [cl]) cnt false = WNode p LNorm cl par.
  Proof.
    intros Hg Hw. apply Forall_app in Hg as (Hg1 & Hg2).
    destruct (dwalk_snoc_inv _ _ _ _ _ _ Hw) as (p & W1 & W2 & W3 & W4).
    destruct (kf_end w p W1) as (Hpd & Hpk). destruct (node_is_dir_get _ _ W3) as (ch & m & Hgp).
    rewrite (kwalk_rewalk h v w d0 p [cl] _ root false true cnt _ ltac:(discriminate) Hg1 W1 Hd0 (kf_perm d0 Hd0)).
    rewrite kwalk_S, Hpd, Hpk. cbn [negb andb is_nil].
    destruct (good_comp_kind cl (Forall_inv Hg2)) as (K1 & K2). rewrite K1, K2, W2, Hgp. exists p. reflexivity.
  Qed.

  Lemma kw_pm (dn : list str) (n : nat) (c : str) (f cnt : nat) :
    Forall good_comp (dn ++ [c]) -> dwalk h u d0 dn = Some n ->
    kwalk (length dn + S f) h u root true false d0 (dn ++ [c]) cnt false = WParent n LNorm c false.
  Proof.
    intros Hg Hw. destruct (kf_end dn n Hw) as (Hpd & Hpk). apply Forall_app in Hg as (Hg1 & Hg2).
    rewrite (kwalk_rewalk h v dn d0 n [c] _ root true false cnt _ ltac:(discriminate) Hg1 Hw Hd0 (kf_perm d0 Hd0)).
    rewrite kwalk_S, Hpd, Hpk. cbn [negb andb is_nil].
    destruct (good_comp_kind c (Forall_inv Hg2)) as (K1 & K2). rewrite K1, K2. reflexivity.
  Qed.
End KFrom.

(* ---- the lookups of a relative path ---------------------------------------------------------------------------------------------------- *)
Section RelLookup.
  Variables (s : fsys) (sv : sview) (bs : list str) (k : nat).
  Notation v := (sv_view sv).
  Notation h := (f_heap s).
  Notation u := (v_user v).
  Notation root := (v_root v).
  Hypothesis Ha : us_admin u = true.
  Hypothesis Hwf : walk_wf h.
  Hypothesis Hrd : node_is_dir h root = true.
  Hypothesis Hbs : Forall good_comp bs.
  Hypothesis Hcwd : dwalk h u root bs = Some (sv_cwd sv).
  Hypothesis Hk : k < WALK_FUEL.

  Lemma rl_rp : kperm h root 1 u = true.
  Proof. apply (kf_perm h v Ha root). exact Hrd. Qed.

  (* "../"^k y, y not empty: the kernel walks y from the ancestor k levels up *)
  Lemma klookup_rel (y : list str) (pm follow : bool) :
    y <> [] -> Forall good_comp y ->
    exists anc, dwalk h u root (firstn (length bs - k) bs) = Some anc
                /\ klookup s sv pm follow (rel_path k y) = kwalk (WALK_FUEL - k) h u root pm follow anc y 0 false.
  Proof.
    intros Hy Hg. assert (Hne : repeat DD k ++ y <> []) by (apply app_ne_r; exact Hy).
    destruct (rel_shape_facts k y Hg Hne) as (_ & Hkc & _ & Hka & Hkt & Hnil). cbv zeta in Hkc, Hka, Hkt, Hnil.
    destruct (kwalk_dotdots h u root Hwf Hrd rl_rp k bs (sv_cwd sv) y (WALK_FUEL - k) pm follow 0 false Hy Hcwd)
      as (anc & H1 & H2).
    exists anc. split; [exact H1|]. unfold klookup, rel_path in *.
    destruct (intercalate [SLASH] (repeat DD k ++ y)) as [|c0 p'] eqn:Ep; [discriminate Hnil|]. rewrite <- Ep in *.
    rewrite Hka, Hkc, Hkt. replace (k + (WALK_FUEL - k)) with WALK_FUEL in H2 by lia. exact H2.
  Qed.

  (* only ".."s *)
  Lemma klookup_rel_dots (k' : nat) (follow : bool) : k = S k' ->
    exists anc, dwalk h u root (firstn (length bs - k) bs) = Some anc
                /\ klookup s sv false follow (rel_path k []) = WNode anc LDotDot DD anc.
  Proof.
    intros ->. assert (Hne : repeat DD (S k') ++ [] <> []) by discriminate.
    destruct (rel_shape_facts (S k') [] (Forall_nil _) Hne) as (_ & Hkc & _ & Hka & Hkt & Hnil). cbv zeta in Hkc, Hka, Hkt, Hnil.
    destruct (kwalk_dotdots_end h u root Hwf Hrd rl_rp k' bs (sv_cwd sv) (WALK_FUEL - S k') follow 0 false Hcwd)
      as (anc & H1 & H2).
    exists anc. split; [exact H1|]. unfold klookup, rel_path in *.
    destruct (intercalate [SLASH] (repeat DD (S k') ++ [])) as [|c0 p'] eqn:Ep; [discriminate Hnil|]. rewrite <- Ep in *.
    rewrite Hka, Hkc, Hkt, app_nil_r. replace (S (k' + (WALK_FUEL - S k'))) with WALK_FUEL in H2 by lia. exact H2.
  Qed.
End RelLookup.

(* ---- the chain keeps old directory walks and the invariant ---------------------------------------------------------------------------- *)
Lemma create_dir_keep (s : fsys) (v : view) (dn : nat) (c : str) (perm : N) (l : list str) (n : nat) :
  us_admin (v_user v) = true -> node_is_dir (f_heap s) dn = true ->
  alookup str_eqb c (children (f_heap s) dn) = None ->
  dir_at s v l n -> dir_at (fst (create_dir s v dn c perm)) v l n.
Proof.
  intros Ha Hdd Hfr (Hr & Hw). destruct (node_is_dir_get _ _ Hdd) as (chd & md & Hg).
  assert (Hfr' : alookup str_eqb c chd = None) by (unfold children in Hfr; rewrite Hg in Hfr; exact Hfr).
  cbn [create_dir fst f_heap]. set (mx := new_dir_meta v (meta_of (f_heap s) dn) perm). split.
  - apply (alloc_dir_old (f_heap s) (v_user v) dn c mx chd md Hg Ha). exact Hr.
  - apply (dwalk_alloc (f_heap s) (v_user v) dn c mx chd md Hg Hfr' Ha); assumption.
Qed.

Lemma mk_chain_keep (v : view) (perm : N) : v_os v = Linux -> us_admin (v_user v) = true ->
  forall (rest : list str) (s : fsys) (done : list str) (dn : nat) (l : list str) (n : nat),
  dir_at s v done dn ->
  (forall c r, rest = c :: r -> alookup str_eqb c (children (f_heap s) dn) = None) ->
  Inv_heap (f_heap s) -> dir_at s v l n ->
  dir_at (fst (mk_chain s v dn rest perm)) v l n /\ Inv_heap (f_heap (fst (mk_chain s v dn rest perm))).
Proof.
  intros Hos Ha. induction rest as [|c rest IH]; intros s done dn l n Hd Hfr Hinv Hl; [cbn [mk_chain fst]; auto|].
  cbn [mk_chain]. destruct (dir_at_dir _ _ _ _ Ha Hd) as (Hdd & _ & _).
  destruct (create_dir_at s v done dn c perm Hos Ha Hd (Hfr _ _ eq_refl)) as (A & B).
  pose proof (create_dir_keep s v dn c perm l n Ha Hdd (Hfr _ _ eq_refl) Hl) as K.
  destruct (create_dir_ok v s dn c perm Hinv Hdd (Hfr _ _ eq_refl)) as ((I1 & _) & _).
  destruct (create_dir s v dn c perm) as [s1 n1]. cbn [fst snd] in A, B, K, I1.
  apply (IH s1 (done ++ [c]) n1 l n A); [intros c' r _; rewrite B; reflexivity|exact I1|exact K].
Qed.

(* ---- os.MkdirAll's system calls on the relative prefixes ---------------------------------------------------------------------------------- *)
Section RelCalls.
  Variables (sv : sview) (bs : list str) (k : nat) (perm : N).
  Notation v := (sv_view sv).
  Notation u := (v_user v).
  Notation root := (v_root v).
  Notation bs' := (firstn (length bs - k) bs).
  Hypothesis Hos : v_os v = Linux.
  Hypothesis Ha : us_admin u = true.
  Hypothesis Hbs : Forall good_comp bs.

  (* the state at hand: an invariant state in which the working directory string is a directory walk to the node *)
  Definition rel_state (s : fsys) : Prop :=
    Inv_heap (f_heap s) /\ dir_at s v bs (sv_cwd sv).

  Lemma rel_anc (s : fsys) (dn : list str) (par anc : nat) :
    rel_state s -> dwalk (f_heap s) u root (bs' ++ dn) = Some par -> dwalk (f_heap s) u root bs' = Some anc ->
    dwalk (f_heap s) u anc dn = Some par /\ node_is_dir (f_heap s) anc = true.
  Proof.
    intros (_ & Hr & _) Hw Hanc. rewrite dwalk_app, Hanc in Hw. split; [exact Hw|].
    exact (proj1 (dwalk_end_dir _ _ _ _ _ Hanc Hr (kf_perm _ v Ha _ Hr))).
  Qed.

  Lemma kstat_missing_rel (s : fsys) (dn : list str) (par : nat) (c : str) (todo : list str) (follow : bool) :
    rel_state s -> Forall good_comp (dn ++ c :: todo) -> dwalk (f_heap s) u root (bs' ++ dn) = Some par ->
    alookup str_eqb c (children (f_heap s) par) = None -> k + length dn < WALK_FUEL ->
    k_stat follow s sv (rel_path k (dn ++ c :: todo)) = SErr ENOENT.
  Proof.
    intros Hs Hg Hw Hfr Hf. pose proof Hs as (Hinv & Hr & Hcw).
    destruct (klookup_rel s sv bs k Ha (Inv_heap_walk_wf _ Hinv) Hr Hcw ltac:(lia) (dn ++ c :: todo) false follow
                ltac:(destruct dn; discriminate) Hg) as (anc & Hanc & E).
    destruct (rel_anc s dn par anc Hs Hw Hanc) as (Hwa & Hda).
    unfold k_stat. rewrite E. replace (WALK_FUEL - k) with (length dn + S (WALK_FUEL - k - S (length dn))) by lia.
    rewrite (kw_missing (f_heap s) v root anc Ha Hda dn par c todo follow _ 0 Hg Hwa Hfr).
    destruct (is_nil todo); reflexivity.
  Qed.

  Lemma kstat_dir_rel (s : fsys) (dn : list str) (par : nat) :
    rel_state s -> Forall good_comp dn -> dwalk (f_heap s) u root (bs' ++ dn) = Some par ->
    repeat DD k ++ dn <> [] -> k + length dn < WALK_FUEL ->
    exists i, k_stat true s sv (rel_path k dn) = SInfo i /\ fi_mode i = m_mode (meta_of (f_heap s) par).
  Proof.
    intros Hs Hg Hw Hne Hf. pose proof Hs as (Hinv & Hr & Hcw).
    assert (Hpd : node_is_dir (f_heap s) par = true)
      by exact (proj1 (dwalk_end_dir _ _ _ _ _ Hw Hr (kf_perm _ v Ha _ Hr))).
    destruct (node_is_dir_get _ _ Hpd) as (ch & m & Hgp).
    assert (Hi : forall nm, fi_mode (k_info (f_heap s) par nm) = m_mode (meta_of (f_heap s) par))
      by (intros nm; unfold k_info, meta_of; rewrite Hgp; reflexivity).
    unfold k_stat. destruct (rev_case _ dn) as [-> | (w & cl & ->)].
    - destruct k as [|k']; [cbn in Hne; congruence|].
      destruct (klookup_rel_dots s sv bs (S k') Ha (Inv_heap_walk_wf _ Hinv) Hr Hcw ltac:(lia) k' true eq_refl) as (anc & Hanc & E).
      rewrite app_nil_r in Hw. rewrite Hanc in Hw. injection Hw as ->. rewrite E. eexists. split; [reflexivity|apply Hi].
    - destruct (klookup_rel s sv bs k Ha (Inv_heap_walk_wf _ Hinv) Hr Hcw ltac:(lia) (w ++ [cl]) false true
                  ltac:(destruct w; discriminate) Hg) as (anc & Hanc & E).
      destruct (rel_anc s (w ++ [cl]) par anc Hs Hw Hanc) as (Hwa & Hda).
      rewrite app_length in Hf. cbn [length] in Hf.
      rewrite E. replace (WALK_FUEL - k) with (length w + S (WALK_FUEL - k - S (length w))) by lia.
      destruct (kw_dir (f_heap s) v root anc Ha Hda w cl par (WALK_FUEL - k - S (length w)) 0 Hg Hwa) as (p & ->).
      eexists. split; [reflexivity|apply Hi].
  Qed.

  Lemma kmkdir_rel (s : fsys) (pre : list str) (n : nat) (c : str) :
    rel_state s -> Forall good_comp (pre ++ [c]) -> dwalk (f_heap s) u root (bs' ++ pre) = Some n ->
    alookup str_eqb c (children (f_heap s) n) = None -> k + length pre < WALK_FUEL ->
    k_mkdir s sv (rel_path k (pre ++ [c])) perm = (fst (create_dir s v n c perm), SOk).
  Proof.
    intros Hs Hg Hw Hfr Hf. pose proof Hs as (Hinv & Hr & Hcw).
    destruct (klookup_rel s sv bs k Ha (Inv_heap_walk_wf _ Hinv) Hr Hcw ltac:(lia) (pre ++ [c]) true false
                ltac:(destruct pre; discriminate) Hg) as (anc & Hanc & E).
    destruct (rel_anc s pre n anc Hs Hw Hanc) as (Hwa & Hda).
    assert (Hnd : node_is_dir (f_heap s) n = true)
      by exact (proj1 (dwalk_end_dir _ _ _ _ _ Hw Hr (kf_perm _ v Ha _ Hr))).
    destruct (node_is_dir_get _ _ Hnd) as (ch & m & Hgn).
    unfold k_mkdir. rewrite E. replace (WALK_FUEL - k) with (length pre + S (WALK_FUEL - k - S (length pre))) by lia.
    rewrite (kw_pm (f_heap s) v root anc Ha Hda pre n c _ 0 Hg Hwa), Hfr.
    rewrite (kperm_admin _ _ _ 3 _ Ha Hgn). cbn [negb].
    rewrite create_dir_alloc by exact Hos. reflexivity.
  Qed.
End RelCalls.

(* ---- the parent prefix of a relative path ----------------------------------------------------------------------------------------------------- *)
Lemma parent_prefix_any (x c : str) : comp_ok c -> parent_prefix (x ++ SLASH :: c) = x.
Proof.
  intros (Hne & Hns). unfold parent_prefix. rewrite rev_app_distr. cbn [rev]. rewrite <- app_assoc. cbn [app].
  assert (Hrn : rev c <> []) by (intros E; apply Hne; rewrite <- (rev_involutive c), E; reflexivity).
  assert (Hrs : forall a, In a (rev c) -> a <> SLASH) by (intros a Hin; apply Hns, in_rev; exact Hin).
  rewrite (strip_seps_keep _ _ Hrn Hrs), (strip_elem_to _ _ Hrs), rev_involutive. reflexivity.
Qed.

Lemma parent_prefix_single (c : str) : comp_ok c -> parent_prefix c = [].
Proof.
  intros (Hne & Hns). unfold parent_prefix.
  assert (Hrn : rev c <> []) by (intros E; apply Hne; rewrite <- (rev_involutive c), E; reflexivity).
  assert (Hrs : forall a, In a (rev c) -> a <> SLASH) by (intros a Hin; apply Hns, in_rev; exact Hin).
  rewrite <- (app_nil_r (rev c)), (strip_seps_keep _ _ Hrn Hrs), app_nil_r.
  assert (E : strip_last_elem (rev c) = []).
  { revert Hrs. generalize (rev c). induction l as [|a l IH]; intros Hl; [reflexivity|]. cbn [strip_last_elem].
    destruct (N.eqb_spec a SLASH) as [Ea|_]; [exfalso; exact (Hl a (or_introl eq_refl) Ea)|].
    apply IH. intros b Hb. apply Hl. right. exact Hb. }
  rewrite E. reflexivity.
Qed.

Lemma parent_prefix_rel (k : nat) (w : list str) (c : str) :
  comp_ok c -> parent_prefix (rel_path k (w ++ [c])) = match repeat DD k ++ w with [] => [] | _ => rel_path k w end.
Proof.
  intros Hc. unfold rel_path. rewrite app_assoc, PathCleanProofs.intercalate_snoc.
  destruct (repeat DD k ++ w) as [|a l] eqn:E; [apply parent_prefix_single; exact Hc|].
  cbn [app]. apply parent_prefix_any. exact Hc.
Qed.

(* ---- os.MkdirAll on the relative path ---------------------------------------------------------------------------------------------------------- *)
Section GoRel.
  Variables (s : fsys) (sv : sview) (bs : list str) (k : nat) (perm : N) (dn : list str) (par : nat).
  Notation v := (sv_view sv).
  Notation u := (v_user v).
  Notation root := (v_root v).
  Notation bs' := (firstn (length bs - k) bs).
  Hypothesis Hos : v_os v = Linux.
  Hypothesis Ha : us_admin u = true.
  Hypothesis Hbs : Forall good_comp bs.
  Hypothesis Hs : rel_state sv bs s.
  Hypothesis Hd : dir_at s v (bs' ++ dn) par.
  Hypothesis Hbit : has (m_mode (meta_of (f_heap s) par)) MODE_DIR = true.

  Lemma go_chain_rel : forall rest : list str,
    Forall good_comp (dn ++ rest) ->
    (forall c r, rest = c :: r -> alookup str_eqb c (children (f_heap s) par) = None) ->
    repeat DD k ++ dn ++ rest <> [] ->
    k + length (dn ++ rest) < WALK_FUEL ->
    forall f, length rest < f ->
    go_mkdir_all f s sv (rel_path k (dn ++ rest)) perm = (fst (mk_chain s v par rest perm), SOk).
  Proof.
    induction rest as [|last init IH] using rev_ind; intros Hg Hfr Hne Hlen f Hf;
      (destruct f as [|f]; [lia|]); rewrite go_mkdir_all_S.
    - rewrite app_nil_r in *.
      destruct (kstat_dir_rel sv bs k Ha s dn par Hs Hg (proj2 Hd) Hne Hlen) as (i & -> & Hi).
      rewrite Hi, Hbit. reflexivity.
    - rewrite app_length in Hf. cbn [length] in Hf.
      assert (Hlen' : k + length (dn ++ init) < WALK_FUEL) by (rewrite !app_length in *; cbn [length] in Hlen; lia).
      assert (Hg' : Forall good_comp (dn ++ init)).
      { rewrite app_assoc in Hg. apply Forall_app in Hg as (Hg & _). exact Hg. }
      assert (Hgl : good_comp last).
      { rewrite app_assoc in Hg. apply Forall_app in Hg as (_ & Hg). exact (Forall_inv Hg). }
      (* the stat fails *)
      assert (Hst : k_stat true s sv (rel_path k (dn ++ init ++ [last])) = SErr ENOENT).
      { assert (Hdl : k + length dn < WALK_FUEL) by (rewrite app_length in Hlen'; lia).
        destruct init as [|c i']; cbn [app] in *.
        - apply (kstat_missing_rel sv bs k Ha s dn par last [] true Hs Hg (proj2 Hd) (Hfr _ _ eq_refl) Hdl).
        - apply (kstat_missing_rel sv bs k Ha s dn par c (i' ++ [last]) true Hs Hg (proj2 Hd) (Hfr _ _ eq_refl) Hdl). }
      rewrite Hst. cbv zeta.
      (* the recursion creates the chain up to the parent *)
      assert (Hrec : match parent_prefix (rel_path k (dn ++ init ++ [last])) with
                     | [] => (s, SOk)
                     | _ => go_mkdir_all f s sv (parent_prefix (rel_path k (dn ++ init ++ [last]))) perm
                     end = (fst (mk_chain s v par init perm), SOk)).
      { rewrite app_assoc, (parent_prefix_rel _ _ _ (good_comp_ok Hgl)).
        destruct (list_nil_dec _ (repeat DD k ++ dn ++ init)) as [El|El].
        - rewrite El. apply app_eq_nil in El as (_ & El). apply app_eq_nil in El as (_ & ->). reflexivity.
        - assert (Hrel : rel_path k (dn ++ init) <> []).
          { destruct (rel_shape_facts k (dn ++ init) Hg' El) as (_ & _ & _ & _ & _ & Hnil). cbv zeta in Hnil.
            unfold rel_path. intros E. rewrite E in Hnil. discriminate. }
          destruct (repeat DD k ++ dn ++ init) as [|a l]; [congruence|].
          destruct (rel_path k (dn ++ init)) as [|c0 p0] eqn:Ep; [congruence|].
          apply IH; [exact Hg'| |discriminate|exact Hlen'|lia].
          intros c r E. apply (Hfr c (r ++ [last])). rewrite E. reflexivity. }
      rewrite Hrec.
      (* mkdir of the last component, in the state with the chain up to the parent *)
      assert (Hfr0 : forall c r, init = c :: r -> alookup str_eqb c (children (f_heap s) par) = None)
        by (intros c r E; apply (Hfr c (r ++ [last])); rewrite E; reflexivity).
      destruct (mk_chain_at v perm Hos Ha init s (bs' ++ dn) par Hd Hfr0) as (A & B).
      destruct (mk_chain_keep v perm Hos Ha init s (bs' ++ dn) par bs (sv_cwd sv) Hd Hfr0 (proj1 Hs) (proj2 Hs)) as (Kc & Ki).
      rewrite mk_chain_app. destruct (mk_chain s v par init perm) as [s1 n1] eqn:E1. cbn [fst snd] in A, B, Kc, Ki |- *.
      assert (L1 : alookup str_eqb last (children (f_heap s1) n1) = None).
      { destruct init as [|c i'].
        - cbn [mk_chain] in E1. injection E1 as <- <-. apply (Hfr last []); reflexivity.
        - rewrite (B ltac:(discriminate)). reflexivity. }
      assert (Hg2 : Forall good_comp ((dn ++ init) ++ [last])) by (rewrite <- app_assoc; exact Hg).
      rewrite app_assoc.
      assert (Hw1 : dwalk (f_heap s1) u root (bs' ++ dn ++ init) = Some n1) by (rewrite app_assoc; exact (proj2 A)).
      rewrite (kmkdir_rel sv bs k perm Hos Ha s1 (dn ++ init) n1 last (conj Ki Kc) Hg2 Hw1 L1 Hlen').
      cbn [mk_chain]. destruct (create_dir s1 v n1 last perm) as [s2 n2]. reflexivity.
  Qed.
End GoRel.

(* ---- MemFS: the walk of the relative path is the walk of Abs(cwd, p) ---------------------------------------------------------------------------- *)
Lemma search_node_rel (s : fsys) (v : view) (bs : list str) (k : nat) (names : list str) (slm : slmode) :
  v_os v = Linux -> v_cwd v = abs_path bs -> Forall good_comp bs -> Forall good_comp names ->
  repeat DD k ++ names <> [] ->
  search_node s v (rel_path k names) slm = search_node s v (abs_path (firstn (length bs - k) bs ++ names)) slm.
Proof.
  intros Hos Hcwd Hbs Hg Hne.
  assert (Hg' : Forall good_comp (firstn (length bs - k) bs ++ names)).
  { apply Forall_app. split; [apply firstn_good; exact Hbs|exact Hg]. }
  rewrite (search_node_abs_path s v _ slm Hos Hg').
  destruct (rel_shape_facts k names Hg Hne) as (_ & _ & Hrel & _). cbv zeta in Hrel. fold (rel_path k names) in Hrel.
  unfold search_node. rewrite Hos, Hcwd. unfold abs. rewrite Hrel, (join_abs_any _ Hbs).
  change (Nat.ltb 0 (pi_vnl (pi_new Linux (abs_path (norm true (rev bs) (path_comps (rel_path k names))))))) with false. cbv iota.
  unfold rel_path. rewrite (path_comps_rel k names Hg Hne), norm_pop by exact Hbs.
  rewrite norm_goods0 by exact Hg. rewrite rev_involutive. reflexivity.
Qed.

Lemma intercalate_len (l : list str) : Forall comp_ok l -> length l <= length (intercalate [SLASH] l).
Proof.
  induction 1 as [|c l (Hc & _) _ IH]; [cbn; lia|]. rewrite PathCleanProofs.intercalate_cons, app_length.
  assert (1 <= length c) by (destruct c; [congruence|cbn [length]; lia]).
  destruct l as [|c2 l2]; [cbn [length]; lia|]. rewrite app_length. cbn [length] in *. lia.
Qed.

(* ---- the step ----------------------------------------------------------------------------------------------------------------------------------- *)
Theorem step_mkdir_all_rel (s : fsys) (sv : sview) (bs : list str) (k : nat) (perm : N) (dn rest : list str) (par : nat) :
  let v := sv_view sv in
  let bs' := firstn (length bs - k) bs in
  v_os v = Linux -> us_admin (v_user v) = true ->
  v_cwd v = abs_path bs -> Forall good_comp bs -> rel_state sv bs s ->
  Forall good_comp (dn ++ rest) ->
  dir_at s v (bs' ++ dn) par ->
  (forall c r, rest = c :: r -> alookup str_eqb c (children (f_heap s) par) = None) ->
  has (m_mode (meta_of (f_heap s) par)) MODE_DIR = true ->
  repeat DD k ++ dn ++ rest <> [] ->
  length (bs' ++ dn ++ rest) < SEARCH_FUEL -> k + length (dn ++ rest) < WALK_FUEL ->
  let p := rel_path k (dn ++ rest) in
  (fst (mkdir_all s v p perm), proj_res Linux (snd (mkdir_all s v p perm))) = go_mkdir_all (S (length p)) s sv p perm
  /\ go_mkdir_all (S (length p)) s sv p perm = (fst (mk_chain s v par rest perm), SOk).
Proof.
  intros v bs' Hos Ha Hcwd Hbs Hs Hg Hd Hfr Hbit Hne Hlen Hlk p.
  assert (Hf : length rest < S (length p)).
  { pose proof (intercalate_len _ (rel_comps_ok k (dn ++ rest) Hg)) as Hl. rewrite !app_length in Hl.
    unfold p, rel_path. rewrite !app_length in *. lia. }
  pose proof (go_chain_rel s sv bs k perm dn par Hos Ha Hs Hd Hbit rest Hg Hfr Hne Hlk _ Hf) as G.
  split; [|exact G]. unfold p in *. rewrite G.
  assert (Hgb : Forall good_comp ((bs' ++ dn) ++ rest)).
  { rewrite <- app_assoc. apply Forall_app. split; [apply firstn_good; exact Hbs|exact Hg]. }
  assert (E : mkdir_all s v (rel_path k (dn ++ rest)) perm = mkdir_all s v (abs_path ((bs' ++ dn) ++ rest)) perm).
  { unfold mkdir_all. rewrite (search_node_rel s v bs k (dn ++ rest) SlEval Hos Hcwd Hbs Hg Hne), <- app_assoc. reflexivity. }
  rewrite E, (impl_mkdir_all s v perm (bs' ++ dn) rest par Hos Ha Hgb Hd Hfr) by (rewrite <- app_assoc; exact Hlen).
  reflexivity.
Qed.
