(* The hypotheses of the walk bridge that are not part of C05's invariant - [links_clean] (named links have cleaned
   targets) and [sym_single] (a symbolic link has one name) - are kept by the heap transformations the specification's
   calls perform: per mutator first (allocation of a child, update of a node that keeps its kind and entries,
   unlinking, linking a file, moving an entry), then for the calls covered by the step theorem of C01; finally the
   history theorem of C01 on the states of C05, where [Inv] + [links_ok] replace every per-state premise. *)
From Avfs Require Import Base BaseProofs PathModel PathSpec PathProofs PathCleanProofs PathIterProofs.
From Avfs Require Import MemFS MemFile World Posix Inv InvMutators WalkBridge WalkSym WalkBudget WalkReadlink WalkRel StepEq WalkInv.

Definition links_ok (h : heap) : Prop := links_clean h /\ sym_single h.

(* ---- the transfer principle --------------------------------------------------------------------------------------- *)
(* every edge of [h'] to a link node is an old edge to the same link, except at most ONE new edge (d0, n0, c0) to a link
   node c0 that has no old edge left and a cleaned target *)
Lemma links_ok_transfer (h h' : heap) (d0 : nat) (n0 : str) (c0 : nat) :
  (forall d n i t m, dedge h' d n i -> get h' i = Some (NSym t m) ->
     (dedge h d n i /\ i <> c0 /\ exists m0, get h i = Some (NSym t m0))
     \/ (d = d0 /\ n = n0 /\ i = c0 /\ exists x, t = clean Linux x)) ->
  links_ok h -> links_ok h'.
Proof.
  intros T (Hlc & Hss). split.
  - intros d n i t m He Hg. destruct (T d n i t m He Hg) as [(He0 & _ & m0 & Hg0)|(_ & _ & _ & Hx)]; [|exact Hx].
    exact (Hlc d n i t m0 He0 Hg0).
  - intros c t m d1 n1 d2 n2 Hg H1 H2.
    destruct (T d1 n1 c t m H1 Hg) as [(E1 & N1 & m1 & G1)|(A1 & A2 & A3 & _)];
      destruct (T d2 n2 c t m H2 Hg) as [(E2 & N2 & m2 & G2)|(B1 & B2 & B3 & _)]; try congruence.
    + exact (Hss c t m1 d1 n1 d2 n2 G1 E1 E2).
    + subst. auto.
Qed.

Lemma links_ok_sub (h h' : heap) :
  (forall d n i t m, dedge h' d n i -> get h' i = Some (NSym t m) ->
     dedge h d n i /\ exists m0, get h i = Some (NSym t m0)) ->
  links_ok h -> links_ok h'.
Proof.
  intros T. apply (links_ok_transfer h h' 0 [] (length h + length h' + 1)).
  intros d n i t m He Hg. destruct (T d n i t m He Hg) as (He0 & m0 & Hg0). left. split; [exact He0|].
  split; [|eauto]. pose proof (get_lt _ _ _ Hg0). lia.
Qed.

(* ---- allocation of a child ------------------------------------------------------------------------------------------ *)
Lemma links_ok_alloc (h : heap) (par : nat) (name : str) (x : node) :
  ptr_valid h -> node_children x = [] -> (forall t m, x = NSym t m -> exists x0, t = clean Linux x0) ->
  links_ok h -> links_ok (add_child (h ++ [x]) par name (length h)).
Proof.
  intros Hpv Hx Hxc Hok. set (c := length h).
  assert (Hold : forall d n i, dedge (h ++ [x]) d n i -> dedge h d n i /\ i < c).
  { intros d n i He. unfold dedge in *. rewrite children_app in He.
    destruct (Nat.ltb_spec d (length h)); [split; [exact He|exact (Hpv d n i He)]|].
    destruct (Nat.eqb d (length h)); [rewrite Hx in He|]; destruct He. }
  assert (Hgold : forall i, i < c -> get (h ++ [x]) i = get h i) by (intros; apply get_app_old; assumption).
  unfold add_child. destruct (get (h ++ [x]) par) as [[ch m|dt k i0 m|t0 m]|] eqn:Ep.
  2,3,4: (apply (links_ok_sub h); [|exact Hok]; intros d n i t1 m1 He Hg; destruct (Hold d n i He) as (He0 & Hi);
          split; [exact He0|]; rewrite Hgold in Hg by exact Hi; eauto).
  apply (links_ok_transfer h _ par name c); [|exact Hok].
  intros d n i t m1 He Hg. unfold dedge in He. rewrite children_upd in He. rewrite get_upd in Hg.
  assert (Hlen : length (h ++ [x]) = S c) by (rewrite app_length; cbn [length]; unfold c; lia).
  destruct (Nat.eqb_spec i par) as [->|Hip].
  { destruct (Nat.ltb par (length (h ++ [x]))); discriminate Hg. }
  destruct (Nat.eqb_spec d par) as [->|Hdp].
  - assert (Hlt : Nat.ltb par (length (h ++ [x])) = true).
    { apply Nat.ltb_lt. apply (get_lt _ _ _ Ep). }
    rewrite Hlt in He. cbn [node_children] in He. apply In_aset in He as [(-> & ->)|Hin].
    + right. split; [reflexivity|]. split; [reflexivity|]. split; [reflexivity|].
      unfold c in Hg. rewrite get_app_new in Hg. injection Hg as ->. eapply Hxc; reflexivity.
    + assert (He' : dedge (h ++ [x]) par n i) by (unfold dedge, children; rewrite Ep; exact Hin).
      destruct (Hold _ _ _ He') as (He0 & Hi). left. split; [exact He0|]. split; [lia|].
      rewrite Hgold in Hg by exact Hi. eauto.
  - destruct (Hold _ _ _ He) as (He0 & Hi). left. split; [exact He0|]. split; [lia|].
    rewrite Hgold in Hg by exact Hi. eauto.
Qed.

(* ---- update of a node that keeps its entries, and its target if it is a link ---------------------------------------- *)
Lemma links_ok_upd (h : heap) (c : nat) (y0 y : node) :
  get h c = Some y0 -> node_children y = node_children y0 ->
  (forall t m, y = NSym t m -> exists m0, y0 = NSym t m0) ->
  links_ok h -> links_ok (upd h c y).
Proof.
  intros Hg0 Hch Hsym. apply links_ok_sub. intros d n i t m He Hg.
  pose proof (get_lt _ _ _ Hg0) as Hlt. apply Nat.ltb_lt in Hlt.
  unfold dedge in *. rewrite children_upd, Hlt in He. rewrite get_upd, Hlt in Hg.
  split.
  - destruct (Nat.eqb_spec d c) as [->|_]; [|exact He]. rewrite Hch in He. rewrite children_get, Hg0. exact He.
  - destruct (Nat.eqb_spec i c) as [->|_]; [|eauto]. injection Hg as ->. destruct (Hsym t m eq_refl) as (m0 & ->). eauto.
Qed.

(* ---- unlinking ------------------------------------------------------------------------------------------------------- *)
Lemma delete_node_get_sym (h : heap) (c i : nat) (t : str) (m : meta) :
  get (delete_node h c) i = Some (NSym t m) ->
  (i <> c /\ get h i = Some (NSym t m)) \/ (i = c /\ exists t0, get h c = Some (NSym t0 m)).
Proof.
  unfold delete_node. destruct (get h c) as [[ch m0|dt k id m0|l m0]|] eqn:E.
  - rewrite get_upd. destruct (Nat.eqb_spec i c) as [->|Hne]; [destruct (Nat.ltb c (length h)); discriminate|auto].
  - rewrite get_upd. destruct (Nat.eqb_spec i c) as [->|Hne]; [destruct (Nat.ltb c (length h)); discriminate|auto].
  - rewrite get_upd. destruct (Nat.eqb_spec i c) as [->|Hne]; [|auto].
    destruct (Nat.ltb c (length h)); [|discriminate]. intros [= <- <-]. right. eauto.
  - intros H. destruct (Nat.eq_dec i c) as [->|Hne]; [congruence|auto].
Qed.

Lemma remove_child_get_sym (h : heap) (par : nat) (name : str) (i : nat) (t : str) (m : meta) :
  get (remove_child h par name) i = Some (NSym t m) -> get h i = Some (NSym t m).
Proof.
  unfold remove_child. destruct (get h par) as [[ch m0| |]|] eqn:E; auto.
  rewrite get_upd. destruct (Nat.eqb_spec i par) as [->|Hne]; [destruct (Nat.ltb par (length h)); discriminate|auto].
Qed.

Lemma links_ok_remove_child (h : heap) (par : nat) (name : str) : links_ok h -> links_ok (remove_child h par name).
Proof.
  apply links_ok_sub. intros d n i t m He Hg. apply dedge_remove_child in He as (He & _).
  apply remove_child_get_sym in Hg. eauto.
Qed.

Lemma links_ok_unlink (h : heap) (par : nat) (name : str) (c : nat) :
  dedge h par name c -> links_ok h -> links_ok (delete_node (remove_child h par name) c).
Proof.
  intros Hedge Hok. apply (links_ok_sub h); [|exact Hok]. intros d n i t m He Hg.
  unfold dedge in He. rewrite delete_node_children in He.
  destruct (Nat.eqb d c); [destruct He|]. fold (dedge (remove_child h par name) d n i) in He.
  apply dedge_remove_child in He as (He & Hne).
  apply delete_node_get_sym in Hg as [(Hic & Hg)|(-> & t0 & Hg)].
  - apply remove_child_get_sym in Hg. eauto.
  - (* the blanked link: no edge to it is left *)
    apply remove_child_get_sym in Hg. exfalso. destruct Hok as (_ & Hss).
    destruct (Hss c t0 m d n par name Hg He Hedge) as (-> & ->). apply Hne; reflexivity.
Qed.

Lemma links_ok_release (h : heap) (par : nat) (name : str) (c : nat) :
  dedge h par name c -> links_ok h -> links_ok (release (remove_child h par name) c).
Proof.
  intros Hedge Hok. unfold release.
  destruct (get (remove_child h par name) c) as [[ch m|dt k i m|t m]|]; try (apply links_ok_unlink; assumption).
  destruct (find_parent (remove_child h par name) 0 c); [apply links_ok_remove_child; exact Hok|apply links_ok_unlink; assumption].
Qed.

(* ---- a new name for a node that is not a link (Link of a file), or for a link that has lost its name (Rename) --------- *)
Lemma add_child_dedge (h : heap) (np : nat) (name : str) (oc : nat) (d : nat) (n : str) (i : nat) :
  dedge (add_child h np name oc) d n i -> dedge h d n i \/ (d = np /\ n = name /\ i = oc).
Proof.
  unfold add_child, dedge. destruct (get h np) as [[ch m| |]|] eqn:E; auto.
  rewrite children_upd. destruct (Nat.eqb_spec d np) as [->|Hne]; [|auto].
  destruct (Nat.ltb np (length h)); [|intros []]. cbn [node_children]. intros Hin.
  apply In_aset in Hin as [(-> & ->)|Hin]; [auto|]. left. unfold children. rewrite E. exact Hin.
Qed.

Lemma add_child_get_sym (h : heap) (np : nat) (name : str) (oc i : nat) (t : str) (m : meta) :
  get (add_child h np name oc) i = Some (NSym t m) -> get h i = Some (NSym t m).
Proof.
  unfold add_child. destruct (get h np) as [[ch m0| |]|] eqn:E; auto.
  rewrite get_upd. destruct (Nat.eqb_spec i np) as [->|Hne]; [destruct (Nat.ltb np (length h)); discriminate|auto].
Qed.

Lemma links_ok_add_nonlink (h : heap) (np : nat) (name : str) (oc : nat) :
  (forall t m, get h oc <> Some (NSym t m)) -> links_ok h -> links_ok (add_child h np name oc).
Proof.
  intros Hns. apply links_ok_sub. intros d n i t m He Hg. apply add_child_get_sym in Hg.
  apply add_child_dedge in He as [He|(-> & -> & ->)]; [eauto|]. exfalso. exact (Hns t m Hg).
Qed.

(* moving the one name of a node: remove (op, oname), add (np, nname) *)
Lemma links_ok_move (h : heap) (op : nat) (oname : str) (np : nat) (nname : str) (oc : nat) :
  dedge h op oname oc -> links_ok h -> links_ok (add_child (remove_child h op oname) np nname oc).
Proof.
  intros Hedge Hok. apply (links_ok_transfer h _ np nname oc); [|exact Hok]. intros d n i t m He Hg.
  apply add_child_get_sym, remove_child_get_sym in Hg.
  apply add_child_dedge in He as [He|(-> & -> & ->)].
  - apply dedge_remove_child in He as (He & Hne). left. split; [exact He|]. split; [|eauto].
    intros ->. destruct Hok as (_ & Hss). destruct (Hss oc t m d n op oname Hg He Hedge) as (-> & ->). apply Hne; reflexivity.
  - right. split; [reflexivity|]. split; [reflexivity|]. split; [reflexivity|].
    destruct Hok as (Hlc & _). exact (Hlc op oname oc t m Hedge Hg).
Qed.
