(* The hypotheses of the walk bridge that are not part of C05's invariant - [links_clean] (named links have cleaned
   targets) and [sym_single] (a symbolic link has one name) - are kept by the heap transformations the specification's
   calls perform: per mutator first (allocation of a child, update of a node that keeps its kind and entries,
   unlinking, linking a file, moving an entry), then for the calls covered by the step theorem of C01; finally the
   history theorem of C01 on the states of C05, where [Inv] + [links_ok] replace every per-state premise. *)
From Avfs Require Import Base BaseProofs PathModel PathSpec PathProofs PathCleanProofs PathIterProofs.
From Avfs Require Import MemFS MemFile World Posix Inv InvMutators InvWorld InvCheck WalkBridge WalkSym WalkBudget WalkReadlink WalkRel StepEq WalkInv.

Definition links_ok (h : heap) : Prop := links_clean h /\ sym_single h.

(* ---- the transfer principle --------------------------------------------------------------------------------------- *)
(* every edge of [h'] to a link node is an old edge to the same link, except at most ONE new edge (d0, n0, c0) to a link
   node c0 that has no old edge left and a cleaned target *)
Lemma links_ok_transfer (h h' : heap) (d0 : nat) (n0 : str) (c0 : nat) :
  (forall d n i t m, dedge h' d n i -> get h' i = Some (NSym t m) ->
     (dedge h d n i /\ i <> c0 /\ exists m0, get h i = Some (NSym t m0))
     \/ (d = d0 /\ n = n0 /\ i = c0 /\ exists x, t = clean Linux x)) ->
  links_ok h -> links_ok h'.
Proof.
  intros T (Hlc & Hss). split.
  - intros d n i t m He Hg. destruct (T d n i t m He Hg) as [(He0 & _ & m0 & Hg0)|(_ & _ & _ & Hx)]; [|exact Hx].
    exact (Hlc d n i t m0 He0 Hg0).
  - intros c t m d1 n1 d2 n2 Hg H1 H2.
    destruct (T d1 n1 c t m H1 Hg) as [(E1 & N1 & m1 & G1)|(A1 & A2 & A3 & _)];
      destruct (T d2 n2 c t m H2 Hg) as [(E2 & N2 & m2 & G2)|(B1 & B2 & B3 & _)]; try congruence.
    + exact (Hss c t m1 d1 n1 d2 n2 G1 E1 E2).
    + subst. auto.
Qed.

Lemma links_ok_sub (h h' : heap) :
  (forall d n i t m, dedge h' d n i -> get h' i = Some (NSym t m) ->
     dedge h d n i /\ exists m0, get h i = Some (NSym t m0)) ->
  links_ok h -> links_ok h'.
Proof.
  intros T. apply (links_ok_transfer h h' 0 [] (length h + length h' + 1)).
  intros d n i t m He Hg. destruct (T d n i t m He Hg) as (He0 & m0 & Hg0). left. split; [exact He0|].
  split; [|eauto]. pose proof (get_lt _ _ _ Hg0). lia.
Qed.

(* ---- allocation of a child ------------------------------------------------------------------------------------------ *)
Lemma links_ok_alloc (h : heap) (par : nat) (name : str) (x : node) :
  ptr_valid h -> node_children x = [] -> (forall t m, x = NSym t m -> exists x0, t = clean Linux x0) ->
  links_ok h -> links_ok (add_child (h ++ [x]) par name (length h)).
Proof.
  intros Hpv Hx Hxc Hok. set (c := length h).
  assert (Hold : forall d n i, dedge (h ++ [x]) d n i -> dedge h d n i /\ i < c).
  { intros d n i He. unfold dedge in *. rewrite children_app in He.
    destruct (Nat.ltb_spec d (length h)); [split; [exact He|exact (Hpv d n i He)]|].
    destruct (Nat.eqb d (length h)); [rewrite Hx in He|]; destruct He. }
  assert (Hgold : forall i, i < c -> get (h ++ [x]) i = get h i) by (intros; apply get_app_old; assumption).
  unfold add_child. destruct (get (h ++ [x]) par) as [[ch m|dt k i0 m|t0 m]|] eqn:Ep.
  2,3,4: (apply (links_ok_sub h); [|exact Hok]; intros d n i t1 m1 He Hg; destruct (Hold d n i He) as (He0 & Hi);
          split; [exact He0|]; rewrite Hgold in Hg by exact Hi; eauto).
  apply (links_ok_transfer h _ par name c); [|exact Hok].
  intros d n i t m1 He Hg. unfold dedge in He. rewrite children_upd in He. rewrite get_upd in Hg.
  assert (Hlen : length (h ++ [x]) = S c) by (rewrite app_length; cbn [length]; unfold c; lia).
  destruct (Nat.eqb_spec i par) as [->|Hip].
  { destruct (Nat.ltb par (length (h ++ [x]))); discriminate Hg. }
  destruct (Nat.eqb_spec d par) as [->|Hdp].
  - assert (Hlt : Nat.ltb par (length (h ++ [x])) = true).
    { apply Nat.ltb_lt. apply (get_lt _ _ _ Ep). }
    rewrite Hlt in He. cbn [node_children] in He. apply In_aset in He as [(-> & ->)|Hin].
    + right. split; [reflexivity|]. split; [reflexivity|]. split; [reflexivity|].
      unfold c in Hg. rewrite get_app_new in Hg. injection Hg as ->. eapply Hxc; reflexivity.
    + assert (He' : dedge (h ++ [x]) par n i) by (unfold dedge, children; rewrite Ep; exact Hin).
      destruct (Hold _ _ _ He') as (He0 & Hi). left. split; [exact He0|]. split; [lia|].
      rewrite Hgold in Hg by exact Hi. eauto.
  - destruct (Hold _ _ _ He) as (He0 & Hi). left. split; [exact He0|]. split; [lia|].
    rewrite Hgold in Hg by exact Hi. eauto.
Qed.

(* ---- update of a node that keeps its entries, and its target if it is a link ---------------------------------------- *)
Lemma links_ok_upd (h : heap) (c : nat) (y0 y : node) :
  get h c = Some y0 -> node_children y = node_children y0 ->
  (forall t m, y = NSym t m -> exists m0, y0 = NSym t m0) ->
  links_ok h -> links_ok (upd h c y).
Proof.
  intros Hg0 Hch Hsym. apply links_ok_sub. intros d n i t m He Hg.
  pose proof (get_lt _ _ _ Hg0) as Hlt. apply Nat.ltb_lt in Hlt.
  unfold dedge in *. rewrite children_upd, Hlt in He. rewrite get_upd, Hlt in Hg.
  split.
  - destruct (Nat.eqb_spec d c) as [->|_]; [|exact He]. rewrite Hch in He. rewrite children_get, Hg0. exact He.
  - destruct (Nat.eqb_spec i c) as [->|_]; [|eauto]. injection Hg as ->. destruct (Hsym t m eq_refl) as (m0 & ->). eauto.
Qed.

(* ---- unlinking ------------------------------------------------------------------------------------------------------- *)
Lemma delete_node_get_sym (h : heap) (c i : nat) (t : str) (m : meta) :
  get (delete_node h c) i = Some (NSym t m) ->
  (i <> c /\ get h i = Some (NSym t m)) \/ (i = c /\ exists t0, get h c = Some (NSym t0 m)).
Proof.
  unfold delete_node. destruct (get h c) as [[ch m0|dt k id m0|l m0]|] eqn:E.
  - rewrite get_upd. destruct (Nat.eqb_spec i c) as [->|Hne]; [destruct (Nat.ltb c (length h)); discriminate|auto].
  - rewrite get_upd. destruct (Nat.eqb_spec i c) as [->|Hne]; [destruct (Nat.ltb c (length h)); discriminate|auto].
  - rewrite get_upd. destruct (Nat.eqb_spec i c) as [->|Hne]; [|auto].
    destruct (Nat.ltb c (length h)); [|discriminate]. intros [= <- <-]. right. eauto.
  - intros H. destruct (Nat.eq_dec i c) as [->|Hne]; [congruence|auto].
Qed.

Lemma remove_child_get_sym (h : heap) (par : nat) (name : str) (i : nat) (t : str) (m : meta) :
  get (remove_child h par name) i = Some (NSym t m) -> get h i = Some (NSym t m).
Proof.
  unfold remove_child. destruct (get h par) as [[ch m0| |]|] eqn:E; auto.
  rewrite get_upd. destruct (Nat.eqb_spec i par) as [->|Hne]; [destruct (Nat.ltb par (length h)); discriminate|auto].
Qed.

Lemma links_ok_remove_child (h : heap) (par : nat) (name : str) : links_ok h -> links_ok (remove_child h par name).
Proof.
  apply links_ok_sub. intros d n i t m He Hg. apply dedge_remove_child in He as (He & _).
  apply remove_child_get_sym in Hg. eauto.
Qed.

Lemma links_ok_unlink (h : heap) (par : nat) (name : str) (c : nat) :
  dedge h par name c -> links_ok h -> links_ok (delete_node (remove_child h par name) c).
Proof.
  intros Hedge Hok. apply (links_ok_sub h); [|exact Hok]. intros d n i t m He Hg.
  unfold dedge in He. rewrite delete_node_children in He.
  destruct (Nat.eqb d c); [destruct He|]. fold (dedge (remove_child h par name) d n i) in He.
  apply dedge_remove_child in He as (He & Hne).
  apply delete_node_get_sym in Hg as [(Hic & Hg)|(-> & t0 & Hg)].
  - apply remove_child_get_sym in Hg. eauto.
  - (* the blanked link: no edge to it is left *)
    apply remove_child_get_sym in Hg. exfalso. destruct Hok as (_ & Hss).
    destruct (Hss c t0 m d n par name Hg He Hedge) as (-> & ->). apply Hne; reflexivity.
Qed.

Lemma links_ok_release (h : heap) (par : nat) (name : str) (c : nat) :
  dedge h par name c -> links_ok h -> links_ok (release (remove_child h par name) c).
Proof.
  intros Hedge Hok. unfold release.
  destruct (get (remove_child h par name) c) as [[ch m|dt k i m|t m]|]; try (apply links_ok_unlink; assumption).
  destruct (find_parent (remove_child h par name) 0 c); [apply links_ok_remove_child; exact Hok|apply links_ok_unlink; assumption].
Qed.

(* ---- a new name for a node that is not a link (Link of a file), or for a link that has lost its name (Rename) --------- *)
Lemma add_child_dedge (h : heap) (np : nat) (name : str) (oc : nat) (d : nat) (n : str) (i : nat) :
  dedge (add_child h np name oc) d n i -> dedge h d n i \/ (d = np /\ n = name /\ i = oc).
Proof.
  unfold add_child, dedge. destruct (get h np) as [[ch m| |]|] eqn:E; auto.
  rewrite children_upd. destruct (Nat.eqb_spec d np) as [->|Hne]; [|auto].
  destruct (Nat.ltb np (length h)); [|intros []]. cbn [node_children]. intros Hin.
  apply In_aset in Hin as [(-> & ->)|Hin]; [auto|]. left. unfold children. rewrite E. exact Hin.
Qed.

Lemma add_child_get_sym (h : heap) (np : nat) (name : str) (oc i : nat) (t : str) (m : meta) :
  get (add_child h np name oc) i = Some (NSym t m) -> get h i = Some (NSym t m).
Proof.
  unfold add_child. destruct (get h np) as [[ch m0| |]|] eqn:E; auto.
  rewrite get_upd. destruct (Nat.eqb_spec i np) as [->|Hne]; [destruct (Nat.ltb np (length h)); discriminate|auto].
Qed.

Lemma links_ok_add_nonlink (h : heap) (np : nat) (name : str) (oc : nat) :
  (forall t m, get h oc <> Some (NSym t m)) -> links_ok h -> links_ok (add_child h np name oc).
Proof.
  intros Hns. apply links_ok_sub. intros d n i t m He Hg. apply add_child_get_sym in Hg.
  apply add_child_dedge in He as [He|(-> & -> & ->)]; [eauto|]. exfalso. exact (Hns t m Hg).
Qed.

(* moving the one name of a node: remove (op, oname), add (np, nname) *)
Lemma links_ok_move (h : heap) (op : nat) (oname : str) (np : nat) (nname : str) (oc : nat) :
  dedge h op oname oc -> links_ok h -> links_ok (add_child (remove_child h op oname) np nname oc).
Proof.
  intros Hedge Hok. apply (links_ok_transfer h _ np nname oc); [|exact Hok]. intros d n i t m He Hg.
  apply add_child_get_sym, remove_child_get_sym in Hg.
  apply add_child_dedge in He as [He|(-> & -> & ->)].
  - apply dedge_remove_child in He as (He & Hne). left. split; [exact He|]. split; [|eauto].
    intros ->. destruct Hok as (_ & Hss). destruct (Hss oc t m d n op oname Hg He Hedge) as (-> & ->). apply Hne; reflexivity.
  - right. split; [reflexivity|]. split; [reflexivity|]. split; [reflexivity|].
    destruct Hok as (Hlc & _). exact (Hlc op oname oc t m Hedge Hg).
Qed.

(* ---- the specification's calls ---------------------------------------------------------------------------------------- *)
Ltac crush :=
  repeat match goal with
         | |- context [match ?x with _ => _ end] => destruct x eqn:?
         end; cbn [fst snd f_heap with_heap]; try assumption.

Lemma set_meta_children (n : node) (m : meta) : node_children (set_meta n m) = node_children n.
Proof. destruct n; reflexivity. Qed.

Lemma set_meta_sym (n : node) (m : meta) (t : str) (m' : meta) : set_meta n m = NSym t m' -> exists m0, n = NSym t m0.
Proof. destruct n; cbn; intros E; inversion E; eauto. Qed.

Lemma dedge_remove_child_keep (h : heap) (par : nat) (name : str) (d : nat) (n : str) (i : nat) :
  dedge h d n i -> (d = par -> n <> name) -> dedge (remove_child h par name) d n i.
Proof.
  intros He Hne. unfold dedge, remove_child in *. destruct (get h par) as [[ch m| |]|] eqn:E; auto.
  rewrite children_upd. destruct (Nat.eqb_spec d par) as [->|]; [|exact He].
  pose proof (get_lt _ _ _ E) as Hlt. apply Nat.ltb_lt in Hlt. rewrite Hlt. cbn [node_children].
  apply In_aremove. split; [apply Hne; reflexivity|]. unfold children in He. rewrite E in He. exact He.
Qed.

Lemma dedge_release_keep (h : heap) (par : nat) (name : str) (c : nat) (d : nat) (n : str) (i : nat) :
  dedge h d n i -> d <> c -> (d = par -> n <> name) -> dedge (release (remove_child h par name) c) d n i.
Proof.
  intros He Hdc Hne. pose proof (dedge_remove_child_keep h par name d n i He Hne) as H1.
  assert (H2 : dedge (delete_node (remove_child h par name) c) d n i).
  { unfold dedge. rewrite delete_node_children. destruct (Nat.eqb_spec d c); [congruence|exact H1]. }
  unfold release. destruct (get (remove_child h par name) c) as [[? ?|? ? ? ?|? ?]|]; auto.
  destruct (find_parent (remove_child h par name) 0 c); auto.
Qed.

Section SpecCalls.
  Variables (s : fsys) (sv : sview).
  Notation h := (f_heap s).
  Hypothesis Hpv : ptr_valid h.
  Hypothesis Hok : links_ok h.

  Lemma links_ok_k_mkdir p perm : links_ok (f_heap (fst (k_mkdir s sv p perm))).
  Proof.
    unfold k_mkdir. crush. unfold alloc_child. cbn [fst f_heap].
    apply links_ok_alloc; auto. intros t0 m0 E0. inversion E0.
  Qed.

  Lemma links_ok_k_symlink t p : links_ok (f_heap (fst (k_symlink s sv (clean Linux t) p))).
  Proof.
    unfold k_symlink. crush. unfold alloc_child. cbn [fst f_heap].
    apply links_ok_alloc; auto. intros t1 m1 E1. inversion E1. subst. eauto.
  Qed.

  Lemma links_ok_k_chmod p mode : links_ok (f_heap (fst (k_chmod s sv p mode))).
  Proof.
    unfold k_chmod. crush.
    all: eapply links_ok_upd; [eassumption|apply set_meta_children|apply set_meta_sym|assumption].
  Qed.

  Lemma links_ok_k_chown follow p uid gid : links_ok (f_heap (fst (k_chown follow s sv p uid gid))).
  Proof.
    unfold k_chown. crush.
    all: eapply links_ok_upd; [eassumption|apply set_meta_children|apply set_meta_sym|assumption].
  Qed.

  Lemma links_ok_k_truncate p size : links_ok (f_heap (fst (k_truncate s sv p size))).
  Proof.
    unfold k_truncate. crush.
    all: eapply links_ok_upd; [eassumption|reflexivity|intros t0 m0 E0; inversion E0|assumption].
  Qed.

  Lemma links_ok_k_unlink p : links_ok (f_heap (fst (k_unlink s sv p))).
  Proof.
    unfold k_unlink. crush. apply links_ok_release; [|assumption]. apply alookup_in. assumption.
  Qed.

  Lemma links_ok_k_rmdir p : links_ok (f_heap (fst (k_rmdir s sv p))).
  Proof.
    unfold k_rmdir. crush. apply links_ok_unlink; [|assumption]. apply alookup_in. assumption.
  Qed.

  Lemma links_ok_go_remove p : links_ok (f_heap (fst (go_remove s sv p))).
  Proof.
    unfold go_remove. pose proof (links_ok_k_unlink p) as H1. pose proof (links_ok_k_rmdir p) as H2.
    destruct (k_unlink s sv p) as [s1 r1]. destruct (k_rmdir s sv p) as [s2 r2]. cbn [fst] in *.
    destruct r1; cbn [fst]; try assumption. destruct r2; cbn [fst]; assumption.
  Qed.

  Lemma add_child_get_file (np : nat) (name : str) (oc' oc : nat) d k i m :
    get h oc = Some (NFile d k i m) -> get (add_child h np name oc') oc = Some (NFile d k i m).
  Proof.
    intros Hg. unfold add_child. destruct (get h np) as [[ch m0| |]|] eqn:E; auto.
    rewrite get_upd. destruct (Nat.eqb_spec oc np) as [->|]; [congruence|exact Hg].
  Qed.

  Lemma links_ok_k_link phl o p :
    (forall par kind name n t m, klookup s sv false false o = WNode par kind name n -> get h n <> Some (NSym t m)) ->
    links_ok (f_heap (fst (k_link phl s sv o p))).
  Proof.
    intros Hns. unfold k_link. crush.
    all: pose proof (fun t0 m0 => Hns _ _ _ _ t0 m0 eq_refl) as Hns'.
    all: try (apply links_ok_add_nonlink; assumption).
    all: eapply links_ok_upd;
           [apply add_child_get_file; eassumption|reflexivity|intros t0 m0 E0; inversion E0
           |apply links_ok_add_nonlink; assumption].
  Qed.

  Lemma links_ok_k_open p flag perm : links_ok (f_heap (fst (k_open s sv p flag perm))).
  Proof.
    unfold k_open. destruct (decode_flags flag) as [acc creat excl trunc append]. cbv zeta beta. crush.
    all: try (unfold alloc_child in *; match goal with E : (_, _) = (_, _) |- _ => inversion E; subst; clear E end;
              cbn [f_heap]; apply links_ok_alloc; auto; intros t0 m0 E0; inversion E0).
    all: eapply links_ok_upd; [eassumption|reflexivity|intros t0 m0 E0; inversion E0|assumption].
  Qed.

  Lemma links_ok_go_write_file p data perm : links_ok (f_heap (fst (go_write_file s sv p data perm))).
  Proof.
    unfold go_write_file. pose proof (links_ok_k_open p (O_WRONLY + O_CREATE + O_TRUNC) perm) as H1.
    destruct (k_open s sv p (O_WRONLY + O_CREATE + O_TRUNC) perm) as [s1 [e|c]]; cbn [fst] in *; [assumption|].
    destruct (get (f_heap s1) c) as [[ch m|dt k i m|t m]|] eqn:Hg; cbn [fst f_heap with_heap]; try assumption.
    eapply links_ok_upd; [eassumption|reflexivity|intros t0 m0 E0; inversion E0|assumption].
  Qed.

  (* renameat2 *)
  Lemma is_ancestor_refl f root a : is_ancestor (S f) h root a a = true.
  Proof. cbn [is_ancestor]. rewrite Nat.eqb_refl. reflexivity. Qed.

  Lemma links_ok_k_rename o n : links_ok (f_heap (fst (k_rename s sv o n))).
  Proof.
    unfold k_rename. crush.
    - (* over an existing destination *)
      match goal with
      | Eo : alk ?oname (children h ?op) = Some ?oc, En : alk ?nname (children h ?np) = Some ?nc |- _ =>
          assert (Hne : nc <> oc) by (intros ->; rewrite Nat.eqb_refl in *; discriminate);
          assert (Hnop : nc <> op) by (intros ->; rewrite is_ancestor_refl in *; discriminate);
          pose proof (links_ok_release h np nname nc (alookup_in _ _ _ _ En) Hok) as H1;
          apply links_ok_move; [|exact H1]
      end.
      apply dedge_release_keep; [apply alookup_in; assumption|congruence|].
      intros -> ->. congruence.
    - match goal with
      | Eo : alk ?oname (children h ?op) = Some ?oc |- _ => apply links_ok_move; [apply alookup_in; exact Eo|assumption]
      end.
  Qed.

  Lemma links_ok_go_rename o n : links_ok (f_heap (fst (go_rename s sv o n))).
  Proof. unfold go_rename. crush. apply links_ok_k_rename. Qed.
End SpecCalls.

(* ---- one step of the specification on a covered call keeps [links_ok] and the view ------------------------------------- *)
Theorem links_ok_spec_step (vi : nat) (sw : sworld) (c : call) :
  covered vi sw c -> ptr_valid (f_heap (sw_fs sw)) -> links_ok (f_heap (sw_fs sw)) ->
  links_ok (f_heap (sw_fs (fst (spec_step true sw c)))) /\ sw_sv (fst (spec_step true sw c)) = sw_sv sw.
Proof.
  intros (_ & Hc) Hpv Hok. destruct c; try (destruct Hc; fail); cbn [covered] in Hc.
  - rewrite spec_mkdir. cbn [fst sw_fs sw_sv]. split; [apply links_ok_k_mkdir; assumption|reflexivity].
  - unfold spec_step. pose proof (links_ok_k_open (sw_fs sw) (sw_sv sw) Hpv Hok p flag perm) as H1.
    destruct (k_open (sw_fs sw) (sw_sv sw) p flag perm) as [s1 [e|c]]; cbn [fst sw_fs sw_sv] in *; split; auto.
  - rewrite spec_remove. cbn [fst sw_fs sw_sv]. split; [apply links_ok_go_remove; assumption|reflexivity].
  - rewrite spec_rename. cbn [fst sw_fs sw_sv]. split; [apply links_ok_go_rename; assumption|reflexivity].
  - rewrite spec_link. cbn [fst sw_fs sw_sv]. split; [|reflexivity].
    destruct Hc as (_ & co & ww & cl & -> & _ & _ & _ & Hns). apply links_ok_k_link; assumption.
  - rewrite spec_symlink. cbn [fst sw_fs sw_sv]. split; [|reflexivity].
    destruct Hc as (_ & -> & _). apply links_ok_k_symlink; assumption.
  - rewrite spec_readlink. cbn [fst]. split; [assumption|reflexivity].
  - rewrite spec_truncate. cbn [fst sw_fs sw_sv]. split; [apply links_ok_k_truncate; assumption|reflexivity].
  - rewrite spec_chmod. cbn [fst sw_fs sw_sv]. split; [apply links_ok_k_chmod; assumption|reflexivity].
  - rewrite spec_chown. cbn [fst sw_fs sw_sv]. split; [apply links_ok_k_chown; assumption|reflexivity].
  - rewrite spec_lchown. cbn [fst sw_fs sw_sv]. split; [apply links_ok_k_chown; assumption|reflexivity].
  - rewrite spec_chtimes. cbn [fst]. split; [assumption|reflexivity].
  - rewrite spec_stat. cbn [fst]. split; [assumption|reflexivity].
  - rewrite spec_lstat. cbn [fst]. split; [assumption|reflexivity].
  - rewrite spec_read_dir. cbn [fst]. split; [assumption|reflexivity].
  - rewrite spec_read_file. cbn [fst]. split; [assumption|reflexivity].
  - rewrite spec_write_file. cbn [fst sw_fs sw_sv]. split; [apply links_ok_go_write_file; assumption|reflexivity].
Qed.

(* ---- histories on the states of C05 ------------------------------------------------------------------------------------- *)
(* the per-call premises (the deviation classes, the fuel conditions) may use the hypotheses on the state, which the
   theorem below derives from [Inv] and [links_ok] *)
Definition call_ok (vi : nat) (sw : sworld) (c : call) : Prop :=
  step_hyps (sw_fs sw) (sw_sv sw) -> sym_single (f_heap (sw_fs sw)) -> ptr_valid (f_heap (sw_fs sw)) -> covered vi sw c.

Fixpoint call_ok_run (vi : nat) (sw : sworld) (cs : list call) : Prop :=
  match cs with
  | [] => True
  | c :: cs' => call_ok vi sw c /\ call_ok_run vi (fst (spec_step true sw c)) cs'
  end.

Lemma impl_step_fst (w : world) (c : call) : fst (impl_step_proj w c) = fst (wstep w c).
Proof. unfold impl_step_proj. destruct (wstep w c). reflexivity. Qed.

Theorem history_inv (vi : nat) : forall (cs : list call) (w : world) (sw : sworld),
  Inv w -> absw w vi sw -> us_admin (v_user (sv_view (sw_sv sw))) = true -> links_ok (f_heap (w_fs w)) ->
  call_ok_run vi sw cs ->
  Forall2 obs_sim (snd (impl_run w cs)) (snd (spec_run sw cs))
  /\ absw (fst (impl_run w cs)) vi (fst (spec_run sw cs))
  /\ Inv (fst (impl_run w cs)) /\ links_ok (f_heap (w_fs (fst (impl_run w cs)))).
Proof.
  induction cs as [|c cs IH]; intros w sw I Ha Hadm Hok Hrun.
  - cbn [impl_run spec_run fst snd]. split; [constructor|]. auto.
  - destruct Hrun as (Hc & Hrun). pose proof Ha as (Hfs & Hv).
    assert (Hpv : ptr_valid (f_heap (sw_fs sw))) by (rewrite Hfs; apply Inv_heap_ptr_valid; exact (@inv_heap _ I)).
    assert (Hok' : links_ok (f_heap (sw_fs sw))) by (rewrite Hfs; exact Hok).
    assert (Hsh : step_hyps (sw_fs sw) (sw_sv sw)).
    { rewrite Hfs. destruct (sw_sv sw) as [v cwdn] eqn:Esv. cbn [sv_view] in *.
      apply (Inv_step_hyps w vi v cwdn I Hv Hadm). rewrite <- Hfs. exact (proj1 Hok'). }
    pose proof (Hc Hsh (proj2 Hok') Hpv) as Hcov.
    destruct (step_world w vi sw c Ha Hcov) as (S1 & S2).
    destruct (links_ok_spec_step vi sw c Hcov Hpv Hok') as (L1 & L2).
    assert (I' : Inv (fst (impl_step_proj w c))) by (rewrite impl_step_fst; apply Inv_step; exact I).
    assert (Hok2 : links_ok (f_heap (w_fs (fst (impl_step_proj w c))))) by (rewrite <- (proj1 S2); exact L1).
    assert (Hadm2 : us_admin (v_user (sv_view (sw_sv (fst (spec_step true sw c))))) = true) by (rewrite L2; exact Hadm).
    destruct (IH _ _ I' S2 Hadm2 Hok2 Hrun) as (R1 & R2 & R3 & R4).
    cbn [impl_run spec_run fst snd]. split; [constructor; assumption|]. auto.
Qed.

Lemma covered_run_call_ok (vi : nat) : forall (cs : list call) (sw : sworld), covered_run vi sw cs -> call_ok_run vi sw cs.
Proof.
  induction cs as [|c cs IH]; intros sw H; [exact I|]. destruct H as (H1 & H2).
  split; [intros _ _ _; exact H1|apply IH; exact H2].
Qed.

(* ---- non-vacuity: the example tree satisfies Inv (decided by inv_check) and links_ok; the history of StepExamples ------ *)
Module StepInvExamples.
  Import WalkSymExamples WalkSymNonVacuity StepExamples.

  Example tree_inv : Inv w_tree.
  Proof. apply InvCheck.inv_check_sound. vm_compute. reflexivity. Qed.

  Lemma tree_edges3 d n c :
    dedge tree d n c ->
    In (d, n, c) [(0,s_d,1); (0,s_abs,6); (0,s_rel,7); (0,s_dot,8); (0,s_loop,9); (0,s_dang,10); (0,s_root,11);
                  (0,s_priv,12); (1,s_e,2); (1,s_up,4); (2,s_f,3); (2,s_top,5); (12,s_g,13)].
  Proof.
    unfold dedge, children, get.
    do 14 (destruct d as [|d]; [cbn; intros H; repeat (destruct H as [[= <- <-]|H]; [repeat (first [left; reflexivity | right])|]); destruct H|]).
    destruct d; cbn; intros [].
  Qed.

  Example tree_sym_single : sym_single tree.
  Proof.
    intros c t m d1 n1 d2 n2 _ H1 H2. apply tree_edges3 in H1, H2. cbn [In] in H1, H2.
    repeat (destruct H1 as [H1|H1]); try contradiction; injection H1 as <- <- <-;
      repeat (destruct H2 as [H2|H2]); try contradiction; inversion H2; subst; split; reflexivity.
  Qed.

  Example tree_links_ok : links_ok (f_heap (w_fs w_tree)).
  Proof. split; [exact tree_links_clean|exact tree_sym_single]. Qed.

  (* the history theorem applies to the history of StepExamples *)
  Example hist_inv :
    Forall2 obs_sim (snd (impl_run w_tree hist)) (snd (spec_run sw_tree hist))
    /\ absw (fst (impl_run w_tree hist)) 0 (fst (spec_run sw_tree hist))
    /\ Inv (fst (impl_run w_tree hist)) /\ links_ok (f_heap (w_fs (fst (impl_run w_tree hist)))).
  Proof.
    apply (history_inv 0 hist w_tree sw_tree tree_inv (proj1 hist_covered) eq_refl tree_links_ok).
    apply covered_run_call_ok. exact (proj2 hist_covered).
  Qed.
End StepInvExamples.
