(* The bridge between the two path walks (properties C01 / C04), part 1:

   - IMPLEMENTATION: [search_loop] of MemFS.v - a cursor over the path STRING;
   - SPECIFICATION : [kwalk] of Posix.v - the kernel's walk over a work list of
     components.

   This file: the search-permission test of the two sides is the same function;
   fuel monotonicity of both walks; one iteration of [search_loop] on a clean
   absolute path, on components; directory walks ([dwalk]: link-free, every
   directory entered is searchable) and the "re-walk" lemmas of both sides;
   the result relation [walk_rel]; and the SYMLINK-FREE bridge theorem
   [bridge_nolink] (no heap invariant is needed for it: both sides use the same
   [alookup] on the same children lists).

   WalkSym.v extends the bridge to symbolic links. *)
From Avfs Require Import Base PathModel PathSpec PathProofs PathCleanProofs PathIterProofs.
From Avfs Require Import MemFS MemFile World Posix.
(* no implicit arguments for the lemmas of this file: every argument is written or is an underscore *)

(* ---- the search-permission test is the same on both sides ---------------------- *)
Lemma land_1_testbit (x : N) : N.land x 1 = N.b2n (N.testbit x 0).
Proof. change 1%N with (N.ones 1). rewrite N.land_ones, N.bit0_mod. reflexivity. Qed.

Lemma eqb_land_1 (x : N) : N.eqb (N.land x 1) 1 = N.testbit x 0.
Proof. rewrite land_1_testbit. destruct (N.testbit x 0); reflexivity. Qed.

Lemma bit_sel (m : N) (k : N) :
  (k = 0 \/ k = 3 \/ k = 6)%N ->
  N.testbit (N.shiftr (N.land m 65535) k) 0 = N.testbit (N.land (N.shiftr (N.land m 511) k) 7) 0.
Proof.
  intros Hk. rewrite N.land_spec, !N.shiftr_spec, !N.land_spec by apply N.le_0_l.
  destruct Hk as [Hk|[Hk|Hk]]; subst k; cbn [N.add]; rewrite !andb_true_r; reflexivity.
Qed.

Lemma bit_sel0 (m : N) : N.testbit (N.land m 65535) 0 = N.testbit (N.land (N.land m 511) 7) 0.
Proof. rewrite !N.land_spec. cbn. rewrite !andb_true_r. reflexivity. Qed.

Theorem perm_lookup_agree (m : meta) (u : user) :
  check_permission m OpenLookup u = us_admin u || kperm_bits m u 1.
Proof.
  unfold check_permission, kperm_bits, mode_perm. destruct (us_admin u); [reflexivity|]. cbn [orb].
  change (N.land OpenLookup 7) with 1%N. rewrite !eqb_land_1.
  destruct (Z.eqb (m_uid m) (us_uid u)); [apply bit_sel; auto|].
  destruct (Z.eqb (m_gid m) (us_gid u)); [apply bit_sel; auto|].
  apply bit_sel0.
Qed.

Lemma kperm_dir (h : heap) (c : nat) (ch : list (str * nat)) (m : meta) (u : user) :
  get h c = Some (NDir ch m) -> kperm h c 1 u = check_permission m OpenLookup u.
Proof. intros H. unfold kperm. rewrite H. cbn [node_meta]. symmetry. apply perm_lookup_agree. Qed.

Lemma kperm_admin (h : heap) (c : nat) (n : node) (mask : N) (u : user) :
  us_admin u = true -> get h c = Some n -> kperm h c mask u = true.
Proof. intros Ha H. unfold kperm. rewrite H, Ha. reflexivity. Qed.

(* ---- unfolding one level ------------------------------------------------------- *)
Lemma kwalk_S f h u root pm follow cur work cnt mustdir :
  kwalk (S f) h u root pm follow cur work cnt mustdir =
  match work with
  | [] => if pm then WParent cur LRoot [] mustdir else WNode cur LRoot [] cur
  | c :: rest =>
      if negb (node_is_dir h cur) then WErr ENOTDIR
      else if negb (kperm h cur 1 u) then WErr EACCES
      else
        let lastc := is_nil rest in
        let kind := if str_eqb c DOTS then LDot else if str_eqb c DOTDOTS then LDotDot else LNorm in
        if pm && lastc then WParent cur kind c mustdir
        else match kind with
             | LDot => if lastc then WNode cur LDot c cur else kwalk f h u root pm follow cur rest cnt mustdir
             | LDotDot =>
                 let p := parent_of h root cur in
                 if lastc then WNode p LDotDot c p else kwalk f h u root pm follow p rest cnt mustdir
             | _ =>
                 match alookup str_eqb c (children h cur) with
                 | None => if lastc then WNeg cur c mustdir else WErr ENOENT
                 | Some n =>
                     match get h n with
                     | Some (NSym t _) =>
                         if negb lastc || follow || mustdir then
                           if Nat.leb MAXSYMLINKS cnt then WErr ELOOP
                           else if is_nil t then WErr ENOENT
                           else
                             let cur' := if kabs t then root else cur in
                             let md := mustdir || (lastc && ktrailing t) in
                             kwalk f h u root pm follow cur' (kcomps t ++ rest) (S cnt) md
                         else WNode cur LNorm c n
                     | Some (NDir _ _) =>
                         if lastc then WNode cur LNorm c n else kwalk f h u root pm follow n rest cnt mustdir
                     | Some (NFile _ _ _ _) =>
                         if lastc then (if mustdir then WErr ENOTDIR else WNode cur LNorm c n) else WErr ENOTDIR
                     | None => WErr EFUEL
                     end
                 end
             end
  end.
Proof. reflexivity. Qed.

(* the test made before a name is looked up IN the view's root directory (the kernel's may_lookup there) *)
Definition root_check (h : heap) (v : view) (vol parent : nat) : bool :=
  Nat.eqb parent vol && negb (match get h parent with
                              | Some n => check_permission (node_meta n) OpenLookup (v_user v)
                              | None => false end).

Lemma root_check_kperm (h : heap) (v : view) (vol parent : nat) :
  root_check h v vol parent = Nat.eqb parent vol && negb (kperm h parent 1 (v_user v)).
Proof.
  unfold root_check, kperm. destruct (get h parent); [|reflexivity]. rewrite perm_lookup_agree. reflexivity.
Qed.

Lemma root_check_pass (h : heap) (v : view) (vol parent : nat) :
  kperm h parent 1 (v_user v) = true -> root_check h v vol parent = false.
Proof. intros H. rewrite root_check_kperm, H. apply andb_false_r. Qed.

Lemma search_loop_S f h v slm vol parent pi slcount saved :
  search_loop (S f) h v slm vol parent pi slcount saved =
  let '(ok, pi1) := pi_next (v_os v) pi in
  if negb ok then
    {| sr_parent := Some parent; sr_child := Some parent; sr_pi := out_pi pi1 saved; sr_err := EFileExists |}
  else
    let name := pi_part pi1 in
    let last := pi_is_last pi1 in
    if root_check h v vol parent
    then {| sr_parent := Some parent; sr_child := None; sr_pi := out_pi pi1 saved; sr_err := EPermDenied |}
    else
    match alookup str_eqb name (children h parent) with
    | None =>
        {| sr_parent := Some parent; sr_child := None; sr_pi := out_pi pi1 saved;
           sr_err := if last then ENoSuchFile else ENoSuchDir |}
    | Some c =>
        let ret e := {| sr_parent := Some parent; sr_child := Some c; sr_pi := out_pi pi1 saved; sr_err := e |} in
        match get h c with
        | None => ret EFuel
        | Some (NDir _ m) =>
            if last then ret EFileExists
            else if check_permission m OpenLookup (v_user v)
                 then search_loop f h v slm vol c pi1 slcount saved
                 else ret EPermDenied
        | Some (NFile _ _ _ _) =>
            if last then ret EFileExists else ret (match v_os v with Windows => ENoSuchDir | Linux => ENotADirectory end)
        | Some (NSym link _) =>
            let slcount' := S slcount in
            if last && slmode_eqb slm SlLstat then ret EFileExists
            else if Nat.ltb slCountMax slcount' then ret ETooManySymlinks
            else
              let saved' := match saved with
                            | None => if last && slmode_eqb slm SlStat then Some pi1 else None
                            | Some _ => saved
                            end in
              let '(reset, pi2) := pi_replace_part (v_os v) pi1 link in
              search_loop f h v slm vol (if reset then vol else parent) pi2 slcount' saved'
        end
    end.
Proof. reflexivity. Qed.

(* ---- fuel monotonicity --------------------------------------------------------- *)
Lemma kwalk_mono_S : forall f h u root pm follow cur work cnt md r,
  kwalk f h u root pm follow cur work cnt md = r -> r <> WErr EFUEL ->
  kwalk (S f) h u root pm follow cur work cnt md = r.
Proof.
  induction f as [|f IH]; intros h u root pm follow cur work cnt md r Hr Hne.
  - cbn [kwalk] in Hr. congruence.
  - rewrite kwalk_S in Hr. rewrite kwalk_S. cbv zeta in *.
    repeat match goal with
           | |- _ = _ => first [ exact Hr | apply IH; assumption ]
           | H : context [match ?x with _ => _ end] |- _ => destruct x eqn:?
           end.
Qed.

Lemma kwalk_mono : forall k f h u root pm follow cur work cnt md r,
  kwalk f h u root pm follow cur work cnt md = r -> r <> WErr EFUEL ->
  kwalk (k + f) h u root pm follow cur work cnt md = r.
Proof.
  induction k as [|k IH]; intros; [assumption|]. cbn [plus]. apply kwalk_mono_S; [|assumption]. apply IH; assumption.
Qed.

Lemma search_loop_mono_S : forall f h v slm vol parent pi slcount saved r,
  search_loop f h v slm vol parent pi slcount saved = r -> sr_err r <> EFuel ->
  search_loop (S f) h v slm vol parent pi slcount saved = r.
Proof.
  induction f as [|f IH]; intros h v slm vol parent pi slcount saved r Hr Hne.
  - cbn [search_loop] in Hr. subst r. cbn [sr_err] in Hne. congruence.
  - rewrite search_loop_S in Hr. rewrite search_loop_S.
    destruct (pi_next (v_os v) pi) as [ok pi1]. cbv zeta in *.
    destruct (negb ok); [exact Hr|]. destruct (root_check h v vol parent); [exact Hr|].
    destruct (alookup str_eqb (pi_part pi1) (children h parent)) as [c|]; [|exact Hr].
    destruct (get h c) as [[ch m|d k i m|link m]|]; try exact Hr.
    + destruct (pi_is_last pi1); [exact Hr|].
      destruct (check_permission m OpenLookup (v_user v)); [|exact Hr]. apply IH; assumption.
    + destruct (pi_is_last pi1 && slmode_eqb slm SlLstat); [exact Hr|].
      destruct (Nat.ltb slCountMax (S slcount)); [exact Hr|].
      destruct (pi_replace_part (v_os v) pi1 link) as [reset pi2]. apply IH; assumption.
Qed.

Lemma search_loop_mono : forall k f h v slm vol parent pi slcount saved r,
  search_loop f h v slm vol parent pi slcount saved = r -> sr_err r <> EFuel ->
  search_loop (k + f) h v slm vol parent pi slcount saved = r.
Proof.
  induction k as [|k IH]; intros; [assumption|]. cbn [plus]. apply search_loop_mono_S; [|assumption].
  apply IH; assumption.
Qed.

(* ---- one iteration of the implementation walk, on components --------------------- *)
Section Iter.
  Variables (h : heap) (v : view).
  Hypothesis Hos : v_os v = Linux.

  Lemma search_loop_on (f : nat) slm vol parent pi slcount saved (done todo : list str) (c : str) :
    Forall comp_ok (done ++ c :: todo) -> before (done ++ c :: todo) done pi ->
    search_loop (S f) h v slm vol parent pi slcount saved =
      let pi1 := on_comp (done ++ c :: todo) done c in
      let last := is_nil todo in
      if root_check h v vol parent
      then {| sr_parent := Some parent; sr_child := None; sr_pi := out_pi pi1 saved; sr_err := EPermDenied |}
      else
      match alookup str_eqb c (children h parent) with
      | None =>
          {| sr_parent := Some parent; sr_child := None; sr_pi := out_pi pi1 saved;
             sr_err := if last then ENoSuchFile else ENoSuchDir |}
      | Some n =>
          let ret e := {| sr_parent := Some parent; sr_child := Some n; sr_pi := out_pi pi1 saved; sr_err := e |} in
          match get h n with
          | None => ret EFuel
          | Some (NDir _ m) =>
              if last then ret EFileExists
              else if check_permission m OpenLookup (v_user v)
                   then search_loop f h v slm vol n pi1 slcount saved
                   else ret EPermDenied
          | Some (NFile _ _ _ _) => if last then ret EFileExists else ret ENotADirectory
          | Some (NSym link _) =>
              let slcount' := S slcount in
              if last && slmode_eqb slm SlLstat then ret EFileExists
              else if Nat.ltb slCountMax slcount' then ret ETooManySymlinks
              else
                let saved' := match saved with
                              | None => if last && slmode_eqb slm SlStat then Some pi1 else None
                              | Some _ => saved
                              end in
                let '(reset, pi2) := pi_replace_part Linux pi1 link in
                search_loop f h v slm vol (if reset then vol else parent) pi2 slcount' saved'
          end
      end.
  Proof.
    intros Hok Hb. rewrite search_loop_S, Hos, (@pi_next_step _ _ _ _ Hok eq_refl Hb).
    cbv beta iota zeta. cbn [negb].
    destruct (on_comp_views done todo c) as (Vp & _ & _ & _ & _ & Vl). cbv zeta in Vp, Vl.
    rewrite Vp, Vl. unfold is_nil. reflexivity.
  Qed.

  Lemma search_loop_end (f : nat) slm vol parent pi slcount saved (cs : list str) :
    Forall comp_ok cs -> before cs cs pi ->
    search_loop (S f) h v slm vol parent pi slcount saved =
      {| sr_parent := Some parent; sr_child := Some parent; sr_pi := out_pi (past_end cs cs) saved;
         sr_err := EFileExists |}.
  Proof.
    intros Hok Hb. rewrite search_loop_S, Hos.
    rewrite (@pi_next_step cs cs [] pi Hok (eq_sym (app_nil_r cs)) Hb). reflexivity.
  Qed.
End Iter.

(* ---- directory walks: link-free, every directory entered is searchable ------------- *)
Fixpoint dwalk (h : heap) (u : user) (d : nat) (ns : list str) : option nat :=
  match ns with
  | [] => Some d
  | n :: ns' =>
      match alookup str_eqb n (children h d) with
      | Some c => if node_is_dir h c && kperm h c 1 u then dwalk h u c ns' else None
      | None => None
      end
  end.

Lemma dwalk_app h u : forall a b d,
  dwalk h u d (a ++ b) = match dwalk h u d a with Some m => dwalk h u m b | None => None end.
Proof.
  induction a as [|n a IH]; intros b d; [reflexivity|]. cbn [app dwalk].
  destruct (alookup str_eqb n (children h d)) as [c|]; [|reflexivity].
  destruct (node_is_dir h c && kperm h c 1 u); [apply IH|reflexivity].
Qed.

Lemma dwalk_cons_inv h u d n ns e :
  dwalk h u d (n :: ns) = Some e ->
  exists c, alookup str_eqb n (children h d) = Some c /\ node_is_dir h c = true /\ kperm h c 1 u = true
            /\ dwalk h u c ns = Some e.
Proof.
  cbn [dwalk]. destruct (alookup str_eqb n (children h d)) as [c|]; [|discriminate].
  destruct (node_is_dir h c && kperm h c 1 u) eqn:E; [|discriminate].
  apply andb_true_iff in E as (E1 & E2). intros H. exists c. auto.
Qed.

Lemma dwalk_snoc_inv h u d ns n e :
  dwalk h u d (ns ++ [n]) = Some e ->
  exists m, dwalk h u d ns = Some m /\ alookup str_eqb n (children h m) = Some e
            /\ node_is_dir h e = true /\ kperm h e 1 u = true.
Proof.
  rewrite dwalk_app. destruct (dwalk h u d ns) as [m|]; [|discriminate]. intros H.
  apply dwalk_cons_inv in H as (c & H1 & H2 & H3 & H4). cbn [dwalk] in H4. injection H4 as <-. eauto.
Qed.

Lemma dwalk_snoc h u d ns n m e :
  dwalk h u d ns = Some m -> alookup str_eqb n (children h m) = Some e ->
  node_is_dir h e = true -> kperm h e 1 u = true -> dwalk h u d (ns ++ [n]) = Some e.
Proof. intros H1 H2 H3 H4. rewrite dwalk_app, H1. cbn [dwalk]. rewrite H2, H3, H4. reflexivity. Qed.

(* the end of a directory walk is a searchable directory when its start is *)
Lemma dwalk_end_dir h u : forall ns d e,
  dwalk h u d ns = Some e -> node_is_dir h d = true -> kperm h d 1 u = true ->
  node_is_dir h e = true /\ kperm h e 1 u = true.
Proof.
  induction ns as [|n ns IH]; intros d e H Hd Hp.
  - injection H as <-. auto.
  - apply dwalk_cons_inv in H as (c & _ & H2 & H3 & H4). eapply IH; eauto.
Qed.

Lemma node_is_dir_get (h : heap) (c : nat) :
  node_is_dir h c = true -> exists ch m, get h c = Some (NDir ch m).
Proof. unfold node_is_dir. destruct (get h c) as [[ch m| |]|]; try discriminate. eauto. Qed.

Lemma node_is_dir_valid (h : heap) (c : nat) : node_is_dir h c = true -> get h c <> None.
Proof. unfold node_is_dir. destruct (get h c); [discriminate|discriminate]. Qed.

Lemma good_comp_kind (c : str) : good_comp c -> str_eqb c DOTS = false /\ str_eqb c DOTDOTS = false.
Proof. intros (_ & _ & H3 & H4). split; apply str_eqb_neq; assumption. Qed.

Lemma app_ne_r (A : Type) (a b : list A) : b <> [] -> a ++ b <> [].
Proof. destruct a; [auto|discriminate]. Qed.

Lemma is_nil_false (A : Type) (l : list A) : l <> [] -> is_nil l = false.
Proof. destruct l; [congruence|reflexivity]. Qed.

(* ---- re-walking a directory walk -------------------------------------------------- *)
Section Rewalk.
  Variables (h : heap) (v : view).
  Hypothesis Hos : v_os v = Linux.
  Notation u := (v_user v).

  (* implementation: [length x] iterations lead from [d0] to the end of [x], more to come *)
  Lemma search_rewalk : forall (x : list str) (d0 d : nat) (pre y cs : list str) f slm vol pi slcount saved,
    y <> [] -> cs = pre ++ x ++ y -> Forall comp_ok cs -> before cs pre pi ->
    dwalk h u d0 x = Some d -> kperm h d0 1 u = true ->
    exists pi', before cs (pre ++ x) pi' /\
      search_loop (length x + f) h v slm vol d0 pi slcount saved = search_loop f h v slm vol d pi' slcount saved.
  Proof.
    induction x as [|n x IH]; intros d0 d pre y cs f slm vol pi slcount saved Hy Hcs Hok Hb Hw Hp0.
    - injection Hw as <-. exists pi. rewrite app_nil_r. split; [exact Hb|reflexivity].
    - apply dwalk_cons_inv in Hw as (c & H1 & H2 & H3 & H4).
      destruct (node_is_dir_get _ _ H2) as (ch & m & Hg).
      cbn [length plus]. cbn [app] in Hcs. subst cs.
      rewrite (search_loop_on h v Hos (length x + f) slm vol d0 pi slcount saved pre (x ++ y) n Hok Hb). cbv zeta.
      rewrite (root_check_pass h v vol d0 Hp0), H1, Hg, (is_nil_false _ _ (app_ne_r _ x y Hy)), <- (kperm_dir _ _ _ _ u Hg), H3.
      destruct (IH c d (pre ++ [n]) y (pre ++ n :: x ++ y) f slm vol (on_comp (pre ++ n :: x ++ y) pre n) slcount saved)
        as (pi' & Hb' & E); auto.
      + rewrite <- app_assoc. reflexivity.
      + apply on_comp_before.
      + exists pi'. rewrite <- app_assoc in Hb'. split; [exact Hb'|exact E].
  Qed.

  (* implementation: the whole remaining path is a directory walk *)
  Lemma search_rewalk_full : forall (x : list str) (d0 d : nat) (pre cs : list str) f slm vol pi slcount saved,
    cs = pre ++ x -> Forall comp_ok cs -> before cs pre pi -> dwalk h u d0 x = Some d -> kperm h d0 1 u = true ->
    let r := search_loop (S (length x + f)) h v slm vol d0 pi slcount saved in
    sr_err r = EFileExists /\ sr_child r = Some d /\ (exists p, sr_parent r = Some p) /\
    (saved = None -> (x = [] -> pre = []) -> pi_is_last (sr_pi r) = true) /\
    (saved = None -> pi_path (sr_pi r) = abs_path cs).
  Proof.
    induction x as [|n x IH]; intros d0 d pre cs f slm vol pi slcount saved Hcs Hok Hb Hw Hp0.
    - injection Hw as <-. rewrite app_nil_r in Hcs. subst cs. cbn [length plus]. cbv zeta.
      rewrite (search_loop_end h v Hos f slm vol d0 pi slcount saved pre Hok Hb). cbn [sr_err sr_child sr_parent sr_pi].
      split; [reflexivity|]. split; [reflexivity|]. split; [eauto|].
      split; [intros -> Hpre; rewrite (Hpre eq_refl); reflexivity|intros ->; reflexivity].
    - apply dwalk_cons_inv in Hw as (c & H1 & H2 & H3 & H4).
      destruct (node_is_dir_get _ _ H2) as (ch & m & Hg). subst cs.
      cbn [length plus]. cbv zeta.
      rewrite (search_loop_on h v Hos (S (length x + f)) slm vol d0 pi slcount saved pre x n Hok Hb). cbv zeta.
      rewrite (root_check_pass h v vol d0 Hp0), H1, Hg. destruct x as [|n2 x].
      + cbn [is_nil]. injection H4 as <-. cbn [sr_err sr_child sr_parent sr_pi].
        split; [reflexivity|]. split; [reflexivity|]. split; [eauto|].
        split; [|intros ->; reflexivity]. intros -> _. cbn [out_pi].
        destruct (on_comp_views pre [] n) as (_ & _ & _ & _ & _ & Vl). exact Vl.
      + cbn [is_nil]. rewrite <- (kperm_dir _ _ _ _ u Hg), H3.
        destruct (IH c d (pre ++ [n]) (pre ++ n :: n2 :: x) f slm vol (on_comp (pre ++ n :: n2 :: x) pre n) slcount saved)
          as (I1 & I2 & I3 & I4 & I5); auto.
        * rewrite <- app_assoc. reflexivity.
        * apply on_comp_before.
        * split; [exact I1|]. split; [exact I2|]. split; [exact I3|].
          split; [intros Hs _; apply I4; [exact Hs|discriminate]|exact I5].
  Qed.

  (* specification: the same from the kernel's side *)
  Lemma kwalk_rewalk : forall (x : list str) (d0 d : nat) (y : list str) f root pm follow cnt md,
    y <> [] -> Forall good_comp x -> dwalk h u d0 x = Some d ->
    node_is_dir h d0 = true -> kperm h d0 1 u = true ->
    kwalk (length x + f) h u root pm follow d0 (x ++ y) cnt md = kwalk f h u root pm follow d y cnt md.
  Proof.
    induction x as [|n x IH]; intros d0 d y f root pm follow cnt md Hy Hg Hw Hd Hp.
    - injection Hw as <-. reflexivity.
    - apply dwalk_cons_inv in Hw as (c & H1 & H2 & H3 & H4).
      destruct (node_is_dir_get _ _ H2) as (ch & m & Hgc). inversion Hg as [|? ? Hn Hg']; subst.
      destruct (good_comp_kind _ Hn) as (K1 & K2).
      cbn [length plus app]. rewrite kwalk_S, Hd, Hp. cbn [negb]. cbv zeta.
      rewrite K1, K2, (is_nil_false _ _ (app_ne_r _ x y Hy)), andb_false_r, H1, Hgc. apply IH; auto.
  Qed.
End Rewalk.

(* ---- the relation between the results of the two walks ---------------------------- *)
(* [at_name root par name pi]: the cursor stands on the LAST component [name] of a path whose
   earlier components are a directory walk from the root to [par] (so the path is link-free) *)
Definition at_name (h : heap) (u : user) (root par : nat) (name : str) (pi : piter) : Prop :=
  exists done, Forall good_comp (done ++ [name]) /\ dwalk h u root done = Some par
               /\ pi = on_comp (done ++ [name]) done name.

Lemma at_name_views h u root par name pi :
  at_name h u root par name pi ->
  pi_part pi = name /\ pi_is_last pi = true /\
  exists done, pi_path pi = abs_path (done ++ [name]) /\ dwalk h u root done = Some par
               /\ Forall good_comp (done ++ [name]).
Proof.
  intros (done & Hg & Hw & ->). destruct (on_comp_views done [] name) as (Vp & _ & _ & _ & _ & Vl).
  cbv zeta in Vp, Vl. repeat split; auto. exists done. auto.
Qed.

Definition walk_err_rel (e : ekind) (k : N) : Prop :=
  (e = EFuel /\ k = EFUEL) \/
  ((e = ENoSuchDir \/ e = ENotADirectory \/ e = EPermDenied \/ e = ETooManySymlinks) /\ k = snd (ecode Linux e)).

(* [precise]: the walk was made in a mode other than SlStat (in SlStat mode the cursor handed back is the
   one saved at the first final link, for the sake of the name Stat reports) *)
Definition walk_rel (h : heap) (u : user) (root : nat) (precise : bool) (r : sres) (k : wres) : Prop :=
  match k with
  | WNode par kind name n =>
      sr_err r = EFileExists /\ sr_child r = Some n /\ get h n <> None /\ (exists p, sr_parent r = Some p) /\
      (precise = true -> pi_is_last (sr_pi r) = true) /\
      (kind = LNorm -> sr_parent r = Some par /\ (precise = true -> at_name h u root par name (sr_pi r)))
  | WNeg par name _ =>
      sr_err r = ENoSuchFile /\ sr_child r = None /\ sr_parent r = Some par /\
      (precise = true -> at_name h u root par name (sr_pi r))
  | WErr e =>
      walk_err_rel (sr_err r) e /\ (precise = true -> sr_err r = ENoSuchDir -> pi_is_last (sr_pi r) = false)
  | WParent _ _ _ _ => False
  end.


Definition walk_relx (h : heap) (u : user) (root : nat) (precise : bool) (r : sres) (k : wres) : Prop :=
  match k with
  | WNode par kind name n =>
      sr_err r = EFileExists /\ sr_child r = Some n /\ get h n <> None /\ (exists p, sr_parent r = Some p) /\
      (precise = true -> pi_is_last (sr_pi r) = true) /\
      (kind = LNorm -> sr_parent r = Some par /\ (precise = true -> at_name h u root par name (sr_pi r))) /\
      (* otherwise the walk ended on a directory (".", "..", "/" last): the cursor's path is a directory walk to it *)
      (precise = true -> kind <> LNorm ->
       exists wp, Forall good_comp wp /\ dwalk h u root wp = Some n /\ pi_path (sr_pi r) = abs_path wp)
  | WNeg par name _ =>
      sr_err r = ENoSuchFile /\ sr_child r = None /\ sr_parent r = Some par /\
      (precise = true -> at_name h u root par name (sr_pi r))
  | WErr e =>
      walk_err_rel (sr_err r) e /\ (precise = true -> sr_err r = ENoSuchDir -> pi_is_last (sr_pi r) = false)
  | WParent _ _ _ _ => False
  end.


(* [walk_relx]: [walk_rel] plus, when the walk ended on a directory through ".", ".." or "/", the path of the cursor *)
Lemma walk_relx_rel (h : heap) (u : user) (root : nat) (precise : bool) (r : sres) (k : wres) :
  walk_relx h u root precise r k -> walk_rel h u root precise r k.
Proof.
  destruct k as [par kind name n|par name md|a b c d|e]; cbn [walk_relx walk_rel]; auto.
  intros (H1 & H2 & H3 & H4 & H5 & H6 & _). auto 10.
Qed.

Definition precise_of (slm : slmode) : bool := negb (slmode_eqb slm SlStat).

(* ---- the symlink-free bridge ------------------------------------------------------- *)
(* no symbolic link is met when [cs] is looked up from [d] *)
Fixpoint link_free (h : heap) (d : nat) (cs : list str) : bool :=
  match cs with
  | [] => true
  | c :: rest =>
      match alookup str_eqb c (children h d) with
      | None => true
      | Some n => match get h n with
                  | Some (NSym _ _) => false
                  | Some (NDir _ _) => link_free h n rest
                  | _ => true
                  end
      end
  end.

Section Bridge.
  Variables (h : heap) (v : view).
  Hypothesis Hos : v_os v = Linux.
  Notation u := (v_user v).
  Notation root := (v_root v).

  Lemma on_comp_last_false (done todo : list str) (c : str) :
    todo <> [] -> pi_is_last (on_comp (done ++ c :: todo) done c) = false.
  Proof.
    intros Hne. destruct (on_comp_views done todo c) as (_ & _ & _ & _ & _ & Vl). cbv zeta in Vl.
    rewrite Vl. destruct todo; [congruence|reflexivity].
  Qed.

  Lemma bridge_nolink_at : forall (todo done : list str) (parent : nat) pi fi fk slm vol follow slcount cnt saved kroot,
    todo <> [] -> Forall good_comp (done ++ todo) -> before (done ++ todo) done pi ->
    link_free h parent todo = true ->
    dwalk h u root done = Some parent -> node_is_dir h parent = true -> kperm h parent 1 u = true ->
    length todo <= fi -> length todo <= fk -> (precise_of slm = true -> saved = None) ->
    walk_relx h u root (precise_of slm)
      (search_loop fi h v slm vol parent pi slcount saved)
      (kwalk fk h u kroot false follow parent todo cnt false).
  Proof.
    induction todo as [|c todo IH];
      intros done parent pi fi fk slm vol follow slcount cnt saved kroot Hne Hg Hb Hlf Hw Hd Hp Hfi Hfk Hsv;
      [congruence|].
    destruct fi as [|fi]; [cbn [length] in Hfi; lia|]. destruct fk as [|fk]; [cbn [length] in Hfk; lia|].
    cbn [length] in Hfi, Hfk.
    assert (Hok : Forall comp_ok (done ++ c :: todo)) by (apply Forall_comp_ok_of; exact Hg).
    assert (Hc : good_comp c) by (apply Forall_app in Hg as (_ & Hg); inversion Hg; assumption).
    destruct (good_comp_kind _ Hc) as (K1 & K2).
    rewrite (search_loop_on h v Hos fi slm vol parent pi slcount saved done todo c Hok Hb).
    rewrite (root_check_pass h v vol parent Hp).
    rewrite kwalk_S, Hd, Hp. cbn [negb andb]. cbv zeta. rewrite K1, K2.
    cbn [link_free] in Hlf.
    assert (Hat : precise_of slm = true ->
                  todo = [] -> at_name h u root parent c (out_pi (on_comp (done ++ [c]) done c) saved)).
    { intros Hpr _. rewrite (Hsv Hpr). cbn [out_pi]. exists done. rewrite Forall_app in Hg.
      split; [|auto]. apply Forall_app. destruct Hg as (G1 & G2). split; [exact G1|]. constructor; [exact Hc|constructor]. }
    assert (Hlast : precise_of slm = true ->
                    todo = [] -> pi_is_last (out_pi (on_comp (done ++ [c]) done c) saved) = true).
    { intros Hpr _. rewrite (Hsv Hpr). cbn [out_pi]. destruct (on_comp_views done [] c) as (_ & _ & _ & _ & _ & Vl). exact Vl. }
    destruct (alookup str_eqb c (children h parent)) as [n|] eqn:Hl.
    2:{ destruct todo as [|c2 todo]; cbn [is_nil].
        - cbn. repeat split; auto.
        - cbn. split.
          + right. split; [auto|reflexivity].
          + intros Hpr _. rewrite (Hsv Hpr). cbn [out_pi]. apply on_comp_last_false. discriminate. }
    destruct (get h n) as [[ch m|dt k i m|link m]|] eqn:Hgn; [| |discriminate|].
    - destruct todo as [|c2 todo]; cbn [is_nil].
      + cbn. repeat split; eauto; try (unfold get in *; congruence); intros _ Hk; exfalso; apply Hk; reflexivity.
      + assert (Hpn : kperm h n 1 u = check_permission m OpenLookup u) by (apply (kperm_dir _ _ _ _ u Hgn)).
        destruct (check_permission m OpenLookup u) eqn:Hcp.
        * apply (IH (done ++ [c]) n); auto; try lia; try discriminate.
          -- rewrite <- app_assoc. exact Hg.
          -- rewrite <- app_assoc. apply on_comp_before.
          -- apply (dwalk_snoc _ _ _ _ _ _ _ Hw Hl); [unfold node_is_dir; rewrite Hgn; reflexivity|exact Hpn].
          -- unfold node_is_dir. rewrite Hgn. reflexivity.
        * destruct fk as [|fk]; [cbn [length] in Hfk; lia|].
          rewrite kwalk_S. unfold node_is_dir at 1. rewrite Hgn, Hpn. cbn [negb]. cbn.
          split; [|intros _ [=]]. right. split; [auto|reflexivity].
    - destruct todo as [|c2 todo]; cbn [is_nil].
      + cbn. repeat split; eauto; try (unfold get in *; congruence); intros _ Hk; exfalso; apply Hk; reflexivity.
      + cbn. split; [|intros _ [=]]. right. split; [auto|reflexivity].
    - cbn. split; [|intros _ [=]]. left. auto.
  Qed.
End Bridge.

(* ---- the kernel's component split on rendered paths ---------------------------------- *)
Lemma kcomps_acc_word : forall (w cur rest : str),
  (forall x, In x w -> x <> SLASH) -> kcomps_acc cur (w ++ rest) = kcomps_acc (rev w ++ cur) rest.
Proof.
  induction w as [|a w IH]; intros cur rest Hw; [reflexivity|]. cbn [app kcomps_acc].
  assert (Ha : N.eqb a SLASH = false) by (apply N.eqb_neq, Hw; left; reflexivity).
  rewrite Ha, IH by (intros x Hx; apply Hw; right; exact Hx).
  cbn [rev]. rewrite <- app_assoc. reflexivity.
Qed.

Lemma kcomps_acc_rpath : forall (cs : list str) (cur : str),
  Forall comp_ok cs ->
  kcomps_acc cur (rpath cs) = match cur with [] => cs | _ => rev cur :: cs end.
Proof.
  induction cs as [|c cs IH]; intros cur Hok.
  - cbn [rpath kcomps_acc]. reflexivity.
  - inversion Hok as [|? ? Hc Hok']; subst. cbn [rpath kcomps_acc]. change (N.eqb SLASH SLASH) with true. cbv iota.
    destruct Hc as (Hne & Hsf).
    assert (E : kcomps_acc [] (c ++ rpath cs) = c :: cs).
    { rewrite kcomps_acc_word by exact Hsf. rewrite app_nil_r, IH by exact Hok'.
      destruct (rev c) eqn:Er.
      - apply (f_equal (@rev N)) in Er. rewrite rev_involutive in Er. cbn in Er. congruence.
      - rewrite <- Er, rev_involutive. reflexivity. }
    destruct cur; rewrite E; reflexivity.
Qed.

Lemma kcomps_abs_path (cs : list str) : Forall comp_ok cs -> kcomps (abs_path cs) = cs.
Proof.
  intros Hok. destruct cs as [|c cs]; [reflexivity|].
  rewrite abs_path_rpath by discriminate. unfold kcomps. apply kcomps_acc_rpath. exact Hok.
Qed.

Lemma intercalate_rpath (c : str) (l : list str) : intercalate [SLASH] (c :: l) = c ++ rpath l.
Proof.
  revert c. induction l as [|c2 l IH]; intros c.
  - cbn [intercalate rpath]. rewrite app_nil_r. reflexivity.
  - change (intercalate [SLASH] (c :: c2 :: l)) with (c ++ [SLASH] ++ intercalate [SLASH] (c2 :: l)).
    rewrite IH. reflexivity.
Qed.

Lemma kcomps_intercalate (l : list str) : Forall comp_ok l -> l <> [] -> kcomps (intercalate [SLASH] l) = l.
Proof.
  intros Hok Hne. destruct l as [|c l]; [congruence|]. inversion Hok as [|? ? Hc Hok']; subst.
  rewrite intercalate_rpath. unfold kcomps. destruct Hc as (Hcn & Hsf).
  rewrite kcomps_acc_word by exact Hsf. rewrite app_nil_r, kcomps_acc_rpath by exact Hok'.
  destruct (rev c) eqn:Er.
  - apply (f_equal (@rev N)) in Er. rewrite rev_involutive in Er. cbn in Er. congruence.
  - rewrite <- Er, rev_involutive. reflexivity.
Qed.

Lemma ktrailing_snoc (a : str) (x : N) : ktrailing (a ++ [x]) = N.eqb x SLASH.
Proof. unfold ktrailing. rewrite rev_app_distr. reflexivity. Qed.

Lemma ktrailing_app_comp (a c : str) : comp_ok c -> ktrailing (a ++ c) = false.
Proof.
  intros (Hne & Hsf). destruct (exists_last Hne) as (c0 & x & ->).
  rewrite app_assoc, ktrailing_snoc. apply N.eqb_neq, Hsf, in_or_app. right. left. reflexivity.
Qed.

Lemma ktrailing_abs_path (cs : list str) : Forall comp_ok cs -> cs <> [] -> ktrailing (abs_path cs) = false.
Proof.
  intros Hok Hne. destruct (exists_last Hne) as (cs0 & c & ->).
  rewrite abs_path_split. cbn [rpath]. rewrite app_nil_r. apply ktrailing_app_comp.
  apply Forall_app in Hok as (_ & Hc). inversion Hc; assumption.
Qed.

Lemma ktrailing_intercalate (l : list str) : Forall comp_ok l -> l <> [] -> ktrailing (intercalate [SLASH] l) = false.
Proof.
  intros Hok Hne. destruct (exists_last Hne) as (l0 & c & ->).
  rewrite intercalate_snoc. apply Forall_app in Hok as (_ & Hc). inversion Hc as [|? ? Hc' _]; subst.
  destruct l0; [exact (ktrailing_app_comp [] c Hc')|].
  rewrite app_assoc. apply ktrailing_app_comp. exact Hc'.
Qed.

(* ---- search_node / klookup on a clean absolute path ----------------------------------- *)
Lemma search_node_abs_path (s : fsys) (v : view) (cs : list str) (slm : slmode) :
  v_os v = Linux -> Forall good_comp cs ->
  search_node s v (abs_path cs) slm
  = search_loop SEARCH_FUEL (f_heap s) v slm (v_root v) (v_root v) (pi_new Linux (abs_path cs)) 0 None.
Proof.
  intros Hos Hg. unfold search_node. rewrite Hos. unfold abs.
  change (is_abs Linux (abs_path cs)) with true. cbv iota. rewrite clean_abs_path_fix by exact Hg. reflexivity.
Qed.

Lemma klookup_abs_path (s : fsys) (sv : sview) (pm follow : bool) (cs : list str) :
  Forall good_comp cs ->
  klookup s sv pm follow (abs_path cs)
  = kwalk WALK_FUEL (f_heap s) (v_user (sv_view sv)) (v_root (sv_view sv)) pm follow (v_root (sv_view sv)) cs 0
          (match cs with [] => true | _ => false end).
Proof.
  intros Hg. unfold klookup. change (kabs (abs_path cs)) with true. cbv iota.
  assert (Hok : Forall comp_ok cs) by (apply Forall_comp_ok_of; exact Hg).
  rewrite (kcomps_abs_path cs Hok). unfold abs_path at 1. cbv iota. f_equal.
  destruct cs as [|c cs]; [reflexivity|]. apply ktrailing_abs_path; [exact Hok|discriminate].
Qed.

(* ---- goal 1: the symlink-free bridge, from the root ------------------------------------ *)
Section BridgeTop.
  Variables (h : heap) (v : view).
  Hypothesis Hos : v_os v = Linux.
  Notation u := (v_user v).
  Notation root := (v_root v).

  (* The kernel tests the search bit of a directory BEFORE looking a name up in it; the implementation
     tests it when it ENTERS a directory as a non-final child, and - for the view's root, which is never
     entered as a child - before each lookup made in the root ([root_check]).  The two disciplines
     coincide: same bit, same moment relative to the other lookups; no hypothesis on the permissions is
     needed ([bridge_root_unsearchable] is the case of a root the caller may not search). *)
  Theorem bridge_root_unsearchable (c : str) (cs : list str) (slm : slmode) (follow pm md : bool)
          (fi fk cnt slcount kroot : nat) (saved : option piter) (pi : piter) :
    Forall comp_ok (c :: cs) -> before (c :: cs) [] pi ->
    node_is_dir h root = true -> kperm h root 1 u = false ->
    sr_err (search_loop (S fi) h v slm root root pi slcount saved) = EPermDenied
    /\ kwalk (S fk) h u kroot pm follow root (c :: cs) cnt md = WErr EACCES.
  Proof.
    intros Hok Hb Hd Hp. split.
    - rewrite (search_loop_on h v Hos fi slm root root pi slcount saved [] cs c Hok Hb). cbv zeta.
      rewrite root_check_kperm, Nat.eqb_refl, Hp. reflexivity.
    - rewrite kwalk_S, Hd, Hp. reflexivity.
  Qed.

  Theorem bridge_nolink_x (cs : list str) (slm : slmode) (follow md : bool) (fi fk : nat) (kroot : nat) :
    Forall good_comp cs -> link_free h root cs = true -> node_is_dir h root = true ->
    length cs < fi -> length cs < fk -> (md = false \/ cs = []) ->
    walk_relx h u root (precise_of slm)
      (search_loop fi h v slm root root (pi_new Linux (abs_path cs)) 0 None)
      (kwalk fk h u kroot false follow root cs 0 md).
  Proof.
    intros Hg Hlf Hd Hfi Hfk Hmd. destruct cs as [|c cs].
    - destruct fi as [|fi]; [cbn [length] in Hfi; lia|]. destruct fk as [|fk]; [cbn [length] in Hfk; lia|].
      rewrite (search_loop_end h v Hos fi slm root root _ 0 None [] (Forall_nil _) (pi_new_before [])).
      rewrite kwalk_S. cbn [walk_relx sr_err sr_child sr_parent]. split; [reflexivity|]. split; [reflexivity|].
      split; [apply node_is_dir_valid; exact Hd|]. split; [eauto|]. split; [reflexivity|]. split; [intros [=]|].
      intros _ _. exists []. split; [constructor|]. split; reflexivity.
    - destruct Hmd as [->|Hmd]; [|discriminate]. destruct (kperm h root 1 u) eqn:Hp.
      + apply (bridge_nolink_at h v Hos (c :: cs) [] root); auto; try lia; try discriminate.
        apply pi_new_before.
      + destruct fi as [|fi]; [cbn [length] in Hfi; lia|]. destruct fk as [|fk]; [cbn [length] in Hfk; lia|].
        assert (Hok : Forall comp_ok (c :: cs)) by (apply Forall_comp_ok_of; exact Hg).
        rewrite (search_loop_on h v Hos fi slm root root _ 0 None [] cs c Hok (pi_new_before (c :: cs))). cbv zeta.
        rewrite root_check_kperm, Nat.eqb_refl, Hp. rewrite kwalk_S, Hd, Hp. cbn.
        split; [|intros _ [=]]. right. split; [auto|reflexivity].
  Qed.
End BridgeTop.

(* the bridge at the level of the two entry points *)
Theorem bridge_nolink_lookup_x (s : fsys) (sv : sview) (cs : list str) (slm : slmode) (follow : bool) :
  let v := sv_view sv in
  v_os v = Linux -> Forall good_comp cs -> link_free (f_heap s) (v_root v) cs = true ->
  node_is_dir (f_heap s) (v_root v) = true ->
  length cs < SEARCH_FUEL ->
  walk_relx (f_heap s) (v_user v) (v_root v) (precise_of slm)
    (search_node s v (abs_path cs) slm) (klookup s sv false follow (abs_path cs)).
Proof.
  intros v Hos Hg Hlf Hd Hlen. rewrite (search_node_abs_path s v cs slm Hos Hg), (klookup_abs_path s sv false follow cs Hg).
  apply bridge_nolink_x; auto.
  - unfold SEARCH_FUEL, WALK_FUEL in *. lia.
  - destruct cs; [right; reflexivity|left; reflexivity].
Qed.

Theorem bridge_nolink_lookup (s : fsys) (sv : sview) (cs : list str) (slm : slmode) (follow : bool) :
  let v := sv_view sv in
  v_os v = Linux -> Forall good_comp cs -> link_free (f_heap s) (v_root v) cs = true ->
  node_is_dir (f_heap s) (v_root v) = true ->
  length cs < SEARCH_FUEL ->
  walk_rel (f_heap s) (v_user v) (v_root v) (precise_of slm)
    (search_node s v (abs_path cs) slm) (klookup s sv false follow (abs_path cs)).
Proof. intros v H1 H2 H3 H4 H5. apply walk_relx_rel. apply bridge_nolink_lookup_x; assumption. Qed.
