(* C01: MkdirAll enters the history theorem on the states of C05 (the calls of StepHist.covered_x plus MkdirAll on a
   path whose existing part is a directory walk). *)
From Avfs Require Import Base BaseProofs PathModel PathSpec PathProofs PathCleanProofs PathIterProofs.
From Avfs Require Import MemFS MemFile World Posix Inv InvMutators InvWorld.
From Avfs Require Import WalkBridge WalkSym WalkBudget WalkReadlink WalkRel StepEq WalkInv StepInv StepRename StepRenameDir
  StepHist StepMkdirAll.

(* ---- the chain keeps the link hypotheses --------------------------------------------------------------------------------------- *)
Lemma len_add_child (h : heap) (p : nat) (n : str) (c : nat) : length (add_child h p n c) = length h.
Proof. unfold add_child. destruct (get h p) as [[ch m| |]|]; try reflexivity. apply upd_length. Qed.

Lemma ptr_valid_create (h : heap) (par : nat) (name : str) (m : meta) :
  ptr_valid h -> ptr_valid (add_child (h ++ [NDir [] m]) par name (length h)).
Proof.
  intros Hpv d n i Hin. rewrite len_add_child, app_length. cbn [length].
  apply add_child_dedge in Hin as [Hin|(_ & _ & ->)]; [|lia].
  unfold dedge in Hin. rewrite children_app in Hin. destruct (Nat.ltb d (length h)).
  - pose proof (Hpv d n i Hin). lia.
  - destruct (Nat.eqb d (length h)); destruct Hin.
Qed.

Lemma links_ok_mk_chain (v : view) (perm : N) : forall (rest : list str) (s : fsys) (dn : nat),
  ptr_valid (f_heap s) -> links_ok (f_heap s) -> links_ok (f_heap (fst (mk_chain s v dn rest perm))).
Proof.
  induction rest as [|c rest IH]; intros s dn Hpv Hok; [exact Hok|]. cbn [mk_chain create_dir].
  apply IH; cbn [f_heap].
  - apply ptr_valid_create. exact Hpv.
  - apply links_ok_alloc; [exact Hpv|reflexivity| |exact Hok]. intros t m E. discriminate E.
Qed.

(* ---- the call at the level of worlds ------------------------------------------------------------------------------------------- *)
Lemma wstep_mkdir_all (w : world) (vi : nat) (v : view) (p : str) (perm : N) :
  nth_error (w_views w) vi = Some v -> wstep w (CMkdirAll vi p perm) = lift w (mkdir_all (w_fs w) v p perm).
Proof. intros Hv. unfold wstep, on_view. rewrite Hv. reflexivity. Qed.

Lemma spec_mkdir_all (sw : sworld) (vi : nat) (p : str) (perm : N) :
  spec_step true sw (CMkdirAll vi p perm)
  = ({| sw_fs := fst (go_mkdir_all (S (length p)) (sw_fs sw) (sw_sv sw) p perm); sw_sv := sw_sv sw |},
     snd (go_mkdir_all (S (length p)) (sw_fs sw) (sw_sv sw) p perm)).
Proof. reflexivity. Qed.

Definition mkdir_all_ok (vi : nat) (sw : sworld) (c : call) : Prop :=
  let s := sw_fs sw in
  let sv := sw_sv sw in
  let v := sv_view sv in
  match c with
  | CMkdirAll vi' p perm =>
      vi' = vi /\ v_os v = Linux /\ us_admin (v_user v) = true /\
      exists done rest par,
        p = abs_path (done ++ rest) /\ Forall good_comp (done ++ rest) /\ dir_at s v done par
        /\ (forall c r, rest = c :: r -> alookup str_eqb c (children (f_heap s) par) = None)
        /\ has (m_mode (meta_of (f_heap s) par)) MODE_DIR = true
        /\ length (done ++ rest) < SEARCH_FUEL
  | _ => False
  end.

Definition covered_m (vi : nat) (sw : sworld) (c : call) : Prop := covered_x vi sw c \/ mkdir_all_ok vi sw c.

Theorem step_world_m (w : world) (vi : nat) (sw : sworld) (c : call) :
  absw w vi sw -> covered_m vi sw c ->
  obs_sim (snd (impl_step_proj w c)) (snd (spec_step true sw c))
  /\ absw (fst (impl_step_proj w c)) vi (fst (spec_step true sw c)).
Proof.
  intros Ha [Hc|Hc]; [exact (step_world_x w vi sw c Ha Hc)|]. pose proof Ha as (Hfs & Hv).
  destruct c; try (destruct Hc; fail).
  destruct Hc as (-> & Hos & Hadm & done & rest & par & Ep & Hg & Hd & Hfr & Hbit & Hlen).
  apply (world_of_lift w vi sw _ (mkdir_all (w_fs w) (sv_view (sw_sv sw)) p perm)
           (go_mkdir_all (S (length p)) (sw_fs sw) (sw_sv sw) p perm) Ha).
  - apply (impl_lift w _ _ (wstep_mkdir_all w vi _ p perm Hv)); [left; discriminate|exact I].
  - apply spec_mkdir_all.
  - rewrite <- Hfs, Ep. exact (proj1 (step_mkdir_all (sw_fs sw) (sw_sv sw) perm done rest par Hos Hadm Hg Hd Hfr Hbit Hlen)).
Qed.

Theorem links_ok_spec_step_m (vi : nat) (sw : sworld) (c : call) :
  covered_m vi sw c -> ptr_valid (f_heap (sw_fs sw)) -> links_ok (f_heap (sw_fs sw)) ->
  links_ok (f_heap (sw_fs (fst (spec_step true sw c)))) /\ sw_sv (fst (spec_step true sw c)) = sw_sv sw.
Proof.
  intros [Hc|Hc] Hpv Hok; [exact (links_ok_spec_step_x vi sw c Hc Hpv Hok)|].
  destruct c; try (destruct Hc; fail).
  destruct Hc as (-> & Hos & Hadm & done & rest & par & Ep & Hg & Hd & Hfr & Hbit & Hlen).
  rewrite spec_mkdir_all. cbn [fst sw_fs sw_sv]. split; [|reflexivity].
  rewrite Ep, (proj2 (step_mkdir_all (sw_fs sw) (sw_sv sw) perm done rest par Hos Hadm Hg Hd Hfr Hbit Hlen)).
  cbn [fst]. apply links_ok_mk_chain; assumption.
Qed.

Definition call_ok_m := gen_call_ok covered_m.
Definition call_ok_run_m := gen_call_ok_run covered_m.

Theorem history_inv_m (vi : nat) (cs : list call) (w : world) (sw : sworld) :
  Inv w -> absw w vi sw -> us_admin (v_user (sv_view (sw_sv sw))) = true -> links_ok (f_heap (w_fs w)) ->
  call_ok_run_m vi sw cs ->
  Forall2 obs_sim (snd (impl_run w cs)) (snd (spec_run sw cs))
  /\ absw (fst (impl_run w cs)) vi (fst (spec_run sw cs))
  /\ Inv (fst (impl_run w cs)) /\ links_ok (f_heap (w_fs (fst (impl_run w cs)))).
Proof. exact (gen_history_inv covered_m step_world_m links_ok_spec_step_m vi cs w sw). Qed.

(* ---- non-vacuity: a history with MkdirAll (three new directories), an Lstat below them, MkdirAll of an existing path ------------------- *)
Module StepHistMExamples.
  Import WalkSymExamples WalkSymNonVacuity StepExamples StepInvExamples StepMkdirAllExamples.

  Definition hm : list call :=
    [ CMkdirAll 0 (abs_path ([s_d; s_e] ++ [s_x; s_missing; s_d])) 493;
      CLstat 0 (abs_path [s_d; s_e; s_x; s_missing; s_d]);
      CMkdirAll 0 (abs_path ([s_d; s_e; s_x] ++ [])) 448 ].

  Example hm_ok : call_ok_run_m 0 sw_tree hm.
  Proof.
    unfold hm. cbn [call_ok_run_m gen_call_ok_run]. split; [|split; [|split; [|exact I]]]; intros Hsh _ _.
    - right. split; [reflexivity|]. split; [reflexivity|]. split; [reflexivity|].
      exists [s_d; s_e], [s_x; s_missing; s_d], 2. split; [reflexivity|]. split; [good_tac|]. split; [split; reflexivity|].
      split; [intros c r [= <- <-]; reflexivity|]. split; [reflexivity|].
      unfold SEARCH_FUEL. cbn [length app]. lia.
    - left. left. split; [exact Hsh|]. split; [reflexivity|]. exists [s_d; s_e; s_x; s_missing; s_d]. split; [reflexivity|].
      split; [good_tac|split; vm_compute; discriminate].
    - right. split; [reflexivity|]. split; [reflexivity|]. split; [reflexivity|].
      exists [s_d; s_e; s_x], [], (length tree). split; [reflexivity|]. split; [good_tac|].
      split; [split; vm_compute; reflexivity|].
      split; [intros c r E; discriminate E|]. split; [vm_compute; reflexivity|].
      unfold SEARCH_FUEL. cbn [length app]. lia.
  Qed.

  Example hm_inv :
    Forall2 obs_sim (snd (impl_run w_tree hm)) (snd (spec_run sw_tree hm))
    /\ absw (fst (impl_run w_tree hm)) 0 (fst (spec_run sw_tree hm))
    /\ Inv (fst (impl_run w_tree hm)) /\ links_ok (f_heap (w_fs (fst (impl_run w_tree hm)))).
  Proof. exact (history_inv_m 0 hm w_tree sw_tree tree_inv (proj1 hist_covered) eq_refl tree_links_ok hm_ok). Qed.

  (* what the history answers: success, the information of the innermost new directory, success *)
  Example hm_results :
    match snd (spec_run sw_tree hm) with
    | [SOk; SInfo i; SOk] => has (fi_mode i) MODE_DIR = true
    | _ => False
    end.
  Proof. vm_compute. reflexivity. Qed.
End StepHistMExamples.
