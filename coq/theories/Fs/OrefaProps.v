(* Theorems about the OrefaFS model (statements to be restated in Properties/C05.v, C07.v).

   C05_orefa_init          the initial file system satisfies the invariant
   C05_orefa_step          every call preserves it - all calls (RemoveAll of whole subtrees included, OrefaRmAll.v),
                           successful or failed, any arguments, any user and umask
   C05_orefa_reach         hence every state reachable by any history of calls from the initial world
   C05_orefa_index_function, C05_orefa_keys_clean, C05_orefa_parent_dir, C05_orefa_nlink, C05_orefa_walk (I7),
   C05_orefa_dir_one_path  what the invariant says, in the words of the property. *)
From Avfs Require Import Base PathModel PathSpec PathProofs PathCleanProofs PathIterProofs MemFS MemFile World
  OrefaFS OrefaWorld OrefaLemmas OrefaInv OrefaRmAll.

(* ---- the initial state ------------------------------------------------------------------------------- *)
Lemma hinv_empty_root m : has (m_mode m) MODE_DIR = true ->
  hinv [([], 0); ([SLASH], 0)] [{| on_ch := []; on_data := []; on_nlink := 0; on_id := 0; on_meta := m |}].
Proof.
  intros Hd.
  assert (Hlk : forall k i, ikey [([], 0); ([SLASH], 0)] k = Some i -> (k = [] \/ k = [SLASH]) /\ i = 0).
  { intros k i. unfold ikey. cbn [alookup]. destruct (str_eqb_spec k []) as [->|_]; [intros [= <-]; auto|].
    destruct (str_eqb_spec k [SLASH]) as [->|_]; [intros [= <-]; auto|discriminate]. }
  assert (Hnokey : forall cs c, gcs (cs ++ [c]) -> Fi [([], 0); ([SLASH], 0)] (cs ++ [c]) = None).
  { intros cs c Hg. destruct (Fi _ (cs ++ [c])) as [i|] eqn:E; [exfalso|reflexivity].
    destruct (Hlk _ _ E) as [[H|H] _].
    - revert H. apply rpath_snoc_not_nil.
    - revert H. apply rpath_not_slash. apply gcs_ok. exact Hg. }
  constructor.
  - cbn. constructor; [intros [H|[]]; discriminate|constructor; [intros []|constructor]].
  - intros k i Hk. destruct (Hlk k i Hk) as [[->| ->] ->]; [right; exists []; split; [constructor|reflexivity]|left; auto].
  - split; reflexivity.
  - eexists. split; [reflexivity|exact Hd].
  - intros cs Hcs HF. destruct (Hlk _ _ HF) as [[H|H] _]; [apply rpath_nil_inv; exact H|].
    exfalso. revert H. apply rpath_not_slash. apply gcs_ok. exact Hcs.
  - intros k i Hk. destruct (Hlk k i Hk) as [_ ->]. eexists. reflexivity.
  - intros cs c i Hcs Hc. rewrite (Hnokey cs c (gcs_snoc _ _ Hcs Hc)). split; [discriminate|].
    intros (p & Hp & Hq). destruct (Hlk _ _ Hp) as [_ ->]. unfold Ch in Hq. cbn in Hq. discriminate.
  - intros [|i] n Hn; [inversion Hn; subst; reflexivity|destruct i; discriminate].
  - intros [|i] n Hn Hi0; [congruence|destruct i; discriminate].
  - intros [|i] n Hn _; [inversion Hn; subst; cbn; lia|destruct i; discriminate].
  - intros [|i] n c j Hn Hin; [inversion Hn; subst; destruct Hin|destruct i; discriminate].
  - intros [|i] n Hn; [inversion Hn; subst; constructor|destruct i; discriminate].
Qed.

Theorem C05_orefa_init : forall um, orefa_inv (o_init_fs Linux um).
Proof.
  intros um. unfold o_init_fs. apply inv_with_umask.
  apply step_chmod. apply step_mkdir_all. apply step_chmod. apply step_mkdir_all. apply step_chmod. apply step_mkdir_all.
  constructor; cbn [o_os o_cwd o_index o_heap].
  - reflexivity.
  - exists []. split; [constructor|reflexivity].
  - apply hinv_empty_root. cbn [m_mode]. vm_compute. reflexivity.
Qed.

(* ---- every call ---------------------------------------------------------------------------------------- *)
Theorem C05_orefa_step : forall w c, orefa_inv (ow_fs w) -> orefa_inv (ow_fs (fst (ostep w c))).
Proof.
  intros w c Hinv. unfold ostep, o_on_view, o_on_handle, olift.
  destruct c; try (destruct vi; [|exact Hinv]); try (destruct (nth_error (ow_handles w) hi) as [f|]; [|exact Hinv]);
    cbn [fst ow_fs ow_with_fs]; try exact Hinv.
  - apply step_mkdir; exact Hinv.
  - apply step_mkdir_all; exact Hinv.
  - pose proof (step_open_file (ow_fs w) p flag perm Hinv) as H.
    destruct (o_open_file (ow_fs w) p flag perm) as [s1 [r|f]]; exact H.
  - apply step_remove; exact Hinv.
  - apply step_remove_all; exact Hinv.
  - apply step_rename; exact Hinv.
  - apply step_link; exact Hinv.
  - apply step_truncate; exact Hinv.
  - apply step_chmod; exact Hinv.
  - apply step_chown; exact Hinv.
  - apply step_chown; exact Hinv.
  - apply step_chdir; exact Hinv.
  - apply step_write_file; exact Hinv.
  - apply inv_with_user; exact Hinv.
  - apply inv_with_umask; exact Hinv.
  - destruct (of_read (ow_fs w) f n) as [f' r]. exact Hinv.
  - pose proof (step_of_write (ow_fs w) f b Hinv) as H. destruct (of_write (ow_fs w) f b) as [[s1 f'] r]. exact H.
  - apply step_of_write_at; exact Hinv.
  - destruct (of_seek (ow_fs w) f off whence) as [f' r]. exact Hinv.
  - apply step_of_truncate; exact Hinv.
  - apply step_of_chmod; exact Hinv.
  - apply step_of_chown; exact Hinv.
  - apply step_of_chdir; exact Hinv.
  - destruct (f_close f) as [f' r]. exact Hinv.
  - destruct (of_read_dir (ow_fs w) f n) as [f' r]. exact Hinv.
  - destruct (of_readdirnames (ow_fs w) f n) as [f' r]. exact Hinv.
Qed.

Lemma orun_fst w : forall cs, fst (orun w cs) = fold_left (fun w c => fst (ostep w c)) cs w.
Proof.
  intros cs. revert w. induction cs as [|c r IH]; intros w; cbn [orun fold_left]; [reflexivity|].
  destruct (ostep w c) as [w1 r1] eqn:E. specialize (IH w1). destruct (orun w1 r) as [w2 rs]. cbn [fst] in *.
  rewrite IH. reflexivity.
Qed.

Theorem C05_orefa_reach : forall um cs, orefa_inv (ow_fs (fst (orun (o_init_world_linux um) cs))).
Proof.
  intros um cs. rewrite orun_fst.
  assert (H : orefa_inv (ow_fs (o_init_world_linux um))) by apply C05_orefa_init.
  revert H. generalize (o_init_world_linux um). induction cs as [|c r IH]; intros w Hinv; cbn [fold_left]; [exact Hinv|].
  apply IH. apply C05_orefa_step. exact Hinv.
Qed.

(* ---- what the invariant says ------------------------------------------------------------------------------ *)
(* the node map is a function *)
Theorem C05_orefa_index_function : forall s k i j,
  orefa_inv s -> In (k, i) (o_index s) -> In (k, j) (o_index s) -> i = j.
Proof.
  intros s k i j Hinv Hi Hj. pose proof (hi_nodup _ _ (inv_h _ Hinv)) as Hnd.
  apply (in_al nat k i _ Hnd) in Hi. apply (in_al nat k j _ Hnd) in Hj. congruence.
Qed.

(* every key is the empty key of the root or a lexically clean absolute path *)
Theorem C05_orefa_keys_clean : forall s k i,
  orefa_inv s -> In (k, i) (o_index s) -> k = [] \/ (is_abs Linux k = true /\ clean Linux k = k).
Proof.
  intros s k i Hinv Hin. pose proof (inv_h _ Hinv) as Hh.
  apply (in_al nat k i _ (hi_nodup _ _ Hh)) in Hin.
  destruct (hi_keys _ _ Hh k i Hin) as [[-> _]|(cs & Hcs & ->)].
  - right. split; reflexivity.
  - destruct cs as [|c cs]; [left; reflexivity|right].
    rewrite <- (@abs_path_rpath (c :: cs)) by discriminate.
    split; [reflexivity|apply clean_abs_path_fix; exact Hcs].
Qed.

(* the parent path of every key is a key, of a directory, whose children map has the entry *)
Theorem C05_orefa_parent_dir : forall s cs c i,
  orefa_inv s -> gcs cs -> good_comp c -> ikey (o_index s) (rpath (cs ++ [c])) = Some i ->
  osplit Linux (rpath (cs ++ [c])) = Some (rpath cs, c)
  /\ exists p pn, ikey (o_index s) (rpath cs) = Some p /\ oget (o_heap s) p = Some pn /\ on_dir pn = true
                  /\ alookup str_eqb c (on_ch pn) = Some i.
Proof.
  intros s cs c i Hinv Hcs Hc Hk. split.
  - apply split_abs_rpath. apply comp_ok_nosl. apply good_comp_ok'. exact Hc.
  - apply (parent_is_dir _ _ (inv_h _ Hinv) cs c i Hcs Hc Hk).
Qed.

(* the link count of every node but the root is the number of keys bound to it; in particular for files *)
Theorem C05_orefa_nlink : forall s i n,
  orefa_inv s -> oget (o_heap s) i = Some n -> on_dir n = false ->
  on_nlink n = Z.of_nat (length (filter (fun e => Nat.eqb (snd e) i) (o_index s))).
Proof.
  intros s i n Hinv Hn Hd. apply (hi_nlink _ _ (inv_h _ Hinv) i n Hn).
  intros ->. destruct (hi_rootdir _ _ (inv_h _ Hinv)) as (r & Hr & Hrd). congruence.
Qed.

(* a directory is reached by one path *)
Theorem C05_orefa_dir_one_path : forall s cs1 cs2 p n,
  orefa_inv s -> gcs cs1 -> gcs cs2 ->
  ikey (o_index s) (rpath cs1) = Some p -> ikey (o_index s) (rpath cs2) = Some p ->
  oget (o_heap s) p = Some n -> on_dir n = true -> cs1 = cs2.
Proof.
  intros s cs1 cs2 p n Hinv H1 H2 F1 F2 Hn Hd.
  apply (dir_key_unique _ _ (inv_h _ Hinv) cs1 cs2 p H1 H2 F1 F2). exists n. auto.
Qed.

(* I7: the node map and the walk through the children maps from the root agree *)
Fixpoint owalk (h : oheap) (i : nat) (cs : list str) : option nat :=
  match cs with
  | [] => Some i
  | c :: r => match Ch h i c with Some j => owalk h j r | None => None end
  end.

Lemma owalk_snoc h : forall cs i c,
  owalk h i (cs ++ [c]) = match owalk h i cs with Some p => Ch h p c | None => None end.
Proof.
  induction cs as [|x r IH]; intros i c; cbn [owalk app].
  - destruct (Ch h i c); reflexivity.
  - destruct (Ch h i x) as [j|]; [apply IH|reflexivity].
Qed.

Theorem C05_orefa_walk : forall s cs,
  orefa_inv s -> gcs cs -> ikey (o_index s) (rpath cs) = owalk (o_heap s) 0 cs.
Proof.
  intros s cs Hinv. pose proof (inv_h _ Hinv) as Hh.
  induction cs as [|c cs IH] using rev_ind; intros Hcs.
  - cbn [rpath owalk]. apply (hi_root _ _ Hh).
  - apply gcs_snoc_inv in Hcs. destruct Hcs as [Hcs Hc]. specialize (IH Hcs). rewrite owalk_snoc, <- IH.
    fold (Fi (o_index s) (cs ++ [c])). fold (Fi (o_index s) cs).
    destruct (Fi (o_index s) (cs ++ [c])) as [i|] eqn:E.
    + apply (hi_edge _ _ Hh cs c i Hcs Hc) in E. destruct E as (p & Hp & Hq). rewrite Hp. symmetry. exact Hq.
    + destruct (Fi (o_index s) cs) as [p|] eqn:Ep; [|reflexivity].
      destruct (Ch (o_heap s) p c) as [i|] eqn:Eq; [|reflexivity].
      assert (H : Fi (o_index s) (cs ++ [c]) = Some i) by (apply (hi_edge _ _ Hh cs c i Hcs Hc); eauto). congruence.
Qed.

(* non-vacuity: after MkdirAll("/a/b") and WriteFile("/a/b/c") + Link, the invariant holds and says nlink = 2 *)
Example C05_orefa_example :
  let a := [97%N] in let b := [98%N] in let c := [99%N] in let d := [100%N] in
  let cs := [CMkdirAll 0 (abs_path [a; b]) 493; CWriteFile 0 (abs_path [a; b; c]) [120%N] 420;
             CLink 0 (abs_path [a; b; c]) (abs_path [a; d])] in
  snd (orun (o_init_world_linux 18) cs) = [ROk; ROk; ROk]
  /\ o_stat (ow_fs (fst (orun (o_init_world_linux 18) cs))) (abs_path [a; d])
     = RInfo {| fi_name := d; fi_size := 1; fi_mode := 420; fi_uid := 0; fi_gid := 0; fi_nlink := 2; fi_id := 6 |}.
Proof. vm_compute. split; reflexivity. Qed.

(* ---- the key rewrite of Rename and the order of the Go range loop -------------------------------------------- *)
(* [o_rekey_go order] is the loop of Rename for the visiting order [order] (OrefaFS.v).
   (a) When the new path is not below the old one - what Rename checks since fix 0006 - the visiting order and
       revisiting inserted keys do not matter and the result is the map [o_rekey] the model uses: shown here on an
       instance (three orders, one of them visiting the inserted keys again); in general by the argument in
       OrefaFS.v (no inserted key matches the prefix), not proved.
   (b) Without that check the result depends on the order: Rename("/a", "/a/b") - two orders, two different maps.
       This is the order-dependence of the unfixed code made explicit. *)
Example rekey_order_instance :
  let a := [97%N] in let b := [98%N] in let c := [99%N] in let x := [120%N] in
  let idx := [([], 0); ([SLASH], 0); (rpath [x], 1); (rpath [a; b], 3); (rpath [a; b; c], 4); (rpath [a; c], 5)] in
  let o := rpath [a] in let n := rpath [x; a] in
  let look (l : list (str * nat)) (k : str) := ikey l k in
  let ks := [rpath [x; a; b]; rpath [x; a; b; c]; rpath [x; a; c]; rpath [a; b]; rpath [a; c]; rpath [x]] in
  map (look (o_rekey_go Linux o n (map fst idx) idx)) ks = map (look (o_rekey Linux o n idx)) ks
  /\ map (look (o_rekey_go Linux o n (rev (map fst idx)) idx)) ks = map (look (o_rekey Linux o n idx)) ks
  /\ map (look (o_rekey_go Linux o n (map fst idx ++ [rpath [x; a; b]; rpath [a; b]; rpath [x; a; c]]) idx)) ks
     = map (look (o_rekey Linux o n idx)) ks.
Proof. vm_compute. repeat split. Qed.

Example rekey_order_dependence_unfixed :
  let a := [97%N] in let b := [98%N] in let c := [99%N] in
  (* the node map in the middle of the unfixed Rename("/a", "/a/b"): "/a" already re-bound to "/a/b" *)
  let idx := [([], 0); ([SLASH], 0); (rpath [a; b], 1); (rpath [a; c], 2)] in
  let o := rpath [a] in let n := rpath [a; b] in
  (* visiting "/a/b" first re-keys the entry just inserted and then, revisiting, the result again ... *)
  ikey (o_rekey_go Linux o n [rpath [a; b]; rpath [a; c]; rpath [a; b; b]] idx) (rpath [a; b; b; b]) = Some 1
  (* ... visiting the keys once in the other order does not *)
  /\ ikey (o_rekey_go Linux o n [rpath [a; c]; rpath [a; b]] idx) (rpath [a; b; b; b]) = None.
Proof. vm_compute. split; reflexivity. Qed.
