(* Property C05: what the path walk (search_loop / search_node) guarantees about
   the nodes it returns - the structural part used by every call:
   the returned parent is a directory, and the returned child is either the
   parent itself (the walk ended on the start directory) or the parent's entry
   for the last part of the iterator; "does not exist" means the parent has no
   such entry. *)
From Avfs Require Import Base BaseProofs PathModel MemFS MemFile World Inv.

Definition search_post (h : heap) (r : sres) : Prop :=
  exists p, sr_parent r = Some p /\ is_dir h p /\
  match sr_child r with
  | Some c => is_not_exist (sr_err r) = false /\
              ((c = p /\ sr_err r = EFileExists) \/ alk (pi_part (sr_pi r)) (children h p) = Some c)
  | None => is_file_exists (sr_err r) = false /\
            (is_not_exist (sr_err r) = true -> alk (pi_part (sr_pi r)) (children h p) = None)
  end.

Lemma search_loop_post h v slm vol :
  v_os v = Linux ->    (* on Windows a file met before the end of the path reports the no-such-directory value *)
  slm <> SlStat -> is_dir h vol ->
  forall fuel parent pi sl, is_dir h parent ->
    search_post h (search_loop fuel h v slm vol parent pi sl None).
Proof.
  intros Hos Hslm Hvol. induction fuel as [|f IH]; intros parent pi sl Hpar; cbn [search_loop].
  - exists parent. cbn. repeat split; auto; discriminate.
  - destruct (pi_next (v_os v) pi) as [ok pi1]. destruct ok; cbn [negb].
    2:{ exists parent. cbn. repeat split; auto. }
    match goal with |- context [if ?b then _ else _] => destruct b end.
    { exists parent. cbn. repeat split; auto; discriminate. }
    destruct (alk (pi_part pi1) (children h parent)) as [c|] eqn:Elk.
    2:{ exists parent. cbn. repeat split; auto. destruct (pi_is_last pi1); auto. }
    assert (Hret : forall e, is_not_exist e = false ->
              search_post h {| sr_parent := Some parent; sr_child := Some c; sr_pi := out_pi pi1 None; sr_err := e |}).
    { intros e He. exists parent. cbn. repeat split; auto. }
    destruct (get h c) as [[ch m|dt k id m|lk m]|] eqn:Eg.
    + destruct (pi_is_last pi1); [now apply Hret|].
      destruct (check_permission m OpenLookup (v_user v)); [|now apply Hret].
      apply IH. apply is_dir_get. eauto.
    + rewrite Hos. destruct (pi_is_last pi1); now apply Hret.
    + destruct (pi_is_last pi1 && slmode_eqb slm SlLstat); [now apply Hret|].
      destruct (Nat.ltb slCountMax (S sl)); [now apply Hret|].
      assert (Hsaved : (if pi_is_last pi1 && slmode_eqb slm SlStat then Some pi1 else None) = None).
      { destruct slm; try congruence; now rewrite Bool.andb_false_r. }
      rewrite Hsaved.
      destruct (pi_replace_part (v_os v) pi1 lk) as [reset pi2].
      apply IH. now destruct reset.
    + now apply Hret.
Qed.

Lemma search_node_linux s v path slm :
  f_vols s = [] -> v_os v = Linux ->
  search_node s v path slm =
  search_loop SEARCH_FUEL (f_heap s) v slm (v_root v) (v_root v)
              (pi_new Linux (abs Linux (v_cwd v) path)) 0 None.
Proof.
  intros Hv Hos. unfold search_node. rewrite Hos. cbn [pi_new pi_vnl volume_name_len Nat.ltb Nat.leb].
  reflexivity.
Qed.

Lemma search_node_post s v path slm :
  f_vols s = [] -> view_ok (f_heap s) v -> slm <> SlStat ->
  search_post (f_heap s) (search_node s v path slm).
Proof.
  intros Hv [Hr Hos _] Hslm. rewrite search_node_linux by assumption.
  now apply search_loop_post.
Qed.

(* convenient consequences *)
Lemma search_post_parent h r : search_post h r -> exists p, sr_parent r = Some p /\ is_dir h p.
Proof. intros (p & H1 & H2 & _). eauto. Qed.

Lemma search_post_not_exist h r :
  search_post h r -> is_not_exist (sr_err r) = true ->
  exists p, sr_parent r = Some p /\ is_dir h p /\ sr_child r = None /\
            alk (pi_part (sr_pi r)) (children h p) = None.
Proof.
  intros (p & H1 & H2 & H3) He. exists p. split; auto. split; auto.
  destruct (sr_child r) as [c|].
  - destruct H3 as [H3 _]. congruence.
  - split; auto. now apply H3.
Qed.

Lemma search_post_exists h r :
  search_post h r -> is_file_exists (sr_err r) = true ->
  exists p c, sr_parent r = Some p /\ is_dir h p /\ sr_child r = Some c /\
              (c = p \/ alk (pi_part (sr_pi r)) (children h p) = Some c).
Proof.
  intros (p & H1 & H2 & H3) He.
  destruct (sr_child r) as [c|].
  - exists p, c. split; auto. split; auto. split; auto. destruct H3 as [_ [[-> _]|H3]]; auto.
  - destruct H3 as [H3 _]. congruence.
Qed.

Lemma search_post_child h r c :
  search_post h r -> sr_child r = Some c ->
  exists p, sr_parent r = Some p /\ is_dir h p /\
            (c = p \/ alk (pi_part (sr_pi r)) (children h p) = Some c).
Proof.
  intros (p & H1 & H2 & H3) Hc. rewrite Hc in H3. exists p. split; auto. split; auto.
  destruct H3 as [_ [[-> _]|H3]]; auto.
Qed.

Lemma search_post_child_none h r :
  search_post h r -> sr_child r = None -> is_not_exist (sr_err r) = true ->
  exists p, sr_parent r = Some p /\ is_dir h p /\ alk (pi_part (sr_pi r)) (children h p) = None.
Proof.
  intros (p & H1 & H2 & H3) Hc He. rewrite Hc in H3. exists p. split; auto. split; auto. now apply H3.
Qed.

(* a child found by the walk is a valid index *)
Lemma search_child_valid h r c :
  Inv_heap h -> search_post h r -> sr_child r = Some c -> c < length h.
Proof.
  intros IH HP Hc. destruct (search_post_child h r c HP Hc) as (p & _ & Hp & [->|Ha]).
  - now apply is_dir_lt.
  - apply alookup_In in Ha. eapply (I1_valid IH); eauto.
Qed.
